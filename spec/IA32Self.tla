------------------------------ MODULE IA32Self ------------------------------
(* Spec-internal obligations of the IA-32 reference (run by setup.sh):                                   *)
(*  1. the decode tables are total functions of the opcode byte (one row per opcode and prefix class);   *)
(*     prefix bytes, escapes and x87 escapes sit exactly where the SDM puts them;                        *)
(*  2. every row is well formed: operand codes are known codes, mandatory-prefix rows have four          *)
(*     variants, every group has eight slots (a row or explicitly undefined), every rm-split has eight;  *)
(*  3. on the generated space (base forms of every opcode, MaxDev = 0 and a MaxDev = 1 focus set):       *)
(*     len = number of bytes consumed, every proper prefix of an instruction is incomplete, and bytes    *)
(*     after the instruction are not looked at (IA32Space!SpaceOK).                                      *)
EXTENDS IA32Space
RECURSIVE WF(_)
WF(r) == CASE r.g = ""    -> /\ (r.mn = "" => r.ops = <<>>)
                             /\ \A j \in 1..Len(r.ops) : r.ops[j] \in OpCodeNames \cup {"1"}
           [] r.g = "P4"  -> Len(r.v) = 4 /\ \A k \in 1..4 : WF(r.v[k])
           [] r.g = "GRP" -> r.n \in GroupNames /\ \A j \in 1..Len(r.ops) : r.ops[j] \in OpCodeNames \cup {"1"}
           [] r.g = "MOD" -> WF(r.m) /\ WF(r.r)
           [] r.g = "RM"  -> Len(r.t) = 8 /\ \A k \in 1..8 : WF(r.t[k])
           [] OTHER       -> r.g \in {"ESC", "PFX", "2B", "38", "3A"}
ASSUME TablesAreFunctions ==
   /\ DOMAIN Map1 = 0..255 /\ DOMAIN Map2 = 0..255
   /\ \A k \in 1..16 : Len(Map1Rows[k]) = 16 /\ Len(Map2Rows[k]) = 16
   /\ DOMAIN Map38 \subseteq 0..255 /\ DOMAIN Map3A \subseteq 0..255
   /\ {b \in 0..255 : Map1[b].g = "PFX"} = PfxBytes
   /\ {b \in 0..255 : Map1[b].g = "ESC"} = 216..223
   /\ {b \in 0..255 : Map1[b].g = "2B"} = {15}
   /\ {b \in 0..255 : Map2[b].g \in {"38","3A"}} = {56, 58} /\ Map2[56].g = "38" /\ Map2[58].g = "3A"
   /\ \A b \in 0..255 : Map2[b].g \notin {"PFX", "ESC", "2B"}
ASSUME RowsWellFormed ==
   /\ \A b \in 0..255 : WF(Map1[b]) /\ WF(Map2[b])
   /\ \A b \in DOMAIN Map38 : WF(Map38[b])
   /\ \A b \in DOMAIN Map3A : WF(Map3A[b])
   /\ \A n \in GroupNames : Len(GroupOf(n)) = 8 /\ \A k \in 1..8 : WF(GroupOf(n)[k])
   /\ Len(X87Mem) = 8 /\ Len(X87Reg) = 8
   /\ \A e \in 1..8 : Len(X87Mem[e]) = 8 /\ Len(X87Reg[e]) = 8 /\ \A k \in 1..8 : WF(X87Mem[e][k]) /\ WF(X87Reg[e][k])
   /\ \A m \in DOMAIN Mn16 : Mn16[m] # m
=============================================================================
