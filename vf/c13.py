"""C13 - simplifier output is canonical: idempotent, order-insensitive, seed-independent.
S->C: IRVarGen.tla (TLC) enumerates (tree, AC-variant) pairs and checks on the generator that every variant is
AC-equivalent; miasmX simplifies in one process per PYTHONHASHSEED; C->S: T_C13.tla compares structurally."""
import os, sys, json, random, subprocess, hashlib
from . import core, irlib, expr_json as EJ

SEEDS = ['0', '1', '2']
AC = ['+', '*', '^', '&', '|']


def gen_pairs(maxnodes, ws, binops, rich, steps, chk):
    cfg = irlib.gen_cfg(maxnodes, ws, 2, binops, ['-'], rich).replace('INIT Init', ' Steps = %d\nINIT Init' % steps).replace('INVARIANT GenOK', 'INVARIANT VarOK')
    h = hashlib.sha1()
    for f in ('BV.tla', 'IR.tla', 'IRGen.tla', 'IRVar.tla', 'IRVarGen.tla'):
        h.update(open(os.path.join(core.SPEC, f), 'rb').read())
    h.update(cfg.encode())
    cf = os.path.join(core.VERIF, '.cache', 'irvar_%s.json' % h.hexdigest()[:16])
    os.makedirs(os.path.dirname(cf), exist_ok=True)
    if os.path.exists(cf):
        d = json.load(open(cf))
    else:
        dump = os.path.join(core.scratch(), 'irvar.dump')
        r = core.run_tlc('IRVarGen', cfg_text=cfg, extra=['-dump', dump], timeout=1500, heap='12g')
        if not r.ok:
            raise core.MachineryError('IRVarGen failed:\n' + r.out[-2000:])
        pairs = []
        for st in core.read_dump(dump):
            if len(st['stack']) == 1:
                pairs.append([st['stack'][0], st['variant'] if isinstance(st['variant'], dict) and st['variant'].get('k') != 'none' else {'k': 'none'}])
        os.unlink(dump)
        d = {'pairs': pairs, 'states': r.distinct, 'transitions': r.generated}
        tmp = cf + '.%d' % os.getpid()
        json.dump(d, open(tmp, 'w'))
        os.rename(tmp, cf)
    chk.add_tlc({'states': d['states'], 'transitions': d['transitions']})
    return d['pairs']


def run_workers(cases, worker='w_c13.py', seeds=SEEDS):
    """one subprocess per (hash seed, slice); returns per seed the list of outputs"""
    d = os.path.join(core.scratch(), 'c13_%d' % random.getrandbits(30))
    os.makedirs(d)
    nsl = max(1, min(core.NCPU // len(seeds), (len(cases) + 199) // 200))
    per = (len(cases) + nsl - 1) // nsl
    procs = []
    for s in seeds:
        for k in range(nsl):
            sl = cases[k * per:(k + 1) * per]
            if not sl:
                continue
            fi, fo = os.path.join(d, 'in_%s_%d.json' % (s, k)), os.path.join(d, 'out_%s_%d.json' % (s, k))
            json.dump(sl, open(fi, 'w'))
            env = dict(os.environ, PYTHONHASHSEED=s, VERIF_REPO_PATH=core.REPO, TMPDIR=core.scratch())
            procs.append((s, k, fo, subprocess.Popen([core.PY, os.path.join(core.VERIF, 'vf', worker), fi, fo], env=env,
                                                     stdout=subprocess.PIPE, stderr=subprocess.PIPE)))
    res = {s: [] for s in seeds}
    for s, k, fo, p in procs:
        out, err = p.communicate(timeout=3000)
        if p.returncode != 0 or not os.path.exists(fo):
            raise core.MachineryError('worker %s failed (seed %s): %s' % (worker, s, err.decode()[-1500:]))
        res[s] += json.load(open(fo))
    return res


def run(tier, chk):
    rnd = random.Random(chk.seed)
    negative_control(chk)
    quick = tier == 'quick'
    pairs = gen_pairs(4 if quick else 5, [8], AC + ['-'], False, 1 if quick else 2, chk)
    pairs += gen_pairs(3, [8, 32], AC + ['-', '<<', '=='], True, 1, chk)
    if not quick:
        pairs += gen_pairs(4, [1, 8, 32], AC, True, 1, chk)
    # plain trees (idempotence + seed independence also where there is no AC variant): the C05 spaces
    plain = irlib.gen_trees(4, [8], 2, irlib.BIN8, ['-', 'parity'], False, chk)
    plain = [t for t in plain if rnd.random() < (0.15 if quick else 1.0)]
    from . import c05
    plain += c05.random_trees(rnd, 1500 if quick else 20000)
    pairs += [[t, {'k': 'none'}] for t in plain]
    # trees with repeated sub-trees (adjacent slices of one source ...) and their root-reversed variant; the variant's
    # AC-equivalence is re-checked by T_C13 (ACEquiv) like for generated ones
    for t in c05.sharing_trees(rnd, 800 if quick else 8000):
        v = dict(t, a=list(reversed(t['a']))) if t['o'] in AC else {'k': 'none'}
        pairs.append([t, v])
    seg = (segment_twin_trees(rnd, 300 if quick else 3000) + cancelling_sum_trees(rnd, 600 if quick else 6000)
           + slice_merge_trees(rnd, 300 if quick else 3000) + deep_variant_pairs(rnd, 900 if quick else 9000))
    if quick and len(pairs) > 30000:
        rnd.shuffle(pairs)
        pairs = pairs[:30000]
    pairs += seg
    cases = [{'id': i, 'e': e, 'v': v} for i, (e, v) in enumerate(pairs)]
    res = run_workers(cases)
    recs = []
    nontriv = 0
    for i, c in enumerate(cases):
        runs = [res[s][i] for s in SEEDS]
        recs.append({'id': c['id'], 'e': c['e'], 'v': c['v'], 'runs': runs})
        if c['v']['k'] != 'none' or runs[0]['se'] != c['e']:
            nontriv += 1
    chk.cov['evaluations'] = len(cases) * len(SEEDS)
    chk.cov['distinct_nontrivial'] = nontriv
    chk.cov['rule'] = ('(tree, AC-variant) pairs = reachable states of IRVarGen.tla, plus plain IRGen/random trees; each simplified under '
                       'PYTHONHASHSEED 0,1,2 in separate processes; non-trivial = has an AC variant or the simplifier changed it')
    rnd.shuffle(recs)
    verdicts, st = core.judge('T_C13', recs, timeout=2400)
    chk.add_tlc(st)
    chk.cov['traces_validated_against_impl'] = len(recs)
    for r in recs[:3]:
        chk.sample({'e': EJ.show(r['e']), 'variant': EJ.show(r['v']) if r['v']['k'] != 'none' else None, 'simp': r['runs'][0]['txt']})
    byid = {r['id']: r for r in recs}
    from .c05 import shape
    for v in verdicts:
        r = byid[v['id']]
        f = v['v'][0]
        if f['clause'].startswith('gen.'):
            raise core.MachineryError('generator produced a non-equivalent variant: %s / %s' % (EJ.show(r['e']), EJ.show(r['v'])))
        key = {'clause': f['clause'], 'shape': shape(r['e'])}
        chk.violation(key, {'e': r['e'], 'e_text': EJ.show(r['e']), 'variant': r['v'],
                            'variant_text': EJ.show(r['v']) if r['v']['k'] != 'none' else None,
                            'simp_e': r['runs'][0]['txt'][0], 'simp_variant': r['runs'][0]['txt'][1],
                            'simp_simp_e': EJ.show(r['runs'][0]['sse']) if r['runs'][0]['sse'].get('k') != 'none' else None})
    run_dumps(tier, chk, rnd)


def cancelling_sum_trees(rnd, n):
    """the same multiset of operands - terms together with their negations, duplicates, zeros - grouped and ordered in two
    different ways: both must simplify to the identical expression (the variant's AC-equivalence is re-checked by T_C13)"""
    def nest(o, w, items):
        items = list(items)
        rnd.shuffle(items)
        while len(items) > 1:
            k = rnd.choice([2, 2, 3]) if len(items) > 2 else 2
            i = rnd.randrange(0, len(items) - k + 1)
            grp = items[i:i + k]
            items[i:i + k] = [{'k': 'op', 'w': w, 'o': o, 'u': 0, 'a': grp}]
        return items[0]
    out = []
    while len(out) < n:
        w = rnd.choice([8, 32])
        ids = [{'k': 'id', 'w': w, 'n': c + str(w)} for c in 'xyz']
        o = rnd.choice(['+', '+', '+', '^', '|', '&'])
        terms = []
        for t in rnd.sample(ids, rnd.choice([2, 2, 3])):
            if rnd.random() < 0.3:
                t = {'k': 'op', 'w': w, 'o': '*', 'u': 0, 'a': [t, rnd.choice(ids)]}
            terms.append(t)
            terms.append({'k': 'op', 'w': w, 'o': '-', 'u': 0, 'a': [t]} if o == '+' else t)     # its inverse / duplicate
        if rnd.random() < 0.4:
            terms.append({'k': 'int', 'w': w, 'v': core.limbs(rnd.choice([0, 1, 0x10]), w)})
        if rnd.random() < 0.3:
            terms.append(rnd.choice(ids))
        a, b = nest(o, w, terms), nest(o, w, terms)
        if a != b and a['k'] == 'op':
            out.append([a, b])
    return out


def ac_shuffle(t, rnd):
    """an AC-equivalent spelling of t: at every node of + * ^ & | the operands (nested nodes of the same operator spliced in) are
    shuffled and regrouped at random, recursively (T_C13 re-checks the equivalence with IRVar!ACEquiv)"""
    if t['k'] in ('int', 'id'):
        return t
    r = dict(t)
    if t['k'] == 'op' and t['o'] in AC:
        flat = []
        def splice(x):
            if x['k'] == 'op' and x['o'] == t['o']:
                for y in x['a']:
                    splice(y)
            else:
                flat.append(ac_shuffle(x, rnd))
        for y in t['a']:
            splice(y)
        rnd.shuffle(flat)
        while len(flat) > 2 and rnd.random() < 0.6:
            k = rnd.choice([2, 2, 3]) if len(flat) > 3 else 2
            i = rnd.randrange(0, len(flat) - k + 1)
            flat[i:i + k] = [{'k': 'op', 'w': t['w'], 'o': t['o'], 'u': 0, 'a': flat[i:i + k]}]
        r['a'] = flat
        return r
    for f in ('a', 'g'):
        if f in t:
            r[f] = [ac_shuffle(x, rnd) for x in t[f]]
    return r


def deep_variant_pairs(rnd, n):
    """deeper trees (conditionals with constant conditions, neutral elements, negations among the operands of + | ^ ...) with a
    random AC-equivalent spelling of each, and assignments to a memory cell whose address is spelled in two operand orders"""
    from . import c05
    out = []
    for t in c05.random_trees(rnd, n):
        v = ac_shuffle(t, rnd)
        if v != t:
            out.append([t, v])
    zero = lambda w: {'k': 'int', 'w': w, 'v': core.limbs(0, w)}
    for _ in range(n // 3):
        w = rnd.choice([8, 32])
        ids = [{'k': 'id', 'w': w, 'n': c + str(w)} for c in 'xyz']
        cnd = {'k': 'cond', 'w': w, 'a': [rnd.choice([{'k': 'int', 'w': 8, 'v': [rnd.choice([0, 1, 2, 0x80])]},
                                                         {'k': 'op', 'w': w, 'o': '-', 'u': 0, 'a': [ids[2]]}, ids[2]]), ids[0], ids[1]]}
        o = rnd.choice(['+', '|', '^'])
        items = [cnd, zero(w), rnd.choice(ids)] + ([dict(cnd)] if rnd.random() < 0.3 else [])
        a = ac_shuffle({'k': 'op', 'w': w, 'o': o, 'u': 0, 'a': items}, rnd)
        b = ac_shuffle({'k': 'op', 'w': w, 'o': o, 'u': 0, 'a': items}, rnd)
        if a != b:
            out.append([a, b])
    for _ in range(n // 3):
        regs = [{'k': 'id', 'w': 32, 'n': c} for c in ('x32', 'y32', 'z32')]
        c4 = {'k': 'int', 'w': 32, 'v': core.limbs(rnd.choice([4, 8, 0x100]), 32)}
        parts = rnd.sample(regs, 2) + [c4]
        addr = lambda ps: {'k': 'op', 'w': 32, 'o': '+', 'u': 0, 'a': ps}
        a1 = addr([addr(parts[:2]), parts[2]]) if rnd.random() < 0.5 else addr(parts)
        a2 = ac_shuffle(addr(list(reversed(parts))), rnd)
        w = rnd.choice([8, 32])
        src = rnd.choice([regs[2] if w == 32 else {'k': 'id', 'w': 8, 'n': 'x8'}, {'k': 'int', 'w': w, 'v': core.limbs(7, w)}])
        mk = lambda ad: {'k': 'aff', 'w': w, 'a': [{'k': 'mem', 'w': w, 'a': [ad], 'g': []}, src]}
        if a1 != a2:
            out.append([mk(a1), mk(a2)])
    return out


def slice_merge_trees(rnd, n):
    """concatenations in which adjacent slices of one source merge (into the whole source or a wider slice) next to other parts;
    the result must be stable when a fresh copy of it is simplified again, and x ^ x' (x' = the same value with the slices spelled
    as one) must simplify alike in both operand orders"""
    out = []
    while len(out) < n:
        src = {'k': 'id', 'w': 32, 'n': rnd.choice(['x32', 'y32'])}
        oth = rnd.choice([{'k': 'id', 'w': 32, 'n': 'z32'}, {'k': 'int', 'w': 32, 'v': core.limbs(rnd.getrandbits(32), 32)}])
        cut = rnd.choice([8, 16, 24])
        lo = {'k': 'slice', 'w': cut, 'lo': 0, 'hi': cut, 'a': [src]}
        hi = {'k': 'slice', 'w': 32 - cut, 'lo': cut, 'hi': 32, 'a': [src]}
        if rnd.random() < 0.5:       # the merged source in the low half, another part above it
            e = {'k': 'compose', 'w': 64, 'a': [lo, hi, oth], 's': [[0, cut], [cut, 32], [32, 64]]}
            v = {'k': 'compose', 'w': 64, 'a': [src, oth], 's': [[0, 32], [32, 64]]}
        else:
            e = {'k': 'compose', 'w': 64, 'a': [oth, lo, hi], 's': [[0, 32], [32, 32 + cut], [32 + cut, 64]]}
            v = {'k': 'compose', 'w': 64, 'a': [oth, src], 's': [[0, 32], [32, 64]]}
        if rnd.random() < 0.4:
            # under a commutative operator, with the operands in both orders (an AC variant)
            o = rnd.choice(['^', '|', '&', '+'])
            z = {'k': 'id', 'w': 64, 'n': 'z64'}
            out.append([{'k': 'op', 'w': 64, 'o': o, 'u': 0, 'a': [e, z]}, {'k': 'op', 'w': 64, 'o': o, 'u': 0, 'a': [z, e]}])
        else:
            out.append([e, {'k': 'none'}])        # idempotence (a fresh copy of the result simplified again) and seed independence
        out.append([{'k': 'op', 'w': 64, 'o': '^', 'u': 0, 'a': [e, v]}, {'k': 'op', 'w': 64, 'o': '^', 'u': 0, 'a': [v, e]}])
    return out


def segment_twin_trees(rnd, n):
    """AC operators whose operands are memory cells that differ ONLY in their segment selector (same address, same size),
    directly or inside an address; the variant is the reversed operand list"""
    def cell(w, seg, addr):
        return {'k': 'mem', 'w': w, 'a': [addr], 'g': [] if seg is None else [{'k': 'id', 'w': 16, 'n': seg}]}
    out = []
    while len(out) < n:
        w = rnd.choice([8, 32, 32])
        addr = {'k': 'id', 'w': 32, 'n': rnd.choice(['x32', 'y32'])}
        r = rnd.random()
        if r < 0.3:
            addr = {'k': 'op', 'w': 32, 'o': '+', 'u': 0, 'a': [addr, {'k': 'int', 'w': 32, 'v': core.limbs(rnd.choice([4, 8, 0x1000]), 32)}]}
        elif r < 0.6:
            # an address the simplifier has to rewrite (constant first, nested sum): the rebuilt cell must keep its selector
            c4 = {'k': 'int', 'w': 32, 'v': core.limbs(rnd.choice([4, 8, 0x1000]), 32)}
            other = {'k': 'id', 'w': 32, 'n': 'z32'}
            addr = rnd.choice([{'k': 'op', 'w': 32, 'o': '+', 'u': 0, 'a': [c4, addr]},
                               {'k': 'op', 'w': 32, 'o': '+', 'u': 0, 'a': [{'k': 'op', 'w': 32, 'o': '+', 'u': 0, 'a': [addr, c4]}, other]},
                               {'k': 'op', 'w': 32, 'o': '+', 'u': 0, 'a': [other, addr]}])
        segs = rnd.sample([None, 'es', 'ds', 'fs', 'gs', 'ss', 'cs'], rnd.choice([2, 2, 3, 4]))
        args = [cell(w, sg, addr) for sg in segs]
        if rnd.random() < 0.4:
            args.insert(rnd.randrange(len(args) + 1), {'k': 'id', 'w': w, 'n': 'z%d' % w})
        t = {'k': 'op', 'w': w, 'o': rnd.choice(AC), 'u': 0, 'a': args}
        if addr['k'] == 'op' and rnd.random() < 0.5:
            # the variant re-orders the operands of the ADDRESS of every cell (one spelling may already be canonical, the other
            # is rebuilt by the simplifier: the rebuilt cell must be the same cell, selector included)
            raddr = dict(addr, a=list(reversed(addr['a'])))
            v = dict(t, a=[dict(x, a=[raddr]) if x['k'] == 'mem' else x for x in args])
        else:
            v = dict(t, a=list(reversed(args)))
        if w == 32 and rnd.random() < 0.3:       # the twins inside an address
            t, v = cell(8, None, t), cell(8, None, v)
        out.append([t, v])
    return out


def run_dumps(tier, chk, rnd):
    """rendered instructions, lifted+simplified semantics and machine dumps across hash seeds"""
    lines = DUMP_LINES
    cases = [{'id': i, 'line': l} for i, l in enumerate(lines)]
    res = run_workers(cases, worker='w_c13_dump.py')
    recs = []
    for i, c in enumerate(cases):
        outs = [res[s][i] for s in SEEDS]
        recs.append({'id': 100000 + i, 'e': {'k': 'none'}, 'v': {'k': 'none'},
                     'runs': [{'st': 'ok', 'se': {'k': 'none'}, 'sse': {'k': 'none'}, 'sv': {'k': 'none'}, 'she': {'k': 'none'}, 'she2': {'k': 'none'}, 'shv': {'k': 'none'}, 'txt': o['txt']} for o in outs]})
    verdicts, st = core.judge('T_C13', recs, shards=2)
    chk.add_tlc(st)
    chk.cov['traces_validated_against_impl'] += len(recs)
    chk.cov['evaluations'] += len(recs) * len(SEEDS)
    chk.sample({'program': lines[-1], 'dump': recs[-1]['runs'][0]['txt'][:3]})
    for v in verdicts:
        i = v['id'] - 100000
        texts = [r['txt'] for r in recs[i]['runs']]
        which = sorted(set(k for k in range(len(texts[0])) if len(set(json.dumps(t[k]) if k < len(t) else '' for t in texts)) > 1))
        chk.violation({'clause': v['v'][0]['clause'], 'what': 'dump', 'field': ','.join(KIND[k] if k < len(KIND) else 'x' for k in which)},
                      {'program': lines[i], 'per_seed': texts})


KIND = ['intel', 'att', 'lifted', 'dump_id', 'dump_mem']
DUMP_LINES = ['mov eax, ebx', 'add eax, [ebx+4]', 'sub ecx, 1', 'xor eax, eax', 'push eax', 'pop ebx', 'lea eax, [ebx+ecx*4+8]',
              'shl eax, cl', 'ror ebx, 3', 'imul eax, ebx', 'cmp eax, 3', 'test al, 1', 'movzx eax, bl', 'inc edx', 'neg esi',
              'xchg eax, ebx', 'cmovz eax, ebx', 'setz al', 'adc eax, ebx', 'sbb ecx, 5',
              'mov [eax], ebx;mov [eax+4], ecx;mov edx, [eax]', 'mov [esp+4], eax;mov [esp+8], ebx;mov [esp], ecx;mov [esp+12], edx',
              'push eax;push ebx;push ecx;pop edx', 'mov [ebx], al;mov [ecx], dx;mov [edx], esi;mov [esi], cl',
              'mov [0x1000], eax;mov [0x2000], ebx;mov [0x3000], ecx;mov [0x1800], edx;mov [0x800], esi']


def negative_control(chk):
    x = {'k': 'id', 'w': 8, 'n': 'x8'}
    y = {'k': 'id', 'w': 8, 'n': 'y8'}
    e = {'k': 'op', 'w': 8, 'o': '+', 'u': 0, 'a': [x, y]}
    v = {'k': 'op', 'w': 8, 'o': '+', 'u': 0, 'a': [y, x]}
    bad = {'k': 'op', 'w': 8, 'o': '+', 'u': 0, 'a': [y, y]}
    none = {'k': 'none'}
    ok = {'st': 'ok', 'se': e, 'sse': e, 'sv': e, 'txt': ['(x8+y8)', '(x8+y8)'], 'she': e, 'she2': e, 'shv': e}
    recs = [{'id': 0, 'e': e, 'v': v, 'runs': [ok, ok]},
            {'id': 1, 'e': e, 'v': v, 'runs': [dict(ok, sse=v), ok]},
            {'id': 2, 'e': e, 'v': v, 'runs': [dict(ok, sv=v), ok]},
            {'id': 3, 'e': e, 'v': v, 'runs': [ok, dict(ok, txt=['(y8+x8)', '(x8+y8)'])]},
            {'id': 4, 'e': e, 'v': bad, 'runs': [ok, ok]},
            {'id': 5, 'e': e, 'v': v, 'runs': [dict(ok, she2=v), ok]},
            {'id': 6, 'e': e, 'v': v, 'runs': [dict(ok, shv=v), ok]}]
    verdicts, st = core.judge('T_C13', recs, shards=1)
    got = sorted((v_['id'], v_['v'][0]['clause']) for v_ in verdicts)
    want = [(1, 'C13.idempotent'), (2, 'C13.order_insensitive'), (3, 'C13.seed_independent'), (4, 'gen.variant_not_equivalent'),
            (5, 'C13.shared_objects.repeatable'), (6, 'C13.shared_objects.order_insensitive')]
    chk.cov['negative_controls'].append({'name': 'non-idempotent / order-sensitive / seed-dependent outputs and a bogus variant rejected', 'ok': got == want, 'got': got})
    if got != want:
        raise core.MachineryError('C13 negative control failed: %r' % (got,))


def replay(path, chk):
    rp = json.load(open(path))
    d = rp['detail']
    if 'program' in d:
        return replay_dump(rp, chk)
    cases = [{'id': 0, 'e': d['e'], 'v': d['variant']}]
    res = run_workers(cases)
    recs = [{'id': 0, 'e': d['e'], 'v': d['variant'], 'runs': [res[s][0] for s in SEEDS]}]
    verdicts, st = core.judge('T_C13', recs, shards=1)
    chk.add_tlc(st)
    chk.cov['traces_validated_against_impl'] = 1
    chk.cov['evaluations'] = 1
    chk.sample({'e': d['e_text']})
    for v in verdicts:
        print('replay: still fails', v['v'][0]['clause'])
        chk.violation(rp['class'], d)
    return chk.finish()


def replay_dump(rp, chk):
    res = run_workers([{'id': 0, 'line': rp['detail']['program']}], worker='w_c13_dump.py')
    texts = [res[s][0]['txt'] for s in SEEDS]
    chk.cov['evaluations'] = 1
    chk.cov['states'] = 1
    chk.cov['transitions'] = 1
    chk.sample({'program': rp['detail']['program']})
    if any(t != texts[0] for t in texts):
        chk.violation(rp['class'], rp['detail'])
    return chk.finish()
