"""Input spaces of the IA-32 decode-family checks: terminal states of spec/IA32Space.tla (TLC, cached) and seeded
random structured byte strings."""
import os, re, json, hashlib, random
from . import core

SPEC_FILES = ('IA32Tables.tla', 'IA32Decode.tla', 'IA32Space.tla')
_ST = re.compile(r'^/\\ stage = "(\w+)"\n/\\ dev = (\d+)\n/\\ bytes = <<([0-9, ]*)>>', re.M)


def _cfg(maxdev, base67, op1, op2):
    return ('CONSTANTS\n MaxDev = %d\n Base67 = %s\n Op1Set = {%s}\n Op2Set = {%s}\nINIT Init\nNEXT Next\nCHECK_DEADLOCK FALSE\n'
            % (maxdev, 'TRUE' if base67 else 'FALSE', ','.join(str(x) for x in sorted(op1)), ','.join(str(x) for x in sorted(op2))))


def gen(maxdev, base67=False, op1=None, chk=None, timeout=3000, workers=None, op2=None):
    """-> dict(done=[hex...], dead=[hex...], stages={stage: count}, states, transitions).  Cached: the dump does not
    depend on /repo."""
    op1 = sorted(op1 if op1 is not None else range(256))
    op2 = sorted(op2 if op2 is not None else range(256))
    cfg = _cfg(maxdev, base67, op1, op2)
    h = hashlib.sha1()
    for f in SPEC_FILES:
        h.update(open(os.path.join(core.SPEC, f), 'rb').read())
    h.update(cfg.encode())
    cdir = os.path.join(core.VERIF, '.cache')
    os.makedirs(cdir, exist_ok=True)
    cf = os.path.join(cdir, 'ia32space_%s.json' % h.hexdigest()[:16])
    if os.path.exists(cf):
        d = json.load(open(cf))
    else:
        dump = os.path.join(core.scratch(), 'ia32space_%s.dump' % h.hexdigest()[:8])
        r = core.run_tlc('IA32Space', cfg_text=cfg, extra=['-dump', dump], timeout=timeout, heap='8g',
                         workers=workers or core.NCPU)
        if not r.ok:
            raise core.MachineryError('IA32Space failed:\n' + r.out[-2000:])
        done, dead, stages = [], [], {}
        with open(dump) as f:
            txt = f.read()
        for m in _ST.finditer(txt):
            st = m.group(1)
            stages[st] = stages.get(st, 0) + 1
            if st in ('Done', 'Dead'):
                b = bytes(int(x) for x in m.group(3).replace(' ', '').split(',') if x)
                (done if st == 'Done' else dead).append(b.hex())
        del txt
        os.unlink(dump)
        if sum(stages.values()) != r.distinct:
            raise core.MachineryError('IA32Space dump parse: %d states parsed, TLC reports %d' % (sum(stages.values()), r.distinct))
        d = {'done': done, 'dead': dead, 'stages': stages, 'states': r.distinct, 'transitions': r.generated,
             'cfg': {'MaxDev': maxdev, 'Base67': base67, 'Op1': [op1[0], op1[-1], len(op1)], 'Op2': [op2[0], op2[-1], len(op2)]}}
        tmp = cf + '.%d' % os.getpid()
        json.dump(d, open(tmp, 'w'))
        os.rename(tmp, cf)
    if chk is not None:
        chk.add_tlc({'states': d['states'], 'transitions': d['transitions']})
        sp = chk.cov.setdefault('generator_runs', [])
        sp.append({'cfg': d['cfg'], 'states': d['states'], 'actions': d['stages']})
    return d


PFX = [0x66, 0x67, 0x26, 0x2E, 0x36, 0x3E, 0x64, 0x65, 0xF0, 0xF2, 0xF3]
BND = [0x00, 0x01, 0x7F, 0x80, 0xFF]


def random_strings(rnd, n):
    """seeded random byte strings of 1..15 bytes biased to instruction structure"""
    out = []
    for _ in range(n):
        b = bytearray()
        r = rnd.random()
        if r < 0.15:                      # unstructured
            out.append(bytes(rnd.getrandbits(8) for _ in range(rnd.randint(1, 15))))
            continue
        for _ in range(rnd.choice([0, 0, 0, 1, 1, 2, 3])):
            b.append(rnd.choice(PFX))
        r = rnd.random()
        if r < 0.45:
            b.append(rnd.getrandbits(8))
        elif r < 0.85:
            b += bytes([0x0F, rnd.getrandbits(8)])
        elif r < 0.93:
            b += bytes([0x0F, 0x38, rnd.getrandbits(8)])
        else:
            b += bytes([0x0F, 0x3A, rnd.getrandbits(8)])
        b.append(rnd.getrandbits(8))          # ModRM
        b.append(rnd.getrandbits(8))          # SIB
        while len(b) < 15:
            b.append(rnd.choice(BND) if rnd.random() < 0.5 else rnd.getrandbits(8))
        out.append(bytes(b[:rnd.randint(max(1, len(b) - 6), 15)]) if rnd.random() < 0.2 else bytes(b[:15]))
    return out


def opcode_only(h):
    """the string is prefix bytes, opcode-map bytes and one opcode byte, nothing after it"""
    b = bytes.fromhex(h)
    i = 0
    while i < len(b) and b[i] in PFX:
        i += 1
    if i < len(b) and b[i] == 0x0F:
        i += 1
        if i < len(b) and b[i] in (0x38, 0x3A):
            i += 1
    return i + 1 == len(b)


def stratified(hexes, rnd, n):
    """a sample of about n strings that covers every stratum (prefix bytes, opcode map, ModRM mod and rm, SIB base) of the
    string set: the byte after the opcode is read as ModRM whether or not the opcode has one (a stratification, not a decode)"""
    strata = {}
    for h in hexes:
        b = bytes.fromhex(h)
        i = 0
        while i < len(b) and b[i] in PFX:
            i += 1
        pfx = b[:i]
        mp = 0
        if i < len(b) and b[i] == 0x0F:
            mp, i = 1, i + 1
            if i < len(b) and b[i] in (0x38, 0x3A):
                mp, i = b[i], i + 1
        i += 1
        key = (pfx, mp)
        if i < len(b):
            m = b[i]
            key += (m >> 6, m & 7)
            if (m >> 6) != 3 and (m & 7) == 4 and i + 1 < len(b):
                key += (b[i + 1] & 7,)
        strata.setdefault(key, []).append(h)
    keys = sorted(strata)
    per = max(1, n // max(1, len(keys)))
    out = []
    for k in keys:
        g = strata[k]
        out += g if len(g) <= per else rnd.sample(g, per)
    if len(out) < n:
        rest = sorted(set(hexes) - set(out))
        out += rnd.sample(rest, min(len(rest), n - len(out)))
    return sorted(out)
