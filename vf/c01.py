"""C01 - x86 decoding agrees with the IA-32 instruction set.
S->C: spec/IA32Space.tla (TLC) enumerates byte strings by driving the reference decode automaton of
spec/IA32Decode.tla forwards; miasmX decodes them and vf/instr_abs.py projects its Intel rendering;
C->S: spec/T_C01.tla compares Decode(bytes) with the projected record clause by clause.  Seeded random
structured byte strings take the C->S route too."""
import os, sys, json, random, collections
from . import core, ia32lib, ia32space


def rowclass(opc):
    """coarse name of the opcode-table row(s) a decode came from: one defect = one class"""
    mp, b, reg = opc
    if mp == '1':
        if b < 0x40 and b % 8 < 6:
            return 'alu r/m,r' if b % 8 < 4 else 'alu acc,imm'
        if 0x40 <= b <= 0x4F:
            return 'inc/dec +r'
        if 0x50 <= b <= 0x5F:
            return 'push/pop +r'
        if 0x70 <= b <= 0x7F:
            return 'jcc rel8'
        if 0x80 <= b <= 0x83:
            return 'grp1 %02X' % b
        if 0x91 <= b <= 0x97:
            return 'xchg +r'
        if 0xB0 <= b <= 0xB7:
            return 'mov r8,imm8'
        if 0xB8 <= b <= 0xBF:
            return 'mov r,imm'
        if b in (0xC0, 0xC1, 0xD0, 0xD1, 0xD2, 0xD3):
            return 'grp2 %02X' % b
        if 0xD8 <= b <= 0xDF:
            return 'x87 %02X /%d' % (b, reg)
        return '%02X' % b + ('' if reg < 0 else ' /%d' % reg)
    if mp == '0F':
        if 0x20 <= b <= 0x23:
            return 'mov cr/dr'
        if 0x40 <= b <= 0x4F:
            return 'cmovcc'
        if 0x80 <= b <= 0x8F:
            return 'jcc rel16/32'
        if 0x90 <= b <= 0x9F:
            return 'setcc'
        if 0xC8 <= b <= 0xCF:
            return 'bswap'
        return '0F %02X' % b + ('' if reg < 0 else ' /%d' % reg)
    return '0F %s %02X' % (mp, b)


def shape(spec, obs, clause, opi):
    """extra root-cause feature of a failing record"""
    if clause == 'C01.kind' and 1 <= opi <= len(spec['ops']) and opi <= len(obs.get('ops', [])):
        so, oo = spec['ops'][opi - 1], obs['ops'][opi - 1]
        if so['k'] == 'mem' and so['b'] == -1 and so['i'] == -1 and oo['k'] == 'imm':
            return 'disp-only memory operand shown as a bare number'
        if so['k'] == 'imm' and oo['k'] == 'mem':
            return 'immediate shown with PTR'
        return '%s shown as %s' % (so['k'], oo['k'])
    if clause == 'C01.kind' and opi == 0:
        return 'operand count %d shown %d' % (len(spec['ops']), len(obs.get('ops', [])))
    if clause == 'C01.size' and 1 <= opi <= len(spec['ops']) and opi <= len(obs.get('ops', [])):
        return 'size %s shown %s' % (spec['ops'][opi - 1].get('sz'), obs['ops'][opi - 1].get('sz'))
    if clause == 'C01.len':
        return 'os%d as%d' % (spec['os'], spec['as'])
    return ''


FAMILIES = [
    (lambda sp: sp['mn'].startswith(('pmovsx', 'pmovzx')), ('0F 38 20-35', 'pmovsx/pmovzx')),
    (lambda sp: sp['opc'][0] == '0F' and sp['opc'][1] == 0x00, ('0F 00', 'grp6')),
    (lambda sp: sp['opc'][0] == '0F' and sp['opc'][1] == 0x01, ('0F 01', 'grp7')),
    (lambda sp: sp['mn'] in ('les', 'lds', 'lss', 'lfs', 'lgs'), ('C4 C5 0F B2/B4/B5', 'les/lds/lss/lfs/lgs')),
    (lambda sp: sp['mn'] in ('callf', 'jmpf'), ('FF /3 /5', 'callf/jmpf')),
    (lambda sp: sp['mn'] in ('insb', 'insw', 'insd', 'outsb', 'outsw', 'outsd'), ('6C-6F', 'ins/outs')),
    (lambda sp: sp['mn'] in ('vmptrld', 'vmclear', 'vmxon'), ('0F C7 /6', 'vmptrld/vmclear/vmxon')),
    (lambda sp: sp['mn'] in ('lar', 'lsl'), ('0F 02 03', 'lar/lsl')),
    (lambda sp: sp['mn'] in ('fbld', 'fbstp'), ('x87 DF /4 /6', 'fbld/fbstp')),
    (lambda sp: sp['mn'] in ('movq2dq', 'movdq2q'), ('0F D6', 'movq2dq/movdq2q')),
    (lambda sp: sp['mn'] in ('tzcnt', 'lzcnt'), ('0F BC BD', 'tzcnt/lzcnt')),
    (lambda sp: sp['mn'] in ('pextrb', 'pextrw', 'pinsrb', 'pinsrw'), ('0F C4 / 0F 3A 14 15 20', 'pextrb/pextrw/pinsrb/pinsrw')),
    (lambda sp: sp['mn'] in ('roundss', 'roundsd'), ('0F 3A 0A 0B', 'roundss/roundsd')),
]


def vkey(spec, o, c):
    """violation class: clause + row family + mnemonic family + root-cause shape"""
    clause = c['clause']
    sh = shape(spec, o, clause, c['op'])
    row, mn = rowclass(spec['opc']), spec['mn']
    for pred, (r, m) in FAMILIES:
        if pred(spec):
            row, mn = r, m
            break
    if row in ('jcc rel8', 'jcc rel16/32'):
        mn = 'jcc'
    elif row in ('cmovcc', 'setcc'):
        mn = row
    o2 = spec['opc'][1]
    simd = (spec['opc'][0] in ('38', '3A') or (spec['opc'][0] == '0F' and (0x10 <= o2 <= 0x17 or 0x28 <= o2 <= 0x2F or 0x50 <= o2 <= 0x7F
                                                                      or 0xC2 <= o2 <= 0xC6 or 0xD0 <= o2 <= 0xFE)))
    if sh.startswith('disp-only memory operand'):
        row, mn = '*', '*'
    elif spec['as'] == 16 and simd and clause in ('C01.base', 'C01.index', 'C01.scale', 'C01.disp', 'C01.len', 'C01.size', 'C01.seg', 'C01.kind'):
        # one root cause, many clauses: the 67 prefix is not honoured on MMX/SSE rows
        row, mn, sh, clause = '*', '*', '67 prefix on an mm/xmm instruction', 'C01.address-size'
    elif clause == 'C01.size' and simd and len(spec['pfx']) >= 2 and spec['opc'][0] == '0F':
        row, mn, sh = '*', '*', 'SSE memory operand size when a second prefix is present'
    elif clause in ('C01.kind', 'C01.reg') and simd and len(spec['pfx']) >= 2 and any(p in (0xF2, 0xF3, 0x66) for p in spec['pfx']):
        row, mn, sh = '*', '*', 'MMX/SSE operand form when a second prefix accompanies the mandatory prefix'
    elif clause == 'C01.seg' and 1 <= c['op'] <= len(spec['ops']) and spec['ops'][c['op'] - 1]['k'] == 'mem' \
            and spec['ops'][c['op'] - 1]['b'] == -1 and spec['ops'][c['op'] - 1]['i'] in (4, 5) and spec['ops'][c['op'] - 1]['sc'] == 1 \
            and spec['ops'][c['op'] - 1]['seg'] == '':
        # SIB with index ebp, scale 1 and no base: DS-relative; shown as [ebp+disp], which denotes the SS-relative base form
        row, mn, sh = '*', '*', 'index*1 without base shown as a base register'
    return {'clause': clause, 'row': row, 'mn': mn, 'shape': sh}


def report(chk, obs, verdicts):
    for v in verdicts:
        o = obs[v['id']]
        spec = v['spec']
        sup = sorted(v.get('sup') or [])
        for c in v['v']:
            key = vkey(spec, o, c)
            if sup:
                # a disagreement on a string with superfluous (but determinate) prefixes is a class of its own: a finding
                # listed for it never covers the same symptom on a string without them
                key['sup'] = [k for k in ('unused66', 'unusedseg', 'unused67', 'repeated') if k in sup][0]   # the most specific kind names the class
                if 'unused66' in sup and key['row'].startswith('x87') and key['clause'] in ('C01.kind', 'C01.size'):
                    key['row'], key['mn'] = 'x87 *', '*'       # one root cause: the 66 prefix changes how an x87 instruction is shown
                elif 'unused66' in sup and key['clause'] == 'C01.mnemonic' and 'mp' in spec['use'] and any(p in (0xF2, 0xF3) for p in spec['pfx']):
                    key['row'], key['mn'], key['shape'] = '*', '*', 'mandatory F2/F3 prefix accompanied by 66: the 66 row is shown'
            detail = {'bytes': bytes(o['b']).hex(), 'miasmx_text': o.get('text'), 'miasmx_len': o.get('len'),
                      'miasmx_ops': o.get('ops'), 'spec': spec, 'failing_clauses': v['v']}
            if chk.violation(key, detail):
                ks = json.dumps(key, sort_keys=True)
                cur = chk.violations[ks]
                if len(detail['bytes']) < len(cur['detail']['bytes']):
                    cur['detail'] = detail            # keep the shortest example


def judge_space(chk, label, strings, rnd, rows=None):
    """decode `strings` with miasmX, judge with T_C01, report"""
    import time
    t0 = time.time()
    obs = ia32lib.observe(strings, want_row=True)
    t1 = time.time()
    recs = [ia32lib.to_record(i, o) for i, o in enumerate(obs)]
    order = list(range(len(recs)))
    rnd.shuffle(order)
    verdicts, st = core.judge('T_C01', [recs[i] for i in order], timeout=3000, tags=('STATS',))
    chk.add_tlc(st)
    tot = collections.Counter()
    for s in st.get('STATS', []):
        tot.update(s)
    unread = sum(1 for o in obs if o['st'] == 'unreadable')
    stc = collections.Counter(o['st'] for o in obs)
    chk.cov.setdefault('spaces', {})[label] = {
        'strings': len(strings), 'compared': tot['cmp'], 'skipped_spec_rejects': tot['specrej'],
        'skipped_impl_rejects': tot['implrej'], 'skipped_superfluous_prefix': tot['superfluous'],
        'miasmx_outcomes': dict(stc), 'records_with_failing_clause': len(verdicts),
        'wall_miasmx_s': round(t1 - t0, 1), 'wall_tlc_s': round(st['wall'], 1)}
    chk.cov['evaluations'] += len(strings)
    chk.cov['traces_validated_against_impl'] += len(recs)
    chk.cov['distinct_nontrivial'] += tot['cmp']
    if rows is not None:
        for o in obs:
            if o['st'] == 'instr' and 'row' in o:
                rows.add(o['row'])
    if unread:
        # a rendering the liberal tokenizer cannot read is reported as a violation of the rendering clause
        for o in [o for o in obs if o['st'] == 'unreadable']:
            chk.violation({'clause': 'C01.rendering', 'why': ' '.join(o['why'].split(' ')[:2])},
                          {'bytes': bytes(o['b']).hex(), 'miasmx_text': o.get('text'), 'why': o['why']})
    for o in obs:
        if o['st'] == 'instr' and len(chk.cov['samples']) < 4 and len(o['b']) > 3:
            chk.sample({'space': label, 'bytes': bytes(o['b']).hex(), 'miasmx': o['text'], 'len': o['len'], 'ops': o['ops']})
    report(chk, obs, verdicts)
    return obs


FILL = bytes([0x11, 0x22, 0x33, 0x44, 0x55, 0x77, 0x88, 0x99])


def pad(hexes):
    """generated instruction + filler bytes (a decoder that takes a longer immediate/displacement than the architecture
    prescribes must find bytes to take; exact-length and truncated inputs are C10's business)"""
    out = []
    for h in hexes:
        b = bytes.fromhex(h)
        out.append(b + FILL[:max(0, min(len(FILL), 15 - len(b)))])
    return out


def table_rows():
    sys.path.insert(0, core.REPO)
    from miasmx.arch.ia32_arch import x86mndb
    rows = set()
    for name, ms in x86mndb.mnemo_lookup.items():
        for m in ms:
            rows.add('%s %s' % (m.name, ' '.join('%02X' % x for x in m.opc)))
    return rows


def run(tier, chk):
    rnd = random.Random(chk.seed)
    negative_control(chk)
    quick = tier == 'quick'
    rows = set()
    # S->C: the generated space
    if quick:
        g = ia32space.gen(1, False, None, chk)
        judge_space(chk, 'IA32Space MaxDev=1', pad(g['done'] + g['dead']), rnd, rows)
        g = ia32space.gen(1, True, [0x00, 0x01, 0x0F, 0x62, 0x80, 0x8B, 0x8D, 0xC4, 0xD9, 0xDD, 0xFF], chk)
        judge_space(chk, 'IA32Space MaxDev=1 base=67 (16-bit addressing), focus opcodes',
                    pad(g['done']), rnd, rows)
    else:
        for lo in range(0, 256, 16):
            op1 = list(range(lo, lo + 16))
            if lo == 0:
                # the 0F escape carries the two- and three-byte maps: own shards below
                op1.remove(0x0F)
            g = ia32space.gen(2, False, op1, chk)
            judge_space(chk, 'IA32Space MaxDev=2 op %02X-%02X' % (lo, lo + 15), pad(g['done'] + g['dead']), rnd, rows)
        for lo in range(0, 256, 32):
            g = ia32space.gen(2, False, [0x0F], chk, op2=range(lo, lo + 32))
            judge_space(chk, 'IA32Space MaxDev=2 op 0F %02X-%02X' % (lo, lo + 31), pad(g['done'] + g['dead']), rnd, rows)
        g = ia32space.gen(1, True, None, chk)
        judge_space(chk, 'IA32Space MaxDev=1 base=67', pad(g['done']), rnd, rows)
    # C->S: seeded random structured byte strings of 1..15 bytes
    rs = ia32space.random_strings(rnd, 30000 if quick else 400000)
    judge_space(chk, 'random structured strings', rs, rnd, rows)
    allrows = table_rows()
    chk.cov['miasmx_rows_covered'] = len(rows & allrows)
    chk.cov['miasmx_rows_total'] = len(allrows)
    chk.cov['miasmx_rows_not_reached'] = sorted(allrows - rows)[:80]
    chk.cov['rule'] = ('strings = terminal states of IA32Space.tla (reference decode automaton driven forwards, all field-class '
                       'combinations with at most MaxDev fields outside their base set) + seeded random structured strings; '
                       'distinct_nontrivial = strings both decoders accept without superfluous prefixes (compared clause by clause)')
    chk.assumptions += ['32-bit protected mode, flat; Intel SDM opcode maps as transcribed in IA32Tables.tla',
                        'strings whose prefixes have no determinate meaning (IA32Decode.Determinate: lock on an unlockable instruction, rep on a non-string instruction, several segment prefixes ...) are skipped (counted); repeated 66/67 and unused 66/67/segment prefixes are compared',
                        'the Intel rendering is read by a liberal tokenizer (vf/instr_abs.py)']


CONTROLS = ['01d8', '8b4c2410', '83c0ff', '0fb6c1', 'e800000080', 'd8c1', '660f58c1', 'f3a4', '8d0411']


def negative_control(chk):
    # control records were recorded once on the unchanged tree and frozen: the control must not depend on the tree under test
    good = json.load(open(os.path.join(core.VERIF, 'vf', 'ia32_controls.json')))['C01']
    n = len(good)
    bad = []
    def mut(i, f, clause):
        r = json.loads(json.dumps(good[i]))
        f(r)
        r['id'] = n + len(bad)
        bad.append((r, clause))
    mut(0, lambda r: r.update(len=3), 'C01.len')
    mut(0, lambda r: r.update(raw=[1, 0xd9]), 'C01.raw')
    mut(0, lambda r: r.update(mn='sub'), 'C01.mnemonic')
    mut(0, lambda r: r['ops'].reverse(), 'C01.reg')
    mut(1, lambda r: r['ops'][1].update(b=5), 'C01.base')
    mut(1, lambda r: r['ops'][1]['d'].__setitem__(0, 0x11), 'C01.disp')
    mut(1, lambda r: r['ops'][1].update(sz=16), 'C01.size')
    mut(1, lambda r: r['ops'][1].update(seg='ds'), 'C01.seg')
    mut(2, lambda r: r['ops'][1]['v'].__setitem__(1, 0), 'C01.imm')
    mut(4, lambda r: r['ops'][0]['d'].__setitem__(3, 0x7f), 'C01.imm')
    mut(8, lambda r: r['ops'][1].update(sc=2), 'C01.scale')
    mut(8, lambda r: r['ops'][1].update(i=3), 'C01.index')
    mut(7, lambda r: r.update(pre=[]), 'C01.prefix')
    mut(5, lambda r: r['ops'].pop(), 'C01.kind')
    verdicts, st = core.judge('T_C01', good + [b for b, _ in bad], shards=1, tags=('STATS',))
    got = sorted((v['id'], v['v'][0]['clause']) for v in verdicts)
    want = sorted((b['id'], c) for b, c in bad)
    ok = got == want
    chk.cov['negative_controls'].append({'name': '%d corrupted records rejected with the expected clause, %d genuine records accepted' % (len(bad), n),
                                         'ok': ok, 'got': got if not ok else len(got)})
    if not ok:
        raise core.MachineryError('C01 negative control failed: got %r want %r' % (got, want))


def replay(path, chk):
    rp = json.load(open(path))
    b = bytes.fromhex(rp['detail']['bytes'])
    judge_space(chk, 'replay', [b], random.Random(chk.seed))
    return chk.finish()
