------------------------------- MODULE T_C16 -------------------------------
(* C->S judge for C16.                                                        *)
(* "reads" record: [id, kind, e, envs, rmr (observed get_r(mem_read=True) as  *)
(*   a list of trees, padded with [k |-> "none"]), r0 (get_r(False)),         *)
(*   w (get_w() of an assignment), exc]                                       *)
(*  Dependency probing: if changing one identifier (or the bytes of one       *)
(*  memory cell) changes IR.Eval(e) under some valuation, that identifier /   *)
(*  cell must be in the reported read set.                                    *)
(* "pat" record: [id, kind, e, pat, wild, out ("fail"|"exc"|"ok"), bind       *)
(*   (list of <<wildcard name, tree>>)]: on success Subst(pat, bind) = e.     *)
EXTENDS IRDerive, Json, IOUtils
Recs == JsonDeserialize(IOEnv.TRACE)
Members(l) == {l[i] : i \in 1..Len(l)}
SetId(env, n, v) == [env EXCEPT !.id = [x \in DOMAIN env.id |-> IF x = n THEN v ELSE env.id[x]]]
\* identifier nodes / memory nodes of e, with the information whether they sit inside a memory address
RECURSIVE IdOcc(_,_)
IdOcc(e, inaddr) ==
  CASE e.k = "int" -> {}
    [] e.k = "id" -> {<<e, inaddr>>}
    [] e.k = "mem" -> IdOcc(e.a[1], TRUE) \cup UNION {IdOcc(e.g[i], TRUE) : i \in 1..Len(e.g)}
    [] OTHER -> UNION {IdOcc(e.a[i], inaddr) : i \in 1..Len(e.a)}
RECURSIVE MemNodes(_)
MemNodes(e) == (IF e.k = "mem" THEN {e} ELSE {})
               \cup (IF e.k \in {"int", "id"} THEN {} ELSE UNION {MemNodes(e.a[i]) : i \in 1..Len(e.a)})
Alt(v, w) == {BXor(v, FromNat(1, w), w), BNot(v, w), Add(v, FromNat(1, w), w)}
IdMatters(e, x, envs) == \E j \in 1..Len(envs) : \E a \in Alt(IdVal(envs[j], x.n, x.w), x.w) :
                            Eval(e, SetId(envs[j], x.n, a)) # Eval(e, envs[j])
\* flip every byte of the cell m (at its address under env)
Poke(env, m) == LET a0 == Norm(Eval(m.a[1], env), AddrW) IN
   [env EXCEPT !.over = env.over \o [i \in 1..(m.w \div 8) |->
        <<Add(a0, FromNat(i - 1, AddrW), AddrW), 255 - MemByte(env, Zero(16), Add(a0, FromNat(i - 1, AddrW), AddrW))>>]]
CellMatters(e, m, envs) == m.g = <<>> /\ \E j \in 1..Len(envs) : Eval(e, Poke(envs[j], m)) # Eval(e, envs[j])
ReadsOf(e, r) ==
        LET occ == IdOcc(e, FALSE)
            missMR == {o \in occ : o[1] \notin Members(r.rmr) /\ IdMatters(e, o[1], r.envs)}
            miss0 == {o \in occ : ~o[2] /\ o[1] \notin Members(r.r0) /\ IdMatters(e, o[1], r.envs)}
            missC == {m \in MemNodes(e) : m \notin Members(r.rmr) /\ CellMatters(e, m, r.envs)}
        IN IF missMR # {} THEN <<[clause |-> "C16.reads.identifier", mode |-> "mem_read", missing |-> (CHOOSE o \in missMR : TRUE)[1]]>>
           ELSE IF miss0 # {} THEN <<[clause |-> "C16.reads.identifier", mode |-> "default", missing |-> (CHOOSE o \in miss0 : TRUE)[1]]>>
           ELSE IF missC # {} THEN <<[clause |-> "C16.reads.cell", mode |-> "mem_read", missing |-> CHOOSE m \in missC : TRUE]>>
           ELSE <<>>
\* an assignment: its written set names the destination, and its read set is judged on the value it assigns (its source)
Reads(r) ==
   IF r.exc # "" THEN <<[clause |-> "C16.exception", what |-> r.exc]>>
   ELSE IF r.e.k = "aff" THEN
        (IF Members(r.w) \ {[k |-> "none"]} # {r.e.a[1]} THEN <<[clause |-> "C16.writes.destination"]>> ELSE <<>>)
        \o ReadsOf(r.e.a[2], r)
   ELSE ReadsOf(r.e, r)
BindMap(r) == [i \in 1..Len(r.bind) |->
                 <<(CHOOSE wd \in Members(r.wild) : wd.n = r.bind[i][1]), r.bind[i][2]>>]
Pat(r) ==
   IF r.out = "exc" THEN <<[clause |-> "C16.match.exception"]>>
   ELSE IF r.out = "fail" THEN <<>>
   ELSE IF \E i \in 1..Len(r.bind) : r.bind[i][1] \notin {wd.n : wd \in Members(r.wild)} THEN <<[clause |-> "C16.match.binds_non_wildcard"]>>
   ELSE IF Renorm(Subst(r.pat, BindMap(r))) # Renorm(r.e) THEN
        <<[clause |-> "C16.match.reproduces", spec |-> IF Match(r.e, r.pat, r.wild, EmptyB) = Fail THEN "no binding exists" ELSE "a binding exists"]>>
   ELSE <<>>
Verdict(r) == IF r.kind = "pat" THEN Pat(r) ELSE IF ~WellTyped(r.e) THEN <<[clause |-> "input.illtyped"]>> ELSE Reads(r)
VARIABLE i
Init == i = 0
Next == \/ /\ i < Len(Recs) /\ i' = i + 1
           /\ LET v == Verdict(Recs[i']) IN
              IF v = <<>> THEN TRUE ELSE PrintT("VERDICT " \o ToJson([id |-> Recs[i'].id, v |-> v]))
        \/ /\ i = Len(Recs) /\ i' = i + 1 /\ PrintT("CONSUMED " \o ToString(Len(Recs)))
=============================================================================
