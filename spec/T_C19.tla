------------------------------- MODULE T_C19 -------------------------------
(* C->S judge for C19.  One record per canonical line:                      *)
(*   [id, evs]  evs[k] = [sid, syn, st, c]   (c = candidate encodings, hex) *)
(* Events are Asm(spelling) -> outcome in the order they were issued; the   *)
(* candidate set of a line is learned from its first event (the canonical   *)
(* spelling) and every later event of the same line must produce the same   *)
(* set.  A rejection or an exception is the empty set; when the canonical   *)
(* spelling was accepted, an equivalent spelling must be accepted too.      *)
(* That the spellings of one record are equivalent is not assumed here: it  *)
(* is the invariant DenoteOK of the generator Spelling.tla.                 *)
EXTENDS Sequences, Integers, FiniteSets, TLC, Json, IOUtils
Recs == JsonDeserialize(IOEnv.TRACE)
ToSet(s) == {s[k] : k \in 1..Len(s)}
Check(learned, e) ==
   IF ToSet(e.c) = learned THEN <<>>
   ELSE <<[clause |-> IF learned # {} /\ e.st # "list" THEN "C19.accepted" ELSE "C19.same_set", sid |-> e.sid,
           missing |-> Cardinality(learned \ ToSet(e.c)), extra |-> Cardinality(ToSet(e.c) \ learned)]>>
Verdict(r) == LET learned == ToSet(r.evs[1].c)
                  RECURSIVE go(_)
                  go(k) == IF k > Len(r.evs) THEN <<>> ELSE Check(learned, r.evs[k]) \o go(k + 1)
              IN go(2)
VARIABLE i
Init == i = 0
Next == \/ /\ i < Len(Recs) /\ i' = i + 1
           /\ LET v == Verdict(Recs[i']) IN
              IF v = <<>> THEN TRUE ELSE PrintT("VERDICT " \o ToJson([id |-> Recs[i'].id, v |-> v]))
        \/ /\ i = Len(Recs) /\ i' = i + 1 /\ PrintT("CONSUMED " \o ToString(Len(Recs)))
=============================================================================
