#!/usr/bin/env python3
"""Builder aid (never used at run time): after `rm -rf replays/C11; ./check C11 --tier thorough`, merges the violation classes
found in replays/C11 into findings.d/C11.json: a class whose key without the mnemonic equals an existing KNOWN entry's key extends
that entry's mnemonic list; other classes become new entries.  Every class must be triaged by a human before the file is committed."""
import json, glob, collections, re, sys
sys.path.insert(0, '/verif/tools')
P = '/verif/findings.d/C11.json'
cur = json.load(open(P))
idx = {}
for e in cur:
    if e['status'] == 'known':
        k = dict(e['key']); k.pop('mn', None)
        idx[json.dumps(k, sort_keys=True)] = e
new = collections.OrderedDict()
for f in sorted(glob.glob('/verif/replays/C11/*.json')):
    j = json.load(open(f)); k = dict(j['class']); d = j['detail']
    mn = k.pop('mn')
    gk = json.dumps(k, sort_keys=True)
    if gk in idx:
        e = idx[gk]
        if mn not in e['key']['mn']:
            e['key']['mn'] = sorted(set(e['key']['mn']) | {mn})
            print('extended', e['id'], 'with', mn, '(%s %s)' % (d['text'], d['bytes'][:12]))
        continue
    g = new.setdefault(gk, {'key': k, 'mns': set(), 'ex': d})
    g['mns'].add(mn)
import importlib.util
n0 = len(cur)
for i, (gk, g) in enumerate(new.items()):
    k = dict(g['key']); k['mn'] = sorted(g['mns'])
    ex = g['ex']
    c = k['clause']
    what = {'C11.lift_exception': "lifting raises %s in %s (%s)" % (k.get('exc'), k.get('func'), (k.get('line') or '')[:60]),
            'C11.welltyped': "lifted IR is ill-typed: innermost ill-typed node %s in the assignment to a %s destination" % (k.get('sig'), k.get('dst')),
            'C11.width': "source and destination widths differ (%s) in the assignment to a %s destination" % (k.get('sig'), k.get('dst')),
            'C11.overlapping_destinations': "two assignments of one instruction write the same storage (%s)" % k.get('dst')}.get(c, c)
    slug = re.sub(r'[^a-z0-9]+', '-', (c[4:] + '-' + k.get('dst', '') + '-' + k.get('sig', k.get('func', ''))).lower()).strip('-')[:60]
    cur.append({"id": "F-C11-%02d-%s" % (n0 + i, slug), "status": "known", "properties": ["C11"], "key": k,
                "what": what + " e.g. %s (%s)" % (ex['text'], ex['bytes'][:16]),
                "example": {"bytes": ex['bytes'][:20], "text": ex['text'],
                            "aff": (ex['affs_text'][ex['verdict'].get('aff', 1) - 1][:200] if ex['affs_text'] else None)}})
    print('new', cur[-1]['id'], k['mn'])
json.dump(cur, open(P, 'w'), indent=1)
