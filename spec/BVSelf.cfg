CONSTANTS
  Widths = {1,2,3,5,8}
  BigWidths = {9,12,13,15}
INIT Init
NEXT Next
INVARIANT Checks
CHECK_DEADLOCK FALSE
