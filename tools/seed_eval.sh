#!/bin/sh
# usage: tools/seed_eval.sh <dir with patch.diff demo.py README.txt> <property id> <seed name> [tier]
# Confirms an independently produced seeded change (demo passes on the clean tree, fails with the change, pinned suite green)
# and records whether the property's check detects it, under /verif/seeded/<name>/.
D=$(readlink -f "$1"); ID=$2; NAME=$3; TIER=${4:-quick}
OUT=/verif/seeded/$NAME
mkdir -p "$OUT"
cp "$D/patch.diff" "$D/demo.py" "$OUT/" ; [ -f "$D/README.txt" ] && cp "$D/README.txt" "$OUT/"
WT=/var/tmp/verif_seed_$$
git -C /repo worktree add -q "$WT" HEAD || exit 4
( cd "$WT" && PYTHONPATH="$WT" /venv/bin/python "$OUT/demo.py" >/dev/null 2>&1 ); clean=$?
git -C /repo worktree remove --force "$WT" >/dev/null 2>&1
res=$(/verif/tools/mutate.sh "$OUT/patch.diff" "$ID" "$TIER" "$OUT/demo.py" 2>&1); rc=$?
echo "$res" | tail -6
python3 - "$OUT" "$ID" "$NAME" "$TIER" "$clean" "$rc" <<PY
import sys, json
out, pid, name, tier, clean, rc = sys.argv[1:7]
res = """$res"""
json.dump({"property": pid, "name": name, "demo_exit_on_clean_tree": int(clean),
           "confirmed": int(clean) == 0 and int(rc) in (0, 3),
           "check_cmd": "tools/mutate.sh seeded/%s/patch.diff %s %s seeded/%s/demo.py" % (name, pid, tier, name),
           "detected_by_check": int(rc) == 0, "tier": tier,
           "check_output_tail": res.strip().splitlines()[-6:],
           "needs": open(out + "/README.txt").read()[:1500] if __import__("os").path.exists(out + "/README.txt") else ""},
          open(out + "/meta.json", "w"), indent=1)
PY
exit $rc
