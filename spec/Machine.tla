------------------------------- MODULE Machine -------------------------------
(* Concrete sequential execution of lifted semantics (C07).                   *)
(* A machine state is an environment of IR.Eval:                              *)
(*   [id |-> [name |-> limbs], seed |-> n, over |-> << <<addr limbs, byte>> >>]*)
(* i.e. a valuation of every identifier (registers, flags, initial symbols)   *)
(* and a flat little-endian byte memory (InitByte(seed, addr) overridden on   *)
(* the written bytes).  An instruction is a list of assignments (IR "aff"     *)
(* trees, as lifted by miasmX); ApplyAffs executes them as ONE parallel       *)
(* assignment: every source and every destination address is evaluated in the *)
(* pre-state, then all writes are committed, memory byte-wise.                *)
EXTENDS IR

SetId(s, n, v) == [s EXCEPT !.id = TLCEval([x \in (DOMAIN s.id) \cup {n} |-> IF x = n THEN v ELSE s.id[x]])]
ByteAddrs(addr, nb) == TLCEval([j \in 1..nb |-> Add(addr, FromNat(j - 1, AddrW), AddrW)])
\* byte-wise little-endian store; earlier entries for the same bytes are dropped so that
\* {over[i][1]} is exactly the set of written byte addresses
SetMem(s, addr, v) ==
   LET as == ByteAddrs(addr, Len(v))
       aset == {as[j] : j \in 1..Len(v)}
       keep == SelectSeq(s.over, LAMBDA e : e[1] \notin aset)
   IN [s EXCEPT !.over = TLCEval(keep \o [j \in 1..Len(v) |-> <<as[j], v[j]>>])]
Written(s) == {s.over[i][1] : i \in 1..Len(s.over)}
LoadBytes(s, addr, nb) == LoadLE(s, Zero(16), addr, nb)

\* one pending write of an assignment, computed in the pre-state s
AffWrite(aff, s) ==
   LET dst == aff.a[1] src == aff.a[2] IN
   IF dst.k = "id" THEN [k |-> "id", n |-> dst.n, addr |-> <<>>, v |-> Norm(Eval(src, s), dst.w)]
   ELSE [k |-> "mem", n |-> "", addr |-> Norm(Eval(dst.a[1], s), AddrW), v |-> Norm(Eval(src, s), dst.w)]
RECURSIVE Commit(_,_,_)
Commit(ws, i, s) ==
   IF i > Len(ws) THEN s
   ELSE Commit(ws, i + 1, IF ws[i].k = "id" THEN SetId(s, ws[i].n, ws[i].v) ELSE SetMem(s, ws[i].addr, ws[i].v))
ApplyAffs(affs, s) ==
   LET ws == TLCEval([i \in 1..Len(affs) |-> AffWrite(affs[i], s)]) IN TLCEval(Commit(ws, 1, s))

\* two memory destinations of one instruction that overlap would make the parallel assignment ambiguous
DstAddrs(aff, s) ==
   LET dst == aff.a[1] IN
   IF dst.k # "mem" THEN {}
   ELSE LET as == ByteAddrs(Norm(Eval(dst.a[1], s), AddrW), dst.w \div 8) IN {as[j] : j \in 1..Len(as)}
Unambiguous(affs, s) ==
   LET d == TLCEval([i \in 1..Len(affs) |-> DstAddrs(affs[i], s)]) IN
   \A i \in 1..Len(affs), j \in 1..Len(affs) : i < j => d[i] \cap d[j] = {}

\* ---- rep-prefixed string instructions ---------------------------------------
\* One architectural iteration (SDM "REP/REPE/REPNE"): execute the string step, decrement the count,
\* then test the termination condition.  rep in {"rep", "repe", "repne"}; the zf test applies to
\* cmps/scas only, which is what distinguishes "repe"/"repne" from "rep" in the records.
RepDone(s) == IsZero(IdVal(s, "ecx", 32))
RepStep(affs, rep, s) ==
   LET s1 == ApplyAffs(affs, s)
       s2 == SetId(s1, "ecx", Sub(IdVal(s1, "ecx", 32), FromNat(1, 32), 32))
       zf == IdVal(s2, "zf", 1)
       stop == (rep = "repe" /\ IsZero(zf)) \/ (rep = "repne" /\ ~IsZero(zf))
   IN [s |-> s2, stop |-> stop]
RepBound == 64                                   \* count bound of the explored space
RECURSIVE RepLoop(_,_,_,_)
RepLoop(affs, rep, s, n) ==
   IF RepDone(s) \/ n >= RepBound THEN [s |-> s, n |-> n]
   ELSE LET r == RepStep(affs, rep, s) IN
        IF r.stop THEN [s |-> r.s, n |-> n + 1] ELSE RepLoop(affs, rep, r.s, n + 1)

\* ---- sequential composition --------------------------------------------------
\* instruction record: [affs, rep ("" | "rep" | "repe" | "repne")]
Step(ins, s) == IF ins.rep = "" THEN ApplyAffs(ins.affs, s) ELSE RepLoop(ins.affs, ins.rep, s, 0).s
RECURSIVE Run(_,_,_,_)
Run(prog, i, n, s) == IF i > n THEN s ELSE Run(prog, i + 1, n, TLCEval(Step(prog[i], s)))
Exec(prog, s) == Run(prog, 1, Len(prog), s)
\* state before instruction i
Before(prog, i, s) == Run(prog, 1, i - 1, s)
\* the same fold, also reporting whether every step stayed inside the explored space
\* (no ambiguous parallel assignment, rep count below RepBound)
StepChk(ins, s) ==
   IF ins.rep = "" THEN [s |-> ApplyAffs(ins.affs, s), ok |-> Unambiguous(ins.affs, s)]
   ELSE LET r == RepLoop(ins.affs, ins.rep, s, 0) IN [s |-> r.s, ok |-> r.n < RepBound]
RECURSIVE RunChk(_,_,_,_,_)
RunChk(prog, i, n, s, ok) ==
   IF i > n THEN [s |-> s, ok |-> ok]
   ELSE LET r == TLCEval(StepChk(prog[i], s)) IN RunChk(prog, i + 1, n, r.s, ok /\ r.ok)
=============================================================================
