"""Shared pieces of the IA-32 decode-family checks (C01 C10 C17): run miasmX's disassembler on byte strings in
worker processes with time guards, project the result (vf/instr_abs.py), classify exceptions."""
import os, sys, json, signal, traceback, multiprocessing, re
from . import core, instr_abs


class _TO(Exception):
    pass


def _alarm(*a):
    raise _TO()


def arm(seconds):
    """CPU-time limit of one call (ITIMER_PROF) with a wall-clock backstop: machine load never becomes a 'timeout' observation"""
    signal.signal(signal.SIGPROF, _alarm)
    signal.setitimer(signal.ITIMER_PROF, seconds)
    signal.alarm(int(seconds * 24))


def disarm():
    signal.setitimer(signal.ITIMER_PROF, 0)
    signal.alarm(0)


def exc_key(e, tb=None):
    """(exception type, innermost miasmx function, normalised source line) - one root cause = one key"""
    tb = tb or e.__traceback__
    site = None
    for fr in traceback.extract_tb(tb):
        if 'miasmx' in fr.filename:
            site = fr
    if site is None:
        frs = traceback.extract_tb(tb)
        site = frs[-1] if frs else None
    if site is None:
        return {'exc': type(e).__name__, 'func': '?', 'line': '?'}
    k = {'exc': type(e).__name__, 'func': site.name, 'line': re.sub(r'\s+', ' ', (site.line or '').strip())[:120]}
    m = re.match(r"Mnemonic '([^']*)' unknown", str(e))
    if m:
        k['name'] = m.group(1)           # which mnemonic has no AT&T name (the class is per mnemonic)
    return k


_mn = None


def _init():
    global _mn
    sys.path.insert(0, core.REPO)
    import logging
    logging.disable(logging.CRITICAL)
    saved = list(sys.path)
    from miasmx.arch.ia32_arch import x86mnemo
    # ply/yacc.py read_table() sets sys.path = [outputdir] and does not restore it when the table file does not exist
    # yet (fresh TMPDIR): importing miasmX would leave this process without a usable sys.path
    if sys.path != saved and len(sys.path) == 1:
        sys.path[:] = saved
    _mn = x86mnemo
    signal.signal(signal.SIGALRM, _alarm)


def dis_one(b, att=False, want_row=False):
    """-> dict: st in absent|instr|exc|timeout (+ projection fields).  Rendering failures are st='exc' with stage."""
    global _mn
    if _mn is None:
        _init()
    r = {'b': list(b)}
    stage = 'dis'
    arm(5)
    try:
        try:
            ins = _mn.dis(bytes(b))
            if ins is None:
                r['st'] = 'absent'
                return r
            stage = 'str'
            text = str(ins)
            r['text'] = text
            r['len'] = int(ins.l)
            if want_row:                     # evidence only (coverage of miasmX's table), never part of a verdict
                r['row'] = '%s %s' % (ins.m.name, ' '.join('%02X' % x for x in ins.m.opc))
            if att:
                stage = 'att'
                r['att'] = ins.__str__(asm_format='att_syntax binutils')
            stage = 'proj'
            r.update(instr_abs.instr_to_abs(ins, text))
            r['st'] = 'instr'
        finally:
            disarm()
    except _TO:
        r['st'] = 'timeout'
        r['stage'] = stage
    except instr_abs.ProjectionError as e:
        r['st'] = 'unreadable'
        r['why'] = str(e)
    except Exception as e:
        r['st'] = 'exc'
        r['stage'] = stage
        r['exc'] = exc_key(e)
    return r


def _chunk(args):
    bs, att, want_row = args
    return [dis_one(b, att, want_row) for b in bs]


def observe(byte_strings, att=False, procs=None, want_row=False):
    """decode every byte string with miasmX (parallel); returns one result dict per input, in order"""
    procs = procs or min(core.NCPU, 16)
    n = len(byte_strings)
    if n < 2000 or procs == 1:
        return _chunk((byte_strings, att, want_row))
    step = max(500, n // (procs * 8))
    chunks = [(byte_strings[i:i + step], att, want_row) for i in range(0, n, step)]
    ctx = multiprocessing.get_context('fork')
    with ctx.Pool(procs, initializer=_init) as pool:
        out = []
        for part in pool.imap(_chunk, chunks):
            out += part
    return out


def to_record(idx, o):
    """observation -> trace record for T_C01-style judges (uniform field types)"""
    if o['st'] == 'instr':
        return {'id': idx, 'b': o['b'], 'ok': True, 'len': o['len'], 'raw': o['raw'], 'mn': o['mn'], 'pre': o['pre'], 'ops': o['ops']}
    return {'id': idx, 'b': o['b'], 'ok': False, 'len': 0, 'raw': [], 'mn': '', 'pre': [], 'ops': []}
