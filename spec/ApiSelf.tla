------------------------------- MODULE ApiSelf -------------------------------
(* Spec-internal obligation for C12 (run by setup.sh): the menu is well       *)
(* formed (MenuOK), every state is well typed (TypeOK) and the abstract       *)
(* machine state carried by the generator is exactly the sequence of          *)
(* state-changing calls a machine received (MstOK), on all histories of up to *)
(* 3 calls in every cache configuration.                                      *)
EXTENDS Api
=============================================================================
