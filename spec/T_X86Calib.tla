------------------------------ MODULE T_X86Calib ------------------------------
(* Calibration judge: X86Sem!Step against the state the host processor        *)
(* produced from the same initial state (flags, registers and memory the SDM  *)
(* leaves undefined excluded).                                                *)
(* Record: [id, mode ("predict" | "compare"), i, s |-> [reg, fl, seed, over], *)
(*          reg, fl (processor result), cmpesp (0/1),                         *)
(*          base (limbs), win (bytes of the case's private memory window      *)
(*          after execution; <<>> when the instance touches no memory)]       *)
(* predict: reports only whether Step faults (such states are not executed).  *)
EXTENDS X86SpaceLib, Json, IOUtils
Recs == JsonDeserialize(IOEnv.TRACE)
FlagAt(fl, f) == CASE f = 1 -> fl.cf [] f = 2 -> fl.pf [] f = 3 -> fl.af [] f = 4 -> fl.zf [] f = 5 -> fl.sf [] f = 6 -> fl.df [] f = 7 -> fl.of
Verdict(rec) ==
   LET s == [reg |-> rec.s.reg, fl |-> rec.s.fl, seed |-> rec.s.seed, over |-> rec.s.over, eip |-> Z4]
       p == Step(rec.i, s) IN
   IF rec.mode = "predict" THEN (IF p.fault = "" THEN <<>> ELSE <<[clause |-> "fault", fault |-> p.fault]>>)
   ELSE
   LET badr == {r \in 1..8 : (r # ESP \/ rec.cmpesp = 1) /\ r \notin p.ur /\ p.reg[r] # rec.reg[r]}
       badf == {f \in 1..7 : FlagAt(p.fl, f) # U /\ FlagAt(p.fl, f) # FlagAt(rec.fl, f)}
       n == Len(rec.win)
       addr(j) == Add(rec.base, Const(j - 1), 32)
       \* every byte of the window: written by the spec -> that value, otherwise the initial content
       badm == IF p.um THEN {} ELSE {j \in 1..n : rec.win[j] # PostByte(p.wr, s, addr(j))}
       stray == {a \in WrAddrs(p.wr) : n > 0 /\ ~Ult(Sub(a, rec.base, 32), Const(n))} IN
   IF p.fault # "" THEN <<[clause |-> "calib.fault", fault |-> p.fault]>>
   ELSE IF badr = {} /\ badf = {} /\ badm = {} /\ stray = {} THEN <<>>
   ELSE <<[clause |-> "calib.mismatch", regs |-> {RegNames[r] : r \in badr}, flags |-> {FlagNames[f] : f \in badf},
           mem |-> {<<j - 1, rec.win[j], PostByte(p.wr, s, addr(j))>> : j \in badm}, stray |-> stray,
           spec |-> [reg |-> p.reg, fl |-> p.fl, wr |-> p.wr], cpu |-> [reg |-> rec.reg, fl |-> rec.fl]]>>
VARIABLE i
Init == i = 0
Next == \/ /\ i < Len(Recs) /\ i' = i + 1
           /\ LET v == Verdict(Recs[i']) IN
              IF v = <<>> THEN TRUE ELSE PrintT("VERDICT " \o ToJson([id |-> Recs[i'].id, v |-> v]))
        \/ /\ i = Len(Recs) /\ i' = i + 1 /\ PrintT("CONSUMED " \o ToString(Len(Recs)))
=============================================================================
