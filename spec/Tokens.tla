------------------------------- MODULE Tokens -------------------------------
(* Generator (S->C) for the assembler half of C10: every token sequence of  *)
(* at most MaxLen tokens over a ~30-token lexical alphabet per syntax       *)
(* (mnemonics, prefixes, registers of each class, size keywords,            *)
(* punctuation, numbers at the lexer's boundaries, a symbol).  A state is a *)
(* sequence of token indices; the driver joins the tokens with one space.   *)
(* Beyond the exhaustive bound the same machine is run with -simulate       *)
(* (Sim = TRUE prints every visited sequence).                              *)
EXTENDS Integers, Sequences, TLC, Json
CONSTANTS MaxLen, Syn, Sim
IntelTok == <<"mov", "add", "push", "shl", "jmp", "fadd", "movq", "rep",
              "eax", "cx", "bl", "fs", "st", "mm1", "xmm2", "cr0",
              "DWORD", "BYTE", "PTR",
              ",", "[", "]", "+", "-", "*", ":", "(", ")", "%",
              "0", "1", "4294967296", "0x", "foo">>
AttTok   == <<"movl", "addb", "pushl", "shll", "jmp", "fadd", "movq", "rep", "call",
              "%eax", "%cx", "%bl", "%fs", "%st", "%mm1", "%xmm2", "%cr0", "%",
              "$", ",", "(", ")", "+", "-", "*", ":",
              "0", "1", "4", "4294967296", "0x", "foo", "eax">>
Alphabet == IF Syn = "intel" THEN IntelTok ELSE AttTok
ASSUME PrintT("ALPHABET " \o ToJson([syn |-> Syn, toks |-> Alphabet]))
VARIABLE toks
Init == toks = <<>>
Extend == /\ Len(toks) < MaxLen
          /\ \E t \in 1..Len(Alphabet) : toks' = Append(toks, t)
          /\ (Sim => PrintT("SEQ " \o ToJson(toks')))
Next == Extend
Spec == Init /\ [][Next]_toks
TypeOK == Len(toks) <= MaxLen /\ \A j \in 1..Len(toks) : toks[j] \in 1..Len(Alphabet)
=============================================================================
