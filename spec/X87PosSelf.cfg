INIT Init
NEXT Next
INVARIANT ArithAt
INVARIANT StoreAt
INVARIANT SetsOK
INVARIANT ConstOK
CHECK_DEADLOCK FALSE
