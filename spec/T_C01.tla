------------------------------- MODULE T_C01 -------------------------------
(* C->S judge for C01.  Record: [id, b (input bytes), ok, len, raw, mn, pre, ops] = what miasmX reported  *)
(* for input b (ok = FALSE: no instruction / exception; then only b matters).  Only strings that both     *)
(* sides accept as one instruction without superfluous prefixes are compared; the others are counted.     *)
EXTENDS IA32Decode, Json, IOUtils
Recs == JsonDeserialize(IOEnv.TRACE)
ShownPfx(d) == (IF Has(d.pfx, 240) THEN {"lock"} ELSE {})
         \cup (IF Has(d.pfx, 243) /\ "mp" \notin d.use THEN {"rep"} ELSE {})
         \cup (IF Has(d.pfx, 242) /\ "mp" \notin d.use THEN {"repne"} ELSE {})
         \cup (IF Has(d.pfx, 62) /\ "notrack" \in d.use /\ (\A j \in 1..Len(d.ops) : d.ops[j].k # "mem") THEN {"notrack"} ELSE {})
SeqSet(s) == {s[j] : j \in 1..Len(s)}
Class(r, d) == IF ~d.ok THEN "specrej" ELSE IF ~Meaningful(d.pfx, d) THEN "superfluous" ELSE IF ~r.ok THEN "implrej" ELSE "cmp"
Clauses(r, d) ==
   LET df == TLCEval(InstrDiff(d, r))
       pre == SeqSet(r.pre) \ (IF "notrack" \in d.use THEN {} ELSE {"notrack"}) IN
   (IF r.len # d.len THEN <<[clause |-> "C01.len", exp |-> d.len, got |-> r.len, op |-> 0]>> ELSE <<>>)
   \o (IF r.len <= Len(r.b) /\ r.raw = SubSeq(r.b, 1, r.len) THEN <<>> ELSE <<[clause |-> "C01.raw", exp |-> d.len, got |-> r.len, op |-> 0]>>)
   \o (IF df[1] = "" THEN <<>> ELSE <<[clause |-> "C01." \o df[1], exp |-> d.len, got |-> r.len, op |-> df[2]]>>)
   \o (IF df[1] = "" /\ pre # ShownPfx(d) \ (IF "notrack" \in pre THEN {} ELSE {"notrack"})
       THEN <<[clause |-> "C01.prefix", exp |-> d.len, got |-> r.len, op |-> 0]>> ELSE <<>>)
VARIABLES i, cnt
Init == i = 0 /\ cnt = [cmp |-> 0, specrej |-> 0, superfluous |-> 0, implrej |-> 0]
Next == \/ /\ i < Len(Recs) /\ i' = i + 1
           /\ LET r == Recs[i']  d == TLCEval(Decode(r.b, 32))  c == Class(r, d) IN
              /\ cnt' = [cnt EXCEPT ![c] = @ + 1]
              /\ IF c = "cmp" THEN
                    LET v == Clauses(r, d) IN
                    IF v = <<>> THEN TRUE ELSE PrintT("VERDICT " \o ToJson([id |-> r.id, v |-> v, spec |-> d]))
                 ELSE TRUE
        \/ /\ i = Len(Recs) /\ i' = i + 1 /\ cnt' = cnt
           /\ PrintT("STATS " \o ToJson(cnt))
           /\ PrintT("CONSUMED " \o ToString(Len(Recs)))
=============================================================================
