--------------------------------- MODULE IR ---------------------------------
(* The expression IR of miasmX and its standard bit-vector meaning.          *)
(* A tree is a record with one fixed type per field name:                    *)
(*   [k |-> "int",  w, v (limbs)]                                            *)
(*   [k |-> "id",   w, n (name)]                                             *)
(*   [k |-> "mem",  w, a |-> <<addr>>, g |-> <<>> | <<segment expr>>]        *)
(*   [k |-> "op",   w, o (operator), u (tag for uninterpreted ops), a]       *)
(*   [k |-> "cond", w, a |-> <<c, t, f>>]                                    *)
(*   [k |-> "slice",w, lo, hi, a |-> <<x>>]                                  *)
(*   [k |-> "compose", w, a |-> <<x1..xn>>, s |-> << <<lo1,hi1>>, ... >>]    *)
(*   [k |-> "aff",  w, a |-> <<dst, src>>]                                   *)
(* w is what the implementation answers for the node's size (-1 if it        *)
(* raises); Width recomputes it from the structure.                          *)
EXTENDS BV, FiniteSets

ACOps == {"+", "*", "^", "&", "|"}
BinSameW == {"+", "-", "*", "&", "|", "^", "=="}
Shifts == {"<<", ">>", "a>>", "<<<", ">>>"}
MulOps == {"umul32_lo", "umul32_hi", "umul16_lo", "umul16_hi", "imul32_lo", "imul32_hi", "imul16_lo", "imul16_hi",
           "umul08", "imul08"}
DivOps == {"div8", "div16", "div32", "rem8", "rem16", "rem32", "idiv8", "idiv16", "idiv32", "irem8", "irem16", "irem32"}
RcOps == {"<<<c_rez", "<<<c_cf", ">>>c_rez", ">>>c_cf"}
Interpreted == ACOps \cup {"-", "==", "parity", "!", "bsf", "bsr"} \cup Shifts \cup MulOps \cup DivOps \cup RcOps

\* ---- structure -----------------------------------------------------------
RECURSIVE Width(_)
Width(e) ==
  CASE e.k = "int" -> e.w
    [] e.k = "id" -> e.w
    [] e.k = "mem" -> e.w
    [] e.k = "op" -> IF Len(e.a) = 0 THEN -1 ELSE Width(e.a[1])
    [] e.k = "cond" -> Width(e.a[2])
    [] e.k = "slice" -> e.hi - e.lo
    [] e.k = "compose" -> LET his == {e.s[i][2] : i \in 1..Len(e.s)} los == {e.s[i][1] : i \in 1..Len(e.s)} IN
                          IF his = {} THEN -1 ELSE (CHOOSE h \in his : \A x \in his : x <= h) - (CHOOSE l \in los : \A x \in los : l <= x)
    [] e.k = "aff" -> Width(e.a[1])
    [] OTHER -> -1

\* recompute the recorded width annotation of every derived node (after substitutions / mutations)
RECURSIVE Renorm(_)
Renorm(e) == IF e.k \in {"int", "id"} THEN e
             ELSE LET e2 == [e EXCEPT !.a = [i \in 1..Len(e.a) |-> Renorm(e.a[i])]] IN
                  IF e.k = "mem" THEN e2 ELSE [e2 EXCEPT !.w = Width(e2)]

RECURSIVE NodeCount(_)
RECURSIVE SumNodes(_,_)
SumNodes(a, i) == IF i > Len(a) THEN 0 ELSE NodeCount(a[i]) + SumNodes(a, i + 1)
NodeCount(e) == IF e.k \in {"int", "id"} THEN 1
                ELSE 1 + SumNodes(e.a, 1)          \* a segment annotation is not counted

\* slots of a compose tile [0, W) without gap or overlap (in some order)
RECURSIVE TileFrom(_,_,_)
TileFrom(slots, pos, W) ==
   IF pos = W THEN slots = {}
   ELSE \E sl \in slots : sl[1] = pos /\ sl[2] > pos /\ TileFrom(slots \ {sl}, sl[2], W)
Tiles(s, W) == W > 0 /\ Cardinality({s[i] : i \in 1..Len(s)}) = Len(s) /\ TileFrom({s[i] : i \in 1..Len(s)}, 0, W)

\* C11 typing rules.  `strict` = FALSE relaxes nothing else than: shift/rotate counts may have
\* another width than the shifted value.
RECURSIVE WellTyped(_)
WellTyped(e) ==
  CASE e.k = "int" -> e.w >= 1 /\ IsBV(e.v, e.w)
    [] e.k = "id" -> e.w >= 1
    [] e.k = "mem" -> /\ e.w >= 8 /\ e.w % 8 = 0 /\ Len(e.a) = 1 /\ WellTyped(e.a[1]) /\ e.a[1].k # "aff"
                      /\ Width(e.a[1]) >= 1
                      /\ \A i \in 1..Len(e.g) : WellTyped(e.g[i]) /\ e.g[i].k # "aff"
    [] e.k = "op" -> /\ Len(e.a) >= 1
                     /\ \A i \in 1..Len(e.a) : WellTyped(e.a[i]) /\ e.a[i].k # "aff" /\ Width(e.a[i]) >= 1
                     /\ (e.o \in BinSameW => \A i \in 2..Len(e.a) : Width(e.a[i]) = Width(e.a[1]))
                     /\ (e.o \in ACOps \cup {"=="} => Len(e.a) >= 2)
                     /\ (e.o = "-" => Len(e.a) \in {1, 2})
                     /\ (e.o \in Shifts \cup {"=="} => Len(e.a) = 2)
                     /\ (e.o \in {"parity", "!"} => Len(e.a) = 1)
                     /\ (e.o \in DivOps \cup RcOps => Len(e.a) = 3)
                     /\ (e.o \in MulOps => Len(e.a) = 2)
    [] e.k = "cond" -> /\ Len(e.a) = 3 /\ \A i \in 1..3 : WellTyped(e.a[i]) /\ e.a[i].k # "aff" /\ Width(e.a[i]) >= 1
                       /\ Width(e.a[2]) = Width(e.a[3])
    [] e.k = "slice" -> /\ Len(e.a) = 1 /\ WellTyped(e.a[1]) /\ e.a[1].k # "aff"
                        /\ 0 <= e.lo /\ e.lo < e.hi /\ e.hi <= Width(e.a[1])
    [] e.k = "compose" -> /\ Len(e.a) >= 1 /\ Len(e.a) = Len(e.s)
                          /\ \A i \in 1..Len(e.a) : /\ WellTyped(e.a[i]) /\ e.a[i].k # "aff"
                                                    /\ Width(e.a[i]) >= e.s[i][2] - e.s[i][1]    \* a slot takes the low bits of its source
                                                    /\ e.s[i][1] >= 0 /\ e.s[i][2] > e.s[i][1]
                          /\ Tiles(e.s, Width(e))
    [] e.k = "aff" -> /\ Len(e.a) = 2 /\ WellTyped(e.a[1]) /\ WellTyped(e.a[2])
                      /\ e.a[1].k \in {"id", "mem"} /\ e.a[2].k # "aff"
    [] OTHER -> FALSE
\* the stricter rule for compose slots (source exactly as wide as its slot)
RECURSIVE SlotsExact(_)
SlotsExact(e) == IF e.k \in {"int", "id"} THEN TRUE
                 ELSE /\ \A i \in 1..Len(e.a) : SlotsExact(e.a[i])
                      /\ (e.k = "compose" => \A i \in 1..Len(e.a) : Width(e.a[i]) = e.s[i][2] - e.s[i][1])

\* ---- environment ---------------------------------------------------------
\* env: [id |-> [name |-> limbs], seed |-> n, over |-> << <<addr limbs (4), byte>> ... >>]
AddrW == 32
IdVal(env, n, w) == Norm(env.id[n], w)
IdsBound(env, names) == \A n \in names : n \in DOMAIN env.id
InitByte(seed, sg, a) == (G(a,1) * 7 + G(a,2) * 13 + G(a,3) * 29 + G(a,4) * 31 + seed * 3 + G(sg,1) * 11 + G(sg,2) * 17) % 256
MemByte(env, sg, a) ==
   LET hits == {i \in 1..Len(env.over) : env.over[i][1] = a} IN
   IF hits = {} \/ ~IsZero(sg) THEN InitByte(env.seed, sg, a) ELSE env.over[CHOOSE i \in hits : \A j \in hits : j <= i][2]
LoadLE(env, sg, a, nbytes) ==
   LET a0 == Norm(a, AddrW) IN
   TLCEval([i \in 1..nbytes |-> MemByte(env, sg, Add(a0, FromNat(i - 1, AddrW), AddrW))])

\* uninterpreted function symbols: a fixed mixing of the operator tag and all argument limbs
RECURSIVE MixArgs(_,_,_)
RECURSIVE MixLimbs(_,_,_,_)
MixLimbs(v, k, i, j) == IF k > Len(v) THEN 0 ELSE (v[k] * ((i * 7 + k * 13 + j * 3 + 1) % 251) + MixLimbs(v, k + 1, i, j)) % 65521
MixArgs(vals, i, j) == IF i > Len(vals) THEN 0 ELSE (MixLimbs(vals[i], 1, i, j) + MixArgs(vals, i + 1, j)) % 65521
UF(u, vals, w) == Norm([j \in 1..NL(w) |-> (u * 31 + j * 17 + MixArgs(vals, 1, j)) % 256], w)

\* ---- evaluation ----------------------------------------------------------
Bool(p, w) == FromNat(IF p THEN 1 ELSE 0, w)
RECURSIVE Eval(_,_)
RECURSIVE FoldAC(_,_,_,_,_,_)
FoldAC(o, args, env, i, acc, w) == IF i > Len(args) THEN acc ELSE
   LET x == Norm(Eval(args[i], env), w) IN
   FoldAC(o, args, env, i + 1,
      CASE o = "+" -> Add(acc, x, w) [] o = "^" -> BXor(acc, x, w) [] o = "&" -> BAnd(acc, x, w)
        [] o = "|" -> BOr(acc, x, w) [] o = "*" -> Mul(acc, x, w), w)
RECURSIVE ComposeAll(_,_,_,_)
ComposeAll(e, env, i, acc) == IF i > Len(e.a) THEN acc ELSE
   LET lo == e.s[i][1] hi == e.s[i][2] W == Width(e)
       x == Norm(Eval(e.a[i], env), hi - lo) IN
   ComposeAll(e, env, i + 1, BOr(acc, ShlN(ZExt(x, W), lo, W), W))
EvalOp(e, env) ==
   LET o == e.o
       w == Width(e.a[1])
       x == Eval(e.a[1], env)
       y == IF Len(e.a) >= 2 THEN Eval(e.a[2], env) ELSE <<>>
       z == IF Len(e.a) >= 3 THEN Eval(e.a[3], env) ELSE <<>>
       cnt == SmallVal(y)
       mulw == IF o \in {"umul32_lo", "umul32_hi", "imul32_lo", "imul32_hi"} THEN 32
               ELSE IF o \in {"umul16_lo", "umul16_hi", "imul16_lo", "imul16_hi"} THEN 16 ELSE 8
       divw == IF o \in {"div8", "rem8", "idiv8", "irem8"} THEN 8
               ELSE IF o \in {"div16", "rem16", "idiv16", "irem16"} THEN 16 ELSE 32
   IN CASE o \in ACOps -> FoldAC(o, e.a, env, 2, x, w)
        [] o = "-" -> IF Len(e.a) = 1 THEN Neg(x, w) ELSE Sub(x, Norm(y, w), w)
        [] o = "<<" -> ShlN(x, cnt, w)
        [] o = ">>" -> ShrN(x, cnt, w)
        [] o = "a>>" -> SarN(x, cnt, w)
        [] o = "<<<" -> RolN(x, ModSmall(y, w), w)        \* rotate counts are taken modulo the width
        [] o = ">>>" -> RorN(x, ModSmall(y, w), w)
        [] o = "==" -> Bool(x = Norm(y, w), w)
        [] o = "parity" -> FromNat(Parity8(x), w)
        [] o = "!" -> BNot(x, w)
        [] o = "bsf" -> FromNat(IF IsZero(x) THEN 0 ELSE Bsf(x, w), w)
        [] o = "bsr" -> FromNat(IF IsZero(x) THEN 0 ELSE Bsr(x, w), w)
        [] o \in {"umul32_lo", "umul16_lo"} -> Norm(Norm(MulFull(Norm(x, mulw), Norm(y, mulw), mulw), mulw), w)
        [] o \in {"umul32_hi", "umul16_hi"} -> Norm(Slice(MulFull(Norm(x, mulw), Norm(y, mulw), mulw), mulw, 2 * mulw), w)
        [] o \in {"imul32_lo", "imul16_lo"} -> Norm(Norm(Mul(SExt(Norm(x, mulw), mulw, 2 * mulw), SExt(Norm(y, mulw), mulw, 2 * mulw), 2 * mulw), mulw), w)
        [] o \in {"imul32_hi", "imul16_hi"} -> Norm(Slice(Mul(SExt(Norm(x, mulw), mulw, 2 * mulw), SExt(Norm(y, mulw), mulw, 2 * mulw), 2 * mulw), mulw, 2 * mulw), w)
        [] o = "umul08" -> Norm(MulFull(Norm(x, 8), Norm(y, 8), 8), w)
        [] o = "imul08" -> Norm(Mul(SExt(Norm(x, 8), 8, 16), SExt(Norm(y, 8), 8, 16), 16), w)
        [] o \in DivOps ->       \* (x:y) / z on 2*divw bits; a zero divisor or an overflowing quotient has no value: UF
             LET num == Concat(Norm(y, divw), divw, Norm(x, divw), divw)
                 den == Norm(z, divw)
                 sgn == o \in {"idiv8", "idiv16", "idiv32", "irem8", "irem16", "irem32"}
                 qr == IF IsZero(den) THEN <<Zero(2 * divw), Zero(2 * divw)>>
                       ELSE IF sgn THEN SDivRem(num, SExt(den, divw, 2 * divw), 2 * divw)
                       ELSE UDivRem(num, ZExt(den, 2 * divw), 2 * divw)
                 fits == IF sgn THEN SExt(Norm(qr[1], divw), divw, 2 * divw) = qr[1] ELSE ZExt(Norm(qr[1], divw), 2 * divw) = qr[1]
             IN IF IsZero(den) \/ ~fits THEN UF(e.u, <<x, y, z>>, w)
                ELSE IF o \in {"div8", "div16", "div32", "idiv8", "idiv16", "idiv32"} THEN Norm(Norm(qr[1], divw), w)
                ELSE Norm(Norm(qr[2], divw), w)
        [] o \in RcOps ->        \* rotate x through carry z by (y mod 32) mod (w+1)
             LET c == ModSmall(y, 32) % (w + 1)
                 cf == IF IsZero(z) THEN 0 ELSE Bit(z, 0)
                 r == IF o \in {"<<<c_rez", "<<<c_cf"} THEN RclN(x, cf, c, w) ELSE RcrN(x, cf, c, w)
             IN IF o \in {"<<<c_rez", ">>>c_rez"} THEN r[1] ELSE FromNat(r[2], w)
        [] OTHER -> UF(e.u, [i \in 1..Len(e.a) |-> Eval(e.a[i], env)], w)
Eval(e, env) ==
  TLCEval(CASE e.k = "int" -> e.v
    [] e.k = "id" -> IdVal(env, e.n, e.w)
    [] e.k = "mem" -> LoadLE(env, Zero(16), Eval(e.a[1], env), e.w \div 8)     \* flat model: a segment annotation does not select another address space
    [] e.k = "slice" -> Slice(Eval(e.a[1], env), e.lo, e.hi)
    [] e.k = "cond" -> IF IsZero(Eval(e.a[1], env)) THEN Eval(e.a[3], env) ELSE Eval(e.a[2], env)
    [] e.k = "compose" -> ComposeAll(e, env, 1, Zero(Width(e)))
    [] e.k = "op" -> EvalOp(e, env))

\* ---- syntactic sets -------------------------------------------------------
RECURSIVE Ids(_)
Ids(e) == CASE e.k = "int" -> {}
            [] e.k = "id" -> {e.n}
            [] e.k = "mem" -> Ids(e.a[1]) \cup UNION {Ids(e.g[i]) : i \in 1..Len(e.g)}
            [] OTHER -> UNION {Ids(e.a[i]) : i \in 1..Len(e.a)}
RECURSIVE SubTerms(_)
SubTerms(e) == {e} \cup (IF e.k \in {"int", "id"} THEN {}
                         ELSE UNION {SubTerms(e.a[i]) : i \in 1..Len(e.a)}
                              \cup (IF e.k = "mem" THEN UNION {SubTerms(e.g[i]) : i \in 1..Len(e.g)} ELSE {}))
\* IR!WellTyped without the width-agreement rules (operands of a binary operator, arms of a condition): such trees are
\* reported as C04.welltyped but still have a value under IR!Eval (operands are extended / truncated to the width of the first)
RECURSIVE Loose(_)
Loose(e) ==
  CASE e.k = "int" -> e.w >= 1 /\ IsBV(e.v, e.w)
    [] e.k = "id" -> e.w >= 1
    [] e.k = "mem" -> /\ e.w >= 8 /\ e.w % 8 = 0 /\ Len(e.a) = 1 /\ Loose(e.a[1]) /\ e.a[1].k # "aff" /\ Width(e.a[1]) >= 1
                      /\ \A j \in 1..Len(e.g) : Loose(e.g[j]) /\ e.g[j].k # "aff"
    [] e.k = "op" -> /\ Len(e.a) >= 1
                     /\ \A j \in 1..Len(e.a) : Loose(e.a[j]) /\ e.a[j].k # "aff" /\ Width(e.a[j]) >= 1
                     /\ (e.o \in ACOps \cup {"=="} => Len(e.a) >= 2)
                     /\ (e.o = "-" => Len(e.a) \in {1, 2})
                     /\ (e.o \in Shifts \cup {"=="} => Len(e.a) = 2)
                     /\ (e.o \in {"parity", "!"} => Len(e.a) = 1)
                     /\ (e.o \in DivOps \cup RcOps => Len(e.a) = 3)
                     /\ (e.o \in MulOps => Len(e.a) = 2)
    [] e.k = "cond" -> Len(e.a) = 3 /\ \A j \in 1..3 : Loose(e.a[j]) /\ e.a[j].k # "aff" /\ Width(e.a[j]) >= 1
    [] e.k = "slice" -> /\ Len(e.a) = 1 /\ Loose(e.a[1]) /\ e.a[1].k # "aff"
                        /\ 0 <= e.lo /\ e.lo < e.hi /\ e.hi <= Width(e.a[1])
    [] e.k = "compose" -> /\ Len(e.a) >= 1 /\ Len(e.a) = Len(e.s)
                          /\ \A j \in 1..Len(e.a) : /\ Loose(e.a[j]) /\ e.a[j].k # "aff"
                                                    /\ Width(e.a[j]) >= e.s[j][2] - e.s[j][1]
                                                    /\ e.s[j][1] >= 0 /\ e.s[j][2] > e.s[j][1]
                          /\ Tiles(e.s, Width(e))
    [] OTHER -> FALSE

=============================================================================
