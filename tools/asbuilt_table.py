#!/usr/bin/env python3
"""Regenerates DESIGN.md section 11.5 (per-property as-built table) from evidence/*.json and the findings files."""
import json, glob, os
V = os.path.dirname(os.path.dirname(os.path.abspath(__file__)))
SPEC = {
 'C01': ('IA32Space (decode automaton driven forwards)', 'T_C01 / IA32Judge over IA32Decode'),
 'C02': ('AsmSpace (canonical lines incl. implausible ones; condition-name, segment, memory, immediate sweeps) in Intel, AT&T, split-displacement and leading-zero layouts', 'T_C02 / AsmExpect over IA32Decode'),
 'C03': ('AsmSpace + IA32Space', 'T_C03 (fixpoint both directions; GNU as decides canonical)'),
 'C04': ('X86Space (instances x states, AddrForms; bytes from GNU as); each instance lifted twice', 'T_C04: IR.Eval(lifted) vs X86Sem.Step; X86Calib calibrates Step on the host CPU'),
 'C05': ('IRGen (typed stack machine) + seeded families (random, DAG, loose concatenations, two-pass, prefix twins, same-text)', 'T_C05 (Eval on valuation grids); T_SIMP vs SimpRules.Step'),
 'C06': ('IRGen x C06Space (machine states incl. cross-referencing bindings) + folding family + lifted source expressions; one object under several states', 'T_C06 (Eval(result, val) = Eval(e, val o state))'),
 'C07': ('SymMem histories, Prog programs (Machine.RepStep; pointers loaded from memory, copied rep counts, setcc/cmovcc)', 'T_C07 (read-backs vs concrete memory; SymPool invariants)'),
 'C08': ('X86Space + X86RWSpace', 'T_C08 (X86RW declared sets; X86Probe dependency probing for degenerate instances; reported cells concretised with IR.Eval against the bytes Step reads/writes)'),
 'C09': ('IA32Space', 'T_C09 (Syntax.Denote of both renderings, asm round trip, GNU as)'),
 'C10': ('IA32Space + truncations/junk/offsets through three stream classes, Tokens + canonical lines', 'T_C10 (Stream) and T_C10A'),
 'C11': ('ByteSpace + IA32Space (blocks decoded first, lifted afterwards)', 'T_C11 (IR.WellTyped/Width/Eval, culprit signature)'),
 'C12': ('Api (call histories x PLY cache configurations), Caches model', 'T_C12 (learned call-key -> result function; pools, inputs, tables unchanged)'),
 'C13': ('IRVarGen (tree, AC-variant) + DAG trees, segment twins, cancelling sums, slice merges + program dumps', 'T_C13'),
 'C14': ('ModIntSpace (8-bit exhaustive sweeps, boundary operands)', 'T_C14 over ModInt (native + limb paths)'),
 'C15': ('IRDeriveGen (mutations, replacement maps incl. chains/swaps) + objects returned by the simplifier; identifier flavours', 'T_C15 (Subst, Eval, structural equality)'),
 'C16': ('IRDeriveGen (patterns, same-shape and partial-substitution non-instances)', 'T_C16 (dependency probing with Eval; Subst(pattern, binding) = e)'),
 'C17': ('IA32Space x instruction offsets (fresh decode, and decode-ask-move-ask)', 'T_C17 over IA32Flow'),
 'C18': ('PPCSpace', 'T_C18 over PPC'),
 'C19': ('Spelling (presentation actions over AsmSpace lines)', 'T_C19 (learned candidate set per canonical line)'),
}
find = {}
files = [os.path.join(V, 'known_findings.json')] + sorted(glob.glob(os.path.join(V, 'findings.d', '*.json')))
for f in files:
    for x in json.load(open(f)):
        for p in x.get('properties', []):
            d = find.setdefault(p, {'known': 0, 'fixed': 0})
            d[x['status']] = d.get(x['status'], 0) + 1
rows = []
for p in sorted(SPEC):
    ef = os.path.join(V, 'evidence', p + '.json')
    e = json.load(open(ef)) if os.path.exists(ef) else None
    c = e['coverage'] if e else {}
    rows.append('| %s | %s | %s | %s | %s | %s | %s | %s | %d / %d |' % (
        p, SPEC[p][0], SPEC[p][1], e['tier'] if e else '-', c.get('states', '-'), c.get('traces_validated_against_impl', '-'),
        c.get('evaluations', '-'), ('%.0f s' % e['wall_s']) if e else '-', find.get(p, {}).get('known', 0), find.get(p, {}).get('fixed', 0)))
table = ('### 11.5 Per property, as built (from the evidence of the last committed runs)\n\n'
         '| id | generator specification(s) | judge | tier | TLC states | traces judged | cases | wall | findings known / fixed |\n'
         '|---|---|---|---|---|---|---|---|---|\n' + '\n'.join(rows) + '\n')
p = os.path.join(V, 'DESIGN.md')
s = open(p).read()
i = s.find('### 11.5 Per property')
if i >= 0:
    j = s.find('\n### ', i + 10)
    s = s[:i] + table + (s[j + 1:] if j >= 0 else '')
else:
    k = s.find('### 11.4 Seeded changes')
    s = s[:k] + table + '\n' + s[k:]
# 11.6: the fix: commits of /repo
import subprocess
log = subprocess.check_output(['git', '-C', '/repo', 'log', '--reverse', '--format=%h %s', 'db89684..HEAD']).decode().strip().splitlines()
fixes = '### 11.6 Repairs committed to /repo (`fix:` commits, oldest first; each is listed as `fixed` in a findings file)\n\n' + '\n'.join('* `%s` %s' % tuple(l.split(' ', 1)) for l in log) + '\n'
i = s.find('### 11.6 Repairs committed')
if i >= 0:
    j = s.find('\n### ', i + 10)
    s = s[:i] + fixes + (s[j + 1:] if j >= 0 else '')
else:
    k = s.find('### 11.4 Seeded changes')
    s = s[:k] + fixes + '\n' + s[k:]
open(p, 'w').write(s)
print('ok', len(log), 'fix commits')
