INIT Init
NEXT Next
INVARIANT Agree
CHECK_DEADLOCK FALSE
