----------------------------- MODULE AsmExpect -----------------------------
(* What an accepted assembly line obliges its encodings to be (C02, C03,    *)
(* C09): the instruction denoted by the line (Syntax.Denote), completed by  *)
(* the assembler conventions for implicit operands, compared with the       *)
(* reference decode of a candidate (IA32Decode.Decode) under SameInstr's    *)
(* rules: registers equal, memory operands same linear form / effective     *)
(* segment / size, immediates and branch displacements equal as values of   *)
(* the decoded field's width AND representable in it (nothing truncated or  *)
(* sign-changed), mnemonics equal modulo the documented aliases.            *)
EXTENDS Syntax
D == INSTANCE IA32Decode
ST(n) == [k |-> "reg", c |-> "st", n |-> n]
FArith == {"fadd","fmul","fsub","fsubr","fdiv","fdivr"}
FPopA  == {"faddp","fmulp","fsubp","fsubrp","fdivp","fdivrp"}
IsSt(o) == o.k = "reg" /\ o.c = "st"
\* implicit operands by assembler convention (Intel syntax, as GNU as and the SDM write them)
Complete(m, ops) ==
   LET n == Len(ops) IN
   CASE m \in Shifts /\ n = 1 -> <<ops[1], [k |-> "imm", v |-> <<1,0,0,0>>, neg |-> FALSE, sym |-> ""]>>
     [] m = "imul" /\ n = 2 /\ ops[2].k = "imm" -> <<ops[1], ops[1], ops[2]>>
     [] m \in {"shld", "shrd"} /\ n = 2 -> <<ops[1], ops[2], [k |-> "reg", c |-> "r8", n |-> 1]>>
     [] m \in FArith /\ n = 1 /\ IsSt(ops[1]) -> <<ST(0), ops[1]>>
     [] m \in {"fcom","fcomp","fucom","fucomp","fxch"} /\ n = 0 -> <<ST(1)>>
     [] m \in {"fcom","fcomp","fucom","fucomp","fxch","fld","fst","fstp"} /\ n = 2 /\ ops[1] = ST(0) /\ IsSt(ops[2]) -> <<ops[2]>>
     [] m \in FPopA /\ n = 0 -> <<ST(1), ST(0)>>
     [] m \in FPopA /\ n = 1 /\ IsSt(ops[1]) -> <<ops[1], ST(0)>>
     [] OTHER -> ops
Expect(den) == [mn |-> den.mn, ops |-> Complete(den.mn, den.ops)]
\* ---------------------------------------------------------------- comparison with a reference decode
MoreAliases == { {"movsd","movsl"}, {"cmpsd","cmpsl"}, {"iretd","iret"}, {"pushfd","pushf"}, {"popfd","popf"},
                 {"cwde","cwtl"}, {"fwait","wait"}, {"jmpf","ljmp"}, {"callf","lcall"} }
SameMn(a, b) == D!SameMnemonic(a, b) \/ \E s \in MoreAliases : a \in s /\ b \in s
\* requested value x = (v, neg) against a decoded field of `sz` bits holding dv
ValueOK(v, neg, sz, dv) == FitsW(v, neg, sz) /\ Low(v, sz) = Norm(dv, 32)
\* a: decoded operand, b: requested operand; "" when b is what the line asked for
OpDiff(a, b, os, isbranch) ==
   IF b.k = "imm" THEN
        (IF a.k = "imm" /\ ~isbranch THEN (IF ValueOK(b.v, b.neg, a.sz, a.v) THEN "" ELSE "imm")
         \* a branch displacement is a value modulo the operand size (DESIGN 3.5.3): sign-extend the field
         ELSE IF a.k = "rel" /\ isbranch THEN (IF SExt(Norm(a.d, a.sz), a.sz, 32) = b.v THEN "" ELSE "rel")
         ELSE "kind")
   ELSE IF a.k # b.k THEN "kind"
   ELSE IF b.k = "mem" /\ b.sym # "" /\ ~IsZero(a.d) /\ IsZero(b.d) THEN "disp"
   ELSE D!OperandDiff(a, b, os)
InsDiff(d, want) ==
   LET br == want.mn \in Branches \cup Jcc
       n == Len(want.ops) IN
   \* 90 is both NOP and the encoding of xchg eax, eax (SDM: "XCHG (E)AX, (E)AX (encoded instruction byte is 90H) is an alias for NOP")
   IF want.mn = "xchg" /\ d.mn = "nop" /\ n = 2 /\ d.ops = <<>> /\ want.ops[1] = want.ops[2] /\ want.ops[1].k = "reg"
      /\ want.ops[1].n = 0 /\ want.ops[1].c = (IF d.os = 16 THEN "r16" ELSE "r32") THEN <<"", 0>>
   ELSE IF ~SameMn(d.mn, want.mn) THEN <<"mnemonic", 0>>
   ELSE IF Len(D!CanonOps(d)) # n /\ Len(d.ops) # n THEN <<"operands", 0>>
   ELSE LET dd == IF Len(d.ops) = n THEN d ELSE [d EXCEPT !.ops = D!CanonOps(d)]
            \* xchg and test have one encoding direction: their operands are an unordered pair
            swap == want.mn \in {"xchg", "test"} /\ n = 2 /\ dd.ops[1].k # want.ops[1].k /\ dd.ops[1].k = want.ops[2].k
            w(j) == IF swap THEN want.ops[3 - j] ELSE want.ops[j]
            ds == [j \in 1..n |-> OpDiff(dd.ops[j], w(j), dd.os, br)]
            bad == {j \in 1..n : ds[j] # ""} IN
        IF bad = {} THEN <<"", 0>>
        ELSE IF want.mn \in {"xchg", "test"} /\ n = 2 /\ OpDiff(dd.ops[1], want.ops[2], dd.os, br) = "" /\ OpDiff(dd.ops[2], want.ops[1], dd.os, br) = "" THEN <<"", 0>>
        ELSE LET j == CHOOSE j \in bad : \A q \in bad : j <= q IN <<ds[j], j>>
\* prefixes that change the operation although the line did not ask for them
StrayPrefix(d) == D!Has(d.pfx, 240) \/ ((D!Has(d.pfx, 242) \/ D!Has(d.pfx, 243)) /\ "mp" \notin d.use)
\* all clauses for one candidate byte string c of a line whose expectation is `want`
CandClauses(c, want) ==
   LET d == TLCEval(D!Decode(c, 32)) IN
   IF ~d.ok THEN <<[clause |-> "C02.decodes", why |-> d.why, op |-> 0, row |-> <<"", -1, -1>>]>>
   ELSE IF d.len # Len(c) THEN <<[clause |-> "C02.len", why |-> ToString(d.len), op |-> 0, row |-> d.opc]>>
   ELSE LET df == InsDiff(d, want) IN
        IF df[1] # "" THEN <<[clause |-> "C02." \o df[1], why |-> d.mn \o (IF df[1] = "imm" THEN ":" \o ToString(d.ops[df[2]].sz) ELSE ""), op |-> df[2], row |-> d.opc]>>
        ELSE IF StrayPrefix(d) THEN <<[clause |-> "C02.prefix", why |-> d.mn, op |-> 0, row |-> d.opc]>>
        ELSE <<>>
\* ---------------------------------------------------------------- from a reference decode back to a line (C03, C09)
\* the decoded instruction as an abstract line (mn, ops) that Syntax.Layout can spell; branch displacements, far pointers,
\* 16-bit addressing forms and lock/rep prefixes have no spelling here
\* ... except one repeat prefix on a string instruction: "rep movsb", "repz cmpsb", "repnz scasb" (F2 only where it has a
\* meaning of its own, on the comparing string instructions)
RepSpelled(d) == /\ "rep" \in d.use /\ ~(D!Has(d.pfx, 242) /\ D!Has(d.pfx, 243))
                 /\ (D!Has(d.pfx, 242) => "repcc" \in d.use)
RepWord(d) == IF ~RepSpelled(d) THEN ""
              ELSE IF D!Has(d.pfx, 242) THEN "repnz "
              ELSE IF D!Has(d.pfx, 243) THEN (IF "repcc" \in d.use THEN "repz " ELSE "rep ")
              ELSE ""
PlainPrefixes(d) == ~D!Has(d.pfx, 240) /\ ((D!Has(d.pfx, 242) \/ D!Has(d.pfx, 243)) => ("mp" \in d.use \/ RepSpelled(d)))
Renderable(d) == /\ d.ok /\ PlainPrefixes(d)
                 /\ \A j \in 1..Len(d.ops) : d.ops[j].k \in {"reg", "imm"} \/ (d.ops[j].k = "mem" /\ d.ops[j].aw = 32)
OpOf(o) == IF o.k = "reg" THEN [k |-> "reg", c |-> o.c, n |-> o.n]
           ELSE IF o.k = "imm" THEN [k |-> "imm", v |-> Norm(o.v, 32), neg |-> FALSE, sym |-> ""]
           ELSE [k |-> "mem", sz |-> o.sz, seg |-> o.seg, b |-> o.b, i |-> o.i, sc |-> o.sc, d |-> o.d, aw |-> 32, sym |-> ""]
InsOf(d) == [mn |-> RepWord(d) \o d.mn, ops |-> [j \in 1..Len(d.ops) |-> OpOf(d.ops[j])]]
\* "instructions a compiler emits": no raw relative displacement, no absolute numeric memory operand (C09)
Emittable(d) == \A j \in 1..Len(d.ops) : /\ d.ops[j].k \notin {"rel", "far"}
                                           /\ ~(d.ops[j].k = "mem" /\ d.ops[j].b = -1 /\ d.ops[j].i = -1)
=============================================================================
