------------------------------ MODULE X86SpaceLib ----------------------------
(* Generator of the C04/C08 input space.                                     *)
(*  - Instances: every integer-core mnemonic x operand size 8/16/32 x form   *)
(*    reg/imm/mem x shift-count class x condition code, as abstract          *)
(*    instruction records of X86Sem plus their Intel-syntax text for GNU as   *)
(*    (the bytes come from `as --32`, never from miasmX's assembler).        *)
(*    Reachable states of this spec = the instances (TLC -dump).             *)
(*  - GenState(i, sd, k): the k-th initial processor state for instance i    *)
(*    under seed sd: registers / flags / memory operand contents drawn from  *)
(*    {0,1,2^k-1,2^k,sign bit,all-ones,...} and seeded pseudo-random words,  *)
(*    with the per-mnemonic biases that make the interesting cases frequent  *)
(*    (shift-count classes in cl, non-faulting dividends, equal comparands,  *)
(*    all flag combinations for condition codes).  Used by X86Space's        *)
(*    invariant, by the judge T_C04 and by the self-check X86RWSelf.         *)
EXTENDS X86Sem

\* ---- operands and instance records -----------------------------------------
Z4 == <<0, 0, 0, 0>>
R(c, n) == [k |-> "reg", c |-> c, n |-> n, v |-> <<>>, b |-> -1, i |-> -1, sc |-> 1, d |-> Z4]
Imm(v) == [k |-> "imm", c |-> "", n |-> 0, v |-> v, b |-> -1, i |-> -1, sc |-> 1, d |-> Z4]
M(b, i, sc, d) == [k |-> "mem", c |-> "", n |-> 0, v |-> <<>>, b |-> b, i |-> i, sc |-> sc, d |-> d]
RC(w) == IF w = 8 THEN "r8" ELSE IF w = 16 THEN "r16" ELSE "r32"
Inst(mn, w, sw, ops, cc, rel, cls, q) ==
   [mn |-> mn, w |-> w, sw |-> sw, ops |-> ops, cc |-> cc, len |-> 0, rel |-> rel, cls |-> cls, q |-> q]
I2(mn, w, ops, cls, q) == Inst(mn, w, 0, ops, "", Z4, cls, q)

\* ---- text for GNU as (.intel_syntax noprefix) ----------------------------------
HexD == <<"0","1","2","3","4","5","6","7","8","9","a","b","c","d","e","f">>
Hex2(b) == HexD[(b \div 16) + 1] \o HexD[(b % 16) + 1]
RECURSIVE HexR(_,_)
HexR(v, j) == IF j = 0 THEN "" ELSE Hex2(v[j]) \o HexR(v, j - 1)
Hex(v) == "0x" \o HexR(v, Len(v))
R32N == <<"eax","ecx","edx","ebx","esp","ebp","esi","edi">>
R16N == <<"ax","cx","dx","bx","sp","bp","si","di">>
R8N == <<"al","cl","dl","bl","ah","ch","dh","bh">>
RegText(c, n) == IF c = "r8" THEN R8N[n + 1] ELSE IF c = "r16" THEN R16N[n + 1] ELSE R32N[n + 1]
PtrText(w) == IF w = 8 THEN "byte ptr " ELSE IF w = 16 THEN "word ptr " ELSE "dword ptr "
MemText(o) ==
   "[" \o (IF o.b >= 0 THEN R32N[o.b + 1] ELSE "")
       \o (IF o.i >= 0 THEN (IF o.b >= 0 THEN "+" ELSE "") \o R32N[o.i + 1] \o "*" \o ToString(o.sc) ELSE "")
       \o (IF o.b < 0 /\ o.i < 0 THEN Hex(o.d) ELSE IF IsZero(o.d) THEN "" ELSE "+" \o Hex(o.d)) \o "]"
OpText(o, w, ptr) == CASE o.k = "reg" -> RegText(o.c, o.n)
                       [] o.k = "imm" -> Hex(Norm(o.v, IF w = 8 THEN 8 ELSE IF w = 16 THEN 16 ELSE 32))
                       [] o.k = "mem" -> (IF ptr THEN PtrText(w) ELSE "") \o MemText(o)
RelText(rel) == IF Msb(rel, 32) = 1 THEN ".-" \o Hex(Neg(rel, 32)) ELSE ".+" \o Hex(rel)
Sfx(w) == IF w = 8 THEN "b" ELSE IF w = 16 THEN "w" ELSE "d"
Text(i) ==
   LET n == Len(i.ops)
       o(j) == OpText(i.ops[j], i.w, TRUE)
       list == IF n = 0 THEN "" ELSE IF n = 1 THEN " " \o o(1) ELSE IF n = 2 THEN " " \o o(1) \o ", " \o o(2)
               ELSE " " \o o(1) \o ", " \o o(2) \o ", " \o o(3)
       cnt == IF i.ops[n].k = "reg" THEN "cl" ELSE OpText(i.ops[n], 8, FALSE) IN
   CASE i.mn \in {"movzx", "movsx"} -> i.mn \o " " \o o(1) \o ", " \o OpText(i.ops[2], i.sw, TRUE)
     [] i.mn = "lea" -> "lea " \o o(1) \o ", " \o OpText(i.ops[2], i.w, FALSE)
     [] i.mn \in {"shl", "shr", "sar", "rol", "ror", "rcl", "rcr"} -> i.mn \o " " \o o(1) \o ", " \o cnt
     [] i.mn \in {"shld", "shrd"} -> i.mn \o " " \o o(1) \o ", " \o o(2) \o ", " \o cnt
     [] i.mn \in {"bt", "bts", "btr", "btc"} -> i.mn \o " " \o o(1) \o ", " \o (IF i.ops[2].k = "imm" THEN OpText(i.ops[2], 8, FALSE) ELSE o(2))
     [] i.mn = "setcc" -> "set" \o i.cc \o " " \o OpText(i.ops[1], 8, TRUE)
     [] i.mn = "cmovcc" -> "cmov" \o i.cc \o list
     [] i.mn = "jcc" -> "j" \o i.cc \o " " \o RelText(i.rel)
     [] i.mn \in {"jecxz", "loop", "loope", "loopne"} -> i.mn \o " " \o RelText(i.rel)
     [] i.mn \in {"jmp", "call"} -> i.mn \o " " \o (IF i.ops[1].k = "imm" THEN RelText(i.rel) ELSE o(1))
     [] i.mn = "ret" -> IF IsZero(i.ops[1].v) THEN "ret" ELSE "ret " \o OpText(i.ops[1], 16, FALSE)
     [] i.mn \in {"movs", "cmps", "scas", "lods", "stos"} -> i.mn \o Sfx(i.w)
     [] i.mn = "xlat" -> "xlatb"
     [] i.mn = "enter" -> "enter " \o OpText(i.ops[1], 16, FALSE) \o ", 0"
     [] i.mn = "pushad" -> IF i.w = 16 THEN "pushaw" ELSE "pushad"
     [] i.mn = "popad" -> IF i.w = 16 THEN "popaw" ELSE "popad"
     [] i.mn = "push" /\ i.ops[1].k = "imm" -> (IF i.w = 16 THEN "pushw " ELSE "push ") \o o(1)
     [] i.mn = "imul" /\ n = 3 -> "imul " \o o(1) \o ", " \o o(2) \o ", " \o o(3)
     [] OTHER -> i.mn \o list

\* ---- value pools -----------------------------------------------------------------
L(a, b, c, d) == <<a, b, c, d>>
ImmsQ(w) == IF w = 8 THEN {<<1>>, <<128>>, <<255>>}
            ELSE IF w = 16 THEN {<<1, 0>>, <<0, 128>>, <<255, 255>>}
            ELSE {L(1,0,0,0), L(0,0,0,128), L(255,255,255,255)}
ImmsT(w) == IF w = 8 THEN {<<0>>, <<127>>, <<15>>, <<240>>}
            ELSE IF w = 16 THEN {<<0, 0>>, <<127, 0>>, <<128, 0>>, <<255, 127>>, <<52, 18>>, <<128, 255>>}
            ELSE {L(0,0,0,0), L(127,0,0,0), L(128,0,0,0), L(255,255,255,127), L(120,86,52,18), L(128,255,255,255), L(0,1,0,0)}
RRQ(c) == IF c = "r8" THEN {<<0, 3>>, <<4, 1>>} ELSE {<<0, 3>>, <<2, 7>>}
RRT(c) == IF c = "r8" THEN {<<6, 7>>, <<2, 2>>} ELSE {<<1, 1>>, <<4, 5>>}
M1 == M(3, -1, 1, Z4)                             \* [ebx]
M2 == M(5, 6, 4, L(16,0,0,0))                     \* [ebp+esi*4+0x10]
M3 == M(4, -1, 1, L(8,0,0,0))                     \* [esp+8]
M4 == M(-1, -1, 1, L(120,86,52,18))               \* [0x12345678]
M5 == M(-1, 1, 8, L(252,255,255,255))             \* [ecx*8-4]
M6 == M(0, 0, 1, L(0,16,0,0))                     \* [eax+eax*1+0x1000]
MemQ == {M1, M2}
MemT == {M3, M4, M5, M6}
\* every shape of a 32-bit effective address: base x index x scale x displacement class, including base = index (the decoder
\* merges the two into one coefficient 2, 3, 5 or 9) and the base-less scaled index
AddrForms == {M(b, i, sc, d) : b \in {-1, 0, 1, 3, 5}, i \in {-1, 0, 1, 6}, sc \in {1, 2, 4, 8}, d \in {Z4, L(16,0,0,0), L(252,255,255,255)}}
                \ {m \in {M(b, i, sc, d) : b \in {-1, 0, 1, 3, 5}, i \in {-1, 0, 1, 6}, sc \in {1, 2, 4, 8}, d \in {Z4, L(16,0,0,0), L(252,255,255,255)}} :
                       (m.i = -1 /\ m.sc # 1) \/ (m.b = -1 /\ m.i = -1) \/ (m.b = 5 /\ m.i = -1 /\ IsZero(m.d))}
Ws == {8, 16, 32}

\* ---- instance families ---------------------------------------------------------------
Alu2 ==
   LET mns == {"add", "adc", "sub", "sbb", "cmp", "and", "or", "xor", "test", "mov"} IN
   UNION {
     {I2(mn, w, <<R(RC(w), p[1]), R(RC(w), p[2])>>, "rr", TRUE) : p \in RRQ(RC(w))}
     \cup {I2(mn, w, <<R(RC(w), p[1]), R(RC(w), p[2])>>, "rr", FALSE) : p \in RRT(RC(w))}
     \cup {I2(mn, w, <<R(RC(w), 0), Imm(v)>>, "ri", TRUE) : v \in ImmsQ(w)}
     \cup {I2(mn, w, <<R(RC(w), 3), Imm(v)>>, "ri", FALSE) : v \in ImmsQ(w) \cup ImmsT(w)}
     \cup {I2(mn, w, <<R(RC(w), 0), Imm(v)>>, "ri", FALSE) : v \in ImmsT(w)}
     \cup {I2(mn, w, <<R(RC(w), 1), m>>, "rm", m = M1) : m \in MemQ \cup MemT}
     \cup {I2(mn, w, <<m, R(RC(w), 2)>>, "mr", m = M2) : m \in MemQ \cup MemT}
     \cup {I2(mn, w, <<m, Imm(v)>>, "mi", m = M1 /\ v \in ImmsQ(w)) : m \in MemQ, v \in ImmsQ(w) \cup ImmsT(w)}
     : mn \in mns, w \in Ws}
Alu1 ==
   UNION {
     {I2(mn, w, <<R(RC(w), n)>>, "r", n \in {0, 3}) : n \in {0, 3, 2, 4}}
     \cup {I2(mn, w, <<m>>, "m", m = M1) : m \in MemQ \cup MemT}
     : mn \in {"inc", "dec", "neg", "not", "mul", "imul", "div", "idiv"}, w \in Ws}
\* shift-count classes 0, 1, w-1, w, w+1, 31, 32 (+ a generic 5, 33) and cl
CountsOf(w) == {0, 1, 5, w - 1, w, w + 1, 31, 32, 33}
Shifts1 ==
   UNION {
     {I2(mn, w, <<R(RC(w), 2), Imm(<<c>>)>>, "c" \o ToString(c), TRUE) : c \in CountsOf(w)}
     \cup {I2(mn, w, <<R(RC(w), 2), R("r8", 1)>>, "cl", TRUE)}
     \cup {I2(mn, w, <<R(RC(w), 1), R("r8", 1)>>, "cl", FALSE)}                 \* shifting ecx by cl
     \cup {I2(mn, w, <<M1, Imm(<<c>>)>>, "c" \o ToString(c), c \in {1, 5}) : c \in CountsOf(w)}
     \cup {I2(mn, w, <<M2, R("r8", 1)>>, "cl", TRUE)}
     : mn \in {"shl", "shr", "sar", "rol", "ror", "rcl", "rcr"}, w \in Ws}
Shifts2 ==
   UNION {
     {I2(mn, w, <<R(RC(w), 0), R(RC(w), 3), Imm(<<c>>)>>, "c" \o ToString(c), TRUE) : c \in CountsOf(w)}
     \cup {I2(mn, w, <<R(RC(w), 0), R(RC(w), 3), R("r8", 1)>>, "cl", TRUE)}
     \cup {I2(mn, w, <<M1, R(RC(w), 2), Imm(<<c>>)>>, "c" \o ToString(c), c \in {1, 5}) : c \in CountsOf(w)}
     \cup {I2(mn, w, <<M2, R(RC(w), 2), R("r8", 1)>>, "cl", TRUE)}
     : mn \in {"shld", "shrd"}, w \in {16, 32}}
Imuls ==
   UNION {
     {I2("imul", w, <<R(RC(w), p[1]), R(RC(w), p[2])>>, "rr", TRUE) : p \in RRQ(RC(w)) \cup RRT(RC(w))}
     \cup {I2("imul", w, <<R(RC(w), 1), m>>, "rm", m = M1) : m \in MemQ \cup MemT}
     \cup {I2("imul", w, <<R(RC(w), 0), R(RC(w), 3), Imm(v)>>, "rri", v \in ImmsQ(w)) : v \in ImmsQ(w) \cup ImmsT(w)}
     \cup {I2("imul", w, <<R(RC(w), 2), M2, Imm(v)>>, "rmi", v \in ImmsQ(w)) : v \in ImmsQ(w) \cup ImmsT(w)}
     : w \in {16, 32}}
Exts ==
   UNION {
     {Inst(mn, p[1], p[2], <<R(RC(p[1]), 0), R(RC(p[2]), 3)>>, "", Z4, "rr", TRUE),
      Inst(mn, p[1], p[2], <<R(RC(p[1]), 2), R(RC(p[2]), IF p[2] = 8 THEN 6 ELSE 2)>>, "", Z4, "rr", FALSE)}
     \cup {Inst(mn, p[1], p[2], <<R(RC(p[1]), 1), m>>, "", Z4, "rm", m = M1) : m \in MemQ \cup MemT}
     : mn \in {"movzx", "movsx"}, p \in {<<16, 8>>, <<32, 8>>, <<32, 16>>}}
Movs2 ==
   UNION {
     {I2("xchg", w, <<R(RC(w), 0), R(RC(w), 3)>>, "rr", TRUE), I2("xchg", w, <<R(RC(w), 1), R(RC(w), 2)>>, "rr", TRUE),
      I2("xchg", w, <<R(RC(w), 2), R(RC(w), 2)>>, "rr", FALSE), I2("xchg", w, <<R(RC(w), IF w = 8 THEN 4 ELSE 6), R(RC(w), 0)>>, "rr", FALSE)}
     \cup {I2("xchg", w, <<R(RC(w), 1), m>>, "rm", m = M1) : m \in MemQ \cup MemT}
     \cup {I2(mn, w, <<R(RC(w), 0), R(RC(w), 3)>>, "rr", TRUE) : mn \in {"xadd", "cmpxchg"}}
     \cup {I2(mn, w, <<R(RC(w), 2), R(RC(w), 2)>>, "rr", FALSE) : mn \in {"xadd", "cmpxchg"}}
     \cup {I2(mn, w, <<R(RC(w), 3), R(RC(w), 0)>>, "rr", FALSE) : mn \in {"xadd", "cmpxchg"}}
     \cup {I2(mn, w, <<m, R(RC(w), 1)>>, "mr", m = M1) : mn \in {"xadd", "cmpxchg"}, m \in MemQ \cup MemT}
     : w \in Ws}
   \cup UNION {{I2("lea", w, <<R(RC(w), 0), m>>, "rm", m \in MemQ) : m \in MemQ \cup MemT} : w \in {16, 32}}
   \cup {I2("lea", 32, <<R("r32", 2), m>>, "rm", TRUE) : m \in AddrForms}
   \cup {I2("mov", 32, <<R("r32", 2), m>>, "rm", m.b = m.i) : m \in AddrForms}
Stack ==
   {I2("push", 32, <<R("r32", n)>>, "r", TRUE) : n \in {0, 4, 5}} \cup {I2("push", 16, <<R("r16", n)>>, "r", n = 0) : n \in {0, 4}}
   \cup {I2("push", 32, <<Imm(v)>>, "i", TRUE) : v \in {L(1,0,0,0), L(128,0,0,0), L(128,255,255,255), L(120,86,52,18)}}
   \cup {I2("push", 16, <<Imm(v)>>, "i", FALSE) : v \in {<<1, 0>>, <<52, 18>>}}
   \cup {I2("push", 32, <<m>>, "m", TRUE) : m \in {M1, M3}} \cup {I2("push", 16, <<M1>>, "m", FALSE)}
   \cup {I2("pop", 32, <<R("r32", n)>>, "r", TRUE) : n \in {0, 4, 5}} \cup {I2("pop", 16, <<R("r16", n)>>, "r", n = 0) : n \in {0, 4}}
   \cup {I2("pop", 32, <<m>>, "m", TRUE) : m \in {M1, M3}} \cup {I2("pop", 16, <<M1>>, "m", FALSE)}
   \cup {I2(mn, w, <<>>, "", TRUE) : mn \in {"pushad", "popad"}, w \in {16, 32}}
   \cup {I2("leave", 32, <<>>, "", TRUE)} \cup {I2("enter", 32, <<Imm(v)>>, "", v = <<8, 0>>) : v \in {<<0, 0>>, <<8, 0>>, <<0, 1>>}}
   \cup {I2("bswap", 32, <<R("r32", n)>>, "r", n = 0) : n \in {0, 3, 4}} \cup {I2("xlat", 8, <<>>, "", TRUE)}
Bits ==
   UNION {
     {I2(mn, w, <<R(RC(w), 0), R(RC(w), 3)>>, "rr", TRUE), I2(mn, w, <<R(RC(w), 2), R(RC(w), 2)>>, "rr", FALSE)}
     \cup {I2(mn, w, <<R(RC(w), 2), Imm(<<c>>)>>, "ri", c = 5) : c \in {0, 5, w - 1, w + 3, 255}}
     \cup {I2(mn, w, <<m, R(RC(w), 1)>>, "mr", m = M1) : m \in MemQ \cup {M4}}
     \cup {I2(mn, w, <<M1, Imm(<<c>>)>>, "mi", c = 5) : c \in {5, w + 3}}
     : mn \in {"bt", "bts", "btr", "btc"}, w \in {16, 32}}
   \cup UNION {
     {I2(mn, w, <<R(RC(w), 0), R(RC(w), 3)>>, "rr", TRUE), I2(mn, w, <<R(RC(w), 2), R(RC(w), 2)>>, "rr", FALSE)}
     \cup {I2(mn, w, <<R(RC(w), 1), m>>, "rm", m = M1) : m \in MemQ}
     : mn \in {"bsf", "bsr"}, w \in {16, 32}}
Plain ==
   {I2("cbw", 16, <<>>, "", TRUE), I2("cwde", 32, <<>>, "", TRUE), I2("cwd", 16, <<>>, "", TRUE), I2("cdq", 32, <<>>, "", TRUE)}
   \cup {I2(mn, 32, <<>>, "", TRUE) : mn \in {"clc", "stc", "cmc", "cld", "std", "lahf", "sahf"}}
   \cup {I2(mn, w, <<>>, "", TRUE) : mn \in {"movs", "cmps", "scas", "lods", "stos"}, w \in Ws}
CCSet == {CCs[j] : j \in 1..16}
CondI ==
   UNION {
     {Inst("setcc", 8, 0, <<R("r8", 0)>>, cc, Z4, "r", TRUE), Inst("setcc", 8, 0, <<R("r8", 7)>>, cc, Z4, "r", FALSE),
      Inst("setcc", 8, 0, <<M1>>, cc, Z4, "m", TRUE), Inst("setcc", 8, 0, <<M3>>, cc, Z4, "m", FALSE)}
     \cup UNION {{Inst("cmovcc", w, 0, <<R(RC(w), 0), R(RC(w), 3)>>, cc, Z4, "rr", TRUE),
                  Inst("cmovcc", w, 0, <<R(RC(w), 1), M2>>, cc, Z4, "rm", w = 32)} : w \in {16, 32}}
     \cup {Inst("jcc", 32, 0, <<Imm(Z4)>>, cc, L(18,0,0,0), "rel8", TRUE), Inst("jcc", 32, 0, <<Imm(Z4)>>, cc, L(224,255,255,255), "rel8", FALSE),
           Inst("jcc", 32, 0, <<Imm(Z4)>>, cc, L(69,35,1,0), "rel32", TRUE)}
     : cc \in CCSet}
Flow ==
   {Inst("jmp", 32, 0, <<Imm(Z4)>>, "", r, "rel", TRUE) : r \in {L(18,0,0,0), L(224,255,255,255), L(69,35,1,0)}}
   \cup {I2("jmp", 32, <<o>>, "ind", TRUE) : o \in {R("r32", 0), R("r32", 4), M1, M3}}
   \cup {Inst("call", 32, 0, <<Imm(Z4)>>, "", r, "rel", TRUE) : r \in {L(52,18,0,0), L(0,255,255,255)}}
   \cup {I2("call", 32, <<o>>, "ind", TRUE) : o \in {R("r32", 0), R("r32", 4), M1, M3, M(4, -1, 1, L(252,255,255,255))}}
   \cup {I2("ret", 32, <<Imm(v)>>, "", TRUE) : v \in {<<0, 0>>, <<8, 0>>, <<252, 255>>}}
   \cup {Inst(mn, 32, 0, <<Imm(Z4)>>, "", r, "rel8", TRUE) : mn \in {"jecxz", "loop", "loope", "loopne"}, r \in {L(18,0,0,0), L(240,255,255,255)}}
Instances == Alu2 \cup Alu1 \cup Shifts1 \cup Shifts2 \cup Imuls \cup Exts \cup Movs2 \cup Stack \cup Bits \cup Plain \cup CondI \cup Flow

\* ---- initial states ------------------------------------------------------------------------
\* small deterministic mixing function (all intermediate values < 2^31)
Rnd(a, b, c) ==
   LET x == ((a % 32749) * 7919 + (b % 32749) * 6151 + (c % 32749) * 3571 + 4242) % 32749
       y == (x * x + 977 * x + 3) % 32749
       z == (y * y + 31 * x + 7) % 32749
   IN (z * z + 5 * y + 11) % 32749
Boundary == <<L(0,0,0,0), L(1,0,0,0), L(2,0,0,0), L(127,0,0,0), L(128,0,0,0), L(255,0,0,0), L(0,1,0,0), L(255,127,0,0),
              L(0,128,0,0), L(255,255,0,0), L(0,0,1,0), L(255,255,255,127), L(0,0,0,128), L(255,255,255,255), L(254,255,255,255),
              L(15,0,0,0), L(16,0,0,0), L(128,128,128,128), L(255,255,255,254), L(1,0,0,128)>>
Word(h, r) ==
   LET sel == Rnd(h, r, 1) IN
   IF sel % 10 < 6 THEN Boundary[((sel \div 10) % Len(Boundary)) + 1]
   ELSE <<Rnd(h, r, 2) % 256, Rnd(h, r, 3) % 256, Rnd(h, r, 4) % 256, Rnd(h, r, 5) % 256>>
ClVals(w) == <<0, 1, w - 1, w, w + 1, 31, 32, 33, 5, 2, 64, 255, 9, 17>>
UsesCl(i) == i.mn \in ShiftMn /\ i.ops[Len(i.ops)].k = "reg"
MemOps(i) == {j \in 1..Len(i.ops) : i.ops[j].k = "mem"}
SetLow(v, b) == <<b, v[2], v[3], v[4]>>
GenState(i, sd, k) ==
   LET h == Rnd(sd, k, 77) + 1
       fbits == IF i.mn \in {"setcc", "cmovcc", "jcc", "loope", "loopne"} THEN k - 1 ELSE Rnd(h, 9, 9)
       fl == [cf |-> fbits % 2, zf |-> (fbits \div 2) % 2, sf |-> (fbits \div 4) % 2, of |-> (fbits \div 8) % 2,
              pf |-> (fbits \div 16) % 2, af |-> (fbits \div 32) % 2, df |-> (Rnd(h, 8, 8) \div 4) % 2]
       r0 == IF k = 1 THEN [r \in 1..8 |-> Z4] ELSE IF k = 2 THEN [r \in 1..8 |-> L(255,255,255,255)] ELSE [r \in 1..8 |-> Word(h, r)]
       \* count classes in cl
       r1 == IF UsesCl(i) THEN [r0 EXCEPT ![ECX] = SetLow(@, ClVals(i.w)[((k - 1) % Len(ClVals(i.w))) + 1])] ELSE r0
       \* loop / jecxz: small counters
       r2 == IF i.mn \in {"loop", "loope", "loopne", "jecxz"} /\ k % 2 = 0 THEN [r1 EXCEPT ![ECX] = L((k \div 2) % 3, 0, 0, 0)] ELSE r1
       \* divide: mostly non-faulting dividends (high half 0 / sign fill of the low half / small)
       hi == IF i.mn \in DivMn /\ k % 4 # 3
             THEN (IF i.mn = "idiv" /\ k % 2 = 0 THEN (IF Msb(Norm(r2[EAX], i.w), i.w) = 1 THEN L(255,255,255,255) ELSE Z4)
                   ELSE L((k \div 4) % 3, 0, 0, 0))
             ELSE r2[EDX]
       r3 == IF i.mn \in DivMn
             THEN (IF i.w = 8 THEN [r2 EXCEPT ![EAX] = <<@[1], hi[1], @[3], @[4]>>]
                   ELSE IF i.w = 16 THEN [r2 EXCEPT ![EDX] = <<hi[1], hi[2], @[3], @[4]>>] ELSE [r2 EXCEPT ![EDX] = hi])
             ELSE r2
       reg == TLCEval(r3)
       s0 == [reg |-> reg, fl |-> fl, seed |-> Rnd(h, 3, 3) % 250, over |-> <<>>, eip |-> Z4]
       \* contents of memory operands, string sources and the stack top: pool values instead of the background pattern
       mv(j) == Word(h, 20 + j)
       ovm == IF MemOps(i) = {} THEN <<>> ELSE LET j == CHOOSE j \in MemOps(i) : TRUE IN Bytes(EA(i.ops[j], s0), mv(1), 4)
       ovs == IF i.mn \in StringMn THEN Bytes(reg[ESI], mv(2), 4) \o Bytes(reg[EDI], IF k % 3 = 0 THEN mv(2) ELSE mv(3), 4) ELSE <<>>
       ovp == IF i.mn \in {"pop", "popad", "ret"} THEN Bytes(reg[ESP], mv(4), 4)
              ELSE IF i.mn = "leave" THEN Bytes(reg[EBP], mv(4), 4) ELSE <<>>
       over == TLCEval(IF k % 5 = 4 THEN <<>> ELSE ovp \o ovs \o ovm)
       \* cmpxchg: accumulator equal to the destination in a third of the states
       s1 == [s0 EXCEPT !.over = over]
       eq == i.mn = "cmpxchg" /\ k % 3 = 0
       acc == RegRead(reg, RC(i.w), 0)
       reg2 == IF eq /\ i.ops[1].k = "reg" THEN RegWrite(reg, i.ops[1].c, i.ops[1].n, acc) ELSE reg
       over2 == IF eq /\ i.ops[1].k = "mem" THEN over \o Bytes(EA(i.ops[1], s1), acc, i.w \div 8) ELSE over
   IN TLCEval([s1 EXCEPT !.reg = reg2, !.over = over2])
\* the address an instance is placed at (the lifted semantics takes the next eip as a constant)
EipOf(n) == <<L(0,16,0,0), L(0,16,64,0), L(240,255,255,127), L(0,240,255,255)>>[(n % 4) + 1]
\* ---- evaluating lifted IR in an X86Sem state (shared by T_C04 and T_C08) ------------------
FlagIds == <<"cf", "pf", "af", "zf", "nf", "df", "of">>            \* miasmX names, in the order of FlagNames (nf = SF)
SegIds == {"ds", "es", "ss", "cs"}
Modelled == {RegNames[k] : k \in 1..8} \cup {FlagIds[k] : k \in 1..7} \cup SegIds
FlagGet(fl, k) == CASE k = 1 -> fl.cf [] k = 2 -> fl.pf [] k = 3 -> fl.af [] k = 4 -> fl.zf [] k = 5 -> fl.sf [] k = 6 -> fl.df [] k = 7 -> fl.of
EnvOf(s, extra) ==
   [id |-> TLCEval([n \in Modelled \cup extra |->
              IF \E k \in 1..8 : RegNames[k] = n THEN s.reg[CHOOSE k \in 1..8 : RegNames[k] = n]
              ELSE IF \E k \in 1..7 : FlagIds[k] = n THEN <<FlagGet(s.fl, CHOOSE k \in 1..7 : FlagIds[k] = n)>>
              ELSE <<0, 0, 0, 0, 0, 0, 0, 0, 0, 0, 0, 0, 0, 0, 0, 0>>]),          \* flat segmentation: selectors / bases 0
    seed |-> s.seed, over |-> s.over]

\* Loose (typing without the width-agreement rules): IR.tla
=============================================================================
