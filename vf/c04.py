"""C04 - lifted x86 semantics match the processor on the integer core.
S->C: X86Space.tla (TLC) enumerates instruction instances (mnemonic x size x form x count class x cc) with their
Intel text; GNU `as --32` (not miasmX) produces the bytes; miasmX decodes and lifts them.
C->S: T_C04.tla applies the lifted assignment list with IR!Eval to TLA+-generated initial states
(X86SpaceLib!GenState) and compares with X86Sem!Step, naming the failing clause and state class."""
import os, sys, json, random, hashlib, subprocess, collections, binascii
from . import core, irlib, expr_json as EJ

SPEC_FILES = ('BV.tla', 'IR.tla', 'X86Sem.tla', 'X86SpaceLib.tla', 'X86Space.tla', 'X86Space.cfg')
EIPS = [0x1000, 0x401000, 0x7ffffff0, 0xfffff000]          # X86SpaceLib!EipOf


# ----------------------------------------------------------------------------------------------
# generator: instances from TLC (cached: does not depend on /repo), bytes from GNU as
def gen_instances(chk=None):
    h = hashlib.sha1()
    for f in SPEC_FILES:
        h.update(open(os.path.join(core.SPEC, f), 'rb').read())
    cdir = os.path.join(core.VERIF, '.cache')
    os.makedirs(cdir, exist_ok=True)
    cf = os.path.join(cdir, 'x86space_%s.json' % h.hexdigest()[:16])
    if os.path.exists(cf):
        d = json.load(open(cf))
    else:
        dump = os.path.join(core.scratch(), 'x86space.dump')
        r = core.run_tlc('X86Space', extra=['-dump', dump], timeout=1500, workers=min(core.NCPU, 8))
        if not r.ok:
            raise core.MachineryError('X86Space failed:\n' + r.out[-3000:])
        insts = []
        for st in core.read_dump(dump):
            i = st['inst']
            i['txt'] = st['txt']
            insts.append(i)
        os.unlink(dump)
        insts.sort(key=lambda i: (i['mn'], i['w'], i['txt']))
        d = {'insts': insts, 'states': r.distinct, 'transitions': r.generated}
        tmp = cf + '.%d' % os.getpid()
        json.dump(d, open(tmp, 'w'))
        os.rename(tmp, cf)
    if chk is not None:
        chk.add_tlc({'states': d['states'], 'transitions': d['transitions']})
    return d['insts']


def gas(texts):
    """bytes of each text, assembled by GNU as --32 in one object (label before every instruction)"""
    d = core.scratch()
    src = os.path.join(d, 'c04_%d.s' % os.getpid())
    obj = src[:-2] + '.o'
    with open(src, 'w') as f:
        f.write('.intel_syntax noprefix\n.text\n')
        for i, t in enumerate(texts):
            f.write('L%d: %s\n' % (i, t))
        f.write('L%d:\n' % len(texts))
    p = subprocess.run(['as', '--32', '-o', obj, src], stdout=subprocess.PIPE, stderr=subprocess.PIPE, universal_newlines=True)
    if p.returncode != 0:
        raise core.MachineryError('GNU as rejected generated text:\n' + p.stderr[:2000])
    binf = src[:-2] + '.bin'
    for cmd in (['objcopy', '-O', 'binary', '-j', '.text', obj, binf],):
        q = subprocess.run(cmd, stdout=subprocess.PIPE, stderr=subprocess.PIPE, universal_newlines=True)
        if q.returncode != 0:
            raise core.MachineryError('objcopy failed: ' + q.stderr[:500])
    data = open(binf, 'rb').read()
    nm = subprocess.run(['nm', obj], stdout=subprocess.PIPE, universal_newlines=True).stdout
    offs = {}
    for l in nm.splitlines():
        a, _, n = l.split()
        if n.startswith('L') and n[1:].isdigit():
            offs[int(n[1:])] = int(a, 16)
    if len(offs) != len(texts) + 1:
        raise core.MachineryError('label table of the assembled object is incomplete')
    out = [data[offs[i]:offs[i + 1]] for i in range(len(texts))]
    for f in (src, obj, binf):
        os.unlink(f)
    if any(len(b) == 0 or len(b) > 15 for b in out):
        raise core.MachineryError('empty / oversized instruction in the assembled object')
    return out


# ----------------------------------------------------------------------------------------------
# implementation side: decode + lift (runs in forked workers)
def _lift(job):
    """job = (hex bytes, next_eip) -> dict(st, affs | exc, l, str)"""
    hexb, nxt = job
    from miasmx.arch.ia32_arch import x86mnemo
    from miasmx.tools import emul_helper
    from miasmx.expression import expression as X
    from miasmx.tools.modint import uint32
    b = binascii.unhexlify(hexb)

    def work(_):
        ins = x86mnemo.dis(b)
        if ins is None:
            return {'st': 'nodis'}
        r = {'l': int(ins.l), 'str': str(ins), 'pfx': [int(x) for x in ins.prefix]}
        affs = emul_helper.get_instr_expr(ins, X.ExprInt(uint32(nxt)), [])
        if affs is None:
            r['st'] = 'none'
            return r
        r['affs'] = [EJ.to_json(a, X) for a in affs]
        r['st'] = 'ok'
        return r
    def twice(_):
        # decoded and lifted twice in this process: a second lifting that differs from the first is judged as well
        a = work(None)
        b2 = work(None)
        if b2 != a:
            a['second'] = b2
        return a
    st, r = irlib.guarded(twice, None, 10)
    if st == 'ok':
        return r
    if st == 'timeout':
        return {'st': 'exc', 'exc': {'exc': 'Timeout', 'func': '', 'line': ''}}
    return {'st': 'exc', 'exc': r}


DUMMY = [{'k': 'none', 'w': 0}]


def nstates(inst, base):
    mult = 1
    if inst['mn'] in ('setcc', 'cmovcc', 'jcc', 'div', 'idiv', 'loope', 'loopne'):
        mult = 2
    if inst['mn'] in ('shl', 'shr', 'sar', 'rol', 'ror', 'rcl', 'rcr', 'shld', 'shrd') and inst['ops'][-1]['k'] == 'reg':
        mult = 3
    return base * mult


def build_records(insts, base, seed, start_id=0):
    """assemble, lift, and shape the trace records; returns (records, excluded counter)"""
    bts = gas([i['txt'] for i in insts])
    jobs, metas = [], []
    for n, (inst, b) in enumerate(zip(insts, bts)):
        rid = start_id + n
        eip = EIPS[rid % 4]
        nxt = (eip + len(b)) & 0xffffffff
        jobs.append((binascii.hexlify(b).decode(), nxt))
        metas.append((rid, eip, nxt))
    outs = irlib.pmap(_lift, jobs, chunk=50)
    recs, excl = [], collections.Counter()
    for inst, b, (rid, eip, nxt), o in zip(insts, bts, metas, outs):
        i2 = dict(inst)
        i2['len'] = len(b)
        rec = {'id': rid, 'i': i2, 'eip': core.limbs(eip, 32), 'next': core.limbs(nxt, 32), 'bytes': binascii.hexlify(b).decode(),
               'sd': (seed * 131 + rid * 7 + 1) % 30000, 'ns': nstates(inst, base), 'st': o['st'], 'affs': DUMMY,
               'impl_str': o.get('str', '')}
        if o['st'] == 'ok':
            if o['l'] != len(b):
                excl['decoded length differs from GNU as (decoder property C01)'] += 1
                continue
            rec['affs'] = o['affs']          # may be empty: an instruction without architectural effect (shld r, r, 0)
        elif o['st'] == 'exc':
            rec['exc'] = o['exc']
        recs.append(rec)
        o2 = o.get('second')
        if o2 is not None and o2.get('st') == 'ok' and o2['l'] == len(b):
            recs.append(dict(rec, id=1000000 + rid, affs=o2['affs'], st='ok', impl_str=o2.get('str', '') + '   (second lifting in one process)'))
    return recs, excl


# ----------------------------------------------------------------------------------------------
def cost(rec):
    """relative TLC cost of a record (bit-serial division dominates)"""
    c = 30.0 if rec['i']['mn'] in ('div', 'idiv') else 1.0
    return c * rec['ns']


def balance(recs, rnd, min_per_shard=4):
    """order the records so that core.judge's contiguous shards carry equal cost (longest-processing-time first)"""
    n = len(recs)
    shards = max(1, min(core.NCPU, (n + min_per_shard - 1) // min_per_shard))
    per = (n + shards - 1) // shards
    caps = [min(per, max(0, n - k * per)) for k in range(shards)]
    bins = [[] for _ in range(shards)]
    load = [0.0] * shards
    rs = list(recs)
    rnd.shuffle(rs)
    for r in sorted(rs, key=cost, reverse=True):
        k = min((k for k in range(shards) if len(bins[k]) < caps[k]), key=lambda k: load[k])
        bins[k].append(r)
        load[k] += cost(r)
    return [r for b in bins for r in b]


def judge(chk, recs, shuffle_rnd=None):
    rs = balance(recs, shuffle_rnd, 4) if shuffle_rnd is not None else list(recs)
    verdicts, st = core.judge('T_C04', rs, timeout=3000, min_per_shard=4)
    chk.add_tlc(st)
    stats = [v for v in verdicts if v['id'] == -1]
    verdicts = [v for v in verdicts if v['id'] != -1]
    cmp_ = sum(s['v'][0]['compared'] for s in stats)
    flt = sum(s['v'][0]['faulted'] for s in stats)
    return verdicts, cmp_, flt


def report(chk, recs, verdicts):
    byid = {r['id']: r for r in recs}
    tested_w = collections.defaultdict(set)
    for r in recs:
        tested_w[r['i']['mn']].add(r['i']['w'])
    agg = collections.OrderedDict()
    for v in sorted(verdicts, key=lambda v: v['id']):
        rec = byid[v['id']]
        mn = rec['i']['mn']
        for f in v['v']:
            if f['clause'].startswith('input.'):
                raise core.MachineryError('T_C04 rejected a record as malformed: %r (%s)' % (f, rec['i']['txt']))
            key = {'clause': f['clause'], 'kind': f['clause'].split('.')[1], 'group': GROUPS.get(mn, 'mov'), 'mn': mn, 'sub': f.get('sub', '')}
            if mn in ('setcc', 'cmovcc', 'jcc'):
                key['cc'] = rec['i']['cc']
            if f['clause'] == 'C04.lift':
                key.update({'how': rec['st']})
                key.update(rec.get('exc', {}))
            if f['clause'] == 'C04.welltyped':
                key['dst'] = ','.join(sorted(f.get('dst', [])))
            if f['clause'] == 'C04.reads':
                key['names'] = ','.join(sorted(f.get('names', [])))
            ks = json.dumps(key, sort_keys=True)
            a = agg.setdefault(ks, {'key': key, 'ws': set(), 'n': 0, 'states': 0, 'ex': None})
            a['ws'].add(rec['i']['w'])
            a['n'] += 1
            a['states'] += f.get('nbad', 0)
            if a['ex'] is None:
                a['ex'] = (rec, f)
    for ks, a in agg.items():
        key = dict(a['key'])
        mn = key['mn']
        key['w'] = 'all' if a['ws'] == tested_w[mn] else ','.join(str(w) for w in sorted(a['ws']))
        rec, f = a['ex']
        detail = {'text': rec['i']['txt'], 'bytes': rec['bytes'], 'miasmx_str': rec['impl_str'], 'instance': rec['i'],
                  'eip': rec['eip'], 'sd': rec['sd'], 'ns': rec['ns'],
                  'lifted': [EJ.show(x) for x in rec['affs']] if rec['st'] == 'ok' else rec['st'],
                  'verdict': f, 'instances_failing': a['n'], 'states_failing': a['states']}
        for _ in range(a['n']):
            chk.violation(key, detail)


GROUPS = {}
for _g, _ms in {'addsub': 'add adc sub sbb cmp inc dec neg xadd cmpxchg cmps scas', 'logic': 'and or xor test not',
                'shift': 'shl shr sar', 'rot': 'rol ror', 'rotc': 'rcl rcr', 'shd': 'shld shrd', 'mul': 'mul imul', 'div': 'div idiv',
                'bit': 'bt bts btr btc', 'scan': 'bsf bsr', 'ext': 'cbw cwde cwd cdq', 'flagop': 'clc stc cmc cld std lahf sahf',
                'setcc': 'setcc', 'cmovcc': 'cmovcc', 'jcc': 'jcc', 'stack': 'push pop pushad popad leave enter', 'string': 'movs lods stos',
                'flow': 'jmp jecxz loop loope loopne call ret', 'mov': 'mov movzx movsx xchg lea bswap xlat'}.items():
    for _m in _ms.split():
        GROUPS[_m] = _g


def run(tier, chk):
    rnd = random.Random(chk.seed)
    quick = tier == 'quick'
    negative_control(chk)
    insts = gen_instances(chk)
    total = len(insts)
    if quick:
        insts = [i for i in insts if i['q']]
    recs, excl = build_records(insts, 8 if quick else 64, chk.seed)
    verdicts, ncmp, nflt = judge(chk, recs, rnd)
    chk.cov['evaluations'] = ncmp
    chk.cov['faulting_states_skipped'] = nflt
    chk.cov['traces_validated_against_impl'] = len(recs)
    chk.cov['instances_in_space'] = total
    chk.cov['instances_run'] = len(insts)
    chk.cov['excluded'] = dict(excl, **{'fs/gs segment overrides, 16-bit address size, 16-bit operand size branches, lock/rep prefixes (not generated)': 0})
    lifted = [r for r in recs if r['st'] == 'ok']
    chk.cov['distinct_nontrivial'] = len(set((r['i']['mn'], r['i']['w'], r['i']['cls'], r['i']['cc'], r['bytes'][:4]) for r in lifted))
    chk.cov['rule'] = ('instances = reachable states of X86Space.tla (mnemonic x operand size x form x count class x cc), bytes by GNU as; '
                       'non-trivial = distinct (mnemonic, size, form class, cc, leading opcode bytes) that lifted; evaluations = '
                       '(instance, initial state) pairs compared clause by clause, faulting states excluded')
    chk.cov['by_mnemonic'] = dict(collections.Counter(r['i']['mn'] for r in recs))
    chk.cov['exhaustive'] = False
    for r in lifted[:3] + lifted[len(lifted) // 2:len(lifted) // 2 + 2]:
        chk.sample({'text': r['i']['txt'], 'bytes': r['bytes'], 'miasmx': r['impl_str'], 'lifted': [EJ.show(x) for x in r['affs']][:8],
                    'states': r['ns']})
    chk.assumptions += ['32-bit protected mode, flat segmentation (segment registers evaluate to 0), 32-bit address size',
                        'a direct branch target is compared in the operand convention of dis(): the lifted eip is the decoded displacement '
                        '(next_eip + displacement is the processor target); indirect targets, fall-through and return addresses are absolute',
                        'flags, registers and memory the SDM leaves undefined are not compared; #DE states are skipped',
                        'memory is IR.tla InitByte(seed) with pool values at the operand / stack / string addresses']
    report(chk, recs, verdicts)
    # evidence for the trusted side: X86Sem!Step against the host processor (register / immediate forms)
    from . import x86calib
    x86calib.calibrate(chk, 4 if quick else 16, 7, 'reg')
    x86calib.calibrate(chk, 3 if quick else 12, 7, 'mem')
    chk.assumptions.append('X86Sem.tla is calibrated against the host CPU (native execution of register, immediate, memory, stack and string '
                           'forms); control-transfer semantics and #DE conditions rest on the transcription of the SDM')


# ----------------------------------------------------------------------------------------------
def _reg(n, c='r32'):
    return {'k': 'reg', 'c': c, 'n': n, 'v': [], 'b': -1, 'i': -1, 'sc': 1, 'd': [0, 0, 0, 0]}


def negative_control(chk):
    """hand-written lifted lists for `add eax, ebx` (01 d8): the correct one is accepted, single corruptions are rejected by
    exactly the corrupted clause; a lifter exception is rejected as C04.lift"""
    eax = {'k': 'id', 'w': 32, 'n': 'eax'}
    ebx = {'k': 'id', 'w': 32, 'n': 'ebx'}
    ecx = {'k': 'id', 'w': 32, 'n': 'ecx'}

    def op(o, *a):
        return {'k': 'op', 'w': a[0]['w'], 'o': o, 'u': 0, 'a': list(a)}

    def aff(d, s):
        return {'k': 'aff', 'w': d['w'], 'a': [d, s]}

    def flag(n):
        return {'k': 'id', 'w': 1, 'n': n}

    def c32(v):
        return {'k': 'int', 'w': 32, 'v': core.limbs(v, 32)}

    def msb(x):
        return {'k': 'slice', 'w': 1, 'lo': 31, 'hi': 32, 'a': [x]}
    s = op('+', eax, ebx)
    zf = aff(flag('zf'), {'k': 'cond', 'w': 1, 'a': [s, {'k': 'int', 'w': 1, 'v': [0]}, {'k': 'int', 'w': 1, 'v': [1]}]})
    sf = aff(flag('nf'), msb(s))
    cf = aff(flag('cf'), op('^', msb(op('^', op('^', eax, ebx), s)), msb(op('&', op('^', eax, s), op('^', op('^', eax, ebx), c32(0xffffffff))))))
    x3 = op('^', op('^', eax, ebx), s)
    pf = aff(flag('pf'), op('parity', s))
    af = aff(flag('af'), op('&', op('>>', x3, c32(4)), c32(1)))
    of = aff(flag('of'), msb(op('&', op('^', eax, s), op('^', op('^', eax, ebx), c32(0xffffffff)))))
    good = [zf, sf, cf, pf, af, of, aff(eax, s)]
    inst = {'mn': 'add', 'w': 32, 'sw': 0, 'ops': [_reg(0), _reg(3)], 'cc': '', 'len': 2, 'rel': [0, 0, 0, 0], 'cls': 'rr', 'q': True, 'txt': 'add eax, ebx'}

    def rec(i, affs, st='ok'):
        return {'id': i, 'i': inst, 'eip': core.limbs(0x1000, 32), 'next': core.limbs(0x1002, 32), 'bytes': '01d8', 'sd': 5, 'ns': 12,
                'st': st, 'affs': affs, 'impl_str': ''}
    recs = [rec(0, good),
            rec(1, [zf, sf, cf, pf, af, of, aff(eax, op('+', eax, ecx))]),
            rec(2, [zf, aff(flag('nf'), {'k': 'slice', 'w': 1, 'lo': 30, 'hi': 31, 'a': [s]}), cf, pf, af, of, aff(eax, s)]),
            rec(3, DUMMY, 'exc'),
            rec(4, good + [aff({'k': 'mem', 'w': 32, 'a': [ebx], 'g': []}, eax)])]
    verdicts, st = core.judge('T_C04', recs, shards=1)
    got = sorted(set((v['id'], f['clause']) for v in verdicts for f in v['v'] if v['id'] >= 0))
    want = [(1, 'C04.reg.eax'), (2, 'C04.flag.sf'), (3, 'C04.lift'), (4, 'C04.mem')]
    ok = got == want
    chk.cov['negative_controls'].append({'name': 'hand-written lifted lists for add eax,ebx: wrong register source / wrong SF bit / spurious store / '
                                                 'lifter exception rejected by exactly the corrupted clause; the correct list accepted',
                                         'ok': ok, 'got': got})
    if not ok:
        raise core.MachineryError('C04 negative control failed: got %r want %r' % (got, want))


def replay(path, chk):
    rp = json.load(open(path))
    d = rp['detail']
    inst = dict(d['instance'])
    inst['len'] = 0
    rid = EIPS.index(core.unlimbs(d['eip']))
    recs, excl = build_records([inst], 1, chk.seed, start_id=rid)
    for r in recs:
        r['sd'], r['ns'] = d['sd'], d['ns']
    verdicts, ncmp, nflt = judge(chk, recs)
    chk.cov['evaluations'] = ncmp
    chk.cov['traces_validated_against_impl'] = len(recs)
    chk.sample({'text': inst['txt']})
    report(chk, recs, verdicts)
    return chk.finish()
