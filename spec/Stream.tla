------------------------------- MODULE Stream -------------------------------
(* Byte streams and the decode call as an action (DESIGN 3.9 / C10).                                         *)
(* State: [bytes, off].  Action Dis(off) has exactly two outcomes: absent | instr(len); there is no action   *)
(* for an internal error or a call that does not return.  An outcome record observed from the implementation *)
(* is  [k |-> "absent"|"instr"|"internal"|"timeout", len, t (Intel rendering), both (renders in both         *)
(* syntaxes)].                                                                                               *)
(* The implementation has three stream classes (byte string, file object, virtual address space); each is   *)
(* observed against this one abstract stream (offs records carry kind = "str" | "file" | "virt"): refinement  *)
(* means that the three observations of one call satisfy the same SameOut / DisPost obligations.              *)
EXTENDS Integers, Sequences
Outcomes == {"absent", "instr"}
Allowed(o) == o.k \in Outcomes /\ (o.k = "instr" => o.both /\ o.len >= 1)
\* two calls observed the same instruction
SameOut(a, b) == a.k = b.k /\ (a.k = "instr" => a.len = b.len /\ a.t = b.t)
\* postcondition of Dis at stream offset off over a stream of n bytes: the instruction records off, the stream is
\* left just after it, and it lies inside the stream
DisPost(off, n, o, ioff, after) == o.k = "instr" => ioff = off /\ after = off + o.len /\ off + o.len <= n
=============================================================================
