-------------------------------- MODULE Prog --------------------------------
(* Generator (S->C) of straight-line IA-32 programs for C07(b): instruction   *)
(* instances of the integer core from a menu biased to esp/ebp-relative and   *)
(* overlapping memory accesses of widths 8/16/32, plus string instructions    *)
(* with and without rep/repe/repne and a concrete count.                      *)
(*                                                                            *)
(* The property quantifies over accesses at "constant or symbolic-base-plus-  *)
(* constant addresses" and over rep with a CONCRETE count.  The generator     *)
(* keeps an abstract state that makes exactly these programs reachable:       *)
(*   ptr   registers holding  constant | initial symbol + constant            *)
(*         (only these may be the base of a memory operand);                  *)
(*   dfk   the direction flag is concrete (cld/std executed): string           *)
(*         instructions are enabled only then;                                *)
(*   ecxn  the concrete value of ecx when known (-1 otherwise): rep needs it. *)
(* An instruction is built in three small steps (form, memory operand, rest)  *)
(* so that random simulation picks forms uniformly and never enumerates the   *)
(* full cross product.  Operand record: [k, n, v, w]:                         *)
(*   register "r" (n name, w width) | immediate "i" (v value)                 *)
(*   | memory "m" (n base register or "abs", v displacement, w width) | "-".  *)
EXTENDS Integers, Sequences, FiniteSets, TLC, Json
CONSTANT MaxLen
VARIABLES prog, ptr, dfk, ecxn, stage, form, mop
vars == <<prog, ptr, dfk, ecxn, stage, form, mop>>

R(n, w) == [k |-> "r", n |-> n, v |-> 0, w |-> w]
I(v) == [k |-> "i", n |-> "", v |-> v, w |-> 0]
M(b, d, w) == [k |-> "m", n |-> b, v |-> d, w |-> w]
None == [k |-> "-", n |-> "", v |-> 0, w |-> 0]
Ins(mn, a, b) == [mn |-> mn, a |-> a, b |-> b]

Data32 == {"eax", "ebx", "ecx", "edx"}
Gpr32 == Data32 \cup {"esi", "edi"}
All32 == Gpr32 \cup {"esp", "ebp"}
Sub16 == [eax |-> "ax", ebx |-> "bx", ecx |-> "cx", edx |-> "dx"]
Sub8 == [eax |-> "al", ebx |-> "bl", ecx |-> "cl", edx |-> "dl"]
SubReg(r, w) == IF w = 32 THEN R(r, 32) ELSE IF w = 16 THEN R(Sub16[r], 16) ELSE R(Sub8[r], 8)
BaseRegs == {"esp", "ebp", "esi", "edi", "ebx"}
Disps == {-4, -1, 0, 1, 2, 3, 4, 6}
Widths == {8, 16, 32}
AbsBase == 4096                                   \* "abs": address 0x1000 + displacement
PtrConsts == {4096, 4100}
Imms == {0, 1, -1, 127, 128, 4660, 305419896, -559038737}
SmallImms == {1, 4, 8, 127}
AluOps == {"add", "sub", "xor", "and", "or", "cmp", "test", "adc"}
MemForms == {"mov_mr", "mov_rm", "mov_mi", "alu_mr", "alu_rm", "alu_mi", "push_m", "pop_m", "un_m", "movx", "xchg", "lea", "setcc_m", "ptr_load"}
RegForms == {"mov_ri", "mov_rr", "alu_rr", "alu_ri", "push_r", "push_i", "pop_r", "frame", "flag", "str", "rep_setup", "rep", "setcc_r", "cmov_rr", "const_setcc", "rotc"}
Hi8 == [eax |-> "ah", ebx |-> "bh", ecx |-> "ch", edx |-> "dh"]
CondNames == {"z", "l", "a", "b", "ns"}

StackDisps == Disps \cup {-8, -3, -2, 5, 8}      \* more variants for esp/ebp: about half of the memory operands
Mems(p) == {M(b, d, w) : b \in (BaseRegs \cap p) \cup {"abs"}, d \in Disps, w \in Widths}
           \cup {M(b, d, w) : b \in {"esp", "ebp"} \cap p, d \in StackDisps, w \in Widths}

\* completed instructions of a form, each with the abstract effect [ins, ptr, dfk, ecxn]
Eff(ins, p, d, e) == [seq |-> <<ins>>, ptr |-> p, dfk |-> d, ecxn |-> e]
Eff2(i1, i2, p, d, e) == [seq |-> <<i1, i2>>, ptr |-> p, dfk |-> d, ecxn |-> e]
Kill(r) == ptr \ {r}
EcxAfter(r) == IF r = "ecx" THEN -1 ELSE ecxn
StrOps == {"movsb", "movsd", "stosb", "stosd", "lodsb", "lodsd", "cmpsb", "cmpsd", "scasb", "scasd"}
StrNeeds(mn) == IF mn \in {"movsb", "movsd", "cmpsb", "cmpsd"} THEN {"esi", "edi"}
                ELSE IF mn \in {"lodsb", "lodsd"} THEN {"esi"} ELSE {"edi"}
StrPtr(mn) == IF mn \in {"lodsb", "lodsd"} THEN Kill("eax") ELSE ptr
RepKinds(mn) == IF mn \in {"cmpsb", "cmpsd", "scasb", "scasd"} THEN {"repe", "repne"} ELSE {"rep"}
\* repe/repne on CONCRETE data, so that the zf termination test is decided: the operands are set up first
\* 0x12345678 / 0x12005678: equal low bytes, then a difference
CmpPairs == {<<0, 0>>, <<0, 1>>, <<305419896, 305419896>>, <<305419896, 302012024>>, <<302012024, 305419896>>, <<1, 0>>}
ConcreteCmps ==
   {[seq |-> <<Ins("mov", R("esi", 32), I(4096)), Ins("mov", R("edi", 32), I(4100)),
               Ins("mov", M("abs", 0, 32), I(v[1])), Ins("mov", M("abs", 4, 32), I(v[2])),
               Ins("mov", R("ecx", 32), I(n)), Ins(rk \o " " \o mn, None, None)>>,
     ptr |-> (ptr \cup {"esi", "edi"}) \ {"ecx"}, dfk |-> dfk, ecxn |-> -1]
      : rk \in {"repe", "repne"}, mn \in {"cmpsb", "cmpsd"}, v \in CmpPairs, n \in {2, 3}}
ConcreteScas ==
   {[seq |-> <<Ins("mov", R("eax", 32), I(v[1])), Ins("mov", R("edi", 32), I(4096)), Ins("mov", M("abs", 0, 32), I(v[2])),
               Ins("mov", R("ecx", 32), I(n)), Ins(rk \o " " \o mn, None, None)>>,
     ptr |-> ((ptr \cup {"edi"}) \ {"ecx", "eax"}), dfk |-> dfk, ecxn |-> -1]
      : rk \in {"repe", "repne"}, mn \in {"scasb", "scasd"}, v \in CmpPairs, n \in {2, 3}}
\* the count of a rep is first copied somewhere else (register, stack, memory): the copy must keep the value it had
CountCopies == {[i |-> Ins("mov", R("edx", 32), R("ecx", 32)), kill |-> {"edx"}], [i |-> Ins("mov", R("ebx", 32), R("ecx", 32)), kill |-> {"ebx"}],
                [i |-> Ins("mov", M("abs", 0, 32), R("ecx", 32)), kill |-> {}]}
               \cup (IF "esp" \in ptr THEN {[i |-> Ins("push", R("ecx", 32), None), kill |-> {}]} ELSE {})
SharedCount ==
   UNION {{[seq |-> <<Ins("mov", R("ecx", 32), I(n)), cp.i, Ins(rk \o " " \o mn, None, None)>>,
            ptr |-> (StrPtr(mn) \ {"ecx"}) \ cp.kill, dfk |-> dfk, ecxn |-> -1]
             : rk \in RepKinds(mn), n \in 1..4, cp \in CountCopies}
          : mn \in {s \in StrOps : dfk /\ StrNeeds(s) \subseteq ptr /\ s \notin {"cmpsb", "cmpsd", "scasb", "scasd"}}}
\* no instruction so far has written memory (the content of every location is still its initial content)
SafeMn == {"mov", "lea", "cld", "std", "movzx", "movsx", "add", "sub", "xor", "and", "or", "cmp", "test", "adc"}
NoStoreYet == \A j \in 1..Len(prog) : prog[j].mn \in SafeMn /\ prog[j].a.k # "m"
Complete(f, m) ==
   CASE f = "mov_mr" -> {Eff(Ins("mov", m, SubReg(r, m.w)), ptr, dfk, ecxn) : r \in Data32}
     [] f = "mov_rm" -> {Eff(Ins("mov", SubReg(r, m.w), m), Kill(r), dfk, EcxAfter(r)) : r \in Data32}
     [] f = "mov_mi" -> {Eff(Ins("mov", m, I(v)), ptr, dfk, ecxn) : v \in Imms}
     [] f = "alu_mr" -> {Eff(Ins(o, m, SubReg(r, m.w)), ptr, dfk, ecxn) : o \in AluOps, r \in {"eax", "edx"}}
     [] f = "alu_rm" -> {Eff(Ins(o, SubReg(r, m.w), m), IF o \in {"cmp", "test"} THEN ptr ELSE Kill(r), dfk,
                             IF o \in {"cmp", "test"} THEN ecxn ELSE EcxAfter(r)) : o \in AluOps, r \in {"eax", "edx"}}
     [] f = "alu_mi" -> {Eff(Ins(o, m, I(v)), ptr, dfk, ecxn) : o \in AluOps, v \in {1, 127, -1}}
     [] f = "push_m" -> IF m.w = 32 /\ "esp" \in ptr THEN {Eff(Ins("push", m, None), ptr, dfk, ecxn)} ELSE {}
     [] f = "pop_m" -> IF m.w = 32 /\ "esp" \in ptr THEN {Eff(Ins("pop", m, None), ptr, dfk, ecxn)} ELSE {}
     [] f = "un_m" -> {Eff(Ins(o, m, None), ptr, dfk, ecxn) : o \in {"inc", "dec", "neg", "not"}}
     [] f = "movx" -> IF m.w = 32 THEN {} ELSE {Eff(Ins(o, R(r, 32), m), Kill(r), dfk, EcxAfter(r)) : o \in {"movzx", "movsx"}, r \in Data32}
     [] f = "xchg" -> IF m.w # 32 THEN {} ELSE {Eff(Ins("xchg", R(r, 32), m), Kill(r), dfk, EcxAfter(r)) : r \in Data32}
     \* a pointer loaded from initial memory (a symbol of the valuation) becomes a base register; in half of the cases the
     \* location it was loaded from is overwritten right away, so that its initial and its current content differ
     [] f = "ptr_load" -> IF ~NoStoreYet \/ m.w # 32 THEN {}
                          ELSE {Eff(Ins("mov", R(r, 32), m), ptr \cup {r}, dfk, ecxn) : r \in {"esi", "edi", "ebx"} \ {m.n}}
                               \cup {Eff2(Ins("mov", R(r, 32), m), Ins("mov", m, I(v)), ptr \cup {r}, dfk, ecxn)
                                        : r \in {"esi", "edi", "ebx"} \ {m.n}, v \in {7, 4096}}
     [] f = "setcc_m" -> IF m.w # 8 THEN {} ELSE {Eff(Ins("set" \o c, m, None), ptr, dfk, ecxn) : c \in CondNames}
     \* a condition written into a low / high byte or moved under a condition: the rest of the register keeps its (often constant) value
     [] f = "setcc_r" -> {Eff(Ins("set" \o c, R(IF hi THEN Hi8[r] ELSE Sub8[r], 8), None), Kill(r), dfk, EcxAfter(r)) : c \in CondNames, r \in Data32, hi \in BOOLEAN}
     [] f = "const_setcc" -> {Eff2(Ins("mov", R(r, 32), I(v)), Ins("set" \o c, R(IF hi THEN Hi8[r] ELSE Sub8[r], 8), None), Kill(r), dfk, EcxAfter(r))
                                : c \in CondNames, r \in Data32, hi \in BOOLEAN, v \in {305419896, -559038737, 4660, -1}}
                             \cup {Eff2(Ins("mov", R(r, 32), I(v)), Ins("cmov" \o c, SubReg(r, 16), SubReg(r2, 16)), Kill(r), dfk, EcxAfter(r))
                                : c \in CondNames, r \in Data32, r2 \in Data32, v \in {305419896, -559038737}}
     [] f = "cmov_rr" -> {Eff(Ins("cmov" \o c, SubReg(r, w), SubReg(r2, w)), Kill(r), dfk, EcxAfter(r)) : c \in CondNames, r \in Data32, r2 \in Data32, w \in {16, 32}}
     [] f = "lea" -> IF m.n = "abs" THEN {} ELSE {Eff(Ins("lea", R(r, 32), M(m.n, m.v, 32)), ptr \cup {r}, dfk, EcxAfter(r)) : r \in Gpr32}
     [] f = "mov_ri" -> {Eff(Ins("mov", R(r, 32), I(v)), IF v \in PtrConsts THEN ptr \cup {r} ELSE Kill(r), dfk,
                             IF r = "ecx" THEN -1 ELSE ecxn) : r \in Gpr32, v \in Imms \cup PtrConsts}
     [] f = "mov_rr" -> {Eff(Ins("mov", R(r, 32), R(r2, 32)), IF r2 \in ptr THEN ptr \cup {r} ELSE Kill(r), dfk, EcxAfter(r))
                            : r \in Gpr32 \cup {"ebp"}, r2 \in All32}
     [] f = "alu_rr" -> {Eff(Ins(o, R(r, 32), R(r2, 32)), IF o \in {"cmp", "test"} THEN ptr ELSE Kill(r), dfk,
                             IF o \in {"cmp", "test"} THEN ecxn ELSE EcxAfter(r)) : o \in AluOps, r \in Data32, r2 \in Gpr32}
     [] f = "alu_ri" -> {Eff(Ins(o, R(r, 32), I(v)), ptr, dfk, EcxAfter(r)) : o \in {"add", "sub"}, r \in All32, v \in SmallImms}
     [] f = "push_r" -> IF "esp" \in ptr THEN {Eff(Ins("push", R(r, 32), None), ptr, dfk, ecxn) : r \in All32} ELSE {}
     [] f = "push_i" -> IF "esp" \in ptr THEN {Eff(Ins("push", I(v), None), ptr, dfk, ecxn) : v \in Imms} ELSE {}
     [] f = "pop_r" -> IF "esp" \in ptr THEN {Eff(Ins("pop", R(r, 32), None), Kill(r), dfk, EcxAfter(r)) : r \in Gpr32 \cup {"ebp"}} ELSE {}
     [] f = "frame" -> {Eff(Ins("mov", R("ebp", 32), R("esp", 32)), IF "esp" \in ptr THEN ptr \cup {"ebp"} ELSE Kill("ebp"), dfk, ecxn)}
                       \cup (IF "ebp" \in ptr THEN {Eff(Ins("mov", R("esp", 32), R("ebp", 32)), ptr \cup {"esp"}, dfk, ecxn)} ELSE {})
     [] f = "flag" -> {Eff(Ins("cld", None, None), ptr, TRUE, ecxn), Eff(Ins("std", None, None), ptr, TRUE, ecxn),
                       Eff(Ins("stc", None, None), ptr, dfk, ecxn), Eff(Ins("clc", None, None), ptr, dfk, ecxn)}
     \* rotate through carry: with a constant register and a constant carry (stc / clc: the machine keeps constant flags as
     \* 32-bit constants) the evaluator computes on operands of different sizes
     [] f = "rotc" -> {Eff(Ins(o, SubReg(r, w), I(c)), Kill(r), dfk, EcxAfter(r)) : o \in {"rcl", "rcr"}, r \in Data32, w \in {8, 16, 32}, c \in {1, 3}}
                       \cup {Eff2(Ins("stc", None, None), Ins(o, SubReg(r, w), I(1)), Kill(r), dfk, EcxAfter(r)) : o \in {"rcl", "rcr"}, r \in Data32, w \in {8, 16}}
     [] f = "str" -> {Eff(Ins(mn, None, None), StrPtr(mn), dfk, ecxn) : mn \in {s \in StrOps : dfk /\ StrNeeds(s) \subseteq ptr}}
     [] f = "rep_setup" -> {Eff(Ins("mov", R("ecx", 32), I(n)), Kill("ecx"), dfk, n) : n \in 0..4}
     [] f = "rep" ->       \* rep with the count known; otherwise the pair  mov ecx, n ; rep ...
          (UNION {{IF ecxn >= 0 THEN Eff(Ins(rk \o " " \o mn, None, None), StrPtr(mn) \ {"ecx"}, dfk, -1)
                   ELSE Eff2(Ins("mov", R("ecx", 32), I(n)), Ins(rk \o " " \o mn, None, None), StrPtr(mn) \ {"ecx"}, dfk, -1)
                     : rk \in RepKinds(mn), n \in (IF ecxn >= 0 THEN {0} ELSE 0..4)}
                  : mn \in {s \in StrOps : dfk /\ StrNeeds(s) \subseteq ptr}})
          \cup (IF dfk THEN ConcreteCmps \cup ConcreteScas ELSE {})
          \cup SharedCount

\* two of three programs start by fixing the direction flag (string instructions need it concrete)
Init == /\ ptr = All32 /\ ecxn = -1 /\ stage = 0 /\ form = "" /\ mop = None
        /\ \/ prog = <<>> /\ dfk = FALSE
           \/ prog = <<Ins("cld", None, None)>> /\ dfk = TRUE
           \/ prog = <<Ins("std", None, None)>> /\ dfk = TRUE
           \* one initial state in four: a pointer is loaded from memory and the location it came from is overwritten (the other
           \* base registers / locations come from the form ptr_load)
           \/ prog = <<Ins("mov", R("esi", 32), M("ebx", 4, 32)), Ins("mov", M("ebx", 4, 32), I(4096))>> /\ dfk = FALSE
PickForm == /\ stage = 0 /\ Len(prog) < MaxLen
            /\ \E f \in MemForms \cup RegForms :
                  /\ form' = f /\ stage' = (IF f \in MemForms THEN 1 ELSE 2)
                  /\ (f \in RegForms => Complete(f, None) # {})
            /\ UNCHANGED <<prog, ptr, dfk, ecxn, mop>>
PickMem == /\ stage = 1
           /\ \E m \in Mems(ptr) : Complete(form, m) # {} /\ mop' = m
           /\ stage' = 2 /\ UNCHANGED <<prog, ptr, dfk, ecxn, form>>
Finish == /\ stage = 2
          /\ \E e \in Complete(form, mop) :
                /\ prog' = prog \o e.seq /\ ptr' = e.ptr /\ dfk' = e.dfk /\ ecxn' = e.ecxn
          /\ stage' = 0 /\ form' = "" /\ mop' = None
\* a finished program is emitted once, as one JSON line, by the only action enabled at full length
Emit == /\ stage = 0 /\ Len(prog) >= MaxLen
        /\ PrintT("PROG " \o ToJson(prog))
        /\ stage' = 3 /\ UNCHANGED <<prog, ptr, dfk, ecxn, form, mop>>
Next == PickForm \/ PickMem \/ Finish \/ Emit
Spec == Init /\ [][Next]_vars

\* obligations of the generator: every memory operand is based on a tracked pointer or absolute,
\* the program never exceeds the bound
GenOK == /\ Len(prog) <= MaxLen + 5
         /\ ptr \subseteq All32 /\ ecxn \in (-1)..4
         /\ (stage = 2 /\ form \in MemForms => mop.k = "m" /\ (mop.n = "abs" \/ mop.n \in ptr))
=============================================================================
