----------------------------- MODULE CachesSelf -----------------------------
(* Spec-internal obligation for C12 (run by setup.sh): on the                 *)
(* implementation-shaped model of the memo mechanisms, with expressions       *)
(* marked "evaluated" only when the evaluation built them (FlagPolicy =       *)
(* "fresh_only"), table rows copied before they are written to and the PLY    *)
(* signature test in place, every call is a function of its explicit inputs   *)
(* in every cache configuration: Pure, TablesIntact and ParserOK are          *)
(* invariants.  (The variants "as_coded" and "per_machine" violate Pure; the  *)
(* C12 driver replays their counterexamples into the code.)                   *)
EXTENDS Caches
=============================================================================
