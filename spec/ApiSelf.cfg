CONSTANTS
 Depth = 3
 DepthCfg = 2
 Configs = {"valid", "empty", "other", "oldsig"}
INIT Init
NEXT Next
INVARIANT TypeOK
INVARIANT MstOK
INVARIANT MenuOK
CHECK_DEADLOCK FALSE
