"""C08 - read/write sets of the lifted semantics never omit a real dependency.
S->C: the C04 instruction instances (X86Space.tla) plus the non-core rows of X86RW!Ext (X86RWSpace.tla), bytes by GNU as.
Obs: union of a.get_r(mem_read=True) / a.get_w() over get_instr_expr(), projected to architectural names.
C->S: T_C08.tla checks X86RW.Reads/Writes (validated against X86Sem!Step by the probing self-check X86RWSelf.tla)
to be subsets of the observed sets; undefined-by-SDM writes are a separate class."""
import os, sys, json, random, hashlib, collections, binascii
from . import core, irlib, c04, expr_json as EJ

GPR = ['eax', 'ecx', 'edx', 'ebx', 'esp', 'ebp', 'esi', 'edi']
FLAGMAP = {'nf': 'sf'}
ARCH = (set(GPR) | {'cf', 'pf', 'af', 'zf', 'sf', 'df', 'of', 'eip', 'x87'} | {'mm%d' % i for i in range(8)} | {'xmm%d' % i for i in range(8)}
        | {'es', 'cs', 'ss', 'ds', 'fs', 'gs'} | {'st%d' % i for i in range(8)})


def name_of(n):
    """architectural name of a miasmX identifier, None for pseudo registers that are projected away"""
    n = FLAGMAP.get(n, n)
    if n.startswith('float_st') and n[8:].isdigit():
        return 'st' + n[8:]              # x87 data registers by stack position (X87Pos.tla)
    if n.startswith('float_') or n.startswith('reg_float'):
        return 'x87'                     # TOP, status / control word, environment: one item
    return n if n in ARCH else None


def gen_ext(chk=None):
    h = hashlib.sha1()
    for f in ('BV.tla', 'IR.tla', 'X86Sem.tla', 'X86RW.tla', 'X87Pos.tla', 'X86RWSpace.tla', 'X86RWSpace.cfg'):
        h.update(open(os.path.join(core.SPEC, f), 'rb').read())
    cdir = os.path.join(core.VERIF, '.cache')
    os.makedirs(cdir, exist_ok=True)
    cf = os.path.join(cdir, 'x86rwspace_%s.json' % h.hexdigest()[:16])
    if os.path.exists(cf):
        d = json.load(open(cf))
    else:
        dump = os.path.join(core.scratch(), 'x86rwspace.dump')
        r = core.run_tlc('X86RWSpace', extra=['-dump', dump], timeout=600, workers=2)
        if not r.ok:
            raise core.MachineryError('X86RWSpace failed:\n' + r.out[-3000:])
        rows = sorted(((st['x'], st['txt']) for st in core.read_dump(dump)))
        os.unlink(dump)
        d = {'rows': rows, 'states': r.distinct, 'transitions': r.generated}
        tmp = cf + '.%d' % os.getpid()
        json.dump(d, open(tmp, 'w'))
        os.rename(tmp, cf)
    if chk is not None:
        chk.add_tlc({'states': d['states'], 'transitions': d['transitions']})
    return d['rows']


def _sets(job):
    """(hex bytes, next eip) -> {'st', 'r': [names], 'w': [names], 'str'}"""
    hexb, nxt = job
    from miasmx.arch.ia32_arch import x86mnemo
    from miasmx.tools import emul_helper
    from miasmx.expression import expression as X
    from miasmx.tools.modint import uint32
    b = binascii.unhexlify(hexb)

    def cell(m):
        ids = set(str(x.name) for x in m.arg.get_r(True) if isinstance(x, X.ExprId))
        return 'mem[' + ','.join(g for g in GPR if g in ids) + ']'

    def work(default_first):
        ins = x86mnemo.dis(b)
        if ins is None:
            return {'st': 'nodis'}
        out = {'l': int(ins.l), 'str': str(ins)}
        affs = emul_helper.get_instr_expr(ins, X.ExprInt(uint32(nxt)), [])
        if affs is None:
            out['st'] = 'none'
            return out
        R, W = set(), set()
        rcells, wcells = {}, {}

        def note(tab, m):
            try:
                t = {'a': EJ.to_json(m.arg, X), 'w': int(m.size)}
            except Exception:
                t = {'a': {'k': 'other', 'w': 0}, 'w': int(m.size)}
            tab[json.dumps(t, sort_keys=True)] = t
        if default_first:
            for a in affs:          # the other order of the two questions on the same lifted objects
                a.get_r()
        for a in affs:
            for x in a.get_r(mem_read=True):
                if isinstance(x, X.ExprId):
                    R.add(name_of(str(x.name)))
                elif isinstance(x, X.ExprMem):
                    R.add(cell(x))
                    note(rcells, x)
            for x in a.get_w():
                if isinstance(x, X.ExprId):
                    W.add(name_of(str(x.name)))
                elif isinstance(x, X.ExprMem):
                    W.add(cell(x))
                    note(wcells, x)
                    # a written memory operand: its address registers are visible in the reported cell
                    for y in x.arg.get_r(True):
                        if isinstance(y, X.ExprId):
                            R.add(name_of(str(y.name)))
                        elif isinstance(y, X.ExprMem):
                            R.add(cell(y))
                            note(rcells, y)
        out.update(st='ok', r=sorted(x for x in R if x), w=sorted(x for x in W if x), n=len(affs),
                   rcells=[rcells[k] for k in sorted(rcells)], wcells=[wcells[k] for k in sorted(wcells)])
        return out

    def twice(_):
        # the instruction is decoded and lifted twice in this process; a second observation that differs from the first
        # is reported as an observation of its own
        a = work(False)
        b2 = work(True)
        if b2 != a:
            a['second'] = b2
        return a
    st, r = irlib.guarded(twice, None, 10)
    if st == 'ok':
        return r
    return {'st': 'exc', 'exc': r if st == 'exc' else {'exc': 'Timeout', 'func': '', 'line': ''}}


NPROBE = 3
MEM_MN = {'push', 'pop', 'pushad', 'popad', 'call', 'ret', 'leave', 'enter', 'xlat', 'movs', 'cmps', 'scas', 'lods', 'stos'}


def touches_memory(inst):
    return inst['mn'] in MEM_MN or any(o['k'] == 'mem' for o in inst['ops'])


DUMMY_I = {'mn': 'none', 'w': 0, 'sw': 0, 'ops': [], 'cc': '', 'len': 0, 'rel': [0, 0, 0, 0], 'cls': '', 'q': True, 'txt': ''}


def build_records(core_insts, ext_rows):
    texts = [i['txt'] for i in core_insts] + [t for _, t in ext_rows]
    bts = c04.gas(texts)
    jobs = [(binascii.hexlify(b).decode(), 0x1000 + len(b)) for b in bts]
    outs = irlib.pmap(_sets, jobs, chunk=50)
    recs, excl = [], collections.Counter()
    n = 0
    for k, (t, b, o) in enumerate(zip(texts, bts, outs)):
        is_core = k < len(core_insts)
        if o['st'] != 'ok':
            excl['not lifted (%s): %s' % (o['st'], 'core, see C04.lift' if is_core else 'outside the lifter')] += 1
            excl.setdefault('examples', [])
            if len(excl['examples']) < 12:
                excl['examples'].append(t)
            continue
        if o['l'] != len(b):
            excl['decoded length differs from GNU as (decoder property C01)'] += 1
            continue
        for obs in [o] + ([o['second']] if o.get('second', {}).get('st') == 'ok' else []):
            rec = {'id': n, 'kind': 'core' if is_core else 'ext', 'i': dict(core_insts[k], len=len(b)) if is_core else DUMMY_I,
                   'x': 0 if is_core else ext_rows[k - len(core_insts)][0], 'txt': t, 'bytes': binascii.hexlify(b).decode(),
                   'robs': obs['r'], 'wobs': obs['w'], 'impl_str': obs['str'], 'rcells': obs['rcells'], 'wcells': obs['wcells'],
                   'sd': (k * 7 + 1) % 30000, 'eip': core.limbs(0x1000, 32), 'second_lifting': obs is not o,
                   'ns': NPROBE if is_core and touches_memory(core_insts[k]) else 0}
            n += 1
            recs.append(rec)
    return recs, excl


def mn_of(rec):
    if rec['kind'] == 'core':
        i = rec['i']
        return i['mn'] if i['mn'] not in ('setcc', 'cmovcc', 'jcc') else i['mn'][:-2] + 'cc'
    ws = rec['txt'].split()
    return ' '.join(ws[:2]) if ws[0] in ('rep', 'repe', 'repne') else ws[0]


EXT_GROUPS = {'bcd': 'daa das aaa aas aam aad', 'pcmpstr': 'pcmpistri pcmpistrm pcmpestri pcmpestrm', 'blendv': 'pblendvb blendvps blendvpd',
              'maskmov': 'maskmovq maskmovdqu', 'fcmov': 'fcmovb fcmove fcmovbe fcmovu fcmovnb fcmovne fcmovnbe fcmovnu',
              'rep': 'rep repe repne'}
_EG = {m: g for g, ms in EXT_GROUPS.items() for m in ms.split()}


def group_of(rec):
    if rec['kind'] == 'core':
        return c04.GROUPS.get(rec['i']['mn'], 'mov')
    w = rec['txt'].split()[0]
    if w in _EG:
        return _EG[w]
    if w.startswith('f'):
        return 'x87'
    return 'sse' if ('mm' in rec['txt']) else 'misc'


def report(chk, recs, verdicts):
    byid = {r['id']: r for r in recs}
    skipped = 0
    for v in sorted(verdicts, key=lambda v: v['id']):
        rec = byid[v['id']]
        for f in v['v']:
            if f['clause'] == 'skip.degenerate':
                skipped += 1
                continue
            if f['clause'] == 'skip.illtyped_address':       # C11's subject; the name-level clauses are still judged
                chk.cov['address_clauses_skipped_illtyped'] = chk.cov.get('address_clauses_skipped_illtyped', 0) + 1
                continue
            key = {'clause': f['clause'], 'group': group_of(rec), 'mn': mn_of(rec), 'item': f['item']}
            chk.violation(key, {'text': rec['txt'], 'bytes': rec['bytes'], 'miasmx_str': rec['impl_str'], 'kind': rec['kind'],
                                'instance': rec['i'] if rec['kind'] == 'core' else None, 'ext_row': rec['x'],
                                'reads_observed': rec['robs'], 'writes_observed': rec['wobs'], 'missing': f})
    return skipped


def run(tier, chk):
    rnd = random.Random(chk.seed)
    quick = tier == 'quick'
    negative_control(chk)
    insts = c04.gen_instances(chk)
    if quick:
        insts = [i for i in insts if i['q']]
    ext = gen_ext(chk)
    recs, excl = build_records(insts, ext)
    rs = list(recs)
    rnd.shuffle(rs)
    verdicts, st = core.judge('T_C08', rs, timeout=1500, min_per_shard=50)
    chk.add_tlc(st)
    skipped = report(chk, recs, verdicts)
    chk.cov['evaluations'] = len(recs)
    chk.cov['traces_validated_against_impl'] = len(recs)
    chk.cov['core_instances'] = sum(1 for r in recs if r['kind'] == 'core')
    chk.cov['ext_instances'] = sum(1 for r in recs if r['kind'] == 'ext')
    chk.cov['degenerate_instances_skipped'] = skipped
    chk.cov['instances_with_concrete_address_clauses'] = sum(1 for r in recs if r.get('ns'))
    chk.cov['probe_states_per_instance'] = NPROBE
    chk.cov['second_liftings_that_differed'] = sum(1 for r in recs if r.get('second_lifting'))
    chk.cov['excluded'] = {k: v for k, v in excl.items()}
    chk.cov['distinct_nontrivial'] = len(set((mn_of(r), r['i']['w'], r['i']['cls'], r['i']['cc']) for r in recs))
    chk.cov['rule'] = ('instances = X86Space.tla (integer core) + rows of X86RW!Ext (BCD, cpuid, rep forms, MMX/SSE, x87); non-trivial = distinct '
                       '(mnemonic, size, form class, cc); the core sets are validated against X86Sem!Step by the probing self-check X86RWSelf')
    chk.cov['exhaustive'] = True
    for r in recs[:2] + [r for r in recs if r['kind'] == 'ext'][:3]:
        chk.sample({'text': r['txt'], 'bytes': r['bytes'], 'reads_observed': r['robs'], 'writes_observed': r['wobs']})
    if not quick:
        selfcheck(chk)
    chk.assumptions += ['register items at parent granularity (a partial write reads the parent)',
                        'a memory operand is projected to its address registers + one cell item named by them',
                        'x87 data registers are items by stack position st0..st7 (X87Pos.tla: the naming of the lifter, a push / pop moves every value); TOP, status / control word and environment are one item "x87"; miasmX pseudo registers (tsc, vm_exception_flags, segment ids) are dropped',
                        'the repeat of rep-prefixed string instructions is emulated outside the lifted list (emul_full_expr): ecx is reported missing for them']


def selfcheck(chk):
    """the declared core sets agree with X86Sem!Step (dependency probing, X86RWSelf.tla)"""
    r = core.run_tlc('X86RWSelf', timeout=2400)
    chk.add_tlc(r)
    ok = 'Model checking completed. No error has been found.' in r.out
    chk.cov['x86rwself'] = {'ok': ok, 'states': r.distinct, 'wall': round(r.wall, 1)}
    if not ok:
        raise core.MachineryError('X86RWSelf (declared read/write sets vs X86Sem!Step) failed:\n' + r.out[-3000:])


def negative_control(chk):
    add = {'mn': 'add', 'w': 32, 'sw': 0, 'ops': [c04._reg(0), c04._reg(3)], 'cc': '', 'len': 2, 'rel': [0, 0, 0, 0], 'cls': 'rr', 'q': True, 'txt': 'add eax, ebx'}
    fl = ['af', 'cf', 'of', 'pf', 'sf', 'zf']
    # row of cpuid in Ext: found by text
    ext = gen_ext()
    cpuid = [x for x, t in ext if t == 'cpuid'][0]

    def rec(i, kind, robs, wobs, x=0):
        return {'id': i, 'kind': kind, 'i': add if kind == 'core' else DUMMY_I, 'x': x, 'robs': robs, 'wobs': wobs,
                'rcells': [], 'wcells': [], 'ns': 0, 'sd': 1, 'eip': core.limbs(0x1000, 32)}
    # pop dword ptr [esp+8]: reads the stack top, writes at (esp + 4) + 8
    m3 = {'k': 'mem', 'c': '', 'n': 0, 'v': [], 'b': 4, 'i': -1, 'sc': 1, 'd': [8, 0, 0, 0]}
    popm = {'mn': 'pop', 'w': 32, 'sw': 0, 'ops': [m3], 'cc': '', 'len': 4, 'rel': [0, 0, 0, 0], 'cls': 'm', 'q': True, 'txt': 'pop dword ptr [esp+0x8]'}
    esp = {'k': 'id', 'w': 32, 'n': 'esp'}
    plus = lambda a, c: {'k': 'op', 'w': 32, 'o': '+', 'u': 0, 'a': [a, {'k': 'int', 'w': 32, 'v': core.limbs(c, 32)}]}
    pr = ['esp', 'mem[esp]']
    pbase = {'kind': 'core', 'i': popm, 'x': 0, 'robs': pr, 'wobs': pr, 'ns': 3, 'sd': 5, 'eip': core.limbs(0x1000, 32)}
    good_w = [{'a': plus(plus(esp, 4), 8), 'w': 32}]
    good_r = [{'a': esp, 'w': 32}]
    recs = [rec(0, 'core', ['eax', 'ebx'], ['eax'] + fl),
            rec(1, 'core', ['eax'], ['eax'] + fl),
            rec(2, 'core', ['eax', 'ebx', 'ecx'], ['eax'] + [f for f in fl if f != 'cf']),
            rec(3, 'ext', ['eax'], ['eax', 'ebx', 'ecx', 'edx'], cpuid),
            rec(4, 'ext', ['eax', 'ecx'], ['eax', 'ebx', 'ecx', 'edx', 'zf'], cpuid),
            dict(pbase, id=5, rcells=good_r, wcells=good_w),
            dict(pbase, id=6, rcells=good_r, wcells=[{'a': plus(esp, 8), 'w': 32}]),       # address computed with the old esp
            dict(pbase, id=7, rcells=[{'a': esp, 'w': 16}], wcells=good_w),                # only half of the stack slot reported as read
            dict(pbase, id=8, rcells=good_r + [{'a': plus(esp, 64), 'w': 8}], wcells=good_w + [{'a': esp, 'w': 32}])]   # over-approximation
    verdicts, st = core.judge('T_C08', recs, shards=1)
    got = sorted((v['id'], f['clause'], f.get('item')) for v in verdicts for f in v['v'])
    want = [(1, 'C08.read', 'ebx'), (2, 'C08.write', 'cf'), (3, 'C08.read', 'ecx'), (6, 'C08.write_addr', 'mem[esp]'), (7, 'C08.read_addr', 'mem[esp]')]
    ok = got == want
    chk.cov['negative_controls'].append({'name': 'add eax,ebx / cpuid: one dropped read, one dropped flag write, one dropped implicit read rejected; '
                                                 'complete and over-approximated sets accepted; pop [esp+8]: write address with the old esp and a half-reported stack slot rejected', 'ok': ok, 'got': got})
    if not ok:
        raise core.MachineryError('C08 negative control failed: got %r want %r' % (got, want))


def replay(path, chk):
    rp = json.load(open(path))
    d = rp['detail']
    if d['kind'] == 'core':
        recs, excl = build_records([dict(d['instance'], len=0)], [])
    else:
        recs, excl = build_records([], [(d['ext_row'], d['text'])])
    verdicts, st = core.judge('T_C08', recs, shards=1)
    chk.add_tlc(st)
    chk.cov['evaluations'] = chk.cov['traces_validated_against_impl'] = len(recs)
    chk.sample({'text': d['text']})
    report(chk, recs, verdicts)
    return chk.finish()
