------------------------------- MODULE T_SIMP -------------------------------
(* Conformance of ONE step of the code's simplifier (_expr_simp on an operator *)
(* node) with the rule model SimpRules.Step, modulo the order of AC operands.  *)
(* A mismatch is not a property violation (the model may lag behind a sound    *)
(* change of the code): it is reported as a CONFORM line and the driver then    *)
(* examines that tree at full valuation depth.                                  *)
EXTENDS SimpRules, Json, IOUtils
Recs == JsonDeserialize(IOEnv.TRACE)
Conforms(r) == r.st = "ok" /\ NK(Renorm(r.one)) = NK(Renorm(Step(r.e)))
VARIABLE i
Init == i = 0
Next == \/ /\ i < Len(Recs) /\ i' = i + 1
           /\ IF Conforms(Recs[i']) THEN TRUE
              ELSE PrintT("VERDICT " \o ToJson([id |-> Recs[i'].id, v |-> <<[clause |-> "model.step_mismatch", model |-> Renorm(Step(Recs[i'].e))]>>]))
        \/ /\ i = Len(Recs) /\ i' = i + 1 /\ PrintT("CONSUMED " \o ToString(Len(Recs)))
=============================================================================
