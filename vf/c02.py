"""C02 - every candidate encoding the assembler returns encodes exactly the requested instruction.
S->C: AsmSpace.tla (TLC) enumerates canonical lines (mnemonics x operand-shape tuples incl. invalid shapes, addressing
sweep, width-boundary immediates), Syntax.tla lays them out in Intel and AT&T syntax; miasmX assembles; C->S: T_C02.tla
decodes EVERY candidate with the reference decoder IA32Decode.tla and compares it with the instruction the line denotes."""
import json, random, collections
from . import core, asmlib, asm_text

# lines the pinned suite itself assembles although they denote no IA-32 instruction (DESIGN C02 triage), and friends
RAW = [('intel', 'callf eax'), ('intel', 'lea ecx, [al+dl]'), ('intel', 'jmpf eax'), ('intel', 'mov eax, [ax+4]'),
       ('intel', 'mov eax, DWORD PTR [esp*2]'), ('att', 'movl (%al), %eax')]


def build(lines, quick, rnd):
    """(syn, structured line, ins, src) items"""
    items = []
    for l in lines:
        if quick and l['src'] == 'core' and rnd.random() > 0.22:
            continue
        if quick and l['src'] == 'mem' and rnd.random() > 0.3:
            continue
        items.append(('intel', l['intel'], l))
        if 'att' in l:
            items.append(('att', l['att'], l))
        if 'intel_split' in l and (not quick or rnd.random() < 0.5):
            items.append(('intel', l['intel_split'], l))        # the same request with the displacement as constant arithmetic
        if 'intel_dec0' in l and (not quick or rnd.random() < 0.5):
            items.append(('intel', l['intel_dec0'], l))         # the same request with its small numbers written 0N
    return items


def observe(items):
    outs = asmlib.run_asm([(syn, asm_text.render(lay)) for syn, lay, l in items])
    recs = []
    for k, ((syn, lay, l), o) in enumerate(zip(items, outs)):
        recs.append({'id': k, 'syn': syn, 'line': lay, 'text': asm_text.render(lay), 'st': o['st'], 'hex': o['c'],
                     'cands': [list(bytes.fromhex(c)) for c in o['c']], 'exc': o.get('exc'), 'ins': l['ins'] if l else None,
                     'plaus': l['plaus'] if l else ''})
    return recs


def judge(chk, recs):
    acc = [{'id': r['id'], 'line': r['line'], 'cands': r['cands']} for r in recs if r['st'] == 'list' and r['cands']]
    random.Random(chk.seed).shuffle(acc)
    verdicts, st = core.judge('T_C02', acc, timeout=3000)
    chk.add_tlc(st)
    return verdicts, len(acc)


def row_name(row):
    return '%s:%02x%s' % (row[0], row[1], '/%d' % row[2] if row[2] >= 0 else '') if row[0] else ''


MEMCL = ('C02.seg', 'C02.base', 'C02.index', 'C02.scale', 'C02.disp')


def mem_form(ins):
    """address form of the memory operand with the registers that matter for the default segment named"""
    for o in ins['ops']:
        if o['k'] == 'mem':
            nm = lambda r: {4: 'esp', 5: 'ebp'}.get(r, 'r')
            d = core.unlimbs(o['d'])
            return ('[' + '+'.join(([nm(o['b'])] if o['b'] >= 0 else []) + ([nm(o['i']) + '*%d' % o['sc']] if o['i'] >= 0 else [])
                                   + (['d8' if d < 128 or d >= 2 ** 32 - 128 else 'd32'] if d or (o['b'] < 0 and o['i'] < 0) else [])
                                   + (['sym'] if o['sym'] else [])) + ']')
    return ''


def imm_value(ins):
    v = [o for o in ins['ops'] if o['k'] == 'imm' and not o['sym']]
    return ','.join(str(core.unlimbs(o['v']) - (2 ** 32 if o['neg'] else 0)) for o in v)


def class_key(r, f, plaus):
    """root-cause class of one failing (line, candidate): DESIGN 6.3"""
    ins, cl = r['ins'], f['clause']
    if ins is None:
        return {'clause': cl, 'text': r['text']}
    if plaus and not plaus.endswith(':immediate_range'):            # the line cannot be an instruction of its family (AsmSpace.PlausWhy): accepting it is the defect
        return {'clause': 'C02.invalid_line_accepted', 'why': plaus}
    if cl in MEMCL:
        return {'clause': cl, 'mem': mem_form(ins)}
    if cl in ('C02.imm', 'C02.rel'):
        return {'clause': cl, 'syn': r['syn'], 'field': f['why'].split(':')[-1] if ':' in f['why'] else '', 'value': imm_value(ins)}
    if cl == 'C02.reg':
        return {'clause': cl, 'shape': ','.join(o['c'] if o['k'] == 'reg' else o['k'] for o in ins['ops'])}
    return {'clause': cl, 'mn': ins['mn'], 'shape': ','.join(asmlib.op_shape(o).split('[')[0] for o in ins['ops'])}


def report(chk, recs, verdicts):
    byid = {r['id']: r for r in recs}
    for v in verdicts:
        r = byid[v['id']]
        seen = set()
        for f in v['v']:
            key = class_key(r, f, r.get('plaus', ''))
            ks = json.dumps(key, sort_keys=True)
            if ks in seen:
                continue
            seen.add(ks)
            chk.violation(key, {'syntax': r['syn'], 'text': r['text'], 'candidates': r['hex'], 'failing_candidate': r['hex'][f['k'] - 1] if f['k'] else None,
                                'clause': f['clause'], 'decoded_as': f['why'], 'operand': f['op'], 'row': row_name(f['row']), 'line': r['line'], 'nbad': len(v['v'])})


def run(tier, chk):
    rnd = random.Random(chk.seed)
    negative_control(chk)
    quick = tier == 'quick'
    lines = asmlib.canon_lines(chk)
    items = build(lines, quick, rnd) + [(syn, asm_text.tokenise(t, syn), None) for syn, t in RAW]
    recs = observe(items)
    stats = collections.Counter(r['syn'] + ':' + (r['st'] if r['st'] != 'list' or r['cands'] else 'empty') for r in recs)
    verdicts, nacc = judge(chk, recs)
    ncand = sum(len(r['cands']) for r in recs)
    chk.cov['evaluations'] = len(recs)
    chk.cov['distinct_nontrivial'] = nacc
    chk.cov['candidates_decoded'] = ncand
    chk.cov['outcomes'] = dict(stats)
    chk.cov['traces_validated_against_impl'] = nacc
    chk.cov['rule'] = ('lines = reachable states of AsmSpace.tla in Intel syntax and, where it exists, AT&T transliteration; '
                       'non-trivial = accepted lines (non-empty candidate list), every candidate of which is decoded by IA32Decode.tla; '
                       'rejected lines are counted, not judged')
    for r in [x for x in recs if x['cands']][:4]:
        chk.sample({'text': r['text'], 'syntax': r['syn'], 'candidates': r['hex'][:6]})
    report(chk, recs, verdicts)
    chk.assumptions += ['a symbol operand is pre-assembled as 0: its field must decode to 0 in whatever width the form has',
                        'assembler conventions for implicit operands (shift by 1, imul r,imm, x87 st(0)/st(1)) are AsmExpect.Complete']


def negative_control(chk):
    lay = {'syn': 'intel', 'mn': 'add', 'st': {'rc': 'lower', 'kc': 'upper', 'sp': 'canon'},
           'ops': [{'k': 'reg', 'name': 'eax', 'pct': False, 'star': False},
                   {'k': 'imm', 'dollar': False, 'off': False, 'sym': '', 'hasnum': True, 'num': {'neg': False, 'mag': [128, 0, 0, 0], 'nb': 'dec'}}]}
    good = [[0x05, 0x80, 0, 0, 0], [0x81, 0xc0, 0x80, 0, 0, 0]]
    recs = [{'id': 0, 'line': lay, 'cands': good},
            {'id': 1, 'line': lay, 'cands': good + [[0x83, 0xc0, 0x80]]},        # imm8 form sign-changes 128
            {'id': 2, 'line': lay, 'cands': [[0x81, 0xc1, 0x80, 0, 0, 0]]},       # wrong register
            {'id': 3, 'line': lay, 'cands': [[0x05, 0x80, 0, 0, 0, 0x90]]},       # trailing byte
            {'id': 4, 'line': lay, 'cands': [[0x81, 0xe8, 0x80, 0, 0, 0]]}]       # sub, not add
    verdicts, st = core.judge('T_C02', recs, shards=1)
    got = sorted((v['id'], f['k'], f['clause']) for v in verdicts for f in v['v'])
    want = [(1, 3, 'C02.imm'), (2, 1, 'C02.reg'), (3, 1, 'C02.len'), (4, 1, 'C02.mnemonic')]
    chk.cov['negative_controls'].append({'name': 'sign-changed imm8 form / wrong register / trailing byte / other mnemonic rejected, two correct encodings accepted',
                                         'ok': got == want, 'got': got})
    if got != want:
        raise core.MachineryError('C02 negative control failed: %r' % (got,))


def replay(path, chk):
    rp = json.load(open(path))
    d = rp['detail']
    o = asmlib.fresh_asm([(d['syntax'], d['text'])])[0]
    rec = {'id': 0, 'syn': d['syntax'], 'line': d['line'], 'text': d['text'], 'st': o['st'], 'hex': o['c'],
           'cands': [list(bytes.fromhex(c)) for c in o['c']], 'ins': None}
    verdicts, n = judge(chk, [rec])
    chk.cov['traces_validated_against_impl'] = n
    chk.cov['evaluations'] = 1
    chk.sample({'text': d['text'], 'candidates': o['c']})
    for v in verdicts:
        for f in v['v']:
            if f['clause'] == rp['detail']['clause']:
                print('replay: %s still fails for %r: candidate %s decodes as %s' % (f['clause'], d['text'], o['c'][f['k'] - 1] if f['k'] else '-', f['why']))
                chk.violation(rp['class'], d)
                break
    return chk.finish()
