INIT Init
NEXT Next
INVARIANT DivOK
CHECK_DEADLOCK FALSE
