"""Calibration tool (NOT a verdict): compares spec/IA32Decode.tla's Decode with GNU objdump
(`objdump -D -b binary -m i386 -M intel`) over the generated space so that transcription slips in the TLA+ opcode
tables are found by something other than miasmX.  objdump is not an authority (it fuses 9B with a following x87
opcode, decodes C4/C5 mod=3 as VEX, prints (bad) for undocumented opcodes, reads past short inputs ...): every
disagreement listed here is resolved by reading the SDM.

usage:  /venv/bin/python -m vf.calibrate_ia32 [--maxdev 1] [--op1 0f,d8-df] [--limit N] [--show K]"""
import os, sys, re, json, argparse, subprocess, collections, random
from . import core, instr_abs, ia32space

LINE = re.compile(r'^\s*([0-9a-f]+):\t((?:[0-9a-f]{2} )+)\s*(?:\t(.*))?$')
OBJ_PREFIX = {'data16', 'addr16', 'cs', 'ds', 'es', 'ss', 'fs', 'gs', 'bnd', 'rex', 'xacquire', 'xrelease'}


def objdump(strings):
    """-> list of (length, text) per input string (text None when objdump prints (bad))"""
    d = core.scratch()
    p = os.path.join(d, 'cal.bin')
    with open(p, 'wb') as f:
        for s in strings:
            assert len(s) <= 15
            f.write(s + b'\x90' * (16 - len(s)))
    out = subprocess.run(['objdump', '-D', '-b', 'binary', '-m', 'i386', '-M', 'intel', '-w', p], stdout=subprocess.PIPE,
                         universal_newlines=True, timeout=3600).stdout
    res = [None] * len(strings)
    for l in out.splitlines():
        m = LINE.match(l)
        if not m:
            continue
        a = int(m.group(1), 16)
        if a % 16 == 0 and a // 16 < len(strings):
            res[a // 16] = (len(m.group(2).split()), (m.group(3) or '').strip())
    os.unlink(p)
    return res


def _pfx(s):
    out = []
    for x in s:
        if x not in (0xF0, 0xF2, 0xF3, 0x26, 0x2E, 0x36, 0x3E, 0x64, 0x65, 0x66, 0x67):
            break
        out.append(x)
    return out


def project(idx, s, od):
    """objdump line -> T_C01 record"""
    bad = {'id': idx, 'b': list(s), 'ok': False, 'len': 0, 'raw': [], 'mn': '', 'pre': [], 'ops': []}
    if od is None:
        return bad, 'missing'
    n, text = od
    if '(bad)' in text or not text or text.startswith('.byte'):
        return bad, 'bad'
    text = re.sub(r'\s*[#<].*$', '', text)
    words = text.split()
    pre = []
    while words and words[0] in OBJ_PREFIX:
        pre.append(words.pop(0))
    text = ' '.join(words)
    text = re.sub(r'\+eiz\*\d', '', text)         # objdump's pseudo index register for 'no index'
    text = re.sub(r'\beiz\*\d\+?', '', text)
    try:
        pw, mn, ops = instr_abs.parse_text(text, [0x67] if 0x67 in _pfx(s) else [])
    except instr_abs.ProjectionError as e:
        return bad, 'unreadable: %s' % e
    except Exception as e:
        return bad, 'unreadable: %r' % e
    # objdump prints branch targets; turn them back into displacements
    for o in ops:
        if o['k'] == 'rel':
            tgt = sum(x << (8 * i) for i, x in enumerate(o['d']))
            o['d'] = instr_abs.limbs64(tgt - (idx * 16 + n))
    if n > len(s):
        return bad, 'overread'
    return {'id': idx, 'b': list(s), 'ok': True, 'len': n, 'raw': list(s[:n]), 'mn': mn, 'pre': pw, 'ops': ops,
            'text': text}, 'ok'


def main():
    ap = argparse.ArgumentParser()
    ap.add_argument('--maxdev', type=int, default=1)
    ap.add_argument('--base67', action='store_true')
    ap.add_argument('--op1', default='')
    ap.add_argument('--limit', type=int, default=0)
    ap.add_argument('--show', type=int, default=200)
    ap.add_argument('--random', type=int, default=0)
    a = ap.parse_args()
    op1 = None
    if a.op1:
        op1 = []
        for part in a.op1.split(','):
            lo, _, hi = part.partition('-')
            op1 += list(range(int(lo, 16), int(hi or lo, 16) + 1))
    g = ia32space.gen(a.maxdev, a.base67, op1)
    strings = [bytes.fromhex(h) for h in g['done'] + g['dead']]
    if a.random:
        strings += [s for s in ia32space.random_strings(random.Random(core.seed()), a.random)]
    if a.limit:
        random.Random(1).shuffle(strings)
        strings = strings[:a.limit]
    od = objdump(strings)
    recs, why = [], collections.Counter()
    for i, s in enumerate(strings):
        r, w = project(i, s, od[i])
        why[w.split(':')[0]] += 1
        recs.append(r)
    texts = {r['id']: r.pop('text', None) for r in recs}
    order = list(range(len(recs)))
    random.Random(2).shuffle(order)
    verdicts, st = core.judge('T_CAL', [recs[i] for i in order], tags=('STATS', 'ONLY'), timeout=3000)
    tot = collections.Counter()
    for s_ in st.get('STATS', []):
        tot.update(s_)
    print('strings %d; objdump: %s; judge: %s' % (len(strings), dict(why), dict(tot)))
    classes = collections.defaultdict(list)
    for v in verdicts:
        sp = v['spec']
        k = (v['v'][0]['clause'], sp['mn'], ' '.join(str(x) for x in sp['opc']))
        classes[k].append(v['id'])
    for o in st.get('ONLY', []):
        classes[('only-' + o['who'], o.get('mn', ''), o.get('why', ''))].append(o['id'])
    print('%d disagreement classes' % len(classes))
    for k in sorted(classes)[:a.show]:
        i = classes[k][0]
        print('%5d %-60s %s | objdump: %s' % (len(classes[k]), k, strings[i].hex(), od[i]))


if __name__ == '__main__':
    sys.exit(main())
