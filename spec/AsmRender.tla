------------------------------ MODULE AsmRender ------------------------------
(* First pass of C03 (direction 2) and C09: for every byte string b of the   *)
(* decode space, the reference decode and - where the instruction has a      *)
(* spelling - its canonical Intel and AT&T lines (Syntax.Layout).  The driver *)
(* flattens the lines (vf/asm_text.py) and hands them to GNU as.             *)
(* Record [id, b]; one line "LINE {...}" per renderable record.              *)
EXTENDS AsmExpect, Json, IOUtils
Recs == JsonDeserialize(IOEnv.TRACE)
Out(r) == LET d == TLCEval(D!Decode(r.b, 32)) IN
          IF d.ok /\ d.len = Len(r.b) /\ D!Meaningful(d.pfx, d) /\ Renderable(d)
          THEN LET ins == InsOf(d) IN
               <<[id |-> r.id, emit |-> Emittable(d), intel |-> Layout(ins, Pres0),
                  hasatt |-> AttOK(ins), att |-> Layout(ins, PresAtt0)]>>
          ELSE <<>>
VARIABLE i
Init == i = 0
Next == \/ /\ i < Len(Recs) /\ i' = i + 1
           /\ LET v == Out(Recs[i']) IN IF v = <<>> THEN TRUE ELSE PrintT("LINE " \o ToJson(v[1]))
        \/ /\ i = Len(Recs) /\ i' = i + 1 /\ PrintT("CONSUMED " \o ToString(Len(Recs)))
=============================================================================
