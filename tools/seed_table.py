#!/usr/bin/env python3
"""Regenerates DESIGN.md section 11.4 (seeded-change matrix) from seeded/*/meta.json."""
import json, glob, os, re
V = os.path.dirname(os.path.dirname(os.path.abspath(__file__)))
rows = []
for f in sorted(glob.glob(os.path.join(V, 'seeded', '*', 'meta.json'))):
    m = json.load(open(f))
    d = os.path.dirname(f)
    what = ''
    rd = os.path.join(d, 'README.txt')
    if os.path.exists(rd):
        txt = open(rd).read()
        what = ' '.join(re.sub(r'[=\-]{4,}', ' ', txt).split())[:170]
    cls = ''
    for l in m.get('check_output_tail', []):
        mm = re.search(r'class=(\{.*\})', l)
        if mm:
            cls = mm.group(1)[:110]
    note = m.get('note', '')
    rows.append('| %s | %s | %s | %s | %s |' % (m['name'], m['property'], 'yes' if m.get('detected_by_check') else '**no**',
                                              cls.replace('|', '\\|'), (note + ' ' + what).strip().replace('|', '\\|')))
table = ('### 11.4 Seeded changes (independent agents, property text + scratch worktree only) and what catches them\n\n'
         'Each change keeps the 278 pinned tests green and comes with a demonstration that fails with it and passes without\n'
         '(`seeded/<id>/{patch.diff,demo.py,README.txt,meta.json}`; re-run with the `check_cmd` in meta.json).\n\n'
         '| seed | property | detected by quick check | violation class reported | change (from its README) |\n|---|---|---|---|---|\n'
         + '\n'.join(rows) + '\n')
p = os.path.join(V, 'DESIGN.md')
s = open(p).read()
i = s.find('### 11.4 Seeded changes')
if i >= 0:
    j = s.find('\n### ', i + 10)
    s = s[:i] + table + (s[j + 1:] if j >= 0 else '')
else:
    s = s.rstrip('\n') + '\n\n' + table
open(p, 'w').write(s)
print('%d seeds' % len(rows))
