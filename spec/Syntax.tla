------------------------------- MODULE Syntax -------------------------------
(* Intel / AT&T presentation of IA-32 assembly lines (DESIGN 3.6).           *)
(*                                                                           *)
(* An assembly line is (abstract instruction, presentation record).          *)
(*   Layout(ins, pres)  : the structured line (mnemonic text, operand texts  *)
(*                        as ordered terms, sigils, number spellings, style) *)
(*   Denote(line)       : the abstract instruction a structured line means   *)
(* vf/asm_text.py only flattens a structured line to characters and          *)
(* tokenises characters back into a structured line; which spellings exist   *)
(* and what they mean is defined here.                                       *)
(*                                                                           *)
(* abstract operand (Appendix A, plus `sym` and the sign of an immediate):   *)
(*   [k|->"reg", c, n]                                                       *)
(*   [k|->"mem", sz, seg, b, i, sc, d (4 limbs), aw, sym]                    *)
(*   [k|->"imm", v (4 limbs, value mod 2^32), neg (value < 0), sym]          *)
(* structured operand:                                                       *)
(*   [k|->"reg", name, pct, star]                                            *)
(*   [k|->"imm", dollar, off, sym, hasnum, num]                              *)
(*   [k|->"mem", kw, seg, out, terms]         Intel: kw seg:out[terms]       *)
(*   [k|->"amem", seg, star, sym, hasd, d, base, index, sc]   AT&T           *)
(*   Num  = [neg, mag (4 limbs), nb]     Term = [t, neg, r, sc, num, s]      *)
EXTENDS BV, FiniteSets

Z4 == <<0,0,0,0>>
\* ---------------------------------------------------------------- registers
R8   == <<"al","cl","dl","bl","ah","ch","dh","bh">>
R16  == <<"ax","cx","dx","bx","sp","bp","si","di">>
R32  == <<"eax","ecx","edx","ebx","esp","ebp","esi","edi">>
SREG == <<"es","cs","ss","ds","fs","gs">>
Numbered(p, q) == [n \in 1..8 |-> p \o ToString(n-1) \o q]
RegTab == [r8 |-> R8, r16 |-> R16, r32 |-> R32, sreg |-> SREG, cr |-> Numbered("cr",""), dr |-> Numbered("dr",""),
           mm |-> Numbered("mm",""), xmm |-> Numbered("xmm",""), st |-> Numbered("st(",")")]
RegClasses == {"r8","r16","r32","sreg","cr","dr","mm","xmm","st"}
RegName(c, n) == RegTab[c][n+1]
AllRegNames == UNION {{RegTab[c][j] : j \in 1..Len(RegTab[c])} : c \in RegClasses}
NoReg == [k |-> "bad", why |-> "register"]
RegMap == TLCEval([nm \in AllRegNames \cup {"st"} |->
             IF nm = "st" THEN [k |-> "reg", c |-> "st", n |-> 0]
             ELSE LET h == CHOOSE h \in {<<c, j>> \in RegClasses \X (1..8) : j <= Len(RegTab[c]) /\ RegTab[c][j] = nm} : TRUE
                  IN [k |-> "reg", c |-> h[1], n |-> h[2] - 1]])
RegOf(nm) == IF nm \in DOMAIN RegMap THEN RegMap[nm] ELSE NoReg
GprSize(c) == CASE c = "r8" -> 8 [] c = "r16" -> 16 [] c = "r32" -> 32 [] OTHER -> 0
\* ---------------------------------------------------------------- size keywords
KwTab == [byte |-> 8, word |-> 16, dword |-> 32, fword |-> 48, qword |-> 64, tbyte |-> 80, xmmword |-> 128]
KwOf(sz) == CASE sz = 8 -> "byte" [] sz = 16 -> "word" [] sz = 32 -> "dword" [] sz = 64 -> "qword"
              [] sz = 80 -> "tbyte" [] sz = 128 -> "xmmword" [] sz = 48 -> "fword" [] OTHER -> ""
SzOf(kw) == IF kw \in DOMAIN KwTab THEN KwTab[kw] ELSE 0
\* ---------------------------------------------------------------- numbers
NumVal(nu) == IF nu.neg THEN Neg(nu.mag, 32) ELSE Norm(nu.mag, 32)       \* value mod 2^32
Low(v, w) == Norm(Norm(v, w), 32)                                         \* low w bits, zero-extended
FitsW(v, neg, w) == IF w >= 32 THEN TRUE
                    ELSE IF neg THEN SExt(Norm(v, w), w, 32) = v ELSE Low(v, w) = v
MkNum(neg, mag, nb) == [neg |-> neg, mag |-> mag, nb |-> nb]
\* the spelling of a value: signed view (canonical) or the other representative modulo 2^w
CanonNum(v, neg, nb) == IF neg THEN MkNum(TRUE, Neg(v, 32), nb) ELSE MkNum(FALSE, v, nb)
HasAlt(v, neg, w) == /\ w \in {8, 16, 32} /\ FitsW(v, neg, w)
                     /\ (neg \/ Msb(v, w) = 1)
AltNum(v, neg, w, nb) == IF neg THEN MkNum(FALSE, Low(v, w), nb)                      \* x + 2^w
                         ELSE MkNum(TRUE, Norm(Neg(Norm(v, w), w), 32), nb)           \* x - 2^w
\* ---------------------------------------------------------------- mnemonic vocabulary (spec side)
Alu2    == {"add","or","adc","sbb","and","sub","xor","cmp","mov","test"}
Shifts  == {"shl","shr","sar","sal","rol","ror","rcl","rcr"}
Unary   == {"inc","dec","neg","not","mul","div","idiv","imul","push","pop"}
BitOps  == {"bt","bts","btr","btc","bsf","bsr","shld","shrd","xadd","cmpxchg","xchg","lea"}
PtrClass == Alu2 \cup Shifts \cup Unary \cup BitOps
MovX    == {"movzx","movsx"}
MovXStem == [movzx |-> "movz", movsx |-> "movs"]
\* every SDM name of the sixteen conditions (jcc / setcc / cmovcc take all of them)
CcAll   == {"o","no","b","c","nae","ae","nb","nc","e","z","ne","nz","be","na","a","nbe","s","ns","p","pe","np","po",
            "l","nge","ge","nl","le","ng","g","nle"}
Jcc     == {"j" \o c : c \in CcAll} \cup {"jecxz","loop"}
SetCc   == {"set" \o c : c \in CcAll}
FltMem  == {"fld","fst","fstp","fadd","fsub","fmul","fdiv","fsubr","fdivr","fcom","fcomp"}
IFltMem == {"fild","fist","fistp","fiadd","fisub","fimul","fidiv","fisubr","fidivr","ficom","ficomp"}
FSubDiv == {"fsub","fsubr","fdiv","fdivr","fsubp","fsubrp","fdivp","fdivrp"}
FRev(m) == CASE m = "fsub" -> "fsubr" [] m = "fsubr" -> "fsub" [] m = "fdiv" -> "fdivr" [] m = "fdivr" -> "fdiv"
             [] m = "fsubp" -> "fsubrp" [] m = "fsubrp" -> "fsubp" [] m = "fdivp" -> "fdivrp" [] m = "fdivrp" -> "fdivp"
             [] OTHER -> m
Renamed == [movsd |-> "movsl", cmpsd |-> "cmpsl", stosd |-> "stosl", lodsd |-> "lodsl", scasd |-> "scasl",
            pushfd |-> "pushfl", popfd |-> "popfl", pushad |-> "pushal", popad |-> "popal",
            cbw |-> "cbtw", cwde |-> "cwtl", cwd |-> "cwtd", cdq |-> "cltd",
            jmpf |-> "ljmp", callf |-> "lcall", retf |-> "lret", iretd |-> "iret"]
NoReverse == {"enter","jmpf","callf"}       \* AT&T keeps the Intel operand order here
Branches == {"jmp","call","jmpf","callf"}
ImmFollowsOperand == Alu2 \cup {"push","imul"}     \* immediate has the width of the operation
CMov    == {"cmov" \o c : c \in CcAll}
ImpliedSize == ((Alu2 \cup Shifts \cup Unary \cup BitOps) \ {"lea","push","pop"}) \cup CMov   \* memory size = register size
\* memory size fixed by the mnemonic, or by the class of the SIMD register next to it
FixedMemTab == [movq |-> 64, fldcw |-> 16, fnstcw |-> 16, fnstsw |-> 16, movd |-> 32, movss |-> 32, addss |-> 32, ucomiss |-> 32, cvtsi2sd |-> 32,
             sete |-> 8, setne |-> 8, setb |-> 8, setg |-> 8, pinsrw |-> 16, jmp |-> 32, call |-> 32,
             movaps |-> 128, movups |-> 128, addps |-> 128, mulps |-> 128, xorps |-> 128, andps |-> 128, sqrtps |-> 128,
             movdqa |-> 128, movdqu |-> 128, pshufd |-> 128, shufps |-> 128]
FixedMem == [m \in DOMAIN FixedMemTab \cup SetCc |-> IF m \in SetCc THEN 8 ELSE FixedMemTab[m]]
Packed == {"paddb","paddd","paddq","pxor","pand","por","psubb","pcmpeqb"}      \* (punpckl* mm reads 32 bits: not implied here)
\* ---------------------------------------------------------------- sizes
RegSizes(ops) == {GprSize(ops[j].c) : j \in {j \in 1..Len(ops) : ops[j].k = "reg"}} \ {0}
MemSizes(ops) == {ops[j].sz : j \in {j \in 1..Len(ops) : ops[j].k = "mem"}} \ {0}
FirstOf(ops, P(_)) == LET js == {j \in 1..Len(ops) : P(ops[j])} IN
                      IF js = {} THEN 0 ELSE CHOOSE j \in js : \A q \in js : j <= q
IsGpr(o) == o.k = "reg" /\ GprSize(o.c) # 0
IsMemSized(o) == o.k = "mem" /\ o.sz # 0
\* width of the operation: first general register, else first sized memory operand, else 32 for push
OpWidth(mn, ops) ==
   LET jr == FirstOf(ops, IsGpr)  jm == FirstOf(ops, IsMemSized) IN
   IF mn \in Shifts THEN (IF Len(ops) = 0 THEN 0 ELSE IF IsGpr(ops[1]) THEN GprSize(ops[1].c)
                           ELSE IF IsMemSized(ops[1]) THEN ops[1].sz ELSE 0)
   ELSE IF jr # 0 THEN GprSize(ops[jr].c)
   ELSE IF jm # 0 THEN ops[jm].sz
   ELSE IF mn = "push" THEN 32 ELSE 0
ImmWidth(mn, ops) == IF mn \in ImmFollowsOperand THEN OpWidth(mn, ops) ELSE 0
\* ---------------------------------------------------------------- presentation record
Pres0 == [syn |-> "intel", rc |-> "lower", kc |-> "upper", sp |-> "canon", nb |-> "dec", isg |-> FALSE, dsg |-> FALSE,
          ord |-> "bid", dout |-> FALSE, pct |-> FALSE, st0 |-> "paren", dsp |-> "one", dz |-> FALSE]
PresAtt0 == [Pres0 EXCEPT !.syn = "att", !.pct = TRUE]
Style(p) == [rc |-> p.rc, kc |-> p.kc, sp |-> p.sp]
\* ---------------------------------------------------------------- layout: terms of a memory operand
RegTerm(nm, sc) == [t |-> "reg", neg |-> FALSE, r |-> nm, sc |-> sc, num |-> MkNum(FALSE, Z4, "dec"), s |-> ""]
NumTerm(nu) == [t |-> "num", neg |-> nu.neg, r |-> "", sc |-> 0, num |-> [nu EXCEPT !.neg = FALSE], s |-> ""]
SymTerm(s) == [t |-> "sym", neg |-> FALSE, r |-> "", sc |-> 0, num |-> MkNum(FALSE, Z4, "dec"), s |-> s]
DispNum(o, p) == LET neg == Msb(o.d, 32) = 1 IN
                 IF p.dsg /\ neg THEN MkNum(FALSE, o.d, p.nb) ELSE CanonNum(o.d, neg, p.nb)
NeedDisp(o) == ~IsZero(o.d) \/ (o.b = -1 /\ o.i = -1 /\ o.sym = "")
\* presentation dimension dz: a zero displacement next to a register is written explicitly ([eax+0], 0[eax], 0(%eax))
NeedDispP(o, p) == NeedDisp(o) \/ (p.dz /\ o.sym = "" /\ (o.b # -1 \/ o.i # -1))
MemB(o) == IF o.b # -1 THEN <<RegTerm(R32[o.b + 1], 0)>> ELSE <<>>
MemI(o) == IF o.i # -1 THEN <<RegTerm(R32[o.i + 1], IF o.sc = 1 /\ o.b # -1 THEN 0 ELSE o.sc)>> ELSE <<>>
MemS(o) == IF o.sym # "" THEN <<SymTerm(o.sym)>> ELSE <<>>
\* the displacement as one number, or as constant arithmetic:  d  =  (d+4) - 4  ("pm")  =  -4 + (d+4)  ("mp")
MemD(o, p) == IF ~NeedDispP(o, p) THEN <<>>
              ELSE IF p.dsp = "one" THEN <<NumTerm(DispNum(o, p))>>
              ELSE LET hi == Add(o.d, FromNat(4, 32), 32)
                       a == NumTerm(CanonNum(hi, Msb(hi, 32) = 1, p.nb))
                       b == NumTerm(MkNum(TRUE, FromNat(4, 32), p.nb))
                   IN IF p.dsp = "pm" THEN <<a, b>> ELSE <<b, a>>
\* index-first is a pure re-ordering only when the index carries an explicit scale
RolesFixed(o) == o.b # -1 /\ o.i # -1 /\ ~(o.sc = 1)
RegTerms(o, p) == IF p.ord = "ibd" /\ RolesFixed(o) THEN MemI(o) \o MemB(o) ELSE MemB(o) \o MemI(o)
IntelMem(o, p) ==
   LET regs == RegTerms(o, p)
       outside == p.dout /\ regs # <<>> /\ (NeedDispP(o, p) \/ o.sym # "")
       inner == IF outside THEN regs
                ELSE IF p.ord = "dbi" THEN MemS(o) \o MemD(o, p) \o regs
                ELSE IF p.ord = "bdi" /\ Len(regs) = 2 THEN <<regs[1]>> \o MemS(o) \o MemD(o, p) \o <<regs[2]>>
                ELSE regs \o MemS(o) \o MemD(o, p)
   IN [k |-> "mem", kw |-> KwOf(o.sz), seg |-> o.seg,
       out |-> IF outside THEN MemD(o, p) \o MemS(o) ELSE <<>>, terms |-> inner]
AttMem(o, p, star) ==
   [k |-> "amem", seg |-> o.seg, star |-> star, sym |-> o.sym, hasd |-> NeedDispP(o, p),
    d |-> IF NeedDispP(o, p) THEN DispNum(o, p) ELSE MkNum(FALSE, Z4, "dec"),
    base |-> IF o.b # -1 THEN R32[o.b + 1] ELSE "", index |-> IF o.i # -1 THEN R32[o.i + 1] ELSE "",
    sc |-> IF o.i = -1 THEN 0 ELSE IF o.sc = 1 /\ o.b # -1 THEN 0 ELSE o.sc]
\* ---------------------------------------------------------------- layout: operands
RegText(o, p) == IF o.c = "st" /\ o.n = 0 /\ p.st0 = "bare" THEN "st" ELSE RegName(o.c, o.n)
ImmNum(o, w, p) == IF p.isg /\ HasAlt(o.v, o.neg, w) THEN AltNum(o.v, o.neg, w, p.nb) ELSE CanonNum(o.v, o.neg, p.nb)
LayOp(o, mn, ops, p, branch) ==
   IF o.k = "reg" THEN [k |-> "reg", name |-> RegText(o, p), pct |-> p.pct, star |-> (p.syn = "att" /\ branch)]
   ELSE IF o.k = "imm" THEN
        [k |-> "imm", dollar |-> (p.syn = "att" /\ ~branch), off |-> (p.syn = "intel" /\ o.sym # "" /\ ~branch), sym |-> o.sym,
         hasnum |-> (o.sym = "" \/ ~IsZero(o.v)), num |-> ImmNum(o, ImmWidth(mn, ops), p)]
   ELSE IF p.syn = "att" THEN AttMem(o, p, branch) ELSE IntelMem(o, p)
\* ---------------------------------------------------------------- AT&T mnemonic spelling
Sfx(sz) == CASE sz = 8 -> "b" [] sz = 16 -> "w" [] sz = 32 -> "l" [] OTHER -> ""
FSfx(sz) == CASE sz = 32 -> "s" [] sz = 64 -> "l" [] sz = 80 -> "t" [] OTHER -> ""
ISfx(sz) == CASE sz = 16 -> "s" [] sz = 32 -> "l" [] sz = 64 -> "ll" [] OTHER -> ""
HasMem(ops) == \E j \in 1..Len(ops) : ops[j].k = "mem"
MemSz(ops) == LET j == FirstOf(ops, LAMBDA o : o.k = "mem") IN IF j = 0 THEN 0 ELSE ops[j].sz
\* the historical AT&T reversal (confirmed against GNU as 2.40): non-commutative x87 register arithmetic whose
\* destination is st(i), i # 0, and every popping form (fsubp <-> fsubrp, fdivp <-> fdivrp)
FPop == {"fsubp","fsubrp","fdivp","fdivrp"}
AllSt(ops) == \A j \in 1..Len(ops) : ops[j].k = "reg" /\ ops[j].c = "st"
FReversed(mn, ops) == /\ mn \in FSubDiv /\ AllSt(ops)
                      /\ (mn \in FPop \/ (Len(ops) = 2 /\ ops[1].n # 0))
AttName(mn, ops) ==
   IF mn \in PtrClass THEN mn \o Sfx(OpWidth(mn, ops))
   ELSE IF mn \in MovX THEN
        (IF Len(ops) = 2 /\ IsGpr(ops[1]) /\ (IsGpr(ops[2]) \/ (ops[2].k = "mem" /\ ops[2].sz \in {8, 16, 32}))
         THEN MovXStem[mn] \o Sfx(IF ops[2].k = "reg" THEN GprSize(ops[2].c) ELSE ops[2].sz) \o Sfx(GprSize(ops[1].c))
         ELSE mn)
   ELSE IF mn \in FltMem /\ HasMem(ops) THEN mn \o FSfx(MemSz(ops))
   ELSE IF mn \in IFltMem /\ HasMem(ops) THEN mn \o ISfx(MemSz(ops))
   ELSE IF FReversed(mn, ops) THEN FRev(mn)
   ELSE IF mn \in DOMAIN Renamed /\ (mn \notin {"movsd","cmpsd"} \/ ops = <<>>) THEN Renamed[mn]
   ELSE mn
Rev(s) == [j \in 1..Len(s) |-> s[Len(s) + 1 - j]]
\* ---------------------------------------------------------------- Layout
Layout(ins, p) ==
   LET br == ins.mn \in Branches \cup Jcc
       lops == [j \in 1..Len(ins.ops) |-> LayOp(ins.ops[j], ins.mn, ins.ops, p, br)]
   IN IF p.syn = "att"
      THEN [syn |-> "att", mn |-> AttName(ins.mn, ins.ops),
            ops |-> IF ins.mn \in NoReverse THEN lops ELSE Rev(lops), st |-> Style(p)]
      ELSE [syn |-> "intel", mn |-> ins.mn, ops |-> lops, st |-> Style(p)]
\* ---------------------------------------------------------------- Denote: structured line -> abstract instruction
Bad(w) == [k |-> "bad", why |-> w]
SumNums(ts) == LET RECURSIVE go(_) go(j) == IF j > Len(ts) THEN Z4
                      ELSE IF ts[j].t # "num" THEN go(j+1)
                      ELSE Add(IF ts[j].neg THEN Neg(NumVal(ts[j].num), 32) ELSE NumVal(ts[j].num), go(j+1), 32)
               IN go(1)
GprIndex(nm) == LET r == RegOf(nm) IN IF r.k = "reg" /\ r.c = "r32" THEN r.n ELSE -2
DenIntelMem(o) ==
   LET all == o.out \o o.terms
       regs == SelectSeq(all, LAMBDA t : t.t = "reg")
       plain == SelectSeq(regs, LAMBDA t : t.sc = 0)
       scaled == SelectSeq(regs, LAMBDA t : t.sc # 0)
       syms == SelectSeq(all, LAMBDA t : t.t = "sym")
       idx == IF scaled # <<>> THEN scaled[1] ELSE IF Len(plain) = 2 THEN plain[2] ELSE RegTerm("", 0)
       outregs == SelectSeq(o.out, LAMBDA t : t.t = "reg")
   IN IF Len(scaled) > 1 \/ Len(plain) > 2 \/ Len(regs) > 2 \/ Len(syms) > 1 \/ outregs # <<>> THEN Bad("memory terms")
      ELSE IF \E j \in 1..Len(all) : all[j].neg /\ all[j].t # "num" THEN Bad("negated register or symbol")
      ELSE IF \E j \in 1..Len(regs) : GprIndex(regs[j].r) = -2 THEN Bad("address register")
      ELSE IF idx.sc \notin {0,1,2,4,8} THEN Bad("scale")
      ELSE IF o.seg # "" /\ RegOf(o.seg).k = "bad" THEN Bad("segment")
      ELSE [k |-> "mem", sz |-> SzOf(o.kw), seg |-> o.seg,
            b |-> IF plain # <<>> THEN GprIndex(plain[1].r) ELSE -1,
            i |-> IF idx.r = "" THEN -1 ELSE GprIndex(idx.r),
            sc |-> IF idx.r = "" \/ idx.sc = 0 THEN 1 ELSE idx.sc,
            d |-> SumNums(all), aw |-> 32, sym |-> IF syms = <<>> THEN "" ELSE syms[1].s]
DenAttMem(o) ==
   IF (o.base # "" /\ GprIndex(o.base) = -2) \/ (o.index # "" /\ GprIndex(o.index) = -2) THEN Bad("address register")
   ELSE IF o.sc \notin {0,1,2,4,8} \/ (o.index = "" /\ o.sc # 0) THEN Bad("scale")
   ELSE [k |-> "mem", sz |-> 0, seg |-> o.seg, b |-> IF o.base = "" THEN -1 ELSE GprIndex(o.base),
         i |-> IF o.index = "" THEN -1 ELSE GprIndex(o.index), sc |-> IF o.sc = 0 THEN 1 ELSE o.sc,
         d |-> IF o.hasd THEN NumVal(o.d) ELSE Z4, aw |-> 32, sym |-> o.sym]
DenOp(o) == IF o.k = "reg" THEN RegOf(o.name)
            ELSE IF o.k = "imm" THEN [k |-> "imm", v |-> IF o.hasnum THEN NumVal(o.num) ELSE Z4,
                                      neg |-> o.hasnum /\ o.num.neg /\ ~IsZero(o.num.mag), sym |-> o.sym]
            ELSE IF o.k = "mem" THEN DenIntelMem(o)
            ELSE IF o.k = "amem" THEN DenAttMem(o)
            ELSE Bad("operand")
\* immediates are values modulo the width of the operation (when they fit it)
NormImm(o, w) == IF o.k = "imm" /\ w \in {8, 16, 32} /\ FitsW(o.v, o.neg, w) THEN [o EXCEPT !.v = Low(o.v, w), !.neg = FALSE] ELSE o
\* a memory operand without size keyword next to a general register has that register's size
SimdSizes(ops) == {IF ops[j].c = "mm" THEN 64 ELSE 128 : j \in {j \in 1..Len(ops) : ops[j].k = "reg" /\ ops[j].c \in {"mm", "xmm"}}}
NormMem(o, j, mn, ops) ==
   IF o.k # "mem" \/ o.sz # 0 THEN o
   ELSE IF mn \in ImpliedSize /\ Cardinality(RegSizes(ops)) = 1 /\ ~(mn \in Shifts /\ j = 1)
        THEN [o EXCEPT !.sz = CHOOSE s \in RegSizes(ops) : TRUE]
   ELSE IF mn \in DOMAIN FixedMem THEN [o EXCEPT !.sz = FixedMem[mn]]
   ELSE IF mn \in Packed /\ Cardinality(SimdSizes(ops)) = 1 THEN [o EXCEPT !.sz = CHOOSE s \in SimdSizes(ops) : TRUE]
   ELSE o
NormIns(mn, ops) == LET o1 == [j \in 1..Len(ops) |-> NormMem(ops[j], j, mn, ops)]
                        w == ImmWidth(mn, o1)
                    IN [mn |-> mn, ops |-> [j \in 1..Len(o1) |-> NormImm(o1[j], w)]]
\* AT&T mnemonic text -> (mnemonic, operand size, source size for movx, reversed x87)
AttSizes == {0, 8, 16, 32, 64, 80}
AttSpell == TLCEval(
   {<<m \o Sfx(s), m, s, 0>> : m \in PtrClass, s \in {0, 8, 16, 32}}
   \cup {<<MovXStem[m] \o Sfx(s2) \o Sfx(s), m, s, s2>> : m \in MovX, s \in {8, 16, 32}, s2 \in {8, 16, 32}}
   \cup {<<m \o FSfx(s), m, s, 0>> : m \in FltMem, s \in {32, 64, 80}}
   \cup {<<m \o ISfx(s), m, s, 0>> : m \in IFltMem, s \in {16, 32, 64}}
   \cup {<<Renamed[m], m, 0, 0>> : m \in DOMAIN Renamed})
AttNames == {x[1] : x \in AttSpell}
AttLookup == TLCEval([t \in AttNames |-> CHOOSE x \in AttSpell : x[1] = t])
SetSz(o, s) == IF o.k = "mem" /\ s # 0 THEN [o EXCEPT !.sz = s] ELSE o
DenoteAtt(line) ==
   LET \* in AT&T a bare operand of a branch is the branch target, not a memory reference
       Target(o) == line.mn \in Branches \cup Jcc \cup {"ljmp", "lcall"} /\ o.k = "amem" /\ o.base = "" /\ o.index = "" /\ ~o.star /\ o.seg = ""
       raw == [j \in 1..Len(line.ops) |->
                  IF Target(line.ops[j])
                  THEN LET o == line.ops[j] IN [k |-> "imm", v |-> IF o.hasd THEN NumVal(o.d) ELSE Z4,
                                                neg |-> o.hasd /\ o.d.neg /\ ~IsZero(o.d.mag), sym |-> o.sym]
                  ELSE DenOp(line.ops[j])]
       hit == IF line.mn \in AttNames THEN AttLookup[line.mn] ELSE <<line.mn, line.mn, 0, 0>>
       m0 == hit[2]
       m1 == m0
       ops0 == IF m1 \in NoReverse THEN raw ELSE Rev(raw)
       ops1 == IF m1 \in MovX /\ Len(ops0) = 2 THEN <<ops0[1], SetSz(ops0[2], hit[4])>>
               ELSE [j \in 1..Len(ops0) |-> SetSz(ops0[j], hit[3])]
       m2 == IF FReversed(FRev(m1), ops1) THEN FRev(m1) ELSE m1
   IN NormIns(m2, ops1)
Denote(line) == IF line.syn = "att" THEN DenoteAtt(line)
                ELSE NormIns(line.mn, [j \in 1..Len(line.ops) |-> DenOp(line.ops[j])])
Denoted(ins) == NormIns(ins.mn, ins.ops)         \* what the canonical line (mn, ops) means
\* AT&T shows the access size only through a mnemonic suffix: "not shown" (sz = 0) matches any size (DESIGN 3.5.3)
SameOpnd(a, b) == a = b \/ (a.k = "mem" /\ b.k = "mem" /\ (a.sz = 0 \/ b.sz = 0) /\ [a EXCEPT !.sz = 0] = [b EXCEPT !.sz = 0])
SameDen(x, y) == x.mn = y.mn /\ Len(x.ops) = Len(y.ops) /\ \A j \in 1..Len(x.ops) : SameOpnd(x.ops[j], y.ops[j])
\* a line has an AT&T transliteration when the AT&T spelling carries (or the mnemonic implies) its operand sizes
AttOK(ins) == Denote(Layout(ins, PresAtt0)) = Denoted(ins)
WellFormed(d) == \A j \in 1..Len(d.ops) : d.ops[j].k # "bad"
=============================================================================
