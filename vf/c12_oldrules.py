"""Builder of the cache configuration "oldrules" for C12: runs in a process of its own with TMPDIR = the cache directory and
lets the PLY of the repository under test write the table files of an OLDER REVISION of both operand grammars (same tokens
and precedences, one rule fewer each), with the signature that PLY itself computes for that grammar.
usage: python c12_oldrules.py <repo>"""
import sys, os, types
repo = sys.argv[1]
sys.path.insert(0, repo)
EDITS = [('miasmx.core.parse_ad', 'miasmx/core/parse_ad.py',
          "'''expression : expression PLUS expression\n                  | expression MINUS expression", "'''expression : expression MINUS expression"),
         ('miasmx.arch.ia32_att', 'miasmx/arch/ia32_att.py', 'def p_address_3(t):', 'def q_address_3(t):')]
import miasmx.core, miasmx.arch
for name, rel, old, new in EDITS:
    path = os.path.join(repo, rel)
    src = open(path).read()
    assert src.count(old) == 1, (name, src.count(old))
    mod = types.ModuleType(name)
    mod.__file__ = path
    mod.__package__ = name.rsplit('.', 1)[0]
    sys.modules[name] = mod
    exec(compile(src.replace(old, new), path, 'exec'), mod.__dict__)
print('ok')
