------------------------------- MODULE IRGen -------------------------------
(* Generator of well-typed IR trees: a typed stack machine whose reachable   *)
(* one-element stacks are exactly the well-typed trees over the alphabet     *)
(* with at most MaxNodes nodes (postfix construction is unique, so every     *)
(* tree is reached once).                                                    *)
EXTENDS IR
CONSTANTS MaxNodes,      \* node bound
          Ws,            \* widths of value nodes, e.g. {8} or {1,8,16,32,64}
          IdsPer,        \* identifiers per width: 1..3
          BinOps,        \* binary operators to apply
          UnOps,         \* unary operators ("-", "parity", "!")
          Rich           \* TRUE: also slices, compositions, conditions, memory, ternary AC operators
VARIABLES stack, nodes
vars == <<stack, nodes>>

IdNames == <<"x", "y", "z">>
Top(w) == ShlN(FromNat(1, w), w - 1, w)
ConstsOf(w) == IF w = 1 THEN {Zero(1), FromNat(1, 1)}
               ELSE {Zero(w), FromNat(1, w), Ones(w), Top(w), Sub(Top(w), FromNat(1, w), w)}
                    \cup {FromNat(c, w) : c \in {7, 8, 9} \cup (IF w > 8 THEN {w - 1, w, w + 1} ELSE {})}
IntNode(w, v) == [k |-> "int", w |-> w, v |-> v]
IdNode(w, i) == [k |-> "id", w |-> w, n |-> IdNames[i] \o ToString(w)]
MemNode(w, a) == [k |-> "mem", w |-> w, a |-> <<a>>, g |-> <<>>]
OpNode(o, args) == [k |-> "op", w |-> args[1].w, o |-> o, u |-> 0, a |-> args]
SliceNode(x, lo, hi) == [k |-> "slice", w |-> hi - lo, lo |-> lo, hi |-> hi, a |-> <<x>>]
CondNode(c, t, f) == [k |-> "cond", w |-> t.w, a |-> <<c, t, f>>]
ComposeNode(lo, hi) == [k |-> "compose", w |-> lo.w + hi.w, a |-> <<lo, hi>>, s |-> <<<<0, lo.w>>, <<lo.w, lo.w + hi.w>>>>]

Init == stack = <<>> /\ nodes = 0
Push(e) == /\ nodes < MaxNodes /\ stack' = Append(stack, e) /\ nodes' = nodes + 1
Replace(k, e) == /\ nodes < MaxNodes
                 /\ stack' = Append(SubSeq(stack, 1, Len(stack) - k), e)
                 /\ nodes' = nodes + 1
S(i) == stack[Len(stack) - i]            \* S(0) = top of stack

PushInt == \E w \in Ws : \E v \in ConstsOf(w) : Push(IntNode(w, v))
PushId == \E w \in Ws : \E i \in 1..IdsPer : Push(IdNode(w, i))
ApplyUn == \E o \in UnOps : Len(stack) >= 1 /\ (o = "parity" => S(0).w >= 8) /\ Replace(1, OpNode(o, <<S(0)>>))
ApplyBin == \E o \in BinOps : /\ Len(stack) >= 2
                              /\ (IF o \in Shifts THEN S(0).w = S(1).w \/ S(0).w = 8 ELSE S(0).w = S(1).w)
                              /\ Replace(2, OpNode(o, <<S(1), S(0)>>))
ApplyTern == /\ Rich /\ Len(stack) >= 3 /\ S(0).w = S(1).w /\ S(1).w = S(2).w
             /\ \E o \in BinOps \cap ACOps : Replace(3, OpNode(o, <<S(2), S(1), S(0)>>))
ApplySlice == /\ Rich /\ Len(stack) >= 1
              /\ \E w \in Ws : /\ w < S(0).w
                               /\ \E lo \in {0, 1, S(0).w - w} : lo + w <= S(0).w /\ Replace(1, SliceNode(S(0), lo, lo + w))
ApplyCond == /\ Rich /\ Len(stack) >= 3 /\ S(0).w = S(1).w
             /\ Replace(3, CondNode(S(2), S(1), S(0)))
ApplyCompose == /\ Rich /\ Len(stack) >= 2 /\ S(0).w + S(1).w \in Ws
                /\ Replace(2, ComposeNode(S(1), S(0)))
ApplyMem == /\ Rich /\ Len(stack) >= 1 /\ S(0).w = 32
            /\ \E w \in Ws \ {1} : \E sg \in {<<>>, <<[k |-> "id", w |-> 16, n |-> "sg16"]>>} :
                  Replace(1, [MemNode(w, S(0)) EXCEPT !.g = sg])
\* a forest of n trees still needs n - 1 joining nodes
Feasible == nodes + (IF Rich THEN Len(stack) \div 2 ELSE Len(stack) - 1) <= MaxNodes
Next == (PushInt \/ PushId \/ ApplyUn \/ ApplyBin \/ ApplyTern \/ ApplySlice \/ ApplyCond \/ ApplyCompose \/ ApplyMem) /\ Feasible'
Spec == Init /\ [][Next]_vars
\* generator obligation: everything it builds is well typed and its recorded widths are right
GenOK == \A i \in 1..Len(stack) : WellTyped(stack[i]) /\ Width(stack[i]) = stack[i].w /\ NodeCount(stack[i]) <= MaxNodes
=============================================================================
