INIT Init
NEXT Next
INVARIANT AllOK
CHECK_DEADLOCK FALSE
