------------------------------- MODULE T_C15 -------------------------------
(* C->S judge for C15: structural laws of IR nodes.  Record (from one state   *)
(* of IRDeriveGen):                                                           *)
(*  [id, kind, e, envs,                                                       *)
(*   base: [eqself, eqfresh, hashfresh, copy (tree|none), copyeq, shared,     *)
(*          visit (tree|none), visiteq, canon (tree|none), exc (string),      *)
(*          eqterm, hashterm: == / equal hashes against the same expression   *)
(*          whose identifiers carry the other is_term flag],                  *)
(*   mut:  [f, g, ef, fe, fg, eg, hef, hfg]           (kind = "mut")          *)
(*   map:  [map, res (tree|none)]                     (kind = "map")]         *)
(* Booleans are 0/1.                                                          *)
EXTENDS IRDerive, Json, IOUtils
Recs == JsonDeserialize(IOEnv.TRACE)
IsNone(t) == t.k = "none"
\* value of a tree or of both sides of an assignment
Val(e, env) == IF e.k = "aff" THEN <<IF e.a[1].k = "mem" THEN Eval(e.a[1].a[1], env) ELSE <<>>, Eval(e.a[2], env)>> ELSE Eval(e, env)
SameValue(e, f, envs) == /\ e.k = "aff" <=> f.k = "aff"
                         /\ Width(e) = Width(f)
                         /\ \A j \in 1..Len(envs) : Val(e, envs[j]) = Val(f, envs[j])
SetId(env, n, v) == [env EXCEPT !.id = [x \in DOMAIN env.id \cup {n} |-> IF x = n THEN v ELSE env.id[x]]]
\* env extended with fresh identifiers bound to the value of their keys
RECURSIVE BindFresh(_,_,_)
BindFresh(env0, env, map) == IF map = <<>> THEN env
   ELSE BindFresh(env0, SetId(env, map[1][2].n, Eval(map[1][1], env0)), Tail(map))
Base(r) ==
   LET b == r.base IN
   IF b.exc # "" THEN <<[clause |-> "C15.exception", what |-> b.exc]>>
   ELSE IF b.eqself # 1 \/ b.eqfresh # 1 THEN <<[clause |-> "C15.eq.reflexive"]>>
   ELSE IF b.hashfresh # 1 \/ (b.eqterm = 1 /\ b.hashterm # 1) THEN <<[clause |-> "C15.eq.hash"]>>
   ELSE IF IsNone(b.copy) \/ b.copy # r.e \/ b.copyeq # 1 THEN <<[clause |-> "C15.copy.equal"]>>
   ELSE IF b.shared # 0 THEN <<[clause |-> "C15.copy.shared", n |-> b.shared]>>
   ELSE IF IsNone(b.visit) \/ b.visit # r.e \/ b.visiteq # 1 THEN <<[clause |-> "C15.visit.identity"]>>
   ELSE IF r.e.k = "aff" THEN <<>>
   ELSE IF IsNone(b.canon) THEN <<[clause |-> "C15.canon.exception"]>>
   ELSE IF ~WellTyped(b.canon) \/ Width(b.canon) # Width(r.e) THEN <<[clause |-> "C15.canon.welltyped"]>>
   ELSE IF \E j \in 1..Len(r.envs) : Eval(b.canon, r.envs[j]) # Eval(r.e, r.envs[j]) THEN <<[clause |-> "C15.canon.value"]>>
   ELSE <<>>
Mut(r) ==
   LET m == r.mut IN
   IF m.ef # m.fe THEN <<[clause |-> "C15.eq.symmetric"]>>
   ELSE IF (m.ef = 1 /\ m.hef # 1) \/ (m.fg = 1 /\ m.hfg # 1) THEN <<[clause |-> "C15.eq.hash"]>>
   ELSE IF m.ef = 1 /\ m.fg = 1 /\ m.eg # 1 THEN <<[clause |-> "C15.eq.transitive"]>>
   ELSE IF m.ef = 1 /\ ~SameValue(r.e, m.f, r.envs) THEN <<[clause |-> "C15.eq.value", f |-> m.f]>>
   ELSE IF m.fg = 1 /\ ~SameValue(m.f, m.g, r.envs) THEN <<[clause |-> "C15.eq.value", f |-> m.g]>>
   ELSE <<>>
Map(r) ==
   LET mp == r.map.map res == r.map.res IN
   IF IsNone(res) THEN <<[clause |-> "C15.replace.exception"]>>
   ELSE IF res # Subst(r.e, mp) /\ res # SubstBU(r.e, mp) THEN <<[clause |-> "C15.replace.structure", exp |-> Subst(r.e, mp)]>>
   ELSE IF r.e.k = "aff" \/ ~WellTyped(res) THEN <<>>
   ELSE IF mp[1][2].k = "id" /\ \A q \in 1..Len(mp) : SubAt(mp[q][2], <<>>).n \notin Ids(r.e)
        THEN (IF \E j \in 1..Len(r.envs) : Eval(res, BindFresh(r.envs[j], r.envs[j], mp)) # Eval(r.e, r.envs[j])
              THEN <<[clause |-> "C15.replace.value"]>> ELSE <<>>)
   ELSE IF Len(mp) = 1 /\ mp[1][1].k = "id" /\ Ids(mp[1][2]) \subseteq DOMAIN r.envs[1].id
        THEN (IF \E j \in 1..Len(r.envs) : Eval(res, r.envs[j]) # Eval(r.e, SetId(r.envs[j], mp[1][1].n, Eval(mp[1][2], r.envs[j])))
              THEN <<[clause |-> "C15.replace.value"]>> ELSE <<>>)
   ELSE <<>>
Verdict(r) ==
   IF ~WellTyped(r.e) THEN <<[clause |-> "input.illtyped"]>>
   ELSE LET b == Base(r) IN
        IF b # <<>> THEN b
        ELSE IF r.kind = "mut" THEN Mut(r)
        ELSE IF r.kind = "map" THEN Map(r)
        ELSE <<>>
VARIABLE i
Init == i = 0
Next == \/ /\ i < Len(Recs) /\ i' = i + 1
           /\ LET v == Verdict(Recs[i']) IN
              IF v = <<>> THEN TRUE ELSE PrintT("VERDICT " \o ToJson([id |-> Recs[i'].id, v |-> v]))
        \/ /\ i = Len(Recs) /\ i' = i + 1 /\ PrintT("CONSUMED " \o ToString(Len(Recs)))
=============================================================================
