CONSTANTS
 MaxStores = 3
 MaxLoads = 0
 Offs = {0,1,2,3,4,5,6,7}
 Ws = {8,16,32}
 Bases = {"c","s"}
 ValKinds = {"c"}
 LoadLast = FALSE
 AsCoded = FALSE
INIT PInit
NEXT PNext
INVARIANTS TypeOK ReplayOK NoOverlap FlattenOK LoadOK
CHECK_DEADLOCK FALSE
