"""Projection miasmX Expr <-> IR tree of spec/IR.tla (Appendix A of DESIGN.md).  Trusted, small, total."""
import zlib
from .core import limbs, unlimbs

INTERPRETED = set('''+ * ^ & | - == parity ! bsf bsr << >> a>> <<< >>>
 umul32_lo umul32_hi umul16_lo umul16_hi imul32_lo imul32_hi imul16_lo imul16_hi umul08 imul08
 div8 div16 div32 rem8 rem16 rem32 idiv8 idiv16 idiv32 irem8 irem16 irem32
 <<<c_rez <<<c_cf >>>c_rez >>>c_cf'''.split())


def optag(op):
    return zlib.crc32(op.encode()) % 65521


def size_of(e):
    try:
        s = e.get_size()
        return int(s) if isinstance(s, int) or (isinstance(s, float) and s == int(s)) else -1
    except Exception:
        return -1


def to_json(e, X=None):
    """X = miasmx.expression.expression module"""
    if X is None:
        from miasmx.expression import expression as X
    if isinstance(e, X.ExprInt):
        w = size_of(e)
        return {"k": "int", "w": w, "v": limbs(int(e.arg), w) if w > 0 else []}
    if isinstance(e, X.ExprId):
        return {"k": "id", "w": size_of(e), "n": str(e.name)}
    if isinstance(e, X.ExprMem):
        g = [] if e.segm is None else [to_json(e.segm, X)] if isinstance(e.segm, X.Expr) else [{"k": "id", "w": 16, "n": "seg_" + str(e.segm)}]
        return {"k": "mem", "w": size_of(e), "a": [to_json(e.arg, X)], "g": g}
    if isinstance(e, X.ExprOp):
        o = str(e.op)
        return {"k": "op", "w": size_of(e), "o": o, "u": 0 if o in INTERPRETED else optag(o), "a": [to_json(x, X) for x in e.args]}
    if isinstance(e, X.ExprCond):
        return {"k": "cond", "w": size_of(e), "a": [to_json(e.cond, X), to_json(e.src1, X), to_json(e.src2, X)]}
    if isinstance(e, X.ExprSlice):
        return {"k": "slice", "w": size_of(e), "lo": int(e.start), "hi": int(e.stop), "a": [to_json(e.arg, X)]}
    if isinstance(e, X.ExprCompose):
        return {"k": "compose", "w": size_of(e), "a": [to_json(x[0], X) for x in e.args],
                "s": [[int(x[1]), int(x[2])] for x in e.args]}
    if isinstance(e, X.ExprAff):
        return {"k": "aff", "w": size_of(e), "a": [to_json(e.dst, X), to_json(e.src, X)]}
    return {"k": "other", "w": -1, "n": type(e).__name__}


def from_json_shared(t, memo=None):
    """like from_json, but structurally identical sub-trees of t become ONE Python object (a DAG, as code that
    reuses sub-expression objects produces); still no sharing with module-level singletons.  Passing the same memo
    for several trees makes them share their common sub-objects."""
    import json as _j
    if memo is None:
        memo = {}

    def build(x):
        key = _j.dumps(x, sort_keys=True)
        if key not in memo:
            y = dict(x)
            if "a" in x:
                kids = [build(c) for c in x["a"]]
                memo[key] = _from_parts(x, kids, [build(c) for c in x.get("g", [])])
            else:
                memo[key] = from_json(x)
        return memo[key]
    return build(t)


def _from_parts(t, kids, segs):
    from miasmx.expression import expression as X
    k = t["k"]
    if k == "mem":
        return X.ExprMem(kids[0], t["w"], segs[0] if segs else None)
    if k == "op":
        return X.ExprOp(t["o"], *kids)
    if k == "cond":
        return X.ExprCond(*kids)
    if k == "slice":
        return X.ExprSlice(kids[0], t["lo"], t["hi"])
    if k == "compose":
        return X.ExprCompose([(c, s[0], s[1]) for c, s in zip(kids, t["s"])])
    if k == "aff":
        return X.ExprAff(kids[0], kids[1])
    raise ValueError(k)


def from_json(t, X=None, M=None):
    """builds FRESH objects (no sharing with module-level singletons)"""
    if X is None:
        from miasmx.expression import expression as X
    if M is None:
        from miasmx.tools import modint as M
    k = t["k"]
    if k == "int":
        return X.ExprInt(getattr(M, 'uint%d' % t["w"])(unlimbs(t["v"])))
    if k == "id":
        return X.ExprId(t["n"], t["w"])
    if k == "mem":
        g = from_json(t["g"][0], X, M) if t.get("g") else None
        return X.ExprMem(from_json(t["a"][0], X, M), t["w"], g)
    if k == "op":
        return X.ExprOp(t["o"], *[from_json(x, X, M) for x in t["a"]])
    if k == "cond":
        return X.ExprCond(*[from_json(x, X, M) for x in t["a"]])
    if k == "slice":
        return X.ExprSlice(from_json(t["a"][0], X, M), t["lo"], t["hi"])
    if k == "compose":
        return X.ExprCompose([(from_json(x, X, M), s[0], s[1]) for x, s in zip(t["a"], t["s"])])
    if k == "aff":
        return X.ExprAff(from_json(t["a"][0], X, M), from_json(t["a"][1], X, M))
    raise ValueError(k)


def ids_of(t, acc=None):
    """{name: width} of identifiers in a tree"""
    if acc is None:
        acc = {}
    if t["k"] == "id":
        acc[t["n"]] = max(acc.get(t["n"], 0), t["w"])
    for x in t.get("a", []):
        ids_of(x, acc)
    for x in t.get("g", []):
        ids_of(x, acc)
    return acc


def node_count(t):
    return 1 + sum(node_count(x) for x in t.get("a", [])) + sum(node_count(x) for x in t.get("g", []))


def show(t):
    """compact human-readable rendering for reports"""
    k = t["k"]
    if k == "int":
        return "0x%X:%d" % (unlimbs(t["v"]), t["w"])
    if k == "id":
        return t["n"]
    if k == "mem":
        return "@%d[%s]" % (t["w"], show(t["a"][0]))
    if k == "op":
        if len(t["a"]) == 1:
            return "(%s %s)" % (t["o"], show(t["a"][0]))
        return "(" + (" %s " % t["o"]).join(show(x) for x in t["a"]) + ")"
    if k == "cond":
        return "(%s ? %s : %s)" % tuple(show(x) for x in t["a"])
    if k == "slice":
        return "%s[%d:%d]" % (show(t["a"][0]), t["lo"], t["hi"])
    if k == "compose":
        return "{" + ", ".join("%s@%d:%d" % (show(x), s[0], s[1]) for x, s in zip(t["a"], t["s"])) + "}"
    if k == "aff":
        return "%s = %s" % (show(t["a"][0]), show(t["a"][1]))
    return "?" + k
