------------------------------ MODULE ByteSpace ------------------------------
(* Structured x86 byte strings for the lifting checks (C11): prefix x opcode   *)
(* map x opcode x ModRM class x SIB class, followed by a fixed tail.  It makes *)
(* no claim about what the bytes mean - the implementation's decoder decides   *)
(* which are instructions.                                                     *)
EXTENDS Naturals, Sequences
VARIABLES pfx, map, opc, modrm, sib, stage
vars == <<pfx, map, opc, modrm, sib, stage>>
Prefixes == {<<>>, <<102>>, <<103>>, <<243>>, <<242>>, <<102, 103>>}
Maps == {<<>>, <<15>>, <<15, 56>>, <<15, 58>>}
ModRMs == {0, 5, 4, 69, 68, 132, 133, 193, 216, 11, 19, 28, 35, 46, 49, 58, 233, 242, 251, 6, 70, 134}
SIBs == {36, 37, 101, 141}
Init == pfx \in Prefixes /\ map \in Maps /\ opc = 0 /\ modrm = 0 /\ sib = 0 /\ stage = 0
PickOp == stage = 0 /\ stage' = 1 /\ opc' \in 0..255 /\ UNCHANGED <<pfx, map, modrm, sib>>
PickModRM == stage = 1 /\ stage' = 2 /\ modrm' \in ModRMs /\ UNCHANGED <<pfx, map, opc>>
             /\ sib' \in (IF modrm' \div 64 # 3 /\ modrm' % 8 = 4 THEN SIBs ELSE {0})
Next == PickOp \/ PickModRM
Junk == <<17, 34, 51, 68, 85, 102, 119, 136>>
Bytes == pfx \o map \o <<opc, modrm>> \o (IF modrm \div 64 # 3 /\ modrm % 8 = 4 THEN <<sib>> ELSE <<>>) \o Junk
TypeOK == stage \in 0..2
=============================================================================
