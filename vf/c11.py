"""C11 - every decodable instruction lifts to well-typed IR.
S->C: ByteSpace.tla (TLC) enumerates structured byte strings (prefix x opcode map x opcode x ModRM/SIB class); miasmX
decodes and lifts; C->S: T_C11.tla applies the typing rules of IR.tla to every lifted assignment list."""
import json, random, os, hashlib
from . import core, irlib, expr_json as EJ

JUNK = [17, 34, 51, 68, 85, 102, 119, 136]


def gen_bytes(chk):
    h = hashlib.sha1(open(os.path.join(core.SPEC, 'ByteSpace.tla'), 'rb').read()).hexdigest()[:16]
    cf = os.path.join(core.VERIF, '.cache', 'bytespace_%s.json' % h)
    os.makedirs(os.path.dirname(cf), exist_ok=True)
    if os.path.exists(cf):
        d = json.load(open(cf))
    else:
        dump = os.path.join(core.scratch(), 'bytes.dump')
        r = core.run_tlc('ByteSpace', cfg_text='INIT Init\nNEXT Next\nINVARIANT TypeOK\nCHECK_DEADLOCK FALSE\n', extra=['-dump', dump], timeout=900)
        if not r.ok:
            raise core.MachineryError('ByteSpace failed:\n' + r.out[-2000:])
        out = []
        for s in core.read_dump(dump):
            if s['stage'] != 2:
                continue
            m = s['modrm']
            b = s['pfx'] + s['map'] + [s['opc'], m] + ([s['sib']] if (m >> 6) != 3 and (m & 7) == 4 else []) + JUNK
            out.append(b)
        os.unlink(dump)
        d = {'bytes': out, 'n': r.distinct, 't': r.generated}
        json.dump(d, open(cf, 'w'))
    chk.add_tlc({'states': d['n'], 'transitions': d['t']})
    return d['bytes']


def _lift_chunk(cases):
    """a block of strings is decoded first and lifted afterwards (as a disassembler front end does): what is lifted is the
    instruction object as it is after the other strings of the block have been decoded"""
    from miasmx.arch.ia32_arch import x86mnemo
    dec = []
    for c in cases:
        st, ins = irlib.guarded(x86mnemo.dis, bytes(c['b']), 5)
        dec.append(ins if st == 'ok' else None)      # decoder crashes are C10's subject
    return [_lift(c, ins) for c, ins in zip(cases, dec)]


def _lift(case, ins='decode'):
    from miasmx.arch.ia32_arch import x86mnemo
    from miasmx.arch import ia32_sem
    from miasmx.tools import emul_helper
    from miasmx.expression.expression import ExprInt
    from miasmx.tools.modint import uint32
    b = bytes(case['b'])
    rec = {'id': case['id'], 'b': case['b'], 'st': 'none', 'affs': [], 'mn': ''}
    if ins == 'decode':
        try:
            ins = x86mnemo.dis(b)
        except Exception:
            return rec                      # decoder crashes are C10's subject
    if ins is None:
        return rec
    name = ins.m.name
    rec['mn'] = name
    rec['len'] = ins.l
    if name not in ia32_sem.mnemo_func and '#' not in name:
        return rec                      # no lifted semantics for this mnemonic
    try:
        rec['txt'] = str(ins)
    except Exception:
        rec['txt'] = '?'
    def go(_):
        return emul_helper.get_instr_expr(ins, ExprInt(uint32(0x1000 + ins.l)), [])
    st, r = irlib.guarded(go, None, 5)
    if st != 'ok':
        rec['st'] = 'exc'
        rec['exc'] = r if st == 'exc' else {'exc': 'timeout', 'func': '', 'line': ''}
        return rec
    if r is None:
        rec['st'] = 'exc'
        rec['exc'] = {'exc': 'returned None', 'func': name, 'line': ''}
        return rec
    try:
        rec['affs'] = [EJ.to_json(a) for a in r]
        rec['st'] = 'ok'
    except Exception as x:
        rec['st'] = 'exc'
        rec['exc'] = irlib.exc_key(x)
    return rec


def regclass(n):
    import re
    n = str(n)
    if n.startswith('init_'):
        n = n[5:]
    for pre in ('float_st', 'float_c', 'xmm', 'mm', 'cr', 'dr', 'reg_float_', 'tsc'):
        if n.startswith(pre):
            return pre
    if n in ('eax', 'ecx', 'edx', 'ebx', 'esp', 'ebp', 'esi', 'edi'):
        return 'r32'
    if n in ('es', 'cs', 'ss', 'ds', 'fs', 'gs'):
        return 'sreg'
    if n in ('zf', 'nf', 'pf', 'of', 'cf', 'af', 'df'):
        return 'flag'
    return n


def keyof(rec, f):
    """root-cause class: clause + signature of the innermost ill-typed node (operator, operand widths, slots),
    independent of the mnemonic; exceptions by (type, function, line)"""
    key = {'clause': f['clause'], 'mn': rec['mn']}
    if f['clause'] == 'C11.lift_exception':
        key.update(rec.get('exc', {}))
        return key
    a = rec['affs'][f['aff'] - 1] if 'aff' in f and rec['affs'] else None
    d = a['a'][0] if a and a.get('k') == 'aff' and a.get('a') else (a or {})
    key['dst'] = regclass(d.get('n', d.get('k', '')))
    if f['clause'] == 'C11.overlapping_destinations':
        p = f['pair']
        d1 = rec['affs'][p[0] - 1]['a'][0]
        key['dst'] = regclass(d1.get('n', d1.get('k')))
    sg = f.get('sig')
    if sg:
        o = sg.get('o', '')
        if o.startswith('f') or o in ('MMX',) or 'double' in o or 'segment' in o:
            o = 'uninterpreted'
        key['sig'] = '%s:%s:%s:%s' % (sg.get('k'), o, ','.join(str(x) for x in sg.get('ws', [])),
                                     ';'.join('%d-%d' % tuple(x) for x in sg.get('s', [])))
    return key


def run(tier, chk):
    rnd = random.Random(chk.seed)
    negative_control(chk)
    quick = tier == 'quick'
    allb = gen_bytes(chk)
    if quick:
        allb = [b for b in allb if rnd.random() < 0.35]
    # the decodable strings of the C01 space (the property's quantifier): every base form, and the one-deviation variants
    from . import ia32space
    base = sorted(set(ia32space.gen(0, False, None, chk)['done']))
    dev1 = sorted(set(ia32space.gen(1, False, None, chk)['done']) - set(base))
    if quick:
        # every variant of at most three bytes (all ModRM register forms of the one- and two-byte opcodes), a sample of the longer ones
        short = [h for h in dev1 if len(h) <= 6]
        rest = [h for h in dev1 if len(h) > 6]
        dev1 = short + ia32space.stratified(rest, rnd, 30000)
    seenb = set(bytes(b).hex() for b in allb)
    for h in base + dev1:
        hh = h + bytes(JUNK).hex()
        if hh not in seenb:
            seenb.add(hh)
            allb.append(list(bytes.fromhex(hh)))
    chk.cov['strings_from_the_C01_space'] = len(base) + len(dev1)
    cases = [{'id': i, 'b': b} for i, b in enumerate(allb)]
    order = list(cases)
    rnd.shuffle(order)
    recs = [r for ch in irlib.pmap(_lift_chunk, [order[k:k + 256] for k in range(0, len(order), 256)], chunk=1) for r in ch]
    recs.sort(key=lambda r: r['id'])
    lifted = [r for r in recs if r['st'] != 'none']
    # one record per distinct (mnemonic, prefixes, lifted list): identical lifts need no second judgement
    seen, uniq = {}, []
    for r in lifted:
        k = json.dumps([r['mn'], r['st'], r['affs'], r.get('exc')], sort_keys=True)
        if k not in seen:
            seen[k] = r
            uniq.append(r)
    for r in uniq:
        idw = {}
        for a in r['affs']:
            EJ.ids_of(a, idw)
        r['envs'] = irlib.make_envs(idw, 5, rnd)
    chk.cov['evaluations'] = len(recs)
    chk.cov['decoded_with_semantics'] = len(lifted)
    chk.cov['distinct_nontrivial'] = len(uniq)
    chk.cov['mnemonics'] = len(set(r['mn'] for r in lifted))
    chk.cov['rule'] = ('byte strings = terminal states of ByteSpace.tla; decoded by miasmX; non-trivial = distinct (mnemonic, lifted assignment list) pairs '
                       'among the strings whose mnemonic has lifted semantics')
    rnd.shuffle(uniq)
    verdicts, st = core.judge('T_C11', uniq, timeout=2400)
    chk.add_tlc(st)
    chk.cov['traces_validated_against_impl'] = len(uniq)
    for r in uniq[:3]:
        chk.sample({'bytes': bytes(r['b'][:r.get('len', 4)]).hex(), 'text': r.get('txt'), 'affs': [EJ.show(a) for a in r['affs']][:4]})
    byid = {r['id']: r for r in uniq}
    for v in verdicts:
        r = byid[v['id']]
        f = v['v'][0]
        chk.violation(keyof(r, f), {'bytes': bytes(r['b']).hex(), 'text': r.get('txt'), 'mn': r['mn'],
                                    'affs_text': [EJ.show(a) for a in r['affs']], 'verdict': f, 'exc': r.get('exc')})


def negative_control(chk):
    eax = {'k': 'id', 'w': 32, 'n': 'eax'}
    zf = {'k': 'id', 'w': 1, 'n': 'zf'}
    al = {'k': 'slice', 'w': 8, 'lo': 0, 'hi': 8, 'a': [eax]}
    one = {'k': 'int', 'w': 32, 'v': [1, 0, 0, 0]}
    envs = [{'id': {'eax': [5, 0, 0, 0], 'zf': [0]}, 'seed': 1, 'over': []}]
    def aff(d, s):
        return {'k': 'aff', 'w': d['w'], 'a': [d, s]}
    good = [aff(eax, {'k': 'op', 'w': 32, 'o': '+', 'u': 0, 'a': [eax, one]}), aff(zf, {'k': 'cond', 'w': 32, 'a': [eax, one, {'k': 'int', 'w': 32, 'v': [0, 0, 0, 0]}]})]
    recs = [{'id': 0, 'st': 'ok', 'affs': good, 'envs': envs},
            {'id': 1, 'st': 'ok', 'affs': [aff(eax, al)], 'envs': envs},
            {'id': 2, 'st': 'ok', 'affs': [aff(eax, {'k': 'op', 'w': 32, 'o': '+', 'u': 0, 'a': [eax, al]})], 'envs': envs},
            {'id': 3, 'st': 'ok', 'affs': [good[0], aff(eax, one)], 'envs': envs},
            {'id': 4, 'st': 'ok', 'affs': [aff(zf, eax)], 'envs': envs},
            {'id': 5, 'st': 'exc', 'affs': [], 'envs': envs}]
    verdicts, st = core.judge('T_C11', recs, shards=1)
    got = sorted((v['id'], v['v'][0]['clause']) for v in verdicts)
    want = [(1, 'C11.width'), (2, 'C11.welltyped'), (3, 'C11.overlapping_destinations'), (4, 'C11.width'), (5, 'C11.lift_exception')]
    chk.cov['negative_controls'].append({'name': 'narrow source / mixed-width + / double write / non-boolean flag source / exception rejected', 'ok': got == want, 'got': got})
    if got != want:
        raise core.MachineryError('C11 negative control failed: %r' % (got,))


def replay(path, chk):
    rp = json.load(open(path))
    irlib._init_worker(False)
    rec = _lift({'id': 0, 'b': list(bytes.fromhex(rp['detail']['bytes']))})
    idw = {}
    for a in rec['affs']:
        EJ.ids_of(a, idw)
    rec['envs'] = irlib.make_envs(idw, 8, random.Random(chk.seed))
    verdicts, st = core.judge('T_C11', [rec], shards=1)
    chk.add_tlc(st)
    chk.cov['traces_validated_against_impl'] = 1
    chk.cov['evaluations'] = 1
    chk.sample({'bytes': rp['detail']['bytes'], 'text': rec.get('txt')})
    for v in verdicts:
        k = keyof(rec, v['v'][0])
        print('replay: fails', k)
        chk.violation(k, rp['detail'])
    return chk.finish()
