"""worker: per program (';'-separated Intel lines): renderings, lifted+simplified semantics, machine dumps"""
import sys, json, os
sys.path.insert(0, os.environ['VERIF_REPO_PATH'])
from miasmx.arch.ia32_arch import x86mnemo
from miasmx.tools import emul_helper
from miasmx.expression.expression import ExprInt
from miasmx.expression.expression_helper import expr_simp
from miasmx.tools.modint import uint32


def one(prog):
    instrs = []
    off = 0x1000
    for line in prog.split(';'):
        b = x86mnemo.asm(line.strip())[0]
        i = x86mnemo.dis(b)
        i.offset = off
        off += i.l
        instrs.append(i)
    intel = [str(i) for i in instrs]
    try:
        att = [i.__str__(asm_format='att_syntax binutils') for i in instrs]
    except Exception as x:
        att = ['EXC ' + type(x).__name__]
    lifted = []
    for i in instrs:
        affs = emul_helper.get_instr_expr(i, ExprInt(uint32(i.offset + i.l)), [])
        lifted.append([str(expr_simp(a)) for a in affs])
    m = emul_helper.x86_machine()
    emul_helper.emul_lines(m, instrs)
    return {'txt': [intel, att, lifted, m.dump_id(), m.dump_mem()]}


def main():
    cases = json.load(open(sys.argv[1]))
    out = []
    for c in cases:
        try:
            out.append(one(c['line']))
        except Exception as x:
            out.append({'txt': [['EXC %s %s' % (type(x).__name__, str(x)[:80])]]})
    json.dump(out, open(sys.argv[2], 'w'))


if __name__ == '__main__':
    main()
