"""Calibration of spec/X86Sem.tla against the host processor (optional evidence for the trusted step function; it says
nothing about miasmX).  X86Calib.tla (TLC) enumerates (instance, generated state) pairs; every pair Step predicts as
non-faulting is executed natively in a 32-bit static ELF built by GNU as / ld (memory window, registers and flags loaded,
the instruction executed, registers, flags and the window stored); T_X86Calib.tla compares the processor's result with
X86Sem!Step, skipping what the SDM leaves undefined.
 mode "reg": register / immediate forms on the generated states as they are (esp not loaded, not compared);
 mode "mem": memory operands, stack and string instructions: the address registers / esp / esi / edi of the generated state
             are relocated into a private 256-byte window of an arena at a fixed address whose initial content is the
             memory model of the specification (IR!InitByte + overrides).
A mismatch is a machinery failure (the specification is wrong), never a violation."""
import os, json, struct, subprocess, hashlib
from . import core

FLAGBIT = {'cf': 0, 'pf': 2, 'af': 4, 'zf': 6, 'sf': 7, 'df': 10, 'of': 11}
REGS = ['eax', 'ecx', 'edx', 'ebx', 'esp', 'ebp', 'esi', 'edi']
ARENA = 0x20000000
WIN = 256
M32 = 0xffffffff


def gen_cases(mode, nk, sd, chk=None):
    cfg = 'CONSTANTS\n NK = %d\n SD = %d\n MODE = "%s"\nINIT Init\nNEXT Next\nCHECK_DEADLOCK FALSE\n' % (nk, sd, mode)
    h = hashlib.sha1(cfg.encode())
    for f in ('BV.tla', 'IR.tla', 'X86Sem.tla', 'X86SpaceLib.tla', 'X86Calib.tla'):
        h.update(open(os.path.join(core.SPEC, f), 'rb').read())
    cf = os.path.join(core.VERIF, '.cache', 'x86calib_%s.json' % h.hexdigest()[:16])
    os.makedirs(os.path.dirname(cf), exist_ok=True)
    if os.path.exists(cf):
        d = json.load(open(cf))
    else:
        dump = os.path.join(core.scratch(), 'x86calib.dump')
        r = core.run_tlc('X86Calib', cfg_text=cfg, extra=['-dump', dump], timeout=1500, workers=min(core.NCPU, 8))
        if not r.ok:
            raise core.MachineryError('X86Calib failed:\n' + r.out[-3000:])
        cases = []
        for st in core.read_dump(dump):
            i = st['inst']
            i['txt'] = st['txt']
            cases.append({'i': i, 'k': st['k'], 'reg': [core.unlimbs(x) for x in st['st']['reg']], 'fl': st['st']['fl'],
                          'seed': st['st']['seed'], 'over': [[core.unlimbs(a), b] for a, b in st['st']['over']], 'flt': st['flt']})
        os.unlink(dump)
        cases.sort(key=lambda c: (c['i']['txt'], c['k']))
        d = {'cases': cases, 'states': r.distinct, 'transitions': r.generated}
        tmp = cf + '.%d' % os.getpid()
        json.dump(d, open(tmp, 'w'))
        os.rename(tmp, cf)
    if chk is not None:
        chk.add_tlc({'states': d['states'], 'transitions': d['transitions']})
    return d['cases']


def init_byte(seed, a):
    """IR!InitByte(seed, 0, a)"""
    return ((a & 255) * 7 + ((a >> 8) & 255) * 13 + ((a >> 16) & 255) * 29 + ((a >> 24) & 255) * 31 + seed * 3) % 256


def s32(limbs):
    v = core.unlimbs(limbs)
    return v - (1 << 32) if v & 0x80000000 else v


def relocate(c, n):
    """place the memory the instance touches into window n of the arena: returns (regs, over) of the state to run"""
    i, k = c['i'], c['k']
    regs = list(c['reg'])
    win = ARENA + WIN * n
    T = win + 36
    pool = [b for _, b in c['over'][:4]]            # the pool word the generator put at the (old) operand address
    over = []
    mems = [o for o in i['ops'] if o['k'] == 'mem']
    regs[4] = win + 128
    if mems:
        o = mems[0]
        b, ix, sc, disp = o['b'], o['i'], o['sc'], s32(o['d'])
        if b >= 0 and ix < 0:
            regs[b] = (T - disp) & M32
        elif b >= 0 and ix >= 0 and b != ix:
            regs[ix] &= 7
            regs[b] = (T - disp - sc * regs[ix]) & M32
        elif b < 0 and ix >= 0:
            regs[ix] = ((T - disp) // sc) & M32
        else:                                        # base = index
            regs[b] = ((T - disp) // (sc + 1)) & M32
        if i['mn'] in ('bt', 'bts', 'btr', 'btc') and i['ops'][1]['k'] == 'reg':
            off = [5, 37, -1, -33, 100, -100, 31, -32][k % 8]
            r = i['ops'][1]['n']
            m = (1 << i['w']) - 1
            regs[r] = (regs[r] & ~m & M32) | (off & m)
        if k % 5 != 4 and pool:
            over += [[T + j, v] for j, v in enumerate(pool)]
    if i['mn'] in ('movs', 'cmps', 'scas', 'lods', 'stos'):
        regs[6], regs[7] = win + 72, win + 168
        w8 = i['w'] // 8
        if k % 3 == 0:                               # equal comparands
            over += [[regs[6] + j, (k * 37 + j) % 256] for j in range(w8)] + [[regs[7] + j, (k * 37 + j) % 256] for j in range(w8)]
            if i['mn'] == 'scas':
                m = (1 << i['w']) - 1
                regs[0] = (regs[0] & ~m & M32) | sum(((k * 37 + j) % 256) << (8 * j) for j in range(w8))
    if i['mn'] == 'leave':
        regs[5] = win + 64
        over += [[regs[5] + j, (k * 53 + 17 * j) % 256] for j in range(4)]
    if i['mn'] == 'xlat':
        regs[3] = win                                  # ebx + al stays inside the window
    if i['mn'] in ('pop', 'popad') and pool and k % 2 == 0:
        over += [[regs[4] + j, v] for j, v in enumerate(pool)]
    if i['mn'] == 'cmpxchg' and mems and k % 3 == 0:
        over += [[T + j, (regs[0] >> (8 * j)) & 255] for j in range(i['w'] // 8)]
    return regs, over


def run_native(cases, mem):
    """execute every case on the host; returns a list of (regs[8], eflags, window bytes)"""
    d = core.scratch()
    src, obj, exe = (os.path.join(d, 'calib' + e) for e in ('.s', '.o', ''))
    with open(src, 'w') as f:
        f.write('.intel_syntax noprefix\n.globl _start\n.text\n_start:\n  lea esp, stk_top\n')
        for n, c in enumerate(cases):
            ef = 0x202
            for k, b in FLAGBIT.items():
                ef |= int(c['fl'][k]) << b
            for a, v in c.get('run_over', []):
                f.write('  mov byte ptr [0x%x], %d\n' % (a, v))
            f.write('  push 0x%x\n  popfd\n' % ef)
            for r, v in zip(REGS, c['run_reg']):
                if r != 'esp':
                    f.write('  mov %s, 0x%x\n' % (r, v))
            if mem:
                f.write('  mov esp, 0x%x\n' % c['run_reg'][4])
            f.write('  %s\n' % c['i']['txt'])
            base = 36 * n
            for j, r in enumerate(REGS):
                f.write('  mov dword ptr [res+%d], %s\n' % (base + 4 * j, r))
            f.write('  lea esp, stk_top\n  pushfd\n  pop dword ptr [res+%d]\n' % (base + 32))
        total = 36 * len(cases)
        f.write('  cld\n')
        nwin = (max(c['n'] for c in cases) + 1) if mem else 0
        for lab, size in (('res', total),) + ((('arena', WIN * nwin),) if mem else ()):
            f.write('  lea esi, %s\n  mov edi, %d\n' % (lab, size))
            f.write('1:\n  test edi, edi\n  jz 2f\n  mov edx, edi\n  cmp edx, 65536\n  jbe 3f\n  mov edx, 65536\n3:\n'
                    '  mov eax, 4\n  mov ebx, 1\n  mov ecx, esi\n  int 0x80\n  test eax, eax\n  jle 9f\n  add esi, eax\n  sub edi, eax\n  jmp 1b\n2:\n')
        f.write('  mov eax, 1\n  xor ebx, ebx\n  int 0x80\n9:\n  mov eax, 1\n  mov ebx, 3\n  int 0x80\n')
        f.write('.bss\n.align 16\nres: .space %d\n.space 4096\nstk_top: .space 64\n' % total)
        if mem:
            f.write('.section .arena, "aw"\narena:\n')
            seeds = {c['n']: c['seed'] for c in cases}
            for n in range(nwin):
                base = ARENA + WIN * n
                row = [init_byte(seeds.get(n, 0), base + j) for j in range(WIN)]
                f.write('.byte ' + ','.join(str(x) for x in row) + '\n')
    cmds = [['as', '--32', '-o', obj, src], ['ld', '-m', 'elf_i386'] + (['--section-start=.arena=0x%x' % ARENA] if mem else []) + ['-o', exe, obj]]
    for cmd in cmds:
        p = subprocess.run(cmd, stdout=subprocess.PIPE, stderr=subprocess.PIPE, universal_newlines=True)
        if p.returncode != 0:
            raise core.MachineryError('calibration build failed: %s\n%s' % (' '.join(cmd), p.stderr[:1500]))
    p = subprocess.run([exe], stdout=subprocess.PIPE, stderr=subprocess.PIPE, timeout=300)
    want = 36 * len(cases) + WIN * nwin
    if p.returncode != 0 or len(p.stdout) != want:
        raise core.MachineryError('calibration binary failed (rc=%s, %d of %d bytes): a state predicted non-faulting faulted?'
                                  % (p.returncode, len(p.stdout), want))
    out = []
    for n in range(len(cases)):
        w = struct.unpack('<9I', p.stdout[36 * n:36 * n + 36])
        m = cases[n]['n'] if mem else 0
        win = list(p.stdout[36 * len(cases) + WIN * m:36 * len(cases) + WIN * (m + 1)]) if mem else []
        out.append((list(w[:8]), w[8], win))
    for f_ in (src, obj, exe):
        os.unlink(f_)
    return out


def _state(c):
    return {'reg': [core.limbs(v, 32) for v in c['run_reg']], 'fl': c['fl'], 'seed': c['seed'],
            'over': [[core.limbs(a, 32), b] for a, b in c['run_over']]}


def calibrate(chk, nk=8, sd=7, mode='reg'):
    mem = mode == 'mem'
    cases = gen_cases(mode, nk, sd, chk)
    if mem:
        for n, c in enumerate(cases):
            c['n'] = n
            c['run_reg'], c['run_over'] = relocate(c, n)
        # the relocated states are new: let the specification predict which of them fault
        pre = [{'id': n, 'mode': 'predict', 'i': dict(c['i'], len=2), 's': _state(c), 'reg': [], 'fl': c['fl'], 'cmpesp': 1,
                'base': core.limbs(ARENA + WIN * n, 32), 'win': []} for n, c in enumerate(cases)]
        fv, st = core.judge('T_X86Calib', pre, timeout=1500, min_per_shard=50)
        chk.add_tlc(st)
        faulting = set(v['id'] for v in fv)
        live = [c for n, c in enumerate(cases) if n not in faulting]
    else:
        for c in cases:
            c['run_reg'], c['run_over'] = c['reg'], []
        live = [c for c in cases if c['flt'] == '']
    res = run_native(live, mem)
    recs = []
    for n, (c, (regs, ef, win)) in enumerate(zip(live, res)):
        recs.append({'id': n, 'mode': 'compare', 'i': dict(c['i'], len=2), 's': _state(c), 'reg': [core.limbs(v, 32) for v in regs],
                     'fl': {k: (ef >> b) & 1 for k, b in FLAGBIT.items()}, 'cmpesp': 1 if mem else 0,
                     'base': core.limbs(ARENA + WIN * c.get('n', 0), 32), 'win': win})
    # negative control: a copy of a record with one corrupted observation must be rejected (and only that one)
    import copy
    nc = copy.deepcopy(recs[len(recs) // 2])
    nc['id'] = len(recs)
    if mem and nc['win']:
        nc['win'][200] ^= 1                           # a byte nothing writes
    else:
        nc['fl']['df'] ^= 1                           # no integer-core instance of these modes changes DF except cld/std
        nc['reg'][5] = core.limbs(core.unlimbs(nc['reg'][5]) ^ 0x100, 32)
    verdicts, st = core.judge('T_X86Calib', recs + [nc], timeout=1500, min_per_shard=50)
    chk.add_tlc(st)
    caught = [v for v in verdicts if v['id'] == nc['id']]
    verdicts = [v for v in verdicts if v['id'] != nc['id']]
    chk.cov['negative_controls'].append({'name': 'calibration (%s): corrupted processor observation rejected' % mode, 'ok': len(caught) == 1})
    if len(caught) != 1:
        raise core.MachineryError('calibration negative control (%s) did not fire' % mode)
    out = {'cases': len(cases), 'executed_natively': len(live), 'predicted_faults_skipped': len(cases) - len(live),
           'instances': len(set(c['i']['txt'] for c in cases)), 'mismatches': len(verdicts)}
    chk.cov.setdefault('x86sem_calibration_against_host_cpu', {})[mode] = out
    if verdicts:
        v = verdicts[0]
        c = live[v['id']]
        raise core.MachineryError('X86Sem!Step disagrees with the host processor on %d of %d cases (%s), e.g. %s regs=%s flags=%s over=%s: %s'
                                  % (len(verdicts), len(live), sorted(set(live[x['id']]['i']['txt'] for x in verdicts))[:30], c['i']['txt'],
                                     ['%08x' % x for x in c['run_reg']], c['fl'], c['run_over'], json.dumps(v['v'][0])[:1500]))
    return out
