"""Regenerates /verif/MANIFEST.json from the table below (python3 -m vf.manifest)."""
import json, os
V = os.path.dirname(os.path.dirname(os.path.abspath(__file__)))

def load_claims():
    """one file per property: vf/claims/Cxx.json with keys technique, text, design, note"""
    d = os.path.join(V, 'vf', 'claims')
    return {f[:-5]: json.load(open(os.path.join(d, f))) for f in sorted(os.listdir(d)) if f.endswith('.json')}


# properties whose check has been integrated and verified on the unchanged tree by the integrator; claim files of
# checks still under construction are ignored until they are listed here
READY = ['C%02d' % i for i in range(1, 20)]
CLAIMS = {k: v for k, v in load_claims().items() if k in READY}
PENDING = 'check not built yet (framework under construction; see DESIGN.md section 9 build order)'


def main():
    props = [json.loads(l)['id'] for l in open(os.path.join(V, 'properties.jsonl'))]
    m = {
     'version': 1,
     'setup_cmd': './setup.sh',
     'hooks': {'guard': 'MIASMX_VERIF',
               'enable': 'no source hooks: every property is observed through the public API (see DESIGN.md 2.4)',
               'baseline_off_cmd': 'cd /repo && /venv/bin/python -m pytest -ra -q -p no:cacheprovider --timeout=900 --continue-on-collection-errors',
               'source_commits': [], 'add_only': True},
     'engines': [{'name': 'tlc', 'path': '/opt/veriftools/tla/tla2tools.jar', 'serves_properties': sorted(CLAIMS),
                  'kind_free_text': 'TLC 1.8 explicit-state model checker: generator specs (state graph = test space) and trace specs (T_Cxx.tla) judging recorded miasmX executions'}],
     'checks': [], 'not_applicable': [],
     'notes': 'Entry point ./check <id> --tier quick|thorough [--replay F]. Exit 0 held / 1 violation / 2 machinery failure. known_findings.json lists fixed and known findings.'}
    for p in props:
        if p in CLAIMS:
            c = CLAIMS[p]
            m['checks'].append({
              'property_id': p, 'quick_cmd': './check %s --tier quick' % p, 'thorough_cmd': './check %s --tier thorough' % p,
              'evidence_file': '/verif/evidence/%s.json' % p, 'replay_cmd_template': './check %s --replay {path}' % p,
              'engine': 'tlc', 'technique': c['technique'],
              'level_claimed': {'category': 'model_checking', 'text': c['text'], 'design_ref': c['design']},
              'level_note': c['note']})
        else:
            m['not_applicable'].append({'property_id': p, 'reason': NA.get(p, PENDING)})
    json.dump(m, open(os.path.join(V, 'MANIFEST.json'), 'w'), indent=1)


NA = {}
if __name__ == '__main__':
    main()
