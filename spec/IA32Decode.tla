----------------------------- MODULE IA32Decode -----------------------------
(* IA-32 reference decoder (32-bit protected mode, flat), written from the    *)
(* Intel SDM vol. 2 chapter 2 (instruction format, ModRM/SIB tables 2-1..2-3) *)
(* over the opcode maps of IA32Tables.tla.                                    *)
(*                                                                            *)
(* INTERFACE (stable; used by C01 C02 C03 C04 C09 C10 C17):                   *)
(*   Decode(bytes, mode)  bytes: sequence of 0..255, mode = 32.               *)
(*     -> [ok |-> FALSE, why |-> "trunc"|"unknown"|"invalid"|"toolong", ...]  *)
(*     -> [ok |-> TRUE, len, mn, ops, pfx, os, as, use, at, opc]              *)
(*        len  number of bytes of the instruction (prefixes included)         *)
(*        mn   SDM mnemonic, lower case (far forms: "callf"/"jmpf")           *)
(*        ops  sequence of operand records, destination first (Intel order):  *)
(*          [k |-> "reg", c |-> "r8"|"r16"|"r32"|"sreg"|"cr"|"dr"|"mm"|"xmm"|"st", n |-> 0..7]   *)
(*          [k |-> "mem", sz |-> bits (0 = unsized), seg |-> ""|"es".."gs" (explicit override    *)
(*             only), b |-> -1..7, i |-> -1..7, sc |-> 1|2|4|8, d |-> limbs (aw/8), aw |-> 16|32] *)
(*          [k |-> "imm", sz |-> 8|16|32, v |-> limbs (sz/8)]   (sign-extended forms: sz = target) *)
(*          [k |-> "rel", sz |-> 8|16|32, d |-> limbs (sz/8)]   (raw displacement)               *)
(*          [k |-> "far", seg |-> limbs (2), off |-> limbs (os/8)]                               *)
(*          implicit string operands (X/Y codes) are not listed                                  *)
(*        pfx  the prefix bytes as given; os/as  effective operand/address size (16|32)          *)
(*        use  subset of {"66","67","seg","rep","repcc","lock","notrack"}: the prefix classes    *)
(*             that are not superfluous for this instruction; at  row attributes                 *)
(*        opc  <<map, opcode byte, ModRM.reg or -1>>  (row identity, for coverage)               *)
(*   all displacement/immediate values are little-endian byte tuples, never integers             *)
(*   SameMnemonic(a, b), SameInstr(x, y), InstrDiff(x, y), Meaningful(pfx, instr), EffSeg(m)     *)
EXTENDS IA32Tables, FiniteSets

\* ------------------------------------------------------------------ bytes
PfxBytes == {240, 242, 243, 38, 46, 54, 62, 100, 101, 102, 103}
SegOf(p) == CASE p = 38 -> "es" [] p = 46 -> "cs" [] p = 54 -> "ss" [] p = 62 -> "ds" [] p = 100 -> "fs" [] p = 101 -> "gs" [] OTHER -> ""
SExtB(b, n) == TLCEval([i \in 1..n |-> IF i = 1 THEN b ELSE IF b >= 128 THEN 255 ELSE 0])
ZeroL(n)    == TLCEval([i \in 1..n |-> 0])
Has(s, x)   == \E i \in 1..Len(s) : s[i] = x
RECURSIVE ScanPfx(_,_)
ScanPfx(bs, pos) == IF pos <= Len(bs) /\ bs[pos] \in PfxBytes THEN ScanPfx(bs, pos + 1) ELSE pos
RECURSIVE LastRep(_,_)
LastRep(pfx, i) == IF i = 0 THEN 0 ELSE IF pfx[i] \in {242, 243} THEN pfx[i] ELSE LastRep(pfx, i - 1)
RECURSIVE LastSeg(_,_)
LastSeg(pfx, i) == IF i = 0 THEN "" ELSE IF SegOf(pfx[i]) # "" THEN SegOf(pfx[i]) ELSE LastSeg(pfx, i - 1)

\* ------------------------------------------------------------------ row resolution
\* mpi: mandatory-prefix index 1 none, 2 66, 3 F3, 4 F2.  Returns [row, bops, mpused]
RECURSIVE Res(_,_,_,_,_,_,_)
Res(row, mpi, mod, reg, rm, bops, mpused) ==
   CASE row.g = "P4"  -> Res(row.v[mpi], mpi, mod, reg, rm, bops, mpused \/ (mpi # 1 /\ row.v[mpi] # row.v[1]))
     [] row.g = "GRP" -> Res(GroupOf(row.n)[reg + 1], mpi, mod, reg, rm, row.ops, mpused)
     [] row.g = "MOD" -> Res(IF mod = 3 THEN row.r ELSE row.m, mpi, mod, reg, rm, bops, mpused)
     [] row.g = "RM"  -> Res(row.t[rm + 1], mpi, mod, reg, rm, bops, mpused)
     [] OTHER -> [row |-> row, bops |-> bops, mpused |-> mpused]
\* does resolving this row look at the ModRM byte?
RECURSIVE LooksAtModrm(_,_)
LooksAtModrm(row, mpi) == CASE row.g = "P4" -> LooksAtModrm(row.v[mpi], mpi)
     [] row.g \in {"GRP","MOD","RM"} -> TRUE
     [] OTHER -> FALSE
ModrmAM == {"E","G","R","T"}
OpsNeedModrm(ops) == \E j \in 1..Len(ops) : OCof(ops[j]).am \in ModrmAM

\* ------------------------------------------------------------------ decode
Fail(w) == [ok |-> FALSE, why |-> w, need |-> "", nb |-> 0, early |-> FALSE, as |-> 32, esc |-> FALSE]
\* truncated input: which field comes next (for the generator IA32Space), how many bytes, whether the ModRM byte
\* selects the row (group / mod-split / x87), address size
Trunc(f, k, e, a, x) == [ok |-> FALSE, why |-> "trunc", need |-> f, nb |-> k, early |-> e, as |-> a, esc |-> x]
Decode(bs, mode) ==
  LET n    == Len(bs)
      p0   == ScanPfx(bs, 1)
      pfx  == SubSeq(bs, 1, p0 - 1)
      os   == IF Has(pfx, 102) THEN 16 ELSE 32
      as   == IF Has(pfx, 103) THEN 16 ELSE 32
      seg  == LastSeg(pfx, Len(pfx))
      rep  == LastRep(pfx, Len(pfx))
      mpi  == IF rep = 243 THEN 3 ELSE IF rep = 242 THEN 4 ELSE IF os = 16 THEN 2 ELSE 1
  IN IF p0 > n THEN Trunc("opcode", 1, FALSE, as, FALSE) ELSE
  LET b1   == bs[p0]
      esc2 == b1 = 15
  IN IF esc2 /\ p0 + 1 > n THEN Trunc("opcode2", 1, FALSE, as, FALSE) ELSE
  LET b2   == IF esc2 THEN bs[p0 + 1] ELSE 0
      esc3 == esc2 /\ b2 \in {56, 58}
  IN IF esc3 /\ p0 + 2 > n THEN Trunc("opcode3", 1, FALSE, as, FALSE) ELSE
  LET b3   == IF esc3 THEN bs[p0 + 2] ELSE 0
      map  == IF ~esc2 THEN "1" ELSE IF ~esc3 THEN "0F" ELSE IF b2 = 56 THEN "38" ELSE "3A"
      opb  == IF ~esc2 THEN b1 ELSE IF ~esc3 THEN b2 ELSE b3
      nopc == IF ~esc2 THEN 1 ELSE IF ~esc3 THEN 2 ELSE 3
      row0 == CASE map = "1"  -> Map1[opb]
                [] map = "0F" -> Map2[opb]
                [] map = "38" -> (IF opb \in DOMAIN Map38 THEN Map38[opb] ELSE NONE)
                [] map = "3A" -> (IF opb \in DOMAIN Map3A THEN Map3A[opb] ELSE NONE)
      isesc == row0.g = "ESC"
      pm   == p0 + nopc                                   \* position of the ModRM byte, if any
      early == isesc \/ LooksAtModrm(row0, mpi)
  IN IF early /\ pm > n THEN Trunc("modrm", 1, TRUE, as, isesc) ELSE
  LET mb   == IF pm <= n THEN bs[pm] ELSE 0
      mod  == mb \div 64
      reg  == (mb \div 8) % 8
      rm   == mb % 8
      r1   == IF isesc THEN (IF mod = 3 THEN X87Reg[b1 - 215][reg + 1] ELSE X87Mem[b1 - 215][reg + 1]) ELSE row0
      res  == Res(r1, mpi, mod, reg, rm, <<>>, FALSE)
      leaf == res.row
      ops  == IF "own" \in leaf.at THEN leaf.ops ELSE res.bops \o leaf.ops
  IN IF leaf.g # "" \/ leaf.mn = "" THEN Fail("unknown") ELSE
  LET mr   == early \/ OpsNeedModrm(ops)
  IN IF mr /\ pm > n THEN Trunc("modrm", 1, FALSE, as, FALSE) ELSE
  LET oc(j) == OCof(ops[j])
      \* is the r/m operand a memory reference?
      hasE   == \E j \in 1..Len(ops) : oc(j).am = "E"
      ismem  == mr /\ hasE /\ mod # 3
      hasSib == ismem /\ as = 32 /\ rm = 4
      p2     == IF mr THEN pm + 1 ELSE pm
  IN IF hasSib /\ p2 > n THEN Trunc("sib", 1, early, as, isesc) ELSE
  LET sib  == IF hasSib THEN bs[p2] ELSE 0
      ss   == sib \div 64   si == (sib \div 8) % 8   sb == sib % 8
      p3   == IF hasSib THEN p2 + 1 ELSE p2
      dlen == IF ~ismem THEN 0
              ELSE IF as = 32 THEN (IF mod = 1 THEN 1 ELSE IF mod = 2 THEN 4
                                    ELSE IF rm = 5 THEN 4 ELSE IF hasSib /\ sb = 5 THEN 4 ELSE 0)
              ELSE (IF mod = 1 THEN 1 ELSE IF mod = 2 THEN 2 ELSE IF rm = 6 THEN 2 ELSE 0)
      p4   == p3 + dlen
  IN IF p4 - 1 > n THEN Trunc("disp", dlen, early, as, isesc) ELSE
  LET aw   == as \div 8
      draw == SubSeq(bs, p3, p4 - 1)
      disp == IF dlen = 0 THEN ZeroL(aw) ELSE IF dlen = 1 THEN SExtB(draw[1], aw) ELSE draw
      msz(c) == CASE c.ms = -2 -> os [] c.ms = -3 -> os + 16 [] c.ms = -4 -> 2 * os [] c.ms = -5 -> 48 [] OTHER -> c.ms
      mem(c) == IF as = 32 THEN
                  IF hasSib THEN [k |-> "mem", sz |-> msz(c), seg |-> seg,
                                  b |-> IF sb = 5 /\ mod = 0 THEN -1 ELSE sb,
                                  i |-> IF si = 4 THEN -1 ELSE si,
                                  sc |-> IF si = 4 THEN 1 ELSE 2^ss, d |-> disp, aw |-> 32]
                  ELSE [k |-> "mem", sz |-> msz(c), seg |-> seg, b |-> IF mod = 0 /\ rm = 5 THEN -1 ELSE rm,
                        i |-> -1, sc |-> 1, d |-> disp, aw |-> 32]
                ELSE [k |-> "mem", sz |-> msz(c), seg |-> seg,
                      b |-> IF mod = 0 /\ rm = 6 THEN -1 ELSE <<3,3,5,5,6,7,5,3>>[rm + 1],
                      i |-> <<6,7,6,7,-1,-1,-1,-1>>[rm + 1], sc |-> 1, d |-> disp, aw |-> 16]
      RegOp(c, k) == [k |-> "reg", c |-> IF c = "rv" THEN (IF os = 32 THEN "r32" ELSE "r16") ELSE c, n |-> k]
      \* bytes taken by operand j after ModRM/SIB/disp
      ilen(j) == LET c == oc(j) IN
                 CASE c.am \in {"I","IS","J"} -> (IF c.ms = -2 THEN os \div 8 ELSE c.ms \div 8)
                   [] c.am = "A" -> (os \div 8) + 2
                   [] c.am = "O" -> aw
                   [] OTHER -> 0
      RECURSIVE ImmOff(_)
      ImmOff(j) == IF j = 0 THEN 0 ELSE ilen(j) + ImmOff(j - 1)
      total == p4 - 1 + ImmOff(Len(ops))
  IN IF total > n THEN Trunc("imm", total - (p4 - 1), early, as, isesc) ELSE IF total > 15 THEN Fail("toolong") ELSE
  LET opnd(j) == LET c == oc(j)  at == p4 + ImmOff(j - 1)  w == ilen(j) IN
         CASE c.am = "E"  -> (IF mod = 3 THEN RegOp(c.rc, rm) ELSE mem(c))
           [] c.am = "R"  -> RegOp(c.rc, rm)
           [] c.am = "T"  -> RegOp(c.rc, rm)
           [] c.am = "G"  -> RegOp(c.rc, reg)
           [] c.am = "Z"  -> RegOp(c.rc, opb % 8)
           [] c.am = "F"  -> RegOp(c.rc, c.n)
           [] c.am = "C1" -> [k |-> "imm", sz |-> 8, v |-> <<1>>]
           [] c.am = "I"  -> [k |-> "imm", sz |-> 8 * w, v |-> SubSeq(bs, at, at + w - 1)]
           [] c.am = "IS" -> [k |-> "imm", sz |-> os, v |-> SExtB(bs[at], os \div 8)]
           [] c.am = "J"  -> [k |-> "rel", sz |-> 8 * w, d |-> SubSeq(bs, at, at + w - 1)]
           [] c.am = "A"  -> [k |-> "far", seg |-> SubSeq(bs, at + w - 2, at + w - 1), off |-> SubSeq(bs, at, at + w - 3)]
           [] c.am = "O"  -> [k |-> "mem", sz |-> msz(c), seg |-> seg, b |-> -1, i |-> -1, sc |-> 1,
                              d |-> SubSeq(bs, at, at + w - 1), aw |-> as]
      \* string instructions in their no-operand mnemonic form (movsb, stosd, insw ...): every operand is implicit
      isstr == \E j \in 1..Len(ops) : oc(j).am \in {"X","Y"}
      explicit == IF isstr THEN {} ELSE 1..Len(ops)
      \* validity of the r/m form
      badform == \E j \in 1..Len(ops) : LET c == oc(j) IN
                    \/ c.am = "E" /\ mod = 3 /\ c.rc = ""
                    \/ c.am = "E" /\ mod # 3 /\ c.ms = -1
                    \/ c.am = "G" /\ c.rc = "sreg" /\ reg > 5
                    \/ c.am = "G" /\ c.rc = "sreg" /\ reg = 1 /\ j = 1        \* mov cs, r/m
      mn1 == IF os = 16 /\ leaf.mn \in DOMAIN Mn16 THEN Mn16[leaf.mn]
             ELSE IF as = 16 /\ leaf.mn \in DOMAIN MnA16 THEN MnA16[leaf.mn] ELSE leaf.mn
      hasmem == ismem \/ \E j \in 1..Len(ops) : oc(j).am = "O"
      memdst == ismem /\ Len(ops) >= 1 /\ oc(1).am = "E"
      use == (IF res.mpused /\ mpi = 2 THEN {"66"} ELSE {})
             \cup (IF "os" \in leaf.at \/ \E j \in 1..Len(ops) : OsDependent(ops[j]) THEN {"66"} ELSE {})
             \cup (IF hasmem \/ "as" \in leaf.at THEN {"67"} ELSE {})
             \cup (IF (hasmem /\ leaf.mn # "lea") \/ "segsrc" \in leaf.at THEN {"seg"} ELSE {})
             \cup (IF "str" \in leaf.at THEN {"rep"} ELSE {})
             \cup (IF "strcc" \in leaf.at THEN {"rep","repcc"} ELSE {})
             \cup (IF res.mpused /\ mpi \in {3,4} THEN {"mp"} ELSE {})
             \cup (IF "lock" \in leaf.at /\ memdst THEN {"lock"} ELSE {})
             \cup (IF "notrack" \in leaf.at THEN {"notrack"} ELSE {})
  IN IF badform THEN Fail("invalid") ELSE
     TLCEval([ok |-> TRUE, len |-> total, mn |-> mn1, os |-> os, as |-> as, pfx |-> pfx,
              ops |-> [j \in 1..Cardinality(explicit) |-> opnd(CHOOSE e \in explicit : Cardinality({x \in explicit : x < e}) = j - 1)],
              use |-> use, at |-> leaf.at \ {"own"}, opc |-> <<map, IF isesc THEN b1 ELSE opb, IF early THEN reg ELSE -1>>])

\* ------------------------------------------------------------------ superfluous prefixes (DESIGN 3.5.1)
NoDup(s) == \A i, j \in 1..Len(s) : i # j => s[i] # s[j]
SegCount(pfx) == Cardinality({i \in 1..Len(pfx) : SegOf(pfx[i]) # ""})
Meaningful(pfx, ins) ==
   /\ NoDup(pfx)
   /\ SegCount(pfx) <= 1
   /\ ~(Has(pfx, 242) /\ Has(pfx, 243))
   /\ \A i \in 1..Len(pfx) : LET p == pfx[i] IN
        CASE p = 102 -> "66" \in ins.use
          [] p = 103 -> "67" \in ins.use
          [] p = 240 -> "lock" \in ins.use
          [] p = 243 -> "rep" \in ins.use \/ "mp" \in ins.use
          [] p = 242 -> "repcc" \in ins.use \/ "mp" \in ins.use
          [] p = 62  -> "seg" \in ins.use \/ "notrack" \in ins.use
          [] OTHER   -> "seg" \in ins.use

\* Prefix bytes that are superfluous but whose effect is still architecturally determinate: a repeated 66 or 67 acts
\* like a single one (GNU as pads with 66 66 2E 0F 1F 84 ...), and an operand-size, address-size or (single) segment
\* prefix on an instruction that does not use it is ignored.  What stays outside: F0 on an instruction that cannot be
\* locked (#UD), F2/F3 on an instruction that neither repeats nor takes them as mandatory prefix (reserved), F2 together
\* with F3, several segment prefixes, and repetitions of those.  Determinate(pfx, ins) is the weakest condition under
\* which Decode's result is "the instruction those bytes encode"; C01 compares exactly these strings.
\* the SDM leaves the result of these undefined under a 16-bit operand size (and opcode maps disagree on the operand shown)
UndefUnder66 == {"bswap"}
RECURSIVE DedupSz(_,_)
DedupSz(pfx, i) == IF i > Len(pfx) THEN <<>>
                   ELSE IF pfx[i] \in {102, 103} /\ \E j \in 1..(i - 1) : pfx[j] = pfx[i] THEN DedupSz(pfx, i + 1)
                   ELSE <<pfx[i]>> \o DedupSz(pfx, i + 1)
Determinate(pfx, ins) ==
   LET q == DedupSz(pfx, 1) IN
   /\ NoDup(q)
   /\ SegCount(q) <= 1
   /\ ~(Has(q, 242) /\ Has(q, 243))
   /\ \A i \in 1..Len(q) : LET p == q[i] IN
        CASE p = 240 -> "lock" \in ins.use
          [] p = 243 -> "rep" \in ins.use \/ "mp" \in ins.use
          [] p = 242 -> "repcc" \in ins.use \/ "mp" \in ins.use
          [] p = 102 -> "66" \in ins.use \/ ins.mn \notin UndefUnder66
          [] OTHER   -> TRUE
\* which superfluous-but-determinate prefixes a string carries (names the class of a disagreement on such a string)
SupKinds(pfx, ins) ==
   (IF DedupSz(pfx, 1) # pfx THEN {"repeated"} ELSE {})
   \cup (IF Has(pfx, 102) /\ "66" \notin ins.use THEN {"unused66"} ELSE {})
   \cup (IF Has(pfx, 103) /\ "67" \notin ins.use THEN {"unused67"} ELSE {})
   \cup (IF \E i \in 1..Len(pfx) : SegOf(pfx[i]) # "" /\ "seg" \notin ins.use /\ ~(pfx[i] = 62 /\ "notrack" \in ins.use)
         THEN {"unusedseg"} ELSE {})

\* ------------------------------------------------------------------ equality of abstract instructions (DESIGN 3.5.3)
CCAlias == << {"o"}, {"no"}, {"b","c","nae"}, {"ae","nb","nc"}, {"e","z"}, {"ne","nz"}, {"be","na"}, {"a","nbe"},
              {"s"}, {"ns"}, {"p","pe"}, {"np","po"}, {"l","nge"}, {"ge","nl"}, {"le","ng"}, {"g","nle"} >>
CCSyn == TLCEval(UNION { { {st \o a : a \in CCAlias[k]} } : st \in {"j","set","cmov"}, k \in 1..16 })
SameMnemonic(a, b) ==
   \/ a = b
   \/ \E s \in CCSyn : a \in s /\ b \in s
   \/ \E s \in { {"sal","shl"}, {"wait","fwait"}, {"xlat","xlatb"}, {"ret","retn"}, {"retf","lret"},
                 {"call","callf"}, {"jmp","jmpf"}, {"loopne","loopnz"}, {"loope","loopz"},
                 {"pusha","pushad","pushaw"}, {"popa","popad","popaw"}, {"pushf","pushfd","pushfw"}, {"popf","popfd","popfw"},
                 {"iret","iretd","iretw"}, {"int3","int"} } : a \in s /\ b \in s

\* effective segment of a memory operand (explicit override, else SS for esp/ebp- (bp-)based, else DS)
EffSeg(m) == IF m.seg # "" THEN m.seg
             ELSE IF m.aw = 32 THEN (IF m.b \in {4, 5} THEN "ss" ELSE "ds")
             ELSE (IF m.b = 5 THEN "ss" ELSE "ds")
\* coefficient of register r in the address form
Coef(m, r) == (IF m.b = r THEN 1 ELSE 0) + (IF m.i = r THEN m.sc ELSE 0)
\* value comparison of limb tuples: x (any length) equals spec value v (n limbs) when x's low n limbs are v and
\* the remaining limbs of x are a pure sign/zero extension (all 0 or all 255)
LimbAt(x, i) == IF i <= Len(x) THEN x[i] ELSE 0
SameVal(x, v) == /\ \A i \in 1..Len(v) : LimbAt(x, i) = v[i]
                 /\ (\A i \in (Len(v)+1)..Len(x) : x[i] = 0) \/ (\A i \in (Len(v)+1)..Len(x) : x[i] = 255)
SExtL(v, n) == TLCEval([i \in 1..n |-> IF i <= Len(v) THEN v[i] ELSE IF v[Len(v)] >= 128 THEN 255 ELSE 0])

\* first differing clause between spec operand a and observed operand b ("" = same); os = operand size
OperandDiff(a, b, os) ==
   IF a.k # b.k THEN "kind"
   ELSE CASE a.k = "reg" -> (IF a.c # b.c \/ a.n # b.n THEN "reg" ELSE "")
     [] a.k = "imm" -> (IF b.sz # 0 /\ a.sz # b.sz THEN "size" ELSE IF ~SameVal(b.v, a.v) THEN "imm" ELSE "")
     [] a.k = "rel" -> (IF ~SameVal(b.d, SExtL(a.d, os \div 8)) THEN "imm" ELSE "")
     [] a.k = "far" -> (IF ~SameVal(b.seg, a.seg) \/ ~SameVal(b.off, a.off) THEN "imm" ELSE "")
     [] a.k = "mem" ->
          (IF a.sz # 0 /\ b.sz # 0 /\ a.sz # b.sz THEN "size"
           ELSE IF a.aw # b.aw THEN "base"
           ELSE LET ca == TLCEval([r \in 0..7 |-> Coef(a, r)])  cb == TLCEval([r \in 0..7 |-> Coef(b, r)]) IN
                IF ca # cb THEN
                   (IF \A r \in 0..7 : (ca[r] = 0) = (cb[r] = 0) THEN "scale"
                    ELSE IF (a.b = -1) # (b.b = -1) \/ (a.b # -1 /\ cb[a.b] = 0) THEN "base" ELSE "index")
                ELSE IF ~SameVal(b.d, a.d) THEN "disp"
                ELSE IF EffSeg(a) # EffSeg(b) THEN "seg"
                ELSE "")
     [] OTHER -> "kind"
\* canonical operand list: int3 = int 3
\* one-operand spellings of two-operand x87 register forms (GNU as reads `faddp st(4)` as `faddp st(4), st` and
\* `fcomi st(2)` as `fcomi st, st(2)`): the implicit st(0) is supplied before operands are compared
X87PopArith == {"faddp", "fmulp", "fsubp", "fsubrp", "fdivp", "fdivrp"}
X87St0First == {"fcmovb", "fcmove", "fcmovbe", "fcmovu", "fcmovnb", "fcmovne", "fcmovnbe", "fcmovnu", "fcomi", "fcomip", "fucomi", "fucomip"}
St0Like(o) == [o EXCEPT !.n = 0]
IsSt(o) == o.k = "reg" /\ o.c = "st"
CanonOps(x) == IF x.mn = "int3" /\ x.ops = <<>> THEN <<[k |-> "imm", sz |-> 8, v |-> <<3>>]>>
               ELSE IF Len(x.ops) = 1 /\ IsSt(x.ops[1]) /\ x.mn \in X87PopArith THEN <<x.ops[1], St0Like(x.ops[1])>>
               ELSE IF Len(x.ops) = 1 /\ IsSt(x.ops[1]) /\ x.mn \in X87St0First THEN <<St0Like(x.ops[1]), x.ops[1]>>
               ELSE x.ops
\* <<clause, operand index>> of the first difference, <<"",0>> when the same instruction
InstrDiff(x, y) ==
   LET xo == CanonOps(x)  yo == CanonOps(y) IN
   IF ~SameMnemonic(x.mn, y.mn) THEN <<"mnemonic", 0>>
   ELSE IF Len(xo) # Len(yo) THEN <<"kind", 0>>
   ELSE LET ds == TLCEval([j \in 1..Len(xo) |-> OperandDiff(xo[j], yo[j], x.os)])
            bad == {j \in 1..Len(xo) : ds[j] # ""} IN
        IF bad = {} THEN <<"", 0>>
        ELSE IF x.mn = "xchg" /\ Len(xo) = 2 /\ OperandDiff(xo[1], yo[2], x.os) = "" /\ OperandDiff(xo[2], yo[1], x.os) = "" THEN <<"", 0>>
        ELSE LET j == CHOOSE j \in bad : \A k \in bad : j <= k IN <<ds[j], j>>
SameInstr(x, y) == InstrDiff(x, y)[1] = ""
=============================================================================
