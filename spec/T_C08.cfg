CONSTANTS
 K = 6
INIT Init
NEXT Next
CHECK_DEADLOCK FALSE
