CONSTANTS
 MaxNodes = 4
 Ws = {8}
 IdsPer = 2
 BinOps = {"+","-","*","&","|","^","<<",">>","a>>","<<<",">>>","=="}
 UnOps = {"-", "parity"}
 Rich = FALSE
INIT Init
NEXT Next
INVARIANT StepSound
INVARIANT Terminates
CHECK_DEADLOCK FALSE
