#!/bin/sh
# usage: tools/mutate.sh <patch.diff> <property id> [tier] [demo.py]
# Applies the patch to a scratch worktree of /repo HEAD (outside /repo and /verif), runs the pinned suite (must stay green),
# the optional demo (must fail), and the property's check against the worktree (VERIF_REPO); removes the worktree.
# exit 0 = the check detected the change (exit 1 with a VIOLATION line), 3 = missed, 4 = patch/suite problem
P=$(readlink -f "$1"); ID=$2; TIER=${3:-quick}; DEMO=$4
WT=/var/tmp/verif_mut_$$
git -C /repo worktree add -q "$WT" HEAD || exit 4
trap 'git -C /repo worktree remove --force "$WT" >/dev/null 2>&1' EXIT
git -C "$WT" apply "$P" || { echo "PATCH DOES NOT APPLY"; exit 4; }
( cd "$WT" && /venv/bin/python -m pytest -q -x -p no:cacheprovider --timeout=900 >/dev/null 2>&1 ) || { echo "PINNED SUITE FAILS WITH THE CHANGE"; exit 4; }
if [ -n "$DEMO" ]; then
  ( cd "$WT" && PYTHONPATH="$WT" /venv/bin/python "$(readlink -f "$DEMO")" >/dev/null 2>&1 ) && { echo "DEMO PASSES WITH THE CHANGE (not a breaking change?)"; exit 4; }
fi
OUT=/var/tmp/verif_mut_$$_out; mkdir -p "$OUT"
cd /verif && VERIF_REPO="$WT" VERIF_OUT="$OUT" ./check "$ID" --tier "$TIER" > "/var/tmp/verif_mut_$$.log" 2>&1
rc=$?
grep -E "^VIOLATION|class=|MACHINERY" "/var/tmp/verif_mut_$$.log" | head -8
tail -1 "/var/tmp/verif_mut_$$.log"
rm -f "/var/tmp/verif_mut_$$.log"; rm -rf "$OUT"
if [ $rc -eq 1 ]; then echo "DETECTED"; exit 0; fi
echo "MISSED (check exit $rc)"; exit 3
