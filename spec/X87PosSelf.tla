----------------------------- MODULE X87PosSelf -----------------------------
(* Spec-internal obligations of the stack-relative x87 model (setup.sh).     *)
EXTENDS X87Pos
VARIABLE z
Init == z = 0
Next == UNCHANGED z
AllOK == PopPushOK /\ PopsOK /\ XchOK /\ ArithOK /\ ArithPopOK
=============================================================================
