------------------------------- MODULE T_C02 -------------------------------
(* C->S judge for C02.  Record [id, line, cands]: `line` is the structured   *)
(* line that was sent to the assembler (Syntax.tla layout, either syntax),   *)
(* `cands` the byte strings it returned (each a sequence of 0..255).         *)
(* For EVERY candidate c: the reference decoder reads c as one instruction   *)
(* of length Len(c) that is the instruction the line denotes (AsmExpect).    *)
(* A line that denotes nothing (ill-formed operand) must not be accepted.    *)
EXTENDS AsmExpect, Json, IOUtils
Recs == JsonDeserialize(IOEnv.TRACE)
Verdict(r) ==
   LET den == Denote(r.line) IN
   IF ~WellFormed(den) THEN <<[k |-> 0, clause |-> "C02.illformed_accepted", why |-> "", op |-> 0, row |-> <<"", -1, -1>>]>>
   ELSE LET want == Expect(den)
            RECURSIVE go(_)
            go(k) == IF k > Len(r.cands) THEN <<>>
                     ELSE LET v == CandClauses(r.cands[k], want) IN
                          (IF v = <<>> THEN <<>> ELSE <<[k |-> k, clause |-> v[1].clause, why |-> v[1].why, op |-> v[1].op, row |-> v[1].row]>>) \o go(k + 1)
        IN go(1)
VARIABLE i
Init == i = 0
Next == \/ /\ i < Len(Recs) /\ i' = i + 1
           /\ LET v == Verdict(Recs[i']) IN
              IF v = <<>> THEN TRUE ELSE PrintT("VERDICT " \o ToJson([id |-> Recs[i'].id, v |-> v]))
        \/ /\ i = Len(Recs) /\ i' = i + 1 /\ PrintT("CONSUMED " \o ToString(Len(Recs)))
=============================================================================
