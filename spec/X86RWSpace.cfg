INIT Init
NEXT Next
INVARIANT GenOK
CHECK_DEADLOCK FALSE
