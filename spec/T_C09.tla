------------------------------- MODULE T_C09 -------------------------------
(* C->S judge for C09.  Record for one byte string b of the decode space:    *)
(*  [id, b, h, st, attst, il, al, ai, aa, gi, ga]                            *)
(*   st     "instr" when miasmX decoded b and produced its Intel rendering   *)
(*   attst  "ok" | "exc" | "none": the AT&T rendering                        *)
(*   il/al  the two renderings, tokenised independently (vf/asm_text.py)     *)
(*   ai/aa  asm(intel text) / asm_att(att text): [st, c (hex candidates)]    *)
(*   gi/ga  GNU as output for the Intel / AT&T rendering in the matching     *)
(*          mode (byte sequence, <<>> when rejected)                         *)
(* Only strings the reference decoder reads as one instruction of their full *)
(* length without superfluous prefixes are judged (the others are counted).  *)
(* Clauses: the AT&T rendering exists; both renderings denote the same       *)
(* instruction under Syntax.Denote (operand order, suffix <-> size, sigils,  *)
(* memory layout, fsub/fdiv reversal); b is among the candidates of each     *)
(* rendering fed to the matching parser; for compiler-emittable instructions *)
(* GNU as accepts each rendering and what it produces decodes to the same    *)
(* instruction as b.                                                         *)
EXTENDS AsmExpect, Json, IOUtils
Recs == JsonDeserialize(IOEnv.TRACE)
ToSet(s) == {s[k] : k \in 1..Len(s)}
\* first difference between the denotations of the two renderings ("" = same)
DenDiff(x, y) ==
   IF ~WellFormed(x) THEN "intel_unreadable" ELSE IF ~WellFormed(y) THEN "att_unreadable"
   ELSE LET a == Expect(x)  b == Expect(y) IN
        IF ~SameMn(a.mn, b.mn) THEN "mnemonic"
        ELSE IF Len(a.ops) # Len(b.ops) THEN "operand_count"
        ELSE LET bad == {j \in 1..Len(a.ops) : ~SameOpnd(a.ops[j], b.ops[j])} IN
             IF bad = {} THEN ""
             ELSE LET j == CHOOSE j \in bad : \A q \in bad : j <= q IN
                  IF a.ops[j].k # b.ops[j].k THEN "operand_kind"
                  ELSE IF a.ops[j].k = "reg" THEN "register"
                  ELSE IF a.ops[j].k = "imm" THEN "immediate"
                  ELSE IF [a.ops[j] EXCEPT !.sz = 0] = [b.ops[j] EXCEPT !.sz = 0] THEN "size" ELSE "memory"
Gas(g, d, tag) == IF g = <<>> THEN <<[clause |-> "C09.gas_" \o tag \o "_accepts", why |-> ""]>>
                  ELSE LET d2 == TLCEval(D!Decode(g, 32)) IN
                       IF ~d2.ok THEN <<[clause |-> "C09.gas_" \o tag \o "_same", why |-> "undecodable"]>>
                       ELSE LET df == D!InstrDiff(d, d2) IN
                            IF df[1] # "" THEN <<[clause |-> "C09.gas_" \o tag \o "_same",
                                                   \* root-cause tag: an index-only [ebp*1+d] operand (rendered as the base form [ebp+d]: SS instead of DS)
                                                   why |-> IF df[1] = "seg" /\ \E j \in 1..Len(d.ops) : d.ops[j].k = "mem" /\ d.ops[j].b = -1 /\ d.ops[j].i = 5 /\ d.ops[j].sc = 1
                                                           THEN "seg:index_only_ebp" ELSE df[1]]>>
                            \* an operand-size prefix that matters (stack / flow forms) must survive the rendering
                            ELSE IF "66" \in d.use /\ d.os # d2.os THEN <<[clause |-> "C09.gas_" \o tag \o "_same", why |-> "opsize"]>>
                            ELSE <<>>
Verdict(r) ==
   LET d == TLCEval(D!Decode(r.b, 32)) IN
   IF ~(d.ok /\ d.len = Len(r.b) /\ D!Meaningful(d.pfx, d)) \/ r.st # "instr" THEN <<>>
   ELSE (IF r.attst # "ok" THEN <<[clause |-> "C09.att_renders", why |-> r.attst]>>
         \* Syntax.tla spells 32-bit address forms only: renderings of 16-bit addressing are not read
         ELSE IF \E j \in 1..Len(d.ops) : d.ops[j].k = "mem" /\ d.ops[j].aw = 16 THEN <<>>
         ELSE LET dd == DenDiff(Denote(r.il), Denote(r.al)) IN
              IF dd = "" THEN <<>> ELSE <<[clause |-> "C09.same_denotation", why |-> dd]>>)
        \* "fed back to the matching parser yields candidates containing the original encoding": asked of encodings
        \* without ignored bits, i.e. those GNU as reproduces from the rendering
        \o (IF r.gi # r.b \/ r.h \in ToSet(r.ai.c) THEN <<>> ELSE <<[clause |-> "C09.asm_intel", why |-> r.ai.st]>>)
        \o (IF r.attst # "ok" \/ r.ga # r.b \/ r.h \in ToSet(r.aa.c) THEN <<>> ELSE <<[clause |-> "C09.asm_att", why |-> r.aa.st]>>)
        \o (IF Emittable(d) THEN Gas(r.gi, d, "intel") \o (IF r.attst = "ok" THEN Gas(r.ga, d, "att") ELSE <<>>) ELSE <<>>)
VARIABLES i, cnt
Init == i = 0 /\ cnt = [judged |-> 0, emittable |-> 0]
Next == \/ /\ i < Len(Recs) /\ i' = i + 1
           /\ LET r == Recs[i']  d == TLCEval(D!Decode(r.b, 32))
                  j == d.ok /\ d.len = Len(r.b) /\ D!Meaningful(d.pfx, d) /\ r.st = "instr" IN
              /\ cnt' = [judged |-> cnt.judged + (IF j THEN 1 ELSE 0), emittable |-> cnt.emittable + (IF j /\ Emittable(d) THEN 1 ELSE 0)]
              /\ LET v == Verdict(r) IN
                 IF v = <<>> THEN TRUE ELSE PrintT("VERDICT " \o ToJson([id |-> r.id, v |-> v]))
        \/ /\ i = Len(Recs) /\ i' = i + 1 /\ cnt' = cnt
           /\ PrintT("STATS " \o ToJson(cnt))
           /\ PrintT("CONSUMED " \o ToString(Len(Recs)))
=============================================================================
