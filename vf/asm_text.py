"""Trusted text layer for assembly lines (DESIGN 3.6).  `render` flattens a structured line produced by
Syntax.tla `Layout` to characters; `tokenise` reads characters back into a structured line for
Syntax.tla `Denote`.  No knowledge of instructions lives here: which spellings exist and what they
mean is decided in TLA+ (spec/Syntax.tla, spec/Spelling.tla)."""
import re
from .core import unlimbs, limbs


def _case(s, how):
    if how == 'upper':
        return s.upper()
    if how == 'mixed':
        return s[:1].upper() + s[1:]
    return s


def _num(n):
    v = unlimbs(n['mag'])
    # 'dec0': decimal with a leading zero, used only where it cannot be read as another number (GNU as reads 0NN as octal:
    # below 8 the decimal and the octal reading agree)
    t = {'dec': '%d', 'hexl': '0x%x', 'hexu': '0X%X', 'dec0': '0%d' if 0 < v < 8 else '%d'}[n['nb']] % v
    return ('-' if n['neg'] else '') + t


def _terms(ts, st, wide):
    out = ''
    for k, t in enumerate(ts):
        if t['t'] == 'reg':
            x = _case(t['r'], st['rc']) + ('*%d' % t['sc'] if t['sc'] else '')
        elif t['t'] == 'sym':
            x = t['s']
        else:
            x = _num(t['num'])
        sign = '-' if t['neg'] else ('+' if k else '')
        out += (' %s ' % sign if wide and sign and k else sign) + x
    return out


def render_op(o, st):
    wide = st['sp'] == 'wide'
    if o['k'] == 'reg':
        return ('*' if o['star'] else '') + ('%' if o['pct'] else '') + _case(o['name'], st['rc'])
    if o['k'] == 'imm':
        s = o['sym']
        if o['hasnum']:
            n = _num(o['num'])
            s = s + ('+' if s and not n.startswith('-') else '') + n
        return ('$' if o['dollar'] else '') + (_case('offset', st['kc']) + ' ' + _case('flat', st['kc']) + ':' if o['off'] else '') + s
    if o['k'] == 'mem':
        kw = (_case(o['kw'], st['kc']) + ' ' + _case('ptr', st['kc']) + ' ') if o['kw'] else ''
        seg = (_case(o['seg'], st['rc']) + ':') if o['seg'] else ''
        inner = _terms(o['terms'], st, wide)
        br = ('[ %s ]' if wide else '[%s]') % inner if o['terms'] else ''
        return kw + seg + _terms(o['out'], st, False) + br
    if o['k'] == 'amem':
        seg = ('%' + _case(o['seg'], st['rc']) + ':') if o['seg'] else ''
        d = _num(o['d']) if o['hasd'] else ''
        s = o['sym'] + ('+' if o['sym'] and d and not d.startswith('-') else '') + d
        parts = []
        if o['base'] or o['index']:
            parts = ['%' + _case(o['base'], st['rc']) if o['base'] else '']
            if o['index']:
                parts.append('%' + _case(o['index'], st['rc']))
                if o['sc']:
                    parts.append('%d' % o['sc'])
        sep = ' , ' if wide else ','
        par = (('( %s )' if wide else '(%s)') % sep.join(parts)) if parts else ''
        return ('*' if o['star'] else '') + seg + s + par
    raise ValueError('operand kind %r' % (o,))


def render(line):
    """structured line (Syntax.tla Layout) -> text"""
    st = line['st']
    ops = [render_op(o, st) for o in line['ops']]
    sep = {'canon': ', ', 'tight': ',', 'wide': ' ,\t'}[st['sp']]
    gap = '  \t' if st['sp'] == 'wide' else ' '
    return line['mn'] + (gap + sep.join(ops) if ops else '')


# ---------------------------------------------------------------- text -> structured line
_KW = ('byte', 'word', 'dword', 'fword', 'qword', 'tbyte', 'xmmword', 'xword', 'single', 'double')
_NUM = re.compile(r'(0[xX][0-9a-fA-F]+|\d+)$')
_REGS = set('al cl dl bl ah ch dh bh ax cx dx bx sp bp si di eax ecx edx ebx esp ebp esi edi es cs ss ds fs gs st'.split()
            + ['%s%d' % (p, i) for p in ('cr', 'dr', 'mm', 'xmm') for i in range(8)] + ['st(%d)' % i for i in range(8)])
Z = {'neg': False, 'mag': [0, 0, 0, 0], 'nb': 'dec'}


def _mknum(t, neg=False):
    v = int(t, 0) if t[:2].lower() == '0x' else int(t)
    return {'neg': neg, 'mag': limbs(v, 32), 'nb': 'dec' if t[:2].lower() != '0x' else ('hexl' if t[1] == 'x' else 'hexu')}


def _split_terms(s):
    """'ebx+esi*2-0x10' -> list of Term"""
    out = []
    for sign, body in re.findall(r'([+-]?)([^+-]+)', s.replace(' ', '')):
        t = {'t': 'sym', 'neg': sign == '-', 'r': '', 'sc': 0, 'num': dict(Z), 's': ''}
        m = re.match(r'%?([a-z]+[0-9]?)(?:\*(\d+))?$', body.lower())
        m2 = re.match(r'(\d+)\*%?([a-z]+)$', body.lower())
        if _NUM.match(body):
            t.update(t='num', num=_mknum(body))
        elif m and m.group(1) in _REGS:
            t.update(t='reg', r=m.group(1), sc=int(m.group(2) or 0))
        elif m2 and m2.group(2) in _REGS:
            t.update(t='reg', r=m2.group(2), sc=int(m2.group(1)))
        else:
            t.update(s=body)
        out.append(t)
    return out


def _imm(s, dollar):
    off = bool(re.match(r'offset\s+flat\s*:', s, re.I))
    s = re.sub(r'^offset\s+flat\s*:\s*', '', s, flags=re.I).replace(' ', '')
    ts = _split_terms(s)
    nums = [t for t in ts if t['t'] == 'num']
    syms = [t for t in ts if t['t'] == 'sym']
    if len(nums) > 1 or len(syms) > 1 or len(nums) + len(syms) != len(ts) or any(t['neg'] for t in syms):
        return {'k': 'bad', 'why': 'immediate ' + s}
    num = dict(nums[0]['num'], neg=nums[0]['neg']) if nums else dict(Z)
    return {'k': 'imm', 'dollar': dollar, 'off': off, 'sym': syms[0]['s'] if syms else '', 'hasnum': bool(nums), 'num': num}


def tokenise_op(s, syn):
    s = s.strip()
    low = re.sub(r'\s+', '', s.lower())
    if syn == 'att':
        star = low.startswith('*')
        low = low.lstrip('*')
        if low.startswith('$'):
            return _imm(s.strip().lstrip('*')[1:], True)
        if low.startswith('%') and low[1:] in _REGS:
            return {'k': 'reg', 'name': low[1:], 'pct': True, 'star': star}
        m = re.match(r'(?:%([a-z]s):)?([^()]*)(?:\((%[a-z]+)?(?:,(%[a-z]+))?(?:,(\d+))?\))?$', low)
        if not m:
            return {'k': 'bad', 'why': 'operand ' + s}
        d = _imm(re.sub(r'\s+', '', s.lstrip('*').split(':')[-1].split('(')[0]), False) if m.group(2) else None
        if d is not None and d['k'] == 'bad':
            return d
        return {'k': 'amem', 'seg': m.group(1) or '', 'star': star, 'sym': d['sym'] if d else '', 'hasd': bool(d and d['hasnum']),
                'd': d['num'] if d and d['hasnum'] else dict(Z), 'base': (m.group(3) or '%')[1:], 'index': (m.group(4) or '%')[1:],
                'sc': int(m.group(5) or 0)}
    name = low.lstrip('%')
    if name in _REGS:
        return {'k': 'reg', 'name': name, 'pct': low.startswith('%'), 'star': False}
    m = re.match(r'(?:(%s)\s+ptr\s+)?(?:([a-z]s)\s*:\s*)?([^\[\]]*)(?:\[([^\]]*)\])?\s*$' % '|'.join(_KW), s, re.I)
    if not m:
        return {'k': 'bad', 'why': 'operand ' + s}
    kw, seg, out, inner = m.group(1), m.group(2), m.group(3).strip(), m.group(4)
    if inner is None and not kw and not seg:
        return _imm(s, False)
    return {'k': 'mem', 'kw': {'xword': 'tbyte', 'single': 'dword', 'double': 'qword'}.get((kw or '').lower(), (kw or '').lower()),
            'seg': (seg or '').lower(), 'out': _split_terms(out) if out else [], 'terms': _split_terms(inner) if inner else []}


def tokenise(text, syn):
    """text -> structured line; prefixes (lock/rep...) are returned in 'pfx'"""
    words = text.strip().split(None, 1)
    pfx = []
    while words and words[0].lower() in ('lock', 'rep', 'repz', 'repe', 'repnz', 'repne', 'notrack', 'rep;') and len(words) > 1:
        pfx.append(words[0].lower().rstrip(';'))
        words = words[1].split(None, 1)
    mn = words[0].lower() if words else ''
    rest = words[1] if len(words) > 1 else ''
    ops, depth, cur = [], 0, ''
    for ch in rest:
        depth += ch in '([' and 1 or (ch in ')]' and -1 or 0)
        if ch == ',' and depth == 0:
            ops.append(cur)
            cur = ''
        else:
            cur += ch
    if cur.strip() or ops:
        ops.append(cur)
    return {'syn': syn, 'mn': mn, 'pfx': pfx, 'ops': [tokenise_op(o, syn) for o in ops],
            'st': {'rc': 'lower', 'kc': 'upper', 'sp': 'canon'}}
