------------------------------- MODULE T_C03 -------------------------------
(* C->S judge for C03: assemble / disassemble is a fixpoint.                 *)
(* Events of one record, in the order they were issued:                      *)
(*   dir = 1:  Asm(line) -> cands;  for every candidate b:                   *)
(*             Dis(b) -> (st, len, text);  Asm(text) -> cands2               *)
(*   dir = 2:  b from the decode space; GnuAs(spelling of Decode(b)) -> gas; *)
(*             Dis(b) -> (st, len, text);  Asm(text) -> cands2               *)
(* Record [id, dir, cands, gas]: cands[k] = [h (hex), n (bytes), st, len,    *)
(*   st2, c2];  gas = hex produced by GNU as for the canonical spelling of   *)
(*   the reference decode ("" when there is none / rejected).                *)
(* dir 1: every candidate is accepted by the disassembler, consumed          *)
(*   entirely, and is among the candidates of its own rendering.             *)
(* dir 2: b is canonical when GNU as reproduces it from the reference        *)
(*   disassembly (the property's definition); then the same three clauses.   *)
EXTENDS Sequences, Integers, FiniteSets, TLC, Json, IOUtils
Recs == JsonDeserialize(IOEnv.TRACE)
ToSet(s) == {s[k] : k \in 1..Len(s)}
One(c, k) == IF c.st # "instr" THEN <<[k |-> k, clause |-> "C03.dis_accepts", how |-> c.st]>>
             ELSE IF c.len # c.n THEN <<[k |-> k, clause |-> "C03.len", how |-> ToString(c.len)]>>
             ELSE IF c.h \notin ToSet(c.c2) THEN <<[k |-> k, clause |-> "C03.fixpoint", how |-> IF c.st2 = "list" /\ c.c2 = <<>> THEN "empty" ELSE c.st2]>>
             ELSE <<>>
Canonical(r) == r.gas # "" /\ r.gas = r.cands[1].h
Verdict(r) == LET RECURSIVE go(_)
                  go(k) == IF k > Len(r.cands) THEN <<>> ELSE One(r.cands[k], k) \o go(k + 1)
              \* direction 2 quantifies over canonical strings the disassembler accepts (not decoding, or failing while
              \* decoding / rendering, is C10's subject)
              IN IF r.dir = 1 THEN go(1) ELSE IF Canonical(r) /\ r.cands[1].st = "instr" THEN go(1) ELSE <<>>
VARIABLES i, ncanon
Init == i = 0 /\ ncanon = 0
Next == \/ /\ i < Len(Recs) /\ i' = i + 1
           /\ ncanon' = ncanon + (IF Recs[i'].dir = 2 /\ Canonical(Recs[i']) THEN 1 ELSE 0)
           /\ LET v == Verdict(Recs[i']) IN
              IF v = <<>> THEN TRUE ELSE PrintT("VERDICT " \o ToJson([id |-> Recs[i'].id, v |-> v]))
        \/ /\ i = Len(Recs) /\ i' = i + 1 /\ ncanon' = ncanon
           /\ PrintT("STATS " \o ToJson([canonical |-> ncanon]))
           /\ PrintT("CONSUMED " \o ToString(Len(Recs)))
=============================================================================
