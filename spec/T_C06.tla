------------------------------- MODULE T_C06 -------------------------------
(* C->S judge for C06: symbolic evaluation denotes substitution.             *)
(* Record: [id, e, ids (<< <<name, tree>> >> bound identifiers), cells        *)
(*   (<< <<address tree over init symbols, width, tree>> >> bound cells),     *)
(*   st ("ok"|"exc"|"timeout"), r (result tree), envs (valuations of every    *)
(*   free symbol), allconst (1 when every input of e is bound to a constant)] *)
(* For each valuation val: Eval(r, val) = Eval(e, val o state) where          *)
(* val o state binds each bound identifier to the value of its binding and    *)
(* overwrites the bytes of each bound cell with the value of its binding.     *)
EXTENDS IR, Json, IOUtils
Recs == JsonDeserialize(IOEnv.TRACE)
BoundNames(r) == {r.ids[i][1] : i \in 1..Len(r.ids)}
BindingOf(r, n) == r.ids[CHOOSE i \in 1..Len(r.ids) : r.ids[i][1] = n][2]
Bytes(v, nb) == [i \in 1..nb |-> G(v, i)]
RECURSIVE CellOver(_,_,_)
CellOver(r, val, i) == IF i > Len(r.cells) THEN <<>> ELSE
   LET a0 == Norm(Eval(r.cells[i][1], val), AddrW)
       nb == r.cells[i][2] \div 8
       bv == Eval(r.cells[i][3], val)
   IN [j \in 1..nb |-> <<Add(a0, FromNat(j - 1, AddrW), AddrW), G(bv, j)>>] \o CellOver(r, val, i + 1)
Compose(r, val) ==
   [id |-> [n \in DOMAIN val.id |-> IF n \in BoundNames(r) THEN Eval(BindingOf(r, n), val) ELSE val.id[n]],
    seed |-> val.seed,
    over |-> val.over \o CellOver(r, val, 1)]
Verdict(r) ==
   IF ~WellTyped(r.e) THEN <<[clause |-> "input.illtyped"]>>
   ELSE IF r.st # "ok" THEN <<[clause |-> "C06.exception", st |-> r.st]>>
   ELSE IF r.r.k = "other" THEN <<[clause |-> "C06.result_kind", kind |-> r.r.n]>>
   ELSE IF ~WellTyped(r.r) THEN <<[clause |-> "C06.welltyped"]>>
   ELSE IF Width(r.r) # Width(r.e) THEN <<[clause |-> "C06.width", we |-> Width(r.e), wr |-> Width(r.r)]>>
   ELSE LET bad == {j \in 1..Len(r.envs) : Eval(r.r, r.envs[j]) # Eval(r.e, Compose(r, r.envs[j]))} IN
        IF bad # {} THEN LET j == CHOOSE j \in bad : \A k \in bad : j <= k IN
             <<[clause |-> "C06.value", env |-> r.envs[j], expected |-> Eval(r.e, Compose(r, r.envs[j])), got |-> Eval(r.r, r.envs[j]), nbad |-> Cardinality(bad)]>>
        ELSE IF r.allconst = 1 /\ r.r.k # "int" THEN <<[clause |-> "C06.constant_folding"]>>
        ELSE <<>>
VARIABLE i
Init == i = 0
Next == \/ /\ i < Len(Recs) /\ i' = i + 1
           /\ LET v == Verdict(Recs[i']) IN
              IF v = <<>> THEN TRUE ELSE PrintT("VERDICT " \o ToJson([id |-> Recs[i'].id, v |-> v]))
        \/ /\ i = Len(Recs) /\ i' = i + 1 /\ PrintT("CONSUMED " \o ToString(Len(Recs)))
=============================================================================
