"""C06 - symbolic evaluation is sound substitution.
S->C: IRGen.tla trees (z-identifiers of the generator alphabet denote the memory cells of a fixed address menu) x
machine states from C06Space.tla (each identifier / cell absent, constant or symbolic), plus source expressions of
lifted x86 semantics; miasmX evaluates a fresh copy in eval_abs(state); C->S: T_C06.tla compares
Eval(result, val) with Eval(e, val o state) for every valuation of the free symbols."""
import os, json, random, hashlib
from . import core, irlib, expr_json as EJ
from .core import limbs

SLOTS = ["x8", "y8", "x32", "y32", "p32", "c8", "c32", "k32"]
WID = {"x8": 8, "y8": 8, "x32": 32, "y32": 32, "p32": 32, "c8": 8, "c32": 32, "k32": 32}
CELL = {"c8": ("p", 0x20, 8), "c32": ("p", 0x40, 32), "k32": ("k", 0x5000, 32)}
CONST = {"x8": (0x7f, 0x80), "y8": (1, 0xff), "x32": (3, 0x80000000), "y32": (0xffffffff, 0x21), "p32": (0x4000, 0x7ffffff0),
         "c8": (0, 0x9c), "c32": (0x12345678, 0xffffffff), "k32": (1, 0x80000001)}


def ident(n, w):
    return {'k': 'id', 'w': w, 'n': n}


def const(v, w):
    return {'k': 'int', 'w': w, 'v': limbs(v, w)}


def plus(a, c):
    return {'k': 'op', 'w': a['w'], 'o': '+', 'u': 0, 'a': [a, const(c, a['w'])]}


def binding(slot, choice):
    w = WID[slot]
    if choice == 'absent':
        return None
    if choice == 'const1':
        return const(CONST[slot][0], w)
    if choice == 'const2':
        return const(CONST[slot][1], w)
    if choice == 'sym':
        return ident('init_' + slot, w)
    if choice == 'xref':
        # the binding mentions another identifier of the alphabet (which may be bound itself): simultaneous substitution
        other = {'x8': 'y8', 'x32': 'y32', 'c32': 'y32'}[slot]
        return {'k': 'op', 'w': w, 'o': '^' if w == 8 else '+', 'u': 0, 'a': [ident(other, w), const(0x55 if w == 8 else 0x100, w)]}
    return {'k': 'op', 'w': w, 'o': '^' if w == 8 else '+', 'u': 0, 'a': [ident('init_' + slot, w), const(0x55 if w == 8 else 0x100, w)]}


def cell_tree(slot):
    base, off, w = CELL[slot]
    addr = const(off, 32) if base == 'k' else plus(ident('p32', 32), off)
    return {'k': 'mem', 'w': w, 'a': [addr], 'g': []}


def z_to_cells(t, flip):
    """the generator's z-identifiers denote reads of the address menu: z8 -> the cell c8, or an 8-bit read at the
    address of the 32-bit cells c32 / k32 (narrower than the bound cell); z32 -> c32 / k32, or a 32-bit read at the
    address of the 8-bit cell c8 (wider than the bound cell), in rotation"""
    if t['k'] == 'id' and t['n'].startswith('z'):
        flip[0] = (flip[0] + 1) % 6
        if t['w'] == 8:
            c = cell_tree(['c8', 'c32', 'c8', 'k32', 'c8', 'c32'][flip[0]])
            return dict(c, w=8)
        c = cell_tree(['c32', 'k32', 'c32', 'c8', 'k32', 'c32'][flip[0]])
        return dict(c, w=32)
    if 'a' in t:
        t = dict(t, a=[z_to_cells(x, flip) for x in t['a']])
    return t


def has_gen_mem(t):
    return t['k'] == 'mem' or any(has_gen_mem(x) for x in t.get('a', []))


def gen_states(chk):
    h = hashlib.sha1(open(os.path.join(core.SPEC, 'C06Space.tla'), 'rb').read()).hexdigest()[:16]
    cf = os.path.join(core.VERIF, '.cache', 'c06space_%s.json' % h)
    os.makedirs(os.path.dirname(cf), exist_ok=True)
    if os.path.exists(cf):
        d = json.load(open(cf))
    else:
        dump = os.path.join(core.scratch(), 'c06.dump')
        r = core.run_tlc('C06Space', cfg_text='INIT Init\nNEXT Next\nINVARIANT TypeOK\nCHECK_DEADLOCK FALSE\n', extra=['-dump', dump], timeout=900)
        if not r.ok:
            raise core.MachineryError('C06Space failed:\n' + r.out[-2000:])
        sts = [s['st'] for s in core.read_dump(dump) if s['pos'] == len(SLOTS)]
        os.unlink(dump)
        d = {'states': sts, 'n': r.distinct, 't': r.generated}
        json.dump(d, open(cf, 'w'))
    chk.add_tlc({'states': d['n'], 'transitions': d['t']})
    return d['states']


def _eval_group(group):
    """one expression OBJECT evaluated in several machine states one after the other (a fresh machine per state, as in
    `for state in states: eval_abs(state).eval_expr(e, {})`): every result must still be the substitution"""
    eobj = EJ.from_json(group[0]['e'])
    out = []
    for j, c in enumerate(group):
        r = _eval(c, eobj)
        r['earlier_states'] = [g['st'] for g in group[:j]]
        out.append(r)
    return out


def _eval(case, eobj=None):
    """case: {e, st: choice list} -> observation record"""
    from miasmx.expression.expression_eval_abstract import eval_abs
    from miasmx.expression.expression_helper import expr_simp
    t, st = case['e'], case['st']
    b = {s: binding(s, c) for s, c in zip(SLOTS, st)}
    rec = {'id': case['id'], 'e': t, 'ids': [], 'cells': [], 'st': 'ok', 'r': {'k': 'none'}, 'choices': st}
    vars_ = {}
    for s in SLOTS[:5]:
        if b[s] is not None:
            vars_[EJ.from_json(ident(s, WID[s]))] = EJ.from_json(b[s])
            rec['ids'].append([s, b[s]])
    pb = b['p32'] if b['p32'] is not None else ident('p32', 32)
    for s in SLOTS[5:]:
        if b[s] is None:
            continue
        base, off, w = CELL[s]
        addr_t = const(off, 32) if base == 'k' else plus(pb, off)
        key_addr = expr_simp(EJ.from_json(addr_t))
        from miasmx.expression.expression import ExprMem
        vars_[ExprMem(key_addr, w)] = EJ.from_json(b[s])
        rec['cells'].append([EJ.to_json(key_addr), w, b[s]])
    def go(tree):
        m = eval_abs(vars_)
        return m.eval_expr(EJ.from_json(tree) if eobj is None else eobj, {})
    stt, r = irlib.guarded(go, t, 5)
    rec['st'] = stt
    if stt == 'ok':
        rec['r'] = EJ.to_json(r)
    elif stt == 'exc':
        rec['exc'] = r
    # every input constant?
    leaves_ok = True
    def walk(x, inaddr):
        nonlocal leaves_ok
        if x['k'] == 'id' and not inaddr:
            c = st[SLOTS.index(x['n'])] if x['n'] in SLOTS else 'absent'
            if not c.startswith('const'):
                leaves_ok = False
        if x['k'] == 'mem':
            slot = [s for s in CELL if cell_tree(s)['a'] == x['a'] and CELL[s][2] >= x['w']]
            if not slot or not st[SLOTS.index(slot[0])].startswith('const'):
                leaves_ok = False
            return
        for y in x.get('a', []):
            walk(y, inaddr)
    walk(t, False)
    rec['allconst'] = int(leaves_ok)
    return rec


LIFT_LINES = ['add eax, ebx', 'adc eax, 5', 'sub ecx, edx', 'sbb al, bl', 'and eax, 0xff', 'or ax, bx', 'xor eax, ecx', 'cmp eax, 1',
              'test eax, eax', 'inc eax', 'dec cx', 'neg eax', 'not bl', 'shl eax, 3', 'shr eax, cl', 'sar ax, 1', 'rol eax, 5', 'ror al, cl',
              'rcl eax, 1', 'rcr eax, cl', 'shld eax, ebx, 4', 'shrd eax, ebx, cl', 'mul ebx', 'mul bx', 'mul bl', 'imul ebx', 'imul bx',
              'imul eax, ebx', 'imul eax, ebx, 7', 'div ebx', 'div bx', 'idiv ebx', 'bsf eax, ebx', 'bsr eax, ebx', 'bt eax, 3',
              'movzx eax, bl', 'movsx eax, bx', 'cwde', 'lea eax, [ebx+ecx*4+8]', 'xchg eax, ebx', 'xadd eax, ebx', 'cmpxchg ebx, ecx',
              'setz al', 'setl bl', 'cmovz eax, ebx', 'cmovg ecx, edx', 'lahf', 'sahf', 'push eax', 'pop ebx', 'mov eax, [ebx+4]',
              'mov [ebx], al', 'bswap eax', 'stc', 'cmc',
              # a conditional of constants in a middle / upper slot of a composition
              'setz ah', 'setl bh', 'seta ch', 'setz BYTE PTR [ebx]', 'cmovz ax, bx',
              # shifts and rotates of 8/16-bit operands with counts up to and beyond the operand width (cl drawn from the boundary values)
              'rcl al, cl', 'rcr bl, cl', 'rcl ax, cl', 'rcr dx, cl', 'rcl al, 9', 'rcr ax, 17', 'rol al, cl', 'ror ax, cl', 'rol bl, 8', 'ror dx, 16',
              'shl al, cl', 'shr ax, cl', 'sar bl, cl', 'shr al, 9', 'sar ax, 17', 'shld ax, bx, cl', 'shrd ax, bx, 17']


def _lift_cases(args):
    """source expressions of lifted semantics with a random constant/symbolic/absent binding of each identifier"""
    seed, reps = args
    from miasmx.arch.ia32_arch import x86mnemo
    from miasmx.tools import emul_helper
    from miasmx.expression import expression as X
    from miasmx.expression.expression_eval_abstract import eval_abs
    from miasmx.tools.modint import uint32
    rnd = random.Random(seed)
    out = []
    for line in LIFT_LINES:
        try:
            ins = x86mnemo.dis(x86mnemo.asm(line)[0])
            affs = emul_helper.get_instr_expr(ins, X.ExprInt(uint32(0x1000 + ins.l)), [])
        except Exception as x:
            continue
        for a in affs or []:
            src = a.src
            t = EJ.to_json(src)
            idw = EJ.ids_of(t)
            for rep in range(reps):
                mode = rnd.choice(['allconst', 'mixed', 'mixed', 'sym'])
                rec = {'e': t, 'ids': [], 'cells': [], 'st': 'ok', 'r': {'k': 'none'}, 'line': line, 'dst': str(a.dst)}
                vars_ = {}
                allc = True
                nodes = {}
                def collect(e):
                    if isinstance(e, X.ExprId):
                        nodes[e.name] = e
                    elif isinstance(e, X.ExprMem):
                        collect(e.arg)
                    elif isinstance(e, X.ExprOp):
                        for y in e.args:
                            collect(y)
                    elif isinstance(e, X.ExprCond):
                        collect(e.cond); collect(e.src1); collect(e.src2)
                    elif isinstance(e, X.ExprSlice):
                        collect(e.arg)
                    elif isinstance(e, X.ExprCompose):
                        for y in e.args:
                            collect(y[0])
                collect(src)
                for n, node in sorted(nodes.items()):
                    w = node.size
                    c = 'const' if mode == 'allconst' else 'sym' if mode == 'sym' else rnd.choice(['absent', 'const', 'sym'])
                    if c == 'absent':
                        allc = False
                        continue
                    if c == 'const':
                        bt = const(rnd.choice(irlib.boundary(w)) if rnd.random() < 0.7 else rnd.getrandbits(w), w)
                    else:
                        allc = False
                        bt = ident('init_' + n, w)
                    vars_[node.copy()] = EJ.from_json(bt)
                    rec['ids'].append([n, bt])
                has_mem = 'mem' in json.dumps(t)
                rec['allconst'] = int(allc and not has_mem)
                def go(_):
                    return eval_abs(vars_).eval_expr(src.copy(), {})
                stt, r = irlib.guarded(go, None, 5)
                rec['st'] = stt
                if stt == 'ok':
                    rec['r'] = EJ.to_json(r)
                elif stt == 'exc':
                    rec['exc'] = r
                out.append(rec)
    return out


def fold_trees(rnd, n):
    """structured trees aimed at the evaluator's folding branches: concatenations whose parts are constants, identifiers,
    slices and conditionals with constant arms (0..4 of them), conditionals of conditionals, n-ary operators mixing
    constants and identifiers, slices of all of these"""
    def c(w):
        return const(rnd.choice(irlib.boundary(w)) if rnd.random() < 0.6 else rnd.getrandbits(w), w)

    def leaf(w):
        r = rnd.random()
        if w == 8:
            return c(8) if r < 0.35 else ident(rnd.choice(['x8', 'y8']), 8) if r < 0.8 else dict(cell_tree('c8'))
        if w == 32:
            return c(32) if r < 0.35 else ident(rnd.choice(['x32', 'y32']), 32) if r < 0.8 else dict(cell_tree(rnd.choice(['c32', 'k32'])))
        lo = rnd.choice([0, 8, 16]) if w == 16 else 0
        return c(w) if r < 0.4 else {'k': 'slice', 'w': w, 'lo': lo, 'hi': lo + w, 'a': [ident(rnd.choice(['x32', 'y32']), 32)]}

    def cnd():
        r = rnd.random()
        if r < 0.5:
            return ident(rnd.choice(['x8', 'y8']), 8)
        if r < 0.7:
            return {'k': 'op', 'w': 8, 'o': '==', 'u': 0, 'a': [ident(rnd.choice(['x8', 'y8']), 8), c(8)]}
        if r < 0.85:
            # the operator of the cross-referencing bindings (x8 := y8 ^ 0x55, x32 := y32 + 0x100): the evaluated condition is
            # re-associated by the simplifier
            return ({'k': 'op', 'w': 8, 'o': '^', 'u': 0, 'a': [ident('x8', 8), rnd.choice([ident('y8', 8), c(8)])]} if rnd.random() < 0.5 else
                    {'k': 'op', 'w': 32, 'o': '+', 'u': 0, 'a': [ident('x32', 32), rnd.choice([ident('y32', 32), c(32)])]})
        return ident(rnd.choice(['x32', 'y32']), 32)

    def part(w, d):
        r = rnd.random()
        if r < 0.45 or d == 0:
            return leaf(w)
        if r < 0.85:
            return {'k': 'cond', 'w': w, 'a': [cnd(), c(w) if rnd.random() < 0.8 else part(w, d - 1), c(w) if rnd.random() < 0.8 else part(w, d - 1)]}
        if w in (8, 32):
            return nary(w, d - 1)
        return leaf(w)

    def nary(w, d):
        o = rnd.choice(['+', '^', '&', '|', '*'])
        return {'k': 'op', 'w': w, 'o': o, 'u': 0, 'a': [part(w, d) for _ in range(rnd.choice([2, 3, 3, 4]))]}

    def compose(w, d):
        lay = rnd.choice({16: [[8, 8]], 32: [[8, 8, 16], [16, 16], [8, 24], [8, 8, 8, 8], [16, 8, 8], [24, 8]]}[w])
        args, sl, pos = [], [], 0
        for pw in lay:
            args.append(part(pw, d) if pw in (8, 16, 32) else {'k': 'slice', 'w': 24, 'lo': rnd.choice([0, 8]), 'hi': 0, 'a': [ident(rnd.choice(['x32', 'y32']), 32)]}
                        if rnd.random() < 0.5 else const(rnd.getrandbits(24), 32))
            if args[-1]['k'] == 'slice' and args[-1]['hi'] == 0:
                args[-1]['hi'] = args[-1]['lo'] + 24
            sl.append([pos, pos + pw])
            pos += pw
        return {'k': 'compose', 'w': w, 'a': args, 's': sl}

    out = []
    while len(out) < n:
        r = rnd.random()
        w = rnd.choice([16, 32, 32])
        if r < 0.55:
            t = compose(w, 1)
        elif r < 0.7:
            t = {'k': 'cond', 'w': 32, 'a': [cnd(), part(32, 1), part(32, 1)]}
        elif r < 0.85:
            t = nary(rnd.choice([8, 32]), 1)
        else:
            src = compose(32, 1) if rnd.random() < 0.6 else part(32, 1)
            sw = rnd.choice([8, 16])
            lo = rnd.choice([0, 8, 16, 32 - sw])
            t = {'k': 'slice', 'w': sw, 'lo': lo, 'hi': lo + sw, 'a': [src]}
        out.append(t)
    return out


def envs_for(rec, rnd, n):
    idw = EJ.ids_of(rec['e'])
    for nm, bt in rec['ids']:
        EJ.ids_of(bt, idw)
        idw.setdefault(nm, bt['w'])
    for a, w, bt in rec['cells']:
        EJ.ids_of(a, idw)
        EJ.ids_of(bt, idw)
    if rec['r'].get('k') not in ('none', 'other'):
        EJ.ids_of(rec['r'], idw)
    return irlib.make_envs(idw, n, rnd)


def min_op(t):
    """operator inventory of the expression, for finding keys"""
    ops = set()
    def walk(x):
        if x['k'] == 'op':
            ops.add(x['o'])
        elif x['k'] in ('slice', 'compose', 'cond', 'mem'):
            ops.add(x['k'])
        for y in x.get('a', []):
            walk(y)
    walk(t)
    return ops


def keyof(rec, f):
    key = {'clause': f['clause']}
    if f['clause'] == 'C06.exception':
        import re
        key['how'] = rec['st']
        key.update(rec.get('exc', {}) if isinstance(rec.get('exc'), dict) else {})
        basic = set('+ - * & | ^ << >> a>> <<< >>> == parity ! slice compose cond mem'.split())
        key['ops'] = ','.join(sorted(set(re.sub(r'[0-9]+', '', o) for o in min_op(rec['e']) if o not in basic)))
        if key.get('exc') == 'KeyError' and key.get('key'):
            key['ops'] = re.sub(r'[0-9]+', '', key.pop('key'))       # the operator that has no evaluator
    else:
        key['root'] = rec['e']['k'] + ':' + rec['e'].get('o', '')
        key['nargs'] = len(rec['e'].get('a', []))
        key['allconst'] = rec.get('allconst', 0)
    return key


def run(tier, chk):
    rnd = random.Random(chk.seed)
    negative_control(chk)
    quick = tier == 'quick'
    states = gen_states(chk)
    trees = irlib.gen_trees(3, [8, 32], 3, irlib.BIN8, ['-', 'parity'], True, chk)
    trees = [t for t in trees if not has_gen_mem(t)]
    flip = [0]
    trees = [z_to_cells(t, flip) for t in trees]
    if quick:
        trees = [t for t in trees if rnd.random() < 0.12]
    per = 2 if quick else 4
    cases = []
    for t in trees:
        for _ in range(per):
            cases.append({'id': len(cases), 'e': t, 'st': rnd.choice(states)})
        # and one all-constant state
        cases.append({'id': len(cases), 'e': t, 'st': [rnd.choice(['const1', 'const2']) for _ in SLOTS]})
    nstd = len(cases)
    for t in fold_trees(rnd, 3000 if quick else 30000):
        for _ in range(2):
            cases.append({'id': len(cases), 'e': t, 'st': rnd.choice(states)})
        cases.append({'id': len(cases), 'e': t, 'st': [rnd.choice(['const1', 'const2']) for _ in SLOTS]})
        cases.append({'id': len(cases), 'e': t, 'st': [rnd.choice(['absent', 'sym']) for _ in SLOTS]})
    chk.cov['folding_family_cases'] = len(cases) - nstd
    recs = irlib.pmap(_eval, cases)
    # the same expression object under several states in a row (absent / symbolic bindings first, constants last)
    groups = []
    pool = trees + fold_trees(rnd, 500 if quick else 5000)
    for t in rnd.sample(pool, min(len(pool), 1500 if quick else 15000)):
        sts = [[rnd.choice(['absent', 'sym']) for _ in SLOTS], rnd.choice(states), [rnd.choice(['const1', 'const2']) for _ in SLOTS]]
        groups.append([{'id': len(recs) + 3 * len(groups) + j, 'e': t, 'st': st_} for j, st_ in enumerate(sts)])
    for g in irlib.pmap(_eval_group, groups):
        recs += g
    chk.cov['same_object_under_several_states'] = 3 * len(groups)
    lifted = []
    for chunk in irlib.pmap(_lift_cases, [(chk.seed * 100 + k, 2 if quick else 6) for k in range(8)], chunk=1):
        lifted += chunk
    for r in lifted:
        r['id'] = len(recs)
        recs.append(r)
    for r in recs:
        r['envs'] = envs_for(r, rnd, 6 if quick else 12)
    chk.cov['evaluations'] = len(recs)
    chk.cov['distinct_nontrivial'] = sum(1 for r in recs if r['st'] == 'ok' and r['r'] != r['e'])
    chk.cov['lifted_source_expressions'] = len(lifted)
    chk.cov['rule'] = ('cases = IRGen.tla trees (z-identifiers = cells of the address menu) x C06Space.tla machine states + source expressions of '
                       'lifted x86 semantics with constant/symbolic/absent register bindings; non-trivial = evaluation changed the expression')
    rnd.shuffle(recs)
    verdicts, st = core.judge('T_C06', recs, timeout=3000)
    chk.add_tlc(st)
    chk.cov['traces_validated_against_impl'] = len(recs)
    for r in recs[:3]:
        chk.sample({'e': EJ.show(r['e']), 'bound': [(n, EJ.show(b)) for n, b in r['ids']],
                    'cells': [(EJ.show(a), w, EJ.show(b)) for a, w, b in r['cells']], 'result': EJ.show(r['r']) if r['st'] == 'ok' and r['r']['k'] not in ('none', 'other') else r['st']})
    byid = {r['id']: r for r in recs}
    skipped = 0
    for v in verdicts:
        r = byid[v['id']]
        f = v['v'][0]
        if f['clause'] == 'input.illtyped':      # ill-typed lifted expressions are C11's subject, not C06's
            skipped += 1
            continue
        if f['clause'] == 'C06.exception' and r.get('exc', {}).get('exc') == 'ValueError' and r['exc'].get('line', '').startswith("raise ValueError('div"):
            skipped += 1                         # documented outcome: division by zero / quotient overflow has no value
            continue
        chk.cov['skipped_illtyped_or_div_fault'] = skipped
        chk.violation(keyof(r, f), {'e': r['e'], 'e_text': EJ.show(r['e']), 'ids': r['ids'], 'cells': r['cells'], 'line': r.get('line'),
                                    'choices': r.get('choices'), 'earlier_states_same_object': r.get('earlier_states', []),
                                    'result_text': EJ.show(r['r']) if r['st'] == 'ok' and r['r']['k'] not in ('none', 'other') else r['st'], 'verdict': f})


def negative_control(chk):
    x = ident('x8', 8)
    e = {'k': 'op', 'w': 8, 'o': '+', 'u': 0, 'a': [x, cell_tree('c8')]}
    init = ident('init_x8', 8)
    good = {'k': 'op', 'w': 8, 'o': '+', 'u': 0, 'a': [init, const(0x9c, 8)]}
    bad = {'k': 'op', 'w': 8, 'o': '+', 'u': 0, 'a': [init, const(0x9d, 8)]}
    unsub = {'k': 'op', 'w': 8, 'o': '+', 'u': 0, 'a': [init, cell_tree('c8')]}
    cells = [[plus(ident('p32', 32), 0x20), 8, const(0x9c, 8)]]
    envs = [{'id': {'x8': [1], 'init_x8': [7], 'p32': [0, 0x10, 0, 0]}, 'seed': 3, 'over': []}]
    base = {'e': e, 'ids': [['x8', init]], 'cells': cells, 'st': 'ok', 'envs': envs, 'allconst': 0}
    recs = [dict(base, id=0, r=good), dict(base, id=1, r=bad), dict(base, id=2, r=unsub),
            dict(base, id=3, r=good, allconst=1), dict(base, id=4, r={'k': 'none'}, st='exc')]
    verdicts, st = core.judge('T_C06', recs, shards=1)
    got = sorted((v['id'], v['v'][0]['clause']) for v in verdicts)
    want = [(1, 'C06.value'), (2, 'C06.value'), (3, 'C06.constant_folding'), (4, 'C06.exception')]
    chk.cov['negative_controls'].append({'name': 'wrong constant / unsubstituted bound cell / unfolded constant / exception rejected', 'ok': got == want, 'got': got})
    if got != want:
        raise core.MachineryError('C06 negative control failed: %r' % (got,))


def replay(path, chk):
    rp = json.load(open(path))
    d = rp['detail']
    irlib._init_worker(False)
    if d.get('choices'):
        sts = list(d.get('earlier_states_same_object') or []) + [d['choices']]
        recs = _eval_group([{'id': j, 'e': d['e'], 'st': st_} for j, st_ in enumerate(sts)])
    else:
        recs = [r for r in _lift_cases((chk.seed, 4)) if r.get('line') == d.get('line')]
        for i, r in enumerate(recs):
            r['id'] = i
    rnd = random.Random(chk.seed)
    for r in recs:
        r['envs'] = envs_for(r, rnd, 12)
    verdicts, st = core.judge('T_C06', recs, shards=1)
    chk.add_tlc(st)
    chk.cov['traces_validated_against_impl'] = len(recs)
    chk.cov['evaluations'] = len(recs)
    chk.sample({'e': d['e_text']})
    byid = {r['id']: r for r in recs}
    for v in verdicts:
        k = keyof(byid[v['id']], v['v'][0])
        print('replay: fails', k)
        chk.violation(k, d)
    return chk.finish()
