------------------------------- MODULE SymMem -------------------------------
(* Concrete little-endian byte memory and store/load histories (C07).        *)
(*                                                                            *)
(* An action is a record  [op, w, b, off, vk, k]:                             *)
(*   op  "st" | "ld"          w   access width in bits (8..128)               *)
(*   b   base kind "c" (a constant address) | "s" (a symbolic base)           *)
(*   off byte offset from the base (0..7)                                     *)
(*   vk  kind of the stored value: "c" a constant whose bytes are all         *)
(*       distinct, "s" a fresh symbol; "" for loads                           *)
(*   k   1-based index of the store among the stores of the history (0: load) *)
(* The memory is kept at the level of byte PROVENANCE so that it is visible   *)
(* in every value which store a byte comes from:                              *)
(*   mem : [<<b, off>> -> <<k, i>>]   byte i (1 = least significant) of the   *)
(*                                    value of store k; domain = written bytes*)
(*   a byte never written reads as <<0, off>> ("initial memory at off").      *)
(* T_C07 turns provenance into byte values under a valuation.  The reachable  *)
(* states of this module are the histories that are replayed on miasmX.       *)
EXTENDS BV, FiniteSets
CONSTANTS MaxStores,   \* bound on the number of stores of a history
          MaxLoads,    \* bound on the number of loads
          Offs, Ws, Bases, ValKinds,
          LoadLast     \* TRUE: a history ends with its first load (exhaustive tiers)
VARIABLES hist, mem
vars == <<hist, mem>>

NBytes(a) == a.w \div 8
Covers(a, x) == x[1] = a.b /\ x[2] >= a.off /\ x[2] < a.off + NBytes(a)
Footprint(a) == {<<a.b, a.off + i>> : i \in 0..(NBytes(a) - 1)}
EmptyMem == TLCEval([x \in {} |-> <<0, 0>>])

\* little-endian: byte i of the stored value goes to offset off + i - 1
Write(m, a) == TLCEval([x \in (DOMAIN m) \cup Footprint(a) |->
                          IF Covers(a, x) THEN <<a.k, x[2] - a.off + 1>> ELSE m[x]])
ByteAt(m, b, off) == IF <<b, off>> \in DOMAIN m THEN m[<<b, off>>] ELSE <<0, off>>
Read(m, a) == TLCEval([i \in 1..NBytes(a) |-> ByteAt(m, a.b, a.off + i - 1)])
Apply(m, a) == IF a.op = "st" THEN Write(m, a) ELSE m

\* memory after the first n actions of h
RECURSIVE ReplayFrom(_,_,_,_)
ReplayFrom(h, i, n, m) == IF i > n THEN m ELSE ReplayFrom(h, i + 1, n, Apply(m, h[i]))
Replay(h, n) == ReplayFrom(h, 1, n, EmptyMem)
\* what the load h[j] must return: the memory left by the actions before it
Expected(h, j) == Read(Replay(h, j - 1), h[j])
StoreOf(h, k) == h[CHOOSE i \in 1..Len(h) : h[i].op = "st" /\ h[i].k = k]

NStores(h) == Cardinality({i \in 1..Len(h) : h[i].op = "st"})
NLoads(h) == Cardinality({i \in 1..Len(h) : h[i].op = "ld"})
Ended(h) == LoadLast /\ NLoads(h) > 0

Store(w, b, off, vk) ==
   /\ ~Ended(hist) /\ NStores(hist) < MaxStores
   /\ LET a == [op |-> "st", w |-> w, b |-> b, off |-> off, vk |-> vk, k |-> NStores(hist) + 1] IN
      /\ hist' = Append(hist, a)
      /\ mem' = Write(mem, a)
Load(w, b, off) ==
   /\ ~Ended(hist) /\ NLoads(hist) < MaxLoads
   /\ hist' = Append(hist, [op |-> "ld", w |-> w, b |-> b, off |-> off, vk |-> "", k |-> 0])
   /\ UNCHANGED mem

Init == hist = <<>> /\ mem = EmptyMem
Next == \/ \E w \in Ws, b \in Bases, off \in Offs, vk \in ValKinds : Store(w, b, off, vk)
        \/ \E w \in Ws, b \in Bases, off \in Offs : Load(w, b, off)
Spec == Init /\ [][Next]_vars

\* obligations of the generator itself
TypeOK == /\ \A i \in 1..Len(hist) : hist[i].op \in {"st", "ld"} /\ hist[i].w \in Ws /\ hist[i].off \in Offs
          /\ \A x \in DOMAIN mem : mem[x][1] \in 1..MaxStores /\ mem[x][2] \in 1..16
\* the incrementally maintained memory is the fold of the history, every written byte belongs to
\* the last store covering it, and a load directly after the stores sees exactly that memory
ReplayOK == /\ mem = Replay(hist, Len(hist))
            /\ \A x \in DOMAIN mem :
                  LET ks == {hist[i].k : i \in {j \in 1..Len(hist) : hist[j].op = "st" /\ Covers(hist[j], x)}} IN
                  ks # {} /\ mem[x][1] = CHOOSE k \in ks : \A k2 \in ks : k2 <= k
=============================================================================
