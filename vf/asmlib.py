"""Shared pieces of the assembler-side checks (C02 C03 C09 C10-asm C19): canonical lines from AsmSpace.tla,
parallel execution of asm()/asm_att()/dis() with outcome classification."""
import os, sys, json, hashlib, signal, multiprocessing
from . import core, irlib

SPEC_DEPS = ('BV.tla', 'Syntax.tla', 'AsmSpace.tla')


def spec_hash(files, extra=''):
    h = hashlib.sha1()
    for f in files:
        h.update(open(os.path.join(core.SPEC, f), 'rb').read())
    h.update(extra.encode())
    return h.hexdigest()[:16]


def gen_lines(chk=None, level='full', timeout=1500):
    """Reachable states of AsmSpace.tla = canonical lines [mn, ops] (+ src).  Repo-independent -> cached."""
    cfg = 'CONSTANT Level = "%s"\nINIT Init\nNEXT Next\nINVARIANT LineOK\nCHECK_DEADLOCK FALSE\n' % level
    cdir = os.path.join(core.VERIF, '.cache')
    os.makedirs(cdir, exist_ok=True)
    cf = os.path.join(cdir, 'asmspace_%s.json' % spec_hash(SPEC_DEPS, cfg))
    if os.path.exists(cf):
        d = json.load(open(cf))
    else:
        dump = os.path.join(core.scratch(), 'asmspace.dump')
        r = core.run_tlc('AsmSpace', cfg_text=cfg, extra=['-dump', dump], timeout=timeout)
        if not r.ok:
            raise core.MachineryError('AsmSpace failed:\n' + r.out[-2000:])
        lines = [{'ins': st['ins'], 'src': st['src'], 'plaus': st['plaus']} for st in core.read_dump(dump)]
        os.unlink(dump)
        lines.sort(key=lambda l: json.dumps(l, sort_keys=True))
        d = {'lines': lines, 'states': r.distinct, 'transitions': r.generated}
        tmp = cf + '.%d' % os.getpid()
        json.dump(d, open(tmp, 'w'))
        os.rename(tmp, cf)
    if chk is not None:
        chk.add_tlc({'states': d['states'], 'transitions': d['transitions']})
    return d['lines']


# ---------------------------------------------------------------- running miasmX
_mn = None


def _init(restore=True):
    """import miasmX in this (worker) process.  With an empty PLY table directory ply/yacc.py read_table() leaves
    sys.path = [tempdir] behind (finding F-C10-asm-ply-syspath); whether a worker is hit depends on which worker writes
    the tables first, so the path is restored here to keep every worker alike.  The defect itself is observed
    deterministically by c10_asm.fresh_cache_probe (restore=False in a process of its own)."""
    global _mn
    irlib._init_worker(False)
    import logging
    logging.disable(logging.CRITICAL)
    sys.stdout = open(os.devnull, 'w')          # the lexers print "Illegal character ..."
    saved = list(sys.path)
    from miasmx.arch.ia32_arch import x86mnemo
    if restore:
        import miasmx.core.parse_ad          # otherwise imported (and its PLY tables built) lazily by the first asm() call
    if restore and sys.path != saved:
        sys.path[:] = saved
    _mn = x86mnemo


def asm_one(item):
    """item = (syntax, text) -> outcome {'st': list|reject|internal|timeout|other, 'c': [hex...], 'exc': {...}}
    reject = the assembler's own parse/encoding error (ValueError raised by parser/encoder, see parse_ad.p_error,
    ia32_att.p_error, mnemo_from_att, parse_mnemo); any other exception is internal."""
    syn, text = item
    if _mn is None:
        _init()
    fn = _mn.asm_att if syn == 'att' else _mn.asm
    old = signal.signal(signal.SIGALRM, irlib._alarm)
    irlib.arm(5)
    try:
        r = fn(text)
        irlib.disarm()
        if isinstance(r, list) and all(isinstance(x, bytes) for x in r):
            return {'st': 'list', 'c': [x.hex() for x in r]}
        return {'st': 'other', 'c': [], 'exc': {'exc': type(r).__name__, 'func': 'return value', 'line': repr(r)[:80]}}
    except irlib._TO:
        return {'st': 'timeout', 'c': []}
    except ValueError as x:
        irlib.disarm()
        return {'st': 'reject', 'c': [], 'exc': irlib.exc_key(x)}
    except RecursionError:
        irlib.disarm()
        return {'st': 'internal', 'c': [], 'exc': {'exc': 'RecursionError', 'func': '', 'line': ''}}
    except Exception as x:
        irlib.disarm()
        return {'st': 'internal', 'c': [], 'exc': irlib.exc_key(x)}
    finally:
        irlib.disarm()
        signal.signal(signal.SIGALRM, old)


def asm_after(item):
    """item = [(syntax, text) ..., (syntax, text)]: in a forked child of this worker (process state = the state right after
    import, whatever the worker did before) the lines are assembled in order; returns the outcome of the LAST one"""
    if _mn is None:
        _init()
    r, w = os.pipe()
    pid = os.fork()
    if pid == 0:
        try:
            os.close(r)
            out = None
            for it in item:
                out = asm_one(tuple(it))
            os.write(w, json.dumps(out).encode())
        finally:
            os._exit(0)
    os.close(w)
    data = b''
    while True:
        part = os.read(r, 65536)
        if not part:
            break
        data += part
    os.close(r)
    os.waitpid(pid, 0)
    if not data:
        return {'st': 'internal', 'c': [], 'exc': {'exc': 'ChildDied', 'func': 'asm_after', 'line': ''}}
    return json.loads(data)


def pmap(fn, items, chunk=500):
    """always in forked workers: importing miasmX with an empty PLY table directory leaves sys.path = [tempdir]
    (ply/yacc.py read_table), which must not happen to the harness process"""
    if not items:
        return []
    n = max(1, min(core.NCPU, len(items) // 100))
    ctx = multiprocessing.get_context('fork')
    with ctx.Pool(n, initializer=_init) as p:
        return p.map(fn, items, chunksize=max(1, min(chunk, len(items) // n)))


def run_asm(items):
    """[(syntax, text)] -> [outcome], in forked workers importing miasmX from VERIF_REPO"""
    return pmap(asm_one, items)


def fresh_asm(items, restore=True, env=None):
    """same, in one fresh interpreter per call batch (used to confirm that a finding does not depend on call order)"""
    p = core.run_py(['-c', 'import sys, json\nfrom vf import asmlib\nasmlib._init(%s)\nprint(json.dumps([asmlib.asm_one(tuple(x)) for x in json.load(sys.stdin)]), file=sys.__stdout__)' % restore],
                    input_obj=items, timeout=600, env=env)
    if p.returncode != 0:
        raise core.MachineryError('fresh_asm failed: ' + p.stderr[-1000:])
    return json.loads(p.stdout.strip().splitlines()[-1])


ALL_ACTS = ["RegCase", "KwCase", "Spacing", "NumBase", "ImmSign", "DispSign", "TermOrder", "DispOut", "Percent", "StBare", "ToAtt", "DispSplit", "ZeroDisp"]


def spell(lines, maxacts, acts, timeout=3000, chk=None):
    """Spelling.tla over `lines` (list of {'id', 'ins'}): returns the reachable (lid, pres, line) states.
    TLC checks the invariant DenoteOK on every state (a violated invariant is a machinery failure: our spec is wrong)."""
    d = core.scratch()
    lf = os.path.join(d, 'lines_%d.json' % os.getpid())
    json.dump([{'id': l['id'], 'ins': l['ins']} for l in lines], open(lf, 'w'))
    dump = os.path.join(d, 'spell_%d.dump' % os.getpid())
    cfg = ('CONSTANTS MaxActs = %d\n Acts = {%s}\nINIT Init\nNEXT Next\nINVARIANT DenoteOK\nCHECK_DEADLOCK FALSE\n'
           % (maxacts, ','.join('"%s"' % a for a in acts)))
    r = core.run_tlc('Spelling', cfg_text=cfg, env={'LINES': lf}, extra=['-dump', dump], timeout=timeout, heap='12g')
    if not r.ok:
        raise core.MachineryError('Spelling failed (invariant DenoteOK or evaluation):\n' + r.out[-3000:])
    out = []
    for st in core.read_dump(dump):
        out.append({'lid': lines[st['lid'] - 1]['id'], 'pres': st['pres'], 'line': st['line']})
    os.unlink(dump)
    os.unlink(lf)
    if chk is not None:
        chk.add_tlc(r)
    return out, r


def canon_lines(chk=None):
    """canonical lines with their canonical Intel layout and (where it exists) AT&T transliteration; cached"""
    cdir = os.path.join(core.VERIF, '.cache')
    cf = os.path.join(cdir, 'asmcanon_v3_%s.json' % spec_hash(SPEC_DEPS + ('Spelling.tla',)))
    if os.path.exists(cf):
        d = json.load(open(cf))
        if chk is not None:
            chk.add_tlc({'states': d['states'], 'transitions': d['transitions']})
        return d['lines']
    lines = gen_lines(chk)
    for i, l in enumerate(lines):
        l['id'] = i
    from . import asm_text
    sts, r = spell(lines, 1, ['ToAtt', 'DispSplit', 'NumBase'], chk=chk)
    for s in sts:
        if s['pres'].get('dsp', 'one') == 'one' and s['pres'].get('nb', 'dec') == 'dec':
            lines[s['lid']][s['line']['syn']] = s['line']
    for s in sts:
        if s['pres'].get('dsp', 'one') == 'pm':
            lines[s['lid']]['intel_split'] = s['line']           # the displacement written as constant arithmetic ([ebx+8-4])
        elif s['pres'].get('nb', 'dec') == 'dec0' and asm_text.render(s['line']) != asm_text.render(lines[s['lid']]['intel']):
            lines[s['lid']]['intel_dec0'] = s['line']            # small numbers with a leading zero (04)
    d = {'lines': lines, 'states': r.distinct, 'transitions': r.generated}
    tmp = cf + '.%d' % os.getpid()
    json.dump(d, open(tmp, 'w'))
    os.rename(tmp, cf)
    return lines


def op_shape(o):
    if o['k'] == 'reg':
        return o['c']
    if o['k'] == 'imm':
        return 'sym' if o['sym'] else 'imm'
    return ('m%d' % o['sz'] + ('S' if o['seg'] else '') + '[' + ('b' if o['b'] >= 0 else '') + ('i' if o['i'] >= 0 else '')
            + ('*s' if o['sc'] > 1 else '') + ('d' if any(o['d']) else '') + ('y' if o['sym'] else '') + ']')


def shape(ins):
    return ','.join(op_shape(o) for o in ins['ops'])


# ---------------------------------------------------------------- decode + re-assemble round trip, GNU as
def roundtrip_one(hexb):
    """dis(b) -> (len, Intel text, AT&T text); asm(Intel text) and asm_att(AT&T text).  Every step classified."""
    if _mn is None:
        _init()
    b = bytes.fromhex(hexb)
    r = {'st': 'absent', 'len': 0, 'text': '', 'att': '', 'attst': 'none', 'exc': None}
    old = signal.signal(signal.SIGALRM, irlib._alarm)
    irlib.arm(5)
    try:
        try:
            ins = _mn.dis(b)
            if ins is None:
                return r
            r['len'] = int(ins.l)
            r['text'] = str(ins)
            r['st'] = 'instr'
        except irlib._TO:
            r['st'] = 'timeout'
            return r
        except Exception as x:
            r['st'] = 'exc'
            r['exc'] = irlib.exc_key(x)
            return r
        try:
            r['att'] = ins.__str__(asm_format='att_syntax binutils')
            r['attst'] = 'ok'
        except irlib._TO:
            r['attst'] = 'timeout'
        except Exception as x:
            r['attst'] = 'exc'
            r['attexc'] = irlib.exc_key(x)
    finally:
        irlib.disarm()
        signal.signal(signal.SIGALRM, old)
    r['asm'] = asm_one(('intel', r['text']))
    if r['attst'] == 'ok':
        r['asm_att'] = asm_one(('att', r['att']))
    return r


def run_roundtrip(hexes):
    return pmap(roundtrip_one, hexes, chunk=300)


def gnu_as(texts, syn):
    """GNU as (an observed environment component): assemble each text on its own (`as --32`), -> list of hex | None"""
    import subprocess, re
    d = core.scratch()
    src, obj, binf = [os.path.join(d, 'gas_%d.%s' % (os.getpid(), e)) for e in ('s', 'o', 'bin')]
    head = '.intel_syntax noprefix\n' if syn == 'intel' else '.att_syntax\n'
    bad = set()
    for attempt in range(4):
        with open(src, 'w') as f:
            f.write(head + '.text\n')
            for k, t in enumerate(texts):
                f.write('L%d:\n%s\n' % (k, '' if k in bad or '\n' in t else t))
            f.write('L%d:\n' % len(texts))
        p = subprocess.run(['as', '--32', '-o', obj, src], stdout=subprocess.PIPE, stderr=subprocess.PIPE, universal_newlines=True, timeout=600)
        if p.returncode == 0:
            break
        new = set((int(m.group(1)) - 3) // 2 for m in re.finditer(r':(\d+): Error', p.stderr))
        if not new - bad:
            raise core.MachineryError('GNU as failed without naming a line: ' + p.stderr[:500])
        bad |= new
    else:
        raise core.MachineryError('GNU as: errors do not converge: ' + p.stderr[:500])
    subprocess.run(['objcopy', '-O', 'binary', '-j', '.text', obj, binf], check=True, timeout=600)
    blob = open(binf, 'rb').read()
    nm = subprocess.run(['nm', obj], stdout=subprocess.PIPE, universal_newlines=True, check=True, timeout=600).stdout
    off = {}
    for l in nm.splitlines():
        p_ = l.split()
        if len(p_) == 3 and p_[2].startswith('L') and p_[2][1:].isdigit():
            off[int(p_[2][1:])] = int(p_[0], 16)
    out = []
    for k in range(len(texts)):
        if k in bad or k not in off or k + 1 not in off:
            out.append(None)
        else:
            out.append(blob[off[k]:off[k + 1]].hex())
    for f in (src, obj, binf):
        if os.path.exists(f):
            os.unlink(f)
    return out



def line_features(hexbytes, intel_text):
    """root-cause features of an instruction (prefix bytes present, non-general register classes named) used in
    violation keys, so that a listed class about 16-bit addressing / segment overrides / operand-size prefixes /
    special registers does not cover the ordinary 32-bit forms of the same operand shape"""
    import re
    b = bytes.fromhex(hexbytes) if isinstance(hexbytes, str) else bytes(hexbytes)
    feats = set()
    i = 0
    while i < len(b) and b[i] in (0x66, 0x67, 0xf0, 0xf2, 0xf3, 0x26, 0x2e, 0x36, 0x3e, 0x64, 0x65):
        feats.add({0x66: 'os16', 0x67: 'as16', 0xf0: 'lock', 0xf2: 'f2', 0xf3: 'f3', 0x3e: 'dspfx'}.get(b[i], 'segpfx'))
        i += 1
    for n in re.findall(r'[a-z]+[0-9]*', (intel_text or '').lower()):
        if re.fullmatch(r'cr[0-9]', n):
            feats.add('cr')
        elif re.fullmatch(r'dr[0-9]', n):
            feats.add('dr')
        elif n in ('es', 'cs', 'ss', 'ds', 'fs', 'gs') and (n + ':') not in (intel_text or '').lower():
            feats.add('sreg')
        elif re.fullmatch(r'xmm[0-9]', n):
            feats.add('xmm')
        elif re.fullmatch(r'mm[0-9]', n):
            feats.add('mm')
        elif n == 'st' or re.fullmatch(r'st[0-9]', n):
            feats.add('st')
    return ','.join(sorted(feats))
