------------------------------ MODULE X86Probe ------------------------------
(* Dependency probing of X86Sem!Step (shared by the self-check X86RWSelf and   *)
(* the C08 judge): which registers, flags and memory cells does the result of  *)
(* one instruction instance really depend on, and which does it really write,  *)
(* over the probe states GenState(i, 11, k).                                    *)
EXTENDS X86RW, X86SpaceLib
CONSTANT K            \* probe states per instance
\* probe tables: QR[r][k][a] = step from state k with register r replaced by its a-th alternative, QF[f][k] with flag f flipped
NA == 3
AltReg(s, r, k, a) == CASE a = 1 -> BNot(s.reg[r], 32) [] a = 2 -> Word(k + 40, r) [] a = 3 -> BXor(s.reg[r], <<1, 0, 0, 0>>, 32)
Observed(i, S, P, KS) ==
   LET QR == TLCEval([r \in 1..8 |-> [k \in KS |-> [a \in 1..NA |-> Step(i, [S[k] EXCEPT !.reg[r] = AltReg(S[k], r, k, a)])]]])
       QF == TLCEval([f \in 1..7 |-> [k \in KS |-> Step(i, [S[k] EXCEPT !.fl = FlagSet(S[k].fl, f, 1 - FlagAt(S[k].fl, f))])]])
       live == {k \in KS : P[k].fault = ""}
       regdep(r) == \E k \in KS : \E a \in 1..NA :
                       LET q == QR[r][k][a]  p == P[k]  alt == AltReg(S[k], r, k, a) IN
                       alt # S[k].reg[r] /\ (\/ Differ(p, q, r, 0)
                                              \/ (p.reg[r] # q.reg[r] /\ (p.reg[r] # S[k].reg[r] \/ q.reg[r] # alt)))
       \* written: the value changes, or the result does not follow a change of the old value (overwritten)
       regwr(r) == \E k \in live : r \notin P[k].ur /\
                       (\/ P[k].reg[r] # S[k].reg[r]
                        \/ \E a \in 1..NA : LET q == QR[r][k][a] IN q.fault = "" /\ AltReg(S[k], r, k, a) # S[k].reg[r] /\ r \notin q.ur /\ q.reg[r] = P[k].reg[r])
       flagdep(f) == \E k \in KS :
                       LET v == FlagAt(S[k].fl, f)  q == QF[f][k]  p == P[k] IN
                       \/ Differ(p, q, 0, f)
                       \/ (FlagAt(p.fl, f) # FlagAt(q.fl, f) /\ (FlagAt(p.fl, f) # v \/ FlagAt(q.fl, f) # 1 - v))
       flagwr(f) == \E k \in live : FlagAt(P[k].fl, f) \in {0, 1} /\
                       (FlagAt(P[k].fl, f) # FlagAt(S[k].fl, f) \/ (QF[f][k].fault = "" /\ FlagAt(QF[f][k].fl, f) = FlagAt(P[k].fl, f)))
       \* a cell is changed in two ways: every bit flipped / only bit 0 flipped (a full flip preserves the parity of a byte)
       celldep(name) == \E k \in KS : \E c \in {c \in Cells(i, S[k]) : c[1] = name} : \E alt \in {1, 2} :
                       LET cur == Load(S[k], c[2], 8 * c[3])
                           new == IF alt = 1 THEN [j \in 1..c[3] |-> 255 - cur[j]]
                                  ELSE [j \in 1..c[3] |-> IF j = 1 THEN (IF cur[1] % 2 = 0 THEN cur[1] + 1 ELSE cur[1] - 1) ELSE cur[j]]
                           s2 == [S[k] EXCEPT !.over = S[k].over \o Bytes(c[2], new, c[3])]
                       IN Differ(P[k], Step(i, s2), 0, 0)
       names == UNION {{c[1] : c \in Cells(i, S[k])} : k \in KS}
       cellw(k) == LET as == WrAddrs(P[k].wr) IN
                   {c[1] : c \in {c \in Cells(i, S[k]) : \E a \in as : InCell(c, a)}}
                   \cup (IF \E a \in as : \A c \in Cells(i, S[k]) : ~InCell(c, a) THEN {"mem[?]"} ELSE {})
   IN [r |-> {RegNames[r] : r \in {r \in 1..8 : regdep(r)}} \cup {FlagNames[f] : f \in {f \in 1..7 : flagdep(f)}} \cup {nm \in names : celldep(nm)},
       w |-> {RegNames[r] : r \in {r \in 1..8 : regwr(r)}} \cup {FlagNames[f] : f \in {f \in 1..7 : flagwr(f)}}
             \cup UNION {IF P[k].um THEN {} ELSE cellw(k) : k \in live}
             \cup (IF \E k \in live : P[k].taken THEN {"eip"} ELSE {}),
       wu |-> {RegNames[r] : r \in UNION {P[k].ur : k \in live}}
             \cup {FlagNames[f] : f \in {f \in 1..7 : \E k \in live : FlagAt(P[k].fl, f) = U}}
             \cup UNION {IF P[k].um THEN cellw(k) ELSE {} : k \in live}]

\* probe states: generated states 3.. (1 and 2 have all registers equal); for condition codes the states whose flag bits
\* make every condition true and false
ProbeIdx(i) == IF i.mn \in {"setcc", "cmovcc", "jcc", "loope", "loopne"} THEN {3, 4, 5, 7, 9, 12, 17, 32, 33, 34} ELSE 3..(K + 2)
\* states in which two differently named cells lie close to each other (esi = edi, ebx = esp ...) cannot attribute an access
Apart(i, s) == \A c1 \in Cells(i, s) : \A c2 \in Cells(i, s) :
                  c1[1] = c2[1] \/ (~Ult(Sub(c1[2], c2[2], 32), Const(64)) /\ ~Ult(Sub(c2[2], c1[2], 32), Const(64)))
ProbeStates(i) == {k \in ProbeIdx(i) : Apart(i, [GenState(i, 11, k) EXCEPT !.eip = EipOf(k)])}
=============================================================================
