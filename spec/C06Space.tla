------------------------------ MODULE C06Space ------------------------------
(* Generator of machine states for C06: every identifier of the expression   *)
(* alphabet and every memory cell of the address menu is absent, bound to a  *)
(* constant, or bound to a symbolic expression over its own init_* symbol.   *)
EXTENDS IR
VARIABLES pos, st
\* slots: identifiers x8 y8 x32 y32 (value identifiers), p32 (address base), eax ecx (registers used by lifted
\* semantics) and three cells of the address menu
Slots == <<"x8", "y8", "x32", "y32", "p32", "c8", "c32", "k32">>
Choices == {"absent", "const1", "const2", "sym", "symop"}
\* "xref": the binding mentions ANOTHER identifier of the alphabet, which may itself be bound (x8 := y8 ^ 0x55, x32 := y32 + 0x100,
\* c32 := y32 + 1): evaluation is simultaneous substitution, so the identifier inside a binding keeps its valuation value
XrefSlots == {"x8", "x32", "c32"}
ChoicesAt(p) == Choices \cup (IF Slots[p] \in XrefSlots THEN {"xref"} ELSE {})
Init == pos = 0 /\ st = <<>>
Next == pos < Len(Slots) /\ pos' = pos + 1 /\ \E c \in ChoicesAt(pos') : st' = Append(st, c)
\* quick tiers take a covering sample: TLC's -simulate walks are used beyond the exhaustive bound
Done == pos = Len(Slots)
TypeOK == Len(st) = pos
=============================================================================
