------------------------------- MODULE T_C08 -------------------------------
(* C->S judge for C08: the read / write sets reported for the lifted         *)
(* semantics of an instruction (union of get_r(mem_read=True) / get_w() over *)
(* the assignment list, projected to architectural names) contain the        *)
(* architectural sets of X86RW.  Over-approximation is allowed, omission is  *)
(* not.  Record: [id, kind ("core" | "ext"), i (X86Sem instruction, core),   *)
(*   x (index into X86RW!Ext, ext), robs, wobs (lists of names)]             *)
(* Verdict entries, one per missing item:                                    *)
(*   C08.read / C08.write / C08.write_undef (items the SDM leaves undefined: *)
(*   "can modify", separate class).  Degenerate core instances are skipped.  *)
EXTENDS X86RW, Json, IOUtils
Recs == JsonDeserialize(IOEnv.TRACE)
ToSet(sq) == {sq[j] : j \in 1..Len(sq)}
Verdict(rec) ==
   LET core == rec.kind = "core"
       d == IF core THEN RW(rec.i) ELSE Ext[rec.x]
       R == ToSet(rec.robs)  W == ToSet(rec.wobs)
       RECURSIVE list(_,_)
       list(c, xs) == IF xs = {} THEN <<>> ELSE LET x == CHOOSE x \in xs : TRUE IN <<[clause |-> c, item |-> x]>> \o list(c, xs \ {x})
   IN IF core /\ Degenerate(rec.i) THEN <<[clause |-> "skip.degenerate"]>>
      ELSE list("C08.read", d.r \ R) \o list("C08.write", d.w \ W) \o list("C08.write_undef", d.wu \ W)
VARIABLE i
Init == i = 0
Next == \/ /\ i < Len(Recs) /\ i' = i + 1
           /\ LET v == Verdict(Recs[i']) IN
              IF v = <<>> THEN TRUE ELSE PrintT("VERDICT " \o ToJson([id |-> Recs[i'].id, v |-> v]))
        \/ /\ i = Len(Recs) /\ i' = i + 1 /\ PrintT("CONSUMED " \o ToString(Len(Recs)))
=============================================================================
