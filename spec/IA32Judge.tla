----------------------------- MODULE IA32Judge -----------------------------
(* Clause-by-clause comparison of an observed decode record r = [b, ok, len, raw, mn, pre, ops] with the        *)
(* reference decode d = Decode(r.b, 32); shared by T_C01 (miasmX) and T_CAL (objdump calibration).               *)
EXTENDS IA32Decode
ShownPfx(d) == (IF Has(d.pfx, 240) THEN {"lock"} ELSE {})
         \cup (IF Has(d.pfx, 243) /\ "mp" \notin d.use THEN {"rep"} ELSE {})
         \cup (IF Has(d.pfx, 242) /\ "mp" \notin d.use THEN {"repne"} ELSE {})
         \cup (IF Has(d.pfx, 62) /\ "notrack" \in d.use THEN {"notrack"} ELSE {})
SeqSet(s) == {s[j] : j \in 1..Len(s)}
\* strings whose prefixes have no determinate meaning are counted, not compared; a superfluous prefix whose effect IS
\* determinate (IA32Decode!Determinate: repeated 66/67, unused 66/67/segment) is compared like any other string
Class(r, d) == IF ~d.ok THEN "specrej" ELSE IF ~Determinate(d.pfx, d) THEN "superfluous" ELSE IF ~r.ok THEN "implrej" ELSE "cmp"
Clauses(r, d) ==
   LET df == TLCEval(InstrDiff(d, r))
       pre == SeqSet(r.pre) IN
   (IF r.len # d.len THEN <<[clause |-> "C01.len", exp |-> d.len, got |-> r.len, op |-> 0]>> ELSE <<>>)
   \o (IF r.len <= Len(r.b) /\ r.raw = SubSeq(r.b, 1, r.len) THEN <<>> ELSE <<[clause |-> "C01.raw", exp |-> d.len, got |-> r.len, op |-> 0]>>)
   \o (IF df[1] = "" THEN <<>> ELSE <<[clause |-> "C01." \o df[1], exp |-> d.len, got |-> r.len, op |-> df[2]]>>)
   \o (IF df[1] = "" /\ pre # ShownPfx(d)
       THEN <<[clause |-> "C01.prefix", exp |-> d.len, got |-> r.len, op |-> 0]>> ELSE <<>>)
=============================================================================
