---------------------------- MODULE SymPoolSelf ----------------------------
(* Spec-internal obligation (run by setup.sh): on the repaired design of the  *)
(* pool (SymPool with AsCoded = FALSE) TLC checks exhaustively, for every     *)
(* history of <= 3 stores of width 8/16/32 at offsets 0..7 from a constant    *)
(* and a symbolic base, that cells never overlap, that the flattened pool is  *)
(* the concrete SymMem memory on the written bytes and that every load        *)
(* (3 widths x 2 bases x 8 offsets, checked in every state) returns the       *)
(* concrete bytes.  The generator obligations of SymMem are checked as well.  *)
EXTENDS SymPool
=============================================================================
