------------------------------ MODULE ProgRep ------------------------------
(* Exhaustive companion of Prog.tla for the repeat-prefixed forms whose        *)
(* outcome depends on WHERE the architectural termination test fires: every    *)
(* repe/repne cmps/scas program on concrete data (Prog!ConcreteCmps,           *)
(* Prog!ConcreteScas: equal data, a difference in the first / a later element, *)
(* counts 2 and 3) and every program that copies the count before a rep        *)
(* (Prog!SharedCount), each after cld and after std.  Random behaviours of     *)
(* Prog.tla draw these forms rarely; here TLC enumerates them all (one         *)
(* transition = one program, printed as a PROG line like Prog!Emit does).      *)
EXTENDS Prog
RInit == /\ ptr = All32 /\ ecxn = -1 /\ stage = 0 /\ form = "" /\ mop = None /\ dfk = TRUE
         /\ \E d \in {"cld", "std"} : prog = <<Ins(d, None, None)>>
RNext == /\ stage = 0
         /\ \E e \in ConcreteCmps \cup ConcreteScas \cup SharedCount :
               /\ prog' = prog \o e.seq
               /\ PrintT("PROG " \o ToJson(prog'))
         /\ stage' = 3 /\ UNCHANGED <<ptr, dfk, ecxn, form, mop>>
=============================================================================
