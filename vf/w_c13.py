"""worker: runs under a given PYTHONHASHSEED; argv: infile outfile.  For each case simplifies e, the
fresh copy of the result, and the variant; renders strings."""
import sys, json, os
sys.path.insert(0, os.environ['VERIF_REPO_PATH'])
sys.path.insert(0, os.path.dirname(os.path.dirname(os.path.abspath(__file__))))
from vf import expr_json as EJ, irlib
from miasmx.expression.expression_helper import expr_simp
NONE = {'k': 'none'}


def simp(t):
    st, r = irlib.guarded(expr_simp, EJ.from_json(t), 5)
    if st != 'ok':
        return st, NONE, ''
    try:
        return 'ok', EJ.to_json(r), str(r)
    except Exception:
        return 'exc', NONE, ''


def main():
    sys.setrecursionlimit(3000)
    cases = json.load(open(sys.argv[1]))
    out = []
    for c in cases:
        st, se, t1 = simp(c['e'])
        st2, sse, _ = simp(se) if st == 'ok' else (st, NONE, '')
        st3, sv, t3 = simp(c['v']) if c['v']['k'] != 'none' else ('ok', NONE, '')
        ok = 'ok' if (st, st2, st3) == ('ok', 'ok', 'ok') else 'fail'
        out.append({'st': ok, 'se': se, 'sse': sse, 'sv': sv, 'txt': [t1, t3]})
    json.dump(out, open(sys.argv[2], 'w'))


if __name__ == '__main__':
    main()
