------------------------------- MODULE T_C01 -------------------------------
(* C->S judge for C01.  Record: [id, b (input bytes), ok, len, raw, mn, pre, ops] = what miasmX reported  *)
(* for input b (ok = FALSE: no instruction / exception; then only b matters).  Only strings that both     *)
(* sides accept as one instruction and whose prefixes have a determinate meaning (IA32Decode!Determinate: *)
(* no superfluous prefix, or only repeated 66/67 and unused 66/67/segment prefixes) are compared; the     *)
(* others are counted.  sup names the superfluous prefixes of a compared string.                          *)
EXTENDS IA32Judge, Json, IOUtils
Recs == JsonDeserialize(IOEnv.TRACE)
VARIABLES i, cnt
Init == i = 0 /\ cnt = [cmp |-> 0, specrej |-> 0, superfluous |-> 0, implrej |-> 0]
Next == \/ /\ i < Len(Recs) /\ i' = i + 1
           /\ LET r == Recs[i']  d == TLCEval(Decode(r.b, 32))  c == Class(r, d) IN
              /\ cnt' = [cnt EXCEPT ![c] = @ + 1]
              /\ IF c = "cmp" THEN
                    LET v == Clauses(r, d) IN
                    IF v = <<>> THEN TRUE ELSE PrintT("VERDICT " \o ToJson([id |-> r.id, v |-> v, spec |-> d, sup |-> SupKinds(d.pfx, d)]))
                 ELSE TRUE
        \/ /\ i = Len(Recs) /\ i' = i + 1 /\ cnt' = cnt
           /\ PrintT("STATS " \o ToJson(cnt))
           /\ PrintT("CONSUMED " \o ToString(Len(Recs)))
=============================================================================
