"""Calibration of spec/X86Sem.tla against the host processor (optional evidence for the trusted step function; it says
nothing about miasmX).  X86Calib.tla (TLC) enumerates (register/immediate instance, generated state) pairs with Step's
fault prediction; every non-faulting pair is executed natively in a 32-bit static ELF built by GNU as / ld (registers and
flags loaded, the instruction executed, registers and flags stored); T_X86Calib.tla compares the processor's result with
X86Sem!Step, skipping what the SDM leaves undefined.  A mismatch is a machinery failure (the spec is wrong), never a
violation."""
import os, json, struct, subprocess, hashlib
from . import core

FLAGBIT = {'cf': 0, 'pf': 2, 'af': 4, 'zf': 6, 'sf': 7, 'df': 10, 'of': 11}
REGS = ['eax', 'ecx', 'edx', 'ebx', 'esp', 'ebp', 'esi', 'edi']


def gen_cases(nk, sd, chk=None):
    cfg = 'CONSTANTS\n NK = %d\n SD = %d\nINIT Init\nNEXT Next\nCHECK_DEADLOCK FALSE\n' % (nk, sd)
    h = hashlib.sha1(cfg.encode())
    for f in ('BV.tla', 'IR.tla', 'X86Sem.tla', 'X86SpaceLib.tla', 'X86Calib.tla'):
        h.update(open(os.path.join(core.SPEC, f), 'rb').read())
    cf = os.path.join(core.VERIF, '.cache', 'x86calib_%s.json' % h.hexdigest()[:16])
    os.makedirs(os.path.dirname(cf), exist_ok=True)
    if os.path.exists(cf):
        d = json.load(open(cf))
    else:
        dump = os.path.join(core.scratch(), 'x86calib.dump')
        r = core.run_tlc('X86Calib', cfg_text=cfg, extra=['-dump', dump], timeout=1500, workers=min(core.NCPU, 8))
        if not r.ok:
            raise core.MachineryError('X86Calib failed:\n' + r.out[-3000:])
        cases = []
        for st in core.read_dump(dump):
            i = st['inst']
            i['txt'] = st['txt']
            cases.append({'i': i, 'k': st['k'], 'reg': st['st']['reg'], 'fl': st['st']['fl'], 'flt': st['flt']})
        os.unlink(dump)
        cases.sort(key=lambda c: (c['i']['txt'], c['k']))
        d = {'cases': cases, 'states': r.distinct, 'transitions': r.generated}
        tmp = cf + '.%d' % os.getpid()
        json.dump(d, open(tmp, 'w'))
        os.rename(tmp, cf)
    if chk is not None:
        chk.add_tlc({'states': d['states'], 'transitions': d['transitions']})
    return d['cases']


def run_native(cases):
    """execute every case on the host; returns a list of (regs[8], eflags)"""
    d = core.scratch()
    src, obj, exe = (os.path.join(d, 'calib' + e) for e in ('.s', '.o', ''))
    with open(src, 'w') as f:
        f.write('.intel_syntax noprefix\n.globl _start\n.text\n_start:\n  lea esp, stk_top\n')
        for n, c in enumerate(cases):
            ef = 0x202
            for k, b in FLAGBIT.items():
                ef |= int(c['fl'][k]) << b
            f.write('  push 0x%x\n  popfd\n' % ef)
            for r, v in zip(REGS, c['reg']):
                if r != 'esp':
                    f.write('  mov %s, 0x%x\n' % (r, core.unlimbs(v)))
            f.write('  %s\n' % c['i']['txt'])
            base = 36 * n
            for j, r in enumerate(REGS):
                if r != 'esp':
                    f.write('  mov dword ptr [res+%d], %s\n' % (base + 4 * j, r))
            f.write('  pushfd\n  pop dword ptr [res+%d]\n' % (base + 32))
        total = 36 * len(cases)
        f.write('  cld\n  lea esi, res\n  mov edi, %d\n' % total)
        # write(1, esi, min(edi, 65536)) in a loop
        f.write('1:\n  test edi, edi\n  jz 2f\n  mov edx, edi\n  cmp edx, 65536\n  jbe 3f\n  mov edx, 65536\n3:\n'
                '  mov eax, 4\n  mov ebx, 1\n  mov ecx, esi\n  int 0x80\n  test eax, eax\n  jle 2f\n  add esi, eax\n  sub edi, eax\n  jmp 1b\n'
                '2:\n  mov eax, 1\n  xor ebx, ebx\n  int 0x80\n')
        f.write('.bss\n.align 16\nres: .space %d\n.space 4096\nstk_top: .space 64\n' % total)
    for cmd in (['as', '--32', '-o', obj, src], ['ld', '-m', 'elf_i386', '-o', exe, obj]):
        p = subprocess.run(cmd, stdout=subprocess.PIPE, stderr=subprocess.PIPE, universal_newlines=True)
        if p.returncode != 0:
            raise core.MachineryError('calibration build failed: %s\n%s' % (' '.join(cmd), p.stderr[:1500]))
    p = subprocess.run([exe], stdout=subprocess.PIPE, stderr=subprocess.PIPE, timeout=120)
    if p.returncode != 0 or len(p.stdout) != 36 * len(cases):
        raise core.MachineryError('calibration binary failed (rc=%s, %d of %d bytes): a state predicted non-faulting faulted?'
                                  % (p.returncode, len(p.stdout), 36 * len(cases)))
    out = []
    for n in range(len(cases)):
        w = struct.unpack('<9I', p.stdout[36 * n:36 * n + 36])
        out.append((list(w[:8]), w[8]))
    for f_ in (src, obj, exe):
        os.unlink(f_)
    return out


def calibrate(chk, nk=8, sd=7):
    cases = gen_cases(nk, sd, chk)
    live = [c for c in cases if c['flt'] == '']
    res = run_native(live)
    recs = []
    for n, (c, (regs, ef)) in enumerate(zip(live, res)):
        recs.append({'id': n, 'i': dict(c['i'], len=2), 'sd': sd, 'k': c['k'], 'reg': [core.limbs(v, 32) for v in regs],
                     'fl': {k: (ef >> b) & 1 for k, b in FLAGBIT.items()}})
    verdicts, st = core.judge('T_X86Calib', recs, timeout=1500, min_per_shard=50)
    chk.add_tlc(st)
    out = {'cases': len(cases), 'executed_natively': len(live), 'predicted_faults_skipped': len(cases) - len(live),
           'instances': len(set(c['i']['txt'] for c in cases)), 'mismatches': len(verdicts)}
    chk.cov['x86sem_calibration_against_host_cpu'] = out
    if verdicts:
        v = verdicts[0]
        raise core.MachineryError('X86Sem!Step disagrees with the host processor on %d of %d cases, e.g. %s: %s'
                                  % (len(verdicts), len(live), live[v['id']]['i']['txt'], json.dumps(v['v'][0])[:1500]))
    return out
