import sys, os, argparse, importlib, traceback
from . import core


def main():
    ap = argparse.ArgumentParser()
    ap.add_argument('pid')
    ap.add_argument('--tier', default=os.environ.get('VERIF_TIER', 'quick'), choices=['quick', 'thorough'])
    ap.add_argument('--replay')
    ap.add_argument('--selftest', action='store_true')
    a = ap.parse_args()
    sys.path.insert(0, core.REPO)
    os.environ['TMPDIR'] = core.scratch()
    import tempfile
    tempfile.tempdir = core.scratch()
    mod = importlib.import_module('vf.' + a.pid.lower())
    chk = core.Check(a.pid, a.tier)
    try:
        if a.replay:
            chk.is_replay = True          # a replay does not overwrite the check's evidence file
            return mod.replay(a.replay, chk)
        if a.selftest:
            return mod.selftest(chk)
        mod.run(a.tier, chk)
        return chk.finish()
    except core.MachineryError as e:
        print('MACHINERY-FAILURE %s: %s' % (a.pid, e))
        return 2
    except Exception:
        traceback.print_exc()
        print('MACHINERY-FAILURE %s: unexpected exception in the harness' % a.pid)
        return 2


if __name__ == '__main__':
    sys.exit(main())
