CONSTANTS
 FlagPolicy = "fresh_only"
 CopyRows = TRUE
 CheckSig = TRUE
 MaxCalls = 4
 Cfgs = {"valid", "empty", "other", "oldsig"}
INIT Init
NEXT Next
INVARIANT Pure
INVARIANT TablesIntact
INVARIANT ParserOK
CHECK_DEADLOCK FALSE
