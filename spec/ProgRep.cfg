CONSTANTS
 MaxLen = 12
INIT RInit
NEXT RNext
CHECK_DEADLOCK FALSE
