----------------------------- MODULE IA32Space -----------------------------
(* Generator of the C01/C10/C17 input space: the decode automaton of IA32Decode driven forwards.      *)
(* A state is a byte string under construction; Decode says which field comes next (opcode byte(s),   *)
(* ModRM, SIB, displacement, immediate) and the generator appends one value of that field's class     *)
(* set.  Terminal states: stage = "Done" (a complete instruction) or "Dead" (the reference decoder    *)
(* rejects: undefined opcode / invalid form).  The abstract instruction of a terminal state is the    *)
(* state function Ins.                                                                                *)
(*                                                                                                    *)
(* Field class sets (DESIGN 5 C01): ModRM mod 0..3 x reg {all 8 when the byte selects the row, else   *)
(* 0,1,7} x rm {0,3,4,5,7 (+6 with 16-bit addressing); all 8 for register forms that select a row};   *)
(* SIB scale 0..3 x index {0,4,5,7} x base {0,4,5,7}; displacement and immediate boundary values      *)
(* 0, 1, max-positive, min-negative, all-ones at the field's width; prefix sets none, 66, 67, 66+67,  *)
(* each segment, F0, F2, F3.                                                                          *)
(* Bound: every field has a small base set; dev counts the fields whose value lies outside its base   *)
(* set; all combinations with dev <= MaxDev are generated (MaxDev = 1: every class value of every     *)
(* field once per opcode around base forms; MaxDev = 2: all pairs of class values ...).               *)
EXTENDS IA32Decode
CONSTANTS MaxDev,      \* how many fields may leave their base set
          Base67,      \* FALSE normally; TRUE makes <<103>> (16-bit addressing) the base prefix set
          Op1Set,      \* first opcode bytes explored (0..255 normally; a subset to shard / to focus)
          Op2Set       \* second opcode bytes explored after the 0F escape (0..255 normally)
VARIABLES bytes, stage, dev
BasePfx == IF Base67 THEN <<103>> ELSE <<>>

\* (a repeated prefix is one prefix: 66 66 and 66 2E 66 select the 16-bit operand size like a single 66)
PfxRich == { <<>>, <<102>>, <<103>>, <<102,103>>, <<38>>, <<46>>, <<54>>, <<62>>, <<100>>, <<101>>, <<240>>, <<242>>, <<243>>, BasePfx,
             <<102,102>>, <<102,46,102>>, <<103,103>> }
MB(mod, reg, rm) == mod * 64 + reg * 8 + rm
ModrmRich(d) ==
   LET regs == IF d.early THEN 0..7 ELSE {0,1,7}
       rms  == {0,3,4,5,7} \cup (IF d.as = 16 THEN {6} ELSE {})
   IN { MB(mod, reg, rm) : mod \in 0..3, reg \in regs, rm \in rms }
        \cup (IF d.early THEN { MB(3, reg, rm) : reg \in 0..7, rm \in 0..7 } ELSE {})
ModrmBase(d) ==
   LET regs == IF d.early THEN 0..7 ELSE {1} IN
   { MB(0, reg, 0) : reg \in regs } \cup { MB(1, reg, 5) : reg \in regs } \cup { MB(2, reg, 4) : reg \in regs }
   \cup { MB(0, reg, 5) : reg \in regs } \cup { MB(3, reg, 1) : reg \in regs }
   \cup { MB(0, reg, 4) : reg \in regs }                                          \* SIB without displacement byte: with SIB base 101 the base-less form [index*scale+disp32]
   \cup (IF d.early THEN { MB(3, reg, rm) : reg \in 0..7, rm \in 0..7 } ELSE {})
SibRich == { s * 64 + i * 8 + b : s \in 0..3, i \in {0,4,5,7}, b \in {0,4,5,7} }
SibBase == { 36, 75, 141 }                  \* [esp], [ebx+ecx*2], [ecx*4+disp32] (mod 0) / [ebp+ecx*4+disp] (mod 1, 2)
\* boundary values of an n-byte little-endian field
LE(n, lo, mid, hi) == [k \in 1..n |-> IF k = 1 THEN lo ELSE IF k = n THEN hi ELSE mid]
Bnd(n) == IF n = 1 THEN { <<0>>, <<1>>, <<127>>, <<128>>, <<255>> }
          ELSE { LE(n,0,0,0), LE(n,1,0,0), LE(n,255,255,127), LE(n,0,0,128), LE(n,255,255,255) }
BaseVal(n) == IF n = 1 THEN { <<128>> } ELSE { LE(n,1,0,128) }

Init == /\ bytes \in (IF MaxDev >= 1 THEN PfxRich ELSE {BasePfx})
        /\ stage = "Prefix"
        /\ dev = IF bytes = BasePfx THEN 0 ELSE 1
Live == stage \notin {"Done", "Dead"}
Extend(field, vals, base) ==
   /\ stage' = field
   /\ \E v \in vals \cup base :
        /\ bytes' = bytes \o v
        /\ dev' = dev + (IF v \in base THEN 0 ELSE 1)
        /\ dev' <= MaxDev
B1(S) == { <<x>> : x \in S }
Opcode(d)  == d.need = "opcode"  /\ Extend("Opcode", {}, B1(Op1Set \ PfxBytes))
Opcode2(d) == d.need = "opcode2" /\ Extend("Opcode2", {}, B1(Op2Set))
Opcode3(d) == d.need = "opcode3" /\ Extend("Opcode3", {}, B1(DOMAIN (IF bytes[Len(bytes)] = 56 THEN Map38 ELSE Map3A) \cup {255}))
ModRM(d)   == d.need = "modrm"   /\ Extend("ModRM", B1(ModrmRich(d)), B1(ModrmBase(d)))
SIB(d)     == d.need = "sib"     /\ Extend("SIB", B1(SibRich), B1(SibBase))
Disp(d)    == d.need = "disp"    /\ Extend("Disp", Bnd(d.nb), BaseVal(d.nb))
Imm(d)     == d.need = "imm"     /\ Extend("Imm", Bnd(d.nb), BaseVal(d.nb))
Done(d)    == d.ok /\ stage' = "Done" /\ UNCHANGED <<bytes, dev>>
Dead(d)    == ~d.ok /\ d.why # "trunc" /\ stage' = "Dead" /\ UNCHANGED <<bytes, dev>>
\* one decode per state; the action taken is recorded in stage (per-action coverage is read off the state graph)
Next == Live /\ LET d == TLCEval(Decode(bytes, 32)) IN
           IF d.ok THEN Done(d) ELSE IF d.why # "trunc" THEN Dead(d)
           ELSE Opcode(d) \/ Opcode2(d) \/ Opcode3(d) \/ ModRM(d) \/ SIB(d) \/ Disp(d) \/ Imm(d)
Ins == Decode(bytes, 32)
\* spec-internal obligations on the generated space (checked by IA32Self with small constants)
SpaceOK == stage = "Done" =>
              /\ Ins.ok /\ Ins.len = Len(bytes)                                  \* len = number of bytes consumed
              /\ ~Decode(SubSeq(bytes, 1, Len(bytes) - 1), 32).ok                \* every proper prefix is incomplete
              /\ Decode(bytes \o <<204, 144>>, 32) = Ins                         \* trailing bytes are not looked at
=============================================================================
