------------------------------- MODULE T_C14 -------------------------------
(* C->S judge for C14: every observed result of a fixed-width integer       *)
(* operation must conform to ModInt (type rule, range, exact value).        *)
(* Record shapes:                                                           *)
(*  "one":   [id, shape, op, a, b, obs]  one observation, limb path         *)
(*  "sweep": [id, shape, op, a, b (s,n), swap, ys (ints), obs (compact)]    *)
(*           the other operand sweeps ys; native-integer path               *)
(*  "un8":   [id, shape, op, a, obs (compact)] unary, native path           *)
EXTENDS ModInt, Json, IOUtils, FiniteSets
Recs == JsonDeserialize(IOEnv.TRACE)
HashOK(same, o) == IF (o[2] = 1) # same THEN "value" ELSE IF same /\ o[3] # 1 THEN "hash" ELSE "ok"
SweepOne(r, k) ==
   LET yo == [s |-> r.b.s, n |-> r.b.n, v |-> FromNat(Red(r.ys[k], r.b.n), r.b.n)]
       lhs == IF r.swap THEN yo ELSE r.a
       rhs == IF r.swap THEN r.a ELSE yo
   IN IF r.op \in BinOps THEN NConforms(NatRes2(r.op, lhs, rhs), r.obs[k])
      ELSE IF r.op = "hash" THEN HashOK(IntOf(lhs) = IntOf(rhs), r.obs[k])   \* <<5, eq, hasheq>>
      ELSE "op"
Verdict(r) ==
   IF r.shape = "sweep" THEN
      LET bad == {k \in 1..Len(r.obs) : SweepOne(r, k) # "ok"} IN
      IF bad = {} THEN <<>>
      ELSE LET k == CHOOSE k \in bad : \A j \in bad : k <= j IN
           <<[clause |-> "C14." \o SweepOne(r, k), k |-> k, nbad |-> Cardinality(bad), y |-> r.ys[k], obs |-> r.obs[k]]>>
   ELSE IF r.shape = "un8" THEN
      LET c == NConforms(NatRes1(r.op, r.a), r.obs) IN
      IF c = "ok" THEN <<>> ELSE <<[clause |-> "C14." \o c, k |-> 1, nbad |-> 1, y |-> 0, obs |-> r.obs]>>
   ELSE
      LET c == IF r.op = "%" /\ r.wit # <<>> THEN Conforms(ModWit(r.a, r.b, r.wit), r.obs)
               ELSE IF r.op \in BinOps THEN Conforms(Res2(r.op, r.a, r.b), r.obs)
               ELSE IF r.op \in UnOps THEN Conforms(Res1(r.op, r.a), r.obs)
               ELSE IF r.op = "hash" THEN
                    (LET W == WorkW(r.a, r.b) IN
                     IF r.obs.t # "bool" THEN "type"
                     ELSE IF (Exact(r.a, W) = Exact(r.b, W)) # r.obs.e THEN "value"
                     ELSE IF r.obs.e /\ ~r.obs.b THEN "hash" ELSE "ok")
               ELSE "op"
      IN IF c = "ok" THEN <<>>
         ELSE <<[clause |-> "C14." \o c, k |-> 1, nbad |-> 1, y |-> 0,
                 obs |-> [o |-> r.obs, exp |-> IF r.op = "%" /\ r.wit # <<>> THEN ModWit(r.a, r.b, r.wit) ELSE IF r.op \in BinOps THEN Res2(r.op, r.a, r.b)
                                               ELSE IF r.op \in UnOps THEN Res1(r.op, r.a) ELSE [kind |-> "hash"]]]>>
VARIABLE i
Init == i = 0
Next == \/ /\ i < Len(Recs) /\ i' = i + 1
           /\ LET v == Verdict(Recs[i']) IN
              IF v = <<>> THEN TRUE ELSE PrintT("VERDICT " \o ToJson([id |-> Recs[i'].id, v |-> v]))
        \/ /\ i = Len(Recs) /\ i' = i + 1 /\ PrintT("CONSUMED " \o ToString(Len(Recs)))
=============================================================================
