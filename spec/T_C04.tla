------------------------------- MODULE T_C04 -------------------------------
(* C->S judge for C04: the lifted assignment list of an instruction, applied *)
(* with IR!Eval to an initial state (all sources read the pre-state), must   *)
(* give the registers, architecturally defined flags, written memory bytes   *)
(* and control-flow outcome of X86Sem!Step.                                  *)
(* Record: [id, i (abstract instruction, len from GNU as), eip, next (limbs; *)
(*   next is what the lifter was given), st ("ok" | "exc" | "none"),         *)
(*   affs (lifted trees; a dummy when st # "ok"), sd, ns]                    *)
(* The ns initial states are X86Space!GenState(i, sd, k), k = 1..ns.         *)
(* One verdict entry per failing (clause, state class):                      *)
(*   C04.lift  C04.welltyped  C04.reads.<id>                                 *)
(*   C04.reg.<name>  C04.flag.<name> (skipped where the SDM says undefined)  *)
(*   C04.mem (union of both write sets)  C04.retaddr (call)                  *)
(*   C04.branch (taken / not taken)  C04.eip (fall-through, indirect target, *)
(*   direct target in the operand convention)                                *)
EXTENDS X86SpaceLib, Json, IOUtils
Recs == JsonDeserialize(IOEnv.TRACE)

\* ---- the lifted list as a state transformer (FlagIds, Modelled, EnvOf, Loose: X86SpaceLib) ----
\* a flag receives 0 or 1; any other value is reported as 3
FlagVal(v) == IF IsZero(v) THEN 0 ELSE IF v[1] = 1 /\ \A j \in 2..Len(v) : v[j] = 0 THEN 1 ELSE 3
DstName(a) == IF a.a[1].k = "id" THEN a.a[1].n ELSE ""
ApplyAffs(affs, s, next, extra) ==
   LET env == EnvOf(s, extra)
       val(n, old, w) == LET js == {j \in 1..Len(affs) : DstName(affs[j]) = n} IN
                         IF js = {} THEN old ELSE Norm(Eval(affs[CHOOSE j \in js : \A k \in js : k <= j].a[2], env), w)
       fl(k) == LET js == {j \in 1..Len(affs) : DstName(affs[j]) = FlagIds[k]} IN
                IF js = {} THEN FlagGet(s.fl, k) ELSE FlagVal(Eval(affs[CHOOSE j \in js : \A m \in js : m <= j].a[2], env))
       RECURSIVE wrs(_)
       wrs(j) == IF j > Len(affs) THEN <<>>
                 ELSE IF affs[j].a[1].k = "mem"
                      THEN Bytes(Norm(Eval(affs[j].a[1].a[1], env), 32), Norm(Eval(affs[j].a[2], env), affs[j].a[1].w), affs[j].a[1].w \div 8) \o wrs(j + 1)
                      ELSE wrs(j + 1)
   IN TLCEval([reg |-> [k \in 1..8 |-> val(RegNames[k], s.reg[k], 32)],
               fl |-> [cf |-> fl(1), pf |-> fl(2), af |-> fl(3), zf |-> fl(4), sf |-> fl(5), df |-> fl(6), of |-> fl(7)],
               wr |-> wrs(1),
               eip |-> val("eip", next, 32)])

\* ---- classes (root-cause granularity of the verdict) ---------------------------------
Group(mn) ==
   CASE mn \in {"add", "adc", "sub", "sbb", "cmp", "inc", "dec", "neg", "xadd", "cmpxchg", "cmps", "scas"} -> "addsub"
     [] mn \in {"and", "or", "xor", "test", "not"} -> "logic"
     [] mn \in {"shl", "shr", "sar"} -> "shift"
     [] mn \in {"rol", "ror"} -> "rot"
     [] mn \in {"rcl", "rcr"} -> "rotc"
     [] mn \in {"shld", "shrd"} -> "shd"
     [] mn \in MulMn -> "mul"  [] mn \in DivMn -> "div"  [] mn \in BitMn -> "bit"  [] mn \in ScanMn -> "scan"
     [] mn \in {"cbw", "cwde", "cwd", "cdq"} -> "ext"
     [] mn \in {"clc", "stc", "cmc", "cld", "std", "lahf", "sahf"} -> "flagop"
     [] mn \in {"setcc", "cmovcc", "jcc"} -> mn
     [] mn \in StackMn -> "stack"
     [] mn \in {"movs", "lods", "stos"} -> "string"
     [] mn \in FlowMn -> "flow"
     [] OTHER -> "mov"
\* state class: the shift-count class of the state for shifts / rotates
SubCls(i, s) ==
   IF i.mn \in ShiftMn THEN
      LET c == Cnt(i, s) IN
      IF c = 0 THEN "cnt0" ELSE IF c = 1 THEN "cnt1" ELSE IF c < i.w THEN "cnt<w" ELSE IF c = i.w THEN "cnt=w" ELSE "cnt>w"
   ELSE IF i.mn \in BitMn /\ i.ops[1].k = "mem" /\ i.ops[2].k = "imm"
      THEN (IF G(i.ops[2].v, 1) >= i.w THEN "immbig" ELSE "")
   ELSE IF i.mn \in BitMn /\ i.ops[1].k = "mem" /\ i.ops[2].k = "reg"
      THEN (IF Msb(Rd(i.ops[2], i.w, s), i.w) = 1 THEN "offneg" ELSE IF ~IsZero(ShrN(Rd(i.ops[2], i.w, s), IF i.w = 16 THEN 4 ELSE 5, i.w)) THEN "offbig" ELSE "")
   ELSE IF i.mn \in {"imul"} THEN "ops" \o ToString(Len(i.ops))
   ELSE ""

\* ---- the verdict ---------------------------------------------------------------------------
IsFlag(n) == \E k \in 1..7 : FlagIds[k] = n
AffWidths(a) == /\ (a.a[1].k = "id" /\ ~IsFlag(a.a[1].n) => Width(a.a[2]) = a.a[1].w)       \* flags take any width (value must be 0/1)
                /\ (a.a[1].k = "mem" => Width(a.a[2]) = a.a[1].w /\ a.a[1].w \in {8, 16, 32})
AffOK(a) == a.k = "aff" /\ WellTyped(a) /\ AffWidths(a)
AffLoose(a) == /\ a.k = "aff" /\ Len(a.a) = 2 /\ a.a[1].k \in {"id", "mem"} /\ a.a[2].k # "aff"
               /\ Loose(a.a[1]) /\ Loose(a.a[2]) /\ AffWidths(a)
Verdict(rec) ==
   LET ins == rec.i IN
   IF rec.next # Add(rec.eip, Const(ins.len), 32) THEN [v |-> <<[clause |-> "input.next"]>>, cmp |-> 0, flt |-> 0]
   ELSE IF rec.st # "ok" THEN [v |-> <<[clause |-> "C04.lift", sub |-> "", nbad |-> rec.ns, k |-> 0]>>, cmp |-> 0, flt |-> 0]
   ELSE
   LET affs == rec.affs
       okj == {j \in 1..Len(affs) : AffLoose(affs[j])}          \* evaluated
       badj == (1..Len(affs)) \ okj                            \* not evaluable: their destinations are not compared
       illj == {j \in 1..Len(affs) : ~AffOK(affs[j])}           \* reported as C04.welltyped (superset of badj)
       dstOf(j) == IF affs[j].k = "aff" /\ Len(affs[j].a) >= 1 THEN (IF affs[j].a[1].k = "id" THEN affs[j].a[1].n ELSE "@mem") ELSE "@all"
       RECURSIVE sel(_)
       sel(j) == IF j > Len(affs) THEN <<>> ELSE IF j \in okj THEN <<affs[j]>> \o sel(j + 1) ELSE sel(j + 1)
       good == sel(1)
       \* destinations of unusable assignments are not compared (C04.welltyped is reported instead)
       skipd == {dstOf(j) : j \in badj}
       ids == UNION {Ids(good[j].a[2]) \cup (IF good[j].a[1].k = "mem" THEN Ids(good[j].a[1]) ELSE {}) : j \in 1..Len(good)}
       extra == ids \ Modelled
       S == TLCEval([k \in 1..rec.ns |-> [GenState(ins, rec.sd, k) EXCEPT !.eip = rec.eip]])
       PX == TLCEval([k \in 1..rec.ns |-> Step(ins, S[k])])
       live == {k \in 1..rec.ns : PX[k].fault = ""}
       PI == TLCEval([k \in 1..rec.ns |-> IF k \in live THEN ApplyAffs(good, S[k], rec.next, extra) ELSE <<>>])
       SB == TLCEval([k \in 1..rec.ns |-> SubCls(ins, S[k])])
       direct == ins.mn \in FlowMn /\ ins.mn # "ret" /\ ins.ops[1].k = "imm"
       takenI(k) == PI[k].eip # rec.next
       memc == IF ins.mn = "call" THEN "C04.retaddr" ELSE "C04.mem"
       \* clause -> does state k violate it
       Bad(c, k) ==
          LET px == PX[k]  pi == PI[k] IN
          CASE c \in 1..8 -> RegNames[c] \notin skipd /\ c \notin px.ur /\ px.reg[c] # pi.reg[c]
            [] c \in 11..17 -> FlagIds[c - 10] \notin skipd /\ FlagGet(px.fl, c - 10) # U /\ FlagGet(px.fl, c - 10) # FlagGet(pi.fl, c - 10)
            [] c = 20 -> "@mem" \notin skipd /\ ~px.um /\ \E a \in WrAddrs(px.wr) \cup WrAddrs(pi.wr) : PostByte(px.wr, S[k], a) # PostByte(pi.wr, S[k], a)
            [] c = 21 -> "eip" \notin skipd /\ ins.mn \in FlowMn /\ takenI(k) # px.taken
            [] c = 22 -> "eip" \notin skipd /\ (ins.mn \in FlowMn => takenI(k) = px.taken)
                         /\ (IF direct /\ px.taken THEN Add(pi.eip, rec.next, 32) # px.eip       \* a direct target is the decoded displacement operand
                             ELSE pi.eip # px.eip)
       CName(c) == CASE c \in 1..8 -> "C04.reg." \o RegNames[c]
                     [] c \in 11..17 -> "C04.flag." \o FlagNames[c - 10]
                     [] c = 20 -> memc [] c = 21 -> "C04.branch" [] c = 22 -> "C04.eip"
       Show(c, k) ==
          LET px == PX[k]  pi == PI[k] IN
          CASE c \in 1..8 -> [spec |-> px.reg[c], impl |-> pi.reg[c]]
            [] c \in 11..17 -> [spec |-> <<FlagGet(px.fl, c - 10)>>, impl |-> <<FlagGet(pi.fl, c - 10)>>]
            [] c = 20 -> [spec |-> px.wr, impl |-> pi.wr]
            [] OTHER -> [spec |-> px.eip, impl |-> pi.eip]
       Clauses == (1..8) \cup (11..17) \cup {20, 21, 22}
       fails == {<<c, sb>> \in Clauses \X {SB[k] : k \in live} : \E k \in live : SB[k] = sb /\ Bad(c, k)}
       entry(p) == LET ks == {k \in live : SB[k] = p[2] /\ Bad(p[1], k)}
                       k == CHOOSE k \in ks : \A m \in ks : k <= m IN
                   [clause |-> CName(p[1]), sub |-> p[2], nbad |-> Cardinality(ks), k |-> k,
                    outof |-> Cardinality({m \in live : SB[m] = p[2]}),
                    state |-> [reg |-> S[k].reg, fl |-> S[k].fl, seed |-> S[k].seed, over |-> S[k].over, eip |-> S[k].eip],
                    show |-> Show(p[1], k)]
       RECURSIVE list(_)
       list(ps) == IF ps = {} THEN <<>> ELSE LET p == CHOOSE p \in ps : TRUE IN <<entry(p)>> \o list(ps \ {p})
   IN [cmp |-> Cardinality(live), flt |-> rec.ns - Cardinality(live), v |->
      (IF illj = {} THEN <<>> ELSE <<[clause |-> "C04.welltyped", sub |-> "", nbad |-> Cardinality(illj), k |-> CHOOSE j \in illj : TRUE,
                                        dst |-> {dstOf(j) : j \in illj}, notevaluated |-> skipd]>>)
      \o (IF extra = {} THEN <<>> ELSE <<[clause |-> "C04.reads", sub |-> "", nbad |-> Cardinality(extra), k |-> 0, names |-> extra]>>)
      \o list(fails)]
VARIABLES i, ncmp, nflt
Init == i = 0 /\ ncmp = 0 /\ nflt = 0
Next == \/ /\ i < Len(Recs) /\ i' = i + 1
           /\ LET r == Verdict(Recs[i']) IN
              /\ (IF r.v = <<>> THEN TRUE ELSE PrintT("VERDICT " \o ToJson([id |-> Recs[i'].id, v |-> r.v])))
              /\ ncmp' = ncmp + r.cmp /\ nflt' = nflt + r.flt
        \/ /\ i = Len(Recs) /\ i' = i + 1 /\ UNCHANGED <<ncmp, nflt>>
           /\ PrintT("VERDICT " \o ToJson([id |-> -1, v |-> <<[clause |-> "stats", compared |-> ncmp, faulted |-> nflt]>>]))
           /\ PrintT("CONSUMED " \o ToString(Len(Recs)))
=============================================================================
