"""C03 - assemble/disassemble round trip is a fixpoint.
Direction 1 (S->C): accepted lines of AsmSpace.tla (both syntaxes); every candidate b is disassembled and its Intel rendering
re-assembled.  Direction 2: byte strings of the reference decode automaton IA32Space.tla; TLC (AsmRender.tla) spells the
reference decode of b, GNU as decides whether b is the canonical encoding; canonical b must be reproduced.
C->S: T_C03.tla judges the recorded events Asm(line)->cands, Dis(b)->(len,text), Asm(text)->cands2."""
import json, random, collections
from . import core, asmlib, asm_text, ia32space


def cand_rec(h, rt):
    a = rt.get('asm') or {'st': 'none', 'c': []}
    return {'h': h, 'n': len(h) // 2, 'st': rt['st'], 'len': rt['len'], 'st2': a['st'], 'c2': a['c']}


def dir1(chk, quick, rnd):
    lines = asmlib.canon_lines(chk)
    items = []
    for l in lines:
        if quick and rnd.random() > (0.25 if l['plaus'] == '' else 0.05):
            continue
        items.append(('intel', l['intel'], l))
        if 'att' in l and (not quick or rnd.random() < 0.5):
            items.append(('att', l['att'], l))
    outs = asmlib.run_asm([(syn, asm_text.render(lay)) for syn, lay, l in items])
    uniq = sorted(set(c for o in outs for c in o['c']))
    rts = dict(zip(uniq, asmlib.run_roundtrip(uniq)))
    recs = []
    for (syn, lay, l), o in zip(items, outs):
        if o['st'] == 'list' and o['c']:
            recs.append({'id': len(recs), 'dir': 1, 'gas': '', 'cands': [cand_rec(c, rts[c]) for c in o['c']],
                         'text': asm_text.render(lay), 'syn': syn, 'mn': l['ins']['mn'], 'shape': asmlib.shape(l['ins']), 'rts': [rts[c] for c in o['c']]})
    return recs, len(items), len(uniq)


def render_pass(chk, hexes):
    """AsmRender.tla: reference decode of every string and its canonical spelling, where there is one"""
    recs = [{'id': k, 'b': list(bytes.fromhex(h))} for k, h in enumerate(hexes)]
    random.Random(chk.seed).shuffle(recs)
    verdicts, st = core.judge('AsmRender', recs, timeout=3000, tags=('LINE',))
    chk.add_tlc(st)
    return {x['id']: x for x in st.get('LINE', [])}


def dir2(chk, quick, rnd):
    g = ia32space.gen(1, False, None, chk)
    hexes = sorted(set(g['done']))
    if quick:
        # every base form (one state per opcode row and operand form: MaxDev = 0) plus a sample of the one-deviation variants
        base = sorted(set(ia32space.gen(0, False, None, chk)['done']))
        rest = sorted(set(hexes) - set(base))
        # ... and every one-deviation variant that is prefixes + opcode alone (each prefix on each operand-less row: the
        # string instructions under F2/F3, lock, segment and size prefixes on one-byte instructions)
        bare = [h for h in rest if ia32space.opcode_only(h)]
        chk.cov['dir2_opcode_only'] = len(bare)
        hexes = sorted(set(base) | set(bare) | set(ia32space.stratified(rest, rnd, 20000)))      # every (prefix set, map, ModRM mod/rm, SIB base) stratum
    lay = render_pass(chk, hexes)
    ids = sorted(lay)
    gas = asmlib.gnu_as([asm_text.render(lay[k]['intel']) for k in ids], 'intel')
    gasof = dict(zip(ids, gas))
    rts = asmlib.run_roundtrip(hexes)
    recs = []
    for k, (h, rt) in enumerate(zip(hexes, rts)):
        if k in lay:
            recs.append({'id': len(recs), 'dir': 2, 'gas': gasof[k] or '', 'cands': [cand_rec(h, rt)],
                         'text': asm_text.render(lay[k]['intel']), 'syn': 'bytes', 'mn': lay[k]['intel']['mn'], 'shape': '', 'rts': [rt]})
    return recs, len(hexes), len(lay)


def rshape(text):
    """operand kinds of miasmX's own rendering (reporting only)"""
    t = asm_text.tokenise(text, 'intel')
    out = []
    for o in t['ops']:
        if o['k'] == 'mem':
            out.append('m' + (':' + o['kw'] if o['kw'] else '') + ('/seg' if o['seg'] else '') + ('' if o['terms'] else '/nobracket'))
        else:
            out.append({'reg': 'r', 'imm': 'i'}.get(o['k'], '?'))
    return ','.join(out)


def special_regs(text):
    """classes of non-general registers named in a rendering (cr / dr / sreg / st / mm / xmm): part of the violation key,
    so that a listed class about control/debug/segment-register moves does not cover ordinary register forms"""
    import re
    t = asm_text.tokenise(text, 'intel')
    cls = set()
    for o in t['ops']:
        if o['k'] == 'reg':
            n = o['name'].lower()
            for pre, c in (('cr', 'cr'), ('dr', 'dr'), ('xmm', 'xmm'), ('mm', 'mm'), ('st', 'st')):
                if re.match(pre + r'\(?\d', n) or n == pre:
                    cls.add(c)
                    break
            else:
                if n in ('es', 'cs', 'ss', 'ds', 'fs', 'gs'):
                    cls.add('sreg')
    return ','.join(sorted(cls))


def judge(chk, recs, base=0):
    slim = [{'id': r['id'], 'dir': r['dir'], 'gas': r['gas'], 'cands': r['cands']} for r in recs]
    random.Random(chk.seed).shuffle(slim)
    verdicts, st = core.judge('T_C03', slim, timeout=3000, tags=('STATS',))
    chk.add_tlc(st)
    return verdicts, sum(x['canonical'] for x in st.get('STATS', []))


def report(chk, recs, verdicts):
    byid = {r['id']: r for r in recs}
    for v in verdicts:
        r = byid[v['id']]
        seen = set()
        for f in v['v']:
            rt = r['rts'][f['k'] - 1]
            e = (rt.get('exc') if f['clause'] == 'C03.dis_accepts' else (rt.get('asm') or {}).get('exc')) or {}
            site = e.get('func', '') if f['how'] in ('exc', 'reject', 'internal') else ''
            shp = rshape(rt['text']) if rt['st'] == 'instr' else ''
            # the mnemonic belongs to the class only where the re-assembled bytes are wrong for an ordinary operand form;
            # rejections, crashes, empty results and segment-override / bracket-less renderings are parser-level causes
            specific = f['how'] == 'list' and '/seg' not in shp and 'nobracket' not in shp
            key = {'clause': f['clause'], 'dir': r['dir'], 'mn': ((rt['text'].split() or [r['mn']])[0] if rt['st'] == 'instr' else r['mn']) if specific else '',
                   'how': f['how'], 'site': site, 'shape': shp, 'regs': special_regs(rt['text']) if rt['st'] == 'instr' else '',
                   'feat': asmlib.line_features(r['cands'][f['k'] - 1]['h'], rt['text'] if rt['st'] == 'instr' else '')}
            if key['feat'] == '' and key['regs'] == '' and not key['mn'] and '/seg' not in shp and 'nobracket' not in shp:
                # an ordinary 32-bit form without any special feature: the class is per mnemonic
                key['mn'] = (rt['text'].split() or [r['mn']])[0] if rt['st'] == 'instr' else r['mn']
            ks = json.dumps(key, sort_keys=True)
            if ks in seen:
                continue
            seen.add(ks)
            chk.violation(key, {'dir': r['dir'], 'line': r['text'], 'syntax': r['syn'], 'bytes': r['cands'][f['k'] - 1]['h'], 'dis': rt['st'],
                                'dis_len': rt['len'], 'rendering': rt['text'], 'reassembled': (rt.get('asm') or {}).get('c', [])[:8],
                                'reasm_outcome': (rt.get('asm') or {}).get('st'), 'exception': e, 'gas': r['gas']})


def run(tier, chk):
    rnd = random.Random(chk.seed)
    negative_control(chk)
    quick = tier == 'quick'
    r1, nlines, ncand = dir1(chk, quick, rnd)
    v1, _ = judge(chk, r1)
    report(chk, r1, v1)
    r2, nstr, nrend = dir2(chk, quick, rnd)
    v2, ncanon = judge(chk, r2)
    report(chk, r2, v2)
    chk.cov['evaluations'] = nlines + nstr
    chk.cov['distinct_nontrivial'] = len(r1) + ncanon
    chk.cov['traces_validated_against_impl'] = len(r1) + len(r2)
    chk.cov['direction1'] = {'lines': nlines, 'accepted': len(r1), 'distinct_candidates': ncand}
    chk.cov['direction2'] = {'strings': nstr, 'with_spelling': nrend, 'canonical_by_gnu_as': ncanon}
    chk.cov['rule'] = ('direction 1: lines of AsmSpace.tla, non-trivial = accepted lines (all candidates round-tripped); direction 2: terminal states '
                       'of IA32Space.tla, non-trivial = strings GNU as reproduces from the spelling of their reference decode (canonical)')
    for r in (r1[:2] + [x for x in r2 if x['gas'] == x['cands'][0]['h']][:2]):
        chk.sample({'dir': r['dir'], 'line': r['text'], 'bytes': r['cands'][0]['h'], 'rendering': r['rts'][0]['text'], 'reassembled': r['cands'][0]['c2'][:4]})
    chk.assumptions += ['GNU as 2.40 (--32) is an observed environment component: it defines which byte strings are canonical',
                        'branch displacements, far pointers, 16-bit addressing and lock/rep prefixes have no canonical spelling (direction 2 skips them; direction 1 covers branches)']


def negative_control(chk):
    ok = {'h': '01d8', 'n': 2, 'st': 'instr', 'len': 2, 'st2': 'list', 'c2': ['01d8', '03c3']}
    recs = [{'id': 0, 'dir': 1, 'gas': '', 'cands': [ok, dict(ok, len=3)]},
            {'id': 1, 'dir': 1, 'gas': '', 'cands': [dict(ok, c2=['03c3'])]},
            {'id': 2, 'dir': 1, 'gas': '', 'cands': [dict(ok, st='absent')]},
            {'id': 3, 'dir': 2, 'gas': '03c3', 'cands': [dict(ok, c2=[])]},        # not canonical: not judged
            {'id': 4, 'dir': 2, 'gas': '01d8', 'cands': [dict(ok, st2='reject', c2=[])]}]
    verdicts, st = core.judge('T_C03', recs, shards=1)
    got = sorted((v['id'], f['k'], f['clause']) for v in verdicts for f in v['v'])
    want = [(0, 2, 'C03.len'), (1, 1, 'C03.fixpoint'), (2, 1, 'C03.dis_accepts'), (4, 1, 'C03.fixpoint')]
    chk.cov['negative_controls'].append({'name': 'wrong length / candidate missing after re-assembly / not decoded / canonical string not reproduced flagged; '
                                                 'non-canonical string skipped', 'ok': got == want, 'got': got})
    if got != want:
        raise core.MachineryError('C03 negative control failed: %r' % (got,))


def replay(path, chk):
    rp = json.load(open(path))
    d = rp['detail']
    p = core.run_py(['-c', 'import sys, json\nfrom vf import asmlib\nprint(json.dumps([asmlib.roundtrip_one(x) for x in json.load(sys.stdin)]), file=sys.__stdout__)'],
                    input_obj=[d['bytes']], timeout=600)
    if p.returncode != 0:
        raise core.MachineryError('replay helper failed: ' + p.stderr[-800:])
    rt = json.loads(p.stdout.strip().splitlines()[-1])[0]
    rec = {'id': 0, 'dir': d['dir'], 'gas': d.get('gas', ''), 'cands': [cand_rec(d['bytes'], rt)], 'text': d['line'], 'syn': d['syntax'],
           'mn': rp['class'].get('mn', ''), 'shape': rp['class'].get('shape', ''), 'rts': [rt]}
    verdicts, _ = judge(chk, [rec])
    chk.cov['traces_validated_against_impl'] = 1
    chk.cov['evaluations'] = 1
    chk.sample({'bytes': d['bytes'], 'rendering': rt['text']})
    for v in verdicts:
        for f in v['v']:
            print('replay: %s still fails for %s: rendering %r re-assembles to %s' % (f['clause'], d['bytes'], rt['text'], (rt.get('asm') or {}).get('c')))
            chk.violation(rp['class'], d)
    return chk.finish()
