"""C09 - the Intel and AT&T renderings of a decoded instruction denote the same instruction and are valid GNU as input.
Gen: terminal states of the reference decode automaton IA32Space.tla.  Obs: str(instr), instr.__str__('att_syntax binutils'),
asm(intel), asm_att(att), GNU as on each rendering in the matching mode.  Oracle: T_C09.tla - both renderings tokenised
independently and read by Syntax.Denote must denote the same instruction; b among the candidates of each rendering; what GNU
as produces must decode (IA32Decode.tla) to the same instruction as b."""
import json, random, collections
from . import core, asmlib, asm_text, ia32space, c03

EMPTY_LINE = {'syn': 'intel', 'mn': '', 'pfx': [], 'ops': [], 'st': {'rc': 'lower', 'kc': 'upper', 'sp': 'canon'}}


def observe(hexes):
    rts = asmlib.run_roundtrip(hexes)
    it = [k for k, r in enumerate(rts) if r['st'] == 'instr']
    at = [k for k, r in enumerate(rts) if r['st'] == 'instr' and r['attst'] == 'ok']
    gi = dict(zip(it, asmlib.gnu_as([rts[k]['text'] for k in it], 'intel')))
    ga = dict(zip(at, asmlib.gnu_as([rts[k]['att'] for k in at], 'att')))
    recs = []
    for k, (h, r) in enumerate(zip(hexes, rts)):
        ai = r.get('asm') or {'st': 'none', 'c': []}
        aa = r.get('asm_att') or {'st': 'none', 'c': []}
        recs.append({'id': k, 'b': list(bytes.fromhex(h)), 'h': h, 'st': r['st'], 'attst': r['attst'],
                     'il': asm_text.tokenise(r['text'], 'intel') if r['st'] == 'instr' else EMPTY_LINE,
                     'al': asm_text.tokenise(r['att'], 'att') if r['attst'] == 'ok' else dict(EMPTY_LINE, syn='att'),
                     'ai': {'st': ai['st'], 'c': ai['c']}, 'aa': {'st': aa['st'], 'c': aa['c']},
                     'gi': list(bytes.fromhex(gi.get(k) or '')), 'ga': list(bytes.fromhex(ga.get(k) or '')), 'rt': r})
    return recs


def judge(chk, recs):
    slim = [{k: v for k, v in r.items() if k != 'rt'} for r in recs]
    random.Random(chk.seed).shuffle(slim)
    verdicts, st = core.judge('T_C09', slim, timeout=3000, tags=('STATS',))
    chk.add_tlc(st)
    return verdicts, {k: sum(x[k] for x in st.get('STATS', [])) for k in ('judged', 'emittable')}


def shape(line):
    return ','.join({'reg': 'r', 'imm': 'i', 'mem': 'm', 'amem': 'm'}.get(o['k'], '?') for o in line['ops'])


def report(chk, recs, verdicts):
    byid = {r['id']: r for r in recs}
    for v in verdicts:
        r = byid[v['id']]
        rt = r['rt']
        mn = (rt['text'].split() or [''])
        mn = [w for w in mn if w.lower() not in ('lock', 'rep', 'repz', 'repnz', 'repe', 'repne', 'notrack', 'rep;') and not w.startswith('[')][:1]
        for f in v['v']:
            site = ''
            if f['clause'] == 'C09.att_renders':
                site = (rt.get('attexc') or {}).get('func', '')
            elif f['clause'] in ('C09.asm_intel', 'C09.asm_att') and f['why'] in ('reject', 'internal'):
                site = ((rt.get('asm') if f['clause'] == 'C09.asm_intel' else rt.get('asm_att')) or {}).get('exc', {}).get('func', '')
            m0 = mn[0] if mn else ''
            shp = c03.rshape(rt['text'])
            if f['clause'] == 'C09.att_renders':
                key = {'clause': f['clause'], 'mn': m0, 'shape': '', 'why': f['why'], 'site': site}
            else:
                # the mnemonic belongs to the class where the defect is per mnemonic (suffix / name tables, GNU as naming)
                specific = (f['why'] in ('mnemonic', 'size', 'opsize', 'operand_count') or f['clause'].startswith('C09.gas_')) and ':' not in f['why']
                if ':' in f['why']:
                    shp = ''          # the why already names the root cause (operand form), independent of mnemonic and operand order
                key = {'clause': f['clause'], 'mn': m0 if specific else '', 'shape': '' if specific else shp, 'why': f['why'], 'site': site}
            key['feat'] = asmlib.line_features(r['h'], rt['text'])
            if key['feat'] == '' and not key.get('mn') and f['clause'] in ('C09.asm_intel', 'C09.asm_att'):
                key['mn'] = m0        # an ordinary 32-bit form without any special feature: the class is per mnemonic
            chk.violation(key, {'bytes': r['h'], 'intel': rt['text'], 'att': rt['att'], 'att_exception': rt.get('attexc'),
                                'asm_intel': r['ai']['c'][:6], 'asm_att': r['aa']['c'][:6], 'gas_intel': bytes(r['gi']).hex(), 'gas_att': bytes(r['ga']).hex()})


def run(tier, chk):
    rnd = random.Random(chk.seed)
    negative_control(chk)
    quick = tier == 'quick'
    g = ia32space.gen(1, False, None, chk)
    hexes = sorted(set(g['done']))
    if quick:
        # every base form (one state per opcode row and operand form: MaxDev = 0) plus a sample of the one-deviation variants
        base = sorted(set(ia32space.gen(0, False, None, chk)['done']))
        rest = sorted(set(hexes) - set(base))
        hexes = sorted(set(base) | set(ia32space.stratified(rest, rnd, 20000)))      # every (prefix set, map, ModRM mod/rm, SIB base) stratum
    recs = observe(hexes)
    verdicts, cnt = judge(chk, recs)
    report(chk, recs, verdicts)
    chk.cov['evaluations'] = len(hexes)
    chk.cov['distinct_nontrivial'] = cnt['judged']
    chk.cov['traces_validated_against_impl'] = len(recs)
    chk.cov['emittable_checked_with_gnu_as'] = cnt['emittable']
    chk.cov['rule'] = ('strings = terminal states of IA32Space.tla (MaxDev=1); non-trivial = strings the reference decoder reads as one instruction of '
                       'full length without superfluous prefixes and miasmX decodes; emittable = no relative displacement / absolute memory operand')
    for r in [x for x in recs if x['st'] == 'instr' and x['attst'] == 'ok'][:4]:
        chk.sample({'bytes': r['h'], 'intel': r['rt']['text'], 'att': r['rt']['att'], 'gas_intel': bytes(r['gi']).hex(), 'gas_att': bytes(r['ga']).hex()})
    chk.assumptions += ['GNU as 2.40 (--32) is an observed environment component', "the 'objdump' immediate-format variants are not exercised yet"]


def negative_control(chk):
    h = '8b4304'
    il = asm_text.tokenise('mov eax, DWORD PTR [ebx+4]', 'intel')
    al = asm_text.tokenise('movl 4(%ebx), %eax', 'att')
    good = {'b': list(bytes.fromhex(h)), 'h': h, 'st': 'instr', 'attst': 'ok', 'il': il, 'al': al, 'ai': {'st': 'list', 'c': [h]},
            'aa': {'st': 'list', 'c': [h]}, 'gi': list(bytes.fromhex(h)), 'ga': list(bytes.fromhex(h))}
    recs = [dict(good, id=0),
            dict(good, id=1, al=asm_text.tokenise('movl %eax, 4(%ebx)', 'att')),          # operands not reversed
            dict(good, id=2, al=asm_text.tokenise('movw 4(%ebx), %eax', 'att')),          # wrong size suffix
            dict(good, id=3, aa={'st': 'list', 'c': ['8b4308']}),                         # b not reproduced by asm_att
            dict(good, id=4, ga=list(bytes.fromhex('8b4308'))),                           # GNU as produced another displacement
            dict(good, id=5, attst='exc', al=dict(EMPTY_LINE, syn='att'), aa={'st': 'none', 'c': []}, ga=[])]
    verdicts, st = core.judge('T_C09', recs, shards=1)
    got = sorted((v['id'], f['clause'], f['why']) for v in verdicts for f in v['v'])
    want = [(1, 'C09.same_denotation', 'operand_kind'), (2, 'C09.same_denotation', 'size'), (3, 'C09.asm_att', 'list'),
            (4, 'C09.gas_att_same', 'disp'), (5, 'C09.att_renders', 'exc')]
    chk.cov['negative_controls'].append({'name': 'unreversed operands / wrong suffix / missing candidate / other GNU as output / failed rendering flagged; '
                                                 'consistent pair accepted', 'ok': got == want, 'got': got})
    if got != want:
        raise core.MachineryError('C09 negative control failed: %r' % (got,))


def replay(path, chk):
    rp = json.load(open(path))
    recs = observe([rp['detail']['bytes']])
    verdicts, cnt = judge(chk, recs)
    chk.cov['traces_validated_against_impl'] = 1
    chk.cov['evaluations'] = 1
    chk.sample({'bytes': rp['detail']['bytes'], 'intel': recs[0]['rt']['text'], 'att': recs[0]['rt']['att']})
    for v in verdicts:
        for f in v['v']:
            if f['clause'] == rp['class']['clause']:
                print('replay: %s (%s) still fails for %s: %r | %r' % (f['clause'], f['why'], rp['detail']['bytes'], recs[0]['rt']['text'], recs[0]['rt']['att']))
                chk.violation(rp['class'], rp['detail'])
    return chk.finish()
