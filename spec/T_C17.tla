------------------------------- MODULE T_C17 -------------------------------
(* C->S judge for C17.  Record: [id, b, off (4 limbs), ok, len, bk, sp, dt, nxt (5 limbs), dk ("int"|"arg"|"none"|"exc"), *)
(* dst (5 limbs)] = what miasmX reports for the instruction b decoded at stream offset off.                                *)
EXTENDS IA32Flow, Json, IOUtils
Recs == JsonDeserialize(IOEnv.TRACE)
Class(r, d) == IF ~d.ok THEN "specrej" ELSE IF ~r.ok THEN "implrej" ELSE IF d.len # r.len THEN "lendiff"
               ELSE IF FlowClass(d.mn) = "sys" THEN "sys" ELSE "cmp"
Clauses(r, d) ==
   LET c == FlowClass(d.mn)  f == FlowFlags(c)
       direct == c \in {"jmp", "jcc", "call"} /\ Len(d.ops) = 1 /\ d.ops[1].k = "rel"
       F(name, exp, got) == [clause |-> name, cls |-> c, exp |-> exp, got |-> got]
   IN (IF r.nxt # NextAddr(r.off, d.len) THEN <<F("C17.next", "", "")>> ELSE <<>>)
   \o (IF r.bk # f.bk THEN <<F("C17.breakflow", ToString(f.bk), ToString(r.bk))>> ELSE <<>>)
   \o (IF r.sp # f.sp THEN <<F("C17.splitflow", ToString(f.sp), ToString(r.sp))>> ELSE <<>>)
   \o (IF r.dt # f.dt THEN <<F("C17.dstflow", ToString(f.dt), ToString(r.dt))>> ELSE <<>>)
   \o (IF direct /\ r.dt /\ (r.dk # "int" \/ r.dst # Target(r.off, d.len, d.ops[1], d.os))
       THEN <<F("C17.target", ToString(Target(r.off, d.len, d.ops[1], d.os)), r.dk)>> ELSE <<>>)
VARIABLES i, cnt
Init == i = 0 /\ cnt = [cmp |-> 0, specrej |-> 0, implrej |-> 0, lendiff |-> 0, sys |-> 0]
Next == \/ /\ i < Len(Recs) /\ i' = i + 1
           /\ LET r == Recs[i']  d == TLCEval(Decode(r.b, 32))  c == Class(r, d) IN
              /\ cnt' = [cnt EXCEPT ![c] = @ + 1]
              \* a decoded length that differs from the architectural one is judged too: fall-through and target are
              \* architectural notions (offset + length of the instruction those bytes encode)
              /\ IF c \in {"cmp", "lendiff"} THEN
                    LET v == Clauses(r, d) IN
                    IF v = <<>> THEN TRUE ELSE PrintT("VERDICT " \o ToJson([id |-> r.id, v |-> v, mn |-> d.mn, opc |-> d.opc, os |-> d.os, len |-> d.len]))
                 ELSE TRUE
        \/ /\ i = Len(Recs) /\ i' = i + 1 /\ cnt' = cnt
           /\ PrintT("STATS " \o ToJson(cnt))
           /\ PrintT("CONSUMED " \o ToString(Len(Recs)))
=============================================================================
