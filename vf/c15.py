"""C15 - IR nodes obey structural laws: equality, hashing, copy, visit, substitution, canonize.
S->C: IRDeriveGen.tla (TLC) enumerates trees/assignments with a derived near-equal pair, replacement map or
nothing; miasmX is exercised on fresh objects; C->S: T_C15.tla judges every observation."""
import os, sys, json, random, hashlib
from . import core, irlib, expr_json as EJ

NONE = {'k': 'none'}


def gen_derived(maxnodes, ws, binops, kinds, chk, rich=True):
    cfg = (irlib.gen_cfg(maxnodes, ws, 2, binops, ['-'], rich)
           .replace('INIT Init', ' Kinds = {%s}\nINIT Init' % ','.join('"%s"' % k for k in kinds))
           .replace('INVARIANT GenOK', 'INVARIANT DeriveOK'))
    h = hashlib.sha1()
    for f in ('BV.tla', 'IR.tla', 'IRGen.tla', 'IRVar.tla', 'IRDerive.tla', 'IRDeriveGen.tla'):
        h.update(open(os.path.join(core.SPEC, f), 'rb').read())
    h.update(cfg.encode())
    cf = os.path.join(core.VERIF, '.cache', 'irderive_%s.json' % h.hexdigest()[:16])
    os.makedirs(os.path.dirname(cf), exist_ok=True)
    if os.path.exists(cf):
        d = json.load(open(cf))
    else:
        dump = os.path.join(core.scratch(), 'irderive.dump')
        r = core.run_tlc('IRDeriveGen', cfg_text=cfg, extra=['-dump', dump], timeout=1500, heap='12g')
        if not r.ok:
            raise core.MachineryError('IRDeriveGen failed:\n' + r.out[-2000:])
        items = [st['aux'] for st in core.read_dump(dump) if st['aux'].get('kind') != 'none']
        os.unlink(dump)
        d = {'items': items, 'states': r.distinct, 'transitions': r.generated}
        tmp = cf + '.%d' % os.getpid()
        json.dump(d, open(tmp, 'w'))
        os.rename(tmp, cf)
    chk.add_tlc({'states': d['states'], 'transitions': d['transitions']})
    return d['items']


def expr_nodes(e, X, acc):
    if id(e) in acc:
        return acc
    acc[id(e)] = e
    if isinstance(e, X.ExprOp):
        for a in e.args:
            expr_nodes(a, X, acc)
    elif isinstance(e, X.ExprMem):
        expr_nodes(e.arg, X, acc)
        if isinstance(e.segm, X.Expr):
            expr_nodes(e.segm, X, acc)
    elif isinstance(e, X.ExprCond):
        for a in (e.cond, e.src1, e.src2):
            expr_nodes(a, X, acc)
    elif isinstance(e, X.ExprSlice):
        expr_nodes(e.arg, X, acc)
    elif isinstance(e, X.ExprCompose):
        for a in e.args:
            expr_nodes(a[0], X, acc)
    elif isinstance(e, X.ExprAff):
        expr_nodes(e.dst, X, acc)
        expr_nodes(e.src, X, acc)
    return acc


FLAVOURS = [(False, False), (False, True), (True, True)]      # (is_term, is_reg)


def _observe(case):
    from miasmx.expression import expression as X
    t = case.get('e')
    # identifiers come in the flavours the library itself uses: plain variable, machine register (is_reg), initial-value
    # symbol of a register (is_reg and is_term); equality looks at name, size and is_reg
    flav = FLAVOURS[case['id'] % len(FLAVOURS)]

    def mk(tree, term=None):
        e = EJ.from_json(tree)
        for n in expr_nodes(e, X, {}).values():
            if isinstance(n, X.ExprId):
                n.is_reg = flav[1]
                n.is_term = flav[0] if term is None else term
        return e
    produced = None
    if case.get('via') == 'simp':
        # the object under test is what the simplifier RETURNS for case['src'] (it may have been edited in place on the way);
        # e is its structure, and every law is checked between that object and independently built equal expressions
        from miasmx.expression.expression_helper import expr_simp
        try:
            produced = expr_simp(mk(case['src']))
            t = EJ.to_json(produced)
        except Exception as x:
            return {'id': case['id'], 'kind': 'skip', 'e': NONE, 'base': {}, 'src': case['src']}
        if case['kind'] == 'map':
            subs = [x for x in all_subtrees(t) if x['k'] != 'aff' and x.get('w') in (1, 8, 16, 32, 64)]
            if not subs:
                return {'id': case['id'], 'kind': 'skip', 'e': NONE, 'base': {}, 'src': case['src']}
            key = subs[case['id'] % len(subs)]
            case = dict(case, map=[[key, {'k': 'id', 'w': key['w'], 'n': 'r1_%d' % key['w']}]])
    rec = {'id': case['id'], 'kind': case['kind'], 'e': t, 'flavour': list(flav)}
    if produced is not None:
        rec['src'] = case['src']
    b = {'eqself': 0, 'eqfresh': 0, 'hashfresh': 0, 'copy': NONE, 'copyeq': 0, 'shared': 0, 'visit': NONE, 'visiteq': 0,
         'canon': NONE, 'exc': '', 'eqterm': 0, 'hashterm': 1}
    step = 'build'
    try:
        e1, e2 = (produced if produced is not None else mk(t)), mk(t)
        step = 'eq'
        b['eqself'], b['eqfresh'] = int(bool(e1 == e1)), int(bool(e1 == e2) and not bool(e1 != e2))
        step = 'hash'
        b['hashfresh'] = int(hash(e1) == hash(e2))
        step = 'term'
        e3 = mk(t, term=not flav[0])          # the same expression with the other is_term flag on every identifier
        b['eqterm'], b['hashterm'] = int(bool(e1 == e3)), int(hash(e1) == hash(e3))
        step = 'copy'
        c = e1.copy()
        b['copy'], b['copyeq'] = EJ.to_json(c), int(bool(c == e1))
        n1, n2 = expr_nodes(e1, X, {}), expr_nodes(c, X, {})
        b['shared'] = len(set(n1) & set(n2))
        step = 'visit'
        v = e1.visit(lambda x: x)
        b['visit'], b['visiteq'] = EJ.to_json(v), int(bool(v == e1))
        if t['k'] != 'aff':
            step = 'canonize'
            try:
                b['canon'] = EJ.to_json(mk(t).canonize())
            except Exception as x:
                b['canon'] = NONE
                rec['canon_exc'] = irlib.exc_key(x)
    except Exception as x:
        b['exc'] = step + ':' + type(x).__name__
        rec['exc_key'] = irlib.exc_key(x)
    rec['base'] = b
    if case['kind'] == 'mut':
        m = {'f': case['f'], 'g': case['g'], 'ef': 0, 'fe': 0, 'fg': 0, 'eg': 0, 'hef': 0, 'hfg': 0}
        try:
            e, f, g = mk(t), mk(case['f']), mk(case['g'])
            m.update(ef=int(bool(e == f)), fe=int(bool(f == e)), fg=int(bool(f == g)), eg=int(bool(e == g)),
                     hef=int(hash(e) == hash(f)), hfg=int(hash(f) == hash(g)))
        except Exception as x:
            b['exc'] = b['exc'] or 'eqpair:' + type(x).__name__
            rec['exc_key'] = irlib.exc_key(x)
        rec['mut'] = m
    if case['kind'] == 'map':
        mp = case['map']
        res = NONE
        try:
            e = produced if produced is not None else mk(t)
            d = {}
            for k, img in mp:
                d[mk(k)] = mk(img)
            res = EJ.to_json(e.replace_expr(d))
        except Exception as x:
            rec['map_exc'] = irlib.exc_key(x)
        rec['map'] = {'map': mp, 'res': res}
    return rec


def all_subtrees(t, acc=None):
    acc = [] if acc is None else acc
    acc.append(t)
    for x in t.get('a', []) + t.get('g', []):
        all_subtrees(x, acc)
    return acc


def envs_for(rec, rnd, n):
    idw = EJ.ids_of(rec['e'])
    for k in ('mut',):
        if k in rec:
            EJ.ids_of(rec[k]['f'], idw)
            EJ.ids_of(rec[k]['g'], idw)
    if 'map' in rec:
        for k, img in rec['map']['map']:
            EJ.ids_of(img, idw)
        if rec['map']['res'].get('k') != 'none':
            EJ.ids_of(rec['map']['res'], idw)
    if rec['base']['canon'].get('k') != 'none':
        EJ.ids_of(rec['base']['canon'], idw)
    return irlib.make_envs(idw, n, rnd)


def keyof(rec, f):
    from .c05 import shape
    key = {'clause': f['clause'], 'root': rec['e']['k'] + ':' + rec['e'].get('o', '')}
    if f['clause'] == 'C15.exception':
        key['what'] = f.get('what')
        key.update(rec.get('exc_key', {}))
    if f['clause'] == 'C15.canon.exception':
        key.update(rec.get('canon_exc', {}))
    if f['clause'] == 'C15.replace.exception':
        key.update(rec.get('map_exc', {}))
    if f['clause'].startswith('C15.canon.'):
        key['root'] = noncomm_feature(rec['e'])
    return key


def noncomm_feature(t):
    """for canonize findings: does the tree contain an operator that is not commutative-associative with >= 2 operands?"""
    AC = ('+', '*', '^', '&', '|')
    def walk(x):
        if x['k'] == 'op' and x['o'] not in AC and len(x['a']) >= 2:
            return True
        return any(walk(y) for y in x.get('a', []))
    return 'has_noncommutative_op' if walk(t) else 'ac_only'


def _has_kind(t, kinds):
    return t['k'] in kinds or any(_has_kind(c, kinds) for c in t.get('a', []))


def run(tier, chk):
    rnd = random.Random(chk.seed)
    negative_control(chk)
    quick = tier == 'quick'
    items = gen_derived(3, [8, 32], ['+', '-', '&', '<<', '=='], ['plain', 'mut', 'fmap', 'imap', 'cmap'], chk)
    if not quick:
        items += gen_derived(4, [8], ['+', '-', '*', '^', '|', '>>>', 'a>>'], ['plain', 'mut', 'fmap', 'imap', 'cmap'], chk, rich=False)
        items += gen_derived(3, [1, 8, 16, 32, 64], ['+', '^', '-'], ['plain', 'mut'], chk)
    else:
        items = [x for x in items if x['kind'] == 'plain' or rnd.random() < 0.5]
        # concatenations need two widths one of which is the sum of parts of the other (8 + 8 = 16): near-equal pairs of
        # concatenations (part swapped, slot bounds moved, one part fewer / more), slices and cells at the widths 8/16
        items += [x for x in gen_derived(3, [8, 16], ['+'], ['plain', 'mut'], chk) if _has_kind(x['e'], ('compose', 'slice', 'mem', 'cond'))]
    cases = [dict(x, id=i) for i, x in enumerate(items)]
    # expressions produced by the simplifier (adjacent slices merged, constants folded, operands reordered ...) are IR expressions too
    from . import c05
    srcs = c05.sharing_trees(rnd, 600 if quick else 6000) + c05.loose_compose_trees(rnd, 300 if quick else 3000) + c05.random_trees(rnd, 600 if quick else 6000)
    for t in srcs:
        cases.append({'id': len(cases), 'kind': 'plain', 'via': 'simp', 'src': t})
        cases.append({'id': len(cases), 'kind': 'map', 'via': 'simp', 'src': t})
    recs = [r for r in irlib.pmap(_observe, cases) if r['kind'] != 'skip']
    chk.cov['simplifier_produced_objects'] = sum(1 for r in recs if 'src' in r)
    for r in recs:
        r['envs'] = envs_for(r, rnd, 6)
    chk.cov['evaluations'] = len(recs)
    chk.cov['distinct_nontrivial'] = sum(1 for r in recs if r['kind'] != 'plain')
    chk.cov['rule'] = ('cases = reachable derived states of IRDeriveGen.tla (tree or assignment + near-equal pair / replacement map); '
                       'non-trivial = cases with a derived pair or map')
    rnd.shuffle(recs)
    verdicts, st = core.judge('T_C15', recs, timeout=2400)
    chk.add_tlc(st)
    chk.cov['traces_validated_against_impl'] = len(recs)
    for r in recs[:3]:
        chk.sample({'kind': r['kind'], 'e': EJ.show(r['e']), 'base': {k: v for k, v in r['base'].items() if not isinstance(v, dict)}})
    byid = {r['id']: r for r in recs}
    for v in verdicts:
        r = byid[v['id']]
        f = v['v'][0]
        if f['clause'] == 'input.illtyped' and 'src' in r:
            # an ill-typed simplifier output is C05's subject (known finding F-C05-nested-rotate-mixed); C15 speaks about well-typed expressions
            chk.cov['produced_objects_skipped_illtyped'] = chk.cov.get('produced_objects_skipped_illtyped', 0) + 1
            continue
        chk.violation(keyof(r, f), {'case': {k: r[k] for k in r if k != 'envs'}, 'e_text': EJ.show(r['e']), 'verdict': f,
                                    'canon_text': EJ.show(r['base']['canon']) if r['base']['canon'].get('k') not in (None, 'none') else None})


def negative_control(chk):
    x = {'k': 'id', 'w': 8, 'n': 'x8'}
    y = {'k': 'id', 'w': 8, 'n': 'y8'}
    e = {'k': 'op', 'w': 8, 'o': '-', 'u': 0, 'a': [x, y]}
    sw = {'k': 'op', 'w': 8, 'o': '-', 'u': 0, 'a': [y, x]}
    env = [{'id': {'x8': [5], 'y8': [3], 'r1_8': [0]}, 'seed': 1, 'over': []}]
    good = {'eqself': 1, 'eqfresh': 1, 'hashfresh': 1, 'copy': e, 'copyeq': 1, 'shared': 0, 'visit': e, 'visiteq': 1, 'canon': e, 'exc': '', 'eqterm': 1, 'hashterm': 1}
    r1 = {'k': 'id', 'w': 8, 'n': 'r1_8'}
    recs = [{'id': 0, 'kind': 'plain', 'e': e, 'envs': env, 'base': good},
            {'id': 1, 'kind': 'plain', 'e': e, 'envs': env, 'base': dict(good, shared=1)},
            {'id': 2, 'kind': 'plain', 'e': e, 'envs': env, 'base': dict(good, canon=sw)},
            {'id': 3, 'kind': 'mut', 'e': e, 'envs': env, 'base': good, 'mut': {'f': sw, 'g': sw, 'ef': 1, 'fe': 1, 'fg': 1, 'eg': 1, 'hef': 1, 'hfg': 1}},
            {'id': 4, 'kind': 'map', 'e': e, 'envs': env, 'base': good, 'map': {'map': [[x, r1]], 'res': e}},
            {'id': 5, 'kind': 'map', 'e': e, 'envs': env, 'base': good, 'map': {'map': [[x, r1]], 'res': {'k': 'op', 'w': 8, 'o': '-', 'u': 0, 'a': [r1, y]}}},
            {'id': 6, 'kind': 'plain', 'e': e, 'envs': env, 'base': dict(good, hashterm=0)},      # equal to its is_term twin, other hash
            {'id': 7, 'kind': 'plain', 'e': e, 'envs': env, 'base': dict(good, eqterm=0, hashterm=0)}]   # not equal: hashes may differ
    verdicts, st = core.judge('T_C15', recs, shards=1)
    got = sorted((v['id'], v['v'][0]['clause']) for v in verdicts)
    want = [(1, 'C15.copy.shared'), (2, 'C15.canon.value'), (3, 'C15.eq.value'), (4, 'C15.replace.structure'), (6, 'C15.eq.hash')]
    chk.cov['negative_controls'].append({'name': 'shared copy node / value-changing canonize / unsound equality / no-op replace rejected', 'ok': got == want, 'got': got})
    if got != want:
        raise core.MachineryError('C15 negative control failed: %r' % (got,))


def replay(path, chk):
    rp = json.load(open(path))
    c = rp['detail']['case']
    case = {'id': c.get('id', 0), 'kind': c['kind'], 'e': c['e']}
    if 'src' in c:
        case.update(via='simp', src=c['src'])
    if c['kind'] == 'mut':
        case.update(f=c['mut']['f'], g=c['mut']['g'])
    if c['kind'] == 'map' and 'src' not in c:
        case['map'] = c['map']['map']
    irlib._init_worker(False)
    rec = _observe(case)
    rec['envs'] = envs_for(rec, random.Random(chk.seed), 8)
    verdicts, st = core.judge('T_C15', [rec], shards=1)
    chk.add_tlc(st)
    chk.cov['traces_validated_against_impl'] = 1
    chk.cov['evaluations'] = 1
    chk.sample({'e': EJ.show(rec['e'])})
    for v in verdicts:
        print('replay: still fails', v['v'][0]['clause'])
        chk.violation(keyof(rec, v['v'][0]), rp['detail'])
    return chk.finish()
