------------------------------- MODULE SymPool -------------------------------
(* Implementation-shaped model of the symbolic memory pool of miasmX          *)
(* (expression_eval_abstract.py: mpool.pool_mem, eval_instr, get_mem_         *)
(* overlapping, substract_mems, eval_ExprMem), one operator per step the code *)
(* takes, at the level of byte provenance (SymMem).  A value is the sequence  *)
(* of its bytes, Slice = SubSeq, Compose = concatenation of placed pieces.    *)
(*                                                                            *)
(*   cell  [b, off, n, v]   n bytes at base b + off holding the bytes v       *)
(*   pool  set of cells, keyed by (b, off) like the dict pool_mem             *)
(*                                                                            *)
(* AsCoded = TRUE  follows eval_ExprMem as it is written: a cell that starts  *)
(*                 before the load is placed at its (negative) offset and the *)
(*                 gaps are computed on the list sorted by DESCENDING offset; *)
(* AsCoded = FALSE is the repaired design: such a cell is placed at 0 and     *)
(*                 gaps are computed on the ascending list.                   *)
(* TLC checks on this model (SymPoolSelf, <= 3 stores, exhaustively):         *)
(*   NoOverlap, FlattenOK (pool = SymMem memory on written bytes), LoadOK      *)
(*   (every load of every width at every offset returns the concrete bytes).  *)
(* With AsCoded = TRUE LoadOK has a one-store counterexample (C07 driver).    *)
EXTENDS SymMem
CONSTANT AsCoded
VARIABLE pool
pvars == <<hist, mem, pool>>

Cell(b, off, v) == [b |-> b, off |-> off, n |-> Len(v), v |-> v]
At(p, b, off) == {c \in p : c.b = b /\ c.off = off}
Insert(p, c) == (p \ At(p, c.b, c.off)) \cup {c}                  \* dict assignment pool_mem[addr] = ...
Min(x, y) == IF x < y THEN x ELSE y

\* get_mem_overlapping: probe the addresses e + i for i in [-(MaxCellBytes - 1), n) and keep the cells found there
\* unless they end before e ("too long" test: e - x >= size of the cell).  The code hard-wires the widest cell it
\* expects: 16 bytes (an SSE operand) since fix 0ea0192, 8 bytes before - with 8, a 128-bit store is invisible to
\* accesses 8..15 bytes above its start (SymPoolWideSelf shows NoOverlap/LoadOK failing for MaxCellBytes = 8).
MaxCellBytes == 16
Window(p, b, off, n) == {c \in p : c.b = b /\ (c.off - off) \in (1 - MaxCellBytes)..(n - 1) /\ ~((off - c.off) >= c.n)}

\* substract_mems(a, new): what is left of cell a when [off, off + n) is overwritten
Subtract(a, off, n) ==
   LET d == off - a.off IN
   IF d < 0 THEN LET sub == n + d IN                               \* new store starts before a
                 IF sub >= a.n THEN {} ELSE {Cell(a.b, a.off + sub, SubSeq(a.v, sub + 1, a.n))}
   ELSE (IF d > 0 THEN {Cell(a.b, a.off, SubSeq(a.v, 1, d))} ELSE {})                       \* part X
        \cup (IF d + n < a.n THEN {Cell(a.b, off + n, SubSeq(a.v, d + n + 1, a.n))} ELSE {})   \* part Y

\* eval_instr for one memory destination: delete every overlapped cell, insert its remainders, insert the new cell
RECURSIVE SubtractAll(_,_,_,_)
SubtractAll(p, ov, off, n) ==
   IF ov = {} THEN p ELSE
   LET x == CHOOSE c \in ov : TRUE
       rest == Subtract(x, off, n)
       RECURSIVE ins(_,_)
       ins(q, cs) == IF cs = {} THEN q ELSE LET c == CHOOSE c \in cs : TRUE IN ins(Insert(q, c), cs \ {c})
   IN SubtractAll(ins(p \ At(p, x.b, x.off), rest), ov \ {x}, off, n)
PoolStore(p, b, off, v) == Insert(SubtractAll(p, Window(p, b, off, Len(v)), off, Len(v)), Cell(b, off, v))

\* ---- eval_ExprMem ----------------------------------------------------------
Fresh(off, n) == [i \in 1..n |-> <<0, off + i - 1>>]               \* ExprMem(addr, n*8) left symbolic: initial memory
IllFormed == << <<-1, -1>> >>                                      \* a composition that does not tile [0, n)

\* bigger lookup: a cell starts at the address but is narrower than the load
RECURSIVE Bigger(_,_,_,_,_)
Bigger(p, b, ptr, rest, out) ==
   IF rest <= 0 THEN out ELSE
   LET cs == At(p, b, ptr) IN
   IF cs = {} THEN Bigger(p, b, ptr + 1, rest - 1, out \o Fresh(ptr, 1))
   ELSE LET c == CHOOSE c \in cs : TRUE IN
        IF rest >= c.n THEN Bigger(p, b, ptr + c.n, rest - c.n, out \o c.v)
        ELSE Bigger(p, b, ptr + c.n, 0, out \o SubSeq(c.v, 1, rest))

\* pieces [lo, hi, v] (byte positions relative to the load) contributed by the overlapping cells
Piece(c, off, n) ==
   LET i == c.off - off IN
   IF i >= 0 THEN LET m == Min(n - i, c.n) IN [lo |-> i, hi |-> i + m, v |-> SubSeq(c.v, 1, m)]
   ELSE LET m == Min(n - i, c.n)                                   \* bytes [-i, m) of the cell
            v == SubSeq(c.v, 1 - i, m)
            lo == IF AsCoded THEN i ELSE 0                         \* the defect: off_base = off*8 < 0
        IN [lo |-> lo, hi |-> lo + Len(v), v |-> v]
\* sequence of the pieces ordered by lo (ascending / descending)
RECURSIVE SortBy(_,_)
SortBy(ps, desc) == IF ps = {} THEN <<>> ELSE
   LET x == CHOOSE x \in ps : \A y \in ps : IF desc THEN y.lo <= x.lo ELSE x.lo <= y.lo IN <<x>> \o SortBy(ps \ {x}, desc)
\* rest_slice(slices, start, stop): the gaps, walking the list in the order given
RECURSIVE RestSlice(_,_,_,_)
RestSlice(sl, i, last, stop) ==
   IF i > Len(sl) THEN (IF last # stop THEN << <<last, stop>> >> ELSE <<>>)
   ELSE IF sl[i].lo = last THEN RestSlice(sl, i + 1, sl[i].hi, stop)
   ELSE << <<last, sl[i].lo>> >> \o RestSlice(sl, i + 1, sl[i].hi, stop)
\* ExprCompose(out)[0:n]: defined when the pieces tile [0, n)
RECURSIVE Assemble(_,_,_)
Assemble(ps, pos, n) ==
   IF pos = n THEN (IF ps = {} THEN <<>> ELSE IllFormed)
   ELSE LET nx == {x \in ps : x.lo = pos /\ x.hi > pos /\ x.hi <= n /\ Len(x.v) = x.hi - x.lo} IN
        IF Cardinality(nx) # 1 THEN IllFormed
        ELSE LET x == CHOOSE x \in nx : TRUE
                 r == Assemble(ps \ {x}, x.hi, n)
             IN IF r = IllFormed THEN IllFormed ELSE x.v \o r
Overlapping(p, b, off, n) ==
   LET ps == {Piece(c, off, n) : c \in Window(p, b, off, n)}
       gaps == RestSlice(SortBy(ps, AsCoded), 1, 0, n)
       fresh == {[lo |-> gaps[j][1], hi |-> gaps[j][2],
                  v |-> IF gaps[j][2] > gaps[j][1] THEN Fresh(off + gaps[j][1], gaps[j][2] - gaps[j][1]) ELSE <<>>] : j \in 1..Len(gaps)}
   IN IF ps = {} THEN Fresh(off, n) ELSE Assemble(ps \cup fresh, 0, n)

\* which of the paths of eval_ExprMem a load takes (also names the class of a failing load in T_C07)
LoadPath(p, b, off, n) ==
   LET here == At(p, b, off) win == Window(p, b, off, n) IN
   IF here # {} THEN LET c == CHOOSE c \in here : TRUE IN
                     IF c.n = n THEN "exact" ELSE IF c.n > n THEN "part" ELSE "bigger"
   ELSE IF win = {} THEN "fresh"
   ELSE IF \E c \in win : c.off < off THEN "overlap_starts_inside_cell"
   ELSE IF Cardinality(win) > 1 THEN "overlap_several_cells" ELSE "overlap_one_cell"
PoolLoad(p, b, off, n) ==
   LET here == At(p, b, off) IN
   IF here # {} THEN LET c == CHOOSE c \in here : TRUE IN
                     IF c.n = n THEN c.v
                     ELSE IF c.n > n THEN SubSeq(c.v, 1, n)
                     ELSE Bigger(p, b, off, n, <<>>)
   ELSE Overlapping(p, b, off, n)

\* the model pool after the first j actions of a history (used by T_C07)
RECURSIVE PoolAfter(_,_,_,_)
PoolAfter(h, i, j, p) ==
   IF i > j THEN p
   ELSE PoolAfter(h, i + 1, j, IF h[i].op = "st" THEN PoolStore(p, h[i].b, h[i].off, [x \in 1..NBytes(h[i]) |-> <<h[i].k, x>>]) ELSE p)

\* ---- state machine: SymMem stores, the pool follows -------------------------
PInit == Init /\ pool = {}
PStore(w, b, off) == /\ Store(w, b, off, "c")
                     /\ pool' = PoolStore(pool, b, off, [x \in 1..(w \div 8) |-> <<NStores(hist) + 1, x>>])
PNext == \E w \in Ws, b \in Bases, off \in Offs : PStore(w, b, off)

\* ---- the property on the model ----------------------------------------------
CellBytes(c) == {<<c.b, c.off + i>> : i \in 0..(c.n - 1)}
NoOverlap == \A c1 \in pool, c2 \in pool : c1 # c2 => CellBytes(c1) \cap CellBytes(c2) = {}
FlattenOK == /\ UNION {CellBytes(c) : c \in pool} = DOMAIN mem
             /\ \A c \in pool : Len(c.v) = c.n /\ \A i \in 1..c.n : c.v[i] = mem[<<c.b, c.off + i - 1>>]
LoadOK == \A w \in Ws, b \in Bases, off \in Offs :
             PoolLoad(pool, b, off, w \div 8) = Read(mem, [w |-> w, b |-> b, off |-> off])
=============================================================================
