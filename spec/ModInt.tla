------------------------------- MODULE ModInt -------------------------------
(* Fixed-width integers (C14): arithmetic modulo 2^n.                        *)
(* An operand is [s, n, v]: s = 0 unsigned fixed type, 1 signed fixed type,  *)
(* 2 plain (unbounded) integer given in two's complement on n bits; v limbs. *)
(* The exact mathematical value of every operand is taken in two's           *)
(* complement on a work width WW large enough for the exact result.          *)
EXTENDS BV

IsFixed(o) == o.s \in {0, 1}
Exact(o, W) == IF o.s = 0 THEN ZExt(o.v, W) ELSE SExt(Norm(o.v, o.n), o.n, W)
MaxN(a, b) == IF a.n > b.n THEN a.n ELSE b.n
WorkW(a, b) == MaxN(a, b) + 16      \* ring operators only need the low ResN bits; the others need exact operands
IsNeg(x, W) == Msb(x, W) = 1

\* type of the result of a binary arithmetic operator:
\*   two fixed types -> the wider one (equal widths: either signedness is accepted);
\*   fixed with plain int -> the fixed type.
ResN(a, b) == IF IsFixed(a) /\ IsFixed(b) THEN MaxN(a, b) ELSE IF IsFixed(a) THEN a.n ELSE b.n
ResS(a, b) == IF IsFixed(a) /\ IsFixed(b)
                 THEN (IF a.n > b.n THEN {a.s} ELSE IF b.n > a.n THEN {b.s} ELSE {a.s, b.s})
              ELSE IF IsFixed(a) THEN {a.s} ELSE {b.s}

Fixed(a, b, x, W) == [kind |-> "fixed", n |-> ResN(a, b), ss |-> ResS(a, b), v |-> Norm(x, ResN(a, b))]
BoolR(p) == [kind |-> "bool", b |-> p]
Undef == [kind |-> "undef"]

\* Python's floored modulo on exact signed values of width W, y # 0
FloorMod(x, y, W) ==
   LET qr == SDivRem(x, y, W)
       r == qr[2]
   IN IF ~IsZero(r) /\ (IsNeg(r, W) # IsNeg(y, W)) THEN Add(r, y, W) ELSE r

RECURSIVE PowR(_,_,_)
PowR(x, k, W) == IF k = 0 THEN FromNat(1, W)
                 ELSE LET h == PowR(x, k \div 2, W)
                          h2 == Mul(h, h, W)
                      IN IF k % 2 = 1 THEN Mul(h2, x, W) ELSE h2

Arith == {"+", "-", "*", "&", "|", "^", "<<", ">>", "%", "**"}
Cmp == {"==", "!=", "<", "<=", ">", ">="}
BinOps == Arith \cup Cmp
UnOps == {"~", "neg", "abs", "int"}

\* shift counts / exponents the check explores (larger ones make Python materialise x * 2^y)
MaxCount == 70000

Res2(op, a, b) ==
   LET W == WorkW(a, b)
       x == Exact(a, W)
       y == Exact(b, W)
       cnt == SmallVal(y)
   IN CASE op = "+" -> Fixed(a, b, Add(x, y, W), W)
        [] op = "-" -> Fixed(a, b, Sub(x, y, W), W)
        [] op = "*" -> Fixed(a, b, Mul(x, y, W), W)
        [] op = "&" -> Fixed(a, b, BAnd(x, y, W), W)
        [] op = "|" -> Fixed(a, b, BOr(x, y, W), W)
        [] op = "^" -> Fixed(a, b, BXor(x, y, W), W)
        [] op = "<<" -> IF IsNeg(y, W) \/ cnt > MaxCount THEN Undef ELSE Fixed(a, b, ShlN(x, cnt, W), W)
        [] op = ">>" -> IF IsNeg(y, W) \/ cnt > MaxCount THEN Undef ELSE Fixed(a, b, SarN(x, cnt, W), W)
        [] op = "%" -> IF IsZero(y) THEN Undef ELSE Fixed(a, b, FloorMod(x, y, W), W)      \* bit-serial division: slow
        [] op = "**" -> IF IsNeg(y, W) \/ cnt > 300 THEN Undef ELSE Fixed(a, b, PowR(x, cnt, W), W)
        [] op = "==" -> BoolR(x = y)
        [] op = "!=" -> BoolR(x # y)
        [] op = "<" -> BoolR(Slt(x, y, W))
        [] op = "<=" -> BoolR(~Slt(y, x, W))
        [] op = ">" -> BoolR(Slt(y, x, W))
        [] op = ">=" -> BoolR(~Slt(x, y, W))

\* x % y with an untrusted quotient witness q (supplied by the driver): the remainder
\* r = x - q*y is THE floored remainder iff (r = 0 \/ sign r = sign y) /\ |r| < |y|, which
\* is checked here, so a wrong witness can only produce "witness", never a wrong verdict.
ModWit(a, b, q) ==
   LET W == WorkW(a, b)
       x == Exact(a, W)
       y == Exact(b, W)
       W2 == 2 * W
       r2 == Sub(SExt(x, W, W2), Mul(SExt(q, W, W2), SExt(y, W, W2), W2), W2)
       r == Norm(r2, W)
       ok == /\ SExt(r, W, W2) = r2
             /\ (IsZero(r) \/ IsNeg(r, W) = IsNeg(y, W))
             /\ Ult(Abs(r, W), Abs(y, W))
   IN IF IsZero(y) THEN Undef ELSE IF ok THEN Fixed(a, b, r, W) ELSE [kind |-> "badwitness"]

Res1(op, a) ==
   LET W == a.n + 16
       x == Exact(a, W)
   IN CASE op = "~" -> [kind |-> "fixed", n |-> a.n, ss |-> {a.s}, v |-> Norm(BNot(x, W), a.n)]
        [] op = "neg" -> [kind |-> "fixed", n |-> a.n, ss |-> {a.s}, v |-> Norm(Neg(x, W), a.n)]
        [] op = "abs" -> [kind |-> "abs", n |-> a.n, ss |-> {a.s}, w |-> W, x |-> Abs(x, W)]
        [] op = "int" -> [kind |-> "int", w |-> W, x |-> x]

\* ---- conformance of an observed result with an expected one -------------
\* observed: [t |-> "fixed", s, n, v (two's complement of the stored value on n+16 bits)]
\*         | [t |-> "bool", b] | [t |-> "int", n, v (two's complement on n bits)] | [t |-> "exc", name]
ObsInRange(o) == o.v = Exact([s |-> o.s, n |-> o.n, v |-> Norm(o.v, o.n)], o.n + 16)
IntEq(ov, on, x, W) ==     \* plain int observed on `on` bits equals exact x on W bits
   LET M == IF on > W THEN on ELSE W IN SExt(ov, on, M) = SExt(x, W, M)
Conforms(exp, o) ==
   CASE exp.kind = "undef" -> "ok"
     [] exp.kind = "badwitness" -> "witness"
     [] exp.kind = "fixed" ->
          IF o.t # "fixed" THEN "type"
          ELSE IF o.n # exp.n \/ o.s \notin exp.ss THEN "type"
          ELSE IF ~ObsInRange(o) THEN "range"
          ELSE IF Norm(o.v, o.n) # exp.v THEN "value" ELSE "ok"
     [] exp.kind = "bool" ->
          IF o.t # "bool" THEN "type" ELSE IF o.b # exp.b THEN "value" ELSE "ok"
     [] exp.kind = "int" ->
          IF o.t = "int" THEN (IF IntEq(o.v, o.n, exp.x, exp.w) THEN "ok" ELSE "value") ELSE "type"
     [] exp.kind = "abs" ->      \* either the exact |x| as a plain integer or reduced into the type
          IF o.t = "int" THEN (IF IntEq(o.v, o.n, exp.x, exp.w) THEN "ok" ELSE "value")
          ELSE IF o.t = "fixed" THEN
               (IF o.n # exp.n \/ o.s \notin exp.ss THEN "type"
                ELSE IF ~ObsInRange(o) THEN "range"
                ELSE IF Norm(o.v, o.n) # Norm(exp.x, exp.n) THEN "value" ELSE "ok")
          ELSE "type"

\* ---- native-integer path (small operands): the definition a reader can check by eye ----
\* Exact mathematical result in TLA+ Integers, reduced modulo 2^n.  Usable when the
\* result width is <= 15 bits and operands are within +-2^15; it is checked against
\* the limb path by ModIntSelf.tla and used for the exhaustive 8-bit sweep.
IntOf(o) == LET raw == ToNat(Norm(o.v, o.n)) IN
            IF o.s = 0 THEN raw ELSE IF raw >= 2^(o.n - 1) THEN raw - 2^o.n ELSE raw
Red(x, n) == x % (2^n)
RECURSIVE PowMod(_,_,_)
PowMod(x, k, m) == IF k = 0 THEN 1 % m ELSE (x * PowMod(x, k - 1, m)) % m
PyMod(x, y) == IF y > 0 THEN x % y ELSE -((-x) % (-y))
NFixed(a, b, u) == [kind |-> "nfixed", n |-> ResN(a, b), ss |-> ResS(a, b), u |-> u]
NatRes2(op, a, b) ==
   LET x == IntOf(a)
       y == IntOf(b)
       n == ResN(a, b)
       xr == Red(x, n)
       yr == Red(y, n)
   IN CASE op = "+" -> NFixed(a, b, Red(xr + yr, n))
        [] op = "-" -> NFixed(a, b, Red(xr - yr, n))
        [] op = "*" -> NFixed(a, b, Red(xr * yr, n))
        [] op = "&" -> NFixed(a, b, xr & yr)
        [] op = "|" -> NFixed(a, b, xr | yr)
        [] op = "^" -> NFixed(a, b, xr ^^ yr)
        [] op = "<<" -> IF y < 0 THEN Undef ELSE NFixed(a, b, IF y >= n THEN 0 ELSE Red(xr * 2^y, n))
        [] op = ">>" -> IF y < 0 THEN Undef ELSE NFixed(a, b, IF y >= 20 THEN (IF x < 0 THEN Red(-1, n) ELSE 0) ELSE Red(x \div 2^y, n))
        [] op = "%" -> IF y = 0 THEN Undef ELSE NFixed(a, b, Red(PyMod(x, y), n))
        [] op = "**" -> IF y < 0 \/ y > 300 THEN Undef ELSE NFixed(a, b, PowMod(xr, y, 2^n))
        [] op = "==" -> BoolR(x = y)
        [] op = "!=" -> BoolR(x # y)
        [] op = "<" -> BoolR(x < y)
        [] op = "<=" -> BoolR(x <= y)
        [] op = ">" -> BoolR(x > y)
        [] op = ">=" -> BoolR(x >= y)
NatRes1(op, a) ==
   LET x == IntOf(a) IN
   CASE op = "~" -> [kind |-> "nfixed", n |-> a.n, ss |-> {a.s}, u |-> Red(-x - 1, a.n)]
     [] op = "neg" -> [kind |-> "nfixed", n |-> a.n, ss |-> {a.s}, u |-> Red(-x, a.n)]
     [] op = "abs" -> [kind |-> "nabs", n |-> a.n, ss |-> {a.s}, x |-> IF x < 0 THEN -x ELSE x]
     [] op = "int" -> [kind |-> "nint", x |-> x]
\* compact observation: <<0, s, n, stored>> fixed | <<1, b>> bool | <<2, x>> plain int | <<3>> exception | <<4>> other
NInRange(s, n, x) == IF s = 0 THEN x >= 0 /\ x < 2^n ELSE x >= -(2^(n-1)) /\ x < 2^(n-1)
NConforms(exp, o) ==
   CASE exp.kind = "undef" -> "ok"
     [] exp.kind = "badwitness" -> "witness"
     [] exp.kind = "nfixed" ->
          IF o[1] # 0 THEN "type"
          ELSE IF o[3] # exp.n \/ o[2] \notin exp.ss THEN "type"
          ELSE IF ~NInRange(o[2], o[3], o[4]) THEN "range"
          ELSE IF Red(o[4], o[3]) # exp.u THEN "value" ELSE "ok"
     [] exp.kind = "bool" -> IF o[1] # 1 THEN "type" ELSE IF (o[2] = 1) # exp.b THEN "value" ELSE "ok"
     [] exp.kind = "nint" -> IF o[1] # 2 THEN "type" ELSE IF o[2] # exp.x THEN "value" ELSE "ok"
     [] exp.kind = "nabs" ->
          IF o[1] = 2 THEN (IF o[2] = exp.x THEN "ok" ELSE "value")
          ELSE IF o[1] = 0 THEN (IF o[3] # exp.n \/ o[2] \notin exp.ss THEN "type"
                                 ELSE IF ~NInRange(o[2], o[3], o[4]) THEN "range"
                                 ELSE IF Red(o[4], o[3]) # Red(exp.x, exp.n) THEN "value" ELSE "ok")
          ELSE "type"
=============================================================================
