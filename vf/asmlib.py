"""Shared pieces of the assembler-side checks (C02 C03 C09 C10-asm C19): canonical lines from AsmSpace.tla,
parallel execution of asm()/asm_att()/dis() with outcome classification."""
import os, sys, json, hashlib, signal, multiprocessing
from . import core, irlib

SPEC_DEPS = ('BV.tla', 'Syntax.tla', 'AsmSpace.tla')


def spec_hash(files, extra=''):
    h = hashlib.sha1()
    for f in files:
        h.update(open(os.path.join(core.SPEC, f), 'rb').read())
    h.update(extra.encode())
    return h.hexdigest()[:16]


def gen_lines(chk=None, level='full', timeout=1500):
    """Reachable states of AsmSpace.tla = canonical lines [mn, ops] (+ src).  Repo-independent -> cached."""
    cfg = 'CONSTANT Level = "%s"\nINIT Init\nNEXT Next\nINVARIANT LineOK\nCHECK_DEADLOCK FALSE\n' % level
    cdir = os.path.join(core.VERIF, '.cache')
    os.makedirs(cdir, exist_ok=True)
    cf = os.path.join(cdir, 'asmspace_%s.json' % spec_hash(SPEC_DEPS, cfg))
    if os.path.exists(cf):
        d = json.load(open(cf))
    else:
        dump = os.path.join(core.scratch(), 'asmspace.dump')
        r = core.run_tlc('AsmSpace', cfg_text=cfg, extra=['-dump', dump], timeout=timeout)
        if not r.ok:
            raise core.MachineryError('AsmSpace failed:\n' + r.out[-2000:])
        lines = [{'ins': st['ins'], 'src': st['src'], 'plaus': st['plaus']} for st in core.read_dump(dump)]
        os.unlink(dump)
        lines.sort(key=lambda l: json.dumps(l, sort_keys=True))
        d = {'lines': lines, 'states': r.distinct, 'transitions': r.generated}
        tmp = cf + '.%d' % os.getpid()
        json.dump(d, open(tmp, 'w'))
        os.rename(tmp, cf)
    if chk is not None:
        chk.add_tlc({'states': d['states'], 'transitions': d['transitions']})
    return d['lines']


# ---------------------------------------------------------------- running miasmX
_mn = None


def _init():
    global _mn
    irlib._init_worker(False)
    import logging
    logging.disable(logging.CRITICAL)
    sys.stdout = open(os.devnull, 'w')          # the lexers print "Illegal character ..."
    from miasmx.arch.ia32_arch import x86mnemo
    _mn = x86mnemo


def asm_one(item):
    """item = (syntax, text) -> outcome {'st': list|reject|internal|timeout|other, 'c': [hex...], 'exc': {...}}
    reject = the assembler's own parse/encoding error (ValueError raised by parser/encoder, see parse_ad.p_error,
    ia32_att.p_error, mnemo_from_att, parse_mnemo); any other exception is internal."""
    syn, text = item
    if _mn is None:
        _init()
    fn = _mn.asm_att if syn == 'att' else _mn.asm
    old = signal.signal(signal.SIGALRM, irlib._alarm)
    signal.alarm(5)
    try:
        r = fn(text)
        signal.alarm(0)
        if isinstance(r, list) and all(isinstance(x, bytes) for x in r):
            return {'st': 'list', 'c': [x.hex() for x in r]}
        return {'st': 'other', 'c': [], 'exc': {'exc': type(r).__name__, 'func': 'return value', 'line': repr(r)[:80]}}
    except irlib._TO:
        return {'st': 'timeout', 'c': []}
    except ValueError as x:
        signal.alarm(0)
        return {'st': 'reject', 'c': [], 'exc': irlib.exc_key(x)}
    except RecursionError:
        signal.alarm(0)
        return {'st': 'internal', 'c': [], 'exc': {'exc': 'RecursionError', 'func': '', 'line': ''}}
    except Exception as x:
        signal.alarm(0)
        return {'st': 'internal', 'c': [], 'exc': irlib.exc_key(x)}
    finally:
        signal.alarm(0)
        signal.signal(signal.SIGALRM, old)


def pmap(fn, items, chunk=500):
    if len(items) < 200:
        _init()
        return [fn(x) for x in items]
    ctx = multiprocessing.get_context('fork')
    with ctx.Pool(core.NCPU, initializer=_init) as p:
        return p.map(fn, items, chunksize=chunk)


def run_asm(items):
    """[(syntax, text)] -> [outcome], in forked workers importing miasmX from VERIF_REPO"""
    return pmap(asm_one, items)


def fresh_asm(items):
    """same, in one fresh interpreter per call batch (used to confirm that a finding does not depend on call order)"""
    p = core.run_py(['-c', 'import sys, json\nfrom vf import asmlib\nprint(json.dumps([asmlib.asm_one(tuple(x)) for x in json.load(sys.stdin)]), file=sys.__stdout__)'],
                    input_obj=items, timeout=600)
    if p.returncode != 0:
        raise core.MachineryError('fresh_asm failed: ' + p.stderr[-1000:])
    return json.loads(p.stdout.strip().splitlines()[-1])


ALL_ACTS = ["RegCase", "KwCase", "Spacing", "NumBase", "ImmSign", "DispSign", "TermOrder", "DispOut", "Percent", "StBare", "ToAtt"]


def spell(lines, maxacts, acts, timeout=3000, chk=None):
    """Spelling.tla over `lines` (list of {'id', 'ins'}): returns the reachable (lid, pres, line) states.
    TLC checks the invariant DenoteOK on every state (a violated invariant is a machinery failure: our spec is wrong)."""
    d = core.scratch()
    lf = os.path.join(d, 'lines_%d.json' % os.getpid())
    json.dump([{'id': l['id'], 'ins': l['ins']} for l in lines], open(lf, 'w'))
    dump = os.path.join(d, 'spell_%d.dump' % os.getpid())
    cfg = ('CONSTANTS MaxActs = %d\n Acts = {%s}\nINIT Init\nNEXT Next\nINVARIANT DenoteOK\nCHECK_DEADLOCK FALSE\n'
           % (maxacts, ','.join('"%s"' % a for a in acts)))
    r = core.run_tlc('Spelling', cfg_text=cfg, env={'LINES': lf}, extra=['-dump', dump], timeout=timeout, heap='12g')
    if not r.ok:
        raise core.MachineryError('Spelling failed (invariant DenoteOK or evaluation):\n' + r.out[-3000:])
    out = []
    for st in core.read_dump(dump):
        out.append({'lid': lines[st['lid'] - 1]['id'], 'pres': st['pres'], 'line': st['line']})
    os.unlink(dump)
    os.unlink(lf)
    if chk is not None:
        chk.add_tlc(r)
    return out, r


def canon_lines(chk=None):
    """canonical lines with their canonical Intel layout and (where it exists) AT&T transliteration; cached"""
    cdir = os.path.join(core.VERIF, '.cache')
    cf = os.path.join(cdir, 'asmcanon_%s.json' % spec_hash(SPEC_DEPS + ('Spelling.tla',)))
    if os.path.exists(cf):
        d = json.load(open(cf))
        if chk is not None:
            chk.add_tlc({'states': d['states'], 'transitions': d['transitions']})
        return d['lines']
    lines = gen_lines(chk)
    for i, l in enumerate(lines):
        l['id'] = i
    sts, r = spell(lines, 1, ['ToAtt'], chk=chk)
    for s in sts:
        lines[s['lid']][s['line']['syn']] = s['line']
    d = {'lines': lines, 'states': r.distinct, 'transitions': r.generated}
    tmp = cf + '.%d' % os.getpid()
    json.dump(d, open(tmp, 'w'))
    os.rename(tmp, cf)
    return lines


def op_shape(o):
    if o['k'] == 'reg':
        return o['c']
    if o['k'] == 'imm':
        return 'sym' if o['sym'] else 'imm'
    return ('m%d' % o['sz'] + ('S' if o['seg'] else '') + '[' + ('b' if o['b'] >= 0 else '') + ('i' if o['i'] >= 0 else '')
            + ('*s' if o['sc'] > 1 else '') + ('d' if any(o['d']) else '') + ('y' if o['sym'] else '') + ']')


def shape(ins):
    return ','.join(op_shape(o) for o in ins['ops'])
