"""C12 - API results depend only on explicit inputs (no hidden state between calls).

S->C: Api.tla (TLC) enumerates API histories (exhaustively to a depth, then -simulate up to 50 calls) per parser-table
      cache configuration and says, per call, which abstract key its result may depend on.
      Caches.tla (TLC) is the implementation-shaped model of the memo mechanisms; its counterexample and its
      behaviours are replayed into the code.
impl: every history runs in a forked child of a fresh interpreter per cache configuration (vf/c12z.py) which records
      result fingerprints and state snapshots.
C->S: T_C12.tla judges the recorded histories (pools / inputs / tables unchanged) and learns the function
      key -> result over all histories, processes and configurations."""
import os, sys, json, random, shutil, subprocess, hashlib, time, collections, re, glob
from . import core

TIERS = {'quick': dict(depth=3, depthcfg=2, nsim=150, simlen=50, model_calls=2),
         # (depth 4 over the 39-call menu would be 2.3 M histories: every sequence of 3 calls under every cache configuration,
         #  and twenty thousand simulated histories of 50 calls instead)
         'thorough': dict(depth=3, depthcfg=3, nsim=20000, simlen=50, model_calls=3)}
CONFIGS = ['valid', 'empty', 'other', 'oldsig', 'oldrules']
TABMODS = {'intel': 'ply_ia32_intel_20150429.py', 'att': 'ply_ia32_att_20150429.py'}
REFMUL = 64          # observation reference = history id * REFMUL + position


def log(msg):
    sys.stderr.write('[c12 %6.1fs] %s\n' % (time.time() - _T0, msg))
    sys.stderr.flush()


_T0 = time.time()


# ----------------------------------------------------------------------------------------------------------
# S->C generators
def _api_cfg(depth, depthcfg, configs):
    return ('CONSTANTS\n Depth = %d\n DepthCfg = %d\n Configs = {%s}\nINIT Init\nNEXT Next\n'
            'INVARIANT TypeOK\nINVARIANT MstOK\nINVARIANT MenuOK\nCHECK_DEADLOCK FALSE\n'
            % (depth, depthcfg, ','.join('"%s"' % c for c in configs)))


def _menu_of(out):
    m = re.search(r'^"MENU (.*)"\s*$', out, flags=re.M)
    if not m:
        raise core.MachineryError('Api.tla did not print its menu:\n' + out[-1500:])
    return json.loads(json.loads('"' + m.group(1) + '"'))


def _key_str(menu, k):
    names = menu['calls']
    return 'A|%s|%s' % (names[k[0] - 1]['c'], '.'.join(names[i - 1]['c'] for i in k[1]))


def gen_exhaustive(depth, depthcfg, chk):
    """maximal histories of Api.tla (dump cached under /verif/.cache: it does not depend on the repo)"""
    cfg = _api_cfg(depth, depthcfg, CONFIGS)
    h = hashlib.sha1(open(os.path.join(core.SPEC, 'Api.tla'), 'rb').read() + cfg.encode()).hexdigest()[:16]
    cdir = os.path.join(core.VERIF, '.cache')
    os.makedirs(cdir, exist_ok=True)
    cf = os.path.join(cdir, 'c12api_%s.json' % h)
    if os.path.exists(cf):
        d = json.load(open(cf))
    else:
        dump = os.path.join(core.scratch(), 'c12api.dump')
        r = core.run_tlc('Api', cfg_text=cfg, extra=['-dump', dump, '-coverage', '1'], timeout=1500, heap='8g')
        if not r.ok:
            raise core.MachineryError('Api.tla failed:\n' + r.out[-2000:])
        menu = _menu_of(r.out)
        names = [x['c'] for x in menu['calls']]
        hs = []
        for st in core.read_dump(dump):
            bound = depth if st['cfg'] == 'valid' else depthcfg
            if len(st['hist']) == bound:
                hs.append([st['cfg'], [names[i - 1] for i in st['hist']], [_key_str(menu, k) for k in st['keys']]])
        os.unlink(dump)
        hs.sort()
        d = {'menu': menu, 'hist': hs, 'states': r.distinct, 'transitions': r.generated, 'coverage': r.coverage()}
        tmp = cf + '.%d' % os.getpid()
        json.dump(d, open(tmp, 'w'))
        os.rename(tmp, cf)
    chk.add_tlc({'states': d['states'], 'transitions': d['transitions']})
    return d


def gen_simulated(n, length, seed, chk):
    """n random histories of `length` calls: tlc -simulate on the same specification"""
    d = os.path.join(core.scratch(), 'c12sim_%d' % seed)
    shutil.rmtree(d, ignore_errors=True)
    os.makedirs(d)
    cfg = _api_cfg(length, length, CONFIGS)
    r = core.run_tlc('Api', cfg_text=cfg, workers=1, timeout=900,
                     extra=['-seed', str(seed), '-simulate', 'file=%s/tr,num=%d' % (d, n), '-depth', str(length + 1)])
    if 'Error' in r.out or r.rc != 0:
        raise core.MachineryError('Api.tla -simulate failed:\n' + r.out[-2000:])
    menu = _menu_of(r.out)
    names = [x['c'] for x in menu['calls']]
    hs = []
    for p in sorted(glob.glob(d + '/tr_*')):
        txt = open(p).read()
        k = txt.rfind('\nSTATE_')
        block = txt[k:]
        st = {}
        for m in re.finditer(r'^(?:/\\ )?(\w+) = ', block, flags=re.M):
            st[m.group(1)] = core.parse_tla(block[m.end():])
        hs.append([st['cfg'], [names[i - 1] for i in st['hist']], [_key_str(menu, k2) for k2 in st['keys']]])
    shutil.rmtree(d, ignore_errors=True)
    m = re.search(r'The number of states generated: (\d+)', r.out)
    ns = int(m.group(1)) if m else 0
    chk.add_tlc({'states': ns, 'transitions': ns})
    if len(hs) != n:
        raise core.MachineryError('Api.tla -simulate produced %d of %d traces' % (len(hs), n))
    return hs


# ----------------------------------------------------------------------------------------------------------
# the parser-table cache configurations
class CacheDirs(object):
    """template directories: valid = written (and byte-compiled) by earlier processes of the repo under test;
    empty; other = each module name holds the other grammar's tables; oldsig = loadable tables of an older
    revision of the grammar (two action bindings differ, other signature); oldrules = tables PLY itself wrote for an older revision"""

    def __init__(self):
        self.base = os.path.join(core.scratch(), 'c12cache')
        shutil.rmtree(self.base, ignore_errors=True)
        os.makedirs(self.base)
        v = os.path.join(self.base, 'valid')
        os.makedirs(v)
        for _ in range(2):        # first process writes the tables, the second reads them
            p = core.run_py(['-c', 'import miasmx.arch.ia32_att, miasmx.core.parse_ad'], env={'TMPDIR': v}, timeout=300)
            if p.returncode != 0:
                raise core.MachineryError('cannot populate the PLY cache: ' + p.stderr[-1500:])
        for f in TABMODS.values():
            if not os.path.exists(os.path.join(v, f)):
                raise core.MachineryError('PLY did not write %s into TMPDIR' % f)
        os.makedirs(os.path.join(self.base, 'empty'))
        o = os.path.join(self.base, 'other')
        os.makedirs(o)
        shutil.copy(os.path.join(v, TABMODS['intel']), os.path.join(o, TABMODS['att']))
        shutil.copy(os.path.join(v, TABMODS['att']), os.path.join(o, TABMODS['intel']))
        s = os.path.join(self.base, 'oldsig')
        os.makedirs(s)
        for g, old, new in (('intel', "'p_expression_5'", "'p_expression_6'"), ('att', "'p_constant_1'", "'p_constant_2'")):
            txt = open(os.path.join(v, TABMODS[g])).read()
            if txt.count(old) != 1 or '_lr_signature = ' not in txt:
                raise core.MachineryError('unexpected PLY table file layout for ' + g)
            txt = txt.replace(old, new)
            txt = re.sub(r'^_lr_signature = .*$', "_lr_signature = b'an-older-revision-of-this-grammar'", txt, flags=re.M)
            open(os.path.join(s, TABMODS[g]), 'w').write(txt)
        # oldrules = tables written by the PLY under test itself for an older revision of the grammars (one rule fewer each)
        r = os.path.join(self.base, 'oldrules')
        os.makedirs(r)
        p = core.run_py([os.path.join(core.VERIF, 'vf', 'c12_oldrules.py'), core.REPO], env={'TMPDIR': r}, timeout=300)
        if p.returncode != 0 or not all(os.path.exists(os.path.join(r, f)) for f in TABMODS.values()):
            raise core.MachineryError('cannot build the old-rules PLY cache: ' + p.stderr[-1500:])
        for f in os.listdir(r):
            if f not in TABMODS.values():
                shutil.rmtree(os.path.join(r, f)) if os.path.isdir(os.path.join(r, f)) else os.unlink(os.path.join(r, f))
        self.n = 0

    def fresh(self, cfg):
        self.n += 1
        d = os.path.join(self.base, 'job%d_%s' % (self.n, cfg))
        shutil.copytree(os.path.join(self.base, cfg), d)
        return d


# ----------------------------------------------------------------------------------------------------------
# running histories in the implementation
class Runner(object):
    def __init__(self, menu):
        self.menu = menu
        self.dirs = CacheDirs()
        self.info = None
        self.count = 0

    def run(self, hists, detail=False):
        """hists: list of (cfg, [call names]).  Returns the list of raw records in the same order."""
        if not hists:
            return []
        bycfg = collections.defaultdict(list)
        for i, (cfg, calls) in enumerate(hists):
            bycfg[cfg].append({'id': i, 'calls': calls, 'detail': detail})
        total = len(hists)
        per = max(25, min(3000, (total + core.NCPU * 3 - 1) // (core.NCPU * 3)))
        jobs = []
        for cfg in sorted(bycfg):
            hs = bycfg[cfg]
            for k in range(0, len(hs), per):
                jobs.append((cfg, hs[k:k + per]))
        jobs.sort(key=lambda j: -len(j[1]))
        d = core.scratch()
        running, results, qi = [], {}, 0
        env = dict(os.environ)
        env['PYTHONPATH'] = core.REPO + os.pathsep + core.VERIF
        env['PYTHONHASHSEED'] = '0'
        deadline = time.time() + 3000

        def start(j):
            cfg, hs = jobs[j]
            tmp = self.dirs.fresh(cfg)
            jf = os.path.join(tmp, 'job.json')
            of = os.path.join(tmp, 'out.ndjson')
            json.dump({'histories': hs, 'timeout': 120}, open(jf, 'w'))
            e = dict(env)
            e['TMPDIR'] = tmp
            err = open(os.path.join(tmp, 'stderr.txt'), 'w')
            p = subprocess.Popen([core.PY, '-m', 'vf.c12z', jf, of], env=e, cwd=core.VERIF, stdout=err, stderr=err)
            return (j, p, tmp, of, err)
        while qi < len(jobs) or running:
            while qi < len(jobs) and len(running) < core.NCPU:
                running.append(start(qi))
                qi += 1
            time.sleep(0.02)
            still = []
            for j, p, tmp, of, err in running:
                if p.poll() is None:
                    if time.time() > deadline:
                        p.kill()
                        raise core.MachineryError('history runner timeout')
                    still.append((j, p, tmp, of, err))
                    continue
                err.close()
                if p.returncode != 0:
                    raise core.MachineryError('history runner failed (rc %s): %s' % (
                        p.returncode, open(os.path.join(tmp, 'stderr.txt')).read()[-2000:]))
                lines = open(of).read().splitlines()
                info = json.loads(lines[0])['info']
                self.check_info(info)
                for l in lines[1:]:
                    r = json.loads(l)
                    if 'harness_error' in r:
                        raise core.MachineryError('history %r failed in the harness: %s' % (
                            hists[r['id']], r['harness_error']))
                    results[r['id']] = r
                shutil.rmtree(tmp, ignore_errors=True)
            running = still
        if len(results) != total:
            raise core.MachineryError('history runner returned %d of %d histories' % (len(results), total))
        self.count += total
        return [results[i] for i in range(total)]

    def check_info(self, info):
        """the call table of the implementation side must be the specification's (names, kind, machine)"""
        if self.info is None:
            spec = {x['c']: [x['kind'], x['m']] for x in self.menu['calls']}
            if spec != info['calls']:
                raise core.MachineryError('call tables of Api.tla and vf/c12z.py differ: %r' % (
                    sorted(set(map(str, spec.items())) ^ set(map(str, info['calls'].items()))),))
            if list(self.menu['fixtures']) != info['fixtures']:
                raise core.MachineryError('fixture lists of Api.tla and vf/c12z.py differ')
            self.info = info


# ----------------------------------------------------------------------------------------------------------
# records for the judge
class Interner(object):
    """injective renaming of fingerprint strings to small integers (TLC compares them for equality only)"""

    def __init__(self):
        self.code, self.back = {'': 0}, ['']

    def __call__(self, s):
        c = self.code.get(s)
        if c is None:
            c = self.code[s] = len(self.back)
            self.back.append(s)
        return c


class Book(object):
    """bookkeeping of one judged batch: history records + the observations per key"""

    def __init__(self, menu, intern=None):
        self.menu = menu
        self.kind = {x['c']: (x['kind'], x['m']) for x in menu['calls']}
        self.I = intern or Interner()
        self.hists = []           # (cfg, calls, keys)
        self.obs = collections.OrderedDict()   # key -> [(rcode, ref)]

    def add(self, cfg, calls, keys, raw):
        """register one executed history; returns its record for the judge"""
        hid = len(self.hists)
        self.hists.append((cfg, calls, keys))
        I = self.I
        snaps = raw['snaps']
        writes = {1: [], 2: []}
        for m in (1, 2):
            self.obs.setdefault('P|m%d|' % m, []).append((I(snaps[0]['p'][m - 1]), hid * REFMUL))
        # state of a process before its first call: the same in every process and cache configuration
        self.obs.setdefault('E|sys.path', []).append((I(snaps[0]['x'][-1]), hid * REFMUL))
        for j, c in enumerate(raw['calls']):
            ref = hid * REFMUL + j + 1
            kind, m = self.kind[c['c']]
            r = I(c['r'])
            self.obs.setdefault(keys[j], []).append((r, ref))
            b = snaps[j]
            ck = 'C|%s|%s|%s' % (c['c'], b['p'][m - 1] if m else '', hashlib.md5(''.join(b['x']).encode()).hexdigest()[:10])
            self.obs.setdefault(ck, []).append((r, ref))
            if kind == 'write':
                writes[m].append(c['c'])
                self.obs.setdefault('P|m%d|%s' % (m, '.'.join(writes[m])), []).append((I(snaps[j + 1]['p'][m - 1]), ref))
        return {'id': hid, 'shape': 'hist', 'cfg': cfg,
                'calls': [{'c': c['c'], 'r': I(c['r']), 'ex': c['ex']} for c in raw['calls']],
                'snaps': [{'p': [I(x) for x in s['p']], 'x': [I(x) for x in s['x']], 't': I(s['t'])} for s in raw['snaps']]}

    def fun_records(self):
        """one record per key with every observation made for it; ids continue after the history ids"""
        n = len(self.hists)
        return [{'id': n + k, 'shape': 'fun', 'key': key, 'obs': [[r, ref] for r, ref in obs]}
                for k, (key, obs) in enumerate(self.obs.items())]


def judge(recs, chk, shards=None):
    rnd = random.Random(chk.seed)
    recs = list(recs)
    rnd.shuffle(recs)
    verdicts, st = core.judge('T_C12', recs, shards=shards or core.NCPU, timeout=3000, min_per_shard=40)
    chk.add_tlc(st)
    for v in verdicts:
        for f in v['v']:
            if f['clause'].startswith('harness.'):
                raise core.MachineryError('T_C12 rejected the shape of record %r: %r' % (v['id'], f))
    return verdicts


# ----------------------------------------------------------------------------------------------------------
# from verdicts to violation classes
def api_of(menu, c):
    for x in menu['calls']:
        if x['c'] == c:
            return x['api']
    return c


def channel(raw, j):
    """hidden-state channels the j-th call (0-based) of a detail-mode record wrote to"""
    b, a = raw['snaps'][j], raw['snaps'][j + 1]
    ch = []
    for f, n in (('e', 'is_eval'), ('s', 'simp'), ('d', 'default_args'), ('t', 'tables')):
        if a[f] != b[f] and a[f] != '' and b[f] != '':
            ch.append(n)
    if a['x'] != b['x']:
        ch.append('inputs')
    return ch


def abstract_keys(menu, calls):
    """Api.tla's abstract key of every call of a history (for minimised / replayed histories only; generated
    histories carry the keys computed by TLC)"""
    kind = {x['c']: (x['kind'], x['m']) for x in menu['calls']}
    w = {0: [], 1: [], 2: []}
    out = []
    for c in calls:
        k, m = kind[c]
        out.append('A|%s|%s' % (c, '.'.join(w[m]) if m else ''))
        if k == 'write':
            w[m].append(c)
    return out


def judge_small(chk, menu, items):
    """items: [(cfg, calls, raw)] -> (book, verdicts) judged with their own learned map"""
    bk = Book(menu)
    recs = [bk.add(cfg, calls, abstract_keys(menu, calls), raw) for cfg, calls, raw in items]
    vs = judge(recs + bk.fun_records(), chk, shards=1)
    return bk, vs


def report_hist(chk, runner, book, verdicts):
    """pools / inputs / tables clauses: the culprit is the call named by the verdict.  The history is re-run with
    the tables fingerprinted after every call and judged again; what is confirmed is reported."""
    if not verdicts:
        return
    ids = sorted(set(v['id'] for v in verdicts))[:200]
    hs = [(book.hists[h][0], book.hists[h][1]) for h in ids]
    raws = runner.run(hs, detail=True)
    bk, vs = judge_small(chk, book.menu, [(c, h, raw) for (c, h), raw in zip(hs, raws)])
    for v in vs:
        if v['id'] >= len(hs):
            continue
        (cfg, calls), raw = hs[v['id']], raws[v['id']]
        for f in v['v']:
            key = {'clause': f['clause'], 'call': api_of(book.menu, f['c']), 'what': f['what']}
            chk.violation(key, {'cfg': cfg, 'history': calls, 'position': f['pos'], 'call': f['c'],
                                'before': bk.I.back[f['before']], 'after': bk.I.back[f['after']],
                                'result_of_call': raw['calls'][f['pos'] - 1].get('show', ''),
                                'replay': {'kind': 'hist', 'cfg': cfg, 'calls': calls}})


def judge_pairs(chk, menu, pairs):
    """pairs: [((cfg_a, a, raw_a), (cfg_b, b, raw_b))] judged in one TLC run, each pair with its own learned map
    (keys are prefixed with the pair number).  Returns per pair the list of conflicting keys."""
    recs = []
    for i, pair in enumerate(pairs):
        bk = Book(menu)
        for k, (cfg, calls, raw) in enumerate(pair):
            r = bk.add(cfg, calls, abstract_keys(menu, calls), raw)
            r['id'] = i * 1000 + k
            recs.append(r)
        for k, fr in enumerate(bk.fun_records()):
            fr['id'] = i * 1000 + 10 + k
            fr['key'] = '%d#%s' % (i, fr['key'])
            recs.append(fr)
    out = [[] for _ in pairs]
    if recs:
        for v in judge(recs, chk, shards=min(core.NCPU, max(1, len(pairs) // 50))):
            if v['id'] % 1000 >= 10:
                out[v['id'] // 1000].append(v['v'][0]['key'].split('#', 1)[1])
    return out


def clean_of(menu_kind, prefix, probe):
    """the clean history of an observation: the state-changing calls on the probe's machine, then the probe
    (for a pool observation: the state-changing calls on that machine)"""
    if probe is None:
        return list(prefix)
    kind, m = menu_kind[probe]
    return [c for c in prefix[:-1] if menu_kind[c] == ('write', m) and m] + [probe]


def report_fun(chk, runner, book, verdicts, max_unexplained=4):
    """disagreements of the learned function.  Every observation of a conflicting key is compared with the result
    of its own clean history (state-changing calls on the machine + the probe, run in a fresh process with the valid
    cache): an observation that differs is polluted.  Its culprit is the only other call of its history (exhaustive
    histories contain every such two-call case) or the cache configuration of its process; observations explained by
    no single call are searched by inserting one call at a time.  Every (clean, minimal polluted) pair is judged again
    by T_C12; the channel is found by intervention (clearing is_eval / simp attributes before the probe)."""
    menu = book.menu
    mk = {x['c']: (x['kind'], x['m']) for x in menu['calls']}
    keys = [v['v'][0]['key'] for v in verdicts]
    I = book.I
    # 1. observations of conflicting keys, with their clean histories
    obs, seen = [], set()
    for key in keys:
        if key[0] == 'E':
            continue
        typ = key[0]
        for r, ref in book.obs[key]:
            if (typ == 'P', ref) in seen:
                continue
            seen.add((typ == 'P', ref))
            hid, pos = divmod(ref, REFMUL)
            cfg, calls, hkeys = book.hists[hid]
            prefix = calls[:pos]
            if typ == 'P':
                m = int(key.split('|')[1][1])
                probe, clean = None, [c for c in prefix if mk[c] == ('write', m)]
            else:
                m = 0
                probe = prefix[-1]
                clean = clean_of(mk, prefix, probe)
            obs.append({'key': key, 'r': I.back[r], 'cfg': cfg, 'prefix': prefix, 'probe': probe, 'm': m, 'clean': clean})
    cleans = sorted(set(tuple(o['clean']) for o in obs))
    craw = dict(zip(cleans, runner.run([('valid', list(c)) for c in cleans], detail=True)))

    def result_of(o, raw):
        return raw['calls'][-1]['r'] if o['probe'] else raw['snaps'][-1]['p'][o['m'] - 1]
    polluted = []
    for o in obs:
        o['craw'] = craw[tuple(o['clean'])]
        o['r0'] = result_of(o, o['craw'])
        if o['r'] != o['r0']:
            polluted.append(o)
    # concrete keys: two clean histories reach the same pool fingerprint and give different results
    bykey = collections.defaultdict(dict)
    for o in obs:
        if o['key'][0] == 'C':
            bykey[o['key']].setdefault(o['r0'], o)
    for key, d in sorted(bykey.items()):
        if len(d) > 1:
            a, b = [d[k] for k in sorted(d)][:2]
            chk.violation({'clause': 'C12.function', 'probe': api_of(menu, a['probe']), 'culprit': 'none', 'channel': 'equal-pool-fingerprint'},
                          {'key': key, 'history_a': a['clean'], 'history_b': b['clean'],
                           'what': 'two clean histories reach machine states with the same pool fingerprint and the same call returns different results',
                           'replay': {'kind': 'pair', 'cfg_a': 'valid', 'a': a['clean'], 'cfg_b': 'valid', 'b': b['clean'], 'concrete': True}})
    # 2. culprits
    for o in polluted:
        body = o['prefix'][:-1] if o['probe'] else o['prefix']
        cset = collections.Counter(o['clean'][:-1] if o['probe'] else o['clean'])
        extra = []
        for x in body:
            if cset[x] > 0:
                cset[x] -= 1
            elif x not in extra:
                extra.append(x)
        o['extra'] = extra

    def minimal(o, x):
        keep, cs = [], collections.Counter(o['clean'][:-1] if o['probe'] else o['clean'])
        for y in (o['prefix'][:-1] if o['probe'] else o['prefix']):
            if y == x:
                keep.append(y)
            elif cs[y] > 0:
                cs[y] -= 1
                keep.append(y)
        return keep + ([o['probe']] if o['probe'] else [])
    cases = {}           # (probe-or-pool, culprit) -> (o, x, cfg, hist)
    explained = set()
    for o in sorted(polluted, key=lambda o: len(o['prefix'])):
        who = o['probe'] or 'pool m%d' % o['m']
        if not o['extra']:
            x = 'cfg' if o['cfg'] != 'valid' else 'nothing'
            cases.setdefault((who, x, o['cfg']), (o, x, o['cfg'], list(o['prefix'])))
            explained.add(id(o))
        elif len(o['extra']) == 1 and o['cfg'] == 'valid':
            x = o['extra'][0]
            cases.setdefault((who, x, 'valid'), (o, x, 'valid', minimal(o, x)))
            explained.add(id(o))
    single = collections.defaultdict(set)
    for (who, x, cfg) in cases:
        single[who].add(x if x != 'cfg' else 'cfg:' + cfg)
    unexplained = []
    for o in polluted:
        who = o['probe'] or 'pool m%d' % o['m']
        if id(o) in explained or set(o['extra']) & single[who] or 'cfg:' + o['cfg'] in single[who]:
            continue
        unexplained.append(o)
    # search: insert one extra call at a time into the clean history
    by_who = collections.defaultdict(list)
    for o in sorted(unexplained, key=lambda o: len(o['prefix'])):
        who = o['probe'] or 'pool m%d' % o['m']
        if len(by_who[who]) < max_unexplained:
            by_who[who].append(o)
    trials = []
    for who, os_ in sorted(by_who.items()):
        for o in os_:
            if o['cfg'] != 'valid':
                trials.append((o, 'cfg', o['cfg'], o['clean']))
            for x in o['extra']:
                trials.append((o, x, 'valid', minimal(o, x)))
    raws = runner.run([(t[2], t[3]) for t in trials], detail=True)
    hit = set()
    for (o, x, cfg, hist), raw in zip(trials, raws):
        who = o['probe'] or 'pool m%d' % o['m']
        if result_of(o, raw) != o['r0']:
            cases.setdefault((who, x, cfg), (o, x, cfg, hist))
            hit.add(id(o))
    for who, os_ in sorted(by_who.items()):
        for o in os_:
            if id(o) not in hit:
                cases.setdefault((who, 'several', o['cfg']), (o, 'several', o['cfg'], list(o['prefix'])))
    # 3. run the minimal histories (detail), attribute the channel by intervention, confirm with the judge
    items = sorted(cases.items())
    runs = [(cfg, hist) for _, (o, x, cfg, hist) in items]
    inter = []
    for k, (_, (o, x, cfg, hist)) in enumerate(items):
        if hist:
            for ch in ('is_eval', 'simp'):
                inter.append((k, ch, (cfg, hist[:-1] + ['~clear_' + ch, hist[-1]])))
    raws = runner.run(runs + [t[2] for t in inter], detail=True)
    causal = collections.defaultdict(list)
    for (k, ch, _), raw in zip(inter, raws[len(runs):]):
        if result_of(items[k][1][0], raw) == items[k][1][0]['r0']:
            causal[k].append(ch)
    conf = judge_pairs(chk, menu, [(('valid', o['clean'], o['craw']), (cfg, hist, raw))
                                   for (_, (o, x, cfg, hist)), raw in zip(items, raws)])
    for k, ((who, _, _), (o, x, cfg, hist)) in enumerate(items):
        raw = raws[k]
        if not any(key[0] in 'AP' for key in conf[k]):
            continue                         # not reproduced by the minimised pair: nothing is reported
        probe = o['probe']
        if x == 'cfg':
            culprit, ch = 'process_start', ['ply_cache:' + cfg]
        elif x in ('several', 'nothing'):
            culprit, ch = x, []
        else:
            culprit, ch = api_of(menu, x), list(causal.get(k, []))
            if not ch:
                for j, c in enumerate(hist[:-1] if probe else hist):
                    if c == x:
                        ch += ['writes:' + n for n in channel(raw, j) if 'writes:' + n not in ch]
        mp = mk[probe][1] if probe else o['m']
        mx = mk[x][1] if x in mk else -1
        scope = ('process' if mx < 0 else 'pure-call' if mx == 0 else 'same-machine' if mx == mp else
                 'other-machine' if mp else 'machine-call')
        # is there a state-changing call of the clean history between the (last) culprit call and the probe?
        body = hist[:-1]
        last = max([j for j, c in enumerate(body) if c == x] or [-1])
        between = 'write' if x in mk and any(mk[c][0] == 'write' for c in body[last + 1:]) else 'none'
        key = {'clause': 'C12.function' if probe else 'C12.pool_function',
               'probe': api_of(menu, probe) if probe else 'pool', 'culprit': culprit, 'scope': scope, 'between': between,
               'channel': ','.join(ch)}
        chk.violation(key, {'abstract_key': o['key'], 'cfg': cfg, 'clean_history': o['clean'],
                            'clean_result': o['craw']['calls'][-1].get('show', '') if probe else o['r0'],
                            'polluted_history': hist,
                            'polluted_result': raw['calls'][-1].get('show', '') if probe else result_of(o, raw),
                            'culprit_call': x, 'first_seen_after': o['prefix'][:12], 'first_seen_cfg': o['cfg'],
                            'replay': {'kind': 'pair', 'cfg_a': 'valid', 'a': o['clean'], 'cfg_b': cfg, 'b': hist}})
    chk.cov.setdefault('learned', {}).update({'polluted_observations': len(polluted), 'minimal_cases': len(items),
                                              'unexplained_searched': sum(len(v) for v in by_who.values())})
    # the state of a fresh process
    for key in keys:
        if key[0] != 'E':
            continue
        bycfg = collections.defaultdict(set)
        for r, ref in book.obs[key]:
            bycfg[book.hists[ref // REFMUL][0]].add(I.back[r])
        ref_cfg = 'valid' if 'valid' in bycfg else sorted(bycfg)[0]
        for cfg in sorted(bycfg):
            if bycfg[cfg] != bycfg[ref_cfg]:
                chk.violation({'clause': 'C12.process_state', 'what': key.split('|')[1], 'culprit': 'process_start', 'channel': 'ply_cache:' + cfg},
                              {'what': 'state of a fresh process (after import, before the first call) depends on the parser-table cache directory',
                               'cfg_a': ref_cfg, 'cfg_b': cfg, 'fingerprints_a': sorted(bycfg[ref_cfg]), 'fingerprints_b': sorted(bycfg[cfg]),
                               'replay': {'kind': 'pair', 'cfg_a': ref_cfg, 'a': [], 'cfg_b': cfg, 'b': []}})


def process(chk, runner, book, hists, label):
    """run one batch of generated histories [(cfg, calls, keys)], judge the per-history clauses"""
    t = time.time()
    raws = runner.run([(c, h) for c, h, k in hists])
    log('%s: %d histories executed in %.1fs' % (label, len(hists), time.time() - t))
    recs = [book.add(cfg, calls, keys, raw) for (cfg, calls, keys), raw in zip(hists, raws)]
    t = time.time()
    verdicts = judge(recs, chk)
    log('%s: %d history records judged in %.1fs, %d verdicts' % (label, len(recs), time.time() - t, len(verdicts)))
    chk.cov['traces_validated_against_impl'] += len(hists)
    ncalls = sum(len(h[1]) for h in hists)
    chk.cov['evaluations'] += ncalls
    chk.cov['distinct_nontrivial'] += sum(max(0, len(h[1]) - 1) for h in hists)
    chk.cov.setdefault('spaces', {})[label] = {'histories': len(hists), 'calls': ncalls, 'verdicts': len(verdicts),
                                               'by_cfg': dict(collections.Counter(h[0] for h in hists))}
    for (cfg, calls, keys), raw in list(zip(hists, raws))[:2]:
        chk.sample({'space': label, 'cfg': cfg, 'history': calls[:6], 'abstract_keys': keys[:6],
                    'result_fingerprints': [c['r'] for c in raw['calls'][:6]]})
    report_hist(chk, runner, book, verdicts)


def finalize(chk, runner, book):
    """the learned function over everything that was observed"""
    recs = book.fun_records()
    t = time.time()
    verdicts = judge(recs, chk)
    nobs = sum(len(r['obs']) for r in recs)
    log('learned function: %d keys, %d observations judged in %.1fs, %d conflicting keys' % (len(recs), nobs, time.time() - t, len(verdicts)))
    chk.cov['learned'] = {'keys': len(recs), 'observations': nobs, 'conflicting_keys': len(verdicts),
                          'abstract_keys': sum(1 for r in recs if r['key'][0] == 'A'),
                          'pool_state_keys': sum(1 for r in recs if r['key'][0] == 'P')}
    report_fun(chk, runner, book, verdicts)


# ----------------------------------------------------------------------------------------------------------
# Caches.tla: the property on the implementation-shaped model, replayed into the code
def caches_cfg(policy, copyrows, checksig, maxcalls, invariants=True, cfgs=CONFIGS):
    s = ('CONSTANTS\n FlagPolicy = "%s"\n CopyRows = %s\n CheckSig = %s\n MaxCalls = %d\n Cfgs = {%s}\nINIT Init\nNEXT Next\n'
         % (policy, 'TRUE' if copyrows else 'FALSE', 'TRUE' if checksig else 'FALSE', maxcalls, ','.join('"%s"' % c for c in cfgs)))
    if invariants:
        s += 'INVARIANT Pure\nINVARIANT TablesIntact\nINVARIANT ParserOK\n'
    return s + 'CHECK_DEADLOCK FALSE\n'


def model_call(c):
    if c['op'] == 'eval':
        return 'eval_%s_%s' % (c['e'], c['m'])
    if c['op'] == 'assign':
        return 'evi_setw_' + c['m']
    if c['op'] == 'simp':
        return 'simp_' + c['e']
    if c['op'] == 'dis':
        return 'dis_' + c['e']
    return {'intel': 'asm_mov', 'att': 'att_mov'}[c['e']]


def counterexample(out):
    """last state of the error trace TLC printed"""
    k = out.rfind('\nState ')
    if k < 0:
        return None
    block = out[k + 1:]
    if '\n\n' in block:
        block = block[:block.find('\n\n')]
    st = {}
    for m in re.finditer(r'^/\\ (\w+) = ', block, flags=re.M):
        st[m.group(1)] = core.parse_tla(block[m.end():])
    return st


def caches(chk, runner, menu, maxcalls):
    ev = chk.cov.setdefault('caches_model', {})
    kinds = {x['c']: x['kind'] for x in menu['calls']}
    # (a) the property on the model as coded, and with the per-machine mark of the proposed repair; each
    #     counterexample is replayed into the code
    for policy in ('as_coded', 'per_machine'):
        r = core.run_tlc('Caches', cfg_text=caches_cfg(policy, True, True, 3), workers=1, timeout=600)
        chk.add_tlc(r)
        m = re.search(r'Invariant (\w+) is violated', r.out)
        if m:
            st = counterexample(r.out)
            if not st or not st.get('hist'):
                raise core.MachineryError('cannot read the counterexample of Caches.tla:\n' + r.out[-2000:])
            trace = [model_call(c) for c in st['hist']]
            cfg = st.get('cfg', 'valid')
            clean = [c for c in trace[:-1] if kinds[c] == 'write'] + [trace[-1]]
            raws = runner.run([('valid', clean), (cfg, trace)], detail=True)
            conf = judge_pairs(chk, menu, [(('valid', clean, raws[0]), (cfg, trace, raws[1]))])[0]
            confirmed = any(k[0] == 'A' for k in conf)
            ev[policy] = {'invariant_violated': m.group(1), 'counterexample': trace, 'cfg': cfg, 'model_result': st.get('res'),
                          'specified_result': st.get('exp'), 'confirmed_in_code': confirmed,
                          'code_results': {'clean': raws[0]['calls'][-1]['show'], 'after_history': raws[1]['calls'][-1]['show']}}
            log('Caches.tla (%s): %s violated by %s; replay in the code: %s' % (
                policy, m.group(1), ' ; '.join(trace), 'confirmed' if confirmed else 'not reproduced'))
        elif r.ok:
            ev[policy] = {'invariant_violated': None}
        else:
            raise core.MachineryError('Caches.tla failed:\n' + r.out[-2000:])
    # (b) design variants: marking only fresh objects holds; the designs of the two mutants break the property
    for name, args, want in (('fresh_only', ('fresh_only', True, True), None),
                             ('rows_by_reference', ('fresh_only', False, True), 'TablesIntact'),
                             ('no_signature_check', ('fresh_only', True, False), 'ParserOK')):
        r = core.run_tlc('Caches', cfg_text=caches_cfg(args[0], args[1], args[2], 3), workers=1, timeout=600)
        chk.add_tlc(r)
        m = re.search(r'Invariant (\w+) is violated', r.out)
        got = m.group(1) if m else None
        if not m and not r.ok:
            raise core.MachineryError('Caches.tla (%s) failed:\n%s' % (name, r.out[-2000:]))
        ev[name] = {'invariant_violated': got, 'states': r.distinct}
        if (want is None) != (got is None):
            raise core.MachineryError('Caches.tla variant %s: expected %s, TLC says %s' % (name, want, got))
    # (c) model-to-code conformance: replay every behaviour of the model, compare predicted and rendered results
    preds = {}
    for policy in ('as_coded', 'per_machine', 'fresh_only'):
        dump = os.path.join(core.scratch(), 'caches_%s.dump' % policy)
        r = core.run_tlc('Caches', cfg_text=caches_cfg(policy, True, True, maxcalls, invariants=False), workers=1,
                         timeout=900, extra=['-dump', dump])
        if not r.ok:
            raise core.MachineryError('Caches.tla dump failed:\n' + r.out[-2000:])
        chk.add_tlc(r)
        for st in core.read_dump(dump):
            if st['hist']:
                preds.setdefault((st['cfg'], tuple(model_call(c) for c in st['hist'])), {})[policy] = st['res']
        os.unlink(dump)
    items = sorted(preds)
    raws = runner.run([(cfg, list(h)) for cfg, h in items] + [('valid', ['asm_mov']), ('valid', ['att_mov'])], detail=True)
    ref = {'asm_mov': raws[-2]['calls'][0]['r'], 'att_mov': raws[-1]['calls'][0]['r']}
    mism = {'as_coded': [], 'per_machine': [], 'fresh_only': []}
    for (cfg, h), raw in zip(items, raws):
        last = raw['calls'][-1]
        if h[-1] in ref:
            got = 'parsed with ' + ({'asm_mov': 'tabI', 'att_mov': 'tabA'}[h[-1]] if last['r'] == ref[h[-1]] else 'other tables')
        else:
            got = ' '.join(last['show'].split())
        for policy in mism:
            if preds[(cfg, h)][policy] != got:
                mism[policy].append({'cfg': cfg, 'history': list(h), 'model': preds[(cfg, h)][policy], 'code': got})
    ev['conformance'] = {'behaviours_replayed': len(items), 'mismatches': {k: len(v) for k, v in mism.items()},
                         'code_conforms_to': [k for k, v in mism.items() if not v],
                         'first_mismatch': {k: v[0] for k, v in mism.items() if v}}
    chk.cov['traces_validated_against_impl'] += len(items)
    chk.cov['evaluations'] += sum(len(h) for _, h in items)
    log('Caches.tla conformance: %d behaviours replayed, mismatches %r' % (len(items), ev['conformance']['mismatches']))
    if not ev['conformance']['code_conforms_to']:
        print('NOTE C12: the code conforms to neither variant of the implementation-shaped model Caches.tla '
              '(first mismatches: %s)' % json.dumps(ev['conformance']['first_mismatch'])[:600])


# ----------------------------------------------------------------------------------------------------------
def negative_control(chk, runner, menu):
    """corrupt single recorded fields and require T_C12 to reject exactly those records"""
    hs = [('valid', ['eval_w_m2', 'emul_pp_m1', 'dis_shl']), ('valid', ['eval_w_m2', 'emul_pp_m1', 'dis_shl']),
          ('valid', ['asm_mov', 'evi_add_m1']), ('valid', ['asm_mov', 'simp_T']), ('valid', ['lift_shl', 'eval_mem_m1'])]
    raws = json.loads(json.dumps(runner.run(hs, detail=True)))

    def verdict_set(rs):
        bk, vs = judge_small(chk, menu, [(c, h, raw) for (c, h), raw in zip(hs, rs)])
        out = []
        for v in vs:
            for f in v['v']:
                out.append((v['id'], f['clause'], f['pos']) if v['id'] < len(hs) else (f['key'], f['clause'], f['other_at']))
        return out
    # what the judge says about the records as recorded (violations of the tree under test, if any, are not the control's business)
    baseline = verdict_set(json.loads(json.dumps(raws)))
    ck = 'C|eval_w_m2|%s|%s' % (raws[1]['snaps'][0]['p'][1], hashlib.md5(''.join(raws[1]['snaps'][0]['x']).encode()).hexdigest()[:10])
    raws[1]['calls'][0]['r'] = 'corrupted-result'      # same key, other result            -> C12.function (abstract and concrete key)
    raws[1]['snaps'][3]['p'][1] = 'corrupted-pool'     # dis_shl (pure) changes m2          -> C12.pools_pure at call 3
    raws[2]['snaps'][2]['p'][1] = 'corrupted-pool'     # evi_add_m1 (write m1) changes m2   -> C12.pools_other at call 2
    raws[3]['snaps'][2]['x'][menu['fixtures'].index('T')] = 'corrupted-input'   # simp_T changes T -> C12.inputs at call 2
    raws[4]['snaps'][1]['t'] = 'corrupted-tables'      # tables differ after call 1 and again after call 2 -> C12.tables twice
    allv = verdict_set(raws)
    got = sorted([g for g in allv if g not in baseline], key=str)
    want = sorted([(1, 'C12.pools_pure', 3), (2, 'C12.pools_other', 2), (3, 'C12.inputs', 2), (4, 'C12.tables', 1), (4, 'C12.tables', 2),
                   ('A|eval_w_m2|', 'C12.function', REFMUL + 1), (ck, 'C12.function', REFMUL + 1)], key=str)
    # every corruption is rejected with its clause and position, and nothing else is rejected beyond what the intact records yield
    ok = all(w in allv for w in want) and all(g in want for g in got)
    chk.cov['negative_controls'].append({'name': 'corrupted result / pool after a pure call / other pool after a write call / input / tables '
                                         'rejected with exactly the right clause and position (relative to the verdicts on the records as recorded)', 'ok': ok,
                                         'got': [list(map(str, g)) for g in got]})
    if not ok:
        raise core.MachineryError('C12 negative control failed:\n got  %r\n want %r' % (got, want))


def run(tier, chk):
    global _T0
    _T0 = time.time()
    P = TIERS[tier]
    gen = gen_exhaustive(P['depth'], P['depthcfg'], chk)
    menu = gen['menu']
    chk.cov['generator_coverage'] = gen.get('coverage', {})
    log('Api.tla: %d maximal histories (%d states)' % (len(gen['hist']), gen['states']))
    runner = Runner(menu)
    negative_control(chk, runner, menu)
    log('negative control passed')
    caches(chk, runner, menu, P['model_calls'])
    book = Book(menu)
    hists = [(c, h, k) for c, h, k in gen['hist']]
    random.Random(chk.seed).shuffle(hists)
    batch = 50000
    nb = (len(hists) + batch - 1) // batch
    for b in range(nb):
        process(chk, runner, book, hists[b * batch:(b + 1) * batch], 'exhaustive depth %d (%d/%d)' % (P['depth'], b + 1, nb))
    sims = gen_simulated(P['nsim'], P['simlen'], chk.seed, chk)
    process(chk, runner, book, [(c, h, k) for c, h, k in sims], 'simulated length %d' % P['simlen'])
    finalize(chk, runner, book)
    chk.cov['exhaustive'] = True
    chk.cov['histories_executed'] = runner.count
    chk.cov['rule'] = ('histories = maximal reachable states of Api.tla (every sequence of %d menu calls with the valid parser-table cache, '
                       'every sequence of %d calls with an empty / foreign / older-revision cache) + %d tlc -simulate histories of %d calls; '
                       'evaluations = executed API calls, each judged against everything before it; non-trivial = calls with a non-empty history'
                       % (P['depth'], P['depthcfg'], P['nsim'], P['simlen']))
    chk.assumptions += ['fixture objects (shared instructions, trees, machines) are built by the zygote before the first call of a history: '
                        'the very first dis() of a process is not observed in isolation',
                        'result objects of one call are not fed into later calls (their is_eval/simp marks are outside the menu)',
                        'fingerprints are 48-bit digests of a canonical structural serialisation (memo attributes and the arg_expr slot excluded)']


def replay(path, chk):
    rp = json.load(open(path))
    spec = rp['detail']['replay']
    menu = gen_exhaustive(1, 1, chk)['menu']
    runner = Runner(menu)
    if spec['kind'] == 'hist':
        raw = runner.run([(spec['cfg'], spec['calls'])], detail=True)[0]
        bk, vs = judge_small(chk, menu, [(spec['cfg'], spec['calls'], raw)])
        still = [f for v in vs if v['id'] < 1 for f in v['v'] if f['clause'] == rp['class']['clause']]
        print('replay: history %s (%s)' % (spec['calls'], spec['cfg']))
    else:
        raws = runner.run([(spec['cfg_a'], spec['a']), (spec['cfg_b'], spec['b'])], detail=True)
        bk, vs = judge_small(chk, menu, [(spec['cfg_a'], spec['a'], raws[0]), (spec['cfg_b'], spec['b'], raws[1])])
        still = [f for v in vs if v['id'] >= 2 for f in v['v']]
        for n, k in (('a', 0), ('b', 1)):
            print('replay: history %s %s (%s) -> %s' % (n, spec[n], spec['cfg_' + n], raws[k]['calls'][-1].get('show') if raws[k]['calls'] else 'sys.path fp ' + raws[k]['snaps'][0]['x'][-1]))
    chk.cov['traces_validated_against_impl'] = 2
    chk.cov['evaluations'] = 1
    chk.sample(spec)
    for f in still[:3]:
        print('replay: clause %s still fails: %s' % (f['clause'], json.dumps(f)[:300]))
    if still:
        chk.violation(rp['class'], rp['detail'])
    return chk.finish()
