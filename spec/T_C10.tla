------------------------------- MODULE T_C10 -------------------------------
(* C->S judge for the decoder half of C10.  Record:                                                          *)
(*  [id, b, base, truncs, junk, offs]   base = outcome of dis(b); truncs[k] = outcome of dis(b[1..k]);        *)
(*  junk = outcomes of dis(b \o j) for junk suffixes j; offs = [o, n, suf, out, ioff, after]: dis on a stream *)
(*  of n bytes positioned at offset o (junk before, b and a tail after) vs. dis of the suffix (suf).           *)
(* The premise "b is one complete instruction" is established by the reference decoder here, not assumed.     *)
EXTENDS IA32Decode, Stream, Json, IOUtils
Recs == JsonDeserialize(IOEnv.TRACE)
FirstBad(s, P(_)) == LET bad == {j \in 1..Len(s) : ~P(s[j])} IN IF bad = {} THEN 0 ELSE CHOOSE j \in bad : \A k \in bad : j <= k
Clauses(r) ==
   LET d == TLCEval(Decode(r.b, 32))
       whole == d.ok /\ d.len = Len(r.b)                       \* b is exactly one instruction per the reference
       \* what the reference decoder says about b (root-cause tag of crash classes: a crash on a valid instruction is
       \* another class than the same crash on bytes that are not an instruction or carry superfluous prefixes)
       spec == IF ~whole THEN "not_one_instruction" ELSE IF Meaningful(d.pfx, d) THEN "valid" ELSE "superfluous_prefix"
       F(c, w, j) == [clause |-> c, where |-> w, at |-> j, spec |-> spec]
       tb == FirstBad(r.truncs, Allowed)  jb == FirstBad(r.junk, Allowed)
       ob == FirstBad(r.offs, LAMBDA x : Allowed(x.out) /\ Allowed(x.suf))
       agree == whole /\ r.base.k = "instr" /\ r.base.len = d.len
       tr == FirstBad(r.truncs, LAMBDA x : x.k # "instr")
       jr == FirstBad(r.junk, LAMBDA x : SameOut(x, r.base))
       jo == FirstBad(r.junk, LAMBDA x : ~(x.k = "instr" /\ x.len <= Len(r.b)))
       os == FirstBad(r.offs, LAMBDA x : SameOut(x.out, x.suf))
       op == FirstBad(r.offs, LAMBDA x : DisPost(x.o, x.n, x.out, x.ioff, x.after))
   IN (IF ~Allowed(r.base) THEN <<F("C10.total", "base", 0)>>
       ELSE IF tb # 0 THEN <<F("C10.total", "trunc", tb)>>
       ELSE IF jb # 0 THEN <<F("C10.total", "junk", jb)>>
       ELSE IF ob # 0 THEN <<F("C10.total", "offset", ob)>> ELSE <<>>)
   \o (IF agree /\ tr # 0 THEN <<F("C10.truncated", "trunc", tr)>> ELSE <<>>)
   \o (IF r.base.k = "instr" /\ r.base.len <= Len(r.b) /\ jr # 0 /\ r.junk[jr].k \in Outcomes THEN <<F("C10.overread", "junk", jr)>>
       ELSE IF whole /\ r.base.k = "absent" /\ jo # 0 THEN <<F("C10.overread", "needs-more-bytes", jo)>> ELSE <<>>)
   \o (IF os # 0 /\ r.offs[os].out.k \in Outcomes /\ r.offs[os].suf.k \in Outcomes THEN <<F("C10.offset-same", "offset", os)>> ELSE <<>>)
   \o (IF op # 0 THEN <<F("C10.offset-post", "offset", op)>> ELSE <<>>)
VARIABLE i
Init == i = 0
Next == \/ /\ i < Len(Recs) /\ i' = i + 1
           /\ LET v == Clauses(Recs[i']) IN
              IF v = <<>> THEN TRUE ELSE PrintT("VERDICT " \o ToJson([id |-> Recs[i'].id, v |-> v]))
        \/ /\ i = Len(Recs) /\ i' = i + 1 /\ PrintT("CONSUMED " \o ToString(Len(Recs)))
=============================================================================
