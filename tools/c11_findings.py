#!/usr/bin/env python3
"""Builder aid (never used at run time): after `rm -rf replays/C11; echo [] > findings.d/C11.json; ./check C11 --tier thorough`,
groups the reported violation classes by root-cause signature and writes findings.d/C11.json with the exact mnemonics
each class was seen on.  Every class must be triaged by a human before the file is committed."""
import json, glob, collections, re
groups = collections.OrderedDict()
for f in sorted(glob.glob('/verif/replays/C11/*.json')):
    j = json.load(open(f)); k = dict(j['class']); d = j['detail']
    mn = k.pop('mn')
    gk = json.dumps(k, sort_keys=True)
    g = groups.setdefault(gk, {'key': k, 'mns': set(), 'ex': d, 'n': 0})
    g['mns'].add(mn); g['n'] += j['count']


def what(k, ex):
    c = k['clause']
    if c == 'C11.lift_exception':
        return "lifting raises %s in %s (%s)" % (k.get('exc'), k.get('func'), k.get('line', '')[:60])
    if c == 'C11.welltyped':
        return "lifted IR is ill-typed: innermost ill-typed node %s in the assignment to a %s destination" % (k.get('sig'), k.get('dst'))
    if c == 'C11.width':
        return "source and destination widths differ (%s) in the assignment to a %s destination" % (k.get('sig'), k.get('dst'))
    if c == 'C11.overlapping_destinations':
        return "two assignments of one instruction write the same storage (%s)" % k.get('dst')
    if c == 'C11.nested_assignment':
        return "an assignment is nested inside a source expression (%s destination)" % k.get('dst')
    return c


out = []
for i, (gk, g) in enumerate(groups.items()):
    k = dict(g['key']); k['mn'] = sorted(g['mns'])
    slug = re.sub(r'[^a-z0-9]+', '-', (g['key']['clause'][4:] + '-' + g['key'].get('dst', '') + '-' + g['key'].get('sig', g['key'].get('func', ''))).lower()).strip('-')[:60]
    ex = g['ex']
    out.append({"id": "F-C11-%02d-%s" % (i, slug), "status": "known", "properties": ["C11"], "key": k,
                "what": what(g['key'], ex) + " e.g. %s (%s)" % (ex['text'], ex['bytes'][:16]),
                "example": {"bytes": ex['bytes'][:20], "text": ex['text'],
                            "aff": (ex['affs_text'][ex['verdict'].get('aff', 1) - 1][:200] if ex['affs_text'] else None)}})
json.dump(out, open('/verif/findings.d/C11.json', 'w'), indent=1)
print(len(out), 'classes,', sum(len(o['key']['mn']) for o in out), 'class x mnemonic pairs')
