------------------------------ MODULE BVSelf ------------------------------
(* Spec-internal obligation: every BV operator equals its native-Nat        *)
(* definition, exhaustively at small widths and on boundary values at       *)
(* widths that straddle limb boundaries.                                    *)
EXTENDS BV, FiniteSets
CONSTANTS Widths, BigWidths
VARIABLES w, x, y
vars == <<w, x, y>>
Bnd(n) == {0, 1, 2, 2^(n-1) - 1, 2^(n-1), 2^n - 2, 2^n - 1, 255 % (2^n), 256 % (2^n), 257 % (2^n)}
Init == \/ (w \in Widths /\ x \in 0..(2^w - 1) /\ y = 0)
        \/ (w \in BigWidths /\ x \in Bnd(w) /\ y = 0)
NextY == IF w \in Widths THEN y + 1
         ELSE LET bigger == {b \in Bnd(w) : b > y} IN
              IF bigger = {} THEN 2^w ELSE CHOOSE b \in bigger : \A c \in bigger : b <= c
Next == NextY < 2^w /\ y' = NextY /\ UNCHANGED <<w, x>>
M == 2^w
S(n) == IF n >= M \div 2 THEN n - M ELSE n          \* signed reading
U(n) == ((n % M) + M) % M
bx == FromNat(x, w)
by == FromNat(y, w)
Unary ==
  /\ IsBV(bx, w) /\ ToNat(bx) = x
  /\ ToNat(Neg(bx, w)) = U(0 - x)
  /\ ToNat(BNot(bx, w)) = M - 1 - x
  /\ IsZero(bx) = (x = 0)
  /\ Msb(bx, w) = x \div (M \div 2)
  /\ Parity8(bx) = (IF Pop8(x % 256) % 2 = 0 THEN 1 ELSE 0)
  /\ (x # 0 => /\ (x \div 2^Bsf(bx, w)) % 2 = 1 /\ x % 2^Bsf(bx, w) = 0
               /\ x \div 2^Bsr(bx, w) = 1)
  /\ (x = 0 => Bsf(bx, w) = -1 /\ Bsr(bx, w) = -1)
  /\ \A lo \in {0, 1, w - 1} : \A hi \in {lo + 1, w} :
        hi > lo => ToNat(Slice(bx, lo, hi)) = (x \div 2^lo) % 2^(hi - lo)
  /\ ToNat(SExt(bx, w, w + 7)) = (IF S(x) < 0 THEN x + (2^(w+7) - M) ELSE x)
  /\ ToNat(ZExt(bx, w + 9)) = x
  /\ SmallVal(bx) = x
  /\ \A m \in {1, 2, 7, 8, 9, 32, 33, 64} : ModSmall(bx, m) = x % m
Shifts(s) ==
  /\ ToNat(ShlN(bx, s, w)) = (IF s >= w THEN 0 ELSE (x * 2^s) % M)
  /\ ToNat(ShrN(bx, s, w)) = (IF s >= w THEN 0 ELSE x \div 2^s)
  /\ ToNat(SarN(bx, s, w)) = (IF s >= w THEN (IF S(x) < 0 THEN M - 1 ELSE 0)
                              ELSE U(IF S(x) >= 0 THEN x \div 2^s ELSE -(((-S(x)) + 2^s - 1) \div 2^s)))
  /\ ToNat(RolN(bx, s, w)) = (LET r == s % w IN IF r = 0 THEN x ELSE ((x * 2^r) % M) + (x \div 2^(w - r)))
  /\ ToNat(RorN(bx, s, w)) = (LET r == s % w IN IF r = 0 THEN x ELSE (x \div 2^r) + (x % 2^r) * 2^(w - r))
  /\ \A c \in {0, 1} :
       LET full == x + c * M            \* (w+1)-bit value cf:x
           r == s % (w + 1)
           rl == IF r = 0 THEN full ELSE ((full * 2^r) % (2*M)) + (full \div 2^(w + 1 - r))
           rr == IF r = 0 THEN full ELSE (full \div 2^r) + (full % 2^r) * 2^(w + 1 - r)
       IN /\ ToNat(RclN(bx, c, s, w)[1]) = rl % M /\ RclN(bx, c, s, w)[2] = rl \div M
          /\ ToNat(RcrN(bx, c, s, w)[1]) = rr % M /\ RcrN(bx, c, s, w)[2] = rr \div M
Binary ==
  /\ ToNat(Add(bx, by, w)) = (x + y) % M
  /\ ToNat(Sub(bx, by, w)) = U(x - y)
  /\ ToNat(Mul(bx, by, w)) = (x * y) % M
  /\ ToNat(MulFull(bx, by, w)) = x * y
  /\ IsBV(MulFull(bx, by, w), 2*w)
  /\ CarryOut(bx, by, 0, w) = (x + y) \div M
  /\ CarryOut(bx, by, 1, w) = (x + y + 1) \div M
  /\ ToNat(BAnd(bx, by, w)) = (x & y)
  /\ ToNat(BOr(bx, by, w)) = (x | y)
  /\ ToNat(BXor(bx, by, w)) = (x ^^ y)
  /\ Ult(bx, by) = (x < y)
  /\ Slt(bx, by, w) = (S(x) < S(y))
  /\ ToNat(Concat(bx, w, by, w)) = x + y * M
  /\ (y # 0 => LET qr == UDivRem(bx, by, w) IN ToNat(qr[1]) = x \div y /\ ToNat(qr[2]) = x % y)
  /\ (y # 0 /\ ~(S(x) = -(M \div 2) /\ S(y) = -1) =>
        LET qr == SDivRem(bx, by, w)
            ax == IF S(x) < 0 THEN -S(x) ELSE S(x)
            ay == IF S(y) < 0 THEN -S(y) ELSE S(y)
            q == IF (S(x) < 0) # (S(y) < 0) THEN -(ax \div ay) ELSE ax \div ay
            r == IF S(x) < 0 THEN -(ax % ay) ELSE ax % ay
        IN ToNat(qr[1]) = U(q) /\ ToNat(qr[2]) = U(r))
Checks == /\ Binary
          /\ (y = 0 => Unary)
          /\ (y <= 2 * w + 2 => Shifts(y))
Spec == Init /\ [][Next]_vars
=============================================================================
