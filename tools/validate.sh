#!/bin/sh
# validates MANIFEST.json and every evidence file against the given schemas (tooling venv has jsonschema)
python3-vt - <<'PY'
import json, jsonschema, glob
jsonschema.validate(json.load(open('/verif/MANIFEST.json')), json.load(open('/root/.vp/MANIFEST.schema.json')))
s = json.load(open('/root/.vp/EVIDENCE.schema.json'))
n = 0
for f in sorted(glob.glob('/verif/evidence/C*.json')):
    if f.endswith('.replay.json'):
        continue
    jsonschema.validate(json.load(open(f)), s)
    n += 1
print('MANIFEST.json and %d evidence files valid' % n)
PY
