----------------------------- MODULE ModIntSelf -----------------------------
(* Spec-internal obligation: the limb path of ModInt (used at all widths)   *)
(* agrees with the native-integer definition on small operands.             *)
EXTENDS ModInt
VARIABLES a, b
Vals == {0, 1, 2, 3, 7, 8, 9, 15, 16, 17, 100, 127, 128, 129, 200, 254, 255}
Ops8 == {[s |-> s, n |-> 8, v |-> FromNat(x, 8)] : s \in {0, 1}, x \in Vals}
Ints == {[s |-> 2, n |-> 16, v |-> FromNat(Red(x, 16), 16)] : x \in {-300, -129, -128, -2, -1, 0, 1, 2, 7, 8, 9, 127, 128, 255, 256, 300, 700}}
Init == a \in Ops8 /\ b = a
Next == b = a /\ b' \in Ops8 \cup Ints /\ UNCHANGED a
Same(e, f) == CASE e.kind = "undef" -> f.kind = "undef"
                [] e.kind = "bool" -> f.kind = "bool" /\ e.b = f.b
                [] e.kind = "fixed" -> f.kind = "nfixed" /\ e.n = f.n /\ e.ss = f.ss /\ ToNat(e.v) = f.u
Agree == /\ \A op \in BinOps : Same(Res2(op, a, b), NatRes2(op, a, b)) /\ Same(Res2(op, b, a), NatRes2(op, b, a))
         /\ (IntOf(b) # 0 => LET W == WorkW(a, b)
                                   q == SDivRem(Exact(a, W), Exact(b, W), W)[1]
                                   qf == IF ~IsZero(SDivRem(Exact(a, W), Exact(b, W), W)[2]) /\ (IsNeg(Exact(a, W), W) # IsNeg(Exact(b, W), W))
                                         THEN Sub(q, FromNat(1, W), W) ELSE q
                               IN /\ Same(ModWit(a, b, qf), NatRes2("%", a, b))
                                  /\ ModWit(a, b, Add(qf, FromNat(1, W), W)).kind = "badwitness")
         /\ \A op \in {"~", "neg"} : Same(Res1(op, a), NatRes1(op, a))
         /\ ToNat(Norm(Res1("abs", a).x, 15)) = NatRes1("abs", a).x
         /\ IntOf([s |-> 1, n |-> a.n + 16, v |-> Res1("int", a).x]) = NatRes1("int", a).x
=============================================================================
