------------------------------ MODULE SimpRules ------------------------------
(* Implementation-shaped model of ONE step of the simplifier on an operator    *)
(* node (expression_helper._expr_simp, ExprOp branch): the rewrite rules with   *)
(* their side conditions, in the order the code applies them.  The result is    *)
(* compared with the code modulo the order of commutative-associative operands  *)
(* (IRVar.NK), because the model does not reproduce the canonical sort key.     *)
(* Checked on the model by TLC (SimpRulesSelf): every step preserves IR.Eval    *)
(* on a valuation grid, and iterating the step reaches a fixpoint within a      *)
(* bound (no rewrite cycle).                                                    *)
EXTENDS IRVar

IsInt(e) == e.k = "int"
IntV(w, v) == [k |-> "int", w |-> w, v |-> v]
IsNegOf(e) == e.k = "op" /\ e.o = "-" /\ Len(e.a) = 1
NegOf(e) == [k |-> "op", w |-> e.w, o |-> "-", u |-> 0, a |-> <<e>>]
OpN(o, args) == [k |-> "op", w |-> args[1].w, o |-> o, u |-> 0, a |-> args]
NoCheck == {"<<<", ">>>", "<<", ">>"}

\* constant folding of all integer operands of an AC operator (they are adjacent after the canonical sort)
FoldInts(o, w, ints) ==
   LET RECURSIVE go(_,_)
       go(i, acc) == IF i > Len(ints) THEN acc ELSE
          go(i + 1, CASE o = "+" -> Add(acc, ints[i].v, w) [] o = "*" -> Mul(acc, ints[i].v, w)
                      [] o = "^" -> BXor(acc, ints[i].v, w) [] o = "&" -> BAnd(acc, ints[i].v, w)
                      [] o = "|" -> BOr(acc, ints[i].v, w))
   IN go(2, ints[1].v)
SelectS(s, P(_)) == LET RECURSIVE go(_) go(i) == IF i > Len(s) THEN <<>> ELSE (IF P(s[i]) THEN <<s[i]>> ELSE <<>>) \o go(i + 1) IN go(1)

\* the pairwise cancellation / idempotence loop, exactly as coded (indices i < j, deletion of j, replacement of i)
RECURSIVE PairLoop(_,_,_,_)
PairLoop(o, args, i, j) ==
   IF i >= Len(args) THEN args
   ELSE IF j > Len(args) THEN PairLoop(o, args, i + 1, i + 2)
   ELSE LET ai == args[i] aj == args[j]
            zero == IntV(ai.w, Zero(ai.w))
            del == [k \in 1..(Len(args) - 1) |-> IF k < j THEN args[k] ELSE args[k + 1]]
        IN IF o = "^" /\ ai = aj THEN PairLoop(o, [del EXCEPT ![i] = zero], i, j)
           ELSE IF o = "+" /\ IsNegOf(aj) /\ aj.a[1] = ai THEN PairLoop(o, [del EXCEPT ![i] = zero], i, j)
           ELSE IF o = "+" /\ IsNegOf(ai) /\ ai.a[1] = aj THEN PairLoop(o, [del EXCEPT ![i] = zero], i, j)
           ELSE IF o \in {"|", "&"} /\ ai = aj THEN PairLoop(o, del, i, j)
           ELSE PairLoop(o, args, i, j + 1)

Step(e) ==
   IF e.k # "op" THEN e ELSE
   LET o == e.o
       w == e.a[1].w
       \* merge associative operands: ONE level only, as coded
       Flat1 == LET RECURSIVE go(_) go(i) == IF i > Len(e.a) THEN <<>> ELSE
                       (IF e.a[i].k = "op" /\ e.a[i].o = o THEN e.a[i].a ELSE <<e.a[i]>>) \o go(i + 1) IN go(1)
       flat == IF o \in ACOps THEN Flat1 ELSE e.a
       ints == SelectS(flat, IsInt)
       others == SelectS(flat, LAMBDA x : ~IsInt(x))
       \* 1. constant folding
       a1 == IF o \in ACOps /\ Len(ints) >= 2 THEN others \o <<IntV(w, FoldInts(o, w, ints))>>
             ELSE IF o \in ACOps THEN others \o ints
             ELSE IF o \in {"<<", ">>"} /\ Len(flat) = 2 /\ IsInt(flat[1]) /\ IsInt(flat[2]) THEN
                  <<IntV(flat[1].w, IF ~Ult(flat[2].v, FromNat(flat[1].w, flat[2].w)) THEN Zero(flat[1].w)
                                    ELSE IF o = "<<" THEN ShlN(flat[1].v, SmallVal(flat[2].v), flat[1].w)
                                    ELSE ShrN(flat[1].v, SmallVal(flat[2].v), flat[1].w))>>
             ELSE flat
   IN \* 2. --A => A ; -(int) => int
      IF o = "-" /\ Len(a1) = 1 /\ IsNegOf(a1[1]) THEN a1[1].a[1]
      ELSE IF o = "-" /\ Len(a1) = 1 /\ IsInt(a1[1]) THEN IntV(w, Neg(a1[1].v, w))
      ELSE
      LET \* 3. A op 0 => A
          popz == o \in {"+", "-", "|", "^", "<<", ">>", "<<<", ">>>"} /\ Len(a1) > 1 /\ IsInt(a1[Len(a1)]) /\ IsZero(a1[Len(a1)].v)
          a2 == IF popz THEN SubSeq(a1, 1, Len(a1) - 1) ELSE a1
      IN IF popz /\ o = "-" /\ Len(a2) = 1 THEN a2[1]
         \* 4. op A => A
         ELSE IF o \in ACOps \cup {">>", "<<", "<<<", ">>>"} /\ Len(a2) = 1 THEN a2[1]
         \* 5. A - B => A + (-B)
         ELSE IF o = "-" /\ Len(a2) = 2 THEN OpN("+", <<a2[1], NegOf(a2[2])>>)
         \* 6. -(A + B + ...) => (-A) + (-B) + ...
         ELSE IF o = "-" /\ Len(a2) = 1 /\ a2[1].k = "op" /\ a2[1].o = "+" THEN OpN("+", [i \in 1..Len(a2[1].a) |-> NegOf(a2[1].a[i])])
         ELSE
         LET a3 == PairLoop(o, a2, 1, 2) IN
         \* 7. A <<< size => A
         IF o \in {"<<<", ">>>"} /\ Len(a3) = 2 /\ IsInt(a3[2]) /\ a3[2].v = FromNat(a3[1].w, a3[2].w) THEN a3[1]
         \* 8. nested rotates are merged (also when the two counts have different sizes: known finding F-C05-nested-rotate-mixed)
         ELSE IF o \in {"<<<", ">>>"} /\ Len(a3) = 2 /\ a3[1].k = "op" /\ a3[1].o \in {"<<<", ">>>"} /\ Len(a3[1].a) = 2 THEN
              LET inner == a3[1]
                  cnt == IF inner.o = o THEN OpN("+", <<inner.a[2], a3[2]>>)
                         ELSE OpN("+", <<inner.a[2], NegOf(a3[2])>>)
              IN OpN(inner.o, <<inner.a[1], cnt>>)
         \* 9. (A & mask) >> shift => 0 when mask >> shift = 0
         ELSE IF o = ">>" /\ Len(a3) = 2 /\ IsInt(a3[2]) /\ a3[1].k = "op" /\ a3[1].o = "&" /\ Len(a3[1].a) = 2 /\ IsInt(a3[1].a[2])
                 /\ IsZero(ShrN(a3[1].a[2].v, SmallVal(a3[2].v), a3[1].a[2].w)) THEN IntV(a3[1].w, Zero(a3[1].w))
         \* 10. int == int
         ELSE IF o = "==" /\ Len(a3) = 2 /\ IsInt(a3[1]) /\ IsInt(a3[2]) THEN
              IntV(a3[1].w, FromNat(IF a3[1].v = a3[2].v THEN 1 ELSE 0, a3[1].w))
         \* 11. (A | int) == 0 => 0 with int # 0
         ELSE IF o = "==" /\ Len(a3) = 2 /\ IsInt(a3[2]) /\ IsZero(a3[2].v) /\ a3[1].k = "op" /\ a3[1].o = "|" /\ Len(a3[1].a) >= 2
                 /\ IsInt(a3[1].a[2]) /\ ~IsZero(a3[1].a[2].v) THEN IntV(a3[1].w, Zero(a3[1].w))
         \* 12. parity(int)
         ELSE IF o = "parity" /\ Len(a3) = 1 /\ IsInt(a3[1]) THEN IntV(a3[1].w, FromNat(Parity8(a3[1].v), a3[1].w))
         ELSE IF a3 = <<>> THEN e ELSE [e EXCEPT !.a = a3, !.w = a3[1].w]

\* iterate the root step (children are not revisited: the model covers one node)
RECURSIVE Iter(_,_)
Iter(e, k) == IF k = 0 THEN e ELSE LET f == Step(e) IN IF f = e THEN e ELSE Iter(f, k - 1)
=============================================================================
