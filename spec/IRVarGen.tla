------------------------------ MODULE IRVarGen ------------------------------
(* Generator for C13: (tree, variant) pairs where the variant is obtained    *)
(* from a generated tree by one or two re-orderings / re-associations of     *)
(* commutative-associative operands.  TLC checks on the generator itself     *)
(* that every variant is AC-equivalent to its tree and well typed.           *)
EXTENDS IRVar
CONSTANTS MaxNodes, Ws, IdsPer, BinOps, UnOps, Rich, Steps
VARIABLES stack, nodes, variant, step
Gen == INSTANCE IRGen
None == [k |-> "none"]
Init == Gen!Init /\ variant = None /\ step = 0
Build == step = 0 /\ Gen!Next /\ UNCHANGED <<variant, step>>
MkVariant == /\ step < Steps /\ Len(stack) = 1
             /\ \E v \in Vars(IF step = 0 THEN stack[1] ELSE variant) : variant' = v
             /\ step' = step + 1 /\ UNCHANGED <<stack, nodes>>
Next == Build \/ MkVariant
VarOK == variant # None => ACEquiv(stack[1], variant) /\ WellTyped(variant) /\ Width(variant) = Width(stack[1])
=============================================================================
