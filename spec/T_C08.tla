------------------------------- MODULE T_C08 -------------------------------
(* C->S judge for C08: the read / write sets reported for the lifted         *)
(* semantics of an instruction (union of get_r(mem_read=True) / get_w() over *)
(* the assignment list, projected to architectural names) contain the        *)
(* architectural sets of X86RW.  Over-approximation is allowed, omission is  *)
(* not.  Record: [id, kind ("core" | "ext"), i (X86Sem instruction, core),   *)
(*   x (index into X86RW!Ext, ext), robs, wobs (lists of names)]             *)
(* Verdict entries, one per missing item:                                    *)
(*   C08.read / C08.write / C08.write_undef (items the SDM leaves undefined: *)
(*   "can modify", separate class).  Degenerate core instances are skipped.  *)
(* Core records also carry the reported memory cells themselves: rcells /    *)
(* wcells = << [a |-> address tree, w |-> width] ... >>, and sd, ns, eip.    *)
(* In the probe states GenState(i, sd, 1..ns) every byte X86Sem!Step writes  *)
(* must lie in a reported written cell (C08.write_addr), and every byte of   *)
(* an architectural cell whose change changes the result of the step must    *)
(* lie in a reported read cell (C08.read_addr); reported addresses are       *)
(* evaluated with IR!Eval in the pre-state.  item = architectural cell name. *)
EXTENDS X86Probe, Json, IOUtils
Recs == JsonDeserialize(IOEnv.TRACE)
ToSet(sq) == {sq[j] : j \in 1..Len(sq)}
\* ---- concrete addresses of the reported cells ---------------------------------------------------
CellsOK(cs) == \A j \in 1..Len(cs) : Loose(cs[j].a) /\ cs[j].a.k # "aff" /\ cs[j].w >= 8
Conc(cs, s) == LET extra == UNION {Ids(cs[j].a) : j \in 1..Len(cs)} \ Modelled
                   env == EnvOf(s, extra) IN
               {<<"", Norm(Eval(cs[j].a, env), 32), cs[j].w \div 8>> : j \in 1..Len(cs)}
Covered(a, cc) == \E c \in cc : InCell(c, a)
NameAt(i, s, a) == LET cs == {c \in Cells(i, s) : InCell(c, a)} IN IF cs = {} THEN "mem[?]" ELSE (CHOOSE c \in cs : TRUE)[1]
AddrVerdict(rec) ==
   LET ins == rec.i
       KS == 1..rec.ns
       S == TLCEval([k \in KS |-> [GenState(ins, rec.sd, k) EXCEPT !.eip = rec.eip]])
       P == TLCEval([k \in KS |-> Step(ins, S[k])])
       live == {k \in KS : P[k].fault = ""}
       RCs == TLCEval([k \in KS |-> Conc(rec.rcells, S[k])])
       WCs == TLCEval([k \in KS |-> Conc(rec.wcells, S[k])])
       \* bytes written by the processor outside every reported written cell
       wmiss == UNION {{NameAt(ins, S[k], a) : a \in {a \in WrAddrs(P[k].wr) : ~Covered(a, WCs[k])}} : k \in live}
       \* bytes of an architectural cell on which the result depends (flip all bits / flip bit 0) outside every reported read cell
       dep(k, a) == LET cur == Load(S[k], a, 8)[1] IN
                    \E new \in {255 - cur, IF cur % 2 = 0 THEN cur + 1 ELSE cur - 1} :
                       Differ(P[k], Step(ins, [S[k] EXCEPT !.over = S[k].over \o <<<<a, new>>>>]), 0, 0)
       bytesOf(c) == {Add(c[2], Const(j), 32) : j \in 0..(c[3] - 1)}
       rmiss == UNION {UNION {{c[1] : a \in {a \in bytesOf(c) : ~Covered(a, RCs[k]) /\ dep(k, a)}} : c \in Cells(ins, S[k])} : k \in live}
       RECURSIVE list(_,_)
       list(c, xs) == IF xs = {} THEN <<>> ELSE LET x == CHOOSE x \in xs : TRUE IN <<[clause |-> c, item |-> x]>> \o list(c, xs \ {x})
   IN IF rec.ns = 0 THEN <<>>
      ELSE IF ~CellsOK(rec.rcells) \/ ~CellsOK(rec.wcells) THEN <<[clause |-> "skip.illtyped_address"]>>
      ELSE list("C08.write_addr", wmiss) \o list("C08.read_addr", rmiss)
Verdict(rec) ==
   LET core == rec.kind = "core"
       d == IF core THEN RW(rec.i) ELSE Ext[rec.x]
       Robs == ToSet(rec.robs)  Wobs == ToSet(rec.wobs)
       RECURSIVE list(_,_)
       list(c, xs) == IF xs = {} THEN <<>> ELSE LET x == CHOOSE x \in xs : TRUE IN <<[clause |-> c, item |-> x]>> \o list(c, xs \ {x})
       \* a degenerate instance (xor r, r; a rotate by a multiple of the width; x + 0 ...) is judged against what X86Sem!Step
       \* really depends on and really writes there (dependency probing, X86Probe!Observed), not against the declared sets,
       \* which over-approximate such instances
       deg == core /\ Degenerate(rec.i)
       ob == IF deg THEN LET ins == rec.i
                             KS == ProbeStates(ins)
                             S == TLCEval([k \in KS |-> [GenState(ins, 11, k) EXCEPT !.eip = EipOf(k)]])
                             P == TLCEval([k \in KS |-> Step(ins, S[k])]) IN Observed(ins, S, P, KS)
             ELSE d
       cellish(x) == Len(x) >= 4 /\ SubSeq(x, 1, 4) = "mem["
   IN IF deg THEN <<[clause |-> "skip.degenerate"]>>
                  \o list("C08.read", {x \in ob.r : ~cellish(x)} \ Robs) \o list("C08.write", {x \in ob.w : ~cellish(x)} \ Wobs)
                  \o AddrVerdict(rec)
      ELSE list("C08.read", d.r \ Robs) \o list("C08.write", d.w \ Wobs) \o list("C08.write_undef", d.wu \ Wobs)
           \o (IF core THEN AddrVerdict(rec) ELSE <<>>)
VARIABLE i
Init == i = 0
Next == \/ /\ i < Len(Recs) /\ i' = i + 1
           /\ LET v == Verdict(Recs[i']) IN
              IF v = <<>> THEN TRUE ELSE PrintT("VERDICT " \o ToJson([id |-> Recs[i'].id, v |-> v]))
        \/ /\ i = Len(Recs) /\ i' = i + 1 /\ PrintT("CONSUMED " \o ToString(Len(Recs)))
=============================================================================
