-------------------------------- MODULE IRVar --------------------------------
(* Commutative-associative structure of IR trees: a normal key that is equal  *)
(* for two trees iff they differ only in the order or nesting of the operands *)
(* of + * ^ & |, and the one-step re-orderings / re-associations of a tree.   *)
EXTENDS IR

Range(s) == {s[i] : i \in DOMAIN s}
BagOf(s) == [k \in Range(s) |-> Cardinality({i \in DOMAIN s : s[i] = k})]
RECURSIVE FlatArgs(_,_)
\* arguments of an AC node with nested nodes of the same operator spliced in
FlatArgs(o, args) ==
   IF args = <<>> THEN <<>>
   ELSE LET h == args[1] t == FlatArgs(o, Tail(args)) IN
        IF h.k = "op" /\ h.o = o THEN FlatArgs(o, h.a) \o t ELSE <<h>> \o t
RECURSIVE NK(_)
NK(e) ==
  CASE e.k = "int" -> <<"int", e.w, e.v>>
    [] e.k = "id" -> <<"id", e.w, e.n>>
    [] e.k = "mem" -> <<"mem", e.w, NK(e.a[1]), [i \in 1..Len(e.g) |-> NK(e.g[i])]>>
    [] e.k = "op" -> IF e.o \in ACOps THEN LET f == FlatArgs(e.o, e.a) IN <<"ac", e.o, BagOf([i \in 1..Len(f) |-> NK(f[i])])>>
                     ELSE <<"op", e.o, [i \in 1..Len(e.a) |-> NK(e.a[i])]>>
    [] e.k = "slice" -> <<"slice", e.lo, e.hi, NK(e.a[1])>>
    [] e.k = "compose" -> <<"compose", BagOf([i \in 1..Len(e.a) |-> <<e.s[i], NK(e.a[i])>>])>>
    [] OTHER -> <<e.k, [i \in 1..Len(e.a) |-> NK(e.a[i])]>>
ACEquiv(e, f) == NK(e) = NK(f)

Rev(s) == [i \in 1..Len(s) |-> s[Len(s) + 1 - i]]
RotL(s) == Tail(s) \o <<s[1]>>
Mk(e, args) == [e EXCEPT !.a = args]
\* one-step variants at the root of an AC node
RootVars(e) ==
   IF e.k = "op" /\ e.o \in ACOps /\ Len(e.a) >= 2 THEN
      {Mk(e, Rev(e.a)), Mk(e, RotL(e.a))}
      \cup (IF Len(e.a) >= 3 THEN {Mk(e, <<Mk(e, SubSeq(e.a, 1, 2))>> \o SubSeq(e.a, 3, Len(e.a))),
                                   Mk(e, SubSeq(e.a, 1, Len(e.a) - 2) \o <<Mk(e, SubSeq(e.a, Len(e.a) - 1, Len(e.a)))>>)}
            ELSE {})
      \cup (IF \E i \in 1..Len(e.a) : e.a[i].k = "op" /\ e.a[i].o = e.o THEN {Mk(e, FlatArgs(e.o, e.a))} ELSE {})
   ELSE {}
RECURSIVE Vars(_)
Vars(e) == (RootVars(e) \ {e})
           \cup (IF e.k \in {"int", "id"} THEN {}
                 ELSE UNION {{Mk(e, [e.a EXCEPT ![i] = v]) : v \in Vars(e.a[i])} : i \in 1..Len(e.a)})
=============================================================================
