"""C17 - control-flow metadata agrees with the instruction's architectural behaviour.
Gen: the C01 space (spec/IA32Space.tla): every control-transfer form with rel8/16/32 displacements at boundary values
x instruction offsets {0, 0x1000, 2^16-2, 2^31-3, 2^32-len-1, 2^32-1} served through miasmX's bin_stream, plus every
other opcode's base forms (must be 'seq').  Obs: breakflow() splitflow() dstflow() getnextflow() getdstflow().
Oracle: spec/IA32Flow.tla (class table, next = offset+len, target = (offset+len+sext(disp)) mod 2^opsize on limbs),
judged by spec/T_C17.tla."""
import os, sys, json, random, collections, multiprocessing
from . import core, ia32lib, ia32space

PFX = {0xF0, 0xF2, 0xF3, 0x26, 0x2E, 0x36, 0x3E, 0x64, 0x65, 0x66, 0x67}
CT1 = set(range(0x70, 0x80)) | {0xE0, 0xE1, 0xE2, 0xE3, 0xE8, 0xE9, 0xEA, 0xEB, 0x9A, 0xC2, 0xC3, 0xCA, 0xCB, 0xCC, 0xCD,
                                0xCE, 0xCF, 0xF1, 0xF4, 0xFF}
CT2 = set(range(0x80, 0x90)) | {0x05, 0x07, 0x0B, 0x34, 0x35, 0xB9, 0xFF}


def is_control(b):
    i = 0
    while i < len(b) and b[i] in PFX:
        i += 1
    if i >= len(b):
        return False
    if b[i] == 0x0F:
        return i + 1 < len(b) and b[i + 1] in CT2
    return b[i] in CT1


class Virt(object):
    """address space with `data` mapped at `base` (everything else reads as 0xCC); no allocation"""
    def __init__(self, base, data):
        self.base, self.data = base, data

    def __len__(self):
        return 1 << 40

    def __call__(self, start, stop, section=None):
        out = bytearray()
        for a in range(start, stop):
            k = a - self.base
            out.append(self.data[k] if 0 <= k < len(self.data) else 0xCC)
        return bytes(out)


def lim(v, n):
    v &= (1 << (8 * n)) - 1
    return [(v >> (8 * i)) & 255 for i in range(n)]


def flow_one(args):
    """(bytes, offset) -> flow record of the instruction decoded at that offset; (bytes, offset, moved_to): the instruction is
    decoded at `offset`, asked once, then its offset attribute is set to moved_to (as code that relocates instruction objects
    does) and it is asked again: the record describes the instruction at moved_to"""
    b, off = args[0], args[1]
    moved = args[2] if len(args) > 2 else None
    if ia32lib._mn is None:
        ia32lib._init()
    from miasmx.core.bin_stream import bin_stream
    r = {'b': list(b), 'off': lim(off, 4), 'ok': False, 'len': 0, 'bk': False, 'sp': False, 'dt': False, 'nxt': lim(0, 5),
         'dk': 'none', 'dst': lim(0, 5), 'st': 'absent'}
    try:
        bs = bin_stream(Virt(off, bytes(b) + b'\xcc' * 8), off)
        ins = ia32lib._mn.dis(bs)
    except Exception as e:
        r['st'] = 'exc'
        r['exc'] = ia32lib.exc_key(e)
        return r
    if ins is None:
        return r
    r['ok'] = True
    r['st'] = 'instr'
    r['len'] = int(ins.l)
    r['ioff'] = int(ins.offset)
    if moved is not None:
        try:
            ins.breakflow(), ins.splitflow(), ins.getnextflow()
            if ins.dstflow():
                ins.getdstflow()
        except Exception:
            pass
        ins.offset = moved
        r['off'] = lim(moved, 4)
        r['moved_from'] = off
    try:
        r['bk'], r['sp'], r['dt'] = bool(ins.breakflow()), bool(ins.splitflow()), bool(ins.dstflow())
        nx = ins.getnextflow()
        r['nxt'] = lim(int(nx), 5)
        r['nxt_big'] = int(nx) >= (1 << 40)
        if r['dt']:
            d = ins.getdstflow()
            if len(d) == 1 and isinstance(d[0], int) or (len(d) == 1 and hasattr(d[0], '__int__') and not isinstance(d[0], dict)):
                r['dk'] = 'int'
                r['dst'] = lim(int(d[0]), 5)
                r['dst_raw'] = int(d[0])
            else:
                r['dk'] = 'arg'
    except Exception as e:
        r['dk'] = 'exc'
        r['exc'] = ia32lib.exc_key(e)
    return r


def _chunk(items):
    return [flow_one(x) for x in items]


def observe(items):
    if len(items) < 2000:
        return _chunk(items)
    procs = min(core.NCPU, 16)
    step = max(500, len(items) // (procs * 8))
    chunks = [items[i:i + step] for i in range(0, len(items), step)]
    ctx = multiprocessing.get_context('fork')
    out = []
    with ctx.Pool(procs, initializer=ia32lib._init) as pool:
        for part in pool.imap(_chunk, chunks):
            out += part
    return out


FIELDS = ('b', 'off', 'ok', 'len', 'bk', 'sp', 'dt', 'nxt', 'dk', 'dst')


def judge(chk, label, items, rnd):
    obs = observe(items)
    recs = [dict({k: o[k] for k in FIELDS}, id=i) for i, o in enumerate(obs)]
    order = list(range(len(recs)))
    rnd.shuffle(order)
    verdicts, st = core.judge('T_C17', [recs[i] for i in order], timeout=3000, tags=('STATS',))
    chk.add_tlc(st)
    tot = collections.Counter()
    for s in st.get('STATS', []):
        tot.update(s)
    chk.cov.setdefault('spaces', {})[label] = {'cases': len(items), 'compared': tot['cmp'], 'skipped_spec_rejects': tot['specrej'],
                                               'skipped_impl_rejects': tot['implrej'], 'skipped_length_differs': tot['lendiff'],
                                               'excluded_sys': tot['sys'], 'records_with_failing_clause': len(verdicts)}
    chk.cov['evaluations'] += len(items)
    chk.cov['traces_validated_against_impl'] += len(items)
    for v in verdicts:
        o = obs[v['id']]
        off = sum(x << (8 * i) for i, x in enumerate(o['off']))
        for c in v['v']:
            key = {'clause': c['clause'], 'cls': c['cls'], 'mn': 'jcc' if c['cls'] == 'jcc' and v['mn'].startswith('j') and v['mn'] not in ('jecxz', 'jcxz') else v['mn']}
            if c['clause'] in ('C17.target', 'C17.next'):
                key['os'] = v['os']
                key['offset_class'] = 'wraps' if off + v['len'] >= (1 << 32) or (v['os'] == 16 and off >= (1 << 16) - 16) else ('high' if off >= (1 << 31) - 16 else 'low')
            if o['dk'] == 'exc':
                key.update(o.get('exc', {}))
            chk.violation(key, {'bytes': bytes(o['b']).hex(), 'offset': off, 'moved_from': o.get('moved_from'), 'observed': {k: o.get(k) for k in ('len', 'bk', 'sp', 'dt', 'dk', 'dst_raw', 'nxt')},
                                'verdict': v})
    for o in obs:
        if o['st'] == 'instr' and o['dt'] and o['dk'] == 'int' and len(chk.cov['samples']) < 5:
            chk.sample({'bytes': bytes(o['b']).hex(), 'offset': sum(x << (8 * i) for i, x in enumerate(o['off'])), 'target': o.get('dst_raw'),
                        'flags': [o['bk'], o['sp'], o['dt']]})
    return obs, tot


def offsets(n):
    return [0, 0x1000, (1 << 16) - 2, (1 << 31) - 3, (1 << 32) - n - 1, (1 << 32) - 1]


def run(tier, chk):
    rnd = random.Random(chk.seed)
    negative_control(chk)
    if tier == 'quick':
        g = ia32space.gen(1, False, None, chk)
        ctl = [bytes.fromhex(h) for h in g['done'] if is_control(bytes.fromhex(h))]
    else:
        g1 = ia32space.gen(2, False, sorted(CT1), chk)
        g2 = ia32space.gen(2, False, [0x0F], chk, op2=sorted(CT2))
        ctl = [bytes.fromhex(h) for h in g1['done'] + g2['done'] if is_control(bytes.fromhex(h))]
        rnd.shuffle(ctl)
        ctl = ctl[:300000]
    items = [(b, o) for b in ctl for o in offsets(len(b))]
    obs, tot = judge(chk, 'control-transfer forms x 6 offsets', items, rnd)
    moved = [(b, 0, 0x401000) for b in ctl] + [(b, 0x1000, (1 << 31) - 3) for b in ctl]
    if tier == 'quick':
        moved = [m for m in moved if rnd.random() < 0.5]
    judge(chk, 'control-transfer forms decoded at one offset, asked, moved to another offset and asked again', moved, rnd)
    chk.cov['distinct_nontrivial'] = tot['cmp']
    g0 = ia32space.gen(0, False, None, chk)
    seq = [bytes.fromhex(h) for h in g0['done']]
    judge(chk, 'base forms of every opcode x offsets {0, 0x1000}', [(b, o) for b in seq for o in (0, 0x1000)], rnd)
    chk.cov['rule'] = ('cases = (terminal state of IA32Space.tla, instruction offset); non-trivial = control-transfer forms compared on all five clauses')
    chk.assumptions += ['flat 32-bit mode; instruction offsets are served through bin_stream_virt over a sparse address space',
                        'syscall/sysenter/sysexit/sysret excluded as the property states',
                        'fall-through = offset + length as an integer (no wrap), target = (offset+len+sext(disp)) mod 2^operand-size']


def negative_control(chk):
    # frozen control records (recorded once on the unchanged tree): independent of the tree under test
    recs = json.load(open(os.path.join(core.VERIF, 'vf', 'ia32_controls.json')))['C17']
    bad = []
    def mut(i, f, clause):
        r = json.loads(json.dumps(recs[i]))
        f(r)
        r['id'] = len(recs) + len(bad)
        bad.append((r, clause))
    mut(0, lambda r: r['dst'].__setitem__(0, r['dst'][0] ^ 1), 'C17.target')
    mut(0, lambda r: r.update(sp=False), 'C17.splitflow')
    mut(1, lambda r: r['nxt'].__setitem__(0, 6), 'C17.next')
    mut(2, lambda r: r.update(bk=True), 'C17.breakflow')
    mut(3, lambda r: r.update(dt=True), 'C17.dstflow')
    verdicts, st = core.judge('T_C17', recs + [b for b, _ in bad], shards=1, tags=('STATS',))
    got = sorted((v['id'], v['v'][0]['clause']) for v in verdicts)
    want = sorted((b['id'], c) for b, c in bad)
    ok = got == want
    chk.cov['negative_controls'].append({'name': '5 corrupted flow records rejected with the expected clause, 4 genuine accepted', 'ok': ok,
                                         'got': got if not ok else len(got)})
    if not ok:
        raise core.MachineryError('C17 negative control failed: got %r want %r' % (got, want))


def replay(path, chk):
    rp = json.load(open(path))
    d = rp['detail']
    item = (bytes.fromhex(d['bytes']), d['offset']) if d.get('moved_from') is None else (bytes.fromhex(d['bytes']), d['moved_from'], d['offset'])
    judge(chk, 'replay', [item], random.Random(chk.seed))
    return chk.finish()
