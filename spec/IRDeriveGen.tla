----------------------------- MODULE IRDeriveGen -----------------------------
(* Generator for C15 / C16: a tree (or an assignment: a two-element stack     *)
(* whose first element is an identifier or memory cell of the same width)     *)
(* plus one derived item chosen by TLC:                                       *)
(*   "mut"    near-equal tree f (one field changed) and a second one g        *)
(*   "fmap"   replacement map sub-term -> fresh identifier (1 or 2 keys)      *)
(*   "imap"   replacement map identifier -> small image tree                  *)
(*   "cmap"   two-key map whose first image is the second key (chain / swap)  *)
(*   "pat"    wildcard pattern of the tree (instances and non-linear cases)   *)
(*   "patmut" pattern of the tree against a mutation of it (same shape)       *)
(*   "patpart" pattern with a repeated wildcard against the tree in which one *)
(*            of the two positions holds the wildcard identifier itself       *)
(*   "plain"  nothing derived                                                 *)
(*   "paff"   partial assignment: the source of an assignment to an identifier*)
(*            of width >= 16 is a concatenation of one byte of the generated  *)
(*            source and the same-position slice of the destination (the form *)
(*            ExprAff builds for a sliced destination)                        *)
EXTENDS IRDerive
CONSTANTS MaxNodes, Ws, IdsPer, BinOps, UnOps, Rich, Kinds
VARIABLES stack, nodes, aux
Gen == INSTANCE IRGen
NoAux == [kind |-> "none"]
IsAffStack == Len(stack) = 2 /\ stack[1].k \in {"id", "mem"} /\ stack[1].w = stack[2].w
Tree == IF Len(stack) = 1 THEN stack[1]
        ELSE [k |-> "aff", w |-> stack[1].w, a |-> <<stack[1], stack[2]>>]
PartialAffs(t) == LET d == t.a[1]  s == t.a[2]  w == d.w IN
   {[t EXCEPT !.a = <<d, Gen!ComposeNode(Gen!SliceNode(s, 0, 8), Gen!SliceNode(d, 8, w))>>],
    [t EXCEPT !.a = <<d, Gen!ComposeNode(Gen!SliceNode(d, 0, w - 8), Gen!SliceNode(s, w - 8, w))>>]}
Complete == Len(stack) = 1 \/ IsAffStack
Init == Gen!Init /\ aux = NoAux
Build == aux = NoAux /\ Gen!Next /\ UNCHANGED aux
Derive == /\ aux = NoAux /\ Complete /\ UNCHANGED <<stack, nodes>>
          /\ \E kd \in Kinds :
               CASE kd = "plain" -> aux' = [kind |-> "plain", e |-> Tree]
                 [] kd = "paff" -> Tree.k = "aff" /\ stack[1].k = "id" /\ stack[1].w >= 16 /\ \E pa \in PartialAffs(Tree) :
                        aux' = [kind |-> "plain", e |-> pa]
                 [] kd = "mut" -> \E f \in Mutations(Tree) :
                        aux' = [kind |-> "mut", e |-> Tree, f |-> f,
                                g |-> LET gs == Mutations(f) \ {Tree} IN IF gs = {} THEN f ELSE CHOOSE x \in gs : TRUE]
                 [] kd = "fmap" -> Tree.k # "aff" /\ \E mp \in FreshMaps(Tree) : aux' = [kind |-> "map", e |-> Tree, map |-> mp]
                 [] kd = "imap" -> \E mp \in IdMaps(Tree) \cup SegMaps(Tree) : aux' = [kind |-> "map", e |-> Tree, map |-> mp]
                 [] kd = "cmap" -> \E mp \in ChainMaps(Tree) : aux' = [kind |-> "map", e |-> Tree, map |-> mp]
                 [] kd = "pat" -> Tree.k # "aff" /\ \E pt \in Patterns(Tree) : aux' = [kind |-> "pat", e |-> Tree, pat |-> pt.pat, wild |-> pt.wild]
                 [] kd = "patpart" -> Tree.k # "aff" /\ \E pt \in Partial(Tree) : aux' = [kind |-> "pat", e |-> pt.e, pat |-> pt.pat, wild |-> pt.wild]
                 [] kd = "patmut" -> Tree.k # "aff" /\ \E pt \in Patterns(Tree) : \E m \in Mutations(Tree) :
                        aux' = [kind |-> "pat", e |-> m, pat |-> pt.pat, wild |-> pt.wild]
Next == Build \/ Derive
\* generator obligations
DeriveOK == aux.kind = "map" => Subst(aux.e, aux.map) # aux.e
=============================================================================
