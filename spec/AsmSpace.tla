------------------------------ MODULE AsmSpace ------------------------------
(* Generator (S->C) of canonical assembly lines for C02 / C03 / C19:        *)
(* mnemonic x operand-shape tuples (<= 3 operands) over representatives,    *)
(* including shapes that are NOT valid for the mnemonic, plus sweeps over   *)
(* the addressing forms and over the width-boundary immediates.             *)
(* The vocabulary below is the specification's (SDM / GNU as names), not    *)
(* miasmX's tables.  Every reachable state is one line [mn, ops].           *)
EXTENDS Syntax
CONSTANT Level            \* "small" (development) | "full"
VARIABLES ins, grow, src, plaus
vars == <<ins, grow, src, plaus>>
\* ---------------------------------------------------------------- operand constructors
Rg(c, n) == [k |-> "reg", c |-> c, n |-> n]
Mem(sz, seg, b, i, sc, d, sym) == [k |-> "mem", sz |-> sz, seg |-> seg, b |-> b, i |-> i, sc |-> sc, d |-> d, aw |-> 32, sym |-> sym]
Imm(neg, v) == [k |-> "imm", v |-> v, neg |-> neg, sym |-> ""]
Sym(s) == [k |-> "imm", v |-> Z4, neg |-> FALSE, sym |-> s]
\* width-boundary immediates: -129 -128 -1 0 1 127 128 255 256 32767 32768 65535 2^31-1 2^31 2^32-1
ImmVals == {Imm(TRUE, <<127,255,255,255>>), Imm(TRUE, <<128,255,255,255>>), Imm(TRUE, <<255,255,255,255>>),
            Imm(FALSE, Z4), Imm(FALSE, <<1,0,0,0>>), Imm(FALSE, <<127,0,0,0>>), Imm(FALSE, <<128,0,0,0>>),
            Imm(FALSE, <<255,0,0,0>>), Imm(FALSE, <<0,1,0,0>>), Imm(FALSE, <<255,127,0,0>>), Imm(FALSE, <<0,128,0,0>>),
            Imm(FALSE, <<255,255,0,0>>), Imm(FALSE, <<255,255,255,127>>), Imm(FALSE, <<0,0,0,128>>), Imm(FALSE, <<255,255,255,255>>)}
I1 == Imm(FALSE, <<1,0,0,0>>)
D(x) == FromNat(x, 32)
DNeg(x) == Neg(FromNat(x, 32), 32)
EAX == Rg("r32", 0)
M1 == Mem(32, "", 3, -1, 1, D(4), "")                   \* DWORD PTR [ebx+4]
M2 == Mem(0, "", 3, 6, 2, Z4, "")                       \* [ebx+esi*2]
M3 == Mem(8, "", 5, -1, 1, Z4, "")                      \* BYTE PTR [ebp]
M4 == Mem(16, "", -1, 6, 4, DNeg(129), "")              \* WORD PTR [esi*4-129]
M5 == Mem(32, "fs", 0, -1, 1, Z4, "")                   \* DWORD PTR fs:[eax]
M6 == Mem(32, "", -1, -1, 1, D(4660), "")               \* DWORD PTR [4660]
M7 == Mem(64, "", 0, -1, 1, Z4, "")                     \* QWORD PTR [eax]
M8 == Mem(128, "", 3, 0, 1, D(128), "")                 \* XMMWORD PTR [ebx+eax+128]
M9 == Mem(80, "", 4, -1, 1, D(8), "")                   \* TBYTE PTR [esp+8]
MS == Mem(32, "", 3, -1, 1, Z4, "foo")                  \* DWORD PTR foo[ebx]
\* ---------------------------------------------------------------- mnemonic vocabulary
NoOps   == {"nop","leave","hlt","cdq","cwde","cbw","cwd","pushfd","popfd","pushad","popad","cld","std","clc","stc","cmc",
           "sahf","lahf","cpuid","rdtsc","int3","movsb","movsw","stosb","stosd","lodsb","lodsd","scasb","cmpsb","xlat","cli","sti",
           "fchs","fabs","fsqrt","fldz","fld1","fnop","fcompp","emms","ud2","wait","iretd","into","aaa","daa","pause","sfence"}
OneInt == {"inc","dec","neg","not","mul","div","idiv","push","pop","bswap","sete","setne","setb","setg","int","lgdt","lidt"}
OneBr  == {"jmp","call","je","jne","jb","jg","jecxz","loop","jmpf","callf"}
OneX87 == {"fld","fst","fstp","fild","fist","fistp","fldcw","fnstcw","fnstsw","ffree","fiadd"}
TwoInt == Alu2 \cup {"xchg","lea","bt","bts","btr","btc","bsf","bsr","xadd","cmpxchg","movzx","movsx","cmove","cmovg","cmovb",
                     "in","out","enter","lds","bound"}
TwoSimd == {"movd","movq","paddb","paddd","paddq","pxor","pand","por","psubb","pcmpeqb","punpcklbw","movaps","movups","movss",
            "addps","addss","mulps","xorps","andps","cvtsi2sd","sqrtps","movdqa","movdqu","ucomiss"}
ThreeSimd == {"pshufd","pextrw","pinsrw","shufps"}
X87Arith == {"fadd","fsub","fmul","fdiv","fsubr","fdivr","fcom","fcomp"}
X87Pop == {"faddp","fsubp","fmulp","fdivp","fsubrp","fdivrp"}
\* condition sweep: every alias name of every condition with jcc / setcc / cmovcc (not part of the operand-shape enumeration)
CcJ == {"j" \o c : c \in CcAll}
CcMov == CMov
Mnems == NoOps \cup OneInt \cup OneBr \cup OneX87 \cup TwoInt \cup TwoSimd \cup ThreeSimd \cup X87Arith \cup X87Pop \cup Shifts
         \cup {"ret","retf","movsd","imul","shld","shrd","fxch","fucom"}
Ar(m) == CASE m \in {"ret","retf","fxch","fucom"} -> {0, 1}
           [] m = "movsd" -> {0, 2}
           [] m = "imul" -> {1, 2, 3}
           [] m \in {"shld","shrd"} -> {3}
           [] m \in Shifts \cup X87Arith -> {1, 2}
           [] m \in X87Pop -> {0, 1, 2}
           [] m \in NoOps -> {0}
           [] m \in OneInt \cup OneBr \cup OneX87 \cup CcJ \cup SetCc -> {1}
           [] m \in ThreeSimd -> {3}
           [] OTHER -> {2}
Fam(m) == IF m \in OneBr \cup CcJ THEN "br"
          ELSE IF m \in OneX87 \cup X87Arith \cup X87Pop \cup {"fxch","fucom"} THEN "x87"
          ELSE IF m \in TwoSimd \cup ThreeSimd \cup {"movsd"} THEN "simd" ELSE "int"
MaxAr(m) == CHOOSE a \in Ar(m) : \A b \in Ar(m) : b <= a
\* ---------------------------------------------------------------- representatives
Small == Level = "small"
IntReps == IF Small THEN {EAX, Rg("r16", 1), Rg("r8", 3), M1, M2, I1, Imm(TRUE, <<127,255,255,255>>)}
           ELSE {EAX, Rg("r32", 4), Rg("r16", 1), Rg("r8", 3), Rg("r8", 4), Rg("sreg", 3), Rg("sreg", 4), Rg("cr", 0), Rg("dr", 1),
                 Rg("mm", 1), Rg("xmm", 2), Rg("st", 1), M1, M2, M3, M4, M5, M6, M7, MS, I1, Imm(TRUE, <<127,255,255,255>>),
                 Imm(FALSE, <<255,0,0,0>>), Imm(FALSE, <<255,255,0,0>>), Imm(FALSE, <<0,0,0,128>>), Sym("foo")}
X87Reps == {Rg("st", 0), Rg("st", 1), Rg("st", 7), EAX, Rg("r16", 0), M1, M7, M9, M4, M2, I1}
SimdReps == {Rg("mm", 1), Rg("mm", 0), Rg("xmm", 2), Rg("xmm", 0), EAX, Rg("r16", 1), M7, M8, M1, M2, I1, Imm(FALSE, <<255,0,0,0>>)}
BrReps == {Sym("foo"), EAX, Rg("r16", 1), M1, M2, M4, Imm(FALSE, <<5,0,0,0>>), Imm(TRUE, <<127,255,255,255>>), Imm(FALSE, <<0,0,0,128>>)}
Lite == {EAX, Rg("r16", 1), M1, I1}
Reps(m, pos) == IF pos > MaxAr(m) THEN {EAX, I1}
                ELSE IF pos = 3 THEN {I1, Imm(FALSE, <<255,0,0,0>>), Imm(FALSE, <<0,1,0,0>>), Rg("r8", 1), EAX}
                ELSE CASE Fam(m) = "br" -> BrReps [] Fam(m) = "x87" -> X87Reps [] Fam(m) = "simd" -> SimdReps [] OTHER -> IntReps
\* ---------------------------------------------------------------- sweeps
Bases == {-1, 0, 3, 4, 5}
IdxSc == {<<-1, 1>>, <<6, 1>>, <<6, 2>>, <<0, 4>>, <<5, 8>>, <<3, 1>>, <<3, 2>>}
Disps == {Z4, D(4), DNeg(1), D(127), D(128), DNeg(128), DNeg(129), <<255,255,255,127>>, <<0,0,0,128>>}
MemForms(szs) == {Mem(sz, sg, b, x[1], x[2], d, "") : sz \in szs, sg \in {"", "fs"}, b \in Bases, x \in IdxSc, d \in Disps}
Line(m, ops) == [mn |-> m, ops |-> ops]
MemSweep == IF Small THEN {Line("mov", <<EAX, mm>>) : mm \in {Mem(32, "", b, x[1], x[2], d, "") : b \in {-1, 3}, x \in {<<-1,1>>, <<6,2>>}, d \in {Z4, DNeg(129)}}}
   ELSE {Line("mov", <<EAX, mm>>) : mm \in MemForms({0, 32})} \cup {Line("mov", <<mm, EAX>>) : mm \in MemForms({32})}
        \cup {Line("lea", <<Rg("r32", 1), mm>>) : mm \in MemForms({0})} \cup {Line("add", <<mm, I1>>) : mm \in MemForms({8})}
        \cup {Line("inc", <<mm>>) : mm \in MemForms({16})} \cup {Line("push", <<mm>>) : mm \in MemForms({32})}
        \cup {Line("fld", <<mm>>) : mm \in MemForms({64})} \cup {Line("movq", <<Rg("mm", 1), mm>>) : mm \in MemForms({64})}
        \cup {Line("jmp", <<mm>>) : mm \in MemForms({32})}
CcSweep == IF Small THEN {Line("jnl", <<Imm(FALSE, <<5,0,0,0>>)>>), Line("setnge", <<Rg("r8", 3)>>), Line("cmovnle", <<EAX, Rg("r32", 3)>>)}
   ELSE {Line(m, <<o>>) : m \in CcJ, o \in {Imm(FALSE, <<5,0,0,0>>), Sym("foo")}}
        \cup {Line(m, <<o>>) : m \in SetCc, o \in {Rg("r8", 3), M3}}
        \cup {Line(m, <<Rg(r, 1), o>>) : m \in CcMov, r \in {"r32"}, o \in {Rg("r32", 3), M1}}
        \cup {Line(m, <<Rg("r16", 1), Rg("r16", 3)>>) : m \in CcMov}
\* every segment override on address forms whose default segment differs (esp / ebp as base, ebp as index only, no base)
SegSweep == IF Small THEN {Line("mov", <<EAX, Mem(32, "ss", 3, 5, 2, Z4, "")>>)}
   ELSE {Line("mov", <<EAX, Mem(32, sg, b, x[1], x[2], d, "")>>) : sg \in {"ss", "ds", "cs", "es", "gs"}, b \in {-1, 3, 4, 5},
                                                                    x \in {<<-1, 1>>, <<5, 1>>, <<5, 2>>, <<6, 4>>}, d \in {Z4, D(4)}}
        \cup {Line("add", <<Mem(8, sg, b, 5, 4, D(4), ""), I1>>) : sg \in {"ss", "ds"}, b \in {-1, 3, 5}}
ImmDst == {EAX, Rg("r32", 3), Rg("r16", 0), Rg("r16", 1), Rg("r8", 0), Rg("r8", 3), M1, M4, M3, M2}
ImmAll == ImmVals \cup {Sym("foo")}
ImmSweep == IF Small THEN {Line("add", <<dd, v>>) : dd \in {EAX, Rg("r8", 3), M4}, v \in ImmVals}
   ELSE {Line(m, <<dd, v>>) : m \in Alu2 \cup Shifts \cup {"bt", "imul", "in", "out", "enter"}, dd \in ImmDst, v \in ImmAll}
        \cup {Line(m, <<v>>) : m \in {"push", "ret", "int", "jmp", "call", "je", "retf"}, v \in ImmAll}
        \cup {Line("imul", <<dd, Rg("r32", 3), v>>) : dd \in {EAX, Rg("r16", 1)}, v \in ImmAll}
        \cup {Line(m, <<EAX, Rg("r32", 3), v>>) : m \in {"shld", "shrd"}, v \in ImmAll}
        \cup {Line("mov", <<Mem(sz, "", 3, -1, 1, d, ""), v>>) : sz \in {8, 16, 32}, d \in {Z4, D(127), D(128)}, v \in ImmAll}
        \cup {Line(m, <<v, r>>) : m \in {"out", "enter"}, v \in ImmAll, r \in {EAX, Rg("r8", 0), I1, Imm(FALSE, <<31,0,0,0>>)}}
\* ---------------------------------------------------------------- plausibility (a coarse operand-class check, not validity)
\* C19 spells only lines whose operand classes the mnemonic family can take; C02 sees all lines and uses the reason
\* to name the class of an invalid line that was accepted.  State variable plaus = PlausWhy(ins).
Gprs == {"r8", "r16", "r32"}
XmmOnly == {"movaps","movups","movss","movsd","addps","addss","mulps","xorps","andps","cvtsi2sd","sqrtps","movdqa","movdqu","ucomiss","pshufd","shufps"}
Fam2Imm8 == Shifts \cup {"shld", "shrd", "in", "out", "int", "bt", "bts", "btr", "btc", "enter"} \cup ThreeSimd
RegClassesOf(ops) == {ops[j].c : j \in {j \in 1..Len(ops) : ops[j].k = "reg"}}
AllSizes(ops) == RegSizes(ops) \cup MemSizes(ops)
MixedSizeOK == {"movzx","movsx","shld","shrd","in","out","enter","lds","bound","lea"} \cup Shifts
IsImm(o) == o.k = "imm" /\ o.sym = ""
RegIn(o, C) == o.k = "reg" /\ o.c \in C
StN(o, ns) == o.k = "reg" /\ o.c = "st" /\ o.n \in ns
U8(o) == ~o.neg /\ Low(o.v, 8) = o.v
U16(o) == ~o.neg /\ Low(o.v, 16) = o.v
\* immediates must be in the range the instruction can hold (out-of-range values are C02's subject)
ImmOK(m, ops) == \A j \in 1..Len(ops) : IsImm(ops[j]) =>
   CASE m \in ImmFollowsOperand -> FitsW(ops[j].v, ops[j].neg, IF ImmWidth(m, ops) = 0 THEN 32 ELSE ImmWidth(m, ops))
     [] m \in {"ret", "retf"} \/ (m = "enter" /\ j = 1) -> U16(ops[j])
     [] m \in Fam2Imm8 -> U8(ops[j])
     [] OTHER -> TRUE
\* first reason why a line cannot be an instruction of its mnemonic's family ("" = plausible)
PlausWhy(l) ==
   LET cs == RegClassesOf(l.ops)  m == l.mn  f == Fam(l.mn)  n == Len(l.ops)
       K(j) == l.ops[j].k
       nmem == Cardinality({j \in 1..n : K(j) = "mem"})
       First(checks) == LET bad == {j \in 1..Len(checks) : ~checks[j][2]} IN
                        IF bad = {} THEN "" ELSE checks[CHOOSE j \in bad : \A q \in bad : j <= q][1]
       general == First(<<
          <<"arity", n \in Ar(m)>>,
          <<"two_memory_operands", nmem <= 1>>,
          <<"immediate_destination", n >= 1 /\ m \notin {"push", "ret", "retf", "int", "out", "enter"} \cup OneBr => K(1) # "imm">> >>)
       byfam == CASE f = "int" -> First(<<
          <<"register_class", cs \subseteq (Gprs \cup (IF m \in {"mov","push","pop"} THEN {"sreg"} ELSE {}) \cup (IF m = "mov" THEN {"cr","dr"} ELSE {}))>>,
          <<"memory_size", MemSizes(l.ops) \subseteq {8, 16, 32} \cup (IF m = "bound" THEN {64} ELSE {})>>,
          <<"size_mismatch", m \in MixedSizeOK \/ Cardinality(AllSizes(l.ops)) <= 1>>,
          <<"special_register_form", cs \cap {"cr", "dr", "sreg"} # {} => n = 1 \/ (K(1) = "reg" /\ K(2) = "reg" /\ AllSizes(l.ops) \subseteq {IF "sreg" \in cs THEN 16 ELSE 32, 32})>>,
          <<"shift_count", m \in Shifts \cup {"shld", "shrd"} /\ n >= 2 => IsImm(l.ops[n]) \/ l.ops[n] = Rg("r8", 1)>>,
          <<"needs_memory", m \in {"lds", "lgdt", "lidt", "bound", "lea"} => K(n) = "mem">>,
          <<"operand_form", m \in {"imul", "bsf", "bsr", "bt", "bts", "btr", "btc", "lea", "movzx", "movsx", "lds", "bound", "xchg", "xadd", "cmpxchg"} \cup CcMov
                   => "r8" \notin (IF m \in {"movzx", "movsx", "xchg", "xadd", "cmpxchg"} THEN {} ELSE cs) /\ (n = 1 \/ K(IF m \in {"bt","bts","btr","btc","xadd","cmpxchg","xchg"} THEN 2 ELSE 1) \in {"reg"} \cup (IF m \in {"bt","bts","btr","btc"} THEN {"imm"} ELSE {}))>>,
          <<"operand_form", m \in {"movzx", "movsx"} => n = 2 /\ RegIn(l.ops[1], {"r16", "r32"}) /\ K(2) # "imm"
                              /\ \A z \in AllSizes(SubSeq(l.ops, 2, n)) : z < (IF RegIn(l.ops[1], {"r16"}) THEN 16 ELSE 32)>>,
          <<"memory_size", m \in {"lds", "lgdt", "lidt"} => MemSizes(l.ops) = {}>>,
          <<"memory_size", m = "bound" => \A z \in MemSizes(l.ops) : \A y \in RegSizes(l.ops) : z = 2 * y>>,
          <<"operand_size", m = "bswap" => AllSizes(l.ops) \subseteq {32}>>,
          <<"size_mismatch", m \in {"shld", "shrd"} /\ n >= 2 => Cardinality(AllSizes(SubSeq(l.ops, 1, 2))) <= 1 /\ 8 \notin AllSizes(SubSeq(l.ops, 1, 2))>>,
          <<"operand_size", m \in SetCc => AllSizes(l.ops) \subseteq {8}>>,
          <<"operand_size", m \in {"push", "pop", "bswap", "lgdt", "lidt", "int"} => "r8" \notin cs /\ MemSizes(l.ops) \subseteq {16, 32}>> >>)
        [] f = "x87" -> First(<<
          <<"register_class", cs \subseteq {"st"} \cup (IF m = "fnstsw" THEN {"r16"} ELSE {})>>,
          <<"memory_size", MemSizes(l.ops) \subseteq {16, 32, 64, 80}>>,
          <<"immediate_operand", \A j \in 1..n : K(j) # "imm">>,
          <<"operand_form", nmem = 1 => n = 1 /\ m \notin X87Pop \cup {"fxch", "fucom", "ffree"}>>,
          <<"operand_form", n = 2 /\ nmem = 0 /\ cs = {"st"} => (IF m \in X87Pop THEN StN(l.ops[2], {0}) ELSE StN(l.ops[1], {0}) \/ StN(l.ops[2], {0}))>>,
          <<"needs_memory", m \in {"fild", "fist", "fistp", "fiadd", "fldcw", "fnstcw"} => nmem = 1>> >>)
        [] f = "simd" -> First(<<
          <<"register_class", cs \subseteq {"mm", "xmm", "r32"} /\ Cardinality(cs \cap {"mm", "xmm"}) = 1
                              /\ (m \in XmmOnly => "mm" \notin cs) /\ ("r32" \in cs => m \in {"movd", "cvtsi2sd", "pextrw", "pinsrw"})>>,
          <<"memory_size", MemSizes(l.ops) \subseteq (IF m \in DOMAIN FixedMem THEN {FixedMem[m]} ELSE IF m = "movsd" THEN {64}
                                                       ELSE IF m = "punpcklbw" /\ "mm" \in cs THEN {32} ELSE SimdSizes(l.ops))>>,
          <<"operand_form", (n = 3 => IsImm(l.ops[3])) /\ (n >= 2 => K(2) # "imm")
                            /\ (m = "movd" => Cardinality({j \in 1..n : RegIn(l.ops[j], {"mm", "xmm"})}) = 1)
                            /\ (m = "cvtsi2sd" => n = 2 /\ RegIn(l.ops[1], {"xmm"}) /\ (K(2) = "mem" \/ RegIn(l.ops[2], {"r32"})))
                            /\ (m = "pextrw" => n >= 2 /\ RegIn(l.ops[1], {"r32"}) /\ K(2) = "reg")
                            /\ (m = "pinsrw" => n >= 2 /\ RegIn(l.ops[1], {"mm", "xmm"}) /\ (K(2) = "mem" \/ RegIn(l.ops[2], {"r32"})))>> >>)
        [] OTHER -> First(<< <<"register_class", cs \subseteq (IF m \in {"jmp", "call"} THEN {"r32"} ELSE {})>>,
                             <<"memory_size", MemSizes(l.ops) \subseteq (IF m \in {"jmp", "call"} THEN {32} ELSE {})>>,
                             <<"operand_form", m \in {"jmpf", "callf"} => nmem = 1>>,
                             <<"operand_form", m \in Jcc => nmem = 0>> >>)
       \* an out-of-range immediate is the last reason: such a line is otherwise well-formed, and what C02 asks about it
       \* (the value must not be truncated) is judged per value, not as an invalid line
       why == IF general # "" THEN general ELSE IF byfam # "" THEN byfam ELSE IF ~ImmOK(m, l.ops) THEN "immediate_range" ELSE ""
   IN IF why = "" THEN "" ELSE f \o ":" \o why
Plausible(l) == PlausWhy(l) = ""
\* ---------------------------------------------------------------- state machine
Init == /\ \/ /\ ins \in {Line(m, <<>>) : m \in Mnems} /\ grow = TRUE /\ src = "core"
           \/ /\ ins \in MemSweep /\ grow = FALSE /\ src = "mem"
           \/ /\ ins \in ImmSweep /\ grow = FALSE /\ src = "imm"
           \/ /\ ins \in CcSweep /\ grow = FALSE /\ src = "cc"
           \/ /\ ins \in SegSweep /\ grow = FALSE /\ src = "seg"
        /\ plaus = PlausWhy(ins)
MaxLen(m) == IF MaxAr(m) >= 3 THEN 3 ELSE MaxAr(m) + 1
AddOperand == /\ grow /\ Len(ins.ops) < MaxLen(ins.mn)
              /\ (Len(ins.ops) >= MaxAr(ins.mn) => \A j \in 1..Len(ins.ops) : ins.ops[j] \in Lite)
              /\ \E o \in Reps(ins.mn, Len(ins.ops) + 1) : ins' = [ins EXCEPT !.ops = Append(@, o)]
              /\ plaus' = PlausWhy(ins')
              /\ UNCHANGED <<grow, src>>
Next == AddOperand
Spec == Init /\ [][Next]_vars
\* spec-internal obligations, checked by TLC on the generator: every line has a well-formed canonical layout that
\* denotes the line itself; the AT&T transliteration is evaluable for every line
OperandOK(o) == \/ o.k = "reg" /\ o.c \in RegClasses /\ o.n \in 0..7 /\ (o.c = "sreg" => o.n <= 5)
                \/ o.k = "imm" /\ IsBV(o.v, 32)
                \/ o.k = "mem" /\ IsBV(o.d, 32) /\ o.b \in -1..7 /\ o.i \in -1..7 /\ o.i # 4 /\ o.sc \in {1, 2, 4, 8}
LineOK == /\ Len(ins.ops) <= 3 /\ \A j \in 1..Len(ins.ops) : OperandOK(ins.ops[j])
          /\ Denote(Layout(ins, Pres0)) = Denoted(ins)
          /\ AttOK(ins) \in BOOLEAN
=============================================================================
