-------------------------------- MODULE Api --------------------------------
(* Generator (S->C) for C12 and the specification of a pure API.             *)
(*                                                                          *)
(* A history is a sequence of public API calls made by one process on a     *)
(* fixed set of argument objects (byte strings, text lines, shared           *)
(* instruction objects, shared expression trees, module-level registers)    *)
(* and two machines m1, m2 (plus machines that live for one call only: a     *)
(* call that creates its own machine is pure).  What a pure API may depend   *)
(* on is written down  *)
(* here once, abstractly:                                                   *)
(*   - a pure call (dis, asm, asm_att, str, lift, expr_simp) depends on     *)
(*     nothing but its arguments: its abstract key is <<c, <<>>>>;          *)
(*   - a machine call depends, in addition, on the state of the machine it  *)
(*     is given; the abstract state of a machine is the sequence of state-   *)
(*     changing calls ("write": eval_instr, emul_lines) it received so far,  *)
(*     so the abstract key is <<c, mst[m]>>;                                *)
(*   - "read" calls (eval_expr) and pure calls change no machine; a write    *)
(*     call on m changes m only;                                            *)
(*   - the parser-table cache configuration the process started with        *)
(*     (cfg) is in no key.                                                  *)
(* The implementation conforms iff the observed result is a function of the *)
(* abstract key - across all histories, processes and configurations        *)
(* (judged by T_C12.tla, which learns that function).                        *)
(* Reachable states = histories up to the depth bound; every state with a   *)
(* maximal history is one implementation run, each of its calls a probe of  *)
(* everything before it.  Beyond the exhaustive bound: tlc -simulate.       *)
EXTENDS Naturals, Sequences, FiniteSets, TLC, Json
CONSTANTS Depth,      \* bound on Len(hist) under cache configuration "valid"
          DepthCfg,   \* bound under every other cache configuration
          Configs     \* cache configurations explored, subset of AllConfigs

AllConfigs == {"valid",    \* table files written by an earlier process with the same grammars
               "empty",    \* empty cache directory
               "other",    \* each grammar's module name holds the tables of the other grammar
               "oldsig",   \* loadable tables of an older revision of the grammar (other signature)
               "oldrules"} \* tables written by the same PLY for an older revision of the grammar rules (its own signature)

(* kind: "pure" | "read" (machine passed for reading) | "write" (machine passed to be updated) *)
(* m: 0 = no machine, 1 = m1 = x86_machine(), 2 = m2 = x86_machine() + {eax,edx,ebx,w,es bound} *)
(* ex: the call is expected to end in an exception (only used to name the action)        *)
Menu == <<
  [c |-> "dis_mov",     api |-> "dis",        kind |-> "pure",  m |-> 0, ex |-> FALSE],  \* 8b4508, ModRM row with disp8
  [c |-> "dis_shl",     api |-> "dis",        kind |-> "pure",  m |-> 0, ex |-> FALSE],  \* d3e0, hands out the r_cl row
  [c |-> "dis_movs",    api |-> "dis",        kind |-> "pure",  m |-> 0, ex |-> FALSE],  \* a4, operands rebuilt in special_opcodes
  [c |-> "dis_fsm",     api |-> "dis",        kind |-> "pure",  m |-> 0, ex |-> FALSE],  \* 648b03, mov eax, fs:[ebx]: displacement-less ModRM row + segment override
  [c |-> "dis_m",       api |-> "dis",        kind |-> "pure",  m |-> 0, ex |-> FALSE],  \* 8b03, the same ModRM row, no override, 32-bit
  [c |-> "dis_m8",      api |-> "dis",        kind |-> "pure",  m |-> 0, ex |-> FALSE],  \* 8a03, the same ModRM row, 8-bit operand
  [c |-> "asm_mov",     api |-> "asm",        kind |-> "pure",  m |-> 0, ex |-> FALSE],  \* "mov eax, [ebx+4]"
  [c |-> "asm_shl",     api |-> "asm",        kind |-> "pure",  m |-> 0, ex |-> FALSE],  \* "shl eax, cl"
  [c |-> "att_mov",     api |-> "asm_att",    kind |-> "pure",  m |-> 0, ex |-> FALSE],  \* "movl 4(%ebx), %eax"
  [c |-> "asm_bad",     api |-> "asm",        kind |-> "pure",  m |-> 0, ex |-> TRUE],   \* "mov eax, [-eax]" raises in a grammar action
  [c |-> "asm_syn",     api |-> "asm",        kind |-> "pure",  m |-> 0, ex |-> TRUE],   \* "mov eax ]" raises in the parser's error hook
  [c |-> "str_shl",     api |-> "str",        kind |-> "pure",  m |-> 0, ex |-> FALSE],  \* Intel rendering of the shared instruction
  [c |-> "att_shl",     api |-> "str_att",    kind |-> "pure",  m |-> 0, ex |-> FALSE],  \* AT&T rendering of the same object
  [c |-> "lift_shl",    api |-> "lift",       kind |-> "pure",  m |-> 0, ex |-> FALSE],  \* get_instr_expr on the same object
  [c |-> "lift_popad",  api |-> "lift",       kind |-> "pure",  m |-> 0, ex |-> FALSE],  \* get_instr_expr on a shared popad (61): walks the register tables
  [c |-> "str_sse",     api |-> "str",        kind |-> "pure",  m |-> 0, ex |-> FALSE],  \* Intel rendering of a shared SSE instruction with a mandatory prefix (f3 0f 10 c1)
  [c |-> "simp_T",      api |-> "expr_simp",  kind |-> "pure",  m |-> 0, ex |-> FALSE],  \* shared tree over eax, w
  [c |-> "simp_S",      api |-> "expr_simp",  kind |-> "pure",  m |-> 0, ex |-> FALSE],  \* expr_simp(expr_simp(T))
  [c |-> "simp_C",      api |-> "expr_simp",  kind |-> "pure",  m |-> 0, ex |-> FALSE],  \* shared tree with adjacent slices of one source in a composition (slice fusion)
  [c |-> "eval_C_m2",   api |-> "eval_expr",  kind |-> "read",  m |-> 2, ex |-> FALSE],  \* the same tree evaluated on m2
  [c |-> "simp_C2",     api |-> "expr_simp",  kind |-> "pure",  m |-> 0, ex |-> FALSE],  \* shared concatenation whose constant part has bits above its slot (0x1FF in 8 bits)
  [c |-> "eval_w_m1",   api |-> "eval_expr",  kind |-> "read",  m |-> 1, ex |-> FALSE],  \* identifier absent from the state
  [c |-> "eval_w_m2",   api |-> "eval_expr",  kind |-> "read",  m |-> 2, ex |-> FALSE],  \* same identifier, bound to 7
  [c |-> "eval_es_m1",  api |-> "eval_expr",  kind |-> "read",  m |-> 1, ex |-> FALSE],  \* segment register, absent from m1 until emul_sete_m1
  [c |-> "eval_es_m2",  api |-> "eval_expr",  kind |-> "read",  m |-> 2, ex |-> FALSE],  \* segment register bound to 0x23 in m2
  [c |-> "eval_T_m2",   api |-> "eval_expr",  kind |-> "read",  m |-> 2, ex |-> FALSE],  \* shared tree on m2
  [c |-> "eval_mem_m1", api |-> "eval_expr",  kind |-> "read",  m |-> 1, ex |-> FALSE],  \* @32[esp+4]
  [c |-> "eval_abs_m1", api |-> "eval_expr",  kind |-> "read",  m |-> 1, ex |-> FALSE],  \* @32[0x2000]: an address that is already evaluated; m1 has no such cell
  [c |-> "eval_abs_m2", api |-> "eval_expr",  kind |-> "read",  m |-> 2, ex |-> FALSE],  \* the same object on m2, where the cell holds 7
  [c |-> "new_machine", api |-> "x86_machine", kind |-> "pure", m |-> 0, ex |-> FALSE],  \* builds another machine from the shared initial-register table
  [c |-> "tmp_eval_w",  api |-> "eval_expr",  kind |-> "pure",  m |-> 0, ex |-> FALSE],  \* a machine that lives for this call only (w absent): created, eval_expr(w), released
  [c |-> "tmp_eval_w7", api |-> "eval_expr",  kind |-> "pure",  m |-> 0, ex |-> FALSE],  \* another short-lived machine, w bound to 7: eval_expr(w + 1)
  [c |-> "evi_add_m1",  api |-> "eval_instr", kind |-> "write", m |-> 1, ex |-> FALSE],  \* eval_instr(lift(add eax, 1))
  [c |-> "evi_L_m1",    api |-> "eval_instr", kind |-> "write", m |-> 1, ex |-> FALSE],  \* eval_instr of the SHARED lifted list L (add eax, 1) on m1
  [c |-> "evi_L_m2",    api |-> "eval_instr", kind |-> "write", m |-> 2, ex |-> FALSE],  \* the same list on m2 (eax = 7: the flags are decided)
  [c |-> "emul_pp_m1",  api |-> "emul_lines", kind |-> "write", m |-> 1, ex |-> FALSE],  \* push eax; pop ebx
  [c |-> "emul_es_m1",  api |-> "emul_lines", kind |-> "write", m |-> 1, ex |-> FALSE],  \* mov eax, es (es absent from m1)
  [c |-> "emul_sete_m1", api |-> "emul_lines", kind |-> "write", m |-> 1, ex |-> FALSE], \* mov es, ebx (binds es in m1)
  [c |-> "emul_rep67_m2", api |-> "emul_lines", kind |-> "write", m |-> 2, ex |-> FALSE], \* 67 f3 aa (rep stosb, 16-bit address size) with ecx bound to the shared constant K
  [c |-> "emul_rep3_m2", api |-> "emul_lines", kind |-> "write", m |-> 2, ex |-> FALSE], \* mov ecx, 3 ; rep stosb: three iterations (the time-stamp counter of m2 is the shared constant K2)
  [c |-> "emul_div_m2", api |-> "emul_lines", kind |-> "write", m |-> 2, ex |-> TRUE]    \* div ebx with ebx = 0: raises inside eval_instr
>>
N == Len(Menu)
Machines == {1, 2}
(* calls outside the exhaustive menu: used by the replay of Caches.tla behaviours and by replays *)
Extra == <<
  [c |-> "eval_eax_m2", api |-> "eval_expr",  kind |-> "read",  m |-> 2, ex |-> FALSE],  \* module-level register, bound
  [c |-> "dis_in",      api |-> "dis",        kind |-> "pure",  m |-> 0, ex |-> FALSE],  \* ec, hands out the r_dx row
  [c |-> "asm_in",      api |-> "asm",        kind |-> "pure",  m |-> 0, ex |-> FALSE],  \* "in al, dx"
  [c |-> "simp_U",      api |-> "expr_simp",  kind |-> "pure",  m |-> 0, ex |-> FALSE],  \* U = w + 1
  [c |-> "simp_w",      api |-> "expr_simp",  kind |-> "pure",  m |-> 0, ex |-> FALSE],
  [c |-> "eval_U_m1",   api |-> "eval_expr",  kind |-> "read",  m |-> 1, ex |-> FALSE],
  [c |-> "eval_U_m2",   api |-> "eval_expr",  kind |-> "read",  m |-> 2, ex |-> FALSE],
  [c |-> "evi_setw_m1", api |-> "eval_instr", kind |-> "write", m |-> 1, ex |-> FALSE]   \* eval_instr([w = 7]): binds w in m1
>>
AllCalls == Menu \o Extra
(* the argument objects ("fixtures") whose structure is fingerprinted after every call, in record order:  *)
(* literals (byte strings, text lines), the shared instruction objects, the shared identifier w, the      *)
(* shared trees T, U, Q, the program counter constant, the module-level register expressions of ia32_sem, *)
(* and the one piece of interpreter-wide state every later import of the client depends on: sys.path      *)
Fixtures == <<"lit", "I_shl", "I_add", "I_push", "I_pop", "I_moves", "I_sete", "I_div", "I_sse", "I_rep67", "I_popad", "I_movecx3", "I_rep", "K", "K2", "w", "T", "U", "Q", "Q2", "C", "C2", "L", "pc", "regs", "sys.path">>
ASSUME PrintT("MENU " \o ToJson([calls |-> AllCalls, n |-> N, fixtures |-> Fixtures]))

VARIABLES cfg,    \* cache configuration of the process that runs the history
          hist,   \* sequence of menu indices
          mst,    \* machine |-> sequence of write calls (menu indices) it received
          keys    \* per position: abstract key <<call index, abstract machine state before the call>>
vars == <<cfg, hist, mst, keys>>

Bound == IF cfg = "valid" THEN Depth ELSE DepthCfg

\* a process starts: fresh interpreter after import, cache directory in configuration c
NewProcess(c) == cfg = c /\ hist = <<>> /\ mst = [m \in Machines |-> <<>>] /\ keys = <<>>
Init == \E c \in Configs : NewProcess(c)

Step(i, key) == /\ Len(hist) < Bound
                /\ hist' = Append(hist, i)
                /\ keys' = Append(keys, key)
                /\ UNCHANGED cfg
PureCall(i)     == Menu[i].kind = "pure" /\ ~Menu[i].ex /\ Step(i, <<i, <<>>>>) /\ UNCHANGED mst
RaisingCall(i)  == Menu[i].kind = "pure" /\ Menu[i].ex  /\ Step(i, <<i, <<>>>>) /\ UNCHANGED mst
ReadCall(i)     == Menu[i].kind = "read" /\ Step(i, <<i, mst[Menu[i].m]>>) /\ UNCHANGED mst
MachineCall(i)  == /\ Menu[i].kind = "write" /\ ~Menu[i].ex /\ Step(i, <<i, mst[Menu[i].m]>>)
                   /\ mst' = [mst EXCEPT ![Menu[i].m] = Append(@, i)]
\* a write call that raises may have changed its machine half-way: it still counts as a state change of m
RaisingMachineCall(i) == /\ Menu[i].kind = "write" /\ Menu[i].ex /\ Step(i, <<i, mst[Menu[i].m]>>)
                         /\ mst' = [mst EXCEPT ![Menu[i].m] = Append(@, i)]
Next == \E i \in 1..N : PureCall(i) \/ RaisingCall(i) \/ ReadCall(i) \/ MachineCall(i) \/ RaisingMachineCall(i)
Spec == Init /\ [][Next]_vars

TypeOK == /\ cfg \in AllConfigs /\ Len(hist) <= Bound /\ Len(keys) = Len(hist)
          /\ \A k \in 1..Len(hist) : keys[k][1] = hist[k]
\* the abstract state of a machine is exactly the write calls on it, in order (specification sanity)
MstOK == \A m \in Machines :
            mst[m] = SelectSeq(hist, LAMBDA i : Menu[i].kind = "write" /\ Menu[i].m = m)
MenuOK == /\ \A i \in 1..N : Menu[i].kind \in {"pure", "read", "write"} /\ (Menu[i].kind = "pure") = (Menu[i].m = 0)
          /\ Cardinality({Menu[i].c : i \in 1..N}) = N
=============================================================================
