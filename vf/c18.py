"""C18 - PowerPC words decode unambiguously and re-encode to themselves.
S->C: PPCSpace.tla (TLC) enumerates the words (64 primary x 1024 extended opcodes x field boundary values,
immediates, all BO/BI, all SPR numbers, seeded pseudo-random words); miasmX's ppc_arch decodes / re-encodes /
renders / re-assembles each word; C->S: T_C18.tla judges every observation against the opcode map PPC.tla
(written from the architecture) and names the failing clause."""
import os, sys, io, json, hashlib, re, random, collections, traceback, multiprocessing, contextlib
from . import core

AGAIN = 1 << 28      # id offset of a differing second observation of the same word
TIERS = {'quick': dict(pats=1, nrnd=20000), 'thorough': dict(pats=9, nrnd=50000)}


# --------------------------------------------------------------------------
# generator (cached: the dump does not depend on /repo)
def gen_cfg(tier, seed):
    t = TIERS[tier]
    return ('CONSTANTS\n Tier = "%s"\n Seed = %d\n PatsPerCell = %d\n NRnd = %d\n'
            'INIT Init\nNEXT Next\nINVARIANT TypeOK\nCHECK_DEADLOCK FALSE\n' % (tier, seed % 100000, t['pats'], t['nrnd']))


_ST = re.compile(r'/\\ m = "(\w+)"\n/\\ w = <<(\d+), (\d+)>>\n/\\ st = 1')


def gen_words(tier, chk):
    cfg = gen_cfg(tier, chk.seed)
    h = hashlib.sha1()
    for f in ('PPC.tla', 'PPCSpace.tla'):
        h.update(open(os.path.join(core.SPEC, f), 'rb').read())
    h.update(cfg.encode())
    cdir = os.path.join(core.VERIF, '.cache')
    os.makedirs(cdir, exist_ok=True)
    cf = os.path.join(cdir, 'ppcspace_%s.json' % h.hexdigest()[:16])
    if os.path.exists(cf):
        d = json.load(open(cf))
    else:
        dump = os.path.join(core.scratch(), 'ppcspace.dump')
        r = core.run_tlc('PPCSpace', cfg_text=cfg, extra=['-dump', dump], timeout=900)
        if not r.ok:
            raise core.MachineryError('PPCSpace failed:\n' + r.out[-2000:])
        txt = open(dump).read()
        os.unlink(dump)
        words = [[m, int(a), int(b)] for m, a, b in _ST.findall(txt)]
        nst1 = txt.count('/\\ st = 1')
        if len(words) != nst1 or not words:
            raise core.MachineryError('PPCSpace dump: parsed %d of %d word states' % (len(words), nst1))
        words.sort()
        d = {'words': words, 'states': r.distinct, 'transitions': r.generated}
        tmp = cf + '.%d' % os.getpid()
        json.dump(d, open(tmp, 'w'))
        os.rename(tmp, cf)
    chk.add_tlc({'states': d['states'], 'transitions': d['transitions']})
    return d['words']


# --------------------------------------------------------------------------
# projection of miasmX's behaviour on one word (trusted, small)
_OWNER = {}


def _owners(P):
    """code object -> 'class.function' for every function defined in a class of ppc_arch"""
    if not _OWNER:
        for name, obj in vars(P).items():
            if isinstance(obj, type):
                for fn, f in vars(obj).items():
                    f = getattr(f, '__func__', f)
                    co = getattr(f, '__code__', None)
                    if co is not None:
                        _OWNER.setdefault(co, '%s.%s' % (name, fn))
    return _OWNER


def exc_key(e, P):
    """exception type @ innermost miasmx function (with its defining class) | normalised source line"""
    tb = e.__traceback__
    fr = None
    while tb is not None:
        if 'miasmx' in tb.tb_frame.f_code.co_filename:
            fr = tb
        tb = tb.tb_next
    if fr is None:
        return '%s@(outside miasmx)' % type(e).__name__
    co = fr.tb_frame.f_code
    import linecache
    line = linecache.getline(co.co_filename, fr.tb_lineno)
    return '%s@%s|%s' % (type(e).__name__, _owners(P).get(co, co.co_name), ' '.join(line.split()))


def halves(v):
    return [(v >> 16) & 0xffff, v & 0xffff]


def observe_word(P, wid, hi, lo, sink):
    import struct
    w = (hi << 16) | lo
    r = {'id': wid, 'w': [hi, lo], 'ncl': 0, 'cls': '', 'dec': 0, 'decx': '', 'mn': '', 'bin': [-1, -1], 'binx': '',
         'str': 0, 'strx': '', 'asm': -1, 'asmx': '', 'asmw': [-1, -1], 'text': '', 'dcls': ''}
    cl = [c for c in P.tab_mn if c.check(w)]
    r['ncl'] = len(cl)
    r['cls'] = '+'.join(c.__name__ for c in cl)
    # the decoder itself is asked about EVERY word (not only about the words exactly one class claims): what it returns for a
    # word that no class - or another class - claims is held to the same clauses
    try:
        with contextlib.redirect_stdout(sink):
            i = P.ppc_mn(w)
        r['dec'] = 1
        r['dcls'] = type(i).__name__
    except Exception as e:
        r['decx'] = exc_key(e, P)
        return r
    try:
        b = i.bin()
        if isinstance(b, int) and 0 <= b < (1 << 32):
            r['bin'] = halves(b)
        else:
            r['binx'] = 'not a 32-bit integer'
    except Exception as e:
        r['binx'] = exc_key(e, P)
    try:
        with contextlib.redirect_stdout(sink):
            s = str(i)
        r['str'] = 1
        r['text'] = s
        r['mn'] = s.split(' ')[0].lower()
    except Exception as e:
        r['strx'] = exc_key(e, P)
        return r
    try:
        with contextlib.redirect_stdout(sink):
            out = P.ppc_mn.asm(s)
        if isinstance(out, list) and len(out) == 1 and isinstance(out[0], bytes) and len(out[0]) == 4:
            r['asm'] = 1
            r['asmw'] = halves(struct.unpack('>L', out[0])[0])
        else:
            r['asm'] = 0
            r['asmx'] = 'result is not one 4-byte string'
    except Exception as e:
        r['asm'] = 0
        r['asmx'] = exc_key(e, P)
    return r


def _work(chunk):
    sys.path.insert(0, core.REPO)
    from miasmx.arch import ppc_arch as P
    sink = io.StringIO()
    out = []
    for wid, hi, lo in chunk:
        out.append(observe_word(P, wid, hi, lo, sink))
        if sink.tell() > 1 << 20:
            sink.seek(0)
            sink.truncate()
    # second pass over the same words in the same process, last word first: every word is now asked after its neighbours
    # (same opcode, other field values) were decoded.  A second observation that differs from the first is a record of
    # its own (id + AGAIN) and is judged like any other.
    first = {r['id']: r for r in out}
    for wid, hi, lo in reversed(chunk):
        r2 = observe_word(P, wid, hi, lo, sink)
        if r2 != first[wid]:
            r2['id'] = wid + AGAIN
            out.append(r2)
        if sink.tell() > 1 << 20:
            sink.seek(0)
            sink.truncate()
    return out


def observe(items):
    """items: list of (id, hi, lo) -> records, in parallel"""
    if len(items) < 2000:
        return _work(items)
    n = core.NCPU
    size = max(500, len(items) // (n * 8))
    chunks = [items[k:k + size] for k in range(0, len(items), size)]
    ctx = multiprocessing.get_context('fork')
    with ctx.Pool(n) as pool:
        res = pool.map(_work, chunks)
    return [r for c in res for r in c]


def strip(rec):
    """the judge does not need the rendered text"""
    return {k: v for k, v in rec.items() if k != 'text'}


# --------------------------------------------------------------------------
_BR = re.compile(r'^(blr|bctr|b)(dnz|dz|ge|le|ne|ns|lt|gt|eq|so|c)?(.*)$')


def report(chk, recs, verdicts, info):
    byid = {r['id']: r for r in recs}
    for v in verdicts:
        rec = byid[v['id']]
        for f in v['v']:
            cl = f['clause']
            if cl.startswith('info.'):
                info[cl][f['base']] += 1
                continue
            if cl == 'C18.machinery':
                raise core.MachineryError('judge rejected the record format: %r %r' % (f, rec))
            got = f['got']
            if '@' in got and not got.startswith('diff:'):
                key = {'clause': cl, 'cls': rec['cls'], 'exc': got}   # crash: (type, innermost function, source line)
            elif cl == 'C18.mnemonic':
                shown = got if f['base'].endswith('.') else got.rstrip('.')      # the Rc dot is not part of the class
                if f['base'] in ('b', 'bc', 'bclr', 'bcctr'):
                    shown = _BR.sub(lambda m: m.group(1) + '<c>' + m.group(3), got)
                key = {'clause': cl, 'cls': rec['cls'], 'mn': f['base'], 'shown': shown}
            elif cl == 'C18.undefined':
                key = {'clause': cl, 'cls': rec['cls'], 'shown': got}
            else:
                key = {'clause': cl, 'cls': rec['cls'], 'how': got}      # class + differing architectural field
            chk.violation(key, {'word': '%04X%04X' % tuple(rec['w']), 'w': rec['w'], 'observed': rec,
                                'architecture': {'mnemonic': f['base'], 'expected': f['exp']}, 'failing': f})


def run(tier, chk):
    rnd = random.Random(chk.seed)
    negative_control(chk)
    words = gen_words(tier, chk)
    items = [(k, hi, lo) for k, (m, hi, lo) in enumerate(words)]
    recs = observe(items)
    if sum(1 for r in recs if r['id'] < AGAIN) != len(items):
        raise core.MachineryError('observed %d of %d words' % (len(recs), len(items)))
    chk.cov['second_observations_that_differ'] = sum(1 for r in recs if r['id'] >= AGAIN)
    modes = collections.Counter(m for m, _, _ in words)
    decoded = [r for r in recs if r['dec'] == 1]
    for r in decoded[:: max(1, len(decoded) // 6)][:6]:
        chk.sample({'word': '%04X%04X' % tuple(r['w']), 'class': r['cls'], 'text': r['text'], 'bin': r['bin'], 'asm': r['asmx'] or r['asmw']})
    jrecs = [strip(r) for r in recs]
    rnd.shuffle(jrecs)
    verdicts, st = core.judge('T_C18', jrecs, timeout=1500)
    chk.add_tlc(st)
    info = collections.defaultdict(collections.Counter)
    report(chk, recs, verdicts, info)
    chk.cov['traces_validated_against_impl'] = len(recs)
    chk.cov['evaluations'] = len(recs)
    chk.cov['distinct_nontrivial'] = len(decoded)
    chk.cov['rule'] = ('words = reachable states of PPCSpace.tla; non-trivial = words claimed by exactly one class and decoded '
                       '(bin/str/asm observed)')
    chk.cov['words_by_mode'] = dict(modes)
    chk.cov['claimed_by_none'] = sum(1 for r in recs if r['ncl'] == 0)
    chk.cov['claimed_by_many'] = sum(1 for r in recs if r['ncl'] > 1)
    chk.cov['classes_exercised'] = len(set(r['cls'] for r in decoded))
    chk.cov['mnemonics_shown'] = len(set(r['mn'] for r in decoded if r['mn']))
    chk.cov['architected_but_not_decoded'] = {k: n for k, n in sorted(info['info.not_decoded'].items())}
    chk.cov['decoded_with_reserved_bits_set'] = {k: n for k, n in sorted(info['info.invalid_form'].items())}
    chk.cov['exhaustive'] = False
    chk.assumptions += ['operand spelling (register names, immediates) is judged only through the asm(str(x)) = x fixpoint',
                        'words with non-zero reserved fields that miasmX decodes are held to the same clauses (counted in '
                        'decoded_with_reserved_bits_set); architected instructions miasmX does not decode are counted, not violations',
                        'opcode map = 32-bit PowerPC (UISA/VEA/OEA) + extsw, tlbld, tlbli; POWER-only and 64-bit-only opcodes are unassigned']


# --------------------------------------------------------------------------
NC_WORDS = [(0x7C0A, 0x5214), (0x7C0A, 0x5214), (0x7C0A, 0x5214), (0x7C0A, 0x5214), (0x3860, 0x0000), (0x3860, 0x0000)]


def negative_control(chk):
    """corrupt one recorded field per twin and require T_C18 to reject exactly that clause on exactly that record"""
    recs = [strip(r) for r in observe([(k, hi, lo) for k, (hi, lo) in enumerate(NC_WORDS)]) if r['id'] < AGAIN]
    if recs[0]['dec'] != 1 or recs[4]['dec'] != 1:
        raise core.MachineryError('negative control: add r0,r10,r10 / li r3,0 do not decode at all: %r' % (recs[0],))
    recs[1]['bin'] = [recs[1]['bin'][0], recs[1]['bin'][1] ^ 2]          # wrong re-encoding
    recs[2]['mn'] = 'addc'                                               # wrong mnemonic
    recs[3]['ncl'], recs[3]['cls'] = 2, recs[3]['cls'] + '+ppc_bogus'    # a second claimant
    recs[5]['mn'] = 'lis'                                                # wrong simplified mnemonic
    verdicts, st = core.judge('T_C18', recs, shards=1)
    got = {}
    for v in verdicts:
        got[v['id']] = set(f['clause'] for f in v['v'] if not f['clause'].startswith('info.'))
    base0, base4 = got.get(0, set()), got.get(4, set())
    extra = {k: sorted(got.get(k, set()) - (base0 if k < 4 else base4)) for k in (1, 2, 3, 5)}
    want = {1: ['C18.bin'], 2: ['C18.mnemonic'], 3: ['C18.unique'], 5: ['C18.mnemonic']}
    # record 3 is "not decoded" for the judge (two claimants): its decoded-only clauses disappear, unique appears
    ok = extra == want and not (base0 & {'C18.bin', 'C18.mnemonic', 'C18.unique', 'C18.undefined'}) \
        and not (base4 & {'C18.bin', 'C18.mnemonic', 'C18.unique', 'C18.undefined'})
    chk.cov['negative_controls'].append({'name': 'corrupted bin / mnemonic / claimant count rejected with exactly that clause; intact twins accepted',
                                         'ok': ok, 'got': {str(k): v for k, v in extra.items()}})
    if not ok:
        raise core.MachineryError('C18 negative control failed: %r (twins: %r %r)' % (extra, sorted(base0), sorted(base4)))


def replay(path, chk):
    rp = json.load(open(path))
    hi, lo = rp['detail']['w']
    recs = observe([(0, hi, lo)])
    verdicts, st = core.judge('T_C18', [strip(r) for r in recs], shards=1)
    chk.add_tlc(st)
    chk.cov['traces_validated_against_impl'] = 1
    chk.cov['evaluations'] = 1
    chk.sample({'word': '%04X%04X' % (hi, lo), 'observed': recs[0]})
    want = rp['detail']['failing']
    for v in verdicts:
        for f in v['v']:
            if f['clause'] == want['clause'] and (f['got'] == want['got'] or want['clause'] == 'C18.mnemonic'):
                print('replay: clause %s still fails on %04X%04X: %s' % (want['clause'], hi, lo, json.dumps(f)))
                chk.violation(rp['class'], rp['detail'])
    return chk.finish()
