------------------------------ MODULE PPCSelf ------------------------------
(* Spec-internal obligations of PPC.tla, checked by TLC (setup.sh):          *)
(*  Func     the opcode map is a function: no (primary, 10-bit extended)     *)
(*           pair is claimed by two rows; a primary opcode is either a       *)
(*           complete instruction or has an extended-opcode table, not both; *)
(*           A-form rows never collide with X-form rows of the same primary; *)
(*  Total    Decode is defined on every (primary, extended) cell and says ok *)
(*           exactly where a row claims the cell;                            *)
(*  Fields   field extraction inverts MkWord;                                *)
(*  Calib    well-known encodings (ABI prologue/epilogue idioms, the         *)
(*           architecture book's examples) decode as published.              *)
EXTENDS PPC
VARIABLES vp, vx
Init == vp \in 0..63 /\ vx \in 0..1023
Next == UNCHANGED <<vp, vx>>
Claimants(pp, xx) == {i \in 1..Len(ExtSeq) : ExtSeq[i].p = pp /\ ClaimsX(ExtSeq[i], xx)}
PrimAt(pp) == {i \in 1..Len(PrimSeq) : PrimSeq[i].p = pp}
Func == /\ (vp \in ExtPrims => Cardinality(Claimants(vp, vx)) <= 1)
        /\ Cardinality(PrimAt(vp)) <= 1
        /\ (vp \in ExtPrims => PrimAt(vp) = {})
        /\ (vp \notin ExtPrims => {i \in 1..Len(ExtSeq) : ExtSeq[i].p = vp} = {})
Total == \A b \in {0, 1} :
           LET w == MkWord(vp, 0, 0, 0, vx, b)
               d == Decode(w)
               claimed == IF vp \in ExtPrims THEN Claimants(vp, vx) # {} ELSE PrimAt(vp) # {}
           IN /\ IsWord(w)
              /\ d.ok = (claimed /\ (vp = 17 => B30(w) = 1))
              /\ (d.ok => d.mn # "" /\ d.mn \in Shown(d, w) \cup {d.base \o "l", d.base \o "la", d.base \o "a", d.base})
              /\ (~d.ok => ~d.valid)
FieldsInv == \A f \in {0, 1, 21, 31} : \A b \in {0, 1} :
            LET w == MkWord(vp, f, 31 - f, (f * 7) % 32, vx, b) IN
            /\ Prim(w) = vp /\ F1(w) = f /\ F2(w) = 31 - f /\ F3(w) = (f * 7) % 32 /\ XO10(w) = vx /\ B31(w) = b
            /\ XO9(w) = vx % 512 /\ B21(w) = vx \div 512 /\ XO5(w) = vx % 32 /\ F4(w) = vx \div 32 /\ B30(w) = vx % 2
Inv == Func /\ Total /\ FieldsInv

\* one mnemonic = one row; sizes as counted in appendix A of the 32-bit PEM (plus the 3 extra rows)
AllSeq == ExtSeq \o PrimSeq
ASSUME \A i, j \in 1..Len(AllSeq) : AllSeq[i].mn = AllSeq[j].mn => i = j
ASSUME \A k \in 1..Len(AllSeq) : LET r == AllSeq[k] IN r.p \in 0..63 /\ r.x \in 0..1023 /\ (r.f = "A" => r.x < 32) /\ (r.f = "XO" => r.x < 512)
ASSUME \A k \in 1..Len(AllSeq) : LET r == AllSeq[k] IN r.b31 \in {"z", "r", "l", "1", "-"} /\ r.oe \in {0, 1} /\ (r.oe = 1 => r.f = "XO")
ASSUME Len(PrimRows) = 45 /\ Len(Rows19) = 13 /\ Len(Rows31XO) = 16
ASSUME Len(Rows59A) = 10 /\ Len(Rows63A) = 11 /\ Len(Rows63X) = 15 /\ Len(Rows31X) = 80

D(hi, lo) == Decode(<<hi, lo>>)
Is(hi, lo, mn, form) == D(hi, lo).ok /\ D(hi, lo).valid /\ D(hi, lo).mn = mn /\ D(hi, lo).form = form
ASSUME Is(31754, 21012, "add", "XO")          \* 7C0A5214 add r0,r10,r10
ASSUME Is(31754, 22037, "addo.", "XO")        \* 7C0A5615 addo. r0,r10,r10
ASSUME Is(20096, 32, "bclr", "XL")            \* 4E800020 blr
ASSUME "blr" \in Shown(D(20096, 32), <<20096, 32>>) /\ "blrl" \in Shown(D(20096, 33), <<20096, 33>>)
ASSUME Is(20096, 1056, "bcctr", "XL")         \* 4E800420 bctr
ASSUME Is(24576, 0, "ori", "D")               \* 60000000 nop = ori 0,0,0
ASSUME Is(14432, 0, "addi", "D") /\ "li" \in Shown(D(14432, 0), <<14432, 0>>)   \* 38600000 li r3,0
ASSUME Is(17408, 2, "sc", "SC")               \* 44000002 sc
ASSUME ~D(17408, 0).ok
ASSUME Is(31752, 678, "mfspr", "XFX")         \* 7C0802A6 mflr r0 = mfspr r0,8
ASSUME D(31752, 678).fields = <<<<"rt", 0>>, <<"spr", 8>>>>
ASSUME Is(31752, 934, "mtspr", "XFX")         \* 7C0803A6 mtlr r0
ASSUME Is(31753, 934, "mtspr", "XFX") /\ D(31753, 934).fields[2] = <<"spr", 9>>   \* 7C0903A6 mtctr r0
ASSUME Is(19456, 300, "isync", "XL")          \* 4C00012C isync
ASSUME Is(31744, 1196, "sync", "X")           \* 7C0004AC sync
ASSUME Is(31744, 1708, "eieio", "X")          \* 7C0006AC eieio
ASSUME Is(37921, 65520, "stwu", "D")          \* 9421FFF0 stwu r1,-16(r1)
ASSUME Is(18432, 1, "b", "I") /\ Shown(D(18432, 1), <<18432, 1>>) = {"bl"}      \* 48000001 bl .
ASSUME Shown(D(18432, 3), <<18432, 3>>) = {"bla"}
ASSUME Is(64512, 42, "fadd", "A")             \* FC00002A fadd f0,f0,f0
ASSUME Is(60416, 43, "fadds.", "A")           \* EC00002B fadds. f0,f0,f0
ASSUME Is(64512, 144, "fmr", "X")             \* FC000090 fmr f0,f0
ASSUME Is(31843, 6676, "add", "XO") /\ D(31843, 6676).fields = <<<<"f1", 3>>, <<"f2", 3>>, <<"f3", 3>>>>   \* 7C631A14 add r3,r3,r3
ASSUME Is(31840, 166, "mfmsr", "X") /\ Is(31840, 292, "mtmsr", "X") /\ Is(19456, 100, "rfi", "XL")   \* 7C6000A6, 7C600124, 4C000064
ASSUME Is(16770, 65532, "bc", "B")            \* 4182FFFC beq -4
ASSUME "beq" \in Shown(D(16770, 65532), <<16770, 65532>>) /\ "bt" \in Shown(D(16770, 65532), <<16770, 65532>>)
ASSUME "bdnz" \in Shown(D(16896, 8), <<16896, 8>>)                              \* 42000008 bdnz +8
ASSUME "bne" \in Shown(D(16514, 8), <<16514, 8>>)                               \* 40820008 bne +8
ASSUME "bgelr" \in Shown(D(19584, 32), <<19584, 32>>)                           \* 4C800020 bgelr
ASSUME Is(21610, 1342, "rlwinm", "M")         \* 546A053E clrlwi r10,r3,20 = rlwinm r10,r3,0,20,31
ASSUME Is(31747, 8192, "cmp", "X")            \* 7C032000 cmpw r3,r4
ASSUME D(31779, 8192).ok /\ ~D(31779, 8192).valid                               \* 7C232000 cmp with L = 1: invalid on 32-bit
ASSUME Is(31748, 6700, "dcbt", "X")           \* 7C041A2C dcbt r4,r3
ASSUME D(31844, 6700).ok /\ D(31844, 6700).base = "dcbt" /\ ~D(31844, 6700).valid  \* 7C641A2C: dcbt with reserved bits 6-10 set
ASSUME ~D(31744, 1024 + 22).ok                \* 31/523 (mulhwu with bit 21 set) is unassigned
ASSUME D(31744, 2 * (40 + 512)).mn = "subfo"  \* 31/552 = subf with OE
ASSUME ~D(0, 0).ok /\ ~D(64512, 2).ok /\ D(65535, 65534).base = "fnmadd"   \* primary 0 is reserved (illegal); 63/1 unassigned; 63/1023 is A-form 31
=============================================================================
