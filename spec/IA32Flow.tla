------------------------------ MODULE IA32Flow ------------------------------
(* Control-flow class of an IA-32 instruction and branch-target arithmetic on limbs (SDM vol. 2: JMP, Jcc, *)
(* LOOPcc, JECXZ, CALL, RET, IRET, HLT, UD, INT n).                                                        *)
EXTENDS IA32Decode
JccNames == UNION { s : s \in CCSyn }
FlowClass(mn) ==
   CASE mn \in {"jmp", "jmpf"} -> "jmp"
     [] mn \in JccNames /\ mn \notin {"jmp"} /\ (\E s \in CCSyn : mn \in s /\ \E x \in s : x \in {"jo","jno","jb","jae","je","jne","jbe","ja","js","jns","jp","jnp","jl","jge","jle","jg"}) -> "jcc"
     [] mn \in {"loop", "loope", "loopne", "loopz", "loopnz", "jecxz", "jcxz"} -> "jcc"
     [] mn \in {"call", "callf"} -> "call"
     [] mn \in {"ret", "retn", "retf", "iret", "iretd"} -> "ret"
     [] mn = "hlt" -> "halt"
     [] mn \in {"ud2", "ud1", "ud0"} -> "undef"
     [] mn \in {"syscall", "sysenter", "sysexit", "sysret"} -> "sys"           \* excluded by the property
     [] OTHER -> "seq"
\* [bk: ends a basic block, sp: has a fall-through successor (when block-ending), dt: has a destination]
FlowFlags(c) == CASE c \in {"jmp"}         -> [bk |-> TRUE,  sp |-> FALSE, dt |-> TRUE]
                  [] c \in {"jcc", "call"}  -> [bk |-> TRUE,  sp |-> TRUE,  dt |-> TRUE]
                  [] c \in {"ret", "halt", "undef"} -> [bk |-> TRUE, sp |-> FALSE, dt |-> FALSE]
                  [] OTHER                  -> [bk |-> FALSE, sp |-> FALSE, dt |-> FALSE]
\* little-endian limb arithmetic, n result limbs (missing limbs read as 0)
RECURSIVE AddLR(_,_,_,_,_)
AddLR(a, b, i, c, n) == IF i > n THEN <<>> ELSE
   LET s == LimbAt(a, i) + LimbAt(b, i) + c IN <<s % 256>> \o AddLR(a, b, i + 1, s \div 256, n)
AddL(a, b, n) == AddLR(a, b, 1, 0, n)
SmallL(k, n) == [i \in 1..n |-> IF i = 1 THEN k % 256 ELSE IF i = 2 THEN k \div 256 ELSE 0]
\* fall-through address: offset + len, exactly (5 limbs: may exceed 2^32 at the top of the address space)
NextAddr(off, len) == AddL(off, SmallL(len, 5), 5)
\* architectural target of a direct relative branch: (offset + len + sext(disp)) mod 2^os, as 5 limbs
Target(off, len, rel, os) ==
   LET w == os \div 8
       t == AddL(AddL(off, SmallL(len, 4), 4), SExtL(rel.d, 4), 4)
   IN [i \in 1..5 |-> IF i <= w THEN t[i] ELSE 0]
=============================================================================
