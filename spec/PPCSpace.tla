------------------------------ MODULE PPCSpace ------------------------------
(* Generator (S->C) for C18: the reachable states with st = 1 are the words  *)
(* to decode.  The space is structured by the architecture's instruction     *)
(* formats, not by the implementation's tables:                              *)
(*  "grid": 64 primary x 1024 extended opcodes (bits 21-30) x bit 31 x       *)
(*          register-field patterns F1,F2,F3 in {0,1,31} (quick: one of the  *)
(*          27 patterns per cell, rotating with the cell and the seed;       *)
(*          thorough: PatsPerCell of them);                                  *)
(*          plus the all-zero pattern for every cell (valid form of layouts  *)
(*          with reserved fields);                                           *)
(*  "def":  every row of the opcode map with an extended opcode x all 27     *)
(*          patterns x bit 31 (XO rows: both values of bit 21; A rows: FRC   *)
(*          in {0,1,31});                                                    *)
(*  "imm":  64 primary x F1,F2 in {0,1,31} x 16-bit immediates               *)
(*          {0,1,0x7fff,0x8000,0xffff} (+ 2, 0xfffe, 0x00ff, 0xff00 thorough)*)
(*  "br":   B-form: all 32 BO x all 32 BI x BD boundary values x AA x LK;    *)
(*          XL-form bclr/bcctr: all BO x BI x LK (x reserved field 0/1);     *)
(*          I-form: LI boundary values x AA x LK;                            *)
(*  "spr":  mfspr/mftb/mtspr x every 10-bit SPR field x RT in {0,31};        *)
(*  "rnd":  NRnd pseudo-random words (linear congruences of the seed).       *)
EXTENDS PPC
CONSTANTS Tier, Seed, PatsPerCell, NRnd
VARIABLES st, m, c, w
vars == <<st, m, c, w>>
V3 == <<0, 1, 31>>
Pat(k) == <<V3[(k % 3) + 1], V3[((k \div 3) % 3) + 1], V3[((k \div 9) % 3) + 1]>>
Imms == IF Tier = "quick" THEN {0, 1, 32767, 32768, 65535} ELSE {0, 1, 2, 255, 32767, 32768, 65280, 65534, 65535}
BDs == IF Tier = "quick" THEN {0, 1, 8192} ELSE {0, 1, 8191, 8192, 16383}
LIHi == {0, 511, 512, 1023}           \* LI bits 6-15
LILo == {0, 1, 16383}                 \* LI bits 16-29
Cells == {<<"grid", p, xh, 0>> : p \in 0..63, xh \in 0..7}
         \cup {<<"def", i, 0, 0>> : i \in 1..Len(ExtSeq)}
         \cup {<<"imm", p, f, 0>> : p \in 0..63, f \in 0..8}
         \cup {<<"br", 16, bo, 0>> : bo \in 0..31} \cup {<<"br", 19, bo, 0>> : bo \in 0..31} \cup {<<"br", 18, 0, 0>>}
         \cup {<<"spr", x, r, 0>> : x \in {339, 371, 467}, r \in {0, 31}}
         \cup (IF NRnd > 0 THEN {<<"rnd", k, 0, 0>> : k \in 0..((NRnd - 1) \div 100)} ELSE {})
Init == st = 0 /\ w = <<0, 0>> /\ \E cc \in Cells : m = cc[1] /\ c = <<cc[2], cc[3], cc[4]>>
Grid == /\ m = "grid"
        /\ \E xl \in 0..127, b \in {0, 1}, j \in 0..PatsPerCell :
             LET x == c[2] * 128 + xl
                 k == (c[1] * 5 + x * 7 + b * 13 + Seed + j * 4) % 27   \* stride 4 is coprime to 27: PatsPerCell distinct patterns
                 f == IF j = PatsPerCell THEN <<0, 0, 0>> ELSE Pat(k)
             IN w' = MkWord(c[1], f[1], f[2], f[3], x, b)
Def == /\ m = "def"
       /\ LET r == ExtSeq[c[1]]
              xs == IF r.f = "A" THEN {r.x, r.x + 32, r.x + 31 * 32} ELSE IF r.f = "XO" THEN {r.x, r.x + 512} ELSE {r.x}
          IN \E x \in xs, k \in 0..26, b \in {0, 1} : w' = MkWord(r.p, Pat(k)[1], Pat(k)[2], Pat(k)[3], x, b)
Imm == /\ m = "imm"
       /\ \E i \in Imms : w' = MkWordImm(c[1], V3[(c[2] % 3) + 1], V3[(c[2] \div 3) + 1], i)
Br == /\ m = "br"
      /\ \/ c[1] = 16 /\ \E bi \in 0..31, bd \in BDs, al \in 0..3 : w' = MkWordImm(16, c[2], bi, bd * 4 + al)
         \/ c[1] = 19 /\ \E bi \in 0..31, f3 \in (IF Tier = "quick" THEN {0} ELSE {0, 1}), x \in {16, 528}, lk \in {0, 1} :
                           w' = MkWord(19, c[2], bi, f3, x, lk)
         \/ c[1] = 18 /\ \E h \in LIHi, l \in LILo, al \in 0..3 : w' = <<18 * 1024 + h, l * 4 + al>>
Spr == /\ m = "spr"
       /\ \E s \in 0..1023 : w' = MkWord(31, c[2], s \div 32, s % 32, c[1], 0)
Rnd == /\ m = "rnd"
       /\ \E j \in 0..99 : LET k == c[1] * 100 + j IN
            /\ k < NRnd
            /\ w' = <<(k * 40503 + (Seed % 1000) * 7919 + 1) % 65536, (k * 30011 + (Seed % 1000) * 104729 + 12345) % 65536>>
Next == st = 0 /\ st' = 1 /\ UNCHANGED <<m, c>> /\ (Grid \/ Def \/ Imm \/ Br \/ Spr \/ Rnd)
Spec == Init /\ [][Next]_vars
TypeOK == st \in {0, 1} /\ IsWord(w)
=============================================================================
