"""Shared pieces of the IR-family checks (C05 C06 C13 C15 C16): tree generation by TLC (IRGen.tla),
valuations, parallel execution of miasmX on trees with time/memory guards."""
import os, sys, json, hashlib, random, signal, traceback, resource, multiprocessing
from . import core, expr_json as EJ
from .core import limbs

BIN8 = ["+", "-", "*", "&", "|", "^", "<<", ">>", "a>>", "<<<", ">>>", "=="]


def gen_cfg(maxnodes, ws, idsper, binops, unops, rich):
    def sset(xs):
        return '{' + ','.join('"%s"' % x for x in xs) + '}'
    return ('CONSTANTS\n MaxNodes = %d\n Ws = {%s}\n IdsPer = %d\n BinOps = %s\n UnOps = %s\n Rich = %s\n'
            'INIT Init\nNEXT Next\nINVARIANT GenOK\nCHECK_DEADLOCK FALSE\n'
            % (maxnodes, ','.join(str(w) for w in ws), idsper, sset(binops), sset(unops), 'TRUE' if rich else 'FALSE'))


def gen_trees(maxnodes, ws, idsper, binops, unops, rich, chk=None, timeout=1500):
    """Reachable one-element stacks of IRGen.tla.  The dump does not depend on /repo, so it is cached
    under /verif/.cache keyed by spec+cfg hash (regenerated when missing)."""
    cfg = gen_cfg(maxnodes, ws, idsper, binops, unops, rich)
    h = hashlib.sha1()
    for f in ('BV.tla', 'IR.tla', 'IRGen.tla'):
        h.update(open(os.path.join(core.SPEC, f), 'rb').read())
    h.update(cfg.encode())
    cdir = os.path.join(core.VERIF, '.cache')
    os.makedirs(cdir, exist_ok=True)
    cf = os.path.join(cdir, 'irgen_%s.json' % h.hexdigest()[:16])
    if os.path.exists(cf):
        d = json.load(open(cf))
    else:
        dump = os.path.join(core.scratch(), 'irgen.dump')
        r = core.run_tlc('IRGen', cfg_text=cfg, extra=['-dump', dump], timeout=timeout, heap='12g')
        if not r.ok:
            raise core.MachineryError('IRGen failed:\n' + r.out[-2000:])
        trees = [st['stack'][0] for st in core.read_dump(dump) if len(st['stack']) == 1]
        os.unlink(dump)
        d = {'trees': trees, 'states': r.distinct, 'transitions': r.generated}
        tmp = cf + '.%d' % os.getpid()
        json.dump(d, open(tmp, 'w'))
        os.rename(tmp, cf)
    if chk is not None:
        chk.add_tlc({'states': d['states'], 'transitions': d['transitions']})
    return d['trees']


def boundary(w):
    m = (1 << w) - 1
    return sorted(set(x & m for x in [0, 1, 2, m, m - 1, 1 << (w - 1), (1 << (w - 1)) - 1, 7, 8, 9, w - 1, w, w + 1, 0x80, 0xff, 0x100]))


def make_envs(idw, n, rnd):
    """n valuations of the identifiers {name: width}: boundary-biased + random; memory seed varies"""
    envs = []
    names = sorted(idw)
    for j in range(n):
        ids = {}
        for nm in names:
            w = idw[nm]
            if j == 0:
                v = 0
            elif j == 1:
                v = (1 << w) - 1
            elif j == 2:
                v = 1
            elif rnd.random() < 0.5:
                v = rnd.choice(boundary(w))
            else:
                v = rnd.getrandbits(w)
            ids[nm] = limbs(v, w)
        envs.append({'id': ids if ids else {'_': [0]}, 'seed': j * 37 + 1, 'over': []})
    return envs


class _TO(Exception):
    pass


def _alarm(*a):
    raise _TO()


def arm(seconds):
    """time limit of one guarded call: `seconds` of CPU time of this process (ITIMER_PROF: a loaded machine does not turn a
    fast call into a 'timeout' observation) with a wall-clock backstop 24 times as long"""
    signal.signal(signal.SIGPROF, _alarm)
    signal.setitimer(signal.ITIMER_PROF, seconds)
    signal.alarm(int(seconds * 24))


def disarm():
    signal.setitimer(signal.ITIMER_PROF, 0)
    signal.alarm(0)


def exc_key(x):
    """(exception type, innermost miasmx function, normalised source line)"""
    tb = traceback.extract_tb(x.__traceback__)
    fr = None
    for f in tb:
        if '/miasmx/' in f.filename or '/ply/' in f.filename:
            fr = f
    if fr is None:
        fr = tb[-1]
    k = {'exc': type(x).__name__, 'func': fr.name, 'line': ' '.join((fr.line or '').split())[:80]}
    if isinstance(x, KeyError) and x.args and isinstance(x.args[0], str):
        k['key'] = x.args[0][:40]          # the missing key (e.g. the operator name nobody evaluates)
    return k


def guarded(fn, arg, seconds=5):
    """run fn(arg) under an alarm; returns ('ok', result) | ('timeout', None) | ('exc', key)"""
    old = signal.signal(signal.SIGALRM, _alarm)
    arm(seconds)
    try:
        r = fn(arg)
        disarm()
        return 'ok', r
    except _TO:
        return 'timeout', None
    except RecursionError as x:
        disarm()
        return 'exc', {'exc': 'RecursionError', 'func': '', 'line': ''}
    except MemoryError:
        disarm()
        return 'exc', {'exc': 'MemoryError', 'func': '', 'line': ''}
    except Exception as x:
        disarm()
        return 'exc', exc_key(x)
    finally:
        disarm()
        signal.signal(signal.SIGALRM, old)


def _init_worker(limit=True):
    if limit:
        try:
            resource.setrlimit(resource.RLIMIT_AS, (4 << 30, 4 << 30))
        except Exception:
            pass
    sys.setrecursionlimit(3000)
    if core.REPO not in sys.path:
        sys.path.insert(0, core.REPO)


def pmap(fn, items, procs=core.NCPU, chunk=200):
    """parallel map in forked workers (each imports miasmX from VERIF_REPO)"""
    if len(items) < 50:
        _init_worker(False)
        return [fn(x) for x in items]
    ctx = multiprocessing.get_context('fork')
    with ctx.Pool(procs, initializer=_init_worker) as p:
        return p.map(fn, items, chunksize=chunk)
