------------------------------- MODULE X86Sem -------------------------------
(* IA-32 integer core: one-instruction step function, written from the       *)
(* "Operation" / "Flags Affected" sections of the Intel SDM vol. 2 (not from *)
(* the implementation under test).  32-bit protected mode, flat segmentation *)
(* (all segment bases 0), 32-bit address size, CPL 3.                        *)
(*                                                                           *)
(* state  s == [reg  |-> <<eax,ecx,edx,ebx,esp,ebp,esi,edi>> (4 limbs each), *)
(*              fl   |-> [cf,pf,af,zf,sf,df,of |-> 0|1],                     *)
(*              seed, over   \* byte memory: IR!InitByte(seed,0,a) overridden *)
(*              eip  |-> limbs]                                              *)
(* instruction  i == [mn, w (operand size), sw (source size of movzx/movsx), *)
(*              ops |-> <<operand...>>, cc, len, rel (direct branch target   *)
(*              as a signed offset from the START of the instruction)]       *)
(* operand  [k |-> "reg", c |-> "r8"|"r16"|"r32", n]                         *)
(*          [k |-> "imm", v (limbs, already extended to the operand size)]   *)
(*          [k |-> "mem", b, i (-1 = none), sc, d (limbs)]                   *)
(*          (every operand record carries all of k c n v b i sc d)           *)
(* Step(i, s) == [reg, fl (0 | 1 | U = architecturally undefined),           *)
(*                wr |-> << <<addr, byte>> ... >> (memory bytes written),    *)
(*                eip, taken, fault ("" | "DE" | "UD" unsupported here),     *)
(*                ur |-> registers left undefined, um |-> written memory     *)
(*                undefined]                                                 *)
EXTENDS IR

U == 2                                      \* "undefined" flag value
RegNames == <<"eax", "ecx", "edx", "ebx", "esp", "ebp", "esi", "edi">>
FlagNames == <<"cf", "pf", "af", "zf", "sf", "df", "of">>
CCs == <<"o", "no", "b", "ae", "e", "ne", "be", "a", "s", "ns", "p", "np", "l", "ge", "le", "g">>
EAX == 1  ECX == 2  EDX == 3  EBX == 4  ESP == 5  EBP == 6  ESI == 7  EDI == 8

\* ---- operands --------------------------------------------------------------
MemEnv(s) == [seed |-> s.seed, over |-> s.over]
Load(s, a, w) == LoadLE(MemEnv(s), Zero(16), a, w \div 8)
RegRead(reg, c, n) ==
   CASE c = "r32" -> reg[n + 1]
     [] c = "r16" -> <<reg[n + 1][1], reg[n + 1][2]>>
     [] c = "r8" -> IF n < 4 THEN <<reg[n + 1][1]>> ELSE <<reg[n - 3][2]>>
RegWrite(reg, c, n, v) ==
   TLCEval(CASE c = "r32" -> [reg EXCEPT ![n + 1] = v]
     [] c = "r16" -> [reg EXCEPT ![n + 1] = <<v[1], v[2], @[3], @[4]>>]
     [] c = "r8" -> IF n < 4 THEN [reg EXCEPT ![n + 1] = <<v[1], @[2], @[3], @[4]>>]
                    ELSE [reg EXCEPT ![n - 3] = <<@[1], v[1], @[3], @[4]>>])
RegIdx(op) == IF op.c = "r8" /\ op.n >= 4 THEN op.n - 3 ELSE op.n + 1
EAOf(op, reg) ==
   Add(Add(IF op.b >= 0 THEN reg[op.b + 1] ELSE Zero(32),
           IF op.i >= 0 THEN Mul(reg[op.i + 1], FromNat(op.sc, 32), 32) ELSE Zero(32), 32), Norm(op.d, 32), 32)
EA(op, s) == EAOf(op, s.reg)
Rd(op, w, s) ==
   CASE op.k = "reg" -> RegRead(s.reg, op.c, op.n)
     [] op.k = "imm" -> Norm(op.v, w)
     [] op.k = "mem" -> Load(s, EA(op, s), w)
Bytes(a, v, n) == TLCEval([j \in 1..n |-> <<Add(a, FromNat(j - 1, 32), 32), v[j]>>])
Const(n) == FromNat(n, 32)
NextEip(i, s) == Add(s.eip, Const(i.len), 32)

\* ---- result records ----------------------------------------------------------
Keep(i, s) == [reg |-> s.reg, fl |-> s.fl, wr |-> <<>>, eip |-> NextEip(i, s), taken |-> FALSE,
               fault |-> "", ur |-> {}, um |-> FALSE]
Fault(i, s, f) == [Keep(i, s) EXCEPT !.fault = f]
\* write v (width w) to a destination operand; memory addresses are computed in the pre-state
WrOp(p, op, w, v, s) ==
   IF op.k = "reg" THEN [p EXCEPT !.reg = RegWrite(p.reg, op.c, op.n, v)]
   ELSE [p EXCEPT !.wr = p.wr \o Bytes(EA(op, s), v, w \div 8)]
WrReg(p, c, n, v) == [p EXCEPT !.reg = RegWrite(p.reg, c, n, v)]
AccC(w) == IF w = 8 THEN "r8" ELSE IF w = 16 THEN "r16" ELSE "r32"

\* ---- flags ----------------------------------------------------------------------
B(p) == IF p THEN 1 ELSE 0
ZF(res) == B(IsZero(res))
Nib(v) == G(v, 1) % 16
\* flags of  a + b + cin
AddFl(fl, a, b, cin, w) ==
   LET res == Norm(AddC(a, b, 1, cin, NL(w)), w) IN
   [fl EXCEPT !.cf = CarryOut(a, b, cin, w), !.pf = Parity8(res), !.af = B(Nib(a) + Nib(b) + cin >= 16),
              !.zf = ZF(res), !.sf = Msb(res, w), !.of = B(Msb(a, w) = Msb(b, w) /\ Msb(res, w) # Msb(a, w))]
AddRes(a, b, cin, w) == Norm(AddC(a, b, 1, cin, NL(w)), w)
\* flags of  a - b - bin
SubRes(a, b, bin, w) == Norm(AddC(a, BNot(b, w), 1, 1 - bin, NL(w)), w)
SubFl(fl, a, b, bin, w) ==
   LET res == SubRes(a, b, bin, w) IN
   [fl EXCEPT !.cf = 1 - CarryOut(a, BNot(b, w), 1 - bin, w), !.pf = Parity8(res), !.af = B(Nib(a) - Nib(b) - bin < 0),
              !.zf = ZF(res), !.sf = Msb(res, w), !.of = B(Msb(a, w) # Msb(b, w) /\ Msb(res, w) # Msb(a, w))]
LogicFl(fl, res, w) ==
   [fl EXCEPT !.cf = 0, !.of = 0, !.af = U, !.pf = Parity8(res), !.zf = ZF(res), !.sf = Msb(res, w)]
AllU(fl) == [fl EXCEPT !.cf = U, !.pf = U, !.af = U, !.zf = U, !.sf = U, !.of = U]
Cond(cc, fl) ==
   CASE cc = "o" -> fl.of = 1            [] cc = "no" -> fl.of = 0
     [] cc = "b" -> fl.cf = 1            [] cc = "ae" -> fl.cf = 0
     [] cc = "e" -> fl.zf = 1            [] cc = "ne" -> fl.zf = 0
     [] cc = "be" -> fl.cf = 1 \/ fl.zf = 1   [] cc = "a" -> fl.cf = 0 /\ fl.zf = 0
     [] cc = "s" -> fl.sf = 1            [] cc = "ns" -> fl.sf = 0
     [] cc = "p" -> fl.pf = 1            [] cc = "np" -> fl.pf = 0
     [] cc = "l" -> fl.sf # fl.of        [] cc = "ge" -> fl.sf = fl.of
     [] cc = "le" -> fl.zf = 1 \/ fl.sf # fl.of   [] cc = "g" -> fl.zf = 0 /\ fl.sf = fl.of

\* ---- data movement ----------------------------------------------------------------
StepMov(i, s) ==
   LET w == i.w  d == i.ops[1]  p == Keep(i, s) IN
   CASE i.mn = "mov" -> WrOp(p, d, w, Rd(i.ops[2], w, s), s)
     [] i.mn = "movzx" -> WrOp(p, d, w, ZExt(Rd(i.ops[2], i.sw, s), w), s)
     [] i.mn = "movsx" -> WrOp(p, d, w, SExt(Rd(i.ops[2], i.sw, s), i.sw, w), s)
     [] i.mn = "xchg" -> LET a == Rd(d, w, s)  b == Rd(i.ops[2], w, s) IN
                         WrOp(WrOp(p, i.ops[2], w, a, s), d, w, b, s)      \* xchg r, r with the same register: unchanged either way
     [] i.mn = "lea" -> WrOp(p, d, w, Norm(EA(i.ops[2], s), w), s)
     [] i.mn = "bswap" -> LET a == Rd(d, 32, s) IN WrOp(p, d, 32, <<a[4], a[3], a[2], a[1]>>, s)
     [] i.mn = "xlat" ->          \* al := [ebx + zero-extended al]
          WrReg(p, "r8", 0, Load(s, Add(s.reg[EBX], ZExt(<<s.reg[EAX][1]>>, 32), 32), 8))

\* ---- stack ---------------------------------------------------------------------------
StepStack(i, s) ==
   LET w == i.w  n == w \div 8  esp == s.reg[ESP]  p == Keep(i, s) IN
   CASE i.mn = "push" ->
          LET v == Rd(i.ops[1], w, s)  e2 == Sub(esp, Const(n), 32) IN
          [p EXCEPT !.reg = RegWrite(p.reg, "r32", 4, e2), !.wr = Bytes(e2, v, n)]
     [] i.mn = "pop" ->
          LET v == Load(s, esp, w)  e2 == Add(esp, Const(n), 32)
              r2 == RegWrite(s.reg, "r32", 4, e2) IN
          IF i.ops[1].k = "reg" THEN [p EXCEPT !.reg = RegWrite(r2, i.ops[1].c, i.ops[1].n, v)]
          ELSE [p EXCEPT !.reg = r2, !.wr = Bytes(EAOf(i.ops[1], r2), v, n)]      \* address computed after the increment
     [] i.mn = "pushad" ->        \* eax ecx edx ebx (original) esp ebp esi edi
          [p EXCEPT !.reg = RegWrite(p.reg, "r32", 4, Sub(esp, Const(8 * n), 32)),
                    !.wr = TLCEval([j \in 1..(8 * n) |->
                              LET k == (j - 1) \div n IN
                              <<Sub(esp, Const(n * (k + 1) - ((j - 1) % n)), 32), s.reg[k + 1][((j - 1) % n) + 1]>>])]
     [] i.mn = "leave" ->         \* esp := ebp; ebp := pop
          LET ebp == s.reg[EBP] IN
          [p EXCEPT !.reg = RegWrite(RegWrite(s.reg, "r32", 5, Load(s, ebp, 32)), "r32", 4, Add(ebp, Const(4), 32))]
     [] i.mn = "enter" ->         \* nesting level 0: push ebp; ebp := esp; esp := esp - size
          LET e2 == Sub(esp, Const(4), 32) IN
          [p EXCEPT !.reg = RegWrite(RegWrite(s.reg, "r32", 5, e2), "r32", 4, Sub(e2, Norm(i.ops[1].v, 32), 32)),
                    !.wr = Bytes(e2, s.reg[EBP], 4)]
     [] i.mn = "popad" ->         \* edi esi ebp (skipped) ebx edx ecx eax
          LET c == AccC(w)
              val(k) == Load(s, Add(esp, Const(n * k), 32), w)
              r1 == RegWrite(s.reg, c, 7, val(0))
              r2 == RegWrite(r1, c, 6, val(1))
              r3 == RegWrite(r2, c, 5, val(2))
              r4 == RegWrite(r3, c, 3, val(4))
              r5 == RegWrite(r4, c, 2, val(5))
              r6 == RegWrite(r5, c, 1, val(6))
              r7 == RegWrite(r6, c, 0, val(7)) IN
          [p EXCEPT !.reg = RegWrite(r7, "r32", 4, Add(esp, Const(8 * n), 32))]

\* ---- binary / unary arithmetic and logic ----------------------------------------------
StepAlu(i, s) ==
   LET w == i.w  d == i.ops[1]  p == Keep(i, s)  fl == s.fl
       a == Rd(d, w, s)
       b == IF Len(i.ops) >= 2 THEN Rd(i.ops[2], w, s) ELSE FromNat(1, w)
       one == FromNat(1, w) IN
   CASE i.mn = "add" -> [WrOp(p, d, w, AddRes(a, b, 0, w), s) EXCEPT !.fl = AddFl(fl, a, b, 0, w)]
     [] i.mn = "adc" -> [WrOp(p, d, w, AddRes(a, b, fl.cf, w), s) EXCEPT !.fl = AddFl(fl, a, b, fl.cf, w)]
     [] i.mn = "sub" -> [WrOp(p, d, w, SubRes(a, b, 0, w), s) EXCEPT !.fl = SubFl(fl, a, b, 0, w)]
     [] i.mn = "sbb" -> [WrOp(p, d, w, SubRes(a, b, fl.cf, w), s) EXCEPT !.fl = SubFl(fl, a, b, fl.cf, w)]
     [] i.mn = "cmp" -> [p EXCEPT !.fl = SubFl(fl, a, b, 0, w)]
     [] i.mn = "inc" -> [WrOp(p, d, w, AddRes(a, one, 0, w), s) EXCEPT !.fl = [AddFl(fl, a, one, 0, w) EXCEPT !.cf = fl.cf]]
     [] i.mn = "dec" -> [WrOp(p, d, w, SubRes(a, one, 0, w), s) EXCEPT !.fl = [SubFl(fl, a, one, 0, w) EXCEPT !.cf = fl.cf]]
     [] i.mn = "neg" -> [WrOp(p, d, w, SubRes(Zero(w), a, 0, w), s) EXCEPT !.fl = SubFl(fl, Zero(w), a, 0, w)]    \* CF = (src # 0)
     [] i.mn = "not" -> WrOp(p, d, w, BNot(a, w), s)
     [] i.mn = "and" -> [WrOp(p, d, w, BAnd(a, b, w), s) EXCEPT !.fl = LogicFl(fl, BAnd(a, b, w), w)]
     [] i.mn = "or" -> [WrOp(p, d, w, BOr(a, b, w), s) EXCEPT !.fl = LogicFl(fl, BOr(a, b, w), w)]
     [] i.mn = "xor" -> [WrOp(p, d, w, BXor(a, b, w), s) EXCEPT !.fl = LogicFl(fl, BXor(a, b, w), w)]
     [] i.mn = "test" -> [p EXCEPT !.fl = LogicFl(fl, BAnd(a, b, w), w)]
     [] i.mn = "xadd" ->        \* TEMP := SRC + DEST; SRC := DEST; DEST := TEMP
          [WrOp(WrOp(p, i.ops[2], w, a, s), d, w, AddRes(a, b, 0, w), s) EXCEPT !.fl = AddFl(fl, a, b, 0, w)]
     [] i.mn = "cmpxchg" ->     \* accumulator compared with DEST
          LET acc == RegRead(s.reg, AccC(w), 0)
              f2 == SubFl(fl, acc, a, 0, w) IN
          IF acc = a THEN [WrOp(p, d, w, b, s) EXCEPT !.fl = f2]
          ELSE [WrReg(WrOp(p, d, w, a, s), AccC(w), 0, a) EXCEPT !.fl = f2]

\* ---- shifts and rotates ---------------------------------------------------------------
\* masked count: low 5 bits of the count operand (imm8 or cl)
Cnt(i, s) == G(Rd(i.ops[Len(i.ops)], 8, s), 1) % 32
StepShift(i, s) ==
   LET w == i.w  d == i.ops[1]  p == Keep(i, s)  fl == s.fl
       a == Rd(d, w, s)
       c == Cnt(i, s) IN
   IF c = 0 THEN p                                   \* count 0: operand and all flags unchanged
   ELSE CASE i.mn \in {"shl", "shr", "sar"} ->
          LET res == CASE i.mn = "shl" -> ShlN(a, c, w) [] i.mn = "shr" -> ShrN(a, c, w) [] i.mn = "sar" -> SarN(a, c, w)
              cfv == CASE i.mn = "shl" -> IF c >= w THEN U ELSE Bit(a, w - c)
                       [] i.mn = "shr" -> IF c >= w THEN U ELSE Bit(a, c - 1)
                       [] i.mn = "sar" -> IF c >= w THEN Msb(a, w) ELSE Bit(a, c - 1)
              ofv == IF c # 1 THEN U
                     ELSE CASE i.mn = "shl" -> (Msb(res, w) + Bit(a, w - 1)) % 2
                            [] i.mn = "shr" -> Msb(a, w)
                            [] i.mn = "sar" -> 0 IN
          [WrOp(p, d, w, res, s) EXCEPT !.fl = [fl EXCEPT !.cf = cfv, !.of = ofv, !.af = U, !.pf = Parity8(res),
                                                          !.zf = ZF(res), !.sf = Msb(res, w)]]
     [] i.mn \in {"rol", "ror"} ->                   \* rotate by (count mod size); CF/OF are written whenever the masked count is non-zero
          LET res == IF i.mn = "rol" THEN RolN(a, c % w, w) ELSE RorN(a, c % w, w)
              cfv == IF i.mn = "rol" THEN Bit(res, 0) ELSE Msb(res, w)
              ofv == IF c # 1 THEN U ELSE IF i.mn = "rol" THEN (Msb(res, w) + cfv) % 2 ELSE (Msb(res, w) + Bit(res, w - 2)) % 2 IN
          [WrOp(p, d, w, res, s) EXCEPT !.fl = [fl EXCEPT !.cf = cfv, !.of = ofv]]
     [] i.mn \in {"rcl", "rcr"} ->                   \* (w+1)-bit rotate by count mod (w+1)
          LET t == c % (w + 1)
              r == IF i.mn = "rcl" THEN RclN(a, fl.cf, t, w) ELSE RcrN(a, fl.cf, t, w)
              ofv == IF c # 1 THEN U
                     ELSE IF i.mn = "rcl" THEN (Msb(r[1], w) + r[2]) % 2
                     ELSE (Msb(a, w) + fl.cf) % 2 IN           \* rcr: MSB(DEST) XOR CF before the rotate
          [WrOp(p, d, w, r[1], s) EXCEPT !.fl = [fl EXCEPT !.cf = r[2], !.of = ofv]]
     [] i.mn \in {"shld", "shrd"} ->
          LET b == Rd(i.ops[2], w, s) IN
          IF c > w THEN                              \* 16-bit operand, count > 16: result and flags undefined
             [(IF d.k = "reg" THEN [p EXCEPT !.ur = {RegIdx(d)}] ELSE [WrOp(p, d, w, a, s) EXCEPT !.um = TRUE]) EXCEPT !.fl = AllU(fl)]
          ELSE
          LET res == IF i.mn = "shld" THEN BOr(ShlN(a, c, w), ShrN(b, w - c, w), w)
                     ELSE BOr(ShrN(a, c, w), ShlN(b, w - c, w), w)
              cfv == IF i.mn = "shld" THEN Bit(a, w - c) ELSE Bit(a, c - 1)
              ofv == IF c # 1 THEN U ELSE B(Msb(res, w) # Msb(a, w)) IN
          [WrOp(p, d, w, res, s) EXCEPT !.fl = [fl EXCEPT !.cf = cfv, !.of = ofv, !.af = U, !.pf = Parity8(res),
                                                          !.zf = ZF(res), !.sf = Msb(res, w)]]

\* ---- multiply / divide ----------------------------------------------------------------
\* write a 2w-bit value to the implicit pair (ax | dx:ax | edx:eax)
WrPair(p, w, v) ==
   IF w = 8 THEN WrReg(p, "r16", 0, v)
   ELSE WrReg(WrReg(p, AccC(w), 0, Norm(v, w)), AccC(w), 2, Slice(v, w, 2 * w))
SMulFull(a, b, w) == Mul(SExt(a, w, 2 * w), SExt(b, w, 2 * w), 2 * w)
StepMul(i, s) ==
   LET w == i.w  p == Keep(i, s)  fl == s.fl  n == Len(i.ops)
       mflags(c) == [fl EXCEPT !.cf = c, !.of = c, !.sf = U, !.zf = U, !.af = U, !.pf = U] IN
   CASE i.mn = "mul" ->
          LET prod == MulFull(RegRead(s.reg, AccC(w), 0), Rd(i.ops[1], w, s), w) IN
          [WrPair(p, w, prod) EXCEPT !.fl = mflags(B(~IsZero(Slice(prod, w, 2 * w))))]
     [] i.mn = "imul" /\ n = 1 ->
          LET prod == SMulFull(RegRead(s.reg, AccC(w), 0), Rd(i.ops[1], w, s), w) IN
          [WrPair(p, w, prod) EXCEPT !.fl = mflags(B(SExt(Norm(prod, w), w, 2 * w) # prod))]
     [] i.mn = "imul" /\ n >= 2 ->
          LET x == Rd(i.ops[IF n = 2 THEN 1 ELSE 2], w, s)
              y == Rd(i.ops[n], w, s)
              prod == SMulFull(x, y, w) IN
          [WrOp(p, i.ops[1], w, Norm(prod, w), s) EXCEPT !.fl = mflags(B(SExt(Norm(prod, w), w, 2 * w) # prod))]
\* Unsigned division of W-bit values by base-256 long division with a normalised divisor (Knuth's algorithm D, one
\* correction loop): <<quotient, remainder>>, b # 0.  Same results as BV!UDivRem (bit serial, ~50 times slower in TLC);
\* the equality is discharged by X86SemSelf.
SigLimbs(v) == CHOOSE k \in 1..Len(v) : v[k] # 0 /\ \A m \in (k + 1)..Len(v) : v[m] = 0
LeadZ8(x) == IF x >= 128 THEN 0 ELSE IF x >= 64 THEN 1 ELSE IF x >= 32 THEN 2 ELSE IF x >= 16 THEN 3
             ELSE IF x >= 8 THEN 4 ELSE IF x >= 4 THEN 5 ELSE IF x >= 2 THEN 6 ELSE 7
FastUDivRem(a, b, W) ==
   LET n == NL(W)
       nb == SigLimbs(b)
       sh == LeadZ8(b[nb])
       Wb == 8 * nb
       Wc == 8 * (nb + 1)
       bN == ShlN(Norm(b, Wb), sh, Wb)
       aN == ShlN(ZExt(a, W + 8), sh, W + 8)
       bNc == ZExt(bN, Wc)
       btop == bN[nb]
       RECURSIVE go(_,_,_)
       go(j, rem, q) ==
          IF j = 0 THEN <<q, rem>> ELSE
          LET cur == BOr(ShlN(rem, 8, Wc), ZExt(<<aN[j]>>, Wc), Wc)
              ct == cur[nb + 1] * 256 + cur[nb]
              q0 == IF ct \div btop > 255 THEN 255 ELSE ct \div btop
              RECURSIVE fix(_,_)
              fix(qh, prod) == IF Ult(cur, prod) THEN fix(qh - 1, Sub(prod, bNc, Wc)) ELSE <<qh, prod>>
              f == fix(q0, Norm(MulLimbs(bN, <<q0>>, nb + 1), Wc))
          IN go(j - 1, Sub(cur, f[2], Wc), <<f[1]>> \o q)
       r == go(n + 1, Zero(Wc), <<>>)
   IN <<Norm(r[1], W), Norm(ShrN(r[2], sh, Wc), W)>>
FastSDivRem(a, b, W) ==
   LET qr == FastUDivRem(Abs(a, W), Abs(b, W), W)
       q == IF Msb(a, W) # Msb(b, W) THEN Neg(qr[1], W) ELSE qr[1]
       r == IF Msb(a, W) = 1 THEN Neg(qr[2], W) ELSE qr[2]
   IN <<q, r>>
StepDiv(i, s) ==
   LET w == i.w  p == Keep(i, s)
       src == Rd(i.ops[1], w, s)
       num == IF w = 8 THEN RegRead(s.reg, "r16", 0)
              ELSE Concat(RegRead(s.reg, AccC(w), 0), w, RegRead(s.reg, AccC(w), 2), w)
       sgn == i.mn = "idiv" IN
   IF IsZero(src) THEN Fault(i, s, "DE")
   ELSE LET qr == IF sgn THEN FastSDivRem(num, SExt(src, w, 2 * w), 2 * w) ELSE FastUDivRem(num, ZExt(src, 2 * w), 2 * w)
            q == Norm(qr[1], w)
            fits == IF sgn THEN SExt(q, w, 2 * w) = qr[1] ELSE ZExt(q, 2 * w) = qr[1] IN
        IF ~fits THEN Fault(i, s, "DE")
        ELSE [(IF w = 8 THEN WrReg(p, "r16", 0, Concat(q, 8, Norm(qr[2], 8), 8))
               ELSE WrReg(WrReg(p, AccC(w), 0, q), AccC(w), 2, Norm(qr[2], w))) EXCEPT !.fl = AllU(s.fl)]

\* ---- bit test / scan ----------------------------------------------------------------------
\* register offset with a memory base: the addressed word is base + (w/8) * floor(offset / w), offset signed;
\* an immediate offset only selects the bit (taken modulo the operand size)
BitAddr(i, s) ==
   LET w == i.w  d == i.ops[1]  o == i.ops[2]
       adj == IF o.k = "reg"
              THEN Mul(SarN(SExt(Rd(o, w, s), w, 32), IF w = 16 THEN 4 ELSE 5, 32), Const(w \div 8), 32) ELSE Zero(32)
   IN Add(EA(d, s), adj, 32)
StepBit(i, s) ==
   LET w == i.w  d == i.ops[1]  o == i.ops[2]  p == Keep(i, s)
       off == Rd(o, w, s)                             \* imm8 offsets arrive extended to w
       bitno == G(off, 1) % w                         \* w is 16 or 32: offset mod w = low byte mod w
       addr == IF d.k = "mem" THEN BitAddr(i, s) ELSE Zero(32)
       a == IF d.k = "mem" THEN Load(s, addr, w) ELSE Rd(d, w, s)
       m == ShlN(FromNat(1, w), bitno, w)
       res == CASE i.mn = "bts" -> BOr(a, m, w) [] i.mn = "btr" -> BAnd(a, BNot(m, w), w) [] i.mn = "btc" -> BXor(a, m, w) [] OTHER -> a
       f2 == [s.fl EXCEPT !.cf = Bit(a, bitno), !.of = U, !.sf = U, !.af = U, !.pf = U]
       p2 == [p EXCEPT !.fl = f2] IN
   IF i.mn = "bt" THEN p2
   ELSE IF d.k = "reg" THEN WrOp(p2, d, w, res, s)
   ELSE [p2 EXCEPT !.wr = Bytes(addr, res, w \div 8)]
StepScan(i, s) ==
   LET w == i.w  d == i.ops[1]  p == Keep(i, s)
       src == Rd(i.ops[2], w, s)
       f2(z) == [s.fl EXCEPT !.zf = z, !.cf = U, !.of = U, !.sf = U, !.af = U, !.pf = U] IN
   IF IsZero(src) THEN [p EXCEPT !.fl = f2(1), !.ur = {RegIdx(d)}]            \* destination undefined
   ELSE [WrOp(p, d, w, FromNat(IF i.mn = "bsf" THEN Bsf(src, w) ELSE Bsr(src, w), w), s) EXCEPT !.fl = f2(0)]

\* ---- conversions, flag instructions, setcc / cmovcc ---------------------------------------------
StepMisc(i, s) ==
   LET p == Keep(i, s)  fl == s.fl  eax == s.reg[EAX] IN
   CASE i.mn = "cbw" -> WrReg(p, "r16", 0, SExt(<<eax[1]>>, 8, 16))
     [] i.mn = "cwde" -> WrReg(p, "r32", 0, SExt(<<eax[1], eax[2]>>, 16, 32))
     [] i.mn = "cwd" -> WrReg(p, "r16", 2, IF Bit(eax, 15) = 1 THEN Ones(16) ELSE Zero(16))
     [] i.mn = "cdq" -> WrReg(p, "r32", 2, IF Bit(eax, 31) = 1 THEN Ones(32) ELSE Zero(32))
     [] i.mn = "clc" -> [p EXCEPT !.fl.cf = 0]
     [] i.mn = "stc" -> [p EXCEPT !.fl.cf = 1]
     [] i.mn = "cmc" -> [p EXCEPT !.fl.cf = 1 - fl.cf]
     [] i.mn = "cld" -> [p EXCEPT !.fl.df = 0]
     [] i.mn = "std" -> [p EXCEPT !.fl.df = 1]
     [] i.mn = "lahf" ->         \* AH := SF:ZF:0:AF:0:PF:1:CF
          WrReg(p, "r8", 4, <<fl.cf + 2 + 4 * fl.pf + 16 * fl.af + 64 * fl.zf + 128 * fl.sf>>)
     [] i.mn = "sahf" ->
          LET ah == eax[2] IN
          [p EXCEPT !.fl = [fl EXCEPT !.cf = ah % 2, !.pf = (ah \div 4) % 2, !.af = (ah \div 16) % 2,
                                      !.zf = (ah \div 64) % 2, !.sf = (ah \div 128) % 2]]
     [] i.mn = "setcc" -> WrOp(p, i.ops[1], 8, FromNat(B(Cond(i.cc, fl)), 8), s)
     [] i.mn = "cmovcc" -> IF Cond(i.cc, fl) THEN WrOp(p, i.ops[1], i.w, Rd(i.ops[2], i.w, s), s) ELSE p

\* ---- string instructions (one iteration, no repeat prefix) -----------------------------------------
StepString(i, s) ==
   LET w == i.w  n == w \div 8  p == Keep(i, s)  fl == s.fl
       esi == s.reg[ESI]  edi == s.reg[EDI]
       adv(r) == IF fl.df = 0 THEN Add(r, Const(n), 32) ELSE Sub(r, Const(n), 32)
       acc == RegRead(s.reg, AccC(w), 0)
       both(q) == WrReg(WrReg(q, "r32", 6, adv(esi)), "r32", 7, adv(edi)) IN
   CASE i.mn = "movs" -> [both(p) EXCEPT !.wr = Bytes(edi, Load(s, esi, w), n)]
     [] i.mn = "cmps" -> [both(p) EXCEPT !.fl = SubFl(fl, Load(s, esi, w), Load(s, edi, w), 0, w)]
     [] i.mn = "scas" -> [WrReg(p, "r32", 7, adv(edi)) EXCEPT !.fl = SubFl(fl, acc, Load(s, edi, w), 0, w)]
     [] i.mn = "lods" -> WrReg(WrReg(p, AccC(w), 0, Load(s, esi, w)), "r32", 6, adv(esi))
     [] i.mn = "stos" -> [WrReg(p, "r32", 7, adv(edi)) EXCEPT !.wr = Bytes(edi, acc, n)]

\* ---- control transfer (32-bit operand size) ---------------------------------------------------------
Target(i, s) == IF i.ops[1].k = "imm" THEN Add(s.eip, Norm(i.rel, 32), 32) ELSE Rd(i.ops[1], 32, s)
StepFlow(i, s) ==
   LET p == Keep(i, s)  esp == s.reg[ESP]  ecx1 == Sub(s.reg[ECX], Const(1), 32)
       jump(q, c) == IF c THEN [q EXCEPT !.eip = Target(i, s), !.taken = TRUE] ELSE q IN
   CASE i.mn = "jmp" -> jump(p, TRUE)
     [] i.mn = "jcc" -> jump(p, Cond(i.cc, s.fl))
     [] i.mn = "jecxz" -> jump(p, IsZero(s.reg[ECX]))
     [] i.mn = "loop" -> jump(WrReg(p, "r32", 1, ecx1), ~IsZero(ecx1))
     [] i.mn = "loope" -> jump(WrReg(p, "r32", 1, ecx1), ~IsZero(ecx1) /\ s.fl.zf = 1)
     [] i.mn = "loopne" -> jump(WrReg(p, "r32", 1, ecx1), ~IsZero(ecx1) /\ s.fl.zf = 0)
     [] i.mn = "call" ->          \* target read first, then the return address is pushed
          LET e2 == Sub(esp, Const(4), 32) IN
          [jump(p, TRUE) EXCEPT !.reg = RegWrite(p.reg, "r32", 4, e2), !.wr = Bytes(e2, NextEip(i, s), 4)]
     [] i.mn = "ret" ->           \* ops[1]: imm16 bytes to release (0 for plain ret)
          [p EXCEPT !.eip = Load(s, esp, 32), !.taken = TRUE,
                    !.reg = RegWrite(p.reg, "r32", 4, Add(esp, Add(Const(4), Norm(i.ops[1].v, 32), 32), 32))]

\* ---- dispatch ---------------------------------------------------------------------------------------------
MovMn == {"mov", "movzx", "movsx", "xchg", "lea", "bswap", "xlat"}
StackMn == {"push", "pop", "pushad", "popad", "leave", "enter"}
AluMn == {"add", "adc", "sub", "sbb", "cmp", "inc", "dec", "neg", "not", "and", "or", "xor", "test", "xadd", "cmpxchg"}
ShiftMn == {"shl", "shr", "sar", "rol", "ror", "rcl", "rcr", "shld", "shrd"}
MulMn == {"mul", "imul"}
DivMn == {"div", "idiv"}
BitMn == {"bt", "bts", "btr", "btc"}
ScanMn == {"bsf", "bsr"}
MiscMn == {"cbw", "cwde", "cwd", "cdq", "clc", "stc", "cmc", "cld", "std", "lahf", "sahf", "setcc", "cmovcc"}
StringMn == {"movs", "cmps", "scas", "lods", "stos"}
FlowMn == {"jmp", "jcc", "jecxz", "loop", "loope", "loopne", "call", "ret"}
Core == MovMn \cup StackMn \cup AluMn \cup ShiftMn \cup MulMn \cup DivMn \cup BitMn \cup ScanMn \cup MiscMn \cup StringMn \cup FlowMn

Step(i, s) ==
   TLCEval(CASE i.mn \in MovMn -> StepMov(i, s)
     [] i.mn \in StackMn -> StepStack(i, s)
     [] i.mn \in AluMn -> StepAlu(i, s)
     [] i.mn \in ShiftMn -> StepShift(i, s)
     [] i.mn \in MulMn -> StepMul(i, s)
     [] i.mn \in DivMn -> StepDiv(i, s)
     [] i.mn \in BitMn -> StepBit(i, s)
     [] i.mn \in ScanMn -> StepScan(i, s)
     [] i.mn \in MiscMn -> StepMisc(i, s)
     [] i.mn \in StringMn -> StepString(i, s)
     [] i.mn \in FlowMn -> StepFlow(i, s)
     [] OTHER -> Fault(i, s, "UD"))

\* memory after the step: the last write to an address wins, otherwise the initial content
PostByte(wr, s, a) ==
   LET hits == {j \in 1..Len(wr) : wr[j][1] = a} IN
   IF hits = {} THEN MemByte(MemEnv(s), Zero(16), a) ELSE wr[CHOOSE j \in hits : \A k \in hits : k <= j][2]
WrAddrs(wr) == {wr[j][1] : j \in 1..Len(wr)}
=============================================================================
