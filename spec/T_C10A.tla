------------------------------- MODULE T_C10A -------------------------------
(* C->S judge for the assembler half of C10.  The assembler is a total      *)
(* function from text to outcomes; the specification has exactly two        *)
(* outcome actions:                                                          *)
(*    Return(list)  - a possibly empty list of byte strings                 *)
(*    Reject        - the assembler's own parse/encoding error (ValueError) *)
(* There is no action for an internal error (any other exception), for a    *)
(* call that does not return within the time bound, or for a return value   *)
(* that is not a list of byte strings: a recorded call with such an outcome *)
(* is not a behaviour of the specification.                                 *)
(* Record: [id, calls]  calls[k] = <<call id, outcome code, #candidates>>   *)
(*   codes: 0 list, 1 reject, 2 internal, 3 timeout, 4 other return value   *)
EXTENDS Integers, Sequences, TLC, Json, IOUtils
Recs == JsonDeserialize(IOEnv.TRACE)
Return(c) == c[2] = 0 /\ c[3] >= 0
Reject(c) == c[2] = 1 /\ c[3] = 0
Allowed(c) == Return(c) \/ Reject(c)
ClauseOf(c) == CASE c[2] = 2 -> "C10.asm.internal" [] c[2] = 3 -> "C10.asm.timeout" [] c[2] = 4 -> "C10.asm.return_type" [] OTHER -> "C10.asm.outcome"
Verdict(r) == LET bad == SelectSeq(r.calls, LAMBDA c : ~Allowed(c)) IN
              [k \in 1..Len(bad) |-> [clause |-> ClauseOf(bad[k]), call |-> bad[k][1]]]
VARIABLE i
Init == i = 0
Next == \/ /\ i < Len(Recs) /\ i' = i + 1
           /\ LET v == Verdict(Recs[i']) IN
              IF v = <<>> THEN TRUE ELSE PrintT("VERDICT " \o ToJson([id |-> Recs[i'].id, v |-> v]))
        \/ /\ i = Len(Recs) /\ i' = i + 1 /\ PrintT("CONSUMED " \o ToString(Len(Recs)))
=============================================================================
