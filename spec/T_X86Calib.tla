------------------------------ MODULE T_X86Calib ------------------------------
(* Calibration judge: X86Sem!Step(i, GenState(i, sd, k)) against the state the *)
(* host processor produced from the same initial state (esp excluded; flags   *)
(* and registers the SDM leaves undefined excluded).                          *)
(* Record: [id, i, sd, k, reg (8 x limbs), fl (record of 0/1)]                *)
EXTENDS X86SpaceLib, Json, IOUtils
Recs == JsonDeserialize(IOEnv.TRACE)
FlagAt(fl, f) == CASE f = 1 -> fl.cf [] f = 2 -> fl.pf [] f = 3 -> fl.af [] f = 4 -> fl.zf [] f = 5 -> fl.sf [] f = 6 -> fl.df [] f = 7 -> fl.of
Verdict(rec) ==
   LET s == GenState(rec.i, rec.sd, rec.k)
       p == Step(rec.i, s)
       badr == {r \in (1..8) \ {ESP} : r \notin p.ur /\ p.reg[r] # rec.reg[r]}
       badf == {f \in 1..7 : FlagAt(p.fl, f) # U /\ FlagAt(p.fl, f) # FlagAt(rec.fl, f)} IN
   IF p.fault # "" THEN <<[clause |-> "calib.fault", fault |-> p.fault]>>
   ELSE IF badr = {} /\ badf = {} THEN <<>>
   ELSE <<[clause |-> "calib.mismatch", regs |-> {RegNames[r] : r \in badr}, flags |-> {FlagNames[f] : f \in badf},
           state |-> [reg |-> s.reg, fl |-> s.fl], spec |-> [reg |-> p.reg, fl |-> p.fl], cpu |-> [reg |-> rec.reg, fl |-> rec.fl]]>>
VARIABLE i
Init == i = 0
Next == \/ /\ i < Len(Recs) /\ i' = i + 1
           /\ LET v == Verdict(Recs[i']) IN
              IF v = <<>> THEN TRUE ELSE PrintT("VERDICT " \o ToJson([id |-> Recs[i'].id, v |-> v]))
        \/ /\ i = Len(Recs) /\ i' = i + 1 /\ PrintT("CONSUMED " \o ToString(Len(Recs)))
=============================================================================
