------------------------------- MODULE T_C07 -------------------------------
(* C->S judge for C07: the symbolic machine state of miasmX equals            *)
(* sequential concrete execution, including overlapping memory.               *)
(*                                                                            *)
(* (a) history records  [id, t |-> "h", st, acts, obs, cells, envs]           *)
(*     acts  a SymMem history (TLC-generated); obs[j] the tree eval_abs       *)
(*     returned for the load acts[j]; cells the projected pool_mem            *)
(*     <<[a (address tree), w, v (value tree)]>> after the last action.       *)
(*     Clauses: C07.noexc, C07.terminates, C07.welltyped, C07.width, C07.value (each load,    *)
(*     every valuation, against the concrete SymMem bytes), C07.pool_*        *)
(*     (SymPool invariants on the projected pool: typed cells, no overlap,    *)
(*     cells cover exactly the written bytes, flattened values = memory).     *)
(* (b) program records  [id, t |-> "p", st, pool0, instrs, regs, cells,       *)
(*     cells_bl, rbs, envs]: instrs[i].affs are the lifted assignments of     *)
(*     instruction i as miasmX produced them; Machine.Exec folds these SAME   *)
(*     assignments concretely from the initial state given by pool0 under a   *)
(*     valuation; every final register expression, every read-back            *)
(*     [a (requested address), w, r (returned tree)] and the projected pool   *)
(*     must evaluate to that concrete state.                                  *)
(* A failing load/read-back is classified by the path of eval_ExprMem it      *)
(* takes (SymPool!LoadPath).  Clauses "input.*" are preconditions of the      *)
(* judge, not violations.                                                     *)
EXTENDS Machine, Json, IOUtils
SP == INSTANCE SymPool WITH MaxStores <- 0, MaxLoads <- 0, Offs <- {}, Ws <- {}, Bases <- {}, ValKinds <- {},
                            LoadLast <- FALSE, AsCoded <- FALSE, hist <- <<>>, mem <- <<>>, pool <- {}
Recs == JsonDeserialize(IOEnv.TRACE)

ConstBase == <<0, 16, 0, 0>>                                   \* 0x1000
BaseVal(b, V) == IF b = "c" THEN ConstBase ELSE IdVal(V, "B", 32)
AddrOf(b, off, V) == Add(BaseVal(b, V), FromNat(off, AddrW), AddrW)
ConstByte(k, i) == 16 * k + i                                  \* byte i of the constant of store k (all distinct)
SymName(k) == "v" \o ToString(k)
\* value of a provenance byte <<k, i>> under V
ByteVal(p, h, V, addr) ==
   IF p[1] = 0 THEN MemByte(V, Zero(16), addr)
   ELSE LET a == SP!StoreOf(h, p[1]) IN
        IF a.vk = "c" THEN ConstByte(p[1], p[2]) ELSE IdVal(V, SymName(p[1]), a.w)[p[2]]
\* bytes a load of provenance p (SymMem!Expected) at action h[j] must return under V
ExpectedBytes(h, j, p, V) ==
   TLCEval([i \in 1..Len(p) |-> ByteVal(p[i], h, V, AddrOf(h[j].b, h[j].off + i - 1, V))])

\* ---- projected pool ---------------------------------------------------------
\* what the machine holds is judged by its VALUE (the property): typing without the width-agreement rules (IR!Loose) suffices for IR!Eval
CellTyped(c) == /\ c.w >= 8 /\ c.w % 8 = 0 /\ Loose(c.a) /\ Loose(c.v) /\ c.a.k # "aff" /\ c.v.k # "aff"
                /\ Width(c.a) = AddrW
CellAddrs(c, V) == LET as == ByteAddrs(Norm(Eval(c.a, V), AddrW), c.w \div 8) IN {as[j] : j \in 1..Len(as)}
\* signed distance caddr - addr when it is small, 1000 otherwise
Dist(caddr, addr) ==
   LET d == Sub(caddr, addr, AddrW) e == Neg(d, AddrW) IN
   IF d[2] = 0 /\ d[3] = 0 /\ d[4] = 0 /\ d[1] < 64 THEN d[1]
   ELSE IF e[2] = 0 /\ e[3] = 0 /\ e[4] = 0 /\ e[1] < 64 THEN -e[1] ELSE 1000
\* path of eval_ExprMem for a read of nb bytes at addr against cells <<[a, w]>> (addresses evaluated under V)
PathAt(cells, V, addr, nb) ==
   LET near == {i \in 1..Len(cells) : WellTyped(cells[i].a) /\ Dist(Norm(Eval(cells[i].a, V), AddrW), addr) # 1000}
       pl == {[b |-> "x", off |-> 100 + Dist(Norm(Eval(cells[i].a, V), AddrW), addr), n |-> cells[i].w \div 8, v |-> <<>>] : i \in near}
   IN SP!LoadPath(pl, "x", 100, nb)
\* structural invariants under one valuation: cells pairwise disjoint, cells cover exactly `written`
PoolStruct(cells, V, written) ==
   LET ca == [i \in 1..Len(cells) |-> CellAddrs(cells[i], V)] IN
   IF \E i \in 1..Len(cells), j \in 1..Len(cells) : i < j /\ ca[i] \cap ca[j] # {} THEN <<[clause |-> "C07.pool_overlap"]>>
   ELSE IF UNION {ca[i] : i \in 1..Len(cells)} # written THEN
        <<[clause |-> "C07.pool_domain", missing |-> Cardinality(written \ UNION {ca[i] : i \in 1..Len(cells)}),
           extra |-> Cardinality(UNION {ca[i] : i \in 1..Len(cells)} \ written)]>>
   ELSE <<>>

\* ---- (a) histories -----------------------------------------------------------
LoadIdx(h) == {j \in 1..Len(h) : h[j].op = "ld"}
LoadBad(rec, j) ==
   LET h == rec.acts t == rec.obs[j]
       p == SP!Expected(h, j)
       path == SP!LoadPath(SP!PoolAfter(h, 1, j - 1, {}), h[j].b, h[j].off, h[j].w \div 8) IN
   IF t.k = "aff" \/ ~WellTyped(t) THEN <<[clause |-> "C07.welltyped", j |-> j, path |-> path]>>
   ELSE IF Width(t) # h[j].w THEN <<[clause |-> "C07.width", j |-> j, path |-> path, got |-> Width(t)]>>
   ELSE LET bad == {e \in 1..Len(rec.envs) : Norm(Eval(t, rec.envs[e]), h[j].w) # ExpectedBytes(h, j, p, rec.envs[e])} IN
        IF bad = {} THEN <<>>
        ELSE LET e == CHOOSE e \in bad : \A f \in bad : e <= f IN
             <<[clause |-> "C07.value", j |-> j, path |-> path, env |-> e, nbad |-> Cardinality(bad),
                got |-> Norm(Eval(t, rec.envs[e]), h[j].w), want |-> ExpectedBytes(h, j, p, rec.envs[e])]>>
\* the projected pool after the last action: typed cells, no overlap, cells cover exactly the written bytes
\* (structure, under the first valuation), flattened values = concrete memory (every valuation)
HPoolBad(rec) ==
   LET h == rec.acts cells == rec.cells m == SP!Replay(h, Len(h)) IN
   IF \E i \in 1..Len(cells) : ~CellTyped(cells[i]) THEN <<[clause |-> "C07.pool_welltyped"]>>
   ELSE IF \E i \in 1..Len(cells) : Width(cells[i].v) # cells[i].w THEN <<[clause |-> "C07.pool_width"]>>
   ELSE LET V1 == rec.envs[1]
            st == PoolStruct(cells, V1, {AddrOf(x[1], x[2], V1) : x \in DOMAIN m}) IN
        IF st # <<>> THEN st
        ELSE LET \* the SymMem key <<b, off>> at which each cell starts (exists: the structure check passed)
                 key == TLCEval([i \in 1..Len(cells) |->
                           CHOOSE x \in DOMAIN m : AddrOf(x[1], x[2], V1) = Norm(Eval(cells[i].a, V1), AddrW)])
                 badv == {e \in 1..Len(rec.envs) : \E i \in 1..Len(cells) :
                            LET V == rec.envs[e]
                                val == Norm(Eval(cells[i].v, V), cells[i].w)
                            IN \/ Norm(Eval(cells[i].a, V), AddrW) # AddrOf(key[i][1], key[i][2], V)
                               \/ \E k \in 1..(cells[i].w \div 8) :
                                     val[k] # ByteVal(m[<<key[i][1], key[i][2] + k - 1>>], h, V, AddrOf(key[i][1], key[i][2] + k - 1, V))} IN
             IF badv = {} THEN <<>> ELSE <<[clause |-> "C07.pool_value", env |-> CHOOSE e \in badv : \A f \in badv : e <= f]>>
RECURSIVE CatLoads(_,_)
CatLoads(rec, js) == IF js = {} THEN <<>> ELSE LET j == CHOOSE j \in js : \A k \in js : j <= k IN LoadBad(rec, j) \o CatLoads(rec, js \ {j})
HVerdict(rec) ==
   IF rec.st # "ok" THEN
      LET h == rec.acts j == rec.excj IN
      <<[clause |-> IF rec.st = "timeout" THEN "C07.terminates" ELSE "C07.noexc", j |-> j,
         path |-> IF h[j].op = "ld" THEN SP!LoadPath(SP!PoolAfter(h, 1, j - 1, {}), h[j].b, h[j].off, h[j].w \div 8) ELSE "store"]>>
   ELSE CatLoads(rec, LoadIdx(rec.acts)) \o HPoolBad(rec)

\* ---- (b) programs -------------------------------------------------------------
InitState(pool0, V) ==
   LET names == (DOMAIN V.id) \cup {pool0[i].n : i \in 1..Len(pool0)} IN
   [id |-> TLCEval([x \in names |-> IF \E i \in 1..Len(pool0) : pool0[i].n = x
                                    THEN Eval(pool0[CHOOSE i \in 1..Len(pool0) : pool0[i].n = x].e, V) ELSE V.id[x]]),
    seed |-> V.seed, over |-> <<>>]
AllAffs(rec) == UNION {{rec.instrs[i].affs[j] : j \in 1..Len(rec.instrs[i].affs)} : i \in 1..Len(rec.instrs)}
InputTrees(rec) == AllAffs(rec) \cup {rec.pool0[i].e : i \in 1..Len(rec.pool0)}
OutputTrees(rec) == {rec.regs[i].e : i \in 1..Len(rec.regs)} \cup {rec.rbs[i].r : i \in {j \in 1..Len(rec.rbs) : rec.rbs[j].r.k # "none"}}
                    \cup {rec.rbs[i].a : i \in 1..Len(rec.rbs)}
                    \cup {rec.cells[i].a : i \in 1..Len(rec.cells)} \cup {rec.cells[i].v : i \in 1..Len(rec.cells)}
MaxW(a, b) == IF a > b THEN a ELSE b
\* memory reads in the sources of an instruction (for the classification of a failing program)
SrcMems(affs) == UNION {{m \in SubTerms(affs[j].a[2]) : m.k = "mem"} : j \in 1..Len(affs)}
\* states at the start of every iteration of the last instruction (one state unless it is rep-prefixed)
RECURSIVE RepStates(_,_,_,_)
RepStates(affs, rep, s, n) ==
   IF RepDone(s) \/ n >= RepBound THEN {}
   ELSE LET r == RepStep(affs, rep, s) IN {s} \cup (IF r.stop THEN {} ELSE RepStates(affs, rep, r.s, n + 1))
LastPaths(rec, V, s0) ==
   LET n == Len(rec.instrs)
       ins == rec.instrs[n]
       pre == Before(rec.instrs, n, s0)
       sts == IF ins.rep = "" THEN {pre} ELSE RepStates(ins.affs, ins.rep, pre, 0)
   IN UNION {{PathAt(rec.cells_bl, V, Norm(Eval(m.a[1], st), AddrW), m.w \div 8) : m \in SrcMems(ins.affs)} : st \in sts}
\* everything that disagrees under valuation e (index sets into regs / rbs / cells), restricted to the typed items
EnvRes(rec, e, okreg, okrb, cellsok) ==
   LET V == rec.envs[e]
       s0 == InitState(rec.pool0, V)
       run == RunChk(rec.instrs, 1, Len(rec.instrs), s0, TRUE)
       sN == run.s
   IN TLCEval([ok |-> run.ok,
       reg |-> {i \in okreg : LET W == MaxW(rec.regs[i].w, Width(rec.regs[i].e)) IN
                              Norm(Eval(rec.regs[i].e, V), W) # Norm(sN.id[rec.regs[i].n], W)},
       rb |-> {i \in okrb : Norm(Eval(rec.rbs[i].r, V), rec.rbs[i].w)
                              # LoadBytes(sN, Norm(Eval(rec.rbs[i].a, V), AddrW), rec.rbs[i].w \div 8)},
       cell |-> IF cellsok THEN {i \in 1..Len(rec.cells) : Norm(Eval(rec.cells[i].v, V), rec.cells[i].w)
                              # LoadBytes(sN, Norm(Eval(rec.cells[i].a, V), AddrW), rec.cells[i].w \div 8)} ELSE {},
       struct |-> IF e = 1 /\ cellsok THEN PoolStruct(rec.cells, V, Written(sN)) ELSE <<>>])
MinOf(S) == CHOOSE x \in S : \A y \in S : x <= y
RbPath(rec, i) == IF WellTyped(rec.rbs[i].a) /\ rec.rbs[i].a.k # "aff" /\ rec.rbs[i].w >= 8
                  THEN PathAt(rec.cells, rec.envs[1], Norm(Eval(rec.rbs[i].a, rec.envs[1]), AddrW), rec.rbs[i].w \div 8) ELSE "?"
ValueClauses(rec, okreg, okrb, cellsok) ==
   LET n == Len(rec.envs)
       res == TLCEval([e \in 1..n |-> EnvRes(rec, e, okreg, okrb, cellsok)])
       badreg == UNION {res[e].reg : e \in 1..n}
       badrb == UNION {res[e].rb : e \in 1..n}
       badcell == UNION {res[e].cell : e \in 1..n}
       s0 == InitState(rec.pool0, rec.envs[1])
       lp == LastPaths(rec, rec.envs[1], s0)
   IN IF \E e \in 1..n : ~res[e].ok THEN <<[clause |-> "input.ambiguous_or_repbound"]>>
      ELSE (IF badreg = {} THEN <<>> ELSE
              LET e == MinOf({x \in 1..n : res[x].reg # {}})
                  i == MinOf(res[e].reg)
                  V == rec.envs[e]
                  sN == Exec(rec.instrs, InitState(rec.pool0, V)) IN
              <<[clause |-> "C07.reg", reg |-> rec.regs[i].n, regs |-> {rec.regs[k].n : k \in badreg}, env |-> e,
                 nbadenv |-> Cardinality({x \in 1..n : res[x].reg # {}}),
                 got |-> Eval(rec.regs[i].e, V), want |-> sN.id[rec.regs[i].n], lastpaths |-> lp]>>)
        \o (IF badrb = {} THEN <<>> ELSE
              LET e == MinOf({x \in 1..n : res[x].rb # {}})
                  i == MinOf(res[e].rb)
                  V == rec.envs[e]
                  sN == Exec(rec.instrs, InitState(rec.pool0, V)) IN
              <<[clause |-> "C07.readback", rb |-> i, env |-> e, nbad |-> Cardinality(badrb),
                 path |-> RbPath(rec, i), paths |-> {RbPath(rec, k) : k \in badrb},
                 got |-> Norm(Eval(rec.rbs[i].r, V), rec.rbs[i].w),
                 want |-> LoadBytes(sN, Norm(Eval(rec.rbs[i].a, V), AddrW), rec.rbs[i].w \div 8), lastpaths |-> lp]>>)
        \o (IF badcell = {} THEN <<>> ELSE <<[clause |-> "C07.pool_value", cell |-> MinOf(badcell), lastpaths |-> lp]>>)
        \o (IF res[1].struct = <<>> THEN <<>> ELSE <<[clause |-> res[1].struct[1].clause, lastpaths |-> lp]>>)
PVerdict(rec) ==
   IF rec.st # "ok" /\ rec.part = 1 /\ rec.st # "timeout" /\ \E t \in InputTrees(rec) : ~WellTyped(t)
      THEN <<[clause |-> "input.illtyped_lifted_aff"]>>      \* the evaluator refuses an ill-typed lifted list (C11 / C04's subject)
   ELSE IF rec.st # "ok" THEN \* exception / no answer; when the driver could record them, the lifted assignments of the
                              \* failing (last) instruction and the pool before it classify the failure
      <<[clause |-> IF rec.st = "timeout" THEN "C07.terminates" ELSE "C07.noexc",
         lastpaths |-> IF rec.part = 1 /\ \A t \in InputTrees(rec) : WellTyped(t)
                       THEN LastPaths(rec, rec.envs[1], InitState(rec.pool0, rec.envs[1])) ELSE {}]>>
   ELSE IF \E t \in InputTrees(rec) : ~WellTyped(t) THEN <<[clause |-> "input.illtyped_lifted_aff"]>>
   ELSE LET unb == (UNION {IF Loose(t) THEN Ids(t) ELSE {} : t \in InputTrees(rec) \cup OutputTrees(rec)})
                     \ ((DOMAIN rec.envs[1].id) \cup {rec.pool0[i].n : i \in 1..Len(rec.pool0)}) IN
   IF unb # {} THEN <<[clause |-> "input.unbound", names |-> unb]>>
   ELSE LET allrb == 1..Len(rec.rbs)
            norb == {i \in allrb : rec.rbs[i].r.k = "none"}            \* the read-back raised or did not answer
            illrb == {i \in allrb \ norb : rec.rbs[i].r.k = "aff" \/ rec.rbs[i].a.k = "aff" \/ ~Loose(rec.rbs[i].r) \/ ~Loose(rec.rbs[i].a)}
            widrb == {i \in allrb \ (illrb \cup norb) : Width(rec.rbs[i].r) # rec.rbs[i].w}
            illreg == {i \in 1..Len(rec.regs) : rec.regs[i].e.k = "aff" \/ ~Loose(rec.regs[i].e)}
            illcell == {i \in 1..Len(rec.cells) : ~CellTyped(rec.cells[i])}
            widcell == {i \in (1..Len(rec.cells)) \ illcell : Width(rec.cells[i].v) # rec.cells[i].w}
            lp == LastPaths(rec, rec.envs[1], InitState(rec.pool0, rec.envs[1]))
        IN (IF norb = {} THEN <<>> ELSE <<[clause |-> "C07.noanswer", what |-> "readback", rb |-> MinOf(norb), lastpaths |-> lp,
                                           path |-> RbPath(rec, MinOf(norb)), paths |-> {RbPath(rec, k) : k \in norb}]>>)
        \o (IF illrb = {} THEN <<>> ELSE <<[clause |-> "C07.welltyped", what |-> "readback", rb |-> MinOf(illrb), lastpaths |-> lp,
                                           path |-> RbPath(rec, MinOf(illrb)), paths |-> {RbPath(rec, k) : k \in illrb}]>>)
        \o (IF widrb = {} THEN <<>> ELSE <<[clause |-> "C07.width", what |-> "readback", rb |-> MinOf(widrb), lastpaths |-> lp,
                                           path |-> RbPath(rec, MinOf(widrb)), paths |-> {RbPath(rec, k) : k \in widrb}]>>)
        \o (IF illreg = {} THEN <<>> ELSE <<[clause |-> "C07.welltyped", what |-> "reg", regs |-> {rec.regs[k].n : k \in illreg}, lastpaths |-> lp]>>)
        \o (IF illcell = {} THEN <<>> ELSE <<[clause |-> "C07.pool_welltyped", cell |-> MinOf(illcell), lastpaths |-> lp]>>)
        \o (IF widcell = {} THEN <<>> ELSE <<[clause |-> "C07.pool_width", cell |-> MinOf(widcell), lastpaths |-> lp]>>)
        \o ValueClauses(rec, (1..Len(rec.regs)) \ illreg, allrb \ (illrb \cup widrb \cup norb), illcell = {} /\ widcell = {})

Verdict(rec) == IF rec.t = "h" THEN HVerdict(rec) ELSE PVerdict(rec)
VARIABLE i
Init == i = 0
Next == \/ /\ i < Len(Recs) /\ i' = i + 1
           /\ LET v == Verdict(Recs[i']) IN
              IF v = <<>> THEN TRUE ELSE PrintT("VERDICT " \o ToJson([id |-> Recs[i'].id, v |-> v]))
        \/ /\ i = Len(Recs) /\ i' = i + 1 /\ PrintT("CONSUMED " \o ToString(Len(Recs)))
=============================================================================
