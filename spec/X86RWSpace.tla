------------------------------ MODULE X86RWSpace ------------------------------
(* Generator of the non-core part of the C08 input space: the rows of        *)
(* X86RW!Ext (index + GNU as text).  The core part is X86Space.              *)
EXTENDS X86RW
VARIABLES x, txt
Init == x \in 1..Len(Ext) /\ txt = Ext[x].txt
Next == UNCHANGED <<x, txt>>
GenOK == txt # "" /\ Ext[x].w \cap Ext[x].wu = {}
=============================================================================
