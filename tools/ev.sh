#!/bin/sh
mkdir -p ${EVD:-/var/tmp/verif_ev}
# usage: ev.sh Module 'expr'   (evaluates expr in the context of /verif/spec/Module.tla)
M=$1; shift
cat > ${EVD:-/var/tmp/verif_ev}/Ev.tla <<EOT
---- MODULE Ev ----
EXTENDS $M
ASSUME PrintT(<<"EV", $1>>)
VARIABLE zz
EvInit == zz = 0
EvNext == zz' = zz
====
EOT
printf 'INIT EvInit\nNEXT EvNext\n' > ${EVD:-/var/tmp/verif_ev}/Ev.cfg
cp /verif/spec/*.tla ${EVD:-/var/tmp/verif_ev}/ 2>/dev/null
cd ${EVD:-/var/tmp/verif_ev} && timeout ${EVT:-60} java -Xss16m -cp /opt/veriftools/tla/tla2tools.jar:/opt/veriftools/tla/CommunityModules-deps.jar tlc2.TLC -workers 1 -metadir ${EVD:-/var/tmp/verif_ev}/md -noGenerateSpecTE -config Ev.cfg Ev.tla 2>&1 | grep -vE "^Semantic|^Parsing|^Linting|^TLC2|^Running|^Warning|^\(Use|^Starting|^Computing|^Finished|^Model checking|states generated|^The depth|^Implied"
