-------------------------------- MODULE PPC --------------------------------
(* The PowerPC opcode map (32-bit implementations), written from the         *)
(* architecture books: "PowerPC Microprocessor Family: The Programming       *)
(* Environments for 32-bit Microprocessors", chapter 8 and appendix A        *)
(* (instructions sorted by opcode), appendix F (simplified mnemonics).       *)
(* Rows of category "ppc64" (extsw) and "impl603" (tlbld, tlbli: MPC603e     *)
(* user's manual) are listed because miasmX names them; they are not part of *)
(* the 32-bit architecture proper.                                           *)
(*                                                                           *)
(* A word is <<hi, lo>>, two 16-bit halves (no TLA+ integer reaches 2^31).   *)
(* Bit numbering is the architecture's: bit 0 is the most significant bit.   *)
(*   bits 0-5   primary opcode            bits 21-30  extended opcode X/XL/XFX/XFL *)
(*   bits 6-10  F1 (RT/RS/FRT/BO/BT/TO/BF||0||L)     22-30 XO-form, bit 21 = OE     *)
(*   bits 11-15 F2 (RA/FRA/BI/BA)                    26-30 A-form, 21-25 = FRC     *)
(*   bits 16-20 F3 (RB/FRB/NB/SH/BB)      bit 31  Rc / LK (or reserved)      *)
EXTENDS Naturals, Sequences, FiniteSets, TLC

IsWord(w) == Len(w) = 2 /\ w[1] \in 0..65535 /\ w[2] \in 0..65535
Prim(w) == w[1] \div 1024
F1(w)   == (w[1] \div 32) % 32
F2(w)   == w[1] % 32
F3(w)   == w[2] \div 2048
F4(w)   == (w[2] \div 64) % 32          \* bits 21-25: FRC / MB
XO10(w) == (w[2] \div 2) % 1024
XO9(w)  == (w[2] \div 2) % 512
XO5(w)  == (w[2] \div 2) % 32           \* bits 26-30: A-form XO / ME
B21(w)  == (w[2] \div 1024) % 2
B30(w)  == (w[2] \div 2) % 2
B31(w)  == w[2] % 2
MkWord(p, f1, f2, f3, x, b) == <<p * 1024 + f1 * 32 + f2, f3 * 2048 + x * 2 + b>>
MkWordImm(p, f1, f2, imm) == <<p * 1024 + f1 * 32 + f2, imm>>

(* ------------------------------------------------------------------------ *)
(* Rows.  f: form.  lay: operand layout (decides the reserved fields).       *)
(* b31: "z" reserved (must be 0), "r" Rc, "l" LK, "1" must be 1 (stwcx.).    *)
(* oe: 1 when bit 21 is OE (XO-form), 0 otherwise.                           *)
R(p, x, f, mn, lay, b31, oe, cat) == [p |-> p, x |-> x, f |-> f, mn |-> mn, lay |-> lay, b31 |-> b31, oe |-> oe, cat |-> cat]
U == "uisa32"

\* primary opcodes that are complete instructions (D, M, I, B, SC forms)
PrimRows == <<
  R(3, 0, "D", "twi", "to_ra_si", "-", 0, U),    R(7, 0, "D", "mulli", "rt_ra_si", "-", 0, U),
  R(8, 0, "D", "subfic", "rt_ra_si", "-", 0, U), R(10, 0, "D", "cmpli", "bf_ra_ui", "-", 0, U),
  R(11, 0, "D", "cmpi", "bf_ra_si", "-", 0, U),  R(12, 0, "D", "addic", "rt_ra_si", "-", 0, U),
  R(13, 0, "D", "addic.", "rt_ra_si", "-", 0, U), R(14, 0, "D", "addi", "rt_ra0_si", "-", 0, U),
  R(15, 0, "D", "addis", "rt_ra0_si", "-", 0, U), R(16, 0, "B", "bc", "bo_bi_bd", "l", 0, U),
  R(17, 0, "SC", "sc", "sc", "z", 0, U),         R(18, 0, "I", "b", "li", "l", 0, U),
  R(20, 0, "M", "rlwimi", "rs_ra_sh_mb_me", "r", 0, U), R(21, 0, "M", "rlwinm", "rs_ra_sh_mb_me", "r", 0, U),
  R(23, 0, "M", "rlwnm", "rs_ra_rb_mb_me", "r", 0, U),
  R(24, 0, "D", "ori", "rs_ra_ui", "-", 0, U),   R(25, 0, "D", "oris", "rs_ra_ui", "-", 0, U),
  R(26, 0, "D", "xori", "rs_ra_ui", "-", 0, U),  R(27, 0, "D", "xoris", "rs_ra_ui", "-", 0, U),
  R(28, 0, "D", "andi.", "rs_ra_ui", "-", 0, U), R(29, 0, "D", "andis.", "rs_ra_ui", "-", 0, U),
  R(32, 0, "D", "lwz", "rt_d_ra", "-", 0, U),    R(33, 0, "D", "lwzu", "rt_d_ra", "-", 0, U),
  R(34, 0, "D", "lbz", "rt_d_ra", "-", 0, U),    R(35, 0, "D", "lbzu", "rt_d_ra", "-", 0, U),
  R(36, 0, "D", "stw", "rt_d_ra", "-", 0, U),    R(37, 0, "D", "stwu", "rt_d_ra", "-", 0, U),
  R(38, 0, "D", "stb", "rt_d_ra", "-", 0, U),    R(39, 0, "D", "stbu", "rt_d_ra", "-", 0, U),
  R(40, 0, "D", "lhz", "rt_d_ra", "-", 0, U),    R(41, 0, "D", "lhzu", "rt_d_ra", "-", 0, U),
  R(42, 0, "D", "lha", "rt_d_ra", "-", 0, U),    R(43, 0, "D", "lhau", "rt_d_ra", "-", 0, U),
  R(44, 0, "D", "sth", "rt_d_ra", "-", 0, U),    R(45, 0, "D", "sthu", "rt_d_ra", "-", 0, U),
  R(46, 0, "D", "lmw", "rt_d_ra", "-", 0, U),    R(47, 0, "D", "stmw", "rt_d_ra", "-", 0, U),
  R(48, 0, "D", "lfs", "frt_d_ra", "-", 0, U),   R(49, 0, "D", "lfsu", "frt_d_ra", "-", 0, U),
  R(50, 0, "D", "lfd", "frt_d_ra", "-", 0, U),   R(51, 0, "D", "lfdu", "frt_d_ra", "-", 0, U),
  R(52, 0, "D", "stfs", "frt_d_ra", "-", 0, U),  R(53, 0, "D", "stfsu", "frt_d_ra", "-", 0, U),
  R(54, 0, "D", "stfd", "frt_d_ra", "-", 0, U),  R(55, 0, "D", "stfdu", "frt_d_ra", "-", 0, U) >>

\* primary 19, XL-form, 10-bit extended opcode
Rows19 == <<
  R(19, 0, "XL", "mcrf", "bf_bfa", "z", 0, U),     R(19, 16, "XL", "bclr", "bo_bi", "l", 0, U),
  R(19, 33, "XL", "crnor", "bt_ba_bb", "z", 0, U), R(19, 50, "XL", "rfi", "none", "z", 0, U),
  R(19, 129, "XL", "crandc", "bt_ba_bb", "z", 0, U), R(19, 150, "XL", "isync", "none", "z", 0, U),
  R(19, 193, "XL", "crxor", "bt_ba_bb", "z", 0, U), R(19, 225, "XL", "crnand", "bt_ba_bb", "z", 0, U),
  R(19, 257, "XL", "crand", "bt_ba_bb", "z", 0, U), R(19, 289, "XL", "creqv", "bt_ba_bb", "z", 0, U),
  R(19, 417, "XL", "crorc", "bt_ba_bb", "z", 0, U), R(19, 449, "XL", "cror", "bt_ba_bb", "z", 0, U),
  R(19, 528, "XL", "bcctr", "bo_bi", "l", 0, U) >>

\* primary 31, X / XFX forms, 10-bit extended opcode
Rows31X == <<
  R(31, 0, "X", "cmp", "bf_ra_rb", "z", 0, U),      R(31, 4, "X", "tw", "to_ra_rb", "z", 0, U),
  R(31, 19, "X", "mfcr", "rt", "z", 0, U),          R(31, 20, "X", "lwarx", "rt_ra_rb", "z", 0, U),
  R(31, 23, "X", "lwzx", "rt_ra_rb", "z", 0, U),    R(31, 24, "X", "slw", "rs_ra_rb", "r", 0, U),
  R(31, 26, "X", "cntlzw", "rs_ra", "r", 0, U),     R(31, 28, "X", "and", "rs_ra_rb", "r", 0, U),
  R(31, 32, "X", "cmpl", "bf_ra_rb", "z", 0, U),    R(31, 54, "X", "dcbst", "ra_rb", "z", 0, U),
  R(31, 55, "X", "lwzux", "rt_ra_rb", "z", 0, U),   R(31, 60, "X", "andc", "rs_ra_rb", "r", 0, U),
  R(31, 83, "X", "mfmsr", "rt", "z", 0, U),         R(31, 86, "X", "dcbf", "ra_rb", "z", 0, U),
  R(31, 87, "X", "lbzx", "rt_ra_rb", "z", 0, U),    R(31, 119, "X", "lbzux", "rt_ra_rb", "z", 0, U),
  R(31, 124, "X", "nor", "rs_ra_rb", "r", 0, U),    R(31, 144, "XFX", "mtcrf", "rs_fxm", "z", 0, U),
  R(31, 146, "X", "mtmsr", "rt", "z", 0, U),        R(31, 150, "X", "stwcx.", "rt_ra_rb", "1", 0, U),
  R(31, 151, "X", "stwx", "rt_ra_rb", "z", 0, U),   R(31, 183, "X", "stwux", "rt_ra_rb", "z", 0, U),
  R(31, 210, "X", "mtsr", "rt_sr", "z", 0, U),      R(31, 215, "X", "stbx", "rt_ra_rb", "z", 0, U),
  R(31, 242, "X", "mtsrin", "rt_rb", "z", 0, U),    R(31, 246, "X", "dcbtst", "ra_rb", "z", 0, U),
  R(31, 247, "X", "stbux", "rt_ra_rb", "z", 0, U),  R(31, 278, "X", "dcbt", "ra_rb", "z", 0, U),
  R(31, 279, "X", "lhzx", "rt_ra_rb", "z", 0, U),   R(31, 284, "X", "eqv", "rs_ra_rb", "r", 0, U),
  R(31, 306, "X", "tlbie", "rb", "z", 0, U),        R(31, 310, "X", "eciwx", "rt_ra_rb", "z", 0, U),
  R(31, 311, "X", "lhzux", "rt_ra_rb", "z", 0, U),  R(31, 316, "X", "xor", "rs_ra_rb", "r", 0, U),
  R(31, 339, "XFX", "mfspr", "rt_spr", "z", 0, U),  R(31, 343, "X", "lhax", "rt_ra_rb", "z", 0, U),
  R(31, 370, "X", "tlbia", "none", "z", 0, U),      R(31, 371, "XFX", "mftb", "rt_spr", "z", 0, U),
  R(31, 375, "X", "lhaux", "rt_ra_rb", "z", 0, U),  R(31, 407, "X", "sthx", "rt_ra_rb", "z", 0, U),
  R(31, 412, "X", "orc", "rs_ra_rb", "r", 0, U),    R(31, 438, "X", "ecowx", "rt_ra_rb", "z", 0, U),
  R(31, 439, "X", "sthux", "rt_ra_rb", "z", 0, U),  R(31, 444, "X", "or", "rs_ra_rb", "r", 0, U),
  R(31, 467, "XFX", "mtspr", "rt_spr", "z", 0, U),  R(31, 470, "X", "dcbi", "ra_rb", "z", 0, U),
  R(31, 476, "X", "nand", "rs_ra_rb", "r", 0, U),   R(31, 512, "X", "mcrxr", "bf", "z", 0, U),
  R(31, 533, "X", "lswx", "rt_ra_rb", "z", 0, U),   R(31, 534, "X", "lwbrx", "rt_ra_rb", "z", 0, U),
  R(31, 535, "X", "lfsx", "frt_ra_rb", "z", 0, U),  R(31, 536, "X", "srw", "rs_ra_rb", "r", 0, U),
  R(31, 566, "X", "tlbsync", "none", "z", 0, U),    R(31, 567, "X", "lfsux", "frt_ra_rb", "z", 0, U),
  R(31, 595, "X", "mfsr", "rt_sr", "z", 0, U),      R(31, 597, "X", "lswi", "rt_ra_nb", "z", 0, U),
  R(31, 598, "X", "sync", "none", "z", 0, U),       R(31, 599, "X", "lfdx", "frt_ra_rb", "z", 0, U),
  R(31, 631, "X", "lfdux", "frt_ra_rb", "z", 0, U), R(31, 659, "X", "mfsrin", "rt_rb", "z", 0, U),
  R(31, 661, "X", "stswx", "rt_ra_rb", "z", 0, U),  R(31, 662, "X", "stwbrx", "rt_ra_rb", "z", 0, U),
  R(31, 663, "X", "stfsx", "frt_ra_rb", "z", 0, U), R(31, 695, "X", "stfsux", "frt_ra_rb", "z", 0, U),
  R(31, 725, "X", "stswi", "rt_ra_nb", "z", 0, U),  R(31, 727, "X", "stfdx", "frt_ra_rb", "z", 0, U),
  R(31, 759, "X", "stfdux", "frt_ra_rb", "z", 0, U), R(31, 790, "X", "lhbrx", "rt_ra_rb", "z", 0, U),
  R(31, 792, "X", "sraw", "rs_ra_rb", "r", 0, U),   R(31, 824, "X", "srawi", "rs_ra_sh", "r", 0, U),
  R(31, 854, "X", "eieio", "none", "z", 0, U),      R(31, 918, "X", "sthbrx", "rt_ra_rb", "z", 0, U),
  R(31, 922, "X", "extsh", "rs_ra", "r", 0, U),     R(31, 954, "X", "extsb", "rs_ra", "r", 0, U),
  R(31, 982, "X", "icbi", "ra_rb", "z", 0, U),      R(31, 983, "X", "stfiwx", "frt_ra_rb", "z", 0, U),
  R(31, 1014, "X", "dcbz", "ra_rb", "z", 0, U),
  R(31, 986, "X", "extsw", "rs_ra", "r", 0, "ppc64"),
  R(31, 978, "X", "tlbld", "rb", "z", 0, "impl603"), R(31, 1010, "X", "tlbli", "rb", "z", 0, "impl603") >>

\* primary 31, XO-form: 9-bit extended opcode in bits 22-30; bit 21 is OE (oe = 1) or reserved (oe = 0)
Rows31XO == <<
  R(31, 8, "XO", "subfc", "rt_ra_rb", "r", 1, U),   R(31, 10, "XO", "addc", "rt_ra_rb", "r", 1, U),
  R(31, 11, "XO", "mulhwu", "rt_ra_rb", "r", 0, U), R(31, 40, "XO", "subf", "rt_ra_rb", "r", 1, U),
  R(31, 75, "XO", "mulhw", "rt_ra_rb", "r", 0, U),  R(31, 104, "XO", "neg", "rt_ra", "r", 1, U),
  R(31, 136, "XO", "subfe", "rt_ra_rb", "r", 1, U), R(31, 138, "XO", "adde", "rt_ra_rb", "r", 1, U),
  R(31, 200, "XO", "subfze", "rt_ra", "r", 1, U),   R(31, 202, "XO", "addze", "rt_ra", "r", 1, U),
  R(31, 232, "XO", "subfme", "rt_ra", "r", 1, U),   R(31, 234, "XO", "addme", "rt_ra", "r", 1, U),
  R(31, 235, "XO", "mullw", "rt_ra_rb", "r", 1, U), R(31, 266, "XO", "add", "rt_ra_rb", "r", 1, U),
  R(31, 459, "XO", "divwu", "rt_ra_rb", "r", 1, U), R(31, 491, "XO", "divw", "rt_ra_rb", "r", 1, U) >>

\* primary 59 / 63, A-form: 5-bit extended opcode in bits 26-30
Rows59A == <<
  R(59, 18, "A", "fdivs", "a_ab", "r", 0, U),  R(59, 20, "A", "fsubs", "a_ab", "r", 0, U),
  R(59, 21, "A", "fadds", "a_ab", "r", 0, U),  R(59, 22, "A", "fsqrts", "a_b", "r", 0, U),
  R(59, 24, "A", "fres", "a_b", "r", 0, U),    R(59, 25, "A", "fmuls", "a_ac", "r", 0, U),
  R(59, 28, "A", "fmsubs", "a_abc", "r", 0, U), R(59, 29, "A", "fmadds", "a_abc", "r", 0, U),
  R(59, 30, "A", "fnmsubs", "a_abc", "r", 0, U), R(59, 31, "A", "fnmadds", "a_abc", "r", 0, U) >>
Rows63A == <<
  R(63, 18, "A", "fdiv", "a_ab", "r", 0, U),   R(63, 20, "A", "fsub", "a_ab", "r", 0, U),
  R(63, 21, "A", "fadd", "a_ab", "r", 0, U),   R(63, 22, "A", "fsqrt", "a_b", "r", 0, U),
  R(63, 23, "A", "fsel", "a_abc", "r", 0, U),  R(63, 25, "A", "fmul", "a_ac", "r", 0, U),
  R(63, 26, "A", "frsqrte", "a_b", "r", 0, U), R(63, 28, "A", "fmsub", "a_abc", "r", 0, U),
  R(63, 29, "A", "fmadd", "a_abc", "r", 0, U), R(63, 30, "A", "fnmsub", "a_abc", "r", 0, U),
  R(63, 31, "A", "fnmadd", "a_abc", "r", 0, U) >>
\* primary 63, X / XFL forms
Rows63X == <<
  R(63, 0, "X", "fcmpu", "bf_fra_frb", "z", 0, U),  R(63, 12, "X", "frsp", "frt_frb", "r", 0, U),
  R(63, 14, "X", "fctiw", "frt_frb", "r", 0, U),    R(63, 15, "X", "fctiwz", "frt_frb", "r", 0, U),
  R(63, 32, "X", "fcmpo", "bf_fra_frb", "z", 0, U), R(63, 38, "X", "mtfsb1", "bt", "r", 0, U),
  R(63, 40, "X", "fneg", "frt_frb", "r", 0, U),     R(63, 64, "X", "mcrfs", "bf_bfa", "z", 0, U),
  R(63, 70, "X", "mtfsb0", "bt", "r", 0, U),        R(63, 72, "X", "fmr", "frt_frb", "r", 0, U),
  R(63, 134, "X", "mtfsfi", "bf_imm", "r", 0, U),   R(63, 136, "X", "fnabs", "frt_frb", "r", 0, U),
  R(63, 264, "X", "fabs", "frt_frb", "r", 0, U),    R(63, 583, "X", "mffs", "frt", "r", 0, U),
  R(63, 711, "XFL", "mtfsf", "fm_frb", "r", 0, U) >>

ExtSeq == Rows19 \o Rows31X \o Rows31XO \o Rows59A \o Rows63A \o Rows63X
PrimSeq == PrimRows
ExtPrims == {19, 31, 59, 63}

\* does row r claim the 10-bit extended-opcode value x (bits 21-30)?
ClaimsX(r, x) == IF r.f = "A" THEN x % 32 = r.x
                 ELSE IF r.f = "XO" /\ r.oe = 1 THEN x % 512 = r.x
                 ELSE x = r.x

NoRow == R(64, 0, "none", "", "none", "z", 0, "")
\* The table as a function: extended primaries -> 10-bit opcode -> row (NoRow where undefined).
\* PPCSelf.tla checks that it is a function (no two rows claim one (primary, extended) pair).
\* (bound names are deliberately unusual: a VARIABLE of the same name in an extending module makes TLC
\*  treat the definition as state-level and re-evaluate the whole table on every use)
ExtTab == TLCEval([tp_ \in ExtPrims |-> TLCEval([tx_ \in 0..1023 |->
             LET S == {ti_ \in 1..Len(ExtSeq) : ExtSeq[ti_].p = tp_ /\ ClaimsX(ExtSeq[ti_], tx_)} IN
             IF S = {} THEN NoRow ELSE ExtSeq[CHOOSE ti_ \in S : TRUE]])])
PrimTab == TLCEval([tp_ \in 0..63 |->
             LET S == {ti_ \in 1..Len(PrimSeq) : PrimSeq[ti_].p = tp_} IN IF S = {} THEN NoRow ELSE PrimSeq[CHOOSE ti_ \in S : TRUE]])
RowOf(w) == IF Prim(w) \in ExtPrims THEN ExtTab[Prim(w)][XO10(w)] ELSE PrimTab[Prim(w)]

(* ------------------------------------------------------------------------ *)
(* Reserved fields by layout (must be zero in a valid form).  cmp/cmpi/cmpl/ *)
(* cmpli: bit 9 reserved, bit 10 = L which 32-bit implementations require 0. *)
ResOK(lay, w) ==
  CASE lay \in {"rt_ra", "rs_ra"} -> F3(w) = 0
    [] lay \in {"rt", "bt", "frt"} -> F2(w) = 0 /\ F3(w) = 0
    [] lay = "ra_rb" -> F1(w) = 0
    [] lay = "rb" -> F1(w) = 0 /\ F2(w) = 0
    [] lay = "none" -> F1(w) = 0 /\ F2(w) = 0 /\ F3(w) = 0
    [] lay \in {"bf_ra_rb", "bf_ra_ui", "bf_ra_si", "bf_fra_frb"} -> F1(w) % 4 = 0
    [] lay = "bf_bfa" -> F1(w) % 4 = 0 /\ F2(w) % 4 = 0 /\ F3(w) = 0
    [] lay = "bf" -> F1(w) % 4 = 0 /\ F2(w) = 0 /\ F3(w) = 0
    [] lay = "rt_sr" -> F2(w) \div 16 = 0 /\ F3(w) = 0
    [] lay \in {"rt_rb", "frt_frb"} -> F2(w) = 0
    [] lay = "bo_bi" -> F3(w) = 0
    [] lay = "bf_imm" -> F1(w) % 4 = 0 /\ F2(w) = 0 /\ F3(w) % 2 = 0
    [] lay = "fm_frb" -> F1(w) \div 16 = 0 /\ F2(w) % 2 = 0
    [] lay = "rs_fxm" -> F2(w) \div 16 = 0 /\ F3(w) % 2 = 0
    [] lay = "a_ab" -> F4(w) = 0
    [] lay = "a_ac" -> F3(w) = 0
    [] lay = "a_b" -> F2(w) = 0 /\ F4(w) = 0
    [] lay = "sc" -> w[1] % 1024 = 0 /\ w[2] \div 4 = 0
    [] OTHER -> TRUE

\* operand fields by layout, as <<name, value>> pairs (evidence / replay files)
Fields(r, w) ==
  LET lay == r.lay IN
  CASE r.f = "D" /\ lay \in {"bf_ra_ui", "bf_ra_si"} -> <<<<"bf", F1(w) \div 4>>, <<"ra", F2(w)>>, <<"imm", w[2]>>>>
    [] r.f = "D" -> <<<<"rt", F1(w)>>, <<"ra", F2(w)>>, <<"imm", w[2]>>>>
    [] r.f = "M" -> <<<<"rs", F1(w)>>, <<"ra", F2(w)>>, <<"sh_rb", F3(w)>>, <<"mb", F4(w)>>, <<"me", XO5(w)>>>>
    [] r.f = "I" -> <<<<"li", (w[1] % 1024) * 16384 + w[2] \div 4>>, <<"aa", B30(w)>>>>
    [] r.f = "B" -> <<<<"bo", F1(w)>>, <<"bi", F2(w)>>, <<"bd", w[2] \div 4>>, <<"aa", B30(w)>>>>
    [] r.f = "SC" -> <<>>
    [] r.f = "A" -> <<<<"frt", F1(w)>>, <<"fra", F2(w)>>, <<"frb", F3(w)>>, <<"frc", F4(w)>>>>
    [] lay = "rt_spr" -> <<<<"rt", F1(w)>>, <<"spr", F3(w) * 32 + F2(w)>>>>   \* SPR number: the two 5-bit halves are swapped in the encoding
    [] OTHER -> <<<<"f1", F1(w)>>, <<"f2", F2(w)>>, <<"f3", F3(w)>>>>

(* Decode: ok = the (primary, extended opcode) pair is assigned an instruction; *)
(* valid = additionally every reserved field is zero; mn = mnemonic with the    *)
(* architecture's suffixes (o = OE, . = Rc; LK/AA are in lk, aa).               *)
Decode(w) ==
  LET r == RowOf(w)
      ok0 == r.f # "none"
      ok == ok0 /\ (r.f = "SC" => B30(w) = 1)       \* sc: bit 30 is a fixed 1
      rc == IF ok /\ r.b31 = "r" THEN B31(w) ELSE 0
      lk == IF ok /\ r.b31 = "l" THEN B31(w) ELSE 0
      oe == IF ok /\ r.oe = 1 THEN B21(w) ELSE 0
      aa == IF ok /\ r.f \in {"I", "B"} THEN B30(w) ELSE 0
      b31ok == CASE r.b31 = "z" -> B31(w) = 0 [] r.b31 = "1" -> B31(w) = 1 [] OTHER -> TRUE
      b21ok == (r.f = "XO" /\ r.oe = 0) => B21(w) = 0
  IN IF ~ok THEN [ok |-> FALSE, valid |-> FALSE, base |-> "", mn |-> "", form |-> "none", lay |-> "none", cat |-> "",
                  rc |-> 0, oe |-> 0, lk |-> 0, aa |-> 0, fields |-> <<>>]
     ELSE [ok |-> TRUE, valid |-> b31ok /\ b21ok /\ ResOK(r.lay, w), base |-> r.mn,
           mn |-> r.mn \o (IF oe = 1 THEN "o" ELSE "") \o (IF rc = 1 THEN "." ELSE ""),
           form |-> r.f, lay |-> r.lay, cat |-> r.cat, rc |-> rc, oe |-> oe, lk |-> lk, aa |-> aa, fields |-> Fields(r, w)]
\* NB mulhw/mulhwu with bit 21 set: XO10 = x + 512 is claimed by no row, so Decode says undefined (b21ok is
\* for documentation; it can never be false for a defined word).

(* ------------------------------------------------------------------------ *)
(* Alias relation: the spellings under which a decoded instruction may be     *)
(* shown (lower-cased).  Besides the architecture's own mnemonic these are   *)
(* the simplified mnemonics of appendix F (li, lis, conditional branches) and *)
(* two conventions of the implementation under test which do not change the  *)
(* identity of the instruction: the condition may follow "lr"/"ctr"           *)
(* (blrge for bgelr), and a CTR-decrementing conditional branch may be shown  *)
(* as bdnz/bdz with the CR test as an operand.  LK and AA are suffixes l, a   *)
(* in the architecture's order.                                              *)
Tests == <<"ge", "le", "ne", "ns", "lt", "gt", "eq", "so">>
CondNames(bo, bi) ==
  LET nodec == (bo \div 4) % 2 = 1          \* BO[2]: do not decrement CTR
      nocond == bo \div 16 = 1              \* BO[0]: do not test the condition
      tr == (bo \div 8) % 2                 \* BO[1]: branch if the CR bit is 1
      dz == IF (bo \div 2) % 2 = 1 THEN "dz" ELSE "dnz"
      tf == IF tr = 1 THEN "t" ELSE "f"
  IN IF nodec /\ nocond THEN {""}
     ELSE IF nocond THEN {dz}
     ELSE IF nodec THEN {Tests[tr * 4 + (bi % 4) + 1], tf}
     ELSE {dz \o tf, dz}
Shown(d, w) ==
  LET la == (IF d.lk = 1 THEN "l" ELSE "") \o (IF d.aa = 1 THEN "a" ELSE "")
      l == IF d.lk = 1 THEN "l" ELSE ""
      cn == CondNames(F1(w), F2(w))
  IN CASE d.base = "addi" /\ F2(w) = 0 -> {"addi", "li"}
       [] d.base = "addis" /\ F2(w) = 0 -> {"addis", "lis"}
       [] d.base = "b" -> {"b" \o la}
       [] d.base = "bc" -> {"bc" \o la} \cup {"b" \o c \o la : c \in cn \ {""}}
       [] d.base = "bclr" -> {"bclr" \o l} \cup {"b" \o c \o "lr" \o l : c \in cn} \cup {"blr" \o c \o l : c \in cn}
       [] d.base = "bcctr" -> {"bcctr" \o l} \cup {"b" \o c \o "ctr" \o l : c \in cn} \cup {"bctr" \o c \o l : c \in cn}
       [] OTHER -> {d.mn}
=============================================================================
