"""C10 - decoder and assembler are total: reject cleanly, never crash or over-read.
Decoder half (this file): the C01 space (spec/IA32Space.tla) plus every truncation b[:k] (expected: absent), junk
suffixes (same instruction, same length: no over-read), stream offsets with junk before the instruction (same
instruction as decoding the suffix, records the offset, leaves the stream at offset+len), dead states (undefined
opcodes / invalid forms) and seeded random bytes; outcome classes absent | instr(len, renders in both syntaxes) |
internal(exception type, site) | timeout; judged by spec/T_C10.tla over spec/Stream.tla and the reference decoder.
Assembler half: vf/c10_asm.py (run_asm_part), called from run() when present."""
import os, sys, io, json, random, signal, collections, multiprocessing, importlib
from . import core, ia32lib, ia32space

FILL = bytes([0x11, 0x22, 0x33, 0x44, 0x55, 0x77, 0x88, 0x99])
JUNK = [b'\x00', b'\xff' * 8, FILL]
OFFS = [1, 7]
NOUT = {'k': 'absent', 'len': 0, 't': '', 'both': False}


def _out(fn):
    """run one decode; -> (outcome record, instruction or None)"""
    o = dict(NOUT)
    stage = 'dis'
    try:
        ins = fn()
        if ins is None:
            return o, None
        o['k'] = 'instr'
        o['len'] = int(ins.l)
        stage = 'str'
        o['t'] = str(ins)
        stage = 'att'
        ins.__str__(asm_format='att_syntax binutils')
        o['both'] = True
        return o, ins
    except ia32lib._TO:
        raise
    except Exception as e:
        o['k'] = 'internal'
        o['exc'] = dict(ia32lib.exc_key(e), stage=stage)
        return o, None


class _Virt(object):
    """a virtual address space over one mapped region starting at 0 (the interface bin_stream_virt expects)"""
    def __init__(self, data):
        self.data = data

    def __len__(self):
        return len(self.data)

    def __call__(self, start, stop, section=None):
        return self.data[start:stop]

    def __getitem__(self, item):
        return self.data[item]


def observe_one(b):
    if ia32lib._mn is None:
        ia32lib._init()
    from miasmx.core.bin_stream import bin_stream
    mn = ia32lib._mn
    r = {'b': list(b)}
    ia32lib.arm(20)
    try:
        try:
            r['base'] = _out(lambda: mn.dis(bytes(b)))[0]
            r['truncs'] = [_out(lambda k=k: mn.dis(bytes(b[:k])))[0] for k in range(1, len(b))]
            r['junk'] = [_out(lambda j=j: mn.dis(bytes(b) + j))[0] for j in JUNK]
            offs = []
            for o in OFFS:
                stream = b'\xcc' * o + bytes(b) + FILL
                suf = _out(lambda: mn.dis(bytes(b) + FILL))[0]
                # the three stream classes of bin_stream.py refine the same abstract stream (Stream.tla): a byte string,
                # a file object, a virtual address space
                for kind in ('str', 'file', 'virt'):
                    if kind == 'str':
                        bs = bin_stream(stream, o)
                    elif kind == 'file':
                        bs = bin_stream(io.BytesIO(stream), o)
                    else:
                        bs = bin_stream(_Virt(stream), o)
                    out, ins = _out(lambda: mn.dis(bs))
                    offs.append({'o': o, 'n': len(stream), 'suf': suf, 'out': out, 'kind': kind,
                                 'ioff': int(ins.offset) if ins is not None else -1, 'after': int(bs.offset)})
            # every truncation once more through each stream class, at a stream offset, with NOTHING after the cut: the data
            # ends inside the instruction (inside a multi-byte field, too) - expected: the outcome of decoding the cut string
            for k in range(1, len(b)):
                o = OFFS[k % len(OFFS)]
                stream = b'\xcc' * o + bytes(b[:k])
                # (the stream class rotates with the cut and the string: each class sees every cut of a third of the strings)
                for kind in (('file', 'virt', 'str')[(k + len(b) + b[-1]) % 3],):
                    bs = bin_stream(stream if kind == 'str' else io.BytesIO(stream) if kind == 'file' else _Virt(stream), o)
                    out, ins = _out(lambda: mn.dis(bs))
                    offs.append({'o': o, 'n': len(stream), 'suf': r['truncs'][k - 1], 'out': out, 'kind': kind, 'cut': k,
                                 'ioff': int(ins.offset) if ins is not None else -1, 'after': int(bs.offset)})
            r['offs'] = offs
        finally:
            ia32lib.disarm()
    except ia32lib._TO:
        r.setdefault('base', dict(NOUT))
        r['base'] = dict(r['base'], k='timeout')
        r.setdefault('truncs', [])
        r.setdefault('junk', [])
        r.setdefault('offs', [])
    return r


def _chunk(bs):
    return [observe_one(b) for b in bs]


def observe(strings):
    if len(strings) < 500:
        return _chunk(strings)
    procs = min(core.NCPU, 16)
    step = max(200, len(strings) // (procs * 8))
    chunks = [strings[i:i + step] for i in range(0, len(strings), step)]
    ctx = multiprocessing.get_context('fork')
    out = []
    with ctx.Pool(procs, initializer=ia32lib._init) as pool:
        for part in pool.imap(_chunk, chunks):
            out += part
    return out


def strip(o):
    return {k: o[k] for k in ('k', 'len', 't', 'both')}


def to_record(i, r):
    return {'id': i, 'b': r['b'], 'base': strip(r['base']), 'truncs': [strip(x) for x in r['truncs']],
            'junk': [strip(x) for x in r['junk']],
            'offs': [{'o': x['o'], 'n': x['n'], 'suf': strip(x['suf']), 'out': strip(x['out']), 'ioff': x['ioff'], 'after': x['after']} for x in r['offs']]}


def culprit(r, c):
    """the outcome record a failing clause points at"""
    w, j = c['where'], c['at']
    if w == 'base':
        return r['base'], bytes(r['b'])
    if w == 'trunc':
        return r['truncs'][j - 1], bytes(r['b'][:j])
    if w in ('junk', 'needs-more-bytes'):
        return r['junk'][j - 1], bytes(r['b']) + JUNK[j - 1]
    x = r['offs'][j - 1]
    bad = x['out'] if x['out']['k'] not in ('absent', 'instr') or not (x['out']['k'] != 'instr' or x['out']['both']) else x['suf']
    return bad, (bytes(r['b'][:x['cut']]) if x.get('cut') else bytes(r['b']) + FILL)


def run_decoder_part(tier, chk):
    rnd = random.Random(chk.seed)
    negative_control(chk)
    quick = tier == 'quick'
    g = ia32space.gen(1, False, None, chk)
    done = [bytes.fromhex(h) for h in g['done']]
    dead = [bytes.fromhex(h) for h in g['dead']]
    rnd.shuffle(done)
    if quick:
        done = done[:40000]
    strings = done + dead + ia32space.random_strings(rnd, 20000 if quick else 200000)
    obs = observe(strings)
    recs = [to_record(i, r) for i, r in enumerate(obs)]
    order = list(range(len(recs)))
    rnd.shuffle(order)
    verdicts, st = core.judge('T_C10', [recs[i] for i in order], timeout=3000)
    chk.add_tlc(st)
    ndec = sum(1 + len(r['truncs']) + len(r['junk']) + 2 * len(r['offs']) for r in obs)
    cls = collections.Counter(r['base']['k'] for r in obs)
    chk.cov['evaluations'] += ndec
    chk.cov['traces_validated_against_impl'] += len(recs)
    chk.cov['distinct_nontrivial'] += sum(1 for r in obs if r['base']['k'] == 'instr')
    chk.cov.setdefault('spaces', {})['decoder'] = {'base_strings': len(strings), 'generated_instructions': len(done), 'generated_dead': len(dead),
                                                   'decode_calls': ndec, 'base_outcomes': dict(cls), 'records_with_failing_clause': len(verdicts)}
    for r in obs[:3]:
        chk.sample({'bytes': bytes(r['b']).hex(), 'base': strip(r['base']), 'truncations': [x['k'] for x in r['truncs']],
                    'offsets': [(x['o'], x['ioff'], x['after']) for x in r['offs']]})
    for v in verdicts:
        r = obs[v['id']]
        for c in v['v']:
            o, inp = culprit(r, c)
            if c['clause'] == 'C10.total':
                if o['k'] == 'internal':
                    key = dict({'clause': 'C10.total', 'how': 'internal'}, **o['exc'])
                    if 'name' in key:
                        # a mnemonic without AT&T name: the class is (name, what the reference decoder says about the bytes), so that a
                        # VALID instruction which suddenly renders under an ...INVALID name is a different class
                        tag = c.get('spec', '') if c['where'] == 'base' else 'derived_input'
                        key['name'] = (key['name'] if tag == 'valid' else '*') + '|' + tag
                elif o['k'] == 'instr' and not o['both']:
                    key = {'clause': 'C10.total', 'how': 'not rendered in both syntaxes'}
                else:
                    key = {'clause': 'C10.total', 'how': o['k']}
            else:
                t = r['base']['t'] or (r['junk'][0]['t'] if r['junk'] else '')
                words = [w for w in t.split() if w not in ('lock', 'rep', 'repz', 'repnz', 'notrack')]
                key = {'clause': c['clause'], 'where': c['where'], 'mn': words[0] if words else ''}
            chk.violation(key, {'bytes': bytes(r['b']).hex(), 'input': inp.hex(), 'where': c['where'], 'at': c['at'],
                                'outcome': o, 'base': r['base'], 'verdict': c})


def run(tier, chk):
    run_decoder_part(tier, chk)
    try:
        asm = importlib.import_module('vf.c10_asm')
    except ImportError:
        asm = None
        chk.cov['assembler_part'] = 'vf/c10_asm.py not present in this tree'
    if asm is not None:
        asm.run_asm_part(tier, chk)
    chk.cov['rule'] = ('decoder: base strings = terminal states of IA32Space.tla (complete instructions and dead states) + seeded random strings; every base '
                       'string is decoded whole, at every truncation, with three junk suffixes and at two stream offsets; non-trivial = base strings miasmX decodes')
    chk.assumptions += ['outcome classes: absent | instr(len, rendered in both syntaxes) | internal(exception type, site) | timeout(20 s per base string)',
                        'the premise "b is exactly one instruction" is established by the TLA+ reference decoder']


def negative_control(chk):
    # frozen control records (recorded once on the unchanged tree): independent of the tree under test
    recs = json.load(open(os.path.join(core.VERIF, 'vf', 'ia32_controls.json')))['C10']
    bad = []
    def mut(i, f, clause):
        r = json.loads(json.dumps(recs[i]))
        f(r)
        r['id'] = len(recs) + len(bad)
        bad.append((r, clause))
    mut(0, lambda r: r['base'].update(k='internal'), 'C10.total')
    mut(0, lambda r: r['truncs'][2].update(k='instr', len=3, t='x', both=True), 'C10.truncated')
    mut(0, lambda r: r['junk'][1].update(len=5), 'C10.overread')
    mut(1, lambda r: r['offs'][0].update(after=r['offs'][0]['after'] + 1), 'C10.offset-post')
    mut(1, lambda r: r['offs'][1]['out'].update(t='call 0'), 'C10.offset-same')
    mut(1, lambda r: r['offs'][1].update(ioff=0), 'C10.offset-post')
    verdicts, st = core.judge('T_C10', recs + [b for b, _ in bad], shards=1)
    got = sorted((v['id'], v['v'][0]['clause']) for v in verdicts)
    want = sorted((b['id'], c) for b, c in bad)
    ok = got == want
    chk.cov['negative_controls'].append({'name': '6 corrupted stream records rejected with the expected clause, 2 genuine accepted', 'ok': ok,
                                         'got': got if not ok else len(got)})
    if not ok:
        raise core.MachineryError('C10 negative control failed: got %r want %r' % (got, want))


def replay(path, chk):
    rp = json.load(open(path))
    if str(rp.get('class', {}).get('clause', '')).startswith('C10.asm'):
        asm = importlib.import_module('vf.c10_asm')
        asm.replay_asm(rp['detail'], chk)
        return chk.finish()
    b = bytes.fromhex(rp['detail']['bytes'])
    obs = observe([b])
    recs = [to_record(0, obs[0])]
    verdicts, st = core.judge('T_C10', recs, shards=1)
    chk.add_tlc(st)
    chk.cov['traces_validated_against_impl'] = 1
    for v in verdicts:
        for c in v['v']:
            o, inp = culprit(obs[0], c)
            key = dict({'clause': 'C10.total', 'how': 'internal'}, **o['exc']) if o['k'] == 'internal' else {'clause': c['clause'], 'where': c['where']}
            chk.violation(key, {'bytes': b.hex(), 'input': inp.hex(), 'outcome': o})
    return chk.finish()
