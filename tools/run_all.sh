#!/bin/sh
# usage: tools/run_all.sh quick|thorough [ids...]   runs the registered checks one after the other against /repo, prints a summary
TIER=${1:-quick}; shift
cd /verif
IDS=${*:-$(python3 -c "import json;print(' '.join(c['property_id'] for c in json.load(open('MANIFEST.json'))['checks']))")}
for c in $IDS; do
  rm -rf replays/$c
  timeout 7200 ./check $c --tier $TIER > /var/tmp/runall_$c.log 2>&1; rc=$?
  echo "$c rc=$rc $(grep -E "^$c $TIER" /var/tmp/runall_$c.log | tail -1)"
  grep -E "^VIOLATION|^   class=|MACHINERY" /var/tmp/runall_$c.log | head -20
done
