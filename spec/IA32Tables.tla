----------------------------- MODULE IA32Tables -----------------------------
(* IA-32 opcode maps, transcribed from the Intel SDM vol. 2 Appendix A        *)
(* (Tables A-2 .. A-6 and the x87 escape tables A-7 .. A-22) in SDM notation. *)
(* NOT derived from miasmX's addop rows.                                      *)
(*                                                                            *)
(* Row:  [mn, ops, g, at]                                                     *)
(*   mn  mnemonic (lower case; the operand-size-32 name where the SDM lists   *)
(*       a 16/32 pair, see Mn16)                                              *)
(*   ops operand codes: addressing method + operand type, SDM A.2.1/A.2.2     *)
(*       (Eb Ev Gb Gv Ib Iz Jb Jz M Ma Mp Ob Ov Sw Cd Dd Xb Yv ...), plus     *)
(*       fixed registers (AL CL DX eAX ES ..), "1", Zb/Zv (register in the    *)
(*       low three opcode bits), ST0/STi (x87 stack), and the mod-split       *)
(*       codes of the SDM ("Rv/Mw" is written RvMw, "Ux/Mq" UxMq ...).        *)
(*   g   ""  ordinary row; "P4" row split by mandatory prefix (v = <<none,66, *)
(*       F3,F2>>); "GRP" ModRM-reg group (name n); "MOD" row split by mod     *)
(*       (m = memory form, r = register form); "RM" split by ModRM.rm (mod=3) *)
(*       "ESC" x87 escape; "2B"/"38"/"3A" opcode escapes; "PFX" prefix byte   *)
(*   at  attributes: "lock" lockable (memory destination), "str" string op    *)
(*       (REP), "strcc" (REPE/REPNE), "os" operand-size attribute matters     *)
(*       beyond the operand codes, "as" address-size attribute matters beyond *)
(*       explicit memory operands, "segsrc" segment override applies to an    *)
(*       implicit DS source, "o64" (only defined in 64-bit mode by Intel),    *)
(*       "notrack" (3E is the CET NOTRACK prefix), "undoc" undocumented       *)
EXTENDS Integers, Sequences, TLC

Rw(m, o)      == [mn |-> m,  ops |-> o,    g |-> "",    at |-> {}]
Ra(m, o, a)   == [mn |-> m,  ops |-> o,    g |-> "",    at |-> a]
NONE          == [mn |-> "", ops |-> <<>>, g |-> "",    at |-> {}]
Gp(n, o)      == [mn |-> "", ops |-> o,    g |-> "GRP", at |-> {}, n |-> n]
P4(a,b,c,d)   == [mn |-> "", ops |-> <<>>, g |-> "P4",  at |-> {}, v |-> <<a,b,c,d>>]
MOD(m, r)     == [mn |-> "", ops |-> <<>>, g |-> "MOD", at |-> {}, m |-> m, r |-> r]
RM(t)         == [mn |-> "", ops |-> <<>>, g |-> "RM",  at |-> {}, t |-> t]
Spc(k)        == [mn |-> "", ops |-> <<>>, g |-> k,     at |-> {}]
IsNone(r)     == r.g = "" /\ r.mn = ""
\* P4 shorthands
NP(a)         == P4(a, NONE, NONE, NONE)
N6(a, b)      == P4(a, b, NONE, NONE)
O6(b)         == P4(NONE, b, NONE, NONE)

ALU == <<"add","or","adc","sbb","and","sub","xor","cmp">>
CC  == <<"o","no","b","ae","e","ne","be","a","s","ns","p","np","l","ge","le","g">>
L   == {"lock"}

\* ------------------------------------------------------------------ Table A-2
AluBlock(k) == LET m == ALU[k+1]  a == IF m = "cmp" THEN {} ELSE L IN
   << Ra(m, <<"Eb","Gb">>, a), Ra(m, <<"Ev","Gv">>, a), Rw(m, <<"Gb","Eb">>), Rw(m, <<"Gv","Ev">>),
      Rw(m, <<"AL","Ib">>), Rw(m, <<"eAX","Iz">>) >>
Rep8(r) == <<r,r,r,r,r,r,r,r>>
OS == {"os"}

Map1_0 == AluBlock(0) \o <<Ra("push", <<"ES">>, OS), Ra("pop", <<"ES">>, OS)>> \o AluBlock(1) \o <<Ra("push", <<"CS">>, OS), Spc("2B")>>
Map1_1 == AluBlock(2) \o <<Ra("push", <<"SS">>, OS), Ra("pop", <<"SS">>, OS)>> \o AluBlock(3) \o <<Ra("push", <<"DS">>, OS), Ra("pop", <<"DS">>, OS)>>
Map1_2 == AluBlock(4) \o <<Spc("PFX"), Rw("daa", <<>>)>> \o AluBlock(5) \o <<Spc("PFX"), Rw("das", <<>>)>>
Map1_3 == AluBlock(6) \o <<Spc("PFX"), Rw("aaa", <<>>)>> \o AluBlock(7) \o <<Spc("PFX"), Rw("aas", <<>>)>>
Map1_4 == Rep8(Rw("inc", <<"Zv">>)) \o Rep8(Rw("dec", <<"Zv">>))
Map1_5 == Rep8(Rw("push", <<"Zv">>)) \o Rep8(Rw("pop", <<"Zv">>))
Map1_6 == << Ra("pushad", <<>>, OS), Ra("popad", <<>>, OS), Rw("bound", <<"Gv","Ma">>), Rw("arpl", <<"Ew","Gw">>),
             Spc("PFX"), Spc("PFX"), Spc("PFX"), Spc("PFX"),
             Rw("push", <<"Iz">>), Rw("imul", <<"Gv","Ev","Iz">>), Ra("push", <<"Ibs">>, OS), Rw("imul", <<"Gv","Ev","Ibs">>),
             Ra("insb", <<"Yb","DX">>, {"str","as"}), Ra("insd", <<"Yz","DX">>, {"str","as","os"}),
             Ra("outsb", <<"DX","Xb">>, {"str","as","segsrc"}), Ra("outsd", <<"DX","Xz">>, {"str","as","os","segsrc"}) >>
Map1_7 == [i \in 1..16 |-> Ra("j" \o CC[i], <<"Jb">>, OS)]       \* operand size 16 truncates EIP: 66 is not superfluous
Map1_8 == << Gp("1", <<"Eb","Ib">>), Gp("1", <<"Ev","Iz">>), Gp("1", <<"Eb","Ib">>), Gp("1", <<"Ev","Ibs">>),
             Rw("test", <<"Eb","Gb">>), Rw("test", <<"Ev","Gv">>), Ra("xchg", <<"Eb","Gb">>, L), Ra("xchg", <<"Ev","Gv">>, L),
             Rw("mov", <<"Eb","Gb">>), Rw("mov", <<"Ev","Gv">>), Rw("mov", <<"Gb","Eb">>), Rw("mov", <<"Gv","Ev">>),
             Rw("mov", <<"RvMw","Sw">>), Rw("lea", <<"Gv","M">>), Rw("mov", <<"Sw","RvMw">>), Gp("1A", <<"Ev">>) >>
Map1_9 == << P4(Rw("nop", <<>>), Rw("nop", <<>>), Rw("pause", <<>>), Rw("nop", <<>>)) >>
          \o [i \in 1..7 |-> Rw("xchg", <<"Zv","eAX">>)]
          \o << Ra("cwde", <<>>, OS), Ra("cdq", <<>>, OS), Rw("callf", <<"Ap">>), Rw("wait", <<>>),
                Ra("pushfd", <<>>, OS), Ra("popfd", <<>>, OS), Rw("sahf", <<>>), Rw("lahf", <<>>) >>
Map1_A == << Rw("mov", <<"AL","Ob">>), Rw("mov", <<"eAX","Ov">>), Rw("mov", <<"Ob","AL">>), Rw("mov", <<"Ov","eAX">>),
             Ra("movsb", <<"Yb","Xb">>, {"str","as","segsrc"}), Ra("movsd", <<"Yv","Xv">>, {"str","as","os","segsrc"}),
             Ra("cmpsb", <<"Xb","Yb">>, {"strcc","as","segsrc"}), Ra("cmpsd", <<"Xv","Yv">>, {"strcc","as","os","segsrc"}),
             Rw("test", <<"AL","Ib">>), Rw("test", <<"eAX","Iz">>),
             Ra("stosb", <<"Yb","AL">>, {"str","as"}), Ra("stosd", <<"Yv","eAX">>, {"str","as","os"}),
             Ra("lodsb", <<"AL","Xb">>, {"str","as","segsrc"}), Ra("lodsd", <<"eAX","Xv">>, {"str","as","os","segsrc"}),
             Ra("scasb", <<"AL","Yb">>, {"strcc","as"}), Ra("scasd", <<"eAX","Yv">>, {"strcc","as","os"}) >>
Map1_B == Rep8(Rw("mov", <<"Zb","Ib">>)) \o Rep8(Rw("mov", <<"Zv","Iv">>))
Map1_C == << Gp("2", <<"Eb","Ib">>), Gp("2", <<"Ev","Ib">>), Ra("ret", <<"Iw">>, OS), Ra("ret", <<>>, OS),
             Rw("les", <<"Gz","Mp">>), Rw("lds", <<"Gz","Mp">>), Gp("11", <<"Eb","Ib">>), Gp("11", <<"Ev","Iz">>),
             Ra("enter", <<"Iw","Ib">>, OS), Ra("leave", <<>>, OS), Ra("retf", <<"Iw">>, OS), Ra("retf", <<>>, OS),
             Rw("int3", <<>>), Rw("int", <<"Ib">>), Rw("into", <<>>), Ra("iretd", <<>>, OS) >>
Map1_D == << Gp("2", <<"Eb","1">>), Gp("2", <<"Ev","1">>), Gp("2", <<"Eb","CL">>), Gp("2", <<"Ev","CL">>),
             Rw("aam", <<"Ib">>), Rw("aad", <<"Ib">>), NONE, Ra("xlat", <<>>, {"as","segsrc"}) >>
          \o Rep8(Spc("ESC"))
Map1_E == << Ra("loopne", <<"Jb">>, {"as","os"}), Ra("loope", <<"Jb">>, {"as","os"}), Ra("loop", <<"Jb">>, {"as","os"}), Ra("jecxz", <<"Jb">>, {"as","os"}),
             Rw("in", <<"AL","Ib">>), Rw("in", <<"eAX","Ib">>), Rw("out", <<"Ib","AL">>), Rw("out", <<"Ib","eAX">>),
             Rw("call", <<"Jz">>), Rw("jmp", <<"Jz">>), Rw("jmpf", <<"Ap">>), Ra("jmp", <<"Jb">>, OS),
             Rw("in", <<"AL","DX">>), Rw("in", <<"eAX","DX">>), Rw("out", <<"DX","AL">>), Rw("out", <<"DX","eAX">>) >>
Map1_F == << Spc("PFX"), Rw("int1", <<>>), Spc("PFX"), Spc("PFX"),
             Rw("hlt", <<>>), Rw("cmc", <<>>), Gp("3b", <<"Eb">>), Gp("3v", <<"Ev">>),
             Rw("clc", <<>>), Rw("stc", <<>>), Rw("cli", <<>>), Rw("sti", <<>>),
             Rw("cld", <<>>), Rw("std", <<>>), Gp("4", <<"Eb">>), Gp("5", <<"Ev">>) >>
Map1Rows == <<Map1_0, Map1_1, Map1_2, Map1_3, Map1_4, Map1_5, Map1_6, Map1_7,
              Map1_8, Map1_9, Map1_A, Map1_B, Map1_C, Map1_D, Map1_E, Map1_F>>
Map1 == TLCEval([b \in 0..255 |-> Map1Rows[(b \div 16) + 1][(b % 16) + 1]])

\* mnemonic pairs selected by the operand-size attribute (32 -> 16) and address-size attribute
Mn16 == [cwde |-> "cbw", cdq |-> "cwd", pushad |-> "pusha", popad |-> "popa", pushfd |-> "pushf", popfd |-> "popf",
         iretd |-> "iret", movsd |-> "movsw", cmpsd |-> "cmpsw", stosd |-> "stosw", lodsd |-> "lodsw",
         scasd |-> "scasw", insd |-> "insw", outsd |-> "outsw"]
MnA16 == [jecxz |-> "jcxz"]

\* ------------------------------------------------------------------ Table A-3 (0F xx)
\* packed rows:  none: mm form, 66: xmm form
PQ(m)   == N6(Rw(m, <<"Pq","Qq">>), Rw(m, <<"Vx","Wx">>))
PS4(m)  == P4(Rw(m \o "ps", <<"Vps","Wps">>), Rw(m \o "pd", <<"Vpd","Wpd">>), Rw(m \o "ss", <<"Vss","Wss">>), Rw(m \o "sd", <<"Vsd","Wsd">>))
PS2(m)  == N6(Rw(m \o "ps", <<"Vps","Wps">>), Rw(m \o "pd", <<"Vpd","Wpd">>))

Map2_0 == << Gp("6", <<>>), Gp("7", <<>>), Rw("lar", <<"Gv","RvMw">>), Rw("lsl", <<"Gv","RvMw">>),
             NONE, Ra("syscall", <<>>, {"o64"}), Rw("clts", <<>>), Ra("sysret", <<>>, {"o64"}),
             Rw("invd", <<>>), Rw("wbinvd", <<>>), NONE, Rw("ud2", <<>>),
             NONE, Gp("P", <<>>), NONE, NONE >>
Map2_1 == << P4(Rw("movups", <<"Vps","Wps">>), Rw("movupd", <<"Vpd","Wpd">>), Rw("movss", <<"Vss","Wss">>), Rw("movsd", <<"Vsd","Wsd">>)),
             P4(Rw("movups", <<"Wps","Vps">>), Rw("movupd", <<"Wpd","Vpd">>), Rw("movss", <<"Wss","Vss">>), Rw("movsd", <<"Wsd","Vsd">>)),
             P4(MOD(Rw("movlps", <<"Vq","Mq">>), Rw("movhlps", <<"Vq","Uq">>)), Rw("movlpd", <<"Vq","Mq">>),
                Rw("movsldup", <<"Vx","Wx">>), Rw("movddup", <<"Vx","Wq">>)),
             N6(Rw("movlps", <<"Mq","Vq">>), Rw("movlpd", <<"Mq","Vq">>)),
             PS2("unpckl"), PS2("unpckh"),
             P4(MOD(Rw("movhps", <<"Vq","Mq">>), Rw("movlhps", <<"Vq","Uq">>)), Rw("movhpd", <<"Vq","Mq">>),
                Rw("movshdup", <<"Vx","Wx">>), NONE),
             N6(Rw("movhps", <<"Mq","Vq">>), Rw("movhpd", <<"Mq","Vq">>)),
             Gp("16", <<>>), NONE, NONE, NONE, NONE, NONE,
             P4(NONE, NONE, Gp("1E", <<>>), NONE),
             Gp("NOP", <<"Ev">>) >>
Map2_2 == << Rw("mov", <<"Rd","Cd">>), Rw("mov", <<"Rd","Dd">>), Rw("mov", <<"Cd","Rd">>), Rw("mov", <<"Dd","Rd">>),
             NONE, NONE, NONE, NONE,
             PS2("mova"),
             N6(Rw("movaps", <<"Wps","Vps">>), Rw("movapd", <<"Wpd","Vpd">>)),
             P4(Rw("cvtpi2ps", <<"Vps","Qq">>), Rw("cvtpi2pd", <<"Vpd","Qq">>), Rw("cvtsi2ss", <<"Vss","Ed">>), Rw("cvtsi2sd", <<"Vsd","Ed">>)),
             N6(Rw("movntps", <<"Mps","Vps">>), Rw("movntpd", <<"Mpd","Vpd">>)),
             P4(Rw("cvttps2pi", <<"Pq","Wq">>), Rw("cvttpd2pi", <<"Pq","Wpd">>), Rw("cvttss2si", <<"Gd","Wss">>), Rw("cvttsd2si", <<"Gd","Wsd">>)),
             P4(Rw("cvtps2pi", <<"Pq","Wq">>), Rw("cvtpd2pi", <<"Pq","Wpd">>), Rw("cvtss2si", <<"Gd","Wss">>), Rw("cvtsd2si", <<"Gd","Wsd">>)),
             N6(Rw("ucomiss", <<"Vss","Wss">>), Rw("ucomisd", <<"Vsd","Wsd">>)),
             N6(Rw("comiss", <<"Vss","Wss">>), Rw("comisd", <<"Vsd","Wsd">>)) >>
Map2_3 == << Rw("wrmsr", <<>>), Rw("rdtsc", <<>>), Rw("rdmsr", <<>>), Rw("rdpmc", <<>>),
             Rw("sysenter", <<>>), Rw("sysexit", <<>>), NONE, Rw("getsec", <<>>),
             Spc("38"), NONE, Spc("3A"), NONE, NONE, NONE, NONE, NONE >>
Map2_4 == [i \in 1..16 |-> Rw("cmov" \o CC[i], <<"Gv","Ev">>)]
Map2_5 == << N6(Rw("movmskps", <<"Gd","Ups">>), Rw("movmskpd", <<"Gd","Upd">>)),
             PS4("sqrt"),
             P4(Rw("rsqrtps", <<"Vps","Wps">>), NONE, Rw("rsqrtss", <<"Vss","Wss">>), NONE),
             P4(Rw("rcpps", <<"Vps","Wps">>), NONE, Rw("rcpss", <<"Vss","Wss">>), NONE),
             PS2("and"), PS2("andn"), PS2("or"), PS2("xor"),
             PS4("add"), PS4("mul"),
             P4(Rw("cvtps2pd", <<"Vpd","Wq">>), Rw("cvtpd2ps", <<"Vps","Wpd">>), Rw("cvtss2sd", <<"Vsd","Wss">>), Rw("cvtsd2ss", <<"Vss","Wsd">>)),
             P4(Rw("cvtdq2ps", <<"Vps","Wdq">>), Rw("cvtps2dq", <<"Vdq","Wps">>), Rw("cvttps2dq", <<"Vdq","Wps">>), NONE),
             PS4("sub"), PS4("min"), PS4("div"), PS4("max") >>
Map2_6 == << N6(Rw("punpcklbw", <<"Pq","Qd">>), Rw("punpcklbw", <<"Vx","Wx">>)),
             N6(Rw("punpcklwd", <<"Pq","Qd">>), Rw("punpcklwd", <<"Vx","Wx">>)),
             N6(Rw("punpckldq", <<"Pq","Qd">>), Rw("punpckldq", <<"Vx","Wx">>)),
             PQ("packsswb"), PQ("pcmpgtb"), PQ("pcmpgtw"), PQ("pcmpgtd"), PQ("packuswb"),
             PQ("punpckhbw"), PQ("punpckhwd"), PQ("punpckhdq"), PQ("packssdw"),
             O6(Rw("punpcklqdq", <<"Vx","Wx">>)), O6(Rw("punpckhqdq", <<"Vx","Wx">>)),
             N6(Rw("movd", <<"Pd","Ed">>), Rw("movd", <<"Vd","Ed">>)),
             P4(Rw("movq", <<"Pq","Qq">>), Rw("movdqa", <<"Vx","Wx">>), Rw("movdqu", <<"Vx","Wx">>), NONE) >>
Map2_7 == << P4(Rw("pshufw", <<"Pq","Qq","Ib">>), Rw("pshufd", <<"Vx","Wx","Ib">>), Rw("pshufhw", <<"Vx","Wx","Ib">>), Rw("pshuflw", <<"Vx","Wx","Ib">>)),
             Gp("12", <<>>), Gp("13", <<>>), Gp("14", <<>>),
             PQ("pcmpeqb"), PQ("pcmpeqw"), PQ("pcmpeqd"), NP(Rw("emms", <<>>)),
             NP(Rw("vmread", <<"Ed","Gd">>)), NP(Rw("vmwrite", <<"Gd","Ed">>)), NONE, NONE,
             P4(NONE, Rw("haddpd", <<"Vpd","Wpd">>), NONE, Rw("haddps", <<"Vps","Wps">>)),
             P4(NONE, Rw("hsubpd", <<"Vpd","Wpd">>), NONE, Rw("hsubps", <<"Vps","Wps">>)),
             P4(Rw("movd", <<"Ed","Pd">>), Rw("movd", <<"Ed","Vd">>), Rw("movq", <<"Vq","Wq">>), NONE),
             P4(Rw("movq", <<"Qq","Pq">>), Rw("movdqa", <<"Wx","Vx">>), Rw("movdqu", <<"Wx","Vx">>), NONE) >>
Map2_8 == [i \in 1..16 |-> Rw("j" \o CC[i], <<"Jz">>)]
Map2_9 == [i \in 1..16 |-> Rw("set" \o CC[i], <<"Eb">>)]
Map2_A == << Ra("push", <<"FS">>, OS), Ra("pop", <<"FS">>, OS), Rw("cpuid", <<>>), Rw("bt", <<"Ev","Gv">>),
             Rw("shld", <<"Ev","Gv","Ib">>), Rw("shld", <<"Ev","Gv","CL">>), NONE, NONE,
             Ra("push", <<"GS">>, OS), Ra("pop", <<"GS">>, OS), Rw("rsm", <<>>), Ra("bts", <<"Ev","Gv">>, L),
             Rw("shrd", <<"Ev","Gv","Ib">>), Rw("shrd", <<"Ev","Gv","CL">>), Gp("15", <<>>), Rw("imul", <<"Gv","Ev">>) >>
Map2_B == << Ra("cmpxchg", <<"Eb","Gb">>, L), Ra("cmpxchg", <<"Ev","Gv">>, L), Rw("lss", <<"Gv","Mp">>), Ra("btr", <<"Ev","Gv">>, L),
             Rw("lfs", <<"Gv","Mp">>), Rw("lgs", <<"Gv","Mp">>), Rw("movzx", <<"Gv","Eb">>), Rw("movzx", <<"Gv","Ew">>),
             P4(NONE, NONE, Rw("popcnt", <<"Gv","Ev">>), NONE), Rw("ud1", <<"Gv","Ev">>), Gp("8", <<"Ev","Ib">>), Ra("btc", <<"Ev","Gv">>, L),
             P4(Rw("bsf", <<"Gv","Ev">>), Rw("bsf", <<"Gv","Ev">>), Rw("tzcnt", <<"Gv","Ev">>), Rw("bsf", <<"Gv","Ev">>)),
             P4(Rw("bsr", <<"Gv","Ev">>), Rw("bsr", <<"Gv","Ev">>), Rw("lzcnt", <<"Gv","Ev">>), Rw("bsr", <<"Gv","Ev">>)),
             Rw("movsx", <<"Gv","Eb">>), Rw("movsx", <<"Gv","Ew">>) >>
Map2_C == << Ra("xadd", <<"Eb","Gb">>, L), Ra("xadd", <<"Ev","Gv">>, L),
             P4(Rw("cmpps", <<"Vps","Wps","Ib">>), Rw("cmppd", <<"Vpd","Wpd","Ib">>), Rw("cmpss", <<"Vss","Wss","Ib">>), Rw("cmpsd", <<"Vsd","Wsd","Ib">>)),
             NP(Rw("movnti", <<"Md","Gd">>)),
             N6(Rw("pinsrw", <<"Pq","RdMw","Ib">>), Rw("pinsrw", <<"Vdq","RdMw","Ib">>)),
             N6(Rw("pextrw", <<"Gd","Nq","Ib">>), Rw("pextrw", <<"Gd","Udq","Ib">>)),
             N6(Rw("shufps", <<"Vps","Wps","Ib">>), Rw("shufpd", <<"Vpd","Wpd","Ib">>)),
             Gp("9", <<>>) >>
          \o Rep8(Rw("bswap", <<"Zd">>))
Map2_D == << P4(NONE, Rw("addsubpd", <<"Vpd","Wpd">>), NONE, Rw("addsubps", <<"Vps","Wps">>)),
             PQ("psrlw"), PQ("psrld"), PQ("psrlq"), PQ("paddq"), PQ("pmullw"),
             P4(NONE, Rw("movq", <<"Wq","Vq">>), Rw("movq2dq", <<"Vdq","Nq">>), Rw("movdq2q", <<"Pq","Uq">>)),
             N6(Rw("pmovmskb", <<"Gd","Nq">>), Rw("pmovmskb", <<"Gd","Ux">>)),
             PQ("psubusb"), PQ("psubusw"), PQ("pminub"), PQ("pand"), PQ("paddusb"), PQ("paddusw"), PQ("pmaxub"), PQ("pandn") >>
Map2_E == << PQ("pavgb"), PQ("psraw"), PQ("psrad"), PQ("pavgw"), PQ("pmulhuw"), PQ("pmulhw"),
             P4(NONE, Rw("cvttpd2dq", <<"Vx","Wpd">>), Rw("cvtdq2pd", <<"Vx","Wq">>), Rw("cvtpd2dq", <<"Vx","Wpd">>)),
             N6(Rw("movntq", <<"Mq","Pq">>), Rw("movntdq", <<"Mx","Vx">>)),
             PQ("psubsb"), PQ("psubsw"), PQ("pminsw"), PQ("por"), PQ("paddsb"), PQ("paddsw"), PQ("pmaxsw"), PQ("pxor") >>
Map2_F == << P4(NONE, NONE, NONE, Rw("lddqu", <<"Vx","Mx">>)),
             PQ("psllw"), PQ("pslld"), PQ("psllq"), PQ("pmuludq"), PQ("pmaddwd"), PQ("psadbw"),
             N6(Ra("maskmovq", <<"Pq","Nq">>, {"as","segsrc"}), Ra("maskmovdqu", <<"Vdq","Udq">>, {"as","segsrc"})),
             PQ("psubb"), PQ("psubw"), PQ("psubd"), PQ("psubq"), PQ("paddb"), PQ("paddw"), PQ("paddd"), Rw("ud0", <<"Gv","Ev">>) >>
Map2Rows == <<Map2_0, Map2_1, Map2_2, Map2_3, Map2_4, Map2_5, Map2_6, Map2_7,
              Map2_8, Map2_9, Map2_A, Map2_B, Map2_C, Map2_D, Map2_E, Map2_F>>
Map2 == TLCEval([b \in 0..255 |-> Map2Rows[(b \div 16) + 1][(b % 16) + 1]])

\* ------------------------------------------------------------------ Table A-4 (0F 38 xx), sparse
X6(m, o) == O6(Rw(m, o))
Map38 == TLCEval(
   (0 :> PQ("pshufb")) @@ (1 :> PQ("phaddw")) @@ (2 :> PQ("phaddd")) @@ (3 :> PQ("phaddsw")) @@
   (4 :> PQ("pmaddubsw")) @@ (5 :> PQ("phsubw")) @@ (6 :> PQ("phsubd")) @@ (7 :> PQ("phsubsw")) @@
   (8 :> PQ("psignb")) @@ (9 :> PQ("psignw")) @@ (10 :> PQ("psignd")) @@ (11 :> PQ("pmulhrsw")) @@
   (16 :> X6("pblendvb", <<"Vdq","Wdq">>)) @@ (20 :> X6("blendvps", <<"Vdq","Wdq">>)) @@ (21 :> X6("blendvpd", <<"Vdq","Wdq">>)) @@
   (23 :> X6("ptest", <<"Vx","Wx">>)) @@
   (28 :> PQ("pabsb")) @@ (29 :> PQ("pabsw")) @@ (30 :> PQ("pabsd")) @@
   (32 :> X6("pmovsxbw", <<"Vx","UxMq">>)) @@ (33 :> X6("pmovsxbd", <<"Vx","UxMd">>)) @@ (34 :> X6("pmovsxbq", <<"Vx","UxMw">>)) @@
   (35 :> X6("pmovsxwd", <<"Vx","UxMq">>)) @@ (36 :> X6("pmovsxwq", <<"Vx","UxMd">>)) @@ (37 :> X6("pmovsxdq", <<"Vx","UxMq">>)) @@
   (40 :> X6("pmuldq", <<"Vx","Wx">>)) @@ (41 :> X6("pcmpeqq", <<"Vx","Wx">>)) @@ (42 :> X6("movntdqa", <<"Vx","Mx">>)) @@
   (43 :> X6("packusdw", <<"Vx","Wx">>)) @@
   (48 :> X6("pmovzxbw", <<"Vx","UxMq">>)) @@ (49 :> X6("pmovzxbd", <<"Vx","UxMd">>)) @@ (50 :> X6("pmovzxbq", <<"Vx","UxMw">>)) @@
   (51 :> X6("pmovzxwd", <<"Vx","UxMq">>)) @@ (52 :> X6("pmovzxwq", <<"Vx","UxMd">>)) @@ (53 :> X6("pmovzxdq", <<"Vx","UxMq">>)) @@
   (55 :> X6("pcmpgtq", <<"Vx","Wx">>)) @@
   (56 :> X6("pminsb", <<"Vx","Wx">>)) @@ (57 :> X6("pminsd", <<"Vx","Wx">>)) @@ (58 :> X6("pminuw", <<"Vx","Wx">>)) @@ (59 :> X6("pminud", <<"Vx","Wx">>)) @@
   (60 :> X6("pmaxsb", <<"Vx","Wx">>)) @@ (61 :> X6("pmaxsd", <<"Vx","Wx">>)) @@ (62 :> X6("pmaxuw", <<"Vx","Wx">>)) @@ (63 :> X6("pmaxud", <<"Vx","Wx">>)) @@
   (64 :> X6("pmulld", <<"Vx","Wx">>)) @@ (65 :> X6("phminposuw", <<"Vdq","Wdq">>)) @@
   (128 :> X6("invept", <<"Gd","Mdq">>)) @@ (129 :> X6("invvpid", <<"Gd","Mdq">>)) @@ (130 :> X6("invpcid", <<"Gd","Mdq">>)) @@
   (219 :> X6("aesimc", <<"Vdq","Wdq">>)) @@ (220 :> X6("aesenc", <<"Vdq","Wdq">>)) @@ (221 :> X6("aesenclast", <<"Vdq","Wdq">>)) @@
   (222 :> X6("aesdec", <<"Vdq","Wdq">>)) @@ (223 :> X6("aesdeclast", <<"Vdq","Wdq">>)) @@
   (240 :> P4(Rw("movbe", <<"Gv","Mv">>), Rw("movbe", <<"Gv","Mv">>), NONE, Rw("crc32", <<"Gd","Eb">>))) @@
   (241 :> P4(Rw("movbe", <<"Mv","Gv">>), Rw("movbe", <<"Mv","Gv">>), NONE, Rw("crc32", <<"Gd","Ev">>))) )

\* ------------------------------------------------------------------ Table A-5 (0F 3A xx), sparse
Map3A == TLCEval(
   (8 :> X6("roundps", <<"Vx","Wx","Ib">>)) @@ (9 :> X6("roundpd", <<"Vx","Wx","Ib">>)) @@
   (10 :> X6("roundss", <<"Vss","Wss","Ib">>)) @@ (11 :> X6("roundsd", <<"Vsd","Wsd","Ib">>)) @@
   (12 :> X6("blendps", <<"Vx","Wx","Ib">>)) @@ (13 :> X6("blendpd", <<"Vx","Wx","Ib">>)) @@ (14 :> X6("pblendw", <<"Vx","Wx","Ib">>)) @@
   (15 :> N6(Rw("palignr", <<"Pq","Qq","Ib">>), Rw("palignr", <<"Vx","Wx","Ib">>))) @@
   (20 :> X6("pextrb", <<"RdMb","Vdq","Ib">>)) @@ (21 :> X6("pextrw", <<"RdMw","Vdq","Ib">>)) @@
   (22 :> X6("pextrd", <<"Ed","Vdq","Ib">>)) @@ (23 :> X6("extractps", <<"Ed","Vdq","Ib">>)) @@
   (32 :> X6("pinsrb", <<"Vdq","RdMb","Ib">>)) @@ (33 :> X6("insertps", <<"Vdq","UdqMd","Ib">>)) @@ (34 :> X6("pinsrd", <<"Vdq","Ed","Ib">>)) @@
   (64 :> X6("dpps", <<"Vx","Wx","Ib">>)) @@ (65 :> X6("dppd", <<"Vdq","Wdq","Ib">>)) @@ (66 :> X6("mpsadbw", <<"Vx","Wx","Ib">>)) @@
   (68 :> X6("pclmulqdq", <<"Vdq","Wdq","Ib">>)) @@
   (96 :> X6("pcmpestrm", <<"Vdq","Wdq","Ib">>)) @@ (97 :> X6("pcmpestri", <<"Vdq","Wdq","Ib">>)) @@
   (98 :> X6("pcmpistrm", <<"Vdq","Wdq","Ib">>)) @@ (99 :> X6("pcmpistri", <<"Vdq","Wdq","Ib">>)) @@
   (223 :> X6("aeskeygenassist", <<"Vdq","Wdq","Ib">>)) )

\* ------------------------------------------------------------------ Table A-6 (groups)
\* a group slot's ops are appended to the opcode's ops unless the slot has attribute "own"
Own(m, o)     == Ra(m, o, {"own"})
OwnA(m, o, a) == Ra(m, o, a \cup {"own"})
S0(m)    == Rw(m, <<>>)
SL(m)    == Ra(m, <<>>, L)
Groups == [
  g1  |-> <<SL("add"), SL("or"), SL("adc"), SL("sbb"), SL("and"), SL("sub"), SL("xor"), S0("cmp")>>,
  g1A |-> <<S0("pop"), NONE, NONE, NONE, NONE, NONE, NONE, NONE>>,
  g2  |-> <<S0("rol"), S0("ror"), S0("rcl"), S0("rcr"), S0("shl"), S0("shr"), NONE, S0("sar")>>,
  g3b |-> <<Rw("test", <<"Ib">>), NONE, SL("not"), SL("neg"), S0("mul"), S0("imul"), S0("div"), S0("idiv")>>,
  g3v |-> <<Rw("test", <<"Iz">>), NONE, SL("not"), SL("neg"), S0("mul"), S0("imul"), S0("div"), S0("idiv")>>,
  g4  |-> <<SL("inc"), SL("dec"), NONE, NONE, NONE, NONE, NONE, NONE>>,
  g5  |-> <<SL("inc"), SL("dec"), Ra("call", <<>>, {"notrack"}), Own("callf", <<"Mp">>),
            Ra("jmp", <<>>, {"notrack"}), Own("jmpf", <<"Mp">>), S0("push"), NONE>>,
  g6  |-> <<Own("sldt", <<"RvMw">>), Own("str", <<"RvMw">>), Own("lldt", <<"Ew">>), Own("ltr", <<"Ew">>),
            Own("verr", <<"Ew">>), Own("verw", <<"Ew">>), NONE, NONE>>,
  g7  |-> <<MOD(Own("sgdt", <<"Ms">>), RM(<<NONE, S0("vmcall"), S0("vmlaunch"), S0("vmresume"), S0("vmxoff"), NONE, NONE, NONE>>)),
            MOD(Own("sidt", <<"Ms">>), RM(<<OwnA("monitor", <<>>, {"as","segsrc"}), S0("mwait"), S0("clac"), S0("stac"), NONE, NONE, NONE, NONE>>)),
            MOD(Own("lgdt", <<"Ms">>), RM(<<S0("xgetbv"), S0("xsetbv"), NONE, NONE, S0("vmfunc"), S0("xend"), S0("xtest"), NONE>>)),
            MOD(Own("lidt", <<"Ms">>), NONE),
            Own("smsw", <<"RvMw">>), NONE, Own("lmsw", <<"Ew">>),
            MOD(Own("invlpg", <<"Mb">>), RM(<<Ra("swapgs", <<>>, {"o64"}), S0("rdtscp"), NONE, NONE, NONE, NONE, NONE, NONE>>)) >>,
  g8  |-> <<NONE, NONE, NONE, NONE, S0("bt"), SL("bts"), SL("btr"), SL("btc")>>,
  g9  |-> <<NONE, MOD(OwnA("cmpxchg8b", <<"Mq">>, L), NONE), NONE, MOD(NP(Own("xrstors", <<"M">>)), NONE),
            MOD(NP(Own("xsavec", <<"M">>)), NONE), MOD(NP(Own("xsaves", <<"M">>)), NONE),
            MOD(P4(Own("vmptrld", <<"Mq">>), Own("vmclear", <<"Mq">>), Own("vmxon", <<"Mq">>), NONE), Own("rdrand", <<"Rv">>)),
            MOD(NP(Own("vmptrst", <<"Mq">>)), Own("rdseed", <<"Rv">>)) >>,
  g11 |-> <<S0("mov"), NONE, NONE, NONE, NONE, NONE, NONE, NONE>>,
  g12 |-> <<NONE, NONE, N6(Own("psrlw", <<"Nq","Ib">>), Own("psrlw", <<"Ux","Ib">>)), NONE,
            N6(Own("psraw", <<"Nq","Ib">>), Own("psraw", <<"Ux","Ib">>)), NONE,
            N6(Own("psllw", <<"Nq","Ib">>), Own("psllw", <<"Ux","Ib">>)), NONE>>,
  g13 |-> <<NONE, NONE, N6(Own("psrld", <<"Nq","Ib">>), Own("psrld", <<"Ux","Ib">>)), NONE,
            N6(Own("psrad", <<"Nq","Ib">>), Own("psrad", <<"Ux","Ib">>)), NONE,
            N6(Own("pslld", <<"Nq","Ib">>), Own("pslld", <<"Ux","Ib">>)), NONE>>,
  g14 |-> <<NONE, NONE, N6(Own("psrlq", <<"Nq","Ib">>), Own("psrlq", <<"Ux","Ib">>)), O6(Own("psrldq", <<"Ux","Ib">>)),
            NONE, NONE, N6(Own("psllq", <<"Nq","Ib">>), Own("psllq", <<"Ux","Ib">>)), O6(Own("pslldq", <<"Ux","Ib">>))>>,
  g15 |-> <<MOD(NP(Own("fxsave", <<"Mfx">>)), NONE), MOD(NP(Own("fxrstor", <<"Mfx">>)), NONE),
            MOD(NP(Own("ldmxcsr", <<"Md">>)), NONE), MOD(NP(Own("stmxcsr", <<"Md">>)), NONE),
            MOD(NP(Own("xsave", <<"M">>)), NONE), MOD(NP(Own("xrstor", <<"M">>)), NP(S0("lfence"))),
            MOD(N6(Own("xsaveopt", <<"M">>), Own("clwb", <<"Mb">>)), NP(S0("mfence"))),
            MOD(N6(Own("clflush", <<"Mb">>), Own("clflushopt", <<"Mb">>)), NP(S0("sfence"))) >>,
  g16 |-> <<MOD(Own("prefetchnta", <<"Mb">>), NONE), MOD(Own("prefetcht0", <<"Mb">>), NONE),
            MOD(Own("prefetcht1", <<"Mb">>), NONE), MOD(Own("prefetcht2", <<"Mb">>), NONE), NONE, NONE, NONE, NONE>>,
  gP  |-> <<NONE, MOD(Own("prefetchw", <<"Mb">>), NONE), MOD(Own("prefetchwt1", <<"Mb">>), NONE), NONE, NONE, NONE, NONE, NONE>>,
  g1E |-> <<NONE, NONE, NONE, NONE, NONE, NONE, NONE,
            MOD(NONE, RM(<<NONE, NONE, S0("endbr64"), S0("endbr32"), NONE, NONE, NONE, NONE>>))>>,
  gNOP |-> <<S0("nop"), NONE, NONE, NONE, NONE, NONE, NONE, NONE>> ]
GroupNames == {"1","1A","2","3b","3v","4","5","6","7","8","9","11","12","13","14","15","16","P","NOP","1E"}
GroupOf(n) == CASE n = "1" -> Groups.g1 [] n = "1A" -> Groups.g1A [] n = "2" -> Groups.g2 [] n = "3b" -> Groups.g3b
   [] n = "3v" -> Groups.g3v [] n = "4" -> Groups.g4 [] n = "5" -> Groups.g5 [] n = "6" -> Groups.g6 [] n = "7" -> Groups.g7
   [] n = "8" -> Groups.g8 [] n = "9" -> Groups.g9 [] n = "11" -> Groups.g11 [] n = "12" -> Groups.g12 [] n = "13" -> Groups.g13
   [] n = "14" -> Groups.g14 [] n = "15" -> Groups.g15 [] n = "16" -> Groups.g16 [] n = "P" -> Groups.gP [] n = "NOP" -> Groups.gNOP [] n = "1E" -> Groups.g1E

\* ------------------------------------------------------------------ Tables A-7 .. A-22 (x87 escape)
\* memory forms (mod # 3), indexed by ModRM.reg; register forms (mod = 3) indexed by reg, each either one
\* row for all rm (ST(i) forms) or an RM table of eight rows
FM(m, o) == Rw(m, <<o>>)
FST(m)   == Rw(m, <<"ST0","STi">>)
FTS(m)   == Rw(m, <<"STi","ST0">>)
FI(m)    == Rw(m, <<"STi">>)
F0(m)    == Rw(m, <<>>)
X87Mem == <<
 (* D8 *) <<FM("fadd","Md"), FM("fmul","Md"), FM("fcom","Md"), FM("fcomp","Md"), FM("fsub","Md"), FM("fsubr","Md"), FM("fdiv","Md"), FM("fdivr","Md")>>,
 (* D9 *) <<FM("fld","Md"), NONE, FM("fst","Md"), FM("fstp","Md"), FM("fldenv","Menv"), FM("fldcw","Mw"), FM("fnstenv","Menv"), FM("fnstcw","Mw")>>,
 (* DA *) <<FM("fiadd","Md"), FM("fimul","Md"), FM("ficom","Md"), FM("ficomp","Md"), FM("fisub","Md"), FM("fisubr","Md"), FM("fidiv","Md"), FM("fidivr","Md")>>,
 (* DB *) <<FM("fild","Md"), FM("fisttp","Md"), FM("fist","Md"), FM("fistp","Md"), NONE, FM("fld","Mt"), NONE, FM("fstp","Mt")>>,
 (* DC *) <<FM("fadd","Mq"), FM("fmul","Mq"), FM("fcom","Mq"), FM("fcomp","Mq"), FM("fsub","Mq"), FM("fsubr","Mq"), FM("fdiv","Mq"), FM("fdivr","Mq")>>,
 (* DD *) <<FM("fld","Mq"), FM("fisttp","Mq"), FM("fst","Mq"), FM("fstp","Mq"), FM("frstor","Msave"), NONE, FM("fnsave","Msave"), FM("fnstsw","Mw")>>,
 (* DE *) <<FM("fiadd","Mw"), FM("fimul","Mw"), FM("ficom","Mw"), FM("ficomp","Mw"), FM("fisub","Mw"), FM("fisubr","Mw"), FM("fidiv","Mw"), FM("fidivr","Mw")>>,
 (* DF *) <<FM("fild","Mw"), FM("fisttp","Mw"), FM("fist","Mw"), FM("fistp","Mw"), FM("fbld","Mt"), FM("fild","Mq"), FM("fbstp","Mt"), FM("fistp","Mq")>> >>
X87Reg == <<
 (* D8 *) <<FST("fadd"), FST("fmul"), FI("fcom"), FI("fcomp"), FST("fsub"), FST("fsubr"), FST("fdiv"), FST("fdivr")>>,
 (* D9 *) <<FI("fld"), FI("fxch"), RM(<<F0("fnop"),NONE,NONE,NONE,NONE,NONE,NONE,NONE>>), NONE,
            RM(<<F0("fchs"), F0("fabs"), NONE, NONE, F0("ftst"), F0("fxam"), NONE, NONE>>),
            RM(<<F0("fld1"), F0("fldl2t"), F0("fldl2e"), F0("fldpi"), F0("fldlg2"), F0("fldln2"), F0("fldz"), NONE>>),
            RM(<<F0("f2xm1"), F0("fyl2x"), F0("fptan"), F0("fpatan"), F0("fxtract"), F0("fprem1"), F0("fdecstp"), F0("fincstp")>>),
            RM(<<F0("fprem"), F0("fyl2xp1"), F0("fsqrt"), F0("fsincos"), F0("frndint"), F0("fscale"), F0("fsin"), F0("fcos")>>) >>,
 (* DA *) <<FST("fcmovb"), FST("fcmove"), FST("fcmovbe"), FST("fcmovu"), NONE,
            RM(<<NONE, F0("fucompp"), NONE, NONE, NONE, NONE, NONE, NONE>>), NONE, NONE>>,
 (* DB *) <<FST("fcmovnb"), FST("fcmovne"), FST("fcmovnbe"), FST("fcmovnu"),
            RM(<<NONE, NONE, F0("fnclex"), F0("fninit"), NONE, NONE, NONE, NONE>>), FST("fucomi"), FST("fcomi"), NONE>>,
 (* DC *) <<FTS("fadd"), FTS("fmul"), NONE, NONE, FTS("fsubr"), FTS("fsub"), FTS("fdivr"), FTS("fdiv")>>,
 (* DD *) <<FI("ffree"), NONE, FI("fst"), FI("fstp"), FI("fucom"), FI("fucomp"), NONE, NONE>>,
 (* DE *) <<FTS("faddp"), FTS("fmulp"), NONE, RM(<<NONE, F0("fcompp"), NONE, NONE, NONE, NONE, NONE, NONE>>),
            FTS("fsubrp"), FTS("fsubp"), FTS("fdivrp"), FTS("fdivp")>>,
 (* DF *) <<NONE, NONE, NONE, NONE, RM(<<Rw("fnstsw", <<"AX">>), NONE, NONE, NONE, NONE, NONE, NONE, NONE>>),
            FST("fucomip"), FST("fcomip"), NONE>> >>

\* ------------------------------------------------------------------ operand codes (A.2.1 / A.2.2)
\* am: where the operand comes from; rc: register class of the register form ("" = no register form;
\* "rv" = r16/r32 by operand size); ms: size in bits of the memory form (-1 = no memory form,
\* 0 = no size / not a sized access, -2 = operand size, -3 = operand size + 16 (far pointer),
\* -4 = 2 x operand size (bound), -5 = 16 + 32 pseudo-descriptor: 48)
OCd(am, rc, ms) == [am |-> am, rc |-> rc, ms |-> ms, n |-> 0]
OCf(rc, n)      == [am |-> "F", rc |-> rc, ms |-> -1, n |-> n]
OC == [
  Eb |-> OCd("E","r8",8), Ew |-> OCd("E","r16",16), Ed |-> OCd("E","r32",32), Ev |-> OCd("E","rv",-2),
  RvMw |-> OCd("E","rv",16), RdMb |-> OCd("E","r32",8), RdMw |-> OCd("E","r32",16),
  M |-> OCd("E","",0), Ma |-> OCd("E","",-4), Mp |-> OCd("E","",-3), Ms |-> OCd("E","",-5),
  Mb |-> OCd("E","",8), Mw |-> OCd("E","",16), Md |-> OCd("E","",32), Mq |-> OCd("E","",64), Mt |-> OCd("E","",80),
  Mv |-> OCd("E","",-2), Mx |-> OCd("E","",128), Mdq |-> OCd("E","",128), Mps |-> OCd("E","",128), Mpd |-> OCd("E","",128),
  Mfx |-> OCd("E","",0), Menv |-> OCd("E","",0), Msave |-> OCd("E","",0),
  Rv |-> OCd("E","rv",-1), Rd |-> OCd("R","r32",-1),
  Qq |-> OCd("E","mm",64), Qd |-> OCd("E","mm",32), Nq |-> OCd("E","mm",-1),
  Wx |-> OCd("E","xmm",128), Wdq |-> OCd("E","xmm",128), Wps |-> OCd("E","xmm",128), Wpd |-> OCd("E","xmm",128),
  Wss |-> OCd("E","xmm",32), Wsd |-> OCd("E","xmm",64), Wq |-> OCd("E","xmm",64),
  Ux |-> OCd("E","xmm",-1), Udq |-> OCd("E","xmm",-1), Ups |-> OCd("E","xmm",-1), Upd |-> OCd("E","xmm",-1), Uq |-> OCd("E","xmm",-1),
  UxMq |-> OCd("E","xmm",64), UxMd |-> OCd("E","xmm",32), UxMw |-> OCd("E","xmm",16), UdqMd |-> OCd("E","xmm",32),
  Gb |-> OCd("G","r8",-1), Gw |-> OCd("G","r16",-1), Gd |-> OCd("G","r32",-1), Gv |-> OCd("G","rv",-1), Gz |-> OCd("G","rv",-1),
  Sw |-> OCd("G","sreg",-1), Cd |-> OCd("G","cr",-1), Dd |-> OCd("G","dr",-1),
  Pq |-> OCd("G","mm",-1), Pd |-> OCd("G","mm",-1),
  Vx |-> OCd("G","xmm",-1), Vdq |-> OCd("G","xmm",-1), Vps |-> OCd("G","xmm",-1), Vpd |-> OCd("G","xmm",-1),
  Vss |-> OCd("G","xmm",-1), Vsd |-> OCd("G","xmm",-1), Vq |-> OCd("G","xmm",-1), Vd |-> OCd("G","xmm",-1),
  Zb |-> OCd("Z","r8",-1), Zv |-> OCd("Z","rv",-1), Zd |-> OCd("Z","r32",-1),
  AL |-> OCf("r8",0), CL |-> OCf("r8",1), AX |-> OCf("r16",0), DX |-> OCf("r16",2), eAX |-> OCf("rv",0),
  ES |-> OCf("sreg",0), CS |-> OCf("sreg",1), SS |-> OCf("sreg",2), DS |-> OCf("sreg",3), FS |-> OCf("sreg",4), GS |-> OCf("sreg",5),
  ST0 |-> OCf("st",0), STi |-> OCd("T","st",-1),
  Ib |-> OCd("I","",8), Ibs |-> OCd("IS","",8), Iw |-> OCd("I","",16), Iz |-> OCd("I","",-2), Iv |-> OCd("I","",-2),
  Jb |-> OCd("J","",8), Jz |-> OCd("J","",-2), Ap |-> OCd("A","",-3),
  Ob |-> OCd("O","",8), Ov |-> OCd("O","",-2),
  Xb |-> OCd("X","",8), Xv |-> OCd("X","",-2), Xz |-> OCd("X","",-2), Yb |-> OCd("Y","",8), Yv |-> OCd("Y","",-2), Yz |-> OCd("Y","",-2) ]
OpCodeNames == DOMAIN OC
OCof(c) == IF c = "1" THEN OCd("C1","",8) ELSE OC[c]
\* operand codes whose interpretation depends on the operand-size attribute
OsDependent(c) == LET o == OCof(c) IN o.rc = "rv" \/ o.ms \in {-2,-3,-4}
=============================================================================
