-------------------------------- MODULE BV --------------------------------
(* Fixed-width bit vectors as little-endian tuples of base-256 limbs.        *)
(* A value of width w has exactly NL(w) limbs, the top limb masked to w.     *)
(* No machine word is ever a TLA+ integer (TLC integers are 32 bit).         *)
(* Every constructor is strict (TLCEval): TLC function values are lazy and   *)
(* would otherwise be re-evaluated on every application.                     *)
EXTENDS Integers, Sequences, Bitwise, TLC

NL(w) == (w + 7) \div 8
P2(n) == 2^n                                   \* n <= 30
G(v, i) == IF i >= 1 /\ i <= Len(v) THEN v[i] ELSE 0

Norm(v, w) == LET n == NL(w) r == w % 8 IN
   TLCEval([i \in 1..n |-> IF i = n /\ r # 0 THEN G(v,i) % P2(r) ELSE G(v,i)])
Zero(w) == TLCEval([i \in 1..NL(w) |-> 0])
Ones(w) == Norm([i \in 1..NL(w) |-> 255], w)
IsBV(v, w) == /\ Len(v) = NL(w)
              /\ \A i \in 1..Len(v) : v[i] \in 0..255
              /\ (w % 8 # 0 => v[NL(w)] < P2(w % 8))
IsZero(v) == \A i \in 1..Len(v) : v[i] = 0
FromNat(x, w) == Norm([i \in 1..NL(w) |-> IF i <= 4 THEN (x \div (256^(i-1))) % 256 ELSE 0], w)   \* 0 <= x < 2^31
RECURSIVE ToNatR(_,_)
ToNatR(v, i) == IF i > Len(v) THEN 0 ELSE v[i] + 256 * ToNatR(v, i+1)
ToNat(v) == ToNatR(v, 1)                       \* only when the value is < 2^31
\* value clamped to 0..Cap (shift/rotate counts, small indices)
Cap == 100000
SmallVal(v) == IF \E i \in 4..Len(v) : v[i] # 0 THEN Cap
               ELSE LET x == G(v,1) + 256*G(v,2) + 65536*G(v,3) IN IF x > Cap THEN Cap ELSE x
Bit(v, k) == (G(v, (k \div 8) + 1) \div P2(k % 8)) % 2
Msb(v, w) == Bit(v, w-1)

RECURSIVE AddC(_,_,_,_,_)
AddC(a, b, i, c, n) == IF i > n THEN <<>> ELSE
   LET s == G(a,i) + G(b,i) + c IN <<s % 256>> \o AddC(a, b, i+1, s \div 256, n)
Add(a, b, w) == Norm(AddC(a, b, 1, 0, NL(w)), w)
BNot(a, w) == Norm([i \in 1..NL(w) |-> 255 - G(a,i)], w)
Sub(a, b, w) == Norm(AddC(a, [i \in 1..NL(w) |-> 255 - G(b,i)], 1, 1, NL(w)), w)
Neg(a, w) == Sub(Zero(w), a, w)
\* carry out of bit w-1 of a + b + cin   (cin in {0,1})
CarryOut(a, b, cin, w) ==
   LET full == AddC(a, b, 1, cin, NL(w) + 1) IN Bit(full, w)
BAnd(a, b, w) == TLCEval([i \in 1..NL(w) |-> G(a,i) & G(b,i)])
BOr(a, b, w)  == TLCEval([i \in 1..NL(w) |-> G(a,i) | G(b,i)])
BXor(a, b, w) == TLCEval([i \in 1..NL(w) |-> G(a,i) ^^ G(b,i)])

\* schoolbook product of two limb vectors, n result limbs
MulLimbs(a, b, n) ==
   LET RECURSIVE go(_,_)
       go(k, c) == IF k > n THEN <<>> ELSE
          LET RECURSIVE sum(_)
              sum(i) == IF i > k THEN 0 ELSE G(a,i) * G(b,k+1-i) + sum(i+1)
              s == sum(1) + c
          IN <<s % 256>> \o go(k+1, s \div 256)
   IN go(1, 0)
Mul(a, b, w) == Norm(MulLimbs(a, b, NL(w)), w)
MulFull(a, b, w) == Norm(MulLimbs(Norm(a,w), Norm(b,w), NL(2*w)), 2*w)     \* unsigned w x w -> 2w

\* logical shifts by a natural amount s; v is read as zero-extended, result width w
ShrN(v, s, w) == IF s >= 8 * Len(v) THEN Zero(w) ELSE LET q == s \div 8 r == s % 8 IN
   Norm([j \in 1..NL(w) |-> (G(v,j+q) \div P2(r)) + (G(v,j+q+1) % P2(r)) * P2(8-r)], w)
ShlN(v, s, w) == IF s >= w THEN Zero(w) ELSE LET q == s \div 8 r == s % 8 IN
   Norm([j \in 1..NL(w) |-> ((G(v,j-q) * P2(r)) % 256) + (G(v,j-q-1) \div P2(8-r))], w)
Slice(v, lo, hi) == ShrN(v, lo, hi - lo)
ZExt(v, w) == Norm(v, w)
SExt(v, wv, w) == IF Msb(v, wv) = 0 THEN Norm(v, w)
                  ELSE BOr(Norm(v, w), ShlN(Ones(w), wv, w), w)
Concat(lo, wlo, hi, whi) == BOr(Norm(lo, wlo + whi), ShlN(Norm(hi, wlo + whi), wlo, wlo + whi), wlo + whi)
SarN(v, s, w) == LET t == IF s >= w THEN w ELSE s IN
   IF Msb(v, w) = 0 THEN ShrN(v, t, w)
   ELSE BOr(ShrN(v, t, w), ShlN(Ones(w), w - t, w), w)
\* exact value of v modulo m (m <= 256 * 2^15): Horner over the limbs from the top
ModSmall(v, m) == LET RECURSIVE go(_,_)
                      go(i, acc) == IF i = 0 THEN acc ELSE go(i - 1, (acc * 256 + v[i]) % m)
                  IN go(Len(v), 0)
RolN(v, s, w) == LET r == s % w IN IF r = 0 THEN v ELSE BOr(ShlN(v, r, w), ShrN(v, w - r, w), w)
RorN(v, s, w) == LET r == s % w IN IF r = 0 THEN v ELSE BOr(ShrN(v, r, w), ShlN(v, w - r, w), w)
\* rotate through carry: the (w+1)-bit quantity cf:v rotated by s mod (w+1); result <<value, carry>>
RclN(v, cf, s, w) == LET x == BOr(Norm(v, w+1), ShlN(FromNat(cf, w+1), w, w+1), w+1)
                         y == RolN(x, s % (w+1), w+1)
                     IN <<Norm(y, w), Bit(y, w)>>
RcrN(v, cf, s, w) == LET x == BOr(Norm(v, w+1), ShlN(FromNat(cf, w+1), w, w+1), w+1)
                         y == RorN(x, s % (w+1), w+1)
                     IN <<Norm(y, w), Bit(y, w)>>

\* comparisons
RECURSIVE UltR(_,_,_)
UltR(a, b, i) == IF i = 0 THEN FALSE
                 ELSE IF G(a,i) # G(b,i) THEN G(a,i) < G(b,i) ELSE UltR(a, b, i-1)
Ult(a, b) == UltR(a, b, IF Len(a) > Len(b) THEN Len(a) ELSE Len(b))
Ule(a, b) == ~Ult(b, a)
Slt(a, b, w) == IF Msb(a,w) # Msb(b,w) THEN Msb(a,w) = 1 ELSE Ult(a, b)

\* population / bit scans
Pop8(x) == (x % 2) + ((x \div 2) % 2) + ((x \div 4) % 2) + ((x \div 8) % 2)
         + ((x \div 16) % 2) + ((x \div 32) % 2) + ((x \div 64) % 2) + ((x \div 128) % 2)
Parity8(v) == IF Pop8(G(v,1)) % 2 = 0 THEN 1 ELSE 0          \* x86 PF convention
RECURSIVE BsfR(_,_,_)
BsfR(v, k, w) == IF k >= w THEN -1 ELSE IF Bit(v,k) = 1 THEN k ELSE BsfR(v, k+1, w)
Bsf(v, w) == BsfR(v, 0, w)                                   \* -1 when v = 0
RECURSIVE BsrR(_,_)
BsrR(v, k) == IF k < 0 THEN -1 ELSE IF Bit(v,k) = 1 THEN k ELSE BsrR(v, k-1)
Bsr(v, w) == BsrR(v, w-1)

\* unsigned division of width-w values: <<quotient, remainder>>, b # 0  (restoring, bit serial)
UDivRem(a, b, w) ==
   LET ww == w + 1
       bb == Norm(b, ww)
       RECURSIVE go(_,_,_)
       go(i, q, r) == IF i < 0 THEN <<q, Norm(r, w)>> ELSE
          LET r1 == BOr(ShlN(r, 1, ww), FromNat(Bit(a, i), ww), ww)
              ge == ~Ult(r1, bb)
              r2 == IF ge THEN Sub(r1, bb, ww) ELSE r1
              q2 == IF ge THEN BOr(q, ShlN(FromNat(1, w), i, w), w) ELSE q
          IN go(i-1, q2, r2)
   IN go(w-1, Zero(w), Zero(ww))
Abs(a, w) == IF Msb(a, w) = 1 THEN Neg(a, w) ELSE a
\* signed truncating division: <<quotient, remainder>> (C / x86 idiv convention)
SDivRem(a, b, w) ==
   LET qr == UDivRem(Abs(a, w), Abs(b, w), w)
       q == IF Msb(a,w) # Msb(b,w) THEN Neg(qr[1], w) ELSE qr[1]
       r == IF Msb(a,w) = 1 THEN Neg(qr[2], w) ELSE qr[2]
   IN <<q, r>>
B1(x) == <<x>>
=============================================================================
