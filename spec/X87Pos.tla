------------------------------- MODULE X87Pos -------------------------------
(* The x87 register stack in the stack-relative view (C08).                  *)
(*                                                                            *)
(* miasmX's lifter names the x87 data registers by their POSITION relative to *)
(* the top of stack (float_st0 .. float_st7 = ST(0) .. ST(7)); a push or pop   *)
(* therefore moves every value to the neighbouring position.  In that naming  *)
(* the read and write sets of an x87 instruction are sets of positions: a pop *)
(* reads ST(1)..ST(7) and writes ST(0)..ST(7), `faddp st(2), st` reads ST(0)  *)
(* and ST(2) and - because of the pop that follows - leaves the sum in ST(1). *)
(* This module is the position-level dependency semantics of the register     *)
(* forms: a state maps every position to a value [src, deps]                  *)
(*    src   the position whose INITIAL value it still is (-1: computed)       *)
(*    deps  the items (positions "st0".."st7", and whatever else went in) the  *)
(*          value was computed from                                          *)
(* and an instruction form is a composition of the steps below.  Reads(f) /   *)
(* Writes(f) are derived from the final state: a position is written when it  *)
(* no longer holds its own initial value, and everything a written component  *)
(* depends on is read.  TOP, the status/control words and the environment     *)
(* stay one item "x87" (miasmX: float_stack_ptr, float_c0..3, float_control,  *)
(* float_eip ...).                                                           *)
EXTENDS Integers, Sequences, FiniteSets, TLC
Pos == 0..7
StName(i) == "st" \o ToString(i)
Keep(i) == [src |-> i, deps |-> {StName(i)}]
New(ds) == [src |-> -1, deps |-> ds]
\* st: position -> value;  rd / wr: items read / written outside the register stack
S0 == [st |-> [i \in Pos |-> Keep(i)], rd |-> {}, wr |-> {}]

Pop(s)      == [s EXCEPT !.st = [i \in Pos |-> IF i < 7 THEN s.st[i + 1] ELSE New({})], !.rd = @ \cup {"x87"}, !.wr = @ \cup {"x87"}]
Push(s, v)  == [s EXCEPT !.st = [i \in Pos |-> IF i = 0 THEN v ELSE s.st[i - 1]], !.rd = @ \cup {"x87"}, !.wr = @ \cup {"x87"}]
RECURSIVE Pops(_,_)
Pops(s, n)  == IF n = 0 THEN s ELSE Pops(Pop(s), n - 1)
Set(s, i, v) == [s EXCEPT !.st[i] = v]
\* ---- instruction forms ------------------------------------------------------------------------------------
\* (a register operand is a position; a memory operand is the set of its items: address registers + cell - forms ...M)
\* arithmetic  ST(d) := ST(d) op src  (status word written), then n pops      fadd st, st(1) / fmul m32 / faddp st(2), st
ArithD(d, ds, n) == Pops([Set(S0, d, New(S0.st[d].deps \cup ds)) EXCEPT !.wr = @ \cup {"x87"}], n)
Arith(d, x, n)   == ArithD(d, S0.st[x].deps, n)
ArithM(m, n)     == ArithD(0, m, n)
\* unary       ST(0) := op ST(0)                                               fchs, fsqrt, fabs
Unary            == [Set(S0, 0, New(S0.st[0].deps)) EXCEPT !.wr = @ \cup {"x87"}]
\* load        push src                                                        fld st(2) / fld m32 / fild m16
Load(x)          == Push(S0, S0.st[x])
LoadM(m)         == Push(S0, New(m))
\* store       dst := ST(0), then n pops; dst a position or a memory cell       fst st(2) / fstp m64 / fistp m32
Store(d, n)      == Pops(Set(S0, d, S0.st[0]), n)
StoreM(cell, adr, n) == Pops([S0 EXCEPT !.rd = @ \cup S0.st[0].deps \cup adr, !.wr = @ \cup cell], n)
\* exchange    ST(0) <-> ST(i)
Xch(i)           == [S0 EXCEPT !.st[0] = S0.st[i], !.st[i] = S0.st[0]]
\* compare     flags := cmp(ST(0), src) into the items `out` (EFLAGS bits, or "x87" for the status word), then n pops
CmpD(ds, out, n) == Pops([S0 EXCEPT !.rd = @ \cup S0.st[0].deps \cup ds, !.wr = @ \cup out], n)
Cmp(x, out, n)   == CmpD(S0.st[x].deps, out, n)
CmpM(m, out, n)  == CmpD(m, out, n)
\* conditional move  ST(0) := cond(flags) ? ST(i) : ST(0)
CMov(i, fl)      == Set(S0, 0, New(S0.st[0].deps \cup S0.st[i].deps \cup fl))
\* status / control word transfers
StoreWord(out, adr) == [S0 EXCEPT !.rd = @ \cup {"x87"} \cup adr, !.wr = @ \cup out]
LoadWord(src)       == [S0 EXCEPT !.rd = @ \cup src, !.wr = @ \cup {"x87"}]

\* ---- read and write sets of a form (its final state) ----------------------------------------------------------
Written(s) == {i \in Pos : s.st[i].src # i}
Writes(s)  == {StName(i) : i \in Written(s)} \cup s.wr
Reads(s)   == UNION {s.st[i].deps : i \in Written(s)} \cup s.rd

\* ---- obligations of the model itself (X87PosSelf) --------------------------------------------------------------
\* a pop followed by a push of the popped value restores every position but the last (the value that left the stack)
PopPushOK == LET s == Push(Pop(S0), S0.st[0]) IN \A i \in 0..6 : s.st[i] = S0.st[i]
\* n pops write every position and read exactly the positions n..7
PopsOK == \A n \in 1..2 : Writes(Pops(S0, n)) = {StName(i) : i \in Pos} \cup {"x87"}
                           /\ Reads(Pops(S0, n)) = {StName(i) : i \in n..7} \cup {"x87"}
\* exchanging twice is the identity, and an exchange writes exactly the two positions
XchOK == \A i \in 1..7 : Writes(Xch(i)) = {"st0", StName(i)} /\ Reads(Xch(i)) = {"st0", StName(i)}
\* an arithmetic form without pop writes one position and reads both operands
ArithOK == \A d \in Pos, x \in Pos : d # x /\ (d = 0 \/ x = 0) =>
              Writes(Arith(d, x, 0)) = {StName(d), "x87"} /\ Reads(Arith(d, x, 0)) = {StName(d), StName(x)}
\* faddp st(i), st: the sum ends in position i - 1; positions below i - 1 ... every position is written, and ST(0) and ST(i) are read
ArithPopOK == \A i \in 1..7 : LET s == Arith(i, 0, 1) IN
                 /\ s.st[i - 1].src = -1 /\ s.st[i - 1].deps = {"st0", StName(i)}
                 /\ {"st0", StName(i)} \subseteq Reads(s)
                 /\ Writes(s) = {StName(k) : k \in Pos} \cup {"x87"}
=============================================================================
