#!/bin/sh
# Offline setup: parse every specification module and discharge the spec-internal obligations.
cd "$(dirname "$0")/spec" || exit 2
J="java -Xss16m -XX:+UseParallelGC -XX:ParallelGCThreads=4 -cp /opt/veriftools/tla/tla2tools.jar:/opt/veriftools/tla/CommunityModules-deps.jar"
S=$(mktemp -d /var/tmp/verif_setup.XXXXXX)
rc=0
for f in *.tla; do
  # a module that does not parse makes the checks that use it fail with exit 2 (machinery failure); here it is only reported
  $J tla2sany.SANY "$f" > "$S/sany.out" 2>&1 || { echo "WARNING: SANY failed: $f"; tail -5 "$S/sany.out"; }
  grep -q "Semantic errors\|Parse Error\|Fatal errors" "$S/sany.out" && { echo "WARNING: SANY errors: $f"; grep -A5 "rror" "$S/sany.out" | head -10; }
done
# self-checks named by a claimed property (vf/claims/*.json "selfchecks") are fatal; the others are reported only
FATAL=$(/venv/bin/python - <<'PY'
import json, glob
s = set()
for f in glob.glob('/verif/vf/claims/*.json'):
    s.update(json.load(open(f)).get('selfchecks', []))
print(' '.join(sorted(s)))
PY
)
for m in $(ls *Self.cfg | sed "s/\.cfg$//"); do
  [ -f "$m.cfg" ] || continue
  timeout 900 $J tlc2.TLC -workers 16 -metadir "$S/md_$m" -noGenerateSpecTE -config "$m.cfg" "$m.tla" > "$S/$m.out" 2>&1
  if grep -q "Model checking completed. No error has been found." "$S/$m.out"; then
    echo "self-check $m: $(grep 'distinct states found' "$S/$m.out" | tail -1)"
  else
    case " $FATAL " in
      *" $m "*) echo "self-check $m FAILED"; tail -30 "$S/$m.out"; rc=2;;
      *) echo "WARNING: self-check $m (not required by a claimed property) did not complete"; tail -5 "$S/$m.out";;
    esac
  fi
done
rm -rf "$S"
exit $rc
