------------------------------ MODULE IRDerive ------------------------------
(* Positions, substitution, single-field mutations, replacement maps and      *)
(* wildcard patterns derived from a tree (used by the C15 / C16 generators    *)
(* and judges).                                                               *)
EXTENDS IRVar

\* ---- positions (paths of child indices; memory segments are not descended) ----
RECURSIVE Paths(_)
Paths(e) == {<<>>} \cup (IF e.k \in {"int", "id"} THEN {}
                         ELSE UNION {{<<i>> \o p : p \in Paths(e.a[i])} : i \in 1..Len(e.a)})
RECURSIVE SubAt(_,_)
SubAt(e, p) == IF p = <<>> THEN e ELSE SubAt(e.a[p[1]], Tail(p))
RECURSIVE ReplaceAt(_,_,_)
ReplaceAt(e, p, r) == IF p = <<>> THEN r ELSE [e EXCEPT !.a[p[1]] = ReplaceAt(e.a[p[1]], Tail(p), r)]
IsPrefixP(p, q) == Len(p) <= Len(q) /\ SubSeq(q, 1, Len(p)) = p

\* ---- substitution: replace every occurrence of a key sub-term (outermost first) ----
\* map: sequence of <<key tree, image tree>>
Lookup(map, e) == LET hits == {i \in 1..Len(map) : map[i][1] = e} IN
                  IF hits = {} THEN 0 ELSE CHOOSE i \in hits : \A j \in hits : i <= j
RECURSIVE Subst(_,_)
Subst(e, map) == LET i == Lookup(map, e) IN
   IF i # 0 THEN map[i][2]
   ELSE IF e.k \in {"int", "id"} THEN e
   ELSE IF e.k = "mem" THEN [e EXCEPT !.a = [j \in 1..Len(e.a) |-> Subst(e.a[j], map)], !.g = [j \in 1..Len(e.g) |-> Subst(e.g[j], map)]]
   ELSE [e EXCEPT !.a = [j \in 1..Len(e.a) |-> Subst(e.a[j], map)]]
\* bottom-up variant (children first, then the rebuilt node is looked up): what a post-order visitor computes
RECURSIVE SubstBU(_,_)
SubstBU(e, map) ==
   LET e2 == IF e.k \in {"int", "id"} THEN e
             ELSE IF e.k = "mem" THEN [e EXCEPT !.a = [j \in 1..Len(e.a) |-> SubstBU(e.a[j], map)], !.g = [j \in 1..Len(e.g) |-> SubstBU(e.g[j], map)]]
             ELSE [e EXCEPT !.a = [j \in 1..Len(e.a) |-> SubstBU(e.a[j], map)]]
       i == Lookup(map, e2)
   IN IF i # 0 THEN map[i][2] ELSE e2

\* ---- single-field mutations of the root node (near-equal trees) ----
RootMut(e) ==
  CASE e.k = "int" -> {[e EXCEPT !.v = BXor(e.v, FromNat(1, e.w), e.w)],
                       IF e.w = 8 THEN [e EXCEPT !.w = 16, !.v = ZExt(e.v, 16)] ELSE [e EXCEPT !.w = 8, !.v = Norm(e.v, 8)]}
    [] e.k = "id" -> {[e EXCEPT !.n = e.n \o "q"]} \cup (IF e.w = 8 THEN {[e EXCEPT !.w = 16, !.n = e.n]} ELSE {[e EXCEPT !.w = 8]})
    [] e.k = "mem" -> {[e EXCEPT !.w = IF e.w = 8 THEN 16 ELSE 8],
                       [e EXCEPT !.g = IF e.g = <<>> THEN <<[k |-> "id", w |-> 16, n |-> "sg16"]>> ELSE <<>>]}
    [] e.k = "op" -> {[e EXCEPT !.o = IF e.o = "+" THEN "^" ELSE IF Len(e.a) = 1 THEN (IF e.o = "-" THEN "!" ELSE "-") ELSE "+"]}
                     \cup (IF Len(e.a) >= 2 THEN {[e EXCEPT !.a = SubSeq(e.a, 1, Len(e.a) - 1) \o <<e.a[1]>>]} ELSE {})
                     \cup (IF Len(e.a) >= 2 THEN {[e EXCEPT !.a = SubSeq(e.a, 1, Len(e.a) - 1)]} ELSE {})      \* one operand fewer (prefix)
                     \cup (IF e.o \in ACOps THEN {[e EXCEPT !.a = Append(e.a, e.a[1])]} ELSE {})                  \* one operand more
    [] e.k = "slice" -> (IF e.lo > 0 THEN {[e EXCEPT !.lo = e.lo - 1, !.hi = e.hi - 1]} ELSE {})
                        \cup (IF e.hi < e.a[1].w THEN {[e EXCEPT !.lo = e.lo + 1, !.hi = e.hi + 1]} ELSE {})
    [] e.k = "cond" -> {[e EXCEPT !.a = <<e.a[1], e.a[3], e.a[2]>>]}
    [] e.k = "compose" -> (IF Len(e.a) = 2 /\ e.a[1].w = e.a[2].w THEN {[e EXCEPT !.a = <<e.a[2], e.a[1]>>]} ELSE {})
                          \* slot bounds: the last slot ends 8 bits later (same parts, same starts); the first boundary moves by one bit
                          \cup {[e EXCEPT !.s[Len(e.s)] = <<@[1], @[2] + 8>>, !.w = @ + 8]}
                          \cup (IF Len(e.s) >= 2 /\ e.s[1][2] > 1 THEN {[e EXCEPT !.s[1] = <<0, @[2] - 1>>, !.s[2] = <<@[1] - 1, @[2]>>]} ELSE {})
                          \* part-count mutations: one part fewer (a proper prefix of the parts), one part more (the first part once more on top)
                          \cup (IF Len(e.a) >= 2 THEN {[e EXCEPT !.a = SubSeq(e.a, 1, Len(e.a) - 1), !.s = SubSeq(e.s, 1, Len(e.s) - 1),
                                                                  !.w = e.s[Len(e.s) - 1][2]]} ELSE {})
                          \cup {[e EXCEPT !.a = Append(e.a, e.a[1]), !.s = Append(e.s, <<e.w, e.w + (e.s[1][2] - e.s[1][1])>>),
                                          !.w = e.w + (e.s[1][2] - e.s[1][1])]}
    [] e.k = "aff" -> {}
    [] OTHER -> {}
Mutations(e) == UNION {{ReplaceAt(e, p, m) : m \in RootMut(SubAt(e, p))} : p \in Paths(e)} \ {e}

\* ---- replacement maps ----
FreshId(w, i) == [k |-> "id", w |-> w, n |-> "r" \o ToString(i) \o "_" \o ToString(w)]
\* maps of one or two keys (sub-terms of e, possibly nested in one another) to fresh identifiers
FreshMaps(e) ==
   LET ps == {p \in Paths(e) : SubAt(e, p).k # "aff" /\ SubAt(e, p).w \in {1, 8, 16, 32, 64}} IN
   {<<<<SubAt(e, p), FreshId(SubAt(e, p).w, 1)>>>> : p \in ps}
   \cup UNION {{<<<<SubAt(e, p), FreshId(SubAt(e, p).w, 1)>>, <<SubAt(e, q), FreshId(SubAt(e, q).w, 2)>>>> :
                   q \in {q \in ps : SubAt(e, q) # SubAt(e, p)}} : p \in ps}
\* maps from an identifier of e to a small image tree of the same width
IdImages(w) == {[k |-> "int", w |-> w, v |-> FromNat(1, w)], [k |-> "id", w |-> w, n |-> "y" \o ToString(w)],
                [k |-> "op", w |-> w, o |-> "+", u |-> 0, a |-> <<[k |-> "id", w |-> w, n |-> "z" \o ToString(w)], [k |-> "int", w |-> w, v |-> Ones(w)]>>]}
\* maps that rename the segment selector of a segmented memory cell (and nothing else)
SegNodes(e) == UNION {{SubAt(e, p).g[i] : i \in 1..Len(SubAt(e, p).g)} : p \in {p \in Paths(e) : SubAt(e, p).k = "mem"}}
SegMaps(e) == {<<<<sg, [sg EXCEPT !.n = sg.n \o "_b"]>>>> : sg \in {x \in SegNodes(e) : x.k = "id"}}
IdNodes(e) == {SubAt(e, p) : p \in {p \in Paths(e) : SubAt(e, p).k = "id"}}
IdMaps(e) == UNION {{<<<<x, img>>>> : img \in IdImages(x.w) \ {x}} : x \in IdNodes(e)}
\* two-key maps in which the image of one key is another key (a renaming chain x -> y, y -> img; a swap x -> y, y -> x):
\* substitution is simultaneous, the image of x is not looked up again
ChainMaps(e) == LET ids == IdNodes(e)
                    pairs == {p \in ids \X ids : p[1] # p[2] /\ p[1].w = p[2].w}
                IN UNION {{<<<<p[1], p[2]>>, <<p[2], img>>>> : img \in (IdImages(p[2].w) \cup {p[1]}) \ {p[2]}} : p \in pairs}

\* ---- wildcard patterns ----
Wild(w, i) == [k |-> "id", w |-> w, n |-> "jok" \o ToString(i)]
\* patterns obtained by abstracting one or two positions of e by wildcards.  With two positions:
\*   distinct wildcards (instance), or the SAME wildcard for two positions (instance iff the sub-terms are equal)
Abstractable(e) == {p \in Paths(e) : p # <<>> /\ SubAt(e, p).k # "aff"}
Patterns(e) ==
   LET ps == Abstractable(e) IN
   {[pat |-> ReplaceAt(e, p, Wild(SubAt(e, p).w, 1)), wild |-> <<Wild(SubAt(e, p).w, 1)>>] : p \in ps}
   \cup UNION {{[pat |-> ReplaceAt(ReplaceAt(e, p, Wild(SubAt(e, p).w, 1)), q, Wild(SubAt(e, q).w, 2)),
                 wild |-> <<Wild(SubAt(e, p).w, 1), Wild(SubAt(e, q).w, 2)>>] :
                   q \in {q \in ps : ~IsPrefixP(p, q) /\ ~IsPrefixP(q, p)}} : p \in ps}
   \cup UNION {{[pat |-> ReplaceAt(ReplaceAt(e, p, Wild(SubAt(e, p).w, 1)), q, Wild(SubAt(e, p).w, 1)),
                 wild |-> <<Wild(SubAt(e, p).w, 1)>>] :
                   q \in {q \in ps : ~IsPrefixP(p, q) /\ ~IsPrefixP(q, p) /\ SubAt(e, q).w = SubAt(e, p).w}} : p \in ps}
\* partial substitution: the same wildcard abstracts two positions, but in the expression one of them holds the wildcard
\* IDENTIFIER itself (the expression mentions the identifier that the pattern uses as a wildcard): an instance only if the
\* other position holds that identifier too
Partial(e) ==
   LET ps == Abstractable(e) IN
   UNION {{[e |-> ReplaceAt(e, q, Wild(SubAt(e, p).w, 1)),
            pat |-> ReplaceAt(ReplaceAt(e, p, Wild(SubAt(e, p).w, 1)), q, Wild(SubAt(e, p).w, 1)),
            wild |-> <<Wild(SubAt(e, p).w, 1)>>] :
              q \in {q \in ps : ~IsPrefixP(p, q) /\ ~IsPrefixP(q, p) /\ SubAt(e, q).w = SubAt(e, p).w}} : p \in ps}
\* same-shape non-instances: a pattern of e matched against a mutation of e outside the abstracted positions
\* is produced by the generator as (Mutation(e), pattern of e).

\* ---- reference matcher (first-order syntactic matching) ----
\* binding: function from wildcard names to trees, or "fail"
Fail == [fail |-> TRUE]
IsWild(m, wild) == \E i \in 1..Len(wild) : wild[i] = m
RECURSIVE Match(_,_,_,_)
RECURSIVE MatchArgs(_,_,_,_,_)
MatchArgs(ea, ma, wild, b, i) ==
   IF b = Fail THEN Fail
   ELSE IF i > Len(ea) THEN b
   ELSE MatchArgs(ea, ma, wild, Match(ea[i], ma[i], wild, b), i + 1)
Match(e, m, wild, b) ==
   IF b = Fail THEN Fail
   ELSE IF IsWild(m, wild) THEN
        (IF m.n \in DOMAIN b THEN (IF b[m.n] = e THEN b ELSE Fail)
         ELSE [x \in DOMAIN b \cup {m.n} |-> IF x = m.n THEN e ELSE b[x]])
   ELSE IF m.k # e.k THEN Fail
   ELSE IF e.k \in {"int", "id"} THEN (IF e = m THEN b ELSE Fail)
   ELSE IF Len(e.a) # Len(m.a) \/ [e EXCEPT !.a = <<>>] # [m EXCEPT !.a = <<>>] THEN Fail
   ELSE MatchArgs(e.a, m.a, wild, b, 1)
EmptyB == [x \in {} |-> 0]
=============================================================================
