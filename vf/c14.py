"""C14 - fixed-width integers implement arithmetic modulo 2^n.
S->C: ModIntSpace.tla (TLC) enumerates the cases; miasmX computes; C->S: T_C14.tla judges."""
import os, sys, operator, time
from . import core
from .core import limbs, unlimbs

OPS2 = {'+': operator.add, '-': operator.sub, '*': operator.mul, '&': operator.and_, '|': operator.or_,
        '^': operator.xor, '<<': operator.lshift, '>>': operator.rshift, '%': operator.mod, '**': operator.pow,
        '==': operator.eq, '!=': operator.ne, '<': operator.lt, '<=': operator.le, '>': operator.gt, '>=': operator.ge}
OPS1 = {'~': operator.invert, 'neg': operator.neg, 'abs': abs, 'int': int}


def mk(modint, o, v=None):
    """operand record -> Python object"""
    s, n = o['s'], o['n']
    raw = unlimbs(o['v'] if v is None else v)
    if s in (2, 3):
        return raw - (1 << n) if raw >> (n - 1) else raw
    cls = getattr(modint, ('int%d' if s == 1 else 'uint%d') % n)
    return cls(raw)


def enc(modint, r):
    if isinstance(r, bool):
        return {'t': 'bool', 'b': r}
    if isinstance(r, modint.moduint):
        return {'t': 'fixed', 's': 1 if isinstance(r, modint.modint) else 0, 'n': r.size,
                'v': limbs(r.arg, r.size + 16)}
    if isinstance(r, int):
        if r.bit_length() > 400:
            return {'t': 'bigint', 'bits': r.bit_length()}
        n = ((r.bit_length() + 8) // 8) * 8
        return {'t': 'int', 'n': n, 'v': limbs(r, n)}
    return {'t': 'other', 'name': type(r).__name__}


def outside(op, y):
    """operations the specification leaves undefined / outside the explored space:
    never executed (Python would materialise x * 2^y or x^y)"""
    if y is None:
        return False
    yv = int(y)
    if op in ('<<', '>>'):
        return yv < 0 or yv > 70000
    if op == '**':
        return yv < 0 or yv > 300
    return False


def apply(modint, op, x, y):
    if outside(op, y):
        return {'t': 'skipped'}
    try:
        if op == 'hash':
            return {'t': 'bool', 'b': hash(x) == hash(y), 'e': bool(x == y)}
        if op in OPS1:
            return enc(modint, OPS1[op](x))
        return enc(modint, OPS2[op](x, y))
    except Exception as e:
        return {'t': 'exc', 'name': type(e).__name__}


SWEEP_INT = sorted(set(list(range(-131, -125)) + list(range(-4, 5)) + list(range(6, 11)) + list(range(14, 19))
                       + list(range(30, 35)) + list(range(62, 67)) + list(range(126, 131)) + list(range(254, 259))
                       + [-300, -257, -256, -255, 299, 300, 301, 511, 512, 700]))


def cenc(modint, r):
    """compact encoding for the small-operand sweeps (all numbers < 2^31)"""
    if isinstance(r, bool):
        return [1, int(r)]
    if isinstance(r, modint.moduint):
        if abs(r.arg) < 2 ** 30:
            return [0, 1 if isinstance(r, modint.modint) else 0, r.size, r.arg]
        return [4]
    if isinstance(r, int):
        return [2, r] if abs(r) < 2 ** 30 else [4]
    return [4]


def capply(modint, op, x, y):
    if outside(op, y):
        return [4]
    try:
        if op == 'hash':
            return [5, int(bool(x == y)), int(hash(x) == hash(y))]
        if op in OPS1:
            return cenc(modint, OPS1[op](x))
        return cenc(modint, OPS2[op](x, y))
    except Exception as e:
        return [3]


def observe(cases):
    sys.path.insert(0, core.REPO)
    from miasmx.tools import modint
    recs = []
    for idx, c in enumerate(cases):
        op, a, b = c['op'], c['a'], c['b']
        r = {'id': idx, 'op': op, 'a': a}
        if b['v'] == [] and b['s'] != 9:        # sweep the other operand (ex8 mode)
            swap = b['s'] == 3
            bs = 2 if swap else b['s']
            ys = list(range(256)) if bs != 2 else SWEEP_INT
            r.update(shape='sweep', swap=swap, b={'s': bs, 'n': b['n']}, ys=ys)
            xa = mk(modint, a)
            obs = []
            for y in ys:
                yo = mk(modint, {'s': bs, 'n': b['n'], 'v': limbs(y, b['n'])})
                obs.append(capply(modint, op, yo, xa) if swap else capply(modint, op, xa, yo))
            r['obs'] = obs
        elif b['s'] == 9 and a['n'] == 8 and c.get('mode') == 'ex8':
            r.update(shape='un8', obs=capply(modint, op, mk(modint, a), None))
        elif b['s'] == 9:
            r.update(shape='one', b=b, obs=apply(modint, op, mk(modint, a), None), wit=[])
        else:
            xa, xb = mk(modint, a), mk(modint, b)
            r.update(shape='one', b=b, obs=apply(modint, op, xa, xb), wit=[])
            if op == '%' and int(xb) != 0:
                W = max(a['n'], b['n']) + 16
                r['wit'] = limbs(int(xa) // int(xb), W)
        recs.append(r)
    return recs


def gen(mode):
    d = os.path.join(core.scratch(), 'c14_%s.dump' % mode)
    cfg = 'CONSTANT Mode = "%s"\nINIT Init\nNEXT Next\nINVARIANT TypeOK\nCHECK_DEADLOCK FALSE\n' % mode
    r = core.run_tlc('ModIntSpace', cfg_text=cfg, extra=['-dump', d], timeout=900)
    if not r.ok:
        raise core.MachineryError('ModIntSpace failed:\n' + r.out[-2000:])
    cases = [dict(s, mode=mode) for s in core.read_dump(d) if s['stage'] == 1]
    os.unlink(d)
    return cases, r


def run(tier, chk):
    import random
    rnd = random.Random(chk.seed)
    negative_control(chk)
    total = 0
    nontriv = 0
    for mode in ('ex8', 'bnd'):
        cases, r = gen(mode)
        chk.add_tlc(r)
        if mode == 'ex8' and tier == 'quick':
            # quick: every operator and type pair, boundary left operands + a seeded half of the others
            bnd8 = {0, 1, 2, 7, 8, 127, 128, 129, 254, 255}
            cases = [c for c in cases if unlimbs(c['a']['v']) in bnd8 or rnd.random() < 0.5]
        if mode == 'bnd' and tier == 'quick':
            # quick: every fixed x fixed pair, a seeded third of the plain-int pairs
            cases = [c for c in cases if c['a']['s'] != 2 and c['b']['s'] != 2 or rnd.random() < 0.34]
        cases.sort(key=lambda c: (c['op'], c['a']['s'], c['a']['n'], c['a']['v'], c['b']['s'], c['b']['n'], c['b']['v']))
        recs = observe(cases)
        def nobs(x):
            return len(x['obs']) if x['shape'] == 'sweep' else 1
        total += sum(nobs(x) for x in recs)
        for x in recs:
            if x['shape'] == 'sweep':
                nontriv += sum(1 for o in x['obs'] if o[0] in (0, 1, 2, 5))
            elif x['shape'] == 'un8':
                nontriv += x['obs'][0] in (0, 1, 2)
            else:
                nontriv += x['obs']['t'] in ('fixed', 'bool', 'int')
        rnd.shuffle(recs)            # balance the shards
        verdicts, st = core.judge('T_C14', recs, timeout=1500)
        chk.add_tlc(st)
        chk.cov['traces_validated_against_impl'] += len(recs)
        for x in recs[:3]:
            y = dict(x)
            if y['shape'] == 'sweep':
                y['obs'] = y['obs'][:4]
                y['ys'] = y['ys'][:4]
            chk.sample(y)
        byid = {x['id']: x for x in recs}
        for v in verdicts:
            rec = byid[v['id']]
            for f in v['v']:
                a, b = rec['a'], rec.get('b', {'s': 9})
                kinds = {0: 'fixed', 1: 'fixed', 2: 'int', 9: 'none'}
                lhs, rhs = kinds[a['s']], kinds[b['s']]
                if rec.get('swap'):
                    lhs, rhs = rhs, lhs
                o = f['obs']
                if rec['shape'] == 'one':
                    ot = o['o'].get('t')
                else:
                    ot = {0: 'fixed', 1: 'bool', 2: 'int', 3: 'exc', 4: 'other', 5: 'hash'}[o[0]]
                key = {'clause': f['clause'], 'op': rec['op'], 'lhs': lhs, 'rhs': rhs, 'obs': ot}
                chk.violation(key, {'record': {kk: rec.get(kk) for kk in ('op', 'a', 'b', 'swap', 'shape')},
                                    'y': f.get('y'), 'observed_and_expected': o, 'failing_in_record': f['nbad']})
    chk.cov['evaluations'] = total
    chk.cov['distinct_nontrivial'] = nontriv
    chk.cov['exhaustive'] = True
    chk.cov['rule'] = ('cases = reachable states of ModIntSpace.tla (mode ex8: all 2^16 operand pairs at 8 bits for every '
                       'operator and signedness pair, plus int-mixed and reflected sweeps; mode bnd: boundary operands at every '
                       'width and width pair incl. plain ints); non-trivial = operations that returned a value (not an exception)')
    chk.assumptions += ['shift counts > 70000 and exponents > 300 are outside the explored space (Python materialises x*2^y)',
                        'x % 0, negative shift counts and negative exponents are outside the property (no mathematical result)']


def negative_control(chk):
    """hand-written observation records (independent of the implementation under test): corrupt one value, one
    witness, one range and one value inside a sweep, and require T_C14 to reject exactly those"""
    a = {'s': 0, 'n': 8, 'v': [200]}
    b = {'s': 0, 'n': 16, 'v': [100, 1]}

    def fixed(s_, n, val):
        return {'t': 'fixed', 's': s_, 'n': n, 'v': limbs(val, n + 16)}
    sweep_ok = [[0, 1, 8, ((200 * (y if y < 128 else y - 256)) + 128) % 256 - 128] for y in range(256)]
    sweep_bad = [list(x) for x in sweep_ok]
    sweep_bad[17][3] += 1
    recs = [{'id': 0, 'shape': 'one', 'op': '+', 'a': a, 'b': b, 'obs': fixed(0, 16, 556), 'wit': []},
            {'id': 1, 'shape': 'one', 'op': '+', 'a': a, 'b': b, 'obs': fixed(0, 16, 557), 'wit': []},
            {'id': 2, 'shape': 'one', 'op': '%', 'a': a, 'b': b, 'obs': fixed(0, 16, 200), 'wit': limbs(1, 32)},
            {'id': 3, 'shape': 'one', 'op': '%', 'a': a, 'b': b, 'obs': fixed(0, 16, 200), 'wit': limbs(0, 32)},
            {'id': 4, 'shape': 'one', 'op': '+', 'a': a, 'b': b, 'obs': {'t': 'fixed', 's': 0, 'n': 16, 'v': limbs(556 + 65536, 32)}, 'wit': []},
            {'id': 5, 'shape': 'sweep', 'op': '*', 'a': a, 'b': {'s': 1, 'n': 8}, 'swap': False, 'ys': list(range(256)), 'obs': sweep_ok},
            {'id': 6, 'shape': 'sweep', 'op': '*', 'a': a, 'b': {'s': 1, 'n': 8}, 'swap': False, 'ys': list(range(256)), 'obs': sweep_bad}]
    verdicts, st = core.judge('T_C14', recs, shards=1)
    got = sorted((v['id'], v['v'][0]['clause']) for v in verdicts)
    want = [(1, 'C14.value'), (2, 'C14.witness'), (4, 'C14.range'), (6, 'C14.value')]
    ok = got == want
    chk.cov['negative_controls'].append({'name': 'corrupted value / witness / range / sweep entry rejected, intact twins accepted', 'ok': ok, 'got': got})
    if not ok:
        raise core.MachineryError('C14 negative control failed: %r' % (got,))


def replay(path, chk):
    import json
    rp = json.load(open(path))
    rec = rp['detail']['record']
    case = {'op': rec['op'], 'a': rec['a'], 'b': rec['b'] if rec.get('b') else {'s': 9, 'n': 0, 'v': []}}
    if rec['shape'] == 'sweep':
        case['b'] = {'s': 3 if rec.get('swap') else rec['b']['s'], 'n': rec['b']['n'], 'v': []}
    if rec['shape'] in ('sweep', 'un8'):
        case['mode'] = 'ex8'
    recs = observe([case])
    verdicts, st = core.judge('T_C14', recs, shards=1)
    chk.add_tlc(st)
    chk.cov['traces_validated_against_impl'] = 1
    chk.sample(case)
    for v in verdicts:
        for f in v['v']:
            print('replay: clause %s still fails: %s' % (f['clause'], json.dumps(f)[:400]))
            chk.violation(rp['class'], rp['detail'])
    chk.cov['evaluations'] = 1
    return chk.finish()
