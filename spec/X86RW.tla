-------------------------------- MODULE X86RW --------------------------------
(* Architectural read and write sets of IA-32 instructions, per mnemonic and *)
(* operand role, including implicit operands (Intel SDM vol. 2: operation    *)
(* and "Flags Affected" sections).                                           *)
(* Items are names:                                                          *)
(*   "eax" .. "edi"   general registers at parent granularity (al, ah, ax    *)
(*                    are parts of eax; a partial write READS the parent:    *)
(*                    the new parent value depends on the old one)           *)
(*   "cf" "pf" "af" "zf" "sf" "df" "of"    flags;  "eip" (written by control *)
(*                    transfers)                                             *)
(*   "mem[r1,r2]"     the memory cell addressed through registers r1, r2     *)
(*                    (RegNames order, "mem[]" for an absolute address); the *)
(*                    address registers themselves are read items            *)
(*   "mm0".."mm7" "xmm0".."xmm7";  "x87" = x87 stack registers, TOP, status  *)
(*   "es" "cs" "ss" "ds" "fs" "gs"  segment registers, where an instruction   *)
(*                    names one as an operand (the implicit segment of a      *)
(*                    memory operand is not an item: flat segmentation)       *)
(* RW(i) == [r |-> reads, w |-> writes, wu |-> items the SDM leaves          *)
(*          undefined ("can modify", reported in a separate class)]          *)
(* For the integer core (instruction records of X86Sem) the sets are checked *)
(* against X86Sem!Step by dependency probing in X86RWSelf.tla.  Instructions *)
(* outside the core (BCD, cpuid, MMX/SSE, x87, rep forms ...) are listed in  *)
(* the table Ext with their GNU as text.                                     *)
EXTENDS X86Sem

Flags6 == {"cf", "pf", "af", "zf", "sf", "of"}
RECURSIVE JoinR(_,_,_)
JoinR(rs, k, first) == IF k > 8 THEN ""
                       ELSE IF k \in rs THEN (IF first THEN "" ELSE ",") \o RegNames[k] \o JoinR(rs, k + 1, FALSE)
                       ELSE JoinR(rs, k + 1, first)
CellOf(rs) == "mem[" \o JoinR(rs, 1, TRUE) \o "]"
AddrIdx(op) == (IF op.b >= 0 THEN {op.b + 1} ELSE {}) \cup (IF op.i >= 0 THEN {op.i + 1} ELSE {})
AddrRegs(op) == {RegNames[k] : k \in AddrIdx(op)}
Parent(op) == RegNames[RegIdx(op)]
Partial(op) == op.k = "reg" /\ op.c # "r32"
\* reading the value of an operand
OpR(op) == CASE op.k = "reg" -> {Parent(op)}
             [] op.k = "imm" -> {}
             [] op.k = "mem" -> AddrRegs(op) \cup {CellOf(AddrIdx(op))}
\* writing an operand: what is read on the way (address registers, the rest of a partially written register) ...
OpWR(op) == CASE op.k = "reg" -> IF Partial(op) THEN {Parent(op)} ELSE {}
              [] op.k = "mem" -> AddrRegs(op)
              [] OTHER -> {}
\* ... and what is written
OpWW(op) == CASE op.k = "reg" -> {Parent(op)}
              [] op.k = "mem" -> {CellOf(AddrIdx(op))}
              [] OTHER -> {}
CondFlags(cc) ==
   CASE cc \in {"o", "no"} -> {"of"}   [] cc \in {"b", "ae"} -> {"cf"}   [] cc \in {"e", "ne"} -> {"zf"}
     [] cc \in {"be", "a"} -> {"cf", "zf"}   [] cc \in {"s", "ns"} -> {"sf"}   [] cc \in {"p", "np"} -> {"pf"}
     [] cc \in {"l", "ge"} -> {"sf", "of"}   [] cc \in {"le", "g"} -> {"zf", "sf", "of"}
Acc(w) == [k |-> "reg", c |-> (IF w = 8 THEN "r8" ELSE IF w = 16 THEN "r16" ELSE "r32"), n |-> 0]
PartialAcc(w) == IF w = 32 THEN {} ELSE {"eax"}
Set(r, w, wu) == [r |-> r, w |-> w, wu |-> wu]

\* ---- shifts and rotates: the sets depend on the (immediate) count ---------------------------
ShiftRW(i) ==
   LET d == i.ops[1]  co == i.ops[Len(i.ops)]
       byCl == co.k = "reg"
       cm == IF byCl THEN -1 ELSE G(co.v, 1) % 32               \* masked immediate count
       cnt == IF byCl THEN {"ecx"} ELSE {}
       ofd == byCl \/ cm = 1                                    \* OF defined (possible) : written, otherwise undefined
       ofw == IF ofd THEN {"of"} ELSE {}
       ofu == IF ofd THEN {} ELSE {"of"} IN
   IF ~byCl /\ cm = 0 THEN Set({}, {}, {})                       \* no operation
   ELSE CASE i.mn \in {"shl", "shr", "sar"} ->
          LET cfu == ~byCl /\ cm >= i.w /\ i.mn \in {"shl", "shr"} IN
          Set(OpR(d) \cup cnt, OpWW(d) \cup {"pf", "zf", "sf"} \cup ofw \cup (IF cfu THEN {} ELSE {"cf"}),
              {"af"} \cup ofu \cup (IF cfu THEN {"cf"} ELSE {}))
     [] i.mn \in {"rol", "ror"} -> Set(OpR(d) \cup cnt, OpWW(d) \cup {"cf"} \cup ofw, ofu)
     [] i.mn \in {"rcl", "rcr"} -> Set(OpR(d) \cup cnt \cup {"cf"}, OpWW(d) \cup {"cf"} \cup ofw, ofu)
     [] i.mn \in {"shld", "shrd"} ->
          IF ~byCl /\ cm > i.w THEN Set(OpR(d) \cup OpR(i.ops[2]), {}, OpWW(d) \cup Flags6)     \* result and flags undefined
          ELSE Set(OpR(d) \cup OpR(i.ops[2]) \cup cnt, OpWW(d) \cup {"cf", "pf", "zf", "sf"} \cup ofw, {"af"} \cup ofu)

\* ---- the integer core -----------------------------------------------------------------------------
RW(i) ==
   LET w == i.w  n == Len(i.ops)
       d == IF n >= 1 THEN i.ops[1] ELSE [k |-> "none"]
       s == IF n >= 2 THEN i.ops[2] ELSE [k |-> "none"]
       stack == {"esp", "mem[esp]"}
       allregs == {RegNames[k] : k \in 1..8} IN
   CASE i.mn \in {"mov", "movzx", "movsx"} -> Set(OpR(s) \cup OpWR(d), OpWW(d), {})
     [] i.mn = "lea" -> Set(AddrRegs(s) \cup OpWR(d), OpWW(d), {})
     [] i.mn = "xchg" -> Set(OpR(d) \cup OpR(s), OpWW(d) \cup OpWW(s), {})
     [] i.mn = "push" -> Set(OpR(d) \cup {"esp"}, stack, {})
     [] i.mn = "pop" -> Set(stack \cup OpWR(d), {"esp"} \cup OpWW(d), {})
     [] i.mn = "leave" -> Set({"ebp", "mem[ebp]"}, {"esp", "ebp"}, {})
     [] i.mn = "enter" -> Set({"esp", "ebp"}, {"esp", "ebp", "mem[esp]"}, {})
     [] i.mn = "bswap" -> Set(OpR(d), OpWW(d), {})
     [] i.mn = "xlat" -> Set({"eax", "ebx", "mem[eax,ebx]"}, {"eax"}, {})
     [] i.mn = "pushad" -> Set(allregs, stack, {})
     [] i.mn = "popad" -> Set(stack \cup (IF w = 16 THEN allregs ELSE {}), allregs, {})
     [] i.mn \in {"add", "sub", "and", "or", "xor"} -> Set(OpR(d) \cup OpR(s), OpWW(d) \cup (IF i.mn \in {"add", "sub"} THEN Flags6 ELSE Flags6 \ {"af"}),
                                                          IF i.mn \in {"add", "sub"} THEN {} ELSE {"af"})
     [] i.mn \in {"adc", "sbb"} -> Set(OpR(d) \cup OpR(s) \cup {"cf"}, OpWW(d) \cup Flags6, {})
     [] i.mn = "cmp" -> Set(OpR(d) \cup OpR(s), Flags6, {})
     [] i.mn = "test" -> Set(OpR(d) \cup OpR(s), Flags6 \ {"af"}, {"af"})
     [] i.mn \in {"inc", "dec"} -> Set(OpR(d), OpWW(d) \cup (Flags6 \ {"cf"}), {})
     [] i.mn = "neg" -> Set(OpR(d), OpWW(d) \cup Flags6, {})
     [] i.mn = "not" -> Set(OpR(d), OpWW(d), {})
     [] i.mn = "xadd" -> Set(OpR(d) \cup OpR(s), OpWW(d) \cup OpWW(s) \cup Flags6, {})
     [] i.mn = "cmpxchg" -> Set(OpR(d) \cup OpR(s) \cup {"eax"}, OpWW(d) \cup {"eax"} \cup Flags6, {})
     [] i.mn \in ShiftMn -> ShiftRW(i)
     [] i.mn = "mul" \/ (i.mn = "imul" /\ n = 1) ->       \* 16-bit form: dx is a partial write of edx
          Set(OpR(d) \cup {"eax"} \cup (IF w = 16 THEN {"edx"} ELSE {}), {"eax", "cf", "of"} \cup (IF w = 8 THEN {} ELSE {"edx"}), {"sf", "zf", "af", "pf"})
     [] i.mn = "imul" /\ n = 2 -> Set(OpR(d) \cup OpR(s), OpWW(d) \cup {"cf", "of"}, {"sf", "zf", "af", "pf"})
     [] i.mn = "imul" /\ n = 3 -> Set(OpR(s) \cup OpWR(d), OpWW(d) \cup {"cf", "of"}, {"sf", "zf", "af", "pf"})
     [] i.mn \in DivMn -> Set(OpR(d) \cup {"eax"} \cup (IF w = 8 THEN {} ELSE {"edx"}), {"eax"} \cup (IF w = 8 THEN {} ELSE {"edx"}), Flags6)
     [] i.mn \in BitMn ->
          LET regoff == d.k = "mem" /\ s.k = "reg"
              cell == IF regoff THEN CellOf(AddrIdx(d) \cup {RegIdx(s)}) ELSE CellOf(AddrIdx(d))
              rd == IF d.k = "mem" THEN AddrRegs(d) \cup {cell} ELSE OpR(d) IN
          Set(rd \cup OpR(s), {"cf"} \cup (IF i.mn = "bt" THEN {} ELSE IF d.k = "mem" THEN {cell} ELSE OpWW(d)), {"of", "sf", "af", "pf"})
     [] i.mn \in ScanMn -> Set(OpR(s) \cup OpWR(d), OpWW(d) \cup {"zf"}, {"cf", "of", "sf", "af", "pf"})
     [] i.mn \in {"cbw", "cwde"} -> Set({"eax"}, {"eax"}, {})
     [] i.mn = "cwd" -> Set({"eax", "edx"}, {"edx"}, {})
     [] i.mn = "cdq" -> Set({"eax"}, {"edx"}, {})
     [] i.mn \in {"clc", "stc"} -> Set({}, {"cf"}, {})
     [] i.mn = "cmc" -> Set({"cf"}, {"cf"}, {})
     [] i.mn \in {"cld", "std"} -> Set({}, {"df"}, {})
     [] i.mn = "lahf" -> Set({"sf", "zf", "af", "pf", "cf", "eax"}, {"eax"}, {})
     [] i.mn = "sahf" -> Set({"eax"}, {"sf", "zf", "af", "pf", "cf"}, {})
     [] i.mn = "setcc" -> Set(CondFlags(i.cc) \cup OpWR(d), OpWW(d), {})
     [] i.mn = "cmovcc" -> Set(CondFlags(i.cc) \cup OpR(s) \cup OpWR(d), OpWW(d), {})
     [] i.mn = "movs" -> Set({"esi", "edi", "df", "mem[esi]"}, {"esi", "edi", "mem[edi]"}, {})
     [] i.mn = "cmps" -> Set({"esi", "edi", "df", "mem[esi]", "mem[edi]"}, {"esi", "edi"} \cup Flags6, {})
     [] i.mn = "scas" -> Set({"eax", "edi", "df", "mem[edi]"}, {"edi"} \cup Flags6, {})
     [] i.mn = "lods" -> Set({"esi", "df", "mem[esi]"} \cup PartialAcc(w), {"eax", "esi"}, {})
     [] i.mn = "stos" -> Set({"eax", "edi", "df"}, {"edi", "mem[edi]"}, {})
     [] i.mn = "jmp" -> Set(OpR(d), {"eip"}, {})
     [] i.mn = "jcc" -> Set(CondFlags(i.cc), {"eip"}, {})
     [] i.mn = "jecxz" -> Set({"ecx"}, {"eip"}, {})
     [] i.mn = "loop" -> Set({"ecx"}, {"ecx", "eip"}, {})
     [] i.mn \in {"loope", "loopne"} -> Set({"ecx", "zf"}, {"ecx", "eip"}, {})
     [] i.mn = "call" -> Set(OpR(d) \cup {"esp"}, stack \cup {"eip"}, {})
     [] i.mn = "ret" -> Set(stack, {"esp", "eip"}, {})

\* Instances whose result is an identity or a constant by construction (same register twice, count 0 modulo the rotation
\* width, shift count >= operand size): a declared item may have no observable influence there.  The self-check demands
\* only "observed within declared" for them, and the judge T_C08 does not use them.
SameReg(i) == Len(i.ops) >= 2 /\ i.ops[1].k = "reg" /\ i.ops[2].k = "reg" /\ RegIdx(i.ops[1]) = RegIdx(i.ops[2])
IdentityImm(v, w) == IsZero(Norm(v, w)) \/ Norm(v, w) = Ones(w)
Degenerate(i) ==
   \/ SameReg(i) /\ i.mn \notin ShiftMn
   \/ /\ i.mn \in {"add", "sub", "and", "or", "xor", "test", "adc", "sbb", "imul"}                  \* x + 0, x & 0, x | -1, x * 0 ...
      /\ \E j \in 1..Len(i.ops) : i.ops[j].k = "imm" /\ IdentityImm(i.ops[j].v, i.w)
   \/ /\ i.mn \in ShiftMn /\ i.ops[Len(i.ops)].k = "imm"
      /\ LET cm == G(i.ops[Len(i.ops)].v, 1) % 32 IN cm >= i.w \/ cm % i.w = 0 \/ (i.mn \in {"rcl", "rcr"} /\ cm % (i.w + 1) = 0)
   \/ i.mn \in ShiftMn /\ SameReg(i)
   \/ i.mn \in ShiftMn /\ i.ops[Len(i.ops)].k = "reg" /\ i.ops[1].k = "reg" /\ RegIdx(i.ops[1]) = 2      \* shifting ecx by cl
   \/ /\ i.mn \in DivMn /\ i.ops[1].k = "reg"                                                   \* dividing by the upper half of the dividend always faults
      /\ (IF i.w = 8 THEN i.ops[1].n = 4 ELSE i.ops[1].n = 2)
   \/ i.mn = "cmpxchg" /\ i.ops[2].k = "reg" /\ RegIdx(i.ops[2]) = 1                              \* source = accumulator: a store of the same value
   \/ i.mn = "cmpxchg" /\ i.ops[1].k = "reg" /\ RegIdx(i.ops[1]) = 1                              \* destination = accumulator: always equal
   \/ i.mn = "cmpxchg" /\ i.ops[1].k = "mem" /\ 1 \in AddrIdx(i.ops[1])                          \* accumulator also addresses the destination

\* ---- instructions outside the integer core: declared sets (not probed) ------------------------------------
X87 == {"x87"}
E(txt, r, w, wu) == [txt |-> txt, r |-> r, w |-> w, wu |-> wu]
XP == INSTANCE X87Pos
MemB == {"ebx", "mem[ebx]"}
EX(txt, form) == E(txt, XP!Reads(form), XP!Writes(form), {})
Ext == <<
   E("daa", {"eax", "af", "cf"}, {"eax", "cf", "af", "sf", "zf", "pf"}, {"of"}),
   E("das", {"eax", "af", "cf"}, {"eax", "cf", "af", "sf", "zf", "pf"}, {"of"}),
   E("aaa", {"eax", "af"}, {"eax", "af", "cf"}, {"of", "sf", "zf", "pf"}),
   E("aas", {"eax", "af"}, {"eax", "af", "cf"}, {"of", "sf", "zf", "pf"}),
   E("aam", {"eax"}, {"eax", "sf", "zf", "pf"}, {"of", "af", "cf"}),
   E("aad", {"eax"}, {"eax", "sf", "zf", "pf"}, {"of", "af", "cf"}),
   E("cpuid", {"eax", "ecx"}, {"eax", "ebx", "ecx", "edx"}, {}),
   E("rdtsc", {}, {"eax", "edx"}, {}),
   E("cmpxchg8b qword ptr [ebx]", {"eax", "edx", "ebx", "ecx", "mem[ebx]"}, {"eax", "edx", "mem[ebx]", "zf"}, {}),
   E("pushfd", {"esp", "cf", "pf", "af", "zf", "sf", "df", "of"}, {"esp", "mem[esp]"}, {}),
   E("popfd", {"esp", "mem[esp]"}, {"esp", "cf", "pf", "af", "zf", "sf", "df", "of"}, {}),
   E("rep movsb", {"ecx", "esi", "edi", "df", "mem[esi]"}, {"ecx", "esi", "edi", "mem[edi]"}, {}),
   E("rep stosd", {"ecx", "eax", "edi", "df"}, {"ecx", "edi", "mem[edi]"}, {}),
   E("repe cmpsb", {"ecx", "esi", "edi", "df", "mem[esi]", "mem[edi]"}, {"ecx", "esi", "edi"} \cup Flags6, {}),
   E("repne scasb", {"ecx", "eax", "edi", "df", "mem[edi]"}, {"ecx", "edi"} \cup Flags6, {}),
   E("paddb mm1, mm2", {"mm1", "mm2"}, {"mm1"}, {}),
   E("paddb mm1, qword ptr [ebx]", {"mm1", "ebx", "mem[ebx]"}, {"mm1"}, {}),
   E("pxor xmm1, xmm2", {"xmm1", "xmm2"}, {"xmm1"}, {}),
   E("pxor xmm1, xmmword ptr [ebp+esi*4+0x10]", {"xmm1", "ebp", "esi", "mem[ebp,esi]"}, {"xmm1"}, {}),
   E("movq mm1, mm2", {"mm2"}, {"mm1"}, {}),
   E("movq qword ptr [ebx], mm1", {"mm1", "ebx"}, {"mem[ebx]"}, {}),
   E("movq mm3, qword ptr [ebx]", {"ebx", "mem[ebx]"}, {"mm3"}, {}),
   E("movdqa xmm1, xmmword ptr [ebx]", {"ebx", "mem[ebx]"}, {"xmm1"}, {}),
   E("movdqa xmmword ptr [ebx], xmm1", {"xmm1", "ebx"}, {"mem[ebx]"}, {}),
   E("movups xmm2, xmmword ptr [esp+8]", {"esp", "mem[esp]"}, {"xmm2"}, {}),
   E("movd mm1, eax", {"eax"}, {"mm1"}, {}),
   E("movd eax, xmm1", {"xmm1"}, {"eax"}, {}),
   E("movd xmm1, dword ptr [ebx]", {"ebx", "mem[ebx]"}, {"xmm1"}, {}),
   E("pshufd xmm1, xmm2, 0x1b", {"xmm2"}, {"xmm1"}, {}),
   E("pshufw mm1, mm2, 0x1b", {"mm2"}, {"mm1"}, {}),
   E("psllq xmm1, 4", {"xmm1"}, {"xmm1"}, {}),
   E("pslldq xmm3, 4", {"xmm3"}, {"xmm3"}, {}),
   \* segment registers: loaded by lds/les/lss/lfs/lgs, mov and pop; read by mov and push
   E("lds eax, [ebx]", {"ebx", "mem[ebx]"}, {"eax", "ds"}, {}),
   E("les ecx, [ebx+4]", {"ebx", "mem[ebx]"}, {"ecx", "es"}, {}),
   E("lss esi, [ebx]", {"ebx", "mem[ebx]"}, {"esi", "ss"}, {}),
   E("lfs edx, [ebx]", {"ebx", "mem[ebx]"}, {"edx", "fs"}, {}),
   E("lgs edi, [ebx]", {"ebx", "mem[ebx]"}, {"edi", "gs"}, {}),
   E("mov es, bx", {"ebx"}, {"es"}, {}),
   E("mov eax, es", {"es"}, {"eax"}, {}),
   E("mov word ptr [ebx], fs", {"ebx", "fs"}, {"mem[ebx]"}, {}),
   E("push fs", {"esp", "fs"}, {"esp", "mem[esp]"}, {}),
   E("pop gs", {"esp", "mem[esp]"}, {"esp", "gs"}, {}),
   \* the shift-by-immediate groups 0F 71/72/73 on register number 0 and 7 of each class (the register field is decoded apart)
   E("psrld xmm0, 3", {"xmm0"}, {"xmm0"}, {}),
   E("psllw xmm7, 1", {"xmm7"}, {"xmm7"}, {}),
   E("psraw mm0, 2", {"mm0"}, {"mm0"}, {}),
   E("psrlq mm7, 8", {"mm7"}, {"mm7"}, {}),
   E("psrldq xmm0, 1", {"xmm0"}, {"xmm0"}, {}),
   E("paddd xmm0, xmm7", {"xmm0", "xmm7"}, {"xmm0"}, {}),
   E("pxor mm0, mm7", {"mm0", "mm7"}, {"mm0"}, {}),
   E("psrlw mm1, mm2", {"mm1", "mm2"}, {"mm1"}, {}),
   E("addps xmm1, xmm2", {"xmm1", "xmm2"}, {"xmm1"}, {}),
   E("addsd xmm1, qword ptr [ebx]", {"xmm1", "ebx", "mem[ebx]"}, {"xmm1"}, {}),
   E("mulss xmm1, dword ptr [ebx]", {"xmm1", "ebx", "mem[ebx]"}, {"xmm1"}, {}),
   E("sqrtpd xmm1, xmm2", {"xmm2"}, {"xmm1"}, {}),
   \* partial writes: the untouched part of the destination register is an input of the result
   E("movss xmm1, xmm2", {"xmm1", "xmm2"}, {"xmm1"}, {}),
   E("movsd xmm1, xmm2", {"xmm1", "xmm2"}, {"xmm1"}, {}),
   E("movss xmm1, dword ptr [ebx]", {"ebx", "mem[ebx]"}, {"xmm1"}, {}),
   E("movss dword ptr [ebx], xmm1", {"xmm1", "ebx"}, {"mem[ebx]"}, {}),
   E("movlps xmm1, qword ptr [ebx]", {"xmm1", "ebx", "mem[ebx]"}, {"xmm1"}, {}),
   E("movhps xmm1, qword ptr [ebx]", {"xmm1", "ebx", "mem[ebx]"}, {"xmm1"}, {}),
   E("movhlps xmm1, xmm2", {"xmm1", "xmm2"}, {"xmm1"}, {}),
   E("movlhps xmm1, xmm2", {"xmm1", "xmm2"}, {"xmm1"}, {}),
   E("sqrtss xmm1, xmm2", {"xmm1", "xmm2"}, {"xmm1"}, {}),
   E("cvtss2sd xmm1, xmm2", {"xmm1", "xmm2"}, {"xmm1"}, {}),
   E("pinsrw xmm1, eax, 3", {"xmm1", "eax"}, {"xmm1"}, {}),
   E("pinsrw mm1, eax, 1", {"mm1", "eax"}, {"mm1"}, {}),
   E("cvtsi2sd xmm1, eax", {"eax", "xmm1"}, {"xmm1"}, {}),
   E("cvttsd2si eax, xmm1", {"xmm1"}, {"eax"}, {}),
   E("pmovmskb eax, xmm1", {"xmm1"}, {"eax"}, {}),
   E("movmskps eax, xmm1", {"xmm1"}, {"eax"}, {}),
   E("pextrw eax, xmm1, 3", {"xmm1"}, {"eax"}, {}),
   E("pinsrw xmm1, eax, 3", {"xmm1", "eax"}, {"xmm1"}, {}),
   E("punpcklbw xmm1, xmm2", {"xmm1", "xmm2"}, {"xmm1"}, {}),
   E("pcmpeqb xmm1, xmm2", {"xmm1", "xmm2"}, {"xmm1"}, {}),
   E("comiss xmm1, xmm2", {"xmm1", "xmm2"}, Flags6, {}),
   E("ucomisd xmm1, qword ptr [ebx]", {"xmm1", "ebx", "mem[ebx]"}, Flags6, {}),
   E("ptest xmm1, xmm2", {"xmm1", "xmm2"}, Flags6, {}),
   E("pblendvb xmm1, xmm2", {"xmm0", "xmm1", "xmm2"}, {"xmm1"}, {}),
   E("blendvps xmm1, xmm2", {"xmm0", "xmm1", "xmm2"}, {"xmm1"}, {}),
   E("blendvpd xmm1, xmmword ptr [ebx]", {"xmm0", "xmm1", "ebx", "mem[ebx]"}, {"xmm1"}, {}),
   E("pcmpistri xmm1, xmm2, 0x0c", {"xmm1", "xmm2"}, {"ecx"} \cup Flags6, {}),
   E("pcmpistrm xmm1, xmm2, 0x0c", {"xmm1", "xmm2"}, {"xmm0"} \cup Flags6, {}),
   E("pcmpestri xmm1, xmm2, 0x0c", {"xmm1", "xmm2", "eax", "edx"}, {"ecx"} \cup Flags6, {}),
   E("pcmpestrm xmm1, xmm2, 0x0c", {"xmm1", "xmm2", "eax", "edx"}, {"xmm0"} \cup Flags6, {}),
   E("maskmovq mm1, mm2", {"mm1", "mm2", "edi"}, {"mem[edi]"}, {}),
   E("maskmovdqu xmm1, xmm2", {"xmm1", "xmm2", "edi"}, {"mem[edi]"}, {}),
   \* x87 register forms: sets of stack POSITIONS derived from the stack-relative model X87Pos (a push / pop moves every
   \* value to the neighbouring position); TOP, status / control word and environment stay the one item "x87"
   EX("fadd st, st(1)", XP!Arith(0, 1, 0)),
   EX("fsub st(3), st", XP!Arith(3, 0, 0)),
   EX("fmul dword ptr [ebx]", XP!ArithM(MemB, 0)),
   EX("fidiv word ptr [ebx]", XP!ArithM(MemB, 0)),
   EX("faddp st(1), st", XP!Arith(1, 0, 1)),
   EX("fmulp st(2), st", XP!Arith(2, 0, 1)),
   EX("fsubrp st(3), st", XP!Arith(3, 0, 1)),
   EX("fdivp st(7), st", XP!Arith(7, 0, 1)),
   EX("fld dword ptr [ebx]", XP!LoadM(MemB)),
   EX("fild word ptr [ebx]", XP!LoadM(MemB)),
   EX("fld st(0)", XP!Load(0)),
   EX("fld st(2)", XP!Load(2)),
   EX("fstp qword ptr [ebx]", XP!StoreM({"mem[ebx]"}, {"ebx"}, 1)),
   EX("fst dword ptr [ebx]", XP!StoreM({"mem[ebx]"}, {"ebx"}, 0)),
   EX("fistp dword ptr [ebx]", XP!StoreM({"mem[ebx]"}, {"ebx"}, 1)),
   EX("fst st(2)", XP!Store(2, 0)),
   EX("fstp st(2)", XP!Store(2, 1)),
   EX("fstp st(0)", XP!Store(0, 1)),
   EX("fxch st(1)", XP!Xch(1)),
   EX("fxch st(3)", XP!Xch(3)),
   EX("fchs", XP!Unary),
   EX("fsqrt", XP!Unary),
   EX("fcomi st, st(1)", XP!Cmp(1, {"zf", "pf", "cf"}, 0)),
   EX("fucomi st, st(3)", XP!Cmp(3, {"zf", "pf", "cf"}, 0)),
   EX("fucomip st, st(1)", XP!Cmp(1, {"zf", "pf", "cf"}, 1)),
   EX("fcomip st, st(2)", XP!Cmp(2, {"zf", "pf", "cf"}, 1)),
   EX("fcom st(2)", XP!Cmp(2, {"x87"}, 0)),
   EX("fcomp dword ptr [ebx]", XP!CmpM(MemB, {"x87"}, 1)),
   EX("ficom word ptr [ebx]", XP!CmpM(MemB, {"x87"}, 0)),
   EX("fcompp", XP!Cmp(1, {"x87"}, 2)),
   EX("fucompp", XP!Cmp(1, {"x87"}, 2)),
   EX("fxam", XP!Cmp(0, {"x87"}, 0)),
   EX("ftst", XP!Cmp(0, {"x87"}, 0)),
   EX("fcmovb st, st(1)", XP!CMov(1, {"cf"})),
   EX("fcmove st, st(2)", XP!CMov(2, {"zf"})),
   EX("fcmovnbe st, st(3)", XP!CMov(3, {"cf", "zf"})),
   EX("fcmovu st, st(1)", XP!CMov(1, {"pf"})),
   E("fnstsw ax", X87 \cup {"eax"}, {"eax"}, {}),
   EX("fnstcw word ptr [ebx]", XP!StoreWord({"mem[ebx]"}, {"ebx"})),
   EX("fldcw word ptr [ebx]", XP!LoadWord(MemB))
>>
\* ---- memory cells an instance can touch: <<name, address, bytes>> ---------------------
Cells(i, s) ==
   LET n == i.w \div 8
       esp == s.reg[ESP]
       opcell(j) ==
          LET o == i.ops[j] IN
          IF i.mn \in BitMn /\ i.ops[2].k = "reg" THEN <<CellOf(AddrIdx(o) \cup {RegIdx(i.ops[2])}), BitAddr(i, s), n>>
          ELSE IF i.mn = "pop" THEN <<CellOf(AddrIdx(o)), EAOf(o, RegWrite(s.reg, "r32", 4, Add(esp, Const(n), 32))), n>>
          ELSE <<CellOf(AddrIdx(o)), EA(o, s), IF i.mn \in {"movzx", "movsx"} THEN i.sw \div 8 ELSE IF i.mn = "setcc" THEN 1 ELSE n>>
       ops == {opcell(j) : j \in {j \in 1..Len(i.ops) : i.ops[j].k = "mem"} \ (IF i.mn = "lea" THEN {2} ELSE {})}
       str == IF i.mn \in {"movs", "cmps", "lods"} THEN {<<"mem[esi]", s.reg[ESI], n>>} ELSE {}
       std == IF i.mn \in {"movs", "cmps", "scas", "stos"} THEN {<<"mem[edi]", s.reg[EDI], n>>} ELSE {}
       oth == IF i.mn = "leave" THEN {<<"mem[ebp]", s.reg[EBP], 4>>}
              ELSE IF i.mn = "xlat" THEN {<<"mem[eax,ebx]", Add(s.reg[EBX], ZExt(<<s.reg[EAX][1]>>, 32), 32), 1>>} ELSE {}
       stk == IF i.mn \in {"push", "call", "pushad", "enter"} THEN {<<"mem[esp]", Sub(esp, Const(32), 32), 32>>}
              ELSE IF i.mn \in {"pop", "ret"} THEN {<<"mem[esp]", esp, n>>}
              ELSE IF i.mn = "popad" THEN {<<"mem[esp]", esp, 8 * n>>} ELSE {}
   IN ops \cup str \cup std \cup stk \cup oth
InCell(c, a) == Ult(Sub(a, c[2], 32), Const(c[3]))        \* address a within [c.addr, c.addr + n)

\* ---- probes ----------------------------------------------------------------------------------
FlagSet(fl, k, v) == CASE k = 1 -> [fl EXCEPT !.cf = v] [] k = 2 -> [fl EXCEPT !.pf = v] [] k = 3 -> [fl EXCEPT !.af = v] [] k = 4 -> [fl EXCEPT !.zf = v]
                       [] k = 5 -> [fl EXCEPT !.sf = v] [] k = 6 -> [fl EXCEPT !.df = v] [] k = 7 -> [fl EXCEPT !.of = v]
FlagAt(fl, k) == CASE k = 1 -> fl.cf [] k = 2 -> fl.pf [] k = 3 -> fl.af [] k = 4 -> fl.zf [] k = 5 -> fl.sf [] k = 6 -> fl.df [] k = 7 -> fl.of
\* results of two steps differ, not counting a register / flag `skipR` / `skipF` that is merely carried over
Differ(p, q, skipR, skipF) ==
   \/ p.fault # q.fault \/ p.eip # q.eip \/ p.taken # q.taken \/ p.wr # q.wr \/ p.um # q.um \/ p.ur # q.ur
   \/ \E r \in (1..8) \ {skipR} : p.reg[r] # q.reg[r]
   \/ \E f \in (1..7) \ {skipF} : FlagAt(p.fl, f) # FlagAt(q.fl, f)
=============================================================================
