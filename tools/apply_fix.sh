#!/bin/sh
# usage: tools/apply_fix.sh <slug>   applies fixes_proposed/<slug>.patch to /repo, runs the pinned suite, commits with <slug>.msg
S=$1
cd /repo || exit 2
git apply --check /verif/fixes_proposed/$S.patch || { echo "DOES NOT APPLY: $S"; exit 1; }
git apply /verif/fixes_proposed/$S.patch
if /venv/bin/python -m pytest -q -x -p no:cacheprovider --timeout=900 >/tmp/applyfix.log 2>&1; then
  git commit -qa -F /verif/fixes_proposed/$S.msg && echo "APPLIED $S $(git log --format=%h -1)"
else
  echo "PINNED SUITE FAILS WITH $S"; tail -5 /tmp/applyfix.log; git checkout -- . ; exit 1
fi
