"""C05 - expression simplification preserves meaning (width, value) and terminates.
S->C: IRGen.tla (TLC) enumerates well-typed trees; miasmX simplifies fresh copies; C->S: T_C05.tla
evaluates original and simplified tree with IR.Eval under valuations and names the failing clause."""
import sys, json, random, collections
from . import core, irlib, expr_json as EJ

GRID_Q = [0, 1, 2, 7, 8, 9, 127, 128, 255, 100]
GRID_T = list(range(256))
RULE_PAIRS = [['&', '>>'], ['|', '=='], ['<<<', '>>>'], ['+', '-'], ['^', '-'], ['&', '|'], ['<<', '>>'], ['*', '+']]


def _simp_shared(t):
    return _simp(t, True)


def _simp(t, shared=False):
    from miasmx.expression.expression_helper import expr_simp
    e = EJ.from_json_shared(t) if shared else EJ.from_json(t)
    st, r = irlib.guarded(expr_simp, e, 5)
    if st == 'ok':
        try:
            return ('ok', EJ.to_json(r))
        except Exception as x:
            return ('exc', irlib.exc_key(x))
    return (st, r)


def shape(t):
    """rule-shape class of a tree (for evidence and for known-finding keys): operator skeleton to depth 2"""
    k = t['k']
    if k == 'int':
        return 'c'
    if k == 'id':
        return 'v'
    if k == 'mem':
        return 'm'
    kids = t.get('a', [])
    def leaf(x):
        return {'int': 'c', 'id': 'v', 'mem': 'm'}.get(x['k'], x.get('o', x['k']))
    head = t['o'] if k == 'op' else k
    return head + '(' + ','.join(leaf(x) for x in kids) + ')'


def build_records(trees, outs, rnd, nenv, grid, start_id=0, keep_unchanged=0.05):
    recs, stats = [], collections.Counter()
    for i, (t, (st, r)) in enumerate(zip(trees, outs)):
        rec = {'id': start_id + i, 'e': t, 'st': st, 'r': r if st == 'ok' else {'k': 'none'}, 'envs': [], 'grid': []}
        if st != 'ok':
            rec['exc'] = r
            stats[st] += 1
            recs.append(rec)
            continue
        if r == t:
            stats['unchanged'] += 1
            if rnd.random() >= keep_unchanged:
                continue
        else:
            stats['changed'] += 1
        idw = EJ.ids_of(t)
        EJ.ids_of(r, idw)
        if set(idw) <= {'x8', 'y8'} and grid:
            rec['grid'] = grid
        else:
            rec['envs'] = irlib.make_envs(idw, nenv, rnd)
        recs.append(rec)
    return recs, stats


def subtrees(t, acc=None):
    if acc is None:
        acc = []
    acc.append(t)
    for x in t.get('a', []):
        subtrees(x, acc)
    for x in t.get('g', []):
        subtrees(x, acc)
    return acc


def features(t):
    """root-cause features of a (minimal failing) tree, used in known-finding keys"""
    f = []
    if t['k'] == 'op' and t['o'] in ('<<<', '>>>') and len(t['a']) == 2:
        c = t['a'][0]
        if c['k'] == 'op' and c['o'] in ('<<<', '>>>') and len(c['a']) == 2 and c['a'][1]['w'] != t['a'][1]['w']:
            f.append('nested_rotate_counts_of_different_size')
    return f


def report(chk, recs, verdicts, rnd=None, minimize=True):
    """each failing record is reduced to its smallest failing sub-tree (re-simplified and re-judged by TLC);
    the violation class is (clause, shape and features of that sub-tree)"""
    byid = {r['id']: r for r in recs}
    bad = []
    for v in verdicts:
        rec = byid[v['id']]
        for f in v['v'][:1]:
            bad.append((rec, f))
    if not bad:
        return
    rnd = rnd or random.Random(0)
    mins = {}
    if minimize:
        subs, owner = [], []
        seen = {}
        for bi, (rec, f) in enumerate(bad[:400]):
            for st in subtrees(rec['e'])[1:]:
                if st['k'] in ('int', 'id') or st['w'] not in (1, 8, 16, 32, 64):
                    continue
                k = json.dumps(st, sort_keys=True)
                if k not in seen:
                    seen[k] = len(subs)
                    subs.append(st)
                    owner.append([])
                owner[seen[k]].append(bi)
        if subs:
            outs = irlib.pmap(_simp, subs)
            srecs, _ = build_records(subs, outs, rnd, 8, GRID_Q, start_id=0, keep_unchanged=0.0)
            sver, st = core.judge('T_C05', srecs, timeout=1500)
            chk.add_tlc(st)
            sid = {r['id']: r for r in srecs}
            for v in sver:
                r = sid[v['id']]
                fv = v['v'][0]
                for bi in owner[r['id']]:
                    cur = mins.get(bi)
                    if cur is None or EJ.node_count(r['e']) < EJ.node_count(cur[0]['e']):
                        mins[bi] = (r, fv)
    for bi, (rec, f) in enumerate(bad):
        mrec, mf = mins.get(bi, (rec, f))
        key = {'clause': mf['clause'], 'shape': shape(mrec['e']), 'feat': ','.join(features(mrec['e']))}
        if mf['clause'] == 'C05.terminates':
            key['how'] = mrec['st']
            if mrec['st'] == 'exc':
                key.update(mrec['exc'])
        chk.violation(key, {'input': rec['e'], 'input_text': EJ.show(rec['e']),
                            'simplified_text': EJ.show(rec['r']) if rec['st'] == 'ok' else rec['st'],
                            'minimal_failing_subtree': mrec['e'], 'minimal_text': EJ.show(mrec['e']),
                            'minimal_simplified_text': EJ.show(mrec['r']) if mrec['st'] == 'ok' else mrec['st'],
                            'verdict': mf})


def run_space(chk, trees, rnd, nenv, grid, label, shared=False, keep_unchanged=0.05):
    outs = irlib.pmap(_simp_shared if shared else _simp, trees)
    start = chk.cov['evaluations']
    recs, stats = build_records(trees, outs, rnd, nenv, grid, start_id=start, keep_unchanged=keep_unchanged)
    chk.cov['evaluations'] += len(trees)
    chk.cov['distinct_nontrivial'] += stats['changed'] + stats['timeout'] + stats['exc']
    rnd.shuffle(recs)
    verdicts, st = core.judge('T_C05', recs, timeout=3000)
    chk.add_tlc(st)
    chk.cov['traces_validated_against_impl'] += len(recs)
    chk.cov.setdefault('spaces', {})[label] = dict(stats, trees=len(trees), judged=len(recs))
    for r in recs[:2]:
        chk.sample({'space': label, 'input': EJ.show(r['e']), 'simplified': EJ.show(r['r']) if r['st'] == 'ok' else r['st'],
                    'valuations': len(r['envs']) + len(r['grid']) ** 2})
    report(chk, recs, verdicts, rnd)
    bad = set(v['id'] for v in verdicts)
    return [(t, o) for k, (t, o) in enumerate(zip(trees, outs)) if (start + k) not in bad]


def run(tier, chk):
    rnd = random.Random(chk.seed)
    negative_control(chk)
    quick = tier == 'quick'
    # tier (a): 8 bits, two identifiers, every binary operator + unary minus: all trees up to N nodes
    ta = irlib.gen_trees(4 if quick else 5, [8], 2, irlib.BIN8, ['-', 'parity'], False, chk)
    run_space(chk, ta, rnd, 8, GRID_Q if quick else GRID_Q + [3, 4, 15, 16, 31, 32, 64, 129, 254, 200], 'a:8bit')
    # rule-targeted spaces: all 5-node trees over operator pairs that occur together in a rewrite rule
    pairs = []
    for ops in RULE_PAIRS:
        tr = irlib.gen_trees(5, [8], 2, ops, ['-'], False, chk)
        tr = [t for t in tr if EJ.node_count(t) == 5]
        if quick:
            tr = [t for t in tr if rnd.random() < 0.5]
        if quick:
            pairs += tr                 # one judge run for all operator pairs (a JVM start per pair costs more than the judging)
        else:
            run_space(chk, tr, rnd, 8, GRID_Q, 'a:8bit 5 nodes ops=' + ' '.join(ops))
    if pairs:
        run_space(chk, pairs, rnd, 8, GRID_Q, 'a:8bit 5 nodes, operator pairs ' + ' / '.join(' '.join(ops) for ops in RULE_PAIRS))
    if not quick:
        # all 2^16 valuations on every tree of at most 3 nodes
        small = [t for t in ta if EJ.node_count(t) <= 3]
        run_space(chk, small, rnd, 8, GRID_T, 'a:8bit<=3nodes,all 2^16 valuations')
    # tier (b): widths 1/8/16/32/64 with slices, compositions, conditions, memory, ternary AC operators
    tb = irlib.gen_trees(3, [1, 8, 16, 32, 64], 2, irlib.BIN8, ['-', 'parity'], True, chk)
    if quick:
        tb = [t for t in tb if rnd.random() < 0.25]
    run_space(chk, tb, rnd, 8 if quick else 16, [], 'b:multiwidth rich')
    rb = random_trees(rnd, 3000 if quick else 40000)
    run_space(chk, rb, rnd, 8 if quick else 16, [], 'c:random depth<=4')
    # the same meaning must come out when identical sub-trees are one shared Python object (as user code and the lifter build them)
    td = sharing_trees(rnd, 2500 if quick else 30000)
    run_space(chk, td, rnd, 8 if quick else 16, [], 'd:trees with repeated sub-trees, built as DAGs', shared=True)
    ti = same_text_trees(rnd, 1600 if quick else 16000)
    run_space(chk, ti, rnd, 4, [], 'i:expressions that print alike and differ in inner widths, simplified by one process', keep_unchanged=1.0)
    th = prefix_twin_trees(rnd, 1500 if quick else 15000)
    run_space(chk, th, rnd, 8 if quick else 16, [], 'h:operands that are n-ary operators with prefix-related operand lists')
    # concatenations with constants typed wider than their slot, and inputs taken from the simplifier's own output language
    tf = loose_compose_trees(rnd, 2500 if quick else 30000)
    run_space(chk, tf, rnd, 8 if quick else 16, [], 'f:concatenations with constants wider than their slot')
    tw = wide_trees(rnd, 1500 if quick else 20000)
    run_space(chk, tw, rnd, 8 if quick else 16, [], 'w:128-bit concatenations, operators and slices (SSE operands, 128-bit read-backs)')
    src = loose_compose_trees(rnd, 1500 if quick else 15000) + random_trees(rnd, 1500 if quick else 15000)
    # the first pass is judged like every other space; only outputs it accepts (well typed, same value) feed the second pass
    good = run_space(chk, src, rnd, 8 if quick else 16, [], 'g1:first pass of the two-pass inputs', keep_unchanged=1.0)
    tg = second_pass_trees(rnd, [t for t, o in good], [o for t, o in good])
    run_space(chk, tg, rnd, 8 if quick else 16, [], 'g2:second pass (simplify, substitute a constant for an identifier, simplify)')
    rule_conformance(chk, [t for t in ta if t['k'] == 'op'] if not quick else [t for t in ta if t['k'] == 'op' and rnd.random() < 0.5], rnd)
    chk.cov['rule'] = ('trees = reachable one-element stacks of IRGen.tla (typed stack machine) + seeded random deeper trees; '
                       'non-trivial = trees whose simplification differs structurally from the input (or did not terminate)')
    chk.assumptions += ['memory is a byte-addressed little-endian total function (IR.tla InitByte + overrides)',
                        'operators outside IR.Interpreted are uninterpreted functions of their argument values']


def _one_step(t):
    from miasmx.expression.expression_helper import _expr_simp
    st, r = irlib.guarded(_expr_simp, EJ.from_json(t), 5)
    if st != 'ok':
        return (st, {'k': 'none'})
    try:
        return ('ok', EJ.to_json(r))
    except Exception:
        return ('exc', {'k': 'none'})


def rule_conformance(chk, trees, rnd):
    """C->S at rule granularity: ONE step of the code's simplifier on an operator node against the rule model
    SimpRules.Step (whose soundness and termination TLC proves on the model, SimpRulesSelf).  A mismatch is not a
    property violation by itself (the model may lag behind a sound change): the tree is then judged by T_C05 on
    ALL 2^16 valuations, and the mismatch count is reported in the evidence."""
    outs = irlib.pmap(_one_step, trees)
    recs = [{'id': i, 'e': t, 'st': o[0], 'one': o[1]} for i, (t, o) in enumerate(zip(trees, outs))]
    rnd.shuffle(recs)
    verdicts, st = core.judge('T_SIMP', recs, timeout=1500)
    chk.add_tlc(st)
    chk.cov['traces_validated_against_impl'] += len(recs)
    chk.cov['rule_model'] = {'single_steps_compared': len(recs), 'mismatches': len(verdicts)}
    if verdicts:
        byid = {r['id']: r for r in recs}
        bad = [byid[v['id']]['e'] for v in verdicts][:300]
        chk.cov['rule_model']['examples'] = [EJ.show(t) for t in bad[:5]]
        run_space(chk, bad, rnd, 8, GRID_T, 'e:trees whose single step deviates from the rule model, all 2^16 valuations')


def random_trees(rnd, n):
    """well-typed random trees beyond the exhaustive node bound (depth <= 4, all widths)"""
    W = [1, 8, 16, 32, 64]

    def const(w):
        return {'k': 'int', 'w': w, 'v': core.limbs(rnd.choice(irlib.boundary(w)) if rnd.random() < 0.7 else rnd.getrandbits(w), w)}

    def gen(d, w):
        if d == 0 or rnd.random() < 0.2:
            r = rnd.random()
            if r < 0.4:
                return const(w)
            if r < 0.9 or w < 8:
                return {'k': 'id', 'w': w, 'n': rnd.choice('xyz') + str(w)}
            return {'k': 'mem', 'w': w, 'a': [gen(d - 1 if d else 0, 32)], 'g': []}
        c = rnd.choice(['op', 'op', 'op', 'op', 'neg', 'slice', 'cond', 'compose', 'shift'])
        if c == 'op':
            o = rnd.choice(['+', '-', '^', '&', '|', '*', '==', '+', '^', '&', '|'])
            n_ = rnd.choice([2, 2, 3]) if o in '+^&|*' else 2
            return {'k': 'op', 'w': w, 'o': o, 'u': 0, 'a': [gen(d - 1, w) for _ in range(n_)]}
        if c == 'shift':
            o = rnd.choice(['<<', '>>', 'a>>', '<<<', '>>>'])
            return {'k': 'op', 'w': w, 'o': o, 'u': 0, 'a': [gen(d - 1, w), gen(d - 1, rnd.choice([w, w, 8]) if w >= 8 else w)]}
        if c == 'neg':
            return {'k': 'op', 'w': w, 'o': rnd.choice(['-', '-', 'parity']) if w >= 8 else '-', 'u': 0, 'a': [gen(d - 1, w)]}
        if c == 'slice':
            big = [x for x in W if x > w]
            if not big:
                return gen(d - 1, w)
            bw = rnd.choice(big)
            lo = rnd.choice([0, 0, bw - w, rnd.randint(0, bw - w)])
            return {'k': 'slice', 'w': w, 'lo': lo, 'hi': lo + w, 'a': [gen(d - 1, bw)]}
        if c == 'cond':
            return {'k': 'cond', 'w': w, 'a': [gen(d - 1, rnd.choice([1, 8, 32])), gen(d - 1, w), gen(d - 1, w)]}
        if w not in (16, 32, 64):
            return gen(d - 1, w)
        if rnd.random() < 0.5:
            h = w // 2
            return {'k': 'compose', 'w': w, 'a': [gen(d - 1, h), gen(d - 1, h)], 's': [[0, h], [h, w]]}
        cut = 8 if w > 8 else 1
        return {'k': 'compose', 'w': w, 'a': [gen(d - 1, 8), gen(d - 1, w - 8)], 's': [[0, 8], [8, w]]} if w - 8 in W else gen(d - 1, w)
    return [gen(rnd.choice([2, 3, 3, 4]), rnd.choice([8, 8, 16, 32, 32, 64, 1])) for _ in range(n)]


def sharing_trees(rnd, n):
    """trees in which a sub-tree occurs several times (slices of one source in adjacent compose slots, a slice reused
    in a second operand, an operand repeated under another operator)"""
    out = []
    pool = random_trees(rnd, n)
    for t in pool:
        w = t['w']
        c = rnd.random()
        if w in (16, 32, 64) and c < 0.5:
            h = w // 2
            src = {'k': 'id', 'w': w, 'n': rnd.choice('xy') + str(w)} if rnd.random() < 0.6 else t
            lo = {'k': 'slice', 'w': h, 'lo': 0, 'hi': h, 'a': [src]}
            hi = {'k': 'slice', 'w': h, 'lo': h, 'hi': w, 'a': [src]}
            whole = {'k': 'compose', 'w': w, 'a': [lo, hi], 's': [[0, h], [h, w]]}
            other = {'k': 'compose', 'w': w, 'a': [hi, {'k': 'slice', 'w': h, 'lo': rnd.choice([0, 1, h // 2]), 'hi': 0, 'a': [{'k': 'id', 'w': w, 'n': 'z' + str(w)}]}],
                     's': [[0, h], [h, w]]}
            other['a'][1]['hi'] = other['a'][1]['lo'] + h
            out.append({'k': 'op', 'w': w, 'o': rnd.choice(['^', '+', '|', '&']), 'u': 0, 'a': [whole, rnd.choice([other, hi and {'k': 'compose', 'w': w, 'a': [hi, lo], 's': [[0, h], [h, w]]}])]})
        else:
            o = rnd.choice(['^', '+', '|', '&', '-', '*'])
            u = {'k': 'op', 'w': w, 'o': rnd.choice(['+', '&', '^']), 'u': 0, 'a': [t, {'k': 'id', 'w': w, 'n': 'y' + str(w)}]}
            out.append({'k': 'op', 'w': w, 'o': o, 'u': 0, 'a': [t, u] if rnd.random() < 0.5 else [u, t]})
    return out


def loose_compose_trees(rnd, n):
    """concatenations whose constant components are typed wider than their slot (only the low stop-start bits count):
    the simplifier itself produces them (a merged constant gets the type of the whole concatenation), user code and
    substitution feed them back"""
    W = [8, 16, 32, 64]
    out = []
    while len(out) < n:
        w = rnd.choice([16, 32, 32, 64])
        cuts = sorted(set([0, w] + [rnd.choice([8, 16, 24, 32, 48, w // 2]) for _ in range(rnd.choice([1, 2, 3]))]))
        cuts = [c for c in cuts if c <= w]
        slots = list(zip(cuts, cuts[1:]))
        if len(slots) < 2:
            continue
        args = []
        for lo, hi in slots:
            sw = hi - lo
            r = rnd.random()
            if r < 0.65:
                tw = rnd.choice([x for x in W if x >= sw])
                v = rnd.getrandbits(tw) if rnd.random() < 0.7 else rnd.choice(irlib.boundary(tw))
                args.append({'k': 'int', 'w': tw, 'v': core.limbs(v, tw)})
            elif sw in (8, 16, 32):
                args.append({'k': 'id', 'w': sw, 'n': rnd.choice('xy') + str(sw)})
            else:
                bw = rnd.choice([x for x in W if x >= sw])
                src = {'k': 'id', 'w': bw, 'n': rnd.choice('xy') + str(bw)}
                l0 = rnd.choice([0, bw - sw])
                args.append(src if bw == sw else {'k': 'slice', 'w': sw, 'lo': l0, 'hi': l0 + sw, 'a': [src]})
        t = {'k': 'compose', 'w': w, 'a': args, 's': [[lo, hi] for lo, hi in slots]}
        if rnd.random() < 0.3:
            t = {'k': 'op', 'w': w, 'o': rnd.choice(['+', '^', '&', '|']), 'u': 0, 'a': [t, {'k': 'id', 'w': w, 'n': 'z' + str(w)}]}
        out.append(t)
    return out


def wide_trees(rnd, n):
    """128-bit values (SSE operands, and what the symbolic memory assembles for a 128-bit read-back): concatenations of
    128 bits with constant / identifier / slice / memory parts, bitwise and additive operators on them, slices out of them"""
    W = 128

    def const(w):
        v = rnd.getrandbits(w) if rnd.random() < 0.6 else rnd.choice(irlib.boundary(w) if w <= 64 else [0, 1, (1 << 127) - 1, 1 << 127, (1 << 128) - 1, 1 << 64, (1 << 64) - 1])
        return {'k': 'int', 'w': w, 'v': core.limbs(v, w)}

    def part(sw):
        r = rnd.random()
        if r < 0.45:
            tw = rnd.choice([x for x in (8, 16, 32, 64, 128) if x >= sw])
            return const(tw)
        if r < 0.6 and sw in (8, 16, 32, 64):
            return {'k': 'id', 'w': sw, 'n': rnd.choice('xy') + str(sw)}
        if r < 0.7 and sw in (8, 16, 32, 64):
            return {'k': 'mem', 'w': sw, 'a': [{'k': 'id', 'w': 32, 'n': 'p32'}], 'g': []}
        bw = rnd.choice([x for x in (64, 128) if x >= sw])
        src = {'k': 'id', 'w': bw, 'n': rnd.choice('xy') + str(bw)}
        l0 = rnd.choice([0, bw - sw, (bw - sw) // 2 // 8 * 8])
        return src if bw == sw else {'k': 'slice', 'w': sw, 'lo': l0, 'hi': l0 + sw, 'a': [src]}

    def compose():
        cuts = sorted(set([0, W] + [rnd.choice([8, 16, 32, 64, 96, 120]) for _ in range(rnd.choice([1, 1, 2, 3]))]))
        slots = list(zip(cuts, cuts[1:]))
        return {'k': 'compose', 'w': W, 'a': [part(hi - lo) for lo, hi in slots], 's': [[lo, hi] for lo, hi in slots]}

    def leaf():
        r = rnd.random()
        if r < 0.5:
            return compose()
        if r < 0.7:
            return const(W)
        if r < 0.9:
            return {'k': 'id', 'w': W, 'n': rnd.choice('xyz') + '128'}
        return {'k': 'mem', 'w': W, 'a': [{'k': 'id', 'w': 32, 'n': 'p32'}], 'g': []}
    out = []
    while len(out) < n:
        r = rnd.random()
        if r < 0.35:
            t = compose()
        elif r < 0.7:
            o = rnd.choice(['^', '&', '|', '+', '-', '^', '&'])
            t = {'k': 'op', 'w': W, 'o': o, 'u': 0, 'a': [leaf() for _ in range(3 if o in '^&|+' and rnd.random() < 0.3 else 2)]}
        else:
            sw = rnd.choice([8, 32, 64, 64])
            lo = rnd.choice([0, W - sw, 32, 64, 56])
            lo = min(lo, W - sw)
            t = {'k': 'slice', 'w': sw, 'lo': lo, 'hi': lo + sw, 'a': [leaf()]}
        out.append(t)
    return out


def prefix_twin_trees(rnd, n):
    """two operands of one node that are n-ary operators of the same kind, the operand list of one being a prefix (or a
    permutation of a prefix) of the other's: near-equal operands in front of the rules x ^ x, x + (-x), x | x, x & x, x == x"""
    AC = ['+', '*', '^', '&', '|']
    out = []
    while len(out) < n:
        w = rnd.choice([8, 8, 32, 16])
        def leaf():
            if rnd.random() < 0.3:
                return {'k': 'int', 'w': w, 'v': core.limbs(rnd.choice(irlib.boundary(w)), w)}
            return {'k': 'id', 'w': w, 'n': rnd.choice('xyz') + str(w)}
        o = rnd.choice(AC)
        L = [leaf() for _ in range(rnd.choice([2, 2, 3]))]
        extra = leaf()
        A = {'k': 'op', 'w': w, 'o': o, 'u': 0, 'a': L}
        L2 = list(L)
        if rnd.random() < 0.3:
            rnd.shuffle(L2)
        B = {'k': 'op', 'w': w, 'o': o, 'u': 0, 'a': L2 + [extra]}
        r = rnd.choice(['^', '^', '-', '|', '&', '==', 'addneg', '+'])
        pair = [A, B] if rnd.random() < 0.5 else [B, A]
        if r == 'addneg':
            t = {'k': 'op', 'w': w, 'o': '+', 'u': 0, 'a': [pair[0], {'k': 'op', 'w': w, 'o': '-', 'u': 0, 'a': [pair[1]]}]}
        else:
            t = {'k': 'op', 'w': w, 'o': r, 'u': 0, 'a': pair}
        out.append(t)
    return out


def same_text_trees(rnd, n):
    """groups of trees that PRINT alike but differ in the width of their inner operands (the same constant expression built at
    16, 32 and 64 bits and sliced to its low byte / word): adjacent in the list, so that one worker process simplifies a whole
    group - a result remembered under the text of an expression must not be handed to another expression"""
    vals = [0, 1, 2, 8, 15, 16, 0xFF, 0x100, 0x7FFF, 0x8000, 0xFFFF, 0x10000, 0x7FFFFFFF, 0x80000000, 0xFFFFFFFF]
    out = []
    while len(out) < n:
        shape = rnd.choice(['bin', 'bin', 'nest', 'shift', 'cond'])
        a, b, c3 = rnd.choice(vals), rnd.choice(vals), rnd.choice(vals)
        o1, o2 = rnd.choice(['+', '-', '*', '&', '^', '|']), rnd.choice(['+', '-', '*', '^'])
        sh = rnd.choice([1, 4, 8, 15, 16, 31])
        sw = rnd.choice([8, 16])
        for w in (32, 16, 64, 32):
            if w <= sw:
                continue
            k = lambda v: {'k': 'int', 'w': w, 'v': core.limbs(v & ((1 << w) - 1), w)}
            op = lambda o, x, y: {'k': 'op', 'w': w, 'o': o, 'u': 0, 'a': [x, y]}
            if shape == 'bin':
                t = op(o1, k(a), k(b))
            elif shape == 'nest':
                t = op(o2, op(o1, k(a), k(b)), k(c3))
            elif shape == 'shift':
                t = op('>>', op(o1, k(a), k(b)), k(sh))
            else:
                t = {'k': 'cond', 'w': w, 'a': [op(o1, k(a), k(b)), k(c3), k(a)]}
            out.append({'k': 'slice', 'w': sw, 'lo': 0, 'hi': sw, 'a': [t]})
    return out


def subst_const(t, name, c):
    if t['k'] == 'id':
        return dict(c) if t['n'] == name else t
    r = dict(t)
    for f in ('a', 'g'):
        if f in t:
            r[f] = [subst_const(x, name, c) for x in t[f]]
    return r


def second_pass_trees(rnd, trees, outs):
    """inputs drawn from the simplifier's own output language: a simplified tree in which one identifier is then replaced
    by a constant (what eval_expr / replace_expr followed by expr_simp do)"""
    res = []
    for t, (st, r) in zip(trees, outs):
        if st != 'ok':
            continue
        idw = EJ.ids_of(r)
        if not idw:
            continue
        for name in sorted(idw)[:2]:
            w = idw[name]
            v = rnd.choice(irlib.boundary(w)) if rnd.random() < 0.5 else rnd.getrandbits(w)
            res.append(subst_const(r, name, {'k': 'int', 'w': w, 'v': core.limbs(v, w)}))
    return res


def negative_control(chk):
    t = {'k': 'op', 'w': 8, 'o': '+', 'u': 0, 'a': [{'k': 'id', 'w': 8, 'n': 'x8'}, {'k': 'int', 'w': 8, 'v': [1]}]}
    good = {'k': 'op', 'w': 8, 'o': '+', 'u': 0, 'a': [{'k': 'int', 'w': 8, 'v': [1]}, {'k': 'id', 'w': 8, 'n': 'x8'}]}
    bad = {'k': 'op', 'w': 8, 'o': '+', 'u': 0, 'a': [{'k': 'int', 'w': 8, 'v': [2]}, {'k': 'id', 'w': 8, 'n': 'x8'}]}
    wide = {'k': 'op', 'w': 16, 'o': '+', 'u': 0, 'a': [{'k': 'int', 'w': 16, 'v': [1, 0]}, {'k': 'id', 'w': 16, 'n': 'x16'}]}
    env = [{'id': {'x8': [5], 'x16': [5, 0]}, 'seed': 1, 'over': []}]
    recs = [{'id': 0, 'e': t, 'st': 'ok', 'r': good, 'envs': env, 'grid': []},
            {'id': 1, 'e': t, 'st': 'ok', 'r': bad, 'envs': env, 'grid': []},
            {'id': 2, 'e': t, 'st': 'ok', 'r': wide, 'envs': env, 'grid': []},
            {'id': 3, 'e': t, 'st': 'timeout', 'r': {'k': 'none'}, 'envs': [], 'grid': []},
            {'id': 4, 'e': t, 'st': 'ok', 'r': bad, 'envs': [], 'grid': [0, 255]}]
    verdicts, st = core.judge('T_C05', recs, shards=1)
    got = sorted((v['id'], v['v'][0]['clause']) for v in verdicts)
    want = [(1, 'C05.value'), (2, 'C05.width'), (3, 'C05.terminates'), (4, 'C05.value')]
    chk.cov['negative_controls'].append({'name': 'wrong value / wrong width / non-termination rejected, correct rewrite accepted', 'ok': got == want, 'got': got})
    if got != want:
        raise core.MachineryError('C05 negative control failed: %r' % (got,))


def replay(path, chk):
    rp = json.load(open(path))
    t = rp['detail'].get('minimal_failing_subtree') or rp['detail']['input']
    irlib._init_worker(False)
    out = _simp(t)
    rnd = random.Random(chk.seed)
    recs, stats = build_records([t], [out], rnd, 16, GRID_T, keep_unchanged=1.0)
    verdicts, st = core.judge('T_C05', recs, shards=1)
    chk.add_tlc(st)
    chk.cov['traces_validated_against_impl'] = 1
    chk.cov['evaluations'] = 1
    chk.sample({'input': EJ.show(t)})
    report(chk, recs, verdicts)
    return chk.finish()
