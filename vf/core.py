"""Common machinery: TLC invocation, trace sharding, TLA+ value parsing,
verdict/evidence/known-findings protocol.  Standard library only."""
import os, sys, json, re, time, subprocess, tempfile, shutil, hashlib, random

VERIF = os.path.dirname(os.path.dirname(os.path.abspath(__file__)))
# where evidence/ and replays/ are written: /verif, except when a builder's aid (tools/mutate.sh) runs a check against a patched
# scratch copy of the repository - those runs must not overwrite the evidence of the runs on /repo itself
OUTDIR = os.environ.get('VERIF_OUT') or VERIF
SPEC = os.path.join(VERIF, 'spec')
REPO = os.environ.get('VERIF_REPO', '/repo')
JAR = '/opt/veriftools/tla/tla2tools.jar:/opt/veriftools/tla/CommunityModules-deps.jar'
PY = '/venv/bin/python'
NCPU = int(os.environ.get('VERIF_CPUS', '16'))


class MachineryError(Exception):
    """Our own tooling failed (exit 2); never reported as a violation."""


def seed():
    try:
        return int(os.environ.get('VERIF_SEED', '0'))
    except ValueError:
        return 0


def limbs(v, w):
    n = (w + 7) // 8
    v &= (1 << w) - 1
    return [(v >> (8 * i)) & 255 for i in range(n)]


def unlimbs(l):
    v = 0
    for i, x in enumerate(l):
        v |= int(x) << (8 * i)
    return v


# --------------------------------------------------------------------------
# scratch directory (private TMPDIR: miasmX writes PLY tables to gettempdir())
_scratch = None


def scratch():
    global _scratch
    if _scratch is None:
        base = os.environ.get('VERIF_SCRATCH_BASE', '/var/tmp')
        _scratch = tempfile.mkdtemp(prefix='verif_', dir=base)
        import atexit
        atexit.register(lambda: shutil.rmtree(_scratch, ignore_errors=True))
    return _scratch


# --------------------------------------------------------------------------
# TLC
_STATS = re.compile(r'(\d+) states generated, (\d+) distinct states found')


class TlcResult(object):
    def __init__(self, rc, out, wall):
        self.rc, self.out, self.wall = rc, out, wall
        m = None
        for m in _STATS.finditer(out):
            pass
        self.generated = int(m.group(1)) if m else 0
        self.distinct = int(m.group(2)) if m else 0
        self.ok = ('Model checking completed. No error has been found.' in out
                   or 'Finished in' in out and 'Error:' not in out and rc == 0)

    def verdicts(self):
        out = []
        for l in self.out.splitlines():
            if l.startswith('"VERDICT '):
                try:
                    out.append(json.loads(json.loads(l)[8:]))
                except Exception as x:
                    raise MachineryError('bad verdict line %r: %s' % (l[:200], x))
        return out

    def tagged(self, tag):
        """JSON payloads of lines printed as PrintT(tag \\o " " \\o ToJson(x))"""
        out = []
        for l in self.out.splitlines():
            if l.startswith('"' + tag + ' '):
                try:
                    out.append(json.loads(json.loads(l)[len(tag) + 1:]))
                except Exception as x:
                    raise MachineryError('bad %s line %r: %s' % (tag, l[:200], x))
        return out

    def consumed(self):
        m = re.search(r'"CONSUMED (\d+)"', self.out)
        return int(m.group(1)) if m else None

    def coverage(self):
        """per-action distinct/generated counts when run with -coverage"""
        cov = {}
        for m in re.finditer(r'<(\w+) line \d+, col \d+ to line \d+, col \d+ of module (\w+)>: (\d+):(\d+)', self.out):
            cov[m.group(1)] = {'distinct': int(m.group(3)), 'generated': int(m.group(4))}
        return cov


def tlc_cmd(module, cfg, workers, metadir, extra=(), heap='6g', gcthreads=4):
    gc = ['-XX:+UseSerialGC'] if workers == 1 else ['-XX:+UseParallelGC', '-XX:ParallelGCThreads=%d' % gcthreads]
    return (['java'] + gc + ['-Xmx' + heap, '-Xss16m', '-cp', JAR, 'tlc2.TLC', '-workers', str(workers),
            '-metadir', metadir, '-noGenerateSpecTE', '-config', cfg] + list(extra) + [module])


def run_tlc(module, cfg_text=None, cfg=None, workers=NCPU, env=None, timeout=1200, extra=(), heap='6g'):
    """Run TLC on spec/<module>.tla.  Returns TlcResult; raises MachineryError on timeout."""
    d = tempfile.mkdtemp(prefix='tlc_', dir=scratch())
    if cfg_text is not None:
        cfg = os.path.join(d, module + '.cfg')
        with open(cfg, 'w') as f:
            f.write(cfg_text)
    elif cfg is None:
        cfg = os.path.join(SPEC, module + '.cfg')
    e = dict(os.environ)
    e.pop('JAVA_TOOL_OPTIONS', None)
    if env:
        e.update(env)
    t = time.time()
    cmd = tlc_cmd(os.path.join(SPEC, module + '.tla'), cfg, workers, os.path.join(d, 'md'), extra, heap)
    try:
        p = subprocess.run(cmd, cwd=SPEC, env=e, stdout=subprocess.PIPE, stderr=subprocess.STDOUT,
                           timeout=timeout, universal_newlines=True)
    except subprocess.TimeoutExpired:
        raise MachineryError('TLC timeout (%ss) on %s' % (timeout, module))
    r = TlcResult(p.returncode, p.stdout, time.time() - t)
    r.dir = d
    return r


def judge(module, records, shards=NCPU, timeout=1800, env=None, heap='3g', min_per_shard=1, tags=()):
    """C->S: shard `records` (list of JSON-able dicts, each with an 'id') over
    single-worker JVMs running trace spec `module`; return (verdicts, stats).
    Every shard must print CONSUMED <n> with n = its record count."""
    if not records:
        return [], {'states': 0, 'transitions': 0, 'wall': 0.0, 'shards': 0}
    shards = max(1, min(shards, (len(records) + min_per_shard - 1) // min_per_shard))
    per = (len(records) + shards - 1) // shards
    d = tempfile.mkdtemp(prefix='judge_', dir=scratch())
    procs = []
    t = time.time()
    cfg = os.path.join(SPEC, module + '.cfg')
    for k in range(shards):
        sh = records[k * per:(k + 1) * per]
        if not sh:
            continue
        tf = os.path.join(d, 'tr%d.json' % k)
        with open(tf, 'w') as f:
            json.dump(sh, f)
        e = dict(os.environ)
        e.pop('JAVA_TOOL_OPTIONS', None)
        e['TRACE'] = tf
        if env:
            e.update(env)
        of = open(os.path.join(d, 'out%d.txt' % k), 'w')
        cmd = tlc_cmd(os.path.join(SPEC, module + '.tla'), cfg, 1, os.path.join(d, 'md%d' % k), (), heap)
        procs.append((k, len(sh), subprocess.Popen(cmd, cwd=SPEC, env=e, stdout=of, stderr=subprocess.STDOUT), of))
    verdicts = []
    st = {'states': 0, 'transitions': 0, 'shards': len(procs)}
    deadline = t + timeout
    err = None
    for k, n, p, of in procs:
        try:
            p.wait(timeout=max(1, deadline - time.time()))
        except subprocess.TimeoutExpired:
            for _, _, q, _ in procs:
                q.kill()
            raise MachineryError('trace validation timeout (%ss) in %s' % (timeout, module))
        of.close()
        out = open(os.path.join(d, 'out%d.txt' % k)).read()
        r = TlcResult(p.returncode, out, 0)
        if r.consumed() != n:
            err = err or MachineryError('%s shard %d consumed %s of %d records; TLC output tail:\n%s'
                                        % (module, k, r.consumed(), n, out[-3000:]))
            continue
        verdicts += r.verdicts()
        for tag in tags:
            st.setdefault(tag, []).extend(r.tagged(tag))
        st['states'] += r.distinct
        st['transitions'] += r.generated
    if err:
        raise err
    st['wall'] = time.time() - t
    shutil.rmtree(d, ignore_errors=True)
    return verdicts, st


# --------------------------------------------------------------------------
# TLA+ value parser (for -dump files and -simulate trace files)
class _P(object):
    def __init__(self, s):
        self.s, self.i = s, 0

    def ws(self):
        s, i = self.s, self.i
        while i < len(s) and s[i] in ' \t\r\n':
            i += 1
        self.i = i

    def value(self):
        self.ws()
        s = self.s
        c = s[self.i]
        if c == '"':
            j = self.i + 1
            buf = []
            while s[j] != '"':
                if s[j] == '\\':
                    j += 1
                    buf.append({'n': '\n', 't': '\t'}.get(s[j], s[j]))
                else:
                    buf.append(s[j])
                j += 1
            self.i = j + 1
            return ''.join(buf)
        if c == '<' and s[self.i + 1] == '<':
            self.i += 2
            return self.seq('>>')
        if c == '{':
            self.i += 1
            return ('set', self.seq('}'))
        if c == '[':
            self.i += 1
            return self.record()
        if c == '(':
            self.i += 1
            return self.func()
        m = re.compile(r'-?\d+').match(s, self.i)
        if m:
            self.i = m.end()
            return int(m.group(0))
        m = re.compile(r'[A-Za-z_][A-Za-z0-9_]*').match(s, self.i)
        if m:
            self.i = m.end()
            w = m.group(0)
            return {'TRUE': True, 'FALSE': False}.get(w, w)
        raise MachineryError('TLA value parse error at %r' % s[self.i:self.i + 40])

    def seq(self, close):
        out = []
        self.ws()
        if self.s.startswith(close, self.i):
            self.i += len(close)
            return out
        while True:
            out.append(self.value())
            self.ws()
            if self.s[self.i] == ',':
                self.i += 1
                continue
            if self.s.startswith(close, self.i):
                self.i += len(close)
                return out
            raise MachineryError('TLA seq parse error at %r' % self.s[self.i:self.i + 40])

    def record(self):
        out = {}
        while True:
            self.ws()
            m = re.compile(r'([A-Za-z_][A-Za-z0-9_]*)\s*\|->').match(self.s, self.i)
            if not m:
                raise MachineryError('TLA record parse error at %r' % self.s[self.i:self.i + 40])
            self.i = m.end()
            out[m.group(1)] = self.value()
            self.ws()
            if self.s[self.i] == ',':
                self.i += 1
                continue
            if self.s[self.i] == ']':
                self.i += 1
                return out
            raise MachineryError('TLA record parse error at %r' % self.s[self.i:self.i + 40])

    def func(self):
        out = {}
        while True:
            k = self.value()
            self.ws()
            assert self.s.startswith(':>', self.i), self.s[self.i:self.i + 30]
            self.i += 2
            out[k] = self.value()
            self.ws()
            if self.s.startswith('@@', self.i):
                self.i += 2
                continue
            if self.s[self.i] == ')':
                self.i += 1
                return out
            raise MachineryError('TLA func parse error at %r' % self.s[self.i:self.i + 40])


def parse_tla(s):
    return _P(s).value()


def read_dump(path):
    """Yield one dict {var: value} per state of a TLC -dump file."""
    txt = open(path).read()
    for block in re.split(r'^State \d+:\s*$', txt, flags=re.M)[1:]:
        st = {}
        for m in re.finditer(r'^(?:/\\ )?(\w+) = ', block, flags=re.M):
            p = _P(block)
            p.i = m.end()
            st[m.group(1)] = p.value()
        yield st


def read_sim_trace(path):
    """States of one `-simulate file=` behaviour: list of (action, {var: value})."""
    txt = open(path).read()
    out = []
    for m in re.finditer(r'^\\\* <?(\w+)[^\n]*\nSTATE_\d+ ==\s*\n(.*?)(?=^\\\*|\Z|^=+)', txt, flags=re.M | re.S):
        st = {}
        for v in re.finditer(r'^(?:/\\ )?(\w+) = ', m.group(2), flags=re.M):
            p = _P(m.group(2))
            p.i = v.end()
            st[v.group(1)] = p.value()
        out.append((m.group(1), st))
    return out


# --------------------------------------------------------------------------
# known findings, replays, evidence
def load_findings(pid):
    """known findings of a property: /verif/known_findings.json plus /verif/findings.d/*.json (lists of entries).
    Read-only at run time."""
    out = []
    files = [os.path.join(VERIF, 'known_findings.json')]
    d = os.path.join(VERIF, 'findings.d')
    if os.path.isdir(d):
        files += [os.path.join(d, f) for f in sorted(os.listdir(d)) if f.endswith('.json')]
    for p in files:
        if os.path.exists(p):
            out += [f for f in json.load(open(p)) if pid in f.get('properties', [f.get('property')]) and f.get('status') == 'known']
    return out


class Check(object):
    """Bookkeeping for one run of one property check."""

    def __init__(self, pid, tier):
        self.pid, self.tier, self.seed = pid, tier, seed()
        self.t0 = time.time()
        self.violations = {}     # class key (json str) -> replay record
        self.known_hits = {}     # finding id -> count
        self.findings = load_findings(pid)
        self.cov = {'states': 0, 'transitions': 0, 'traces_validated_against_impl': 0, 'samples': [],
                    'evaluations': 0, 'distinct_nontrivial': 0, 'rule': '', 'negative_controls': []}
        self.assumptions = []

    def add_tlc(self, r):
        if isinstance(r, dict):
            self.cov['states'] += r.get('states', 0)
            self.cov['transitions'] += r.get('transitions', 0)
        else:
            self.cov['states'] += r.distinct
            self.cov['transitions'] += r.generated

    def sample(self, x, cap=6):
        if len(self.cov['samples']) < cap:
            self.cov['samples'].append(x)

    def match_known(self, key):
        """key: dict.  A finding matches when all fields of its 'key' equal the violation's
        (a list-valued field of the finding matches any of its members)."""
        for f in self.findings:
            k = f['key']
            if all((key.get(a) in b) if isinstance(b, list) else (key.get(a) == b) for a, b in k.items()):
                return f
        return None

    def violation(self, key, detail):
        """Report one violation of class `key` (dict of small scalars)."""
        f = self.match_known(key)
        if f is not None:
            self.known_hits.setdefault(f['id'], [f, 0])[1] += 1
            return False
        ks = json.dumps(key, sort_keys=True)
        if ks not in self.violations:
            self.violations[ks] = {'property': self.pid, 'class': key, 'detail': detail, 'count': 0,
                                   'replay_cmd': './check %s --replay {path}' % self.pid}
        self.violations[ks]['count'] += 1
        return True

    def finish(self, extra_cov=None):
        cov = self.cov
        if extra_cov:
            cov.update(extra_cov)
        for f in self.findings:
            n = self.known_hits.get(f['id'], (f, 0))[1]
            print('KNOWN-FINDING: property=%s %s [%s] (%s)' % (self.pid, f['what'], f['id'],
                  '%d cases this run' % n if n else 'not exercised by this run'))
        cov['known_findings_fired'] = sorted(self.known_hits)
        rdir = os.path.join(OUTDIR, 'replays', self.pid)
        paths = []
        for ks, v in sorted(self.violations.items()):
            os.makedirs(rdir, exist_ok=True)
            p = os.path.join(rdir, hashlib.sha1(ks.encode()).hexdigest()[:12] + '.json')
            with open(p, 'w') as fo:
                json.dump(v, fo, indent=1, sort_keys=True)
            paths.append(p)
            print('VIOLATION property=%s replay=%s' % (self.pid, p))
            print('   class=%s count=%d' % (ks, v['count']))
        ev = {'property_id': self.pid, 'tier': self.tier, 'seed': self.seed, 'level': 'model_checking',
              'coverage': cov, 'assumptions': self.assumptions, 'wall_s': round(time.time() - self.t0, 2),
              'violations': len(self.violations)}
        os.makedirs(os.path.join(OUTDIR, 'evidence'), exist_ok=True)
        name = self.pid + ('.replay' if getattr(self, 'is_replay', False) else '') + '.json'
        with open(os.path.join(OUTDIR, 'evidence', name), 'w') as fo:
            json.dump(ev, fo, indent=1, sort_keys=True)
        print('%s %s: states=%d traces=%d evaluations=%d violations=%d known=%d wall=%.1fs' % (
            self.pid, self.tier, cov['states'], cov['traces_validated_against_impl'], cov['evaluations'],
            len(self.violations), len(self.known_hits), time.time() - self.t0))
        return 1 if self.violations else 0


def run_py(script_args, input_obj=None, timeout=3600, env=None, py=PY):
    """Run a helper under the repo's interpreter with VERIF_REPO first on sys.path."""
    e = dict(os.environ)
    e['PYTHONPATH'] = REPO + os.pathsep + VERIF
    e.setdefault('PYTHONHASHSEED', '0')
    e['TMPDIR'] = scratch()
    if env:
        e.update(env)
    p = subprocess.run([py] + script_args, input=json.dumps(input_obj) if input_obj is not None else None,
                       stdout=subprocess.PIPE, stderr=subprocess.PIPE, env=e, timeout=timeout,
                       universal_newlines=True, cwd=VERIF)
    return p
