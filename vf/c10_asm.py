"""C10, assembler half - the assembler is total: on arbitrary text it returns a (possibly empty) list of encodings or raises
its own parse/encoding error (ValueError); it never fails with another exception, loops, or returns something else.
S->C: Tokens.tla (TLC) enumerates all token sequences <= 3 (quick) / 4 (thorough) tokens over a ~33-token alphabet per
syntax and, by -simulate, random sequences up to 8 tokens; miasmX assembles; C->S: T_C10A.tla has no action for the
outcomes internal / timeout / non-list, so a call with such an outcome is rejected by TLC.
Owned by the assembler-side builder; vf/c10.py calls run_asm_part(tier, chk)."""
import random, os, re, json, random, collections
from . import core, asmlib

CODE = {'list': 0, 'reject': 1, 'internal': 2, 'timeout': 3, 'other': 4}


def _tlc_tokens(syn, maxlen, sim=None, seed=0):
    cfg = 'CONSTANTS MaxLen = %d\n Syn = "%s"\n Sim = %s\nINIT Init\nNEXT Next\n%sCHECK_DEADLOCK FALSE\n' % (
        maxlen, syn, 'TRUE' if sim else 'FALSE', '' if sim else 'INVARIANT TypeOK\n')
    if sim:
        r = core.run_tlc('Tokens', cfg_text=cfg, workers=1, extra=['-simulate', 'num=%d' % sim, '-depth', str(maxlen + 1), '-seed', str(seed)], timeout=900)
        seqs = [tuple(json.loads(json.loads(l)[4:])) for l in r.out.splitlines() if l.startswith('"SEQ ')]
        if not seqs:
            raise core.MachineryError('Tokens simulation produced nothing:\n' + r.out[-1500:])
    else:
        dump = os.path.join(core.scratch(), 'tokens_%s.dump' % syn)
        r = core.run_tlc('Tokens', cfg_text=cfg, extra=['-dump', dump], timeout=1500, heap='8g')
        if not r.ok:
            raise core.MachineryError('Tokens failed:\n' + r.out[-1500:])
        seqs = [tuple(int(x) for x in m.split(',')) if m.strip() else () for m in re.findall(r'^toks = <<([0-9, ]*)>>', open(dump).read(), flags=re.M)]
        os.unlink(dump)
        if len(seqs) != r.distinct:
            raise core.MachineryError('Tokens dump: %d sequences parsed, %d states' % (len(seqs), r.distinct))
    m = re.search(r'^"ALPHABET (.*)"$', r.out, flags=re.M)
    if not m:
        raise core.MachineryError('Tokens: alphabet line missing')
    alpha = json.loads(json.loads('"' + m.group(1) + '"'))['toks']
    return alpha, seqs, r


def gen(syn, maxlen, sim, seed, chk):
    """token sequences (as text) of Tokens.tla; the exhaustive part does not depend on /repo and is cached"""
    cdir = os.path.join(core.VERIF, '.cache')
    os.makedirs(cdir, exist_ok=True)
    cf = os.path.join(cdir, 'tokens_%s_%s_%d.json' % (asmlib.spec_hash(('Tokens.tla',)), syn, maxlen))
    if os.path.exists(cf):
        d = json.load(open(cf))
    else:
        alpha, seqs, r = _tlc_tokens(syn, maxlen)
        d = {'alpha': alpha, 'seqs': seqs, 'states': r.distinct, 'transitions': r.generated}
        tmp = cf + '.%d' % os.getpid()
        json.dump(d, open(tmp, 'w'))
        os.rename(tmp, cf)
    chk.add_tlc({'states': d['states'], 'transitions': d['transitions']})
    seqs = set(tuple(s) for s in d['seqs'])
    nex = len(seqs)
    if sim:
        alpha, more, r = _tlc_tokens(syn, 8, sim=sim, seed=seed)
        chk.add_tlc({'states': len(set(more)), 'transitions': len(more)})
        seqs |= set(more)
    alpha = d['alpha']
    return sorted(' '.join(alpha[t - 1] for t in s) for s in seqs), nex


def judge_calls(chk, items, outs):
    """batches of calls -> T_C10A; returns indices of calls TLC rejected with their clause"""
    recs, B = [], 400
    for k in range(0, len(items), B):
        recs.append({'id': k // B, 'calls': [[j, CODE[outs[j]['st']], len(outs[j]['c'])] for j in range(k, min(k + B, len(items)))]})
    random.Random(chk.seed).shuffle(recs)
    verdicts, st = core.judge('T_C10A', recs, timeout=1500)
    chk.add_tlc(st)
    return [(f['call'], f['clause']) for v in verdicts for f in v['v']]


def fresh_cache_probe(chk):
    """the same calls in a process whose PLY table directory is empty (first use / cleaned TMPDIR): outcomes must not change"""
    import tempfile, shutil
    items = [('intel', 'mov eax ]'), ('att', 'movl %eax )'), ('intel', 'mov eax, ebx')]
    d = tempfile.mkdtemp(prefix='plyfresh_', dir=core.scratch())
    try:
        outs = asmlib.fresh_asm(items, restore=False, env={'TMPDIR': d})
    finally:
        shutil.rmtree(d, ignore_errors=True)
    for j, clause in judge_calls(chk, items, outs):
        e = outs[j].get('exc') or {'exc': '', 'func': '', 'line': ''}
        chk.violation({'clause': clause, 'exc': e['exc'], 'func': e['func'], 'line': e['line']},
                      {'syntax': items[j][0], 'text': items[j][1], 'outcome': outs[j]['st'], 'exception': e, 'setting': 'empty PLY table directory'})
    chk.cov['asm_fresh_cache_probe'] = [o['st'] for o in outs]
    return len(items)


def run_asm_part(tier, chk):
    quick = tier == 'quick'
    negative_control(chk)
    stats = collections.Counter()
    total = fresh_cache_probe(chk)
    # the well-formed lines of the assembler checks (AsmSpace.tla: every canonical line, its AT&T transliteration and its
    # constant-arithmetic spelling) must not crash either, whether they are accepted or rejected
    from . import asm_text
    rnd = random.Random(chk.seed)
    canon = {'intel': [], 'att': []}
    for l in asmlib.canon_lines(chk):
        if quick and rnd.random() > 0.25:
            continue
        canon['intel'].append(asm_text.render(l['intel']))
        if 'att' in l:
            canon['att'].append(asm_text.render(l['att']))
        if 'intel_split' in l:
            canon['intel'].append(asm_text.render(l['intel_split']))
    for syn in ('intel', 'att'):
        texts, nex = gen(syn, 3 if quick else 4, 150 if quick else 1500, chk.seed, chk)
        texts = list(texts) + sorted(set(canon[syn]))
        items = [(syn, t) for t in texts]
        outs = asmlib.run_asm(items)
        total += len(items)
        for o in outs:
            stats[syn + ':' + o['st']] += 1
        chk.cov.setdefault('asm_spaces', {})[syn] = {'exhaustive_sequences': nex, 'with_simulated': len(items)}
        bad = judge_calls(chk, items, outs)
        conf = asmlib.fresh_asm([items[j] for j, _ in bad[:2000]]) if bad else []
        for n, (j, clause) in enumerate(bad):
            o = outs[j]
            if n < len(conf) and conf[n]['st'] != o['st']:
                chk.cov['asm_order_dependent'] = chk.cov.get('asm_order_dependent', 0) + 1
                continue
            e = o.get('exc') or {'exc': '', 'func': '', 'line': ''}
            chk.violation({'clause': clause, 'exc': e['exc'], 'func': e['func'], 'line': e['line']},
                          {'syntax': syn, 'text': items[j][1], 'outcome': o['st'], 'exception': e})
        for j in (0, len(items) // 2):
            chk.sample({'syntax': syn, 'text': items[j][1], 'outcome': outs[j]['st'], 'candidates': outs[j]['c'][:3]})
    chk.cov['asm_calls'] = total
    chk.cov['asm_outcomes'] = dict(stats)
    chk.cov['evaluations'] += total
    chk.cov['distinct_nontrivial'] += sum(v for k, v in stats.items() if not k.endswith(':reject'))
    chk.cov['traces_validated_against_impl'] += total
    chk.cov['asm_rule'] = ('calls = asm()/asm_att() on every reachable token sequence of Tokens.tla (exhaustive to the length bound, '
                           'simulated to 8 tokens); non-trivial = calls that did not end in the parse error (a list, or a forbidden outcome)')
    chk.assumptions += ['assembler half: reject = ValueError (raised by parse_ad.p_error, ia32_att.p_error, parse_mnemo, mnemo_from_att and the '
                        'encoder); a call is cut off after 5 s']


def negative_control(chk):
    recs = [{'id': 0, 'calls': [[0, 0, 2], [1, 1, 0], [2, 2, 0], [3, 3, 0], [4, 4, 0], [5, 0, 0]]}]
    verdicts, st = core.judge('T_C10A', recs, shards=1)
    got = sorted((f['call'], f['clause']) for v in verdicts for f in v['v'])
    want = [(2, 'C10.asm.internal'), (3, 'C10.asm.timeout'), (4, 'C10.asm.return_type')]
    chk.cov['negative_controls'].append({'name': 'asm half: internal / timeout / non-list outcomes rejected, list (also empty) and reject accepted',
                                         'ok': got == want, 'got': got})
    if got != want:
        raise core.MachineryError('C10 asm-half negative control failed: %r' % (got,))


def replay_asm(detail, chk):
    """re-run one recorded assembler call; True if the forbidden outcome is still observed"""
    o = asmlib.fresh_asm([(detail['syntax'], detail['text'])])[0]
    bad = judge_calls(chk, [(detail['syntax'], detail['text'])], [o])
    print('replay asm: %r -> %s %s' % (detail['text'], o['st'], o.get('exc')))
    return bool(bad)
