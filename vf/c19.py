"""C19 - equivalent spellings of an assembly line assemble identically.
S->C: AsmSpace.tla enumerates canonical lines, Spelling.tla (TLC) enumerates every presentation reachable by <= 2 (quick)
/ <= 3 (thorough) presentation-only actions and checks on itself that each preserves the denoted instruction (DenoteOK);
vf/asm_text.py flattens the structured spellings; miasmX assembles; C->S: T_C19.tla compares the candidate sets."""
import json, random, collections
from . import core, asmlib, asm_text

DIMS = ['syn', 'rc', 'kc', 'sp', 'nb', 'isg', 'dsg', 'ord', 'dout', 'pct', 'st0', 'dsp', 'dz']
PRES0 = {'syn': 'intel', 'rc': 'lower', 'kc': 'upper', 'sp': 'canon', 'nb': 'dec', 'isg': False, 'dsg': False,
         'ord': 'bid', 'dout': False, 'pct': False, 'st0': 'paren', 'dsp': 'one', 'dz': False}


GROUP = dict([(m, 'alu') for m in ('add', 'or', 'adc', 'sbb', 'and', 'sub', 'xor', 'cmp', 'test')]
             + [(m, 'shift') for m in ('shl', 'shr', 'sar', 'sal', 'rol', 'ror')])


def acts_of(pres):
    return sorted('%s=%s' % (d, str(pres[d]).lower()) for d in DIMS
                  if pres[d] != PRES0[d] and not (d == 'pct' and pres['syn'] == 'att'))


def act_shape(ins, act):
    """operand-shape class of the part of the line a presentation action touches (for finding keys)"""
    d = act.split('=')[0]
    ops = ins['ops']
    mems = [o for o in ops if o['k'] == 'mem']
    if d in ('rc', 'pct', 'st0'):
        cl = set([o['c'] for o in ops if o['k'] == 'reg'] + (['seg:'] if any(m['seg'] for m in mems) else [])
                 + (['addr'] if any(m['b'] >= 0 or m['i'] >= 0 for m in mems) else []))
        for c in ('seg:', 'sreg', 'st', 'cr', 'dr', 'mm', 'xmm', 'addr', 'r8', 'r16', 'r32'):    # most special class present
            if c in cl:
                return c
        return ''
    if d == 'kc':
        return ' '.join(sorted(set(['ptr%d' % m['sz'] for m in mems if m['sz']] + (['offset flat'] if any(o['k'] == 'imm' and o['sym'] for o in ops) else []))))
    if d in ('dsg', 'ord', 'dout', 'dsp'):
        return ' '.join(sorted(set(asmlib.op_shape(m)[asmlib.op_shape(m).index('['):] for m in mems)))
    if d == 'isg':
        sz = [{'r8': 8, 'r16': 16, 'r32': 32}.get(o.get('c'), 0) for o in ops if o['k'] == 'reg'] + [m['sz'] for m in mems]
        return 'imm%d' % ([x for x in sz if x] + [32])[0]
    if d == 'nb':
        return ' '.join(sorted(set(['imm' for o in ops if o['k'] == 'imm' and not o['sym']] + ['disp' for m in mems if any(m['d'])])))
    if d == 'syn':
        segs = sorted(set(m['seg'] for m in mems if m['seg']))
        # the value of an immediate and the width of the operation belong to the class: the two parsers differ on particular
        # boundary values (which forms a value fits), not on the operand shape as such
        imms = ['%s0x%x' % ('-' if o.get('neg') else '', core.unlimbs(o['v']) if not o.get('neg') else (1 << 32) - core.unlimbs(o['v']))
                for o in ops if o['k'] == 'imm' and not o.get('sym')]
        wd = [{'r8': 8, 'r16': 16, 'r32': 32}.get(o.get('c'), 0) for o in ops if o['k'] == 'reg'] + [m['sz'] for m in mems]
        wd = ([x for x in wd if x] + [0])[0]
        return (GROUP.get(ins['mn'], ins['mn']) + ' ' + ','.join(o['k'] for o in ops) + ((' seg:' + '+'.join(segs)) if segs else '')
                + ((' w%d imm=%s' % (wd, ','.join(imms))) if imms else ''))
    return ','.join(o['k'] for o in ops)


def select(lines, outs, n, rnd):
    """accepted canonical lines, round-robin over operand-shape classes so that every class is present"""
    groups = collections.defaultdict(list)
    for l, o in zip(lines, outs):
        if o['st'] == 'list' and o['c'] and l['plaus'] == '':
            # classes: operand shapes x the value of an immediate (every width-boundary value with every destination size) x
            # the source sweep (condition names, segment overrides)
            imms = ['%s%x' % ('-' if x.get('neg') else '', core.unlimbs(x['v'])) for x in l['ins']['ops'] if x['k'] == 'imm' and not x.get('sym')]
            fam = GROUP.get(l['ins']['mn'], l['ins']['mn']) if imms else ''
            groups[asmlib.shape(l['ins']) + '|' + fam + '|' + ','.join(imms) + '|' + (l['src'] if l['src'] in ('cc', 'seg') else '')].append(l)
    for g in groups.values():
        rnd.shuffle(g)
    keys = sorted(groups)
    n = max(n, len(keys))           # every class at least once
    sel = []
    while len(sel) < n and keys:
        for k in list(keys):
            if groups[k]:
                sel.append(groups[k].pop())
            else:
                keys.remove(k)
            if len(sel) >= n:
                break
    return sel


def observe(sel, canon_out, sts):
    """one record per canonical line: evs[0] = canonical spelling, then every generated spelling"""
    by = collections.defaultdict(list)
    for s in sts:
        if acts_of(s['pres']):
            by[s['lid']].append(s)
    items, where = [], []
    for l in sel:
        for s in by[l['id']]:
            items.append((s['line']['syn'], asm_text.render(s['line'])))
            where.append((l['id'], s))
    outs = asmlib.run_asm(items)
    recs = {l['id']: {'id': l['id'], 'evs': [{'sid': 0, 'syn': 'intel', 'st': canon_out[l['id']]['st'], 'c': canon_out[l['id']]['c']}],
                      'texts': [asm_text.render(l['intel'])], 'acts': [[]], 'exc': [canon_out[l['id']].get('exc')]} for l in sel}
    for (lid, s), (syn, text), o in zip(where, items, outs):
        r = recs[lid]
        r['evs'].append({'sid': len(r['evs']), 'syn': syn, 'st': o['st'], 'c': o['c']})
        r['texts'].append(text)
        r['acts'].append(acts_of(s['pres']))
        r['exc'].append(o.get('exc'))
    return [recs[l['id']] for l in sel]


def history_events(lines, outs, canon_out, recs, rnd, per_pred=2):
    """the canonical spelling of a line assembled right AFTER another accepted line that spells one of its memory operands
    with the identical text (lea / push / prefetch / an SSE form ... before an instruction whose encoding depends on that
    operand's size), each pair in a process of its own: the candidate set is a function of the line, not of what the
    assembler parsed before.  One predecessor line per (mnemonic, operand text), `per_pred` followers each, preferring
    followers in which no register fixes the operand size.  The event joins the follower's record (action After)."""
    ok = [l for l, o in zip(lines, outs) if o['st'] == 'list' and o['c'] and l['plaus'] == '']
    by_text = collections.defaultdict(list)
    for l in ok:
        st = l['intel']['st']
        for o, lo in zip(l['ins']['ops'], l['intel']['ops']):
            if o['k'] == 'mem':
                by_text[asm_text.render_op(lo, st)].append(l)
    byid = {r['id']: r for r in recs}
    pairs = []
    for text in sorted(by_text):
        ls = by_text[text]
        preds = {}
        for l in ls:
            preds.setdefault(l['ins']['mn'], l)
        for mn in sorted(preds):
            a = preds[mn]
            fol = [l for l in ls if l['ins']['mn'] != mn]
            if not fol:
                continue
            rnd.shuffle(fol)
            fol.sort(key=lambda l: sum(1 for o in l['ins']['ops'] if o['k'] == 'reg'))     # stable: size-sensitive forms first
            seen = set()
            for b in fol:
                if b['ins']['mn'] in seen:
                    continue
                seen.add(b['ins']['mn'])
                pairs.append((a, b))
                if len(seen) >= per_pred:
                    break
    items = [[('intel', asm_text.render(a['intel'])), ('intel', asm_text.render(b['intel']))] for a, b in pairs]
    res = asmlib.pmap(asmlib.asm_after, items, chunk=50)
    new = []
    for (a, b), it, o in zip(pairs, items, res):
        r = byid.get(b['id'])
        if r is None:
            r = {'id': b['id'], 'evs': [{'sid': 0, 'syn': 'intel', 'st': canon_out[b['id']]['st'], 'c': canon_out[b['id']]['c']}],
                 'texts': [asm_text.render(b['intel'])], 'acts': [[]], 'exc': [canon_out[b['id']].get('exc')]}
            byid[b['id']] = r
            new.append((b, r))
        r['evs'].append({'sid': len(r['evs']), 'syn': 'intel', 'st': o['st'], 'c': o['c']})
        r['texts'].append(it[0][1] + ' ; ' + it[1][1])
        r['acts'].append(['After=' + a['ins']['mn']])
        r['exc'].append(o.get('exc'))
    return len(pairs), new


def strip(r):
    return {'id': r['id'], 'evs': r['evs']}


def report(chk, sel, recs, verdicts, confirm=True):
    ins_of = {l['id']: l['ins'] for l in sel}
    byid = {r['id']: r for r in recs}
    fails = []
    for v in verdicts:
        r = byid[v['id']]
        bad = {f['sid']: f for f in v['v']}
        single = set(r['acts'][sid][0] for sid in bad if len(r['acts'][sid]) == 1)
        for sid, f in sorted(bad.items()):
            acts = r['acts'][sid]
            if len(acts) > 1 and any(a in single for a in acts):
                continue                      # subsumed by a failing single-action spelling of the same line
            fails.append((r, sid, f, acts))
    # writing a zero displacement explicitly ([eax] -> [eax+0]) is not among the rewrites the property lists; it is the BASE on which
    # the listed ones act ([eax+0] <-> 0[eax] <-> [0+eax] <-> 0(%eax)): a difference of the dz-only spelling is not reported
    # (and subsumes the spellings built on it, above), a difference that appears only together with a listed rewrite is
    fails = [x for x in fails if x[3] != ['dz=true']]
    hist = [x for x in fails if x[3] and x[3][0].startswith('After=')]     # order dependence is what these events are about
    fails = [x for x in fails if not (x[3] and x[3][0].startswith('After='))]
    if confirm and fails:
        # confirm in a fresh interpreter that the difference does not depend on the order of calls
        items = []
        for r, sid, f, acts in fails[:3000]:
            items += [('intel', r['texts'][0]), (r['evs'][sid]['syn'], r['texts'][sid])]
        outs = asmlib.fresh_asm(items)
        keep = []
        for k, x in enumerate(fails[:3000]):
            a, b = outs[2 * k], outs[2 * k + 1]
            if set(a['c']) != set(b['c']):
                keep.append(x)
            else:
                chk.cov['order_dependent'] = chk.cov.get('order_dependent', 0) + 1
        fails = keep + fails[3000:]
    for r, sid, f, acts in fails + hist:
        ins = ins_of[r['id']]
        act = '+'.join(sorted(set(a.split('=')[0] for a in acts)))
        e = r['evs'][sid]
        how = e['st'] if e['st'] != 'list' else ('empty' if not e['c'] else 'differs')
        site = (r['exc'][sid] or {}).get('func', '') if how in ('reject', 'internal') else ''
        shp = act_shape(ins, acts[0]) if len(acts) == 1 and not acts[0].startswith('After=') else asmlib.shape(ins)
        if acts[0].startswith('After='):
            shp = acts[0][6:] + ' ; ' + ins['mn'] + ' ' + shp          # predecessor mnemonic ; follower
        if act == 'syn' and site == 'mnemo_from_att':
            shp = ins['mn']                   # a mnemonic missing from the AT&T tables: the operands do not matter
        key = {'clause': f['clause'], 'act': act, 'shape': shp, 'how': how, 'site': site}
        chk.violation(key, {'canonical': r['texts'][0], 'canonical_candidates': r['evs'][0]['c'], 'spelling': r['texts'][sid],
                            'syntax': e['syn'], 'actions': acts, 'outcome': e['st'], 'candidates': e['c'], 'exception': r['exc'][sid],
                            'ins': ins, 'verdict': f})


def run(tier, chk):
    rnd = random.Random(chk.seed)
    negative_control(chk)
    quick = tier == 'quick'
    lines = asmlib.canon_lines(chk)
    outs = asmlib.run_asm([('intel', asm_text.render(l['intel'])) for l in lines])
    canon_out = {l['id']: o for l, o in zip(lines, outs)}
    sel = select(lines, outs, 1400 if quick else 5000, rnd)
    sts, r = asmlib.spell(sel, 2 if quick else 3, asmlib.ALL_ACTS, chk=chk)
    chk.cov['lines_spelled'] = len(sel)
    recs = observe(sel, canon_out, sts)
    # the AT&T transliteration of every other plausible accepted line (layouts cached with the canonical lines)
    insel = set(l['id'] for l in sel)
    rest = [l for l, o in zip(lines, outs) if o['st'] == 'list' and o['c'] and l['plaus'] == '' and 'att' in l and l['id'] not in insel]
    recs += observe(rest, canon_out, [{'lid': l['id'], 'pres': dict(PRES0, syn='att', pct=True), 'line': l['att']} for l in rest])
    sel = sel + rest
    # history: the canonical spelling right after another line with the same operand text, each pair in a clean process
    npairs, newrecs = history_events(lines, outs, canon_out, recs, rnd, 2 if quick else 6)
    sel = sel + [b for b, r in newrecs]
    recs += [r for b, r in newrecs]
    chk.cov['history_pairs'] = npairs
    nsp = sum(len(x['evs']) - 1 for x in recs)
    chk.cov['evaluations'] = nsp + len(lines)
    chk.cov['distinct_nontrivial'] = nsp
    chk.cov['rule'] = ('canonical lines = reachable states of AsmSpace.tla; spellings = reachable states of Spelling.tla with >= 1 '
                       'presentation action applied (each action enabled only where it changes the text); non-trivial = spellings '
                       'whose text differs from the canonical text of an accepted line')
    chk.cov['canonical_lines'] = len(lines)
    chk.cov['canonical_accepted'] = sum(1 for o in outs if o['st'] == 'list' and o['c'])
    chk.cov['spellings_by_action'] = dict(collections.Counter(a.split('=')[0] for x in recs for acts in x['acts'] for a in acts))
    chk.cov['spec_invariant'] = 'DenoteOK checked by TLC on %d generated (line, presentation) states' % r.distinct
    judged = [strip(x) for x in recs]
    rnd.shuffle(judged)
    verdicts, st = core.judge('T_C19', judged, timeout=1500)
    chk.add_tlc(st)
    chk.cov['traces_validated_against_impl'] = len(recs)
    for x in recs[:3]:
        k = min(len(x['texts']) - 1, 3)
        chk.sample({'canonical': x['texts'][0], 'spelling': x['texts'][k], 'actions': x['acts'][k], 'same_set': set(x['evs'][0]['c']) == set(x['evs'][k]['c'])})
    report(chk, sel, recs, verdicts)
    chk.cov['canonical_plausible_accepted'] = sum(1 for l, o in zip(lines, outs) if o['st'] == 'list' and o['c'] and l['plaus'] == '')
    chk.assumptions += ['only lines whose operand classes fit the mnemonic family (AsmSpace.Plausible) are spelled; accepting the others is a C02 matter',
                        'mnemonic letter case is not varied (the property lists registers and size keywords only)',
                        'an AT&T transliteration exists only where the AT&T spelling can carry the operand sizes (Syntax.AttOK)']


def negative_control(chk):
    ev = lambda sid, st, c: {'sid': sid, 'syn': 'intel', 'st': st, 'c': c}
    recs = [{'id': 0, 'evs': [ev(0, 'list', ['89d8', '8bc3']), ev(1, 'list', ['8bc3', '89d8']), ev(2, 'list', ['89d8'])]},
            {'id': 1, 'evs': [ev(0, 'list', ['89d8']), ev(1, 'reject', [])]},
            {'id': 2, 'evs': [ev(0, 'reject', []), ev(1, 'internal', []), ev(2, 'list', ['90'])]}]
    verdicts, st = core.judge('T_C19', recs, shards=1)
    got = sorted((v['id'], f['sid'], f['clause']) for v in verdicts for f in v['v'])
    want = [(0, 2, 'C19.same_set'), (1, 1, 'C19.accepted'), (2, 2, 'C19.same_set')]
    ok = got == want
    chk.cov['negative_controls'].append({'name': 'dropped candidate / rejected spelling / spelling accepted after rejected canonical flagged; '
                                                 'reordered set and reject-vs-exception accepted', 'ok': ok, 'got': got})
    if not ok:
        raise core.MachineryError('C19 negative control failed: %r' % (got,))


def replay(path, chk):
    rp = json.load(open(path))
    d = rp['detail']
    outs = asmlib.fresh_asm([('intel', d['canonical']), (d['syntax'], d['spelling'])])
    rec = {'id': 0, 'evs': [{'sid': 0, 'syn': 'intel', 'st': outs[0]['st'], 'c': outs[0]['c']},
                            {'sid': 1, 'syn': d['syntax'], 'st': outs[1]['st'], 'c': outs[1]['c']}]}
    verdicts, st = core.judge('T_C19', [rec], shards=1)
    chk.add_tlc(st)
    chk.cov['traces_validated_against_impl'] = 1
    chk.cov['evaluations'] = 2
    chk.sample({'canonical': d['canonical'], 'spelling': d['spelling']})
    for v in verdicts:
        for f in v['v']:
            print('replay: %s still fails: %r -> %s %s vs %r -> %s %s' % (f['clause'], d['canonical'], outs[0]['st'], outs[0]['c'],
                                                                         d['spelling'], outs[1]['st'], outs[1]['c']))
            chk.violation(rp['class'], d)
    return chk.finish()
