------------------------------- MODULE T_C18 -------------------------------
(* C->S judge for C18.  One record per 32-bit word:                         *)
(*  [id, w = <<hi, lo>>, ncl (number of classes whose check() claims w),    *)
(*   cls (their names joined by "+"), dec (1 = ppc_mn(w) returned), decx,   *)
(*   dcls (class of the object ppc_mn(w) returned),                          *)
(*   mn (first token of str(), lower-cased), bin = <<hi, lo>> of .bin()     *)
(*   (<<-1,-1>> if it raised), binx, str (1 = str() returned), strx,        *)
(*   asm (1 = ppc_mn.asm(str) returned one word, 0 = raised, -1 = not       *)
(*   attempted), asmx, asmw = <<hi, lo>>]                                   *)
(* Clauses (property C18):                                                  *)
(*  unique     at most one class claims the word                            *)
(*  decode     a uniquely claimed word constructs                           *)
(*  claim      the decoder ppc_mn(w) returns an instance of the one class   *)
(*             that claims w, and nothing for a word no class claims        *)
(*  undefined  a word that decodes has a (primary, extended) opcode the     *)
(*             architecture assigns (PPC!Decode.ok)                         *)
(*  mnemonic   the shown mnemonic is one of PPC!Shown for that opcode       *)
(*  bin        bin() = w                                                    *)
(*  render     str() returns                                                *)
(*  asm        asm(str()) returns exactly w                                 *)
(* "info." entries are counted as evidence, they are not violations:        *)
(*  info.not_decoded  a valid architected instruction no class claims       *)
(*  info.invalid_form a decoded word with non-zero reserved fields          *)
EXTENDS PPC, Integers, Json, IOUtils
Recs == JsonDeserialize(IOEnv.TRACE)
E(cl, base, exp, got) == [clause |-> cl, base |-> base, exp |-> exp, got |-> got]
Slot(name, a, b) == IF a = b THEN <<>> ELSE <<name>>
\* which architectural fields differ between the word and its re-encoding / re-assembly
\* (one entry per differing field: independent defects that meet in one word stay separate classes)
DiffSlots(d, a, b) ==
  (Slot("primary", Prim(a), Prim(b)) \o
       (CASE d.form = "D" -> Slot("f1", F1(a), F1(b)) \o Slot("f2", F2(a), F2(b)) \o Slot("imm", a[2], b[2])
          [] d.form = "B" -> Slot("bo", F1(a), F1(b)) \o Slot("bi", F2(a), F2(b)) \o Slot("bd", a[2] \div 4, b[2] \div 4)
                             \o Slot("aa", B30(a), B30(b)) \o Slot("lk", B31(a), B31(b))
          [] d.form = "I" -> Slot("li", <<a[1] % 1024, a[2] \div 4>>, <<b[1] % 1024, b[2] \div 4>>)
                             \o Slot("aa", B30(a), B30(b)) \o Slot("lk", B31(a), B31(b))
          [] d.form = "XO" -> Slot("f1", F1(a), F1(b)) \o Slot("f2", F2(a), F2(b)) \o Slot("f3", F3(a), F3(b))
                              \o Slot("oe", B21(a), B21(b)) \o Slot("xo", XO9(a), XO9(b)) \o Slot("rc", B31(a), B31(b))
          [] d.form = "SC" -> Slot("reserved", <<a[1] % 1024, a[2]>>, <<b[1] % 1024, b[2]>>)
          [] d.form = "M" -> Slot("f1", F1(a), F1(b)) \o Slot("f2", F2(a), F2(b)) \o Slot("f3", F3(a), F3(b))
                             \o Slot("mb", F4(a), F4(b)) \o Slot("me", XO5(a), XO5(b)) \o Slot("b31", B31(a), B31(b))
          [] d.form = "XL" /\ d.lay = "bo_bi" -> Slot("bo", F1(a), F1(b)) \o Slot("bi", F2(a), F2(b)) \o Slot("f3", F3(a), F3(b))
                             \o Slot("xo", XO10(a), XO10(b)) \o Slot("lk", B31(a), B31(b))
          [] OTHER -> Slot("f1", F1(a), F1(b)) \o Slot("f2", F2(a), F2(b)) \o Slot("f3", F3(a), F3(b))
                      \o Slot("xo", XO10(a), XO10(b)) \o Slot("b31", B31(a), B31(b))))
Verdict(r) ==
  LET w == r.w
      d == Decode(w)
      decoded == r.ncl <= 1 /\ r.dec = 1
      base == IF d.ok THEN d.base ELSE "(unassigned)"
  IN IF ~IsWord(w) THEN <<E("C18.machinery", "", "", "not a word")>>
     ELSE
      (IF r.ncl > 1 THEN <<E("C18.unique", base, "", r.cls)>> ELSE <<>>)
   \o (IF r.ncl = 1 /\ r.dec = 0 THEN <<E("C18.decode", base, "", r.decx)>> ELSE <<>>)
   \o (IF r.ncl = 0 /\ d.ok /\ d.valid THEN <<E("info.not_decoded", base, d.cat, "")>> ELSE <<>>)
   \o (IF r.dec = 1 /\ r.ncl = 0 THEN <<E("C18.claim", base, "", "decoded as " \o r.dcls \o " although no class claims the word")>> ELSE <<>>)
   \o (IF r.dec = 1 /\ r.ncl = 1 /\ r.dcls # r.cls THEN <<E("C18.claim", base, r.cls, "decoded as " \o r.dcls)>> ELSE <<>>)
   \o (IF ~decoded THEN <<>> ELSE
         (IF ~d.ok THEN <<E("C18.undefined", base, "", r.mn)>> ELSE <<>>)
      \o (IF d.ok /\ ~d.valid THEN <<E("info.invalid_form", base, "", r.mn)>> ELSE <<>>)
      \o (IF d.ok /\ r.str = 1 /\ r.mn \notin Shown(d, w) THEN <<E("C18.mnemonic", base, d.mn, r.mn)>> ELSE <<>>)
      \o (IF r.bin = w THEN <<>> ELSE IF r.binx # "" THEN <<E("C18.bin", base, "", r.binx)>>
          ELSE [k \in 1..Len(DiffSlots(d, w, r.bin)) |-> E("C18.bin", base, "", "diff:" \o DiffSlots(d, w, r.bin)[k])])
      \o (IF r.str = 0 THEN <<E("C18.render", base, "", r.strx)>> ELSE <<>>)
      \o (IF r.str = 1 /\ r.asm = 0 THEN <<E("C18.asm", base, "", r.asmx)>> ELSE <<>>)
      \o (IF r.str = 1 /\ r.asm = 1 /\ r.asmw # w
          THEN [k \in 1..Len(DiffSlots(d, w, r.asmw)) |-> E("C18.asm", base, "", "diff:" \o DiffSlots(d, w, r.asmw)[k])] ELSE <<>>)
      \o (IF r.str = 1 /\ r.asm = -1 THEN <<E("C18.machinery", base, "", "asm not attempted")>> ELSE <<>>))
VARIABLE i
Init == i = 0
Next == \/ /\ i < Len(Recs) /\ i' = i + 1
           /\ LET v == Verdict(Recs[i']) IN
              IF v = <<>> THEN TRUE ELSE PrintT("VERDICT " \o ToJson([id |-> Recs[i'].id, v |-> v]))
        \/ /\ i = Len(Recs) /\ i' = i + 1 /\ PrintT("CONSUMED " \o ToString(Len(Recs)))
=============================================================================
