------------------------------- MODULE Caches -------------------------------
(* Implementation-shaped model of the memo / cache mechanisms of miasmX, as   *)
(* they are coded, on which TLC checks the purity property itself (C12)      *)
(* before any recorded trace is looked at.  One action per public call; the   *)
(* state is exactly the hidden state those calls read and write:              *)
(*                                                                          *)
(*  1. memo attributes living on expression nodes                            *)
(*       eval_abs.eval_expr:  if e.is_term: return e                          *)
(*                            if e.is_eval: return e                          *)
(*                            e = e.visit(expr_simp)     (sets .simp on nodes) *)
(*                            ret = self.eval_expr_no_cache(e, eval_cache)     *)
(*                            ret.is_eval = True                              *)
(*       eval_ExprId:         return e if e not in pool else pool[e]           *)
(*       _expr_simp_w:        if e.simp: return e ... e.simp = True            *)
(*     Some nodes are shared by every machine of the process: the             *)
(*     module-level registers of ia32_sem, any tree the client keeps, and the *)
(*     values stored in a pool.  Nodes: w (identifier, bound to the node c7   *)
(*     in m2 only), U = w + c1, c1, c7.  Results of compound evaluations are  *)
(*     fresh objects (no later call of the menu can receive them).            *)
(*  2. decode tables handed out by reference                                 *)
(*       get_afs: a = dict(db_afs[m]) ; a[imm] = <decoded displacement>       *)
(*       _dis:    dib_out.append(dib) for dib in [r_cl, r_dx]  (no copy)      *)
(*                for a in args: if not ad in a: a[size] = ..; a[ad] = False   *)
(*                               if a[ad] == True: a[ad] = a[size]             *)
(*  3. PLY parser tables cached on disk, keyed by the grammar signature       *)
(*       yacc(): read_signature = lr.read_table(..); if read_signature ==     *)
(*               signature: bind_callables; use them   else rebuild + write    *)
(*                                                                          *)
(* Constants select the mechanism variants: the values "as coded" are        *)
(* FlagPolicy = "as_coded", CopyRows = TRUE, CheckSig = TRUE.  TLC finds the  *)
(* counterexample Eval(m1, w); Eval(m2, w) for the first.  FlagPolicy =       *)
(* "per_machine" (the mark names the machine that set it; the repair proposed *)
(* in fixes_proposed, compatible with the pinned tests) removes every         *)
(* counterexample across machines and leaves Eval(m1, w); Assign(m1, w);      *)
(* Eval(m1, w) - a result of the second evaluation that depends on the first. *)
(* With "fresh_only" (mark only objects built by the evaluation itself) the   *)
(* property holds in the model; the pinned test-suite asserts the opposite    *)
(* for x87 registers, so that variant is documented, not proposed.  The other *)
(* two variants (CopyRows = FALSE, CheckSig = FALSE) are the designs of the   *)
(* mutants in /verif/mutants/C12: TLC shows they break the property.          *)
(* Every behaviour of this model is also an implementation test: vf/c12.py    *)
(* replays them and compares the results the model predicts (res) with the    *)
(* rendering of what the code returned (model-to-code conformance).           *)
EXTENDS Naturals, Sequences, FiniteSets, TLC
CONSTANTS FlagPolicy,   \* "as_coded" | "per_machine" | "fresh_only"
          CopyRows,     \* TRUE as coded
          CheckSig,     \* TRUE as coded
          MaxCalls,     \* bound on the number of calls
          Cfgs          \* cache configurations explored: subset of {"valid","empty","other","oldsig","oldrules"}

Machines == {"m1", "m2"}
Nodes == {"w", "c1", "c7", "U"}
Render(n) == CASE n = "w" -> "w" [] n = "c1" -> "0x1" [] n = "c7" -> "0x7" [] n = "U" -> "(w+0x1)"
IsInt(n) == n \in {"c1", "c7"}
Sub(e) == IF e = "U" THEN {"U", "w", "c1"} ELSE {e}

Grammars == {"intel", "att"}
Sig(g) == IF g = "intel" THEN "sigI" ELSE "sigA"
Tab(g) == IF g = "intel" THEN "tabI" ELSE "tabA"
Other(g) == IF g = "intel" THEN "att" ELSE "intel"
\* a table file: [sig, tab, ok] ; ok = every action function named in it exists in the grammar module
NoFile == [sig |-> "none", tab |-> "none", ok |-> FALSE]
FileOf(c, g) == CASE c = "empty"  -> NoFile
                  [] c = "valid"  -> [sig |-> Sig(g), tab |-> Tab(g), ok |-> TRUE]
                  [] c = "other"  -> [sig |-> Sig(Other(g)), tab |-> Tab(Other(g)), ok |-> FALSE]
                  [] c = "oldsig" -> [sig |-> "sigOld", tab |-> "tabOld", ok |-> TRUE]
                  [] c = "oldrules" -> [sig |-> "sigOldRules", tab |-> "tabOldRules", ok |-> TRUE]   \* written by the same yacc for older rules
\* yacc.yacc() at import time, as coded
Accepts(f, g) == f.sig # "none" /\ (f.sig = Sig(g) \/ ~CheckSig) /\ f.ok
Loaded(f, g) == IF Accepts(f, g) THEN f.tab ELSE Tab(g)
Written(f, g) == IF Accepts(f, g) THEN f ELSE [sig |-> Sig(g), tab |-> Tab(g), ok |-> TRUE]

\* the decode tables: the ModRM row 0x45 ([ebp+disp8]) and the register row r_cl
InitRows == [modrm45 |-> [imm |-> "u08", ad |-> "True", size |-> "none"],
             r_cl    |-> [imm |-> "none", ad |-> "False", size |-> "u08"]]

VARIABLES isEval, simp,   \* memo attributes per node: isEval[n] = "none" or the machine that marked n last
          bound,          \* bound[m]: the pool of m binds w (to the node c7); m2 from the start, m1 after Assign
          rows,           \* decode tables
          file, inuse,    \* table files on disk (per grammar module name), tables used by this process
          cfg, hist,      \* cache configuration at process start, calls so far
          res, exp        \* result of the last call as coded / as the specification of a pure API demands
vars == <<isEval, simp, bound, rows, file, inuse, cfg, hist, res, exp>>
BoundTo(m, n) == IF n = "w" /\ bound[m] THEN "c7" ELSE "none"

Init == /\ cfg \in Cfgs
        /\ isEval = [n \in Nodes |-> "none"] /\ simp = [n \in Nodes |-> FALSE]
        /\ bound = [m \in Machines |-> m = "m2"]
        /\ rows = InitRows
        /\ inuse = [g \in Grammars |-> Loaded(FileOf(cfg, g), g)]        \* import: LoadTables
        /\ file = [g \in Grammars |-> Written(FileOf(cfg, g), g)]
        /\ hist = <<>> /\ res = "" /\ exp = ""

Call(c) == Len(hist) < MaxCalls /\ hist' = Append(hist, c) /\ UNCHANGED cfg

\* ret.is_eval = True (as coded) / = self.eval_mark (per machine) / only on objects built by this evaluation
Mark(ev, n, m) == IF FlagPolicy = "fresh_only" THEN ev ELSE [ev EXCEPT ![n] = m]
\* if e.is_eval: return e (as coded) / if e.is_eval is self.eval_mark (per machine)
Marked(ev, n, m) == IF FlagPolicy = "per_machine" THEN ev[n] = m ELSE ev[n] # "none"

\* eval_expr on a leaf node n: <<returned node, is_eval attributes afterwards>>
EvalLeaf(m, n, ev) ==
   IF Marked(ev, n, m) THEN <<n, ev>>
   ELSE LET ret == IF BoundTo(m, n) # "none" THEN BoundTo(m, n) ELSE n   \* the input node itself or the pool's value object
        IN <<ret, Mark(ev, ret, m)>>

\* what a pure evaluation returns: substitution of the pool into the expression
SpecEval(m, e) == IF e = "U" THEN (IF bound[m] THEN "0x8" ELSE "(w+0x1)")
                  ELSE IF BoundTo(m, e) # "none" THEN Render(BoundTo(m, e)) ELSE Render(e)

Eval(m, e) ==
   /\ Call([op |-> "eval", m |-> m, e |-> e])
   /\ exp' = SpecEval(m, e)
   /\ IF Marked(isEval, e, m) THEN res' = Render(e) /\ UNCHANGED <<isEval, simp>>
      ELSE /\ simp' = [n \in Nodes |-> simp[n] \/ n \in Sub(e)]          \* e.visit(expr_simp)
           /\ IF e = "U"
              THEN LET a == EvalLeaf(m, "w", isEval)
                       b == EvalLeaf(m, "c1", a[2])
                   IN /\ res' = IF IsInt(a[1]) THEN "0x8" ELSE "(" \o Render(a[1]) \o "+0x1)"
                      /\ isEval' = b[2]                                   \* the result node is fresh
              ELSE LET a == EvalLeaf(m, e, isEval)
                   IN res' = Render(a[1]) /\ isEval' = a[2]
   /\ UNCHANGED <<bound, rows, file, inuse>>

\* eval_instr([w = 7]) on m: the pool of m binds w from now on (the source is a fresh constant)
Assign(m) ==
   /\ Call([op |-> "assign", m |-> m, e |-> "w"])
   /\ ~bound[m]
   /\ bound' = [bound EXCEPT ![m] = TRUE]
   /\ res' = "[]" /\ exp' = "[]"
   /\ UNCHANGED <<isEval, simp, rows, file, inuse>>

Simp(e) ==
   /\ Call([op |-> "simp", m |-> "", e |-> e])
   /\ exp' = Render(e)                                                   \* both trees are in normal form
   /\ res' = Render(e)                                                   \* if e.simp: return e / fixpoint loop
   /\ simp' = [n \in Nodes |-> simp[n] \/ n \in Sub(e)]
   /\ UNCHANGED <<isEval, bound, rows, file, inuse>>

\* dis(8b4508): get_afs copies the row (or not), then writes the displacement into it
DisMov ==
   /\ Call([op |-> "dis", m |-> "", e |-> "mov"])
   /\ exp' = "mov eax, DWORD PTR [ebp+8]"
   /\ LET row == rows.modrm45 IN
      IF row.imm # "u08" THEN res' = "raise ValueError" /\ UNCHANGED rows     \* 'imple other afs'
      ELSE LET a == [row EXCEPT !.imm = "8", !.size = "u32", !.ad = "u32"] IN      \* a[imm] = disp; a[ad] = a[size]
           /\ res' = "mov eax, DWORD PTR [ebp+" \o a.imm \o "]"
           /\ rows' = IF CopyRows THEN rows ELSE [rows EXCEPT !.modrm45 = a]
   /\ UNCHANGED <<isEval, simp, bound, file, inuse>>

\* dis(d3e0): the operand IS the table row r_cl; the fix-up loop writes only to operands without `ad`
\* or with ad == True, which r_cl is not
DisShl ==
   /\ Call([op |-> "dis", m |-> "", e |-> "shl"])
   /\ exp' = "sal eax, cl"
   /\ LET a == rows.r_cl IN
      /\ res' = IF a.size = "u08" /\ a.ad = "False" THEN "sal eax, cl" ELSE "sal eax, ?"
      /\ rows' = IF a.ad = "True" THEN [rows EXCEPT !.r_cl = [a EXCEPT !.ad = a.size]] ELSE rows
   /\ UNCHANGED <<isEval, simp, bound, file, inuse>>

Asm(g) ==
   /\ Call([op |-> "asm", m |-> "", e |-> g])
   /\ exp' = "parsed with " \o Tab(g)
   /\ res' = "parsed with " \o inuse[g]
   /\ UNCHANGED <<isEval, simp, bound, rows, file, inuse>>

Next == \/ \E m \in Machines, e \in {"w", "U"} : Eval(m, e)
        \/ Assign("m1")
        \/ \E e \in {"w", "U"} : Simp(e)
        \/ DisMov \/ DisShl
        \/ \E g \in Grammars : Asm(g)
Spec == Init /\ [][Next]_vars

\* C12 on the model: the result of every call is what a pure API returns for its explicit inputs,
\* the decode tables are never changed, a process never uses tables that are not those of its grammar
Pure == res = exp
TablesIntact == rows = InitRows
ParserOK == \A g \in Grammars : inuse[g] = Tab(g)
=============================================================================
