"""Regenerates /verif/MANIFEST.json from the table below (python3 -m vf.manifest)."""
import json, os
V = os.path.dirname(os.path.dirname(os.path.abspath(__file__)))

CLAIMS = {
 'C05': dict(
   technique='TLC enumerates well-typed IR trees (IRGen.tla); miasmX simplifies them; TLC trace spec T_C05.tla evaluates both trees with the TLA+ IR semantics (IR.tla Eval over BV.tla)',
   text='Model-based: trees are the reachable states of the typed stack machine IRGen.tla (all 8-bit two-identifier trees up to 4 (quick) / 5 (thorough) nodes over 12 binary operators, unary minus and parity; all 5-node trees over rule-relevant operator pairs; multi-width trees with slices, compositions, conditions, memory; seeded random deeper trees). Each (input, simplified) pair is a trace record judged by TLC: termination (no timeout/exception), well-typedness, width, and value equality under boundary grids (all 2^16 valuations for trees <= 3 nodes in thorough) with byte-addressed memory. Failing records are reduced to their minimal failing sub-tree by re-running the pipeline. Bounded, not a proof.',
   design='5 C05', note='Trusted: TLC, BV.tla limb arithmetic (self-checked against native integers by BVSelf.tla), vf/expr_json.py projection. Uninterpreted operators are given congruence-only semantics.'),
 'C14': dict(
   technique='TLA+ spec ModInt.tla as oracle; TLC enumerates the operand space (ModIntSpace.tla), miasmX results validated as traces by TLC (T_C14.tla)',
   text='Model-based: the reachable states of ModIntSpace.tla are the cases (all 2^16 operand pairs at 8 bits for every operator and '
        'signedness pair incl. int-mixed and reflected forms; boundary operands at every width/width pair incl. plain ints). Every observed '
        'result (class, stored value, range) is judged by TLC against ModInt.tla (exact integer arithmetic reduced mod 2^n; limb path checked '
        'against a native-integer definition by ModIntSelf.tla). Exhaustive at 8 bits, boundary-complete elsewhere; not a proof for wide operands.',
   design='5 C14', note='Trusted: TLC, CommunityModules Json/Bitwise, the 30-line encoder of Python results (vf/c14.py enc/cenc); Python int // supplies an untrusted, spec-verified quotient witness for %. Shift counts > 70000 and exponents > 300 not explored.'),
}

PENDING = 'check not built yet (framework under construction; see DESIGN.md section 9 build order)'


def main():
    props = [json.loads(l)['id'] for l in open(os.path.join(V, 'properties.jsonl'))]
    m = {
     'version': 1,
     'setup_cmd': './setup.sh',
     'hooks': {'guard': 'MIASMX_VERIF',
               'enable': 'no source hooks: every property is observed through the public API (see DESIGN.md 2.4)',
               'baseline_off_cmd': 'cd /repo && /venv/bin/python -m pytest -ra -q -p no:cacheprovider --timeout=900 --continue-on-collection-errors',
               'source_commits': [], 'add_only': True},
     'engines': [{'name': 'tlc', 'path': '/opt/veriftools/tla/tla2tools.jar', 'serves_properties': sorted(CLAIMS),
                  'kind_free_text': 'TLC 1.8 explicit-state model checker: generator specs (state graph = test space) and trace specs (T_Cxx.tla) judging recorded miasmX executions'}],
     'checks': [], 'not_applicable': [],
     'notes': 'Entry point ./check <id> --tier quick|thorough [--replay F]. Exit 0 held / 1 violation / 2 machinery failure. known_findings.json lists fixed and known findings.'}
    for p in props:
        if p in CLAIMS:
            c = CLAIMS[p]
            m['checks'].append({
              'property_id': p, 'quick_cmd': './check %s --tier quick' % p, 'thorough_cmd': './check %s --tier thorough' % p,
              'evidence_file': '/verif/evidence/%s.json' % p, 'replay_cmd_template': './check %s --replay {path}' % p,
              'engine': 'tlc', 'technique': c['technique'],
              'level_claimed': {'category': 'model_checking', 'text': c['text'], 'design_ref': c['design']},
              'level_note': c['note']})
        else:
            m['not_applicable'].append({'property_id': p, 'reason': NA.get(p, PENDING)})
    json.dump(m, open(os.path.join(V, 'MANIFEST.json'), 'w'), indent=1)


NA = {}
if __name__ == '__main__':
    main()
