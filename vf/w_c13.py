"""worker: runs under a given PYTHONHASHSEED; argv: infile outfile.  For each case simplifies e, the
fresh copy of the result, and the variant; renders strings."""
import sys, json, os
sys.path.insert(0, os.environ['VERIF_REPO_PATH'])
sys.path.insert(0, os.path.dirname(os.path.dirname(os.path.abspath(__file__))))
from vf import expr_json as EJ, irlib
from miasmx.expression.expression_helper import expr_simp
NONE = {'k': 'none'}


def simp(t):
    st, r = irlib.guarded(expr_simp, EJ.from_json(t), 5)
    if st != 'ok':
        return st, NONE, ''
    try:
        return 'ok', EJ.to_json(r), str(r)
    except Exception:
        return 'exc', NONE, ''


def simp_obj(e):
    st, r = irlib.guarded(expr_simp, e, 5)
    if st != 'ok':
        return st, NONE, ''
    try:
        return 'ok', EJ.to_json(r), str(r)
    except Exception:
        return 'exc', NONE, ''


def main():
    sys.setrecursionlimit(3000)
    cases = json.load(open(sys.argv[1]))
    out = []
    for c in cases:
        st, se, t1 = simp(c['e'])
        st2, sse, _ = simp(se) if st == 'ok' else (st, NONE, '')
        st3, sv, t3 = simp(c['v']) if c['v']['k'] != 'none' else ('ok', NONE, '')
        # the same with shared operand objects: e and its variant are built over ONE memo (common sub-trees are
        # the same Python objects), e is simplified, then e again, then the variant
        memo = {}
        e_sh = EJ.from_json_shared(c['e'], memo)
        v_sh = EJ.from_json_shared(c['v'], memo) if c['v']['k'] != 'none' else None
        st4, she, _ = simp_obj(e_sh)
        st5, she2, _ = simp_obj(e_sh)
        st6, shv, _ = simp_obj(v_sh) if v_sh is not None else ('ok', NONE, '')
        ok = 'ok' if (st, st2, st3, st4, st5, st6) == ('ok',) * 6 else 'fail'
        out.append({'st': ok, 'se': se, 'sse': sse, 'sv': sv, 'txt': [t1, t3], 'she': she, 'she2': she2, 'shv': shv})
    json.dump(out, open(sys.argv[2], 'w'))


if __name__ == '__main__':
    main()
