------------------------------ MODULE Spelling ------------------------------
(* Generator for C19: from each canonical line, every presentation reachable *)
(* by at most MaxActs presentation-only actions.  A state is (line index,    *)
(* presentation record); `line` is the structured spelling Layout(ins,pres)  *)
(* that vf/asm_text.py flattens to text.  Each action changes exactly one    *)
(* presentation dimension and is enabled only where it changes the spelling. *)
(* The invariant DenoteOK states that every reachable spelling denotes the   *)
(* instruction of the canonical line; TLC checks it on the generator itself. *)
EXTENDS Syntax, Json, IOUtils
CONSTANTS MaxActs, Acts        \* bound on the number of actions; names of the enabled actions
Lines == JsonDeserialize(IOEnv.LINES)          \* sequence of [id, ins]
VARIABLES lid, pres, line
vars == <<lid, pres, line>>
Ins == Lines[lid].ins
Dims == {"syn","rc","kc","sp","nb","isg","dsg","ord","dout","pct","st0","dsp","dz"}
\* number of presentation dimensions that differ from the canonical presentation ("%" belongs to AT&T)
Changed(p) == Cardinality({d \in Dims : p[d] # Pres0[d] /\ ~(d = "pct" /\ p.syn = "att")})
OpHasReg(o) == \/ o.k = "reg" \/ (o.k = "mem" /\ (o.seg # "" \/ \E j \in 1..Len(o.terms) : o.terms[j].t = "reg"))
               \/ (o.k = "amem" /\ (o.seg # "" \/ o.base # "" \/ o.index # ""))
HasReg(l) == \E j \in 1..Len(l.ops) : OpHasReg(l.ops[j])
HasKw(l) == \E j \in 1..Len(l.ops) : (l.ops[j].k = "mem" /\ l.ops[j].kw # "") \/ (l.ops[j].k = "imm" /\ l.ops[j].off)
\* one presentation-only step: dimension d takes the non-canonical value v
Step(d, v) == /\ Changed(pres) < MaxActs /\ pres[d] = Pres0[d] /\ v # Pres0[d]
              /\ pres' = [pres EXCEPT ![d] = v]
              /\ line' = Layout(Ins, pres')
              /\ line' # line
              /\ UNCHANGED lid
RegCase   == \E v \in {"upper", "mixed"} : Step("rc", v) /\ HasReg(line)
KwCase    == \E v \in {"lower", "mixed"} : Step("kc", v) /\ HasKw(line)
Spacing   == \E v \in {"tight", "wide"} : Step("sp", v) /\ Len(line.ops) > 0
NumBase   == \E v \in {"hexl", "hexu", "dec0"} : Step("nb", v)      \* 16 <-> 0x10 <-> 0X10; 4 <-> 04 (values 1..7 only: see vf/asm_text.py)
ImmSign   == Step("isg", TRUE)                          \* -1 <-> 2^w - 1 at the width of the operation
DispSign  == Step("dsg", TRUE)                          \* [eax-1] <-> [eax+4294967295]
TermOrder == \E v \in {"ibd", "dbi", "bdi"} : Step("ord", v) /\ pres.syn = "intel"
DispOut   == Step("dout", TRUE) /\ pres.syn = "intel" /\ pres.dsp = "one"   \* [eax+4] <-> 4[eax]
Percent   == Step("pct", TRUE) /\ pres.syn = "intel"    \* eax <-> %eax
StBare    == Step("st0", "bare")                        \* st(0) <-> st
DispSplit == \E v \in {"pm", "mp"} : Step("dsp", v) /\ pres.syn = "intel" /\ ~pres.dout    \* [eax+4] <-> [eax+8-4] <-> [eax-4+8]
\* a zero displacement written explicitly: the base on which DispOut / TermOrder / ToAtt then act ([eax+0] <-> 0[eax] <-> [0+eax] <-> 0(%eax))
ZeroDisp  == Step("dz", TRUE)
ToAtt     == /\ Changed(pres) < MaxActs /\ pres.syn = "intel" /\ pres.dsp = "one" /\ AttOK(Ins)
             /\ pres' = [pres EXCEPT !.syn = "att", !.pct = TRUE, !.ord = "bid", !.dout = FALSE, !.kc = "upper"]
             /\ Changed(pres') <= MaxActs
             /\ line' = Layout(Ins, pres') /\ UNCHANGED lid
Init == /\ lid \in 1..Len(Lines) /\ pres = Pres0 /\ line = Layout(Lines[lid].ins, Pres0)
On(a) == a \in Acts
Next == \/ (On("RegCase") /\ RegCase)     \/ (On("KwCase") /\ KwCase)     \/ (On("Spacing") /\ Spacing)
        \/ (On("NumBase") /\ NumBase)     \/ (On("ImmSign") /\ ImmSign)   \/ (On("DispSign") /\ DispSign)
        \/ (On("TermOrder") /\ TermOrder) \/ (On("DispOut") /\ DispOut)   \/ (On("Percent") /\ Percent)
        \/ (On("StBare") /\ StBare)       \/ (On("ToAtt") /\ ToAtt)   \/ (On("DispSplit") /\ DispSplit)
        \/ (On("ZeroDisp") /\ ZeroDisp)
AllActs == {"RegCase","KwCase","Spacing","NumBase","ImmSign","DispSign","TermOrder","DispOut","Percent","StBare","ToAtt","DispSplit","ZeroDisp"}
Spec == Init /\ [][Next]_vars
\* every reachable spelling denotes the instruction of its canonical line
DenoteOK == /\ line = Layout(Ins, pres)
            /\ Denote(line) = Denoted(Ins)
            /\ Changed(pres) <= MaxActs
=============================================================================
