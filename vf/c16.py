"""C16 - expression read sets and pattern matching are semantically exact.
S->C: IRDeriveGen.tla (TLC) enumerates trees, assignments and (expression, pattern, wildcards) triples incl.
same-shape non-instances; C->S: T_C16.tla decides by dependency probing with IR.Eval (reads) and by
Subst(pattern, binding) = expression (matching)."""
import json, random
from . import core, irlib, expr_json as EJ
from .c15 import gen_derived

NONE = {'k': 'none'}


def _observe(case):
    from miasmx.expression import expression as X
    t = case['e']
    if case['kind'] == 'pat':
        try:
            # generated mutations keep stale recorded widths: re-project through miasmX so that `w` is what it answers
            t = EJ.to_json(EJ.from_json(t))
            case = dict(case, pat=EJ.to_json(EJ.from_json(case['pat'])))
        except Exception:
            pass
        rec = {'id': case['id'], 'kind': 'pat', 'e': t, 'pat': case['pat'], 'wild': case['wild'], 'out': 'fail', 'bind': []}
        try:
            e, p = EJ.from_json(t), EJ.from_json(case['pat'])
            tks = [EJ.from_json(w) for w in case['wild']]
            r = X.MatchExpr(e, p, tks)
            if r is False:
                rec['out'] = 'fail'
            else:
                rec['out'] = 'ok'
                if isinstance(r, dict):
                    rec['bind'] = [[str(k.name) if isinstance(k, X.ExprId) else '?' + str(k), EJ.to_json(v)] for k, v in r.items()]
        except Exception as x:
            rec['out'] = 'exc'
            rec['exc_key'] = irlib.exc_key(x)
        return rec
    rec = {'id': case['id'], 'kind': 'reads', 'e': t, 'rmr': [], 'r0': [], 'w': [], 'exc': '', 'order': 'mem_read first'}
    try:
        e = EJ.from_json(t)
        if t['k'] == 'aff':
            rec['w'] = [EJ.to_json(x) for x in e.get_w()]
            rec['rmr'] = [EJ.to_json(x) for x in e.get_r(mem_read=True)]
            rec['r0'] = [EJ.to_json(x) for x in e.get_r()]
        else:
            rec['rmr'] = [EJ.to_json(x) for x in e.get_r(mem_read=True)]
            rec['r0'] = [EJ.to_json(x) for x in e.get_r()]
            # the other order of the two questions on one (fresh) object: reported as an observation of its own when it differs
            e2 = EJ.from_json(t)
            r0b = [EJ.to_json(x) for x in e2.get_r()]
            rmrb = [EJ.to_json(x) for x in e2.get_r(mem_read=True)]
            key = lambda l: sorted(json.dumps(x, sort_keys=True) for x in l)
            if key(r0b) != key(rec['r0']) or key(rmrb) != key(rec['rmr']):
                rec['second'] = dict(rec, rmr=rmrb, r0=r0b, order='default first')
    except Exception as x:
        rec['exc'] = type(x).__name__
        rec['exc_key'] = irlib.exc_key(x)
    return rec


def keyof(rec, f):
    key = {'clause': f['clause']}
    if f['clause'].startswith('C16.reads') or f['clause'].startswith('C16.writes'):
        key['mode'] = f.get('mode', '')
        key['under'] = parent_kind(rec['e'], f.get('missing')) if f.get('missing') else rec['e']['k']
    if f['clause'] in ('C16.exception', 'C16.match.exception'):
        key.update(rec.get('exc_key', {}))
    if f['clause'].startswith('C16.match') and f['clause'] != 'C16.match.exception':
        key['why'] = mismatch_kind(rec['e'], rec['pat'], rec['wild'])
    return key


def parent_kind(t, missing):
    """kind/operator of the innermost node of t that contains the missing item as a direct child"""
    best = [None]
    def walk(x):
        for y in x.get('a', []) + x.get('g', []):
            if y == missing:
                best[0] = x['k'] + ':' + x.get('o', '')
            walk(y)
    walk(t)
    return best[0] or 'root'


def mismatch_kind(e, p, wild):
    """first structural reason why p cannot match e (for finding keys): operator / arity / leaf / nonlinear"""
    names = set(w['n'] for w in wild)
    def walk(x, y):
        if y['k'] == 'id' and y['n'] in names:
            return None
        if x['k'] != y['k']:
            return 'kind'
        if x['k'] == 'op' and x['o'] != y['o']:
            return 'operator'
        if len(x.get('a', [])) != len(y.get('a', [])):
            return 'arity'
        if x['k'] in ('int', 'id'):
            return None if x == y else 'leaf'
        if x['k'] == 'mem' and (x['w'] != y['w'] or x.get('g') != y.get('g')):
            return 'memory size/segment'
        if x['k'] == 'slice' and (x['lo'], x['hi']) != (y['lo'], y['hi']):
            return 'slice bounds'
        if x['k'] == 'compose' and x['s'] != y['s']:
            return 'compose slots'
        for a, b in zip(x.get('a', []), y.get('a', [])):
            r = walk(a, b)
            if r:
                return r
        return None
    return walk(e, p) or 'nonlinear wildcard'


def _wild_depth(t, name, d=0):
    """greatest depth at which the identifier `name` occurs in t (-1: nowhere)"""
    if t['k'] == 'id':
        return d if t['n'] == name else -1
    return max([_wild_depth(c, name, d + 1) for c in t.get('a', []) + t.get('g', [])] + [-1])


def run(tier, chk):
    rnd = random.Random(chk.seed)
    negative_control(chk)
    quick = tier == 'quick'
    items = gen_derived(4 if not quick else 3, [8, 32], ['+', '-', '&', '<<', '=='], ['plain'], chk)
    items += gen_derived(3, [1, 8, 16, 32], ['+', '*', '>>>'], ['plain'], chk)
    pats = gen_derived(3, [8, 32], ['+', '-', '&', '<<', '=='], ['pat', 'patmut', 'patpart'], chk)
    # widths 8/16/32: concatenations (8+8, 16+16, 8+... ) and slices between all of them occur as patterns and mutated non-instances
    pats += gen_derived(3, [8, 16, 32], ['+', '&'], ['pat', 'patmut', 'patpart'], chk)
    if quick:
        pats = [x for x in pats if rnd.random() < 0.3]
        items = [x for x in items if rnd.random() < 0.6]
    # partial substitutions in which one occurrence of the repeated wildcard sits INSIDE a compound sub-pattern that the
    # expression contains literally (the expression mentions the wildcard's own identifier there): four nodes with every
    # node kind, five nodes over + and ^
    deep = [x for x in gen_derived(4, [8, 32], ['+'], ['patpart'], chk) + gen_derived(5, [8], ['+', '^'], ['patpart'], chk, rich=False)
            if _wild_depth(x['pat'], x['wild'][0]['n']) >= 2]
    pats += [x for x in deep if not quick or rnd.random() < 0.12]
    # slices of concatenations (a slice that starts or ends inside a part) need four nodes and the width 16
    items += [x for x in gen_derived(4, [8, 16], ['+'], ['plain'], chk) if x['e']['k'] in ('slice', 'compose', 'cond', 'mem')]
    # partial assignments (the source keeps the same-position slice of the destination): read sets of assignments
    items += gen_derived(3, [8, 32], ['+', '&'], ['paff'], chk) + gen_derived(3, [16], ['+'], ['paff'], chk)
    if quick:
        # conditions, slices and memory cells under another node need four nodes: a narrower alphabet at that bound
        more = gen_derived(4, [8, 32], ['+', '=='], ['plain'], chk)
        items += [x for x in more if x['e']['k'] in ('cond', 'mem', 'slice', 'aff') and rnd.random() < 0.5]
    cases = [dict(x, id=i) for i, x in enumerate(items + pats)]
    recs = irlib.pmap(_observe, cases)
    for r in list(recs):
        if 'second' in r:
            recs.append(dict(r.pop('second'), id=len(recs)))
    for r in recs:
        if r['kind'] == 'reads':
            r['envs'] = irlib.make_envs(EJ.ids_of(r['e']), 5, rnd)
    n_ok = sum(1 for r in recs if r['kind'] == 'pat' and r['out'] == 'ok')
    chk.cov['evaluations'] = len(recs)
    chk.cov['distinct_nontrivial'] = sum(1 for r in recs if (r['kind'] == 'pat' and r['out'] == 'ok') or (r['kind'] == 'reads' and (r['rmr'] or r['w'])))
    chk.cov['match_successes'] = n_ok
    chk.cov['match_cases'] = sum(1 for r in recs if r['kind'] == 'pat')
    chk.cov['rule'] = ('cases = reachable derived states of IRDeriveGen.tla; non-trivial = successful matches and expressions with a non-empty read/write set')
    rnd.shuffle(recs)
    verdicts, st = core.judge('T_C16', recs, timeout=2400)
    chk.add_tlc(st)
    chk.cov['traces_validated_against_impl'] = len(recs)
    for r in recs[:4]:
        chk.sample({k: (EJ.show(v) if k in ('e', 'pat') else v) for k, v in r.items() if k in ('kind', 'e', 'pat', 'out')})
    byid = {r['id']: r for r in recs}
    for v in verdicts:
        r = byid[v['id']]
        f = v['v'][0]
        chk.violation(keyof(r, f), {'case': {k: r[k] for k in r if k != 'envs'}, 'e_text': EJ.show(r['e']),
                                    'pat_text': EJ.show(r['pat']) if 'pat' in r else None, 'verdict': f})


def negative_control(chk):
    x = {'k': 'id', 'w': 8, 'n': 'x8'}
    y = {'k': 'id', 'w': 8, 'n': 'y8'}
    p = {'k': 'id', 'w': 32, 'n': 'x32'}
    j1 = {'k': 'id', 'w': 8, 'n': 'jok1'}
    mem = {'k': 'mem', 'w': 8, 'a': [p], 'g': []}
    e = {'k': 'op', 'w': 8, 'o': '+', 'u': 0, 'a': [x, mem]}
    mul = {'k': 'op', 'w': 8, 'o': '*', 'u': 0, 'a': [j1, y]}
    add = {'k': 'op', 'w': 8, 'o': '+', 'u': 0, 'a': [x, y]}
    envs = [{'id': {'x8': [5], 'y8': [3], 'x32': [0, 1, 0, 0]}, 'seed': 1, 'over': []}]
    recs = [{'id': 0, 'kind': 'reads', 'e': e, 'envs': envs, 'rmr': [x, mem, p], 'r0': [x, mem], 'w': [], 'exc': ''},
            {'id': 1, 'kind': 'reads', 'e': e, 'envs': envs, 'rmr': [x, mem], 'r0': [x, mem], 'w': [], 'exc': ''},
            {'id': 2, 'kind': 'reads', 'e': e, 'envs': envs, 'rmr': [x, p], 'r0': [x, mem], 'w': [], 'exc': ''},
            {'id': 3, 'kind': 'pat', 'e': add, 'pat': mul, 'wild': [j1], 'out': 'ok', 'bind': [['jok1', x]]},
            {'id': 4, 'kind': 'pat', 'e': add, 'pat': {'k': 'op', 'w': 8, 'o': '+', 'u': 0, 'a': [j1, y]}, 'wild': [j1], 'out': 'ok', 'bind': [['jok1', x]]}]
    verdicts, st = core.judge('T_C16', recs, shards=1)
    got = sorted((v['id'], v['v'][0]['clause']) for v in verdicts)
    want = [(1, 'C16.reads.identifier'), (2, 'C16.reads.cell'), (3, 'C16.match.reproduces')]
    chk.cov['negative_controls'].append({'name': 'omitted address identifier / omitted cell / wrong-operator match rejected, exact ones accepted', 'ok': got == want, 'got': got})
    if got != want:
        raise core.MachineryError('C16 negative control failed: %r' % (got,))


def replay(path, chk):
    rp = json.load(open(path))
    c = rp['detail']['case']
    case = {'id': 0, 'kind': 'pat' if c['kind'] == 'pat' else 'plain', 'e': c['e']}
    if c['kind'] == 'pat':
        case.update(pat=c['pat'], wild=c['wild'])
    irlib._init_worker(False)
    rec = _observe(case)
    if rec['kind'] == 'reads':
        rec['envs'] = irlib.make_envs(EJ.ids_of(rec['e']), 8, random.Random(chk.seed))
    verdicts, st = core.judge('T_C16', [rec], shards=1)
    chk.add_tlc(st)
    chk.cov['traces_validated_against_impl'] = 1
    chk.cov['evaluations'] = 1
    chk.sample({'e': EJ.show(rec['e'])})
    for v in verdicts:
        print('replay: still fails', v['v'][0]['clause'])
        chk.violation(keyof(rec, v['v'][0]), rp['detail'])
    return chk.finish()
