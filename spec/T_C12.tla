------------------------------- MODULE T_C12 -------------------------------
(* C->S judge for C12: recorded API histories against the specification of   *)
(* a pure API (Api.tla).                                                    *)
(*                                                                          *)
(* Record shapes                                                            *)
(*  "hist": [id, shape, cfg, calls, snaps] - one history run by one process; *)
(*          calls[j] = [c (call name), r (result fingerprint), ex (raised)];  *)
(*          snaps[j] = state before call j, snaps[j+1] = state after it:      *)
(*          [p (pool fingerprints of m1, m2), x (fingerprints of the argument *)
(*          objects, order Api!Fixtures), t (fingerprint of the shared        *)
(*          instruction/register tables, 0 = not taken)].  Fingerprints are   *)
(*          digests of a canonical structural serialisation, renamed          *)
(*          injectively to small integers by the driver.                      *)
(*          Clauses: a pure or read call leaves every pool unchanged; a write *)
(*          call on m leaves the other machine unchanged; no call changes the *)
(*          structure of any argument object or of the shared tables.         *)
(*  "fun":  [id, shape, key, obs] - all observations <<result, ref>> made     *)
(*          for one call key anywhere (all histories, processes, cache        *)
(*          configurations).  The function key -> result is unknown to the    *)
(*          specification, so it is learned: the first observation defines    *)
(*          learned[key], any later disagreement is a violation.              *)
EXTENDS Naturals, Sequences, FiniteSets, TLC, Json, IOUtils
A == INSTANCE Api WITH Depth <- 0, DepthCfg <- 0, Configs <- {}, cfg <- "valid", hist <- <<>>,
                       mst <- <<<<>>, <<>>>>, keys <- <<>>
Recs == JsonDeserialize(IOEnv.TRACE)
Names == {A!AllCalls[i].c : i \in 1..Len(A!AllCalls)}
Info(c) == A!AllCalls[CHOOSE i \in 1..Len(A!AllCalls) : A!AllCalls[i].c = c]
NFix == Len(A!Fixtures)

\* fingerprint of the tables as last taken at or before snapshot k
RECURSIVE LastT(_, _)
LastT(snaps, k) == IF snaps[k].t # 0 \/ k = 1 THEN snaps[k].t ELSE LastT(snaps, k - 1)

V(clause, j, c, what, before, after) ==
   [clause |-> clause, pos |-> j, c |-> c, what |-> what, before |-> before, after |-> after]

CallVerdicts(rec, j) ==
   LET c == rec.calls[j].c
       b == rec.snaps[j]
       a == rec.snaps[j + 1]
   IN IF c \notin Names THEN <<V("harness.unknown_call", j, c, "", 0, 0)>>
      ELSE IF Len(b.x) # NFix \/ Len(a.x) # NFix \/ Len(b.p) # 2 \/ Len(a.p) # 2 THEN <<V("harness.shape", j, c, "", 0, 0)>>
      ELSE
      LET inf == Info(c)
          changedP == {m \in 1..2 : a.p[m] # b.p[m]}
          allowedP == IF inf.kind = "write" THEN {inf.m} ELSE {}
          badP == changedP \ allowedP
          badX == {k \in 1..NFix : a.x[k] # b.x[k]}
          tb == LastT(rec.snaps, j)
          pv == IF badP = {} THEN <<>>
                ELSE LET m == CHOOSE m \in badP : TRUE IN
                     <<V(IF inf.kind = "write" THEN "C12.pools_other" ELSE "C12.pools_pure", j, c,
                         IF m = 1 THEN "m1" ELSE "m2", b.p[m], a.p[m])>>
          xv == IF badX = {} THEN <<>>
                ELSE LET k == CHOOSE k \in badX : \A k2 \in badX : k <= k2 IN
                     <<V("C12.inputs", j, c, A!Fixtures[k], b.x[k], a.x[k])>>
          tv == IF a.t = 0 \/ tb = 0 \/ a.t = tb THEN <<>>
                ELSE <<V("C12.tables", j, c, "x86mndb", tb, a.t)>>
      IN pv \o xv \o tv

RECURSIVE HistVerdicts(_, _)
HistVerdicts(rec, j) == IF j > Len(rec.calls) THEN <<>> ELSE CallVerdicts(rec, j) \o HistVerdicts(rec, j + 1)

\* learning the function key -> result: learned = first observation; every other observation must agree
FunVerdict(rec) ==
   LET learned == rec.obs[1][1]
       bad == {j \in 1..Len(rec.obs) : rec.obs[j][1] # learned}
   IN IF bad = {} THEN <<>>
      ELSE LET j == CHOOSE j \in bad : \A k \in bad : j <= k IN
           <<[clause |-> "C12.function", key |-> rec.key, learned |-> learned, learned_at |-> rec.obs[1][2],
              other |-> rec.obs[j][1], other_at |-> rec.obs[j][2], nbad |-> Cardinality(bad),
              ndistinct |-> Cardinality({rec.obs[k][1] : k \in 1..Len(rec.obs)})]>>

Verdict(rec) ==
   IF rec.shape = "fun" THEN (IF Len(rec.obs) = 0 THEN <<[clause |-> "harness.shape"]>> ELSE FunVerdict(rec))
   ELSE IF Len(rec.snaps) # Len(rec.calls) + 1 THEN <<[clause |-> "harness.shape"]>>
   ELSE HistVerdicts(rec, 1)

VARIABLE i
Init == i = 0
Next == \/ /\ i < Len(Recs) /\ i' = i + 1
           /\ LET v == Verdict(Recs[i']) IN
              IF v = <<>> THEN TRUE ELSE PrintT("VERDICT " \o ToJson([id |-> Recs[i'].id, v |-> v]))
        \/ /\ i = Len(Recs) /\ i' = i + 1 /\ PrintT("CONSUMED " \o ToString(Len(Recs)))
=============================================================================
