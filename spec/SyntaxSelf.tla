----------------------------- MODULE SyntaxSelf -----------------------------
(* Spec-internal obligations of the assembly-syntax layer, discharged by TLC  *)
(* in setup: on every line of the small AsmSpace the canonical Intel layout   *)
(* denotes the line itself (LineOK); the AT&T mnemonic spelling is injective  *)
(* (a suffixed name never coincides with another mnemonic); every register    *)
(* name maps back to its class and number; number spellings round-trip.       *)
EXTENDS AsmSpace
AttInjective == Cardinality(AttNames) = Cardinality(AttSpell)
RegsRoundTrip == \A c \in RegClasses : \A n \in 0..(Len(RegTab[c]) - 1) : RegOf(RegName(c, n)) = [k |-> "reg", c |-> c, n |-> n]
NumsRoundTrip == \A x \in ImmVals : /\ NumVal(CanonNum(x.v, x.neg, "dec")) = x.v
                                    /\ \A w \in {8, 16, 32} : HasAlt(x.v, x.neg, w) => Low(NumVal(AltNum(x.v, x.neg, w, "dec")), w) = Low(x.v, w)
SelfOK == LineOK /\ AttInjective /\ RegsRoundTrip /\ NumsRoundTrip
=============================================================================
