------------------------------- MODULE T_C11 -------------------------------
(* C->S judge for C11: the lifted assignment list of an instruction is        *)
(* well-formed IR.  Record: [id, st ("ok"|"exc"|"none"), affs (trees), envs]. *)
EXTENDS IR, Json, IOUtils
Recs == JsonDeserialize(IOEnv.TRACE)
RECURSIVE HasAffBelow(_)
HasAffBelow(e) == IF e.k \in {"int", "id"} THEN FALSE
                  ELSE \E i \in 1..Len(e.a) : e.a[i].k = "aff" \/ HasAffBelow(e.a[i])
IsBit(v) == IsZero(v) \/ (v[1] = 1 /\ \A j \in 2..Len(v) : v[j] = 0)
\* two destinations name the same or overlapping storage
Overlap(d1, d2, envs) ==
   IF d1.k = "id" /\ d2.k = "id" THEN d1.n = d2.n
   ELSE IF d1.k = "mem" /\ d2.k = "mem" THEN
        \/ d1.a[1] = d2.a[1]
        \/ /\ WellTyped(d1) /\ WellTyped(d2)
           /\ \A j \in 1..Len(envs) :
                 LET a1 == Norm(Eval(d1.a[1], envs[j]), AddrW) a2 == Norm(Eval(d2.a[1], envs[j]), AddrW)
                     diff == Sub(a2, a1, AddrW) rdiff == Sub(a1, a2, AddrW)
                 IN (Ult(diff, FromNat(d1.w \div 8, AddrW))) \/ (Ult(rdiff, FromNat(d2.w \div 8, AddrW)))
   ELSE FALSE
\* the innermost ill-typed node of a tree (all of whose children are well typed) and its signature
RECURSIVE Culprit(_)
Culprit(e) ==
   IF e.k \in {"int", "id"} THEN e
   ELSE LET kids == e.a \o (IF e.k = "mem" THEN e.g ELSE <<>>)
            bad == {i \in 1..Len(kids) : ~WellTyped(kids[i])} IN
        IF bad = {} THEN e ELSE Culprit(kids[CHOOSE i \in bad : \A j \in bad : i <= j])
Sig(e) == [k |-> e.k, o |-> IF e.k = "op" THEN e.o ELSE "",
           ws |-> IF e.k \in {"int", "id"} THEN <<e.w>> ELSE [i \in 1..Len(e.a) |-> Width(e.a[i])],
           s |-> IF e.k = "compose" THEN e.s ELSE IF e.k = "slice" THEN <<<<e.lo, e.hi>>>> ELSE <<>>]
One(a, envs) ==
   IF a.k # "aff" THEN "C11.not_assignment"
   ELSE IF Len(a.a) # 2 THEN "C11.not_assignment"
   ELSE IF a.a[1].k \notin {"id", "mem"} THEN "C11.destination_kind"
   ELSE IF a.a[2].k = "aff" \/ HasAffBelow(a.a[2]) \/ HasAffBelow(a.a[1]) THEN "C11.nested_assignment"
   ELSE IF ~WellTyped(a.a[1]) \/ ~WellTyped(a.a[2]) THEN "C11.welltyped"
   ELSE IF Width(a.a[2]) = Width(a.a[1]) THEN "ok"
   ELSE IF Width(a.a[1]) = 1 /\ Width(a.a[2]) > 1 /\ \A j \in 1..Len(envs) : IsBit(Eval(a.a[2], envs[j])) THEN "ok"
   ELSE "C11.width"
Verdict(r) ==
   IF r.st = "none" THEN <<>>
   ELSE IF r.st # "ok" THEN <<[clause |-> "C11.lift_exception"]>>
   ELSE LET bad == {i \in 1..Len(r.affs) : One(r.affs[i], r.envs) # "ok"} IN
        IF bad # {} THEN LET i == CHOOSE i \in bad : \A j \in bad : i <= j IN
             <<[clause |-> One(r.affs[i], r.envs), aff |-> i, nbad |-> Cardinality(bad),
                sig |-> IF One(r.affs[i], r.envs) = "C11.welltyped"
                        THEN Sig(Culprit(IF WellTyped(r.affs[i].a[1]) THEN r.affs[i].a[2] ELSE r.affs[i].a[1]))
                        ELSE IF One(r.affs[i], r.envs) = "C11.width"
                        THEN [k |-> r.affs[i].a[2].k, o |-> IF r.affs[i].a[2].k = "op" THEN r.affs[i].a[2].o ELSE "",
                              ws |-> <<Width(r.affs[i].a[1]), Width(r.affs[i].a[2])>>, s |-> <<>>]
                        ELSE [k |-> "", o |-> "", ws |-> <<>>, s |-> <<>>]]>>
        ELSE LET ov == {p \in (1..Len(r.affs)) \X (1..Len(r.affs)) : p[1] < p[2] /\ Overlap(r.affs[p[1]].a[1], r.affs[p[2]].a[1], r.envs)} IN
             IF ov # {} THEN <<[clause |-> "C11.overlapping_destinations", pair |-> CHOOSE p \in ov : TRUE]>> ELSE <<>>
VARIABLE i
Init == i = 0
Next == \/ /\ i < Len(Recs) /\ i' = i + 1
           /\ LET v == Verdict(Recs[i']) IN
              IF v = <<>> THEN TRUE ELSE PrintT("VERDICT " \o ToJson([id |-> Recs[i'].id, v |-> v]))
        \/ /\ i = Len(Recs) /\ i' = i + 1 /\ PrintT("CONSUMED " \o ToString(Len(Recs)))
=============================================================================
