------------------------------- MODULE X86Calib -------------------------------
(* Calibration of X86Sem!Step against the host processor (optional evidence,  *)
(* not a verdict about miasmX): generator part.  Reachable states = (instance *)
(* without memory / stack / control-flow operands, state index k) with the    *)
(* generated initial state and the fault prediction of Step; the driver runs  *)
(* the non-faulting ones natively (32-bit static ELF built by GNU as/ld) and  *)
(* T_X86Calib compares.                                                       *)
EXTENDS X86SpaceLib
CONSTANTS NK, SD, MODE       \* MODE "reg": register / immediate forms; "mem": memory operands, stack and string instructions
UsesEsp(i) == \E j \in 1..Len(i.ops) : i.ops[j].k = "reg" /\ i.ops[j].c \in {"r16", "r32"} /\ i.ops[j].n = 4
Absolute(o) == o.k = "mem" /\ o.b < 0 /\ o.i < 0
Calibratable(i) ==
   IF MODE = "reg"
   THEN /\ i.q
        /\ i.mn \notin StackMn \cup StringMn \cup FlowMn \cup {"xlat"}
        /\ \A j \in 1..Len(i.ops) : i.ops[j].k # "mem" \/ i.mn = "lea"
        /\ (i.mn = "lea" => i.ops[2].b # 4)
        /\ ~UsesEsp(i)
   ELSE /\ i.mn \notin FlowMn /\ i.mn # "lea"
        /\ (i.mn \in StackMn \cup StringMn \cup {"xlat"} \/ \E j \in 1..Len(i.ops) : i.ops[j].k = "mem")
        /\ \A j \in 1..Len(i.ops) : ~Absolute(i.ops[j])
        /\ (i.q \/ i.mn \in BitMn \cup StackMn \cup {"cmpxchg", "xadd", "xchg"})
VARIABLES inst, txt, k, st, flt
Init == /\ inst \in {x \in Instances : Calibratable(x)} /\ txt = Text(inst) /\ k \in 1..NK
        /\ st = GenState(inst, SD, k) /\ flt = Step([inst EXCEPT !.len = 2], st).fault
Next == UNCHANGED <<inst, txt, k, st, flt>>
=============================================================================
