---------------------------- MODULE SymPoolWideSelf ----------------------------
(* Spec-internal obligation (run by setup.sh): the pool model of SymPool      *)
(* (AsCoded = FALSE) with the cell widths of x87/MMX (64 bits) and SSE        *)
(* (128 bits) operands next to 32-bit ones: for every history of <= 3 stores  *)
(* of width 32/64/128 at offsets 0,4,8,12,15 from a constant base, cells      *)
(* never overlap, the flattened pool is the concrete SymMem memory and every  *)
(* load of every width at every offset returns the concrete bytes.  This is   *)
(* the design-level statement of "read-back of any width" (C07); it holds     *)
(* only because the probing window of get_mem_overlapping reaches as far back *)
(* as the widest cell (SymPool!MaxCellBytes).                                 *)
EXTENDS SymPool
=============================================================================
