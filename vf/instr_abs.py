"""Projection of a miasmX x86 instruction object to the abstract-instruction record of DESIGN Appendix A
by parsing its Intel rendering str(instr) with an independent, liberal tokenizer (C01: 'as shown by its
Intel-syntax rendering'), plus .l, .b, .offset, .prefix.  Trusted base; knows nothing about miasmX's
internal argument dictionaries.

Liberal on purpose: decimal or hex numbers, optional '*1', optional default segment, any letter case,
'st' = 'st(0)', size keywords with or without 'PTR', displacement inside or outside the brackets, terms in
any order.  A benign change of rendering style is therefore not an alarm."""
import re

R8 = ['al', 'cl', 'dl', 'bl', 'ah', 'ch', 'dh', 'bh']
R16 = ['ax', 'cx', 'dx', 'bx', 'sp', 'bp', 'si', 'di']
R32 = ['eax', 'ecx', 'edx', 'ebx', 'esp', 'ebp', 'esi', 'edi']
SREG = ['es', 'cs', 'ss', 'ds', 'fs', 'gs']
REG = {}
for _c, _l in (('r8', R8), ('r16', R16), ('r32', R32), ('sreg', SREG)):
    for _n, _x in enumerate(_l):
        REG[_x] = (_c, _n)
for _n in range(8):
    REG['cr%d' % _n] = ('cr', _n)
    REG['dr%d' % _n] = ('dr', _n)
    REG['mm%d' % _n] = ('mm', _n)
    REG['xmm%d' % _n] = ('xmm', _n)
    REG['st(%d)' % _n] = ('st', _n)
    REG['st%d' % _n] = ('st', _n)
REG['st'] = ('st', 0)
SIZES = {'byte': 8, 'word': 16, 'dword': 32, 'fword': 48, 'qword': 64, 'tbyte': 80, 'tword': 80, 'xword': 80,
         'oword': 128, 'xmmword': 128, 'ymmword': 256}
PREFIX_WORDS = {'lock': 'lock', 'rep': 'rep', 'repz': 'rep', 'repe': 'rep', 'repnz': 'repne', 'repne': 'repne',
                'notrack': 'notrack'}
# operand slots (0-based) that can only be memory: a bare number there is a displacement-only address
# (miasmX prints 'lea eax, 1144201745').  Knowledge of the instruction set, not of miasmX.
M_ONLY = {'lea': 1, 'prefetchnta': 0, 'prefetcht0': 0, 'prefetcht1': 0, 'prefetcht2': 0, 'prefetchw': 0,
          'prefetchwt1': 0, 'cmpxchg8b': 0, 'invlpg': 0, 'clflush': 0, 'fxsave': 0, 'fxrstor': 0, 'xsave': 0,
          'xrstor': 0, 'xsaveopt': 0, 'lgdt': 0, 'lidt': 0, 'sgdt': 0, 'sidt': 0, 'fldenv': 0, 'fnstenv': 0,
          'frstor': 0, 'fnsave': 0, 'ldmxcsr': 0, 'stmxcsr': 0, 'bound': 1, 'les': 1, 'lds': 1, 'lss': 1,
          'lfs': 1, 'lgs': 1}
REL_MN = re.compile(r'^(j[a-z]+|call|loop[a-z]*)$')
FAR_MN = ('jmpf', 'callf', 'jmp', 'call', 'ljmp', 'lcall')
NUM = re.compile(r'^[+-]?\s*(0x[0-9a-f]+|[0-9]+|[0-9][0-9a-f]*h)$')


class ProjectionError(Exception):
    pass


def limbs64(v):
    v &= (1 << 64) - 1
    return [(v >> (8 * i)) & 255 for i in range(8)]


def num(s):
    s = s.replace(' ', '')
    neg = s.startswith('-')
    s = s.lstrip('+-')
    if s.endswith('h') and not s.startswith('0x'):
        v = int(s[:-1], 16)
    else:
        v = int(s, 0) if s.startswith('0x') else int(s, 10)
    return -v if neg else v


def split_operands(rest):
    out, depth, cur = [], 0, ''
    for ch in rest:
        if ch in '[(':
            depth += 1
        elif ch in '])':
            depth -= 1
        if ch == ',' and depth == 0:
            out.append(cur.strip())
            cur = ''
        else:
            cur += ch
    if cur.strip():
        out.append(cur.strip())
    return out


def parse_mem(t, aw_default):
    """t: operand text known to be a memory reference"""
    sz, seg = 0, ''
    t = t.strip()
    # outer brackets around a whole sized operand: '[DWORD PTR 1234]'
    if t.startswith('[') and t.endswith(']') and re.search(r'\bptr\b', t):
        t = t[1:-1].strip()
    m = re.match(r'^([a-z]+)(\s+ptr)?\s+(.*)$', t)
    if m and m.group(1) in SIZES:
        sz = SIZES[m.group(1)]
        t = m.group(3).strip()
    m = re.match(r'^(es|cs|ss|ds|fs|gs)\s*:\s*(.*)$', t)
    if m:
        seg = m.group(1)
        t = m.group(2).strip()
    m = re.match(r'^([^\[\]]*)\[(.*)\]\s*([^\[\]]*)$', t)
    if m:
        outside, inside = (m.group(1) + ' ' + m.group(3)).strip(), m.group(2)
        m2 = re.match(r'^(es|cs|ss|ds|fs|gs)\s*:\s*(.*)$', inside.strip())
        if m2:
            seg = m2.group(1)
            inside = m2.group(2)
    else:
        outside, inside = t, ''
    b, i, sc, d = -1, -1, 1, 0
    aw = None
    if outside:
        if not NUM.match(outside):
            raise ProjectionError('bad displacement %r' % outside)
        d += num(outside)
    if inside.strip():
        for sign, term in re.findall(r'([+-]?)\s*([^+-]+)', inside):
            term = term.strip()
            if '*' in term:
                x, y = [u.strip() for u in term.split('*')]
                if x not in REG:
                    x, y = y, x
                if x not in REG or REG[x][0] not in ('r16', 'r32') or sign == '-':
                    raise ProjectionError('bad scaled term %r' % term)
                s = num(y)
                w = 16 if REG[x][0] == 'r16' else 32
                if s == 1 and b == -1 and False:
                    pass
                if i != -1:
                    if b == -1 and sc == 1:
                        b, i, sc = i, REG[x][1], s
                    else:
                        raise ProjectionError('two index terms in %r' % inside)
                else:
                    i, sc = REG[x][1], s
                aw = w if aw in (None, w) else -1
            elif term in REG:
                c, n = REG[term]
                if c not in ('r16', 'r32') or sign == '-':
                    raise ProjectionError('bad address register %r' % term)
                w = 16 if c == 'r16' else 32
                aw = w if aw in (None, w) else -1
                if b == -1:
                    b = n
                elif i == -1:
                    i = n
                else:
                    raise ProjectionError('three registers in %r' % inside)
            elif NUM.match(term):
                v = num(term)
                d += -v if sign == '-' else v
            else:
                raise ProjectionError('bad address term %r' % term)
    if aw == -1:
        raise ProjectionError('mixed register widths in %r' % t)
    if sc not in (1, 2, 4, 8):
        raise ProjectionError('bad scale in %r' % t)
    if aw is None:
        aw = aw_default
    return {'k': 'mem', 'sz': sz, 'seg': seg, 'b': b, 'i': i, 'sc': sc, 'd': limbs64(d), 'aw': aw}


def parse_operand(t, mn, slot, nslots, aw_default):
    tl = t.strip().lower()
    if tl in REG:
        c, n = REG[tl]
        return {'k': 'reg', 'c': c, 'n': n}
    if '[' in tl or re.search(r'\bptr\b', tl) or re.match(r'^(es|cs|ss|ds|fs|gs)\s*:', tl) \
            or (tl.split(' ')[0] in SIZES and len(tl.split()) > 1):
        return parse_mem(tl, aw_default)
    if NUM.match(tl):
        v = num(tl)
        if M_ONLY.get(mn) == slot:
            return {'k': 'mem', 'sz': 0, 'seg': '', 'b': -1, 'i': -1, 'sc': 1, 'd': limbs64(v), 'aw': aw_default}
        if REL_MN.match(mn) and nslots == 1:
            return {'k': 'rel', 'sz': 0, 'd': limbs64(v)}
        return {'k': 'imm', 'sz': 0, 'v': limbs64(v)}
    m = re.match(r'^(0x[0-9a-f]+|[0-9]+)\s*:\s*(0x[0-9a-f]+|[0-9]+)$', tl)
    if m:
        return {'k': 'far', 'seg': limbs64(num(m.group(1))), 'off': limbs64(num(m.group(2)))}
    raise ProjectionError('unrecognised operand %r' % t)


def parse_text(text, prefix=()):
    """Intel rendering -> (prefix words, mnemonic, operands)"""
    s = text.strip()
    s = s.replace(';', ' ')           # 'rep; ret'
    words = s.split(None)
    pre = []
    while words and (words[0].lower() in PREFIX_WORDS or re.match(r'^\[0x[0-9a-fA-F]{2}\]$', words[0])):
        w = words.pop(0).lower()
        pre.append(PREFIX_WORDS.get(w, 'byte'))          # '[0xf2]': a prefix byte miasmX shows raw
    if not words:
        raise ProjectionError('no mnemonic in %r' % text)
    mn = words[0].lower()
    rest = s.split(None, len(pre) + 1)
    rest = rest[len(pre) + 1] if len(rest) > len(pre) + 1 else ''
    aw_default = 16 if 0x67 in prefix else 32
    parts = split_operands(rest)
    ops = [parse_operand(t, mn, k, len(parts), aw_default) for k, t in enumerate(parts)]
    # far direct forms rendered as two immediates 'jmpf off, seg'
    if mn in FAR_MN and len(ops) == 2 and ops[0]['k'] == 'imm' and ops[1]['k'] == 'imm':
        ops = [{'k': 'far', 'seg': ops[1]['v'], 'off': ops[0]['v']}]
    return sorted(set(pre)), mn, ops


def instr_to_abs(ins, text=None):
    """miasmX instruction -> abstract record (raises ProjectionError when the rendering cannot be read)"""
    if text is None:
        text = str(ins)
    prefix = list(getattr(ins, 'prefix', []) or [])
    pre, mn, ops = parse_text(text, prefix)
    return {'ok': True, 'len': int(ins.l), 'raw': [int(x) for x in bytearray(ins.b)], 'mn': mn, 'pre': pre,
            'ops': ops, 'pfx': [int(p) for p in prefix], 'text': text}
