------------------------------- MODULE T_C05 -------------------------------
(* C->S judge for C05: the simplified expression has the same width and the  *)
(* same value as the original under every supplied valuation; simplification *)
(* terminated.  Record: [id, e, st ("ok"|"timeout"|"exc"), r, envs, grid]    *)
(*  envs: explicit valuations; grid (optional axes): for trees over the two  *)
(*  8-bit identifiers x8,y8 all pairs of grid values are valuations.         *)
EXTENDS IR, Json, IOUtils
Recs == JsonDeserialize(IOEnv.TRACE)
GridEnv(xv, yv) == [id |-> [x8 |-> <<xv>>, y8 |-> <<yv>>], seed |-> 0, over |-> <<>>]
Differs(e, r, env) == Eval(e, env) # Eval(r, env)
Verdict(rec) ==
   IF rec.st # "ok" THEN <<[clause |-> "C05.terminates", st |-> rec.st]>>
   ELSE IF rec.r = rec.e THEN <<>>
   ELSE IF ~WellTyped(rec.e) THEN <<[clause |-> "input.illtyped"]>>
   ELSE IF ~WellTyped(rec.r) THEN <<[clause |-> "C05.welltyped"]>>
   ELSE IF Width(rec.r) # Width(rec.e) \/ rec.r.w # Width(rec.e) THEN <<[clause |-> "C05.width", we |-> Width(rec.e), wr |-> Width(rec.r), wr_impl |-> rec.r.w]>>
   ELSE LET badE == {j \in 1..Len(rec.envs) : Differs(rec.e, rec.r, rec.envs[j])}
            badG == IF rec.grid = <<>> THEN {}
                    ELSE {p \in {<<rec.grid[a], rec.grid[b]>> : a \in 1..Len(rec.grid), b \in 1..Len(rec.grid)} :
                             Differs(rec.e, rec.r, GridEnv(p[1], p[2]))}
        IN IF badE # {} THEN
              LET j == CHOOSE j \in badE : \A k \in badE : j <= k IN
              <<[clause |-> "C05.value", env |-> rec.envs[j], ve |-> Eval(rec.e, rec.envs[j]), vr |-> Eval(rec.r, rec.envs[j]), nbad |-> Cardinality(badE) + Cardinality(badG)]>>
           ELSE IF badG # {} THEN
              LET p == CHOOSE p \in badG : TRUE IN
              <<[clause |-> "C05.value", env |-> GridEnv(p[1], p[2]), ve |-> Eval(rec.e, GridEnv(p[1], p[2])), vr |-> Eval(rec.r, GridEnv(p[1], p[2])), nbad |-> Cardinality(badG)]>>
           ELSE <<>>
VARIABLE i
Init == i = 0
Next == \/ /\ i < Len(Recs) /\ i' = i + 1
           /\ LET v == Verdict(Recs[i']) IN
              IF v = <<>> THEN TRUE ELSE PrintT("VERDICT " \o ToJson([id |-> Recs[i'].id, v |-> v]))
        \/ /\ i = Len(Recs) /\ i' = i + 1 /\ PrintT("CONSUMED " \o ToString(Len(Recs)))
=============================================================================
