------------------------------ MODULE X86Space ------------------------------
(* Generator specification of the C04 / C08 input space: the reachable       *)
(* states are the instruction instances of X86SpaceLib (with their GNU as    *)
(* text); TLC -dump writes them.  The invariant checks that every instance   *)
(* is well-formed, renders, and steps (X86Sem!Step) from generated states.   *)
EXTENDS X86SpaceLib
\* ---- the generator as a specification ----------------------------------------------------------
VARIABLES inst, txt
Init == inst \in Instances /\ txt = Text(inst)
Next == UNCHANGED <<inst, txt>>
OperandOK(o) == /\ o.k \in {"reg", "imm", "mem"}
                /\ (o.k = "reg" => o.c \in {"r8", "r16", "r32"} /\ o.n \in 0..7)
                /\ (o.k = "mem" => o.b \in -1..7 /\ o.i \in -1..7 /\ o.i # 4 /\ o.sc \in {1, 2, 4, 8} /\ IsBV(o.d, 32))
StateOK(s) == /\ \A r \in 1..8 : IsBV(s.reg[r], 32)
              /\ \A f \in {s.fl.cf, s.fl.pf, s.fl.af, s.fl.zf, s.fl.sf, s.fl.df, s.fl.of} : f \in {0, 1}
GenOK == /\ inst.mn \in Core
         /\ \A j \in 1..Len(inst.ops) : OperandOK(inst.ops[j])
         /\ txt # ""
         /\ \A k \in 1..3 : StateOK(GenState(inst, 7, k)) /\ Step(inst, [GenState(inst, 7, k) EXCEPT !.eip = EipOf(k)]).fault \in {"", "DE"}
=============================================================================
