#!/venv/bin/python
"""Builder's aid (never used at run time): turn the replay files of a finished run of one of the assembler-side checks into
candidate entries for findings.d/<file>.json, for review.  usage: asm_findings.py C19 [out-file]"""
import sys, json, glob, re, os

WHAT = {
 'C19': lambda c, d: 'spelling action %s on operand shape %s: %s (%s)' % (c['act'], c['shape'] or '-', {'reject': 'the equivalent spelling is rejected', 'internal': 'the equivalent spelling raises ' + str((d.get('exception') or {}).get('exc')), 'differs': 'another candidate set', 'empty': 'no candidates'}.get(c['how'], c['how']), c.get('site') or 'set comparison'),
 'C02': lambda c, d: {'C02.invalid_line_accepted': 'a line that cannot be an instruction of its mnemonic family (%s) is accepted and encoded as something else' % c.get('why'),
                     'C02.seg': 'a candidate for memory form %s uses the register as SIB index (default segment DS instead of SS)' % c.get('mem'),
                     'C02.imm': '%s syntax: immediate %s is silently truncated / sign-changed into a %s-bit field' % (c.get('syn'), c.get('value'), c.get('field')),
                     'C02.reg': 'a candidate for operands (%s) encodes other registers' % c.get('shape')}.get(c['clause'], '%s: candidate %s of %r does not encode the requested instruction (decoded as %s)' % (c['clause'], d.get('failing_candidate'), d.get('text'), d.get('decoded_as'))),
 'C03': lambda c, d: 'direction %d, %s: %s of %s (rendering %r) -> %s' % (c['dir'], c['clause'], c['mn'], d['bytes'], d['rendering'], c['how'] + ((' in ' + c['site']) if c.get('site') else '')),
 'C09': lambda c, d: '%s (%s): %s | %s' % (c['clause'], c['why'] + ((' in ' + c['site']) if c.get('site') else ''), ' '.join(d['intel'].split()), ' '.join(d['att'].split())),
 'C10': lambda c, d: 'asm%s(%r) raises %s in %s: %s' % ('_att' if d['syntax'] == 'att' else '', d['text'], c['exc'], c['func'], c['line']),
}


def slug(key):
    s = '-'.join(str(v) for k, v in sorted(key.items()) if k != 'clause' and v != '')
    s = re.sub(r'[^a-z0-9]+', '-', (key['clause'].split('.', 1)[-1] + '-' + s).lower()).strip('-')
    return s[:70]


def main():
    pid = sys.argv[1]
    out = []
    seen = set()
    for f in sorted(glob.glob('/verif/replays/%s/*.json' % pid)):
        r = json.load(open(f))
        c, d = r['class'], r['detail']
        fid = 'F-%s-%s' % (pid, slug(c))
        while fid in seen:
            fid += 'x'
        seen.add(fid)
        ex = {k: v for k, v in d.items() if k in ('canonical', 'spelling', 'text', 'syntax', 'failing_candidate', 'candidates', 'bytes', 'rendering',
                                                   'reassembled', 'intel', 'att', 'gas_intel', 'gas_att', 'exception', 'decoded_as', 'line') and not isinstance(v, dict) or k == 'exception'}
        if 'candidates' in ex:
            ex['candidates'] = ex['candidates'][:4]
        out.append({'id': fid, 'status': 'known', 'properties': [pid], 'key': c, 'what': WHAT[pid](c, d)[:300], 'example': ex, 'count_when_listed': r['count']})
    json.dump(out, open(sys.argv[2], 'w') if len(sys.argv) > 2 else sys.stdout, indent=1, sort_keys=True)
    print('%d entries' % len(out), file=sys.stderr)


if __name__ == '__main__':
    main()
