------------------------------ MODULE X86SemSelf ------------------------------
(* Spec-internal obligation of X86Sem: the limb-wise long division used by    *)
(* div / idiv equals the bit-serial reference division of BV (itself checked  *)
(* against native integers by BVSelf), on boundary and pseudo-random operands *)
(* of 16, 32 and 64 bits, unsigned and signed.                                *)
EXTENDS X86SpaceLib
Pool(W) == {Norm(Boundary[j] \o Boundary[m], W) : j \in {1, 2, 5, 9, 14}, m \in {1, 13}}
           \cup {Norm(Word(j, 3) \o Word(j, 4), W) : j \in 1..3}
           \cup {Norm(Word(j, 5) \o <<0, 0, 0, 0>>, W) : j \in 1..2} \cup {Norm(<<Rnd(j, 1, 1) % 256, 0, 0, 0, 0, 0, 0, 0>>, W) : j \in 1..2}
VARIABLES w, a, b
Init == w \in {16, 32, 64} /\ a \in Pool(w) /\ b \in Pool(w) /\ ~IsZero(b)
Next == UNCHANGED <<w, a, b>>
DivOK == /\ FastUDivRem(a, b, w) = UDivRem(a, b, w)
         /\ FastSDivRem(a, b, w) = SDivRem(a, b, w)
=============================================================================
