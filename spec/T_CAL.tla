------------------------------- MODULE T_CAL -------------------------------
(* Calibration judge (objdump as the observed side; NOT a verdict).  Same record format as T_C01.  Record: [id, b (input bytes), ok, len, raw, mn, pre, ops] = what miasmX reported  *)
(* for input b (ok = FALSE: no instruction / exception; then only b matters).  Only strings that both     *)
(* sides accept as one instruction without superfluous prefixes are compared; the others are counted.     *)
EXTENDS IA32Judge, Json, IOUtils
Recs == JsonDeserialize(IOEnv.TRACE)
VARIABLES i, cnt
Init == i = 0 /\ cnt = [cmp |-> 0, specrej |-> 0, superfluous |-> 0, implrej |-> 0]
Next == \/ /\ i < Len(Recs) /\ i' = i + 1
           /\ LET r == Recs[i']  d == TLCEval(Decode(r.b, 32))  c == Class(r, d) IN
              /\ cnt' = [cnt EXCEPT ![c] = @ + 1]
              /\ IF c = "cmp" THEN
                    LET v == Clauses(r, d) IN
                    IF v = <<>> THEN TRUE ELSE PrintT("VERDICT " \o ToJson([id |-> r.id, v |-> v, spec |-> d]))
                 ELSE IF c = "implrej" THEN PrintT("ONLY " \o ToJson([id |-> r.id, who |-> "spec", mn |-> d.mn, why |-> ""]))
                 ELSE IF c = "specrej" /\ r.ok THEN PrintT("ONLY " \o ToJson([id |-> r.id, who |-> "objdump", mn |-> r.mn, why |-> d.why]))
                 ELSE TRUE
        \/ /\ i = Len(Recs) /\ i' = i + 1 /\ cnt' = cnt
           /\ PrintT("STATS " \o ToJson(cnt))
           /\ PrintT("CONSUMED " \o ToString(Len(Recs)))
=============================================================================
