----------------------------- MODULE X87PosSelf -----------------------------
(* Spec-internal obligations of the stack-relative x87 model (setup.sh).     *)
(* One state per triple (d, x, n): destination position, source position,    *)
(* number of pops.  Checked in every state:                                  *)
(*  ArithAt   after  ST(d) := ST(d) op ST(x)  and n pops the computed value   *)
(*            sits at position d - n (if it is still on the stack) and        *)
(*            depends on exactly the two operand positions; every other       *)
(*            position k holds the initial value of position k + n;           *)
(*  StoreAt   after  ST(d) := ST(0)  and n pops position d - n holds the       *)
(*            initial value of ST(0);                                         *)
(*  SetsOK    Reads / Writes of both forms name positions and "x87" only,     *)
(*            every position whose value moved is written, and a form with    *)
(*            pops reads and writes TOP ("x87") - but not necessarily every    *)
(*            position: after fstp st(1) position 0 holds what it held;        *)
(* plus the constant-level obligations of X87Pos (pop/push, exchange ...).    *)
EXTENDS X87Pos
VARIABLE z
Init == z \in Pos \X Pos \X (0..2)
Next == UNCHANGED z
Items == {StName(i) : i \in Pos} \cup {"x87"}
ArithAt == LET d == z[1] x == z[2] n == z[3] s == Arith(d, x, n) IN
   /\ d >= n => s.st[d - n].src = -1 /\ s.st[d - n].deps = {StName(d), StName(x)}
   /\ \A k \in Pos : k # d - n => s.st[k] = (IF k + n <= 7 THEN Keep(k + n) ELSE New({}))
StoreAt == LET d == z[1] n == z[3] s == Store(d, n) IN
   /\ d >= n => s.st[d - n] = Keep(0)
   /\ \A k \in Pos : k # d - n => s.st[k] = (IF k + n <= 7 THEN Keep(k + n) ELSE New({}))
SetsOK == LET d == z[1] x == z[2] n == z[3] IN
   \A s \in {Arith(d, x, n), Store(d, n), Cmp(x, {"zf"}, n)} :
      /\ Reads(s) \subseteq Items /\ Writes(s) \subseteq Items \cup {"zf"}
      /\ \A k \in Pos : s.st[k] # Keep(k) => StName(k) \in Writes(s)
      /\ n > 0 => "x87" \in Reads(s) /\ "x87" \in Writes(s)
ConstOK == PopPushOK /\ PopsOK /\ XchOK /\ ArithOK /\ ArithPopOK
=============================================================================
