---------------------------- MODULE ModIntSpace ----------------------------
(* Generator (S->C) for C14: the reachable states are the cases.            *)
(*  mode "bnd": every operator x every pair of boundary operands at every   *)
(*              width / signedness / plain-int combination;                 *)
(*  mode "ex8": every operator x (8-bit type pair) x left operand value;    *)
(*              the driver sweeps the right operand over all 256 values.    *)
EXTENDS ModInt, FiniteSets
CONSTANT Mode
VARIABLES stage, op, a, b
vars == <<stage, op, a, b>>
FixedTypes == {<<0,1>>, <<0,8>>, <<0,16>>, <<0,32>>, <<0,64>>, <<0,128>>,
               <<1,8>>, <<1,16>>, <<1,32>>, <<1,64>>, <<1,128>>}
Patterns(n) == IF n = 1 THEN {Zero(1), FromNat(1, 1)}
               ELSE {Zero(n), FromNat(1, n), Ones(n), ShlN(FromNat(1, n), n - 1, n),
                     Sub(ShlN(FromNat(1, n), n - 1, n), FromNat(1, n), n),
                     FromNat(2, n), FromNat(7 % (2^(IF n > 8 THEN 8 ELSE n)), n)}
FixedOperands == UNION {{[s |-> t[1], n |-> t[2], v |-> p] : p \in Patterns(t[2])} : t \in FixedTypes}
IW == 136
IntVals == {Zero(IW), FromNat(1, IW), Ones(IW), FromNat(2, IW), FromNat(7, IW), FromNat(8, IW), FromNat(9, IW),
            FromNat(31, IW), FromNat(32, IW), FromNat(33, IW), FromNat(63, IW), FromNat(64, IW), FromNat(65, IW),
            FromNat(255, IW), FromNat(256, IW), FromNat(65535, IW), Neg(FromNat(2, IW), IW), Neg(FromNat(128, IW), IW), Neg(FromNat(129, IW), IW)}
           \cup UNION {{ShlN(FromNat(1, IW), k - 1, IW), Sub(ShlN(FromNat(1, IW), k - 1, IW), FromNat(1, IW), IW),
                        ShlN(FromNat(1, IW), k, IW), Sub(ShlN(FromNat(1, IW), k, IW), FromNat(1, IW), IW),
                        Neg(ShlN(FromNat(1, IW), k - 1, IW), IW),
                        Sub(Neg(ShlN(FromNat(1, IW), k - 1, IW), IW), FromNat(1, IW), IW)} : k \in {8, 16, 32, 64, 128}}
IntOperands == {[s |-> 2, n |-> IW, v |-> p] : p \in IntVals}
Ex8Types == {<<0,8>>, <<1,8>>}
None == [s |-> 9, n |-> 0, v |-> <<>>]
Init == /\ stage = 0 /\ op = "" /\ b = None
        /\ a \in (IF Mode = "bnd" THEN FixedOperands \cup IntOperands
                  ELSE {[s |-> t[1], n |-> 8, v |-> FromNat(x, 8)] : t \in Ex8Types, x \in 0..255})
PickBnd == /\ Mode = "bnd" /\ stage = 0 /\ stage' = 1 /\ UNCHANGED a
           /\ \/ (op' \in BinOps \cup {"hash"} /\ b' \in (IF IsFixed(a) THEN FixedOperands \cup IntOperands ELSE FixedOperands))
              \/ (IsFixed(a) /\ op' \in UnOps /\ b' = None)
PickEx8 == /\ Mode = "ex8" /\ stage = 0 /\ stage' = 1 /\ UNCHANGED a
           /\ \/ (op' \in BinOps \cup {"hash"} /\ b' \in {[s |-> t[1], n |-> 8, v |-> <<>>] : t \in Ex8Types} \cup {[s |-> 2, n |-> 16, v |-> <<>>]})
              \/ (a.s = 0 /\ op' \in BinOps /\ b' = [s |-> 3, n |-> 16, v |-> <<>>])  \* reflected: plain int (swept) on the left
              \/ (op' \in UnOps /\ b' = None)
Next == PickBnd \/ PickEx8
Spec == Init /\ [][Next]_vars
TypeOK == stage \in {0, 1} /\ (stage = 1 => op # "")
=============================================================================
