"""C07 - the symbolic machine state equals sequential concrete execution, incl. overlapping memory.
S->C: SymMem.tla (TLC) enumerates store/load histories, Prog.tla (TLC -simulate) generates straight-line programs;
miasmX replays them (eval_abs.eval_instr / eval_expr, emul_helper.emul_lines); C->S: T_C07.tla evaluates every
read-back tree, register expression and the projected pool with IR.Eval under valuations and compares with the concrete
SymMem memory / the Machine.tla fold of the SAME lifted assignments.  SymPool.tla is the implementation-shaped model of
the pool on which TLC checks the property itself (and whose as-coded variant yields the design-level counterexample)."""
import os, sys, json, random, hashlib, subprocess, collections, re, tempfile, shutil, time, signal
from . import core, irlib, expr_json as EJ
from .core import limbs

CONST_BASE = 0x1000
NENV = 8
GPR_INIT = ['init_eax', 'init_ebx', 'init_ecx', 'init_edx', 'init_esi', 'init_edi', 'init_esp', 'init_ebp']
SEGS = ('es', 'cs', 'ss', 'ds', 'fs', 'gs')
PATH_RANK = ['overlap_starts_inside_cell', 'overlap_several_cells', 'overlap_one_cell', 'bigger', 'part', 'exact', 'fresh']


def const_val(k, w):
    """the constant of store k: byte i (1 = least significant) is 16*k + i  (T_C07!ConstByte)"""
    return sum((16 * k + i) << (8 * (i - 1)) for i in range(1, w // 8 + 1))


# ---------------------------------------------------------------------------------------------
# generators (TLC)
def _spec_hash(mods, extra=''):
    h = hashlib.sha1()
    for f in mods:
        h.update(open(os.path.join(core.SPEC, f), 'rb').read())
    h.update(extra.encode())
    return h.hexdigest()[:16]


def _cache(name, build):
    cdir = os.path.join(core.VERIF, '.cache')
    os.makedirs(cdir, exist_ok=True)
    cf = os.path.join(cdir, name + '.json')
    if os.path.exists(cf):
        return json.load(open(cf))
    d = build()
    tmp = cf + '.%d' % os.getpid()
    json.dump(d, open(tmp, 'w'))
    os.rename(tmp, cf)
    return d


def symmem_cfg(maxst, maxld, offs, bases, vks, loadlast, extra='', ws=(8, 16, 32)):
    def sset(xs):
        return '{' + ','.join('"%s"' % x for x in xs) + '}'
    return ('CONSTANTS\n MaxStores = %d\n MaxLoads = %d\n Offs = {%s}\n Ws = {%s}\n Bases = %s\n ValKinds = %s\n LoadLast = %s\n%s'
            % (maxst, maxld, ','.join(str(o) for o in offs), ','.join(str(w) for w in ws), sset(bases), sset(vks),
               'TRUE' if loadlast else 'FALSE', extra))


def gen_hists(maxst, offs, base, chk, ws=(8, 16, 32), vks=('c', 's')):
    """exhaustive: every history of <= maxst stores followed by one load (reachable states of SymMem.tla)"""
    cfg = symmem_cfg(maxst, 1, offs, [base], list(vks), True, ws=ws) + 'INIT Init\nNEXT Next\nINVARIANTS TypeOK ReplayOK\nCHECK_DEADLOCK FALSE\n'

    def build():
        dump = os.path.join(core.scratch(), 'symmem.dump')
        r = core.run_tlc('SymMem', cfg_text=cfg, extra=['-dump', dump], timeout=1500, heap='8g')
        if not r.ok:
            raise core.MachineryError('SymMem generator failed:\n' + r.out[-2000:])
        hs = [h for h in _dump_var(dump, 'hist') if h and h[-1]['op'] == 'ld']
        os.unlink(dump)
        return {'hists': hs, 'states': r.distinct, 'transitions': r.generated}
    d = _cache('c07_hist_' + _spec_hash(['BV.tla', 'SymMem.tla'], cfg), build)
    chk.add_tlc({'states': d['states'], 'transitions': d['transitions']})
    return d['hists']


def _dump_var(path, var):
    """values of one variable in every state of a TLC -dump file (core.read_dump parses all variables; mem has tuple keys)"""
    txt = open(path).read()
    for m in re.finditer(r'^(?:/\\ )?%s = ' % var, txt, flags=re.M):
        p = core._P(txt)
        p.i = m.end()
        yield p.value()


def _last_hist(path):
    txt = open(path).read()
    i = txt.rfind('/\\ hist = ')
    if i < 0:
        return None
    p = core._P(txt)
    p.i = i + len('/\\ hist = ')
    return p.value()


def sim_hists(n, seed, bases, maxst, maxld, chk, ws=(8, 16, 32), offs=range(8)):
    """-simulate beyond the exhaustive bound: up to maxst stores with interleaved loads"""
    cfg = symmem_cfg(maxst, maxld, offs, bases, ['c', 's'], False, ws=ws) + 'INIT Init\nNEXT Next\nCHECK_DEADLOCK FALSE\n'

    def build():
        d = tempfile.mkdtemp(prefix='simh_', dir=core.scratch())
        r = core.run_tlc('SymMem', cfg_text=cfg, workers=1, timeout=900,
                         extra=['-simulate', 'num=%d,file=%s/tr' % (n, d), '-depth', str(maxst + maxld + 1), '-seed', str(seed + 1)])
        if 'Error' in r.out or r.rc != 0:
            raise core.MachineryError('SymMem simulation failed:\n' + r.out[-2000:])
        hs = []
        for f in sorted(os.listdir(d), key=lambda x: [int(t) for t in re.findall(r'\d+', x)]):
            h = _last_hist(os.path.join(d, f))
            if h and any(a['op'] == 'ld' for a in h):
                while h[-1]['op'] != 'ld':
                    h = h[:-1]
                hs.append(h)
        shutil.rmtree(d, ignore_errors=True)
        m = re.search(r'The number of states generated: (\d+)', r.out)
        return {'hists': hs, 'states': int(m.group(1)) if m else 0}
    d = _cache('c07_simh_%s_%d_%d' % (_spec_hash(['BV.tla', 'SymMem.tla'], cfg), n, seed), build)
    chk.add_tlc({'states': d['states'], 'transitions': d['states']})
    return d['hists']


def sim_progs(n, maxlen, seed, chk):
    """programs = final states of Prog.tla random behaviours (emitted as JSON lines by the Emit action)"""
    cfg = 'CONSTANTS\n MaxLen = %d\nINIT Init\nNEXT Next\nINVARIANT GenOK\nCHECK_DEADLOCK FALSE\n' % maxlen

    def build():
        k = max(1, min(core.NCPU, n // 40))
        per = (n + k - 1) // k
        d = tempfile.mkdtemp(prefix='simp_', dir=core.scratch())
        cf = os.path.join(d, 'Prog.cfg')
        open(cf, 'w').write(cfg)
        e = dict(os.environ)
        e.pop('JAVA_TOOL_OPTIONS', None)
        procs = []
        for j in range(k):
            of = open(os.path.join(d, 'out%d' % j), 'w')
            cmd = core.tlc_cmd(os.path.join(core.SPEC, 'Prog.tla'), cf, 1, os.path.join(d, 'md%d' % j),
                               ['-simulate', 'num=%d' % per, '-depth', str(3 * maxlen + 8), '-seed', str(seed * 1000 + j + 1)], '2g')
            procs.append((subprocess.Popen(cmd, cwd=core.SPEC, env=e, stdout=of, stderr=subprocess.STDOUT), of, j))
        progs, states = [], 0
        for p, of, j in procs:
            try:
                p.wait(timeout=1500)
            except subprocess.TimeoutExpired:
                for q, _, _ in procs:
                    q.kill()
                raise core.MachineryError('Prog simulation timeout')
            of.close()
            out = open(os.path.join(d, 'out%d' % j)).read()
            if 'Error' in out or p.returncode != 0:
                raise core.MachineryError('Prog simulation failed:\n' + out[-2000:])
            for l in out.splitlines():
                if l.startswith('"PROG '):
                    progs.append(json.loads(json.loads(l)[5:]))
            m = re.search(r'The number of states generated: (\d+)', out)
            states += int(m.group(1)) if m else 0
        shutil.rmtree(d, ignore_errors=True)
        return {'progs': progs[:n], 'states': states}
    d = _cache('c07_prog_%s_%d_%d_%d' % (_spec_hash(['Prog.tla'], cfg), n, maxlen, seed), build)
    chk.add_tlc({'states': d['states'], 'transitions': d['states']})
    return d['progs']


def rep_progs(chk):
    """every program of ProgRep.tla (exhaustive: repe/repne cmps/scas on concrete data with every position of the terminating
    element, copied rep counts; after cld and after std) - one TLC transition per program"""
    def build():
        r = core.run_tlc('ProgRep', workers=1, timeout=600)
        if not r.ok:
            raise core.MachineryError('ProgRep failed:\n' + r.out[-2000:])
        progs = [json.loads(json.loads(l)[5:]) for l in r.out.splitlines() if l.startswith('"PROG ')]
        if not progs:
            raise core.MachineryError('ProgRep printed no program')
        return {'progs': progs, 'states': r.distinct}
    d = _cache('c07_progrep_%s' % _spec_hash(['Prog.tla', 'ProgRep.tla', 'ProgRep.cfg']), build)
    chk.add_tlc({'states': d['states'], 'transitions': d['states']})
    return d['progs']


# ---------------------------------------------------------------------------------------------
# program text and bytes (GNU as: independent of the assembler under test)
def _opnd(o, immw=32):
    if o['k'] == 'r':
        return o['n']
    if o['k'] == 'i':
        return '0x%x' % (o['v'] & ((1 << immw) - 1))
    if o['k'] == 'm':
        pw = {8: 'byte', 16: 'word', 32: 'dword'}[o['w']]
        if o['n'] == 'abs':
            return '%s ptr [0x%x]' % (pw, CONST_BASE + o['v'])
        return '%s ptr [%s%s]' % (pw, o['n'], '' if o['v'] == 0 else '%+d' % o['v'])
    return None


def ins_text(ins):
    a, b = ins['a'], ins['b']
    if ins['mn'] == 'lea':
        return 'lea %s, [%s%s]' % (a['n'], b['n'], '' if b['v'] == 0 else '%+d' % b['v'])
    immw = a['w'] if a['k'] in 'rm' else 32
    ops = [x for x in (_opnd(a), _opnd(b, immw)) if x is not None]
    return ins['mn'] + (' ' + ', '.join(ops) if ops else '')


def rep_kind(txt):
    t = txt.split()
    return t[0] if t[0] in ('rep', 'repe', 'repne') else ''


def assemble(texts):
    """{text: hex} through one GNU as run (cached: does not depend on /repo)"""
    texts = sorted(set(texts))
    key = hashlib.sha1('\n'.join(texts).encode()).hexdigest()[:16]

    def build():
        d = tempfile.mkdtemp(prefix='as_', dir=core.scratch())
        with open(os.path.join(d, 'a.s'), 'w') as f:
            f.write('.intel_syntax noprefix\n.text\n')
            for i, t in enumerate(texts):
                f.write('I%d: %s\n' % (i, t))
            f.write('I%d:\n' % len(texts))
        try:
            subprocess.run(['as', '--32', '-o', 'a.o', 'a.s'], cwd=d, check=True, stdout=subprocess.PIPE, stderr=subprocess.PIPE, timeout=300)
            subprocess.run(['objcopy', '-O', 'binary', '-j', '.text', 'a.o', 'a.bin'], cwd=d, check=True, timeout=300)
            nm = subprocess.run(['nm', 'a.o'], cwd=d, check=True, stdout=subprocess.PIPE, universal_newlines=True, timeout=300).stdout
        except (subprocess.CalledProcessError, subprocess.TimeoutExpired, OSError) as x:
            raise core.MachineryError('GNU as failed: %s %s' % (x, getattr(x, 'stderr', b'')[-500:]))
        off = {}
        for l in nm.splitlines():
            m = re.match(r'([0-9a-f]+) \w I(\d+)$', l)
            if m:
                off[int(m.group(2))] = int(m.group(1), 16)
        data = open(os.path.join(d, 'a.bin'), 'rb').read()
        shutil.rmtree(d, ignore_errors=True)
        return {t: data[off[i]:off[i + 1]].hex() for i, t in enumerate(texts)}
    return _cache('c07_asm_' + key, build)


# ---------------------------------------------------------------------------------------------
# workers (run inside forked processes; miasmX is imported from VERIF_REPO)
def _fresh(e, X):
    """structural deep copy: no object (and no memo flag) is shared with the machine's pool"""
    if isinstance(e, X.ExprInt):
        return X.ExprInt(e.arg)
    if isinstance(e, X.ExprId):
        return X.ExprId(e.name, e.size, e.is_term, e.is_reg)
    if isinstance(e, X.ExprMem):
        m = X.ExprMem(_fresh(e.arg, X), e.size, _fresh(e.segm, X) if isinstance(e.segm, X.Expr) else e.segm)
        if e.is_term:
            m.is_term = True        # not a memo flag: the machine's way of saying "the INITIAL content of this location"
        return m
    if isinstance(e, X.ExprOp):
        return X.ExprOp(e.op, *[_fresh(a, X) for a in e.args])
    if isinstance(e, X.ExprCond):
        return X.ExprCond(_fresh(e.cond, X), _fresh(e.src1, X), _fresh(e.src2, X))
    if isinstance(e, X.ExprSlice):
        return X.ExprSlice(_fresh(e.arg, X), e.start, e.stop)
    if isinstance(e, X.ExprCompose):
        return X.ExprCompose([(_fresh(a[0], X), a[1], a[2]) for a in e.args])
    raise ValueError('cannot copy %r' % (e,))


def _cells(m, X, values=True):
    out = []
    for k, (mm, v) in m.pool.pool_mem.items():
        c = {'a': EJ.to_json(mm.arg, X), 'w': EJ.size_of(mm)}
        if values:
            c['v'] = EJ.to_json(v, X)
        out.append(c)
    out.sort(key=lambda c: json.dumps(c, sort_keys=True))
    return out


_LOG = None


def _quiet_log():
    global _LOG
    if _LOG is None:
        import logging
        _LOG = logging.getLogger('verif_c07')
        _LOG.addHandler(logging.NullHandler())
        _LOG.propagate = False
    return _LOG


def _hist_inner(arg):
    acts, progress = arg
    from miasmx.expression import expression as X
    from miasmx.expression.expression_eval_abstract import eval_abs
    from miasmx.tools import modint as M
    U = {8: M.uint8, 16: M.uint16, 32: M.uint32, 64: M.uint64, 128: M.uint128}
    m = eval_abs({}, log=_quiet_log())
    obs = []
    for a in acts:
        progress[0] += 1
        base = X.ExprId('B', 32) if a['b'] == 's' else X.ExprInt(M.uint32(CONST_BASE))
        addr = X.ExprOp('+', base, X.ExprInt(M.uint32(a['off'])))
        w = a['w']
        if a['op'] == 'st':
            val = X.ExprInt(U[w](const_val(a['k'], w))) if a['vk'] == 'c' else X.ExprId('v%d' % a['k'], w)
            m.eval_instr([X.ExprAff(X.ExprMem(addr, w), val)])
            obs.append({'k': 'none'})
        else:
            obs.append(EJ.to_json(m.eval_expr(X.ExprMem(addr, w), {}), X))
    return {'st': 'ok', 'obs': obs, 'cells': _cells(m, X)}


def _run_hist(acts, limit=10):
    """replay one SymMem history on a fresh eval_abs; every expression handed in is built from fresh objects.
    st = ok | exc (exception, at action excj) | timeout (no answer within the limit, at action excj)"""
    progress = [0]
    st, r = irlib.guarded(_hist_inner, (acts, progress), limit)
    if st == 'ok':
        return r
    return {'st': st, 'obs': [], 'cells': [], 'excj': max(1, progress[0]),
            'exc': r if st == 'exc' else {'exc': 'Timeout', 'func': '', 'line': 'no result within the time limit'}}


_PARTIAL = {}


def _prog_inner(item):
    """emulate one program with emul_lines; the lifted assignments are captured at the call emul_lines itself makes"""
    from miasmx.expression import expression as X
    from miasmx.arch.ia32_arch import x86mnemo
    from miasmx.tools import emul_helper
    from miasmx.tools import modint as M
    lines, nrb, seed, rblimit = item['lines'], item['nrb'], item['seed'], item.get('rblimit', 5)
    cap, snaps = [], []
    try:
        instrs = [x86mnemo.dis(bytes.fromhex(l['hex'])) for l in lines]
        if any(i is None for i in instrs):
            return {'st': 'nodis'}
        m = emul_helper.x86_machine()
        pool0 = sorted(({'n': str(k.name), 'w': EJ.size_of(k), 'e': EJ.to_json(v, X)} for k, v in m.pool.pool_id.items()), key=lambda r: r['n'])
        orig = emul_helper.get_instr_expr

        def wrap(l, my_eip, args=None, segm_to_do=set()):
            e = orig(l, my_eip, args, segm_to_do)
            cap.append([EJ.to_json(x, X) for x in e])
            snaps.append(_cells(m, X, values=False))
            return e
        emul_helper.get_instr_expr = wrap
        _PARTIAL.update(pool0=pool0, cap=cap, snaps=snaps)
        try:
            emul_helper.emul_lines(m, instrs)
        finally:
            emul_helper.get_instr_expr = orig
        if len(cap) != len(lines):
            return {'st': 'exc', 'exc': {'exc': 'capture', 'func': 'emul_lines', 'line': 'lifted %d of %d' % (len(cap), len(lines))}}
        regs = sorted(({'n': str(k.name), 'w': EJ.size_of(k), 'e': EJ.to_json(v, X)} for k, v in m.pool.pool_id.items()), key=lambda r: r['n'])
        cells = _cells(m, X)
        keys = sorted((mm for mm, v in m.pool.pool_mem.values()), key=lambda k: json.dumps(EJ.to_json(k.arg, X), sort_keys=True))
        combos = [(k, d, w) for k in keys for d in range(-3, 4) for w in (8, 16, 32)]
        random.Random(seed).shuffle(combos)
        rbs = []
        t_end = time.time() + 8 * rblimit
        for k, d, w in combos[:nrb]:
            req = X.ExprOp('+', _fresh(k.arg, X), X.ExprInt(M.uint32(d & 0xffffffff)))
            rb = {'a': EJ.to_json(req, X), 'w': w}
            signal.alarm(rblimit)     # a read-back that raises or does not answer fails alone (clause C07.noanswer), not the program
            try:
                rb['r'] = EJ.to_json(m.eval_expr(X.ExprMem(req, w), {}), X)
            except irlib._TO:
                rb['r'], rb['x'] = {'k': 'none'}, {'exc': 'Timeout', 'func': '', 'line': 'no result within the time limit'}
            except Exception as x:
                rb['r'], rb['x'] = {'k': 'none'}, irlib.exc_key(x)
            finally:
                signal.alarm(max(1, int(t_end - time.time())))
            rbs.append(rb)
        return {'st': 'ok', 'pool0': pool0, 'regs': regs, 'cells': cells, 'rbs': rbs, 'cells_bl': snaps[-1],
                'instrs': [{'txt': l['txt'], 'rep': l['rep'], 'affs': a} for l, a in zip(lines, cap)]}
    except ValueError as x:
        if str(x).startswith('Emulation fails for'):
            # emul_full_expr refuses a rep whose termination it cannot decide (symbolic count / flag): no state to judge
            return {'st': 'declined', 'at': len(cap)}
        raise


def _run_prog(item, limit=60):
    _PARTIAL.clear()
    st, r = irlib.guarded(_prog_inner, item, limit)
    if st == 'ok':
        return r
    out = {'st': st, 'exc': r if st == 'exc' else {'exc': 'Timeout', 'func': '', 'line': 'no result within the time limit'}}
    if _PARTIAL.get('cap'):
        # what is known about the instruction that failed: its lifted assignments and the pool before it
        n = len(_PARTIAL['cap'])
        out.update(pool0=_PARTIAL['pool0'], cells_bl=_PARTIAL['snaps'][-1], regs=[], cells=[], rbs=[],
                   instrs=[{'txt': l['txt'], 'rep': l['rep'], 'affs': a} for l, a in zip(item['lines'][:n], _PARTIAL['cap'])])
    return out


# ---------------------------------------------------------------------------------------------
# valuations
def hist_envs(acts, rnd, n=NENV):
    idw = {}
    for a in acts:
        if a['b'] == 's':
            idw['B'] = 32
        if a['op'] == 'st' and a['vk'] == 's':
            idw['v%d' % a['k']] = a['w']
    envs = irlib.make_envs(idw, n, rnd)
    for e in envs:
        if 'B' in e['id']:          # the symbolic base must not alias the constant base (an assumption of any symbolic memory)
            b = core.unlimbs(e['id']['B'])
            if (b - CONST_BASE + 64) % (1 << 32) < 128:
                e['id']['B'] = limbs(b ^ 0x40000000, 32)
    return envs


def prog_envs(rec, n=NENV):
    """valuations of the initial symbols under which distinct symbolic bases are >= 2^24 - 2^16 apart and away from
    the constant addresses (no aliasing the symbolic machine could not know about); everything else boundary/random.
    The value of an identifier depends only on (program seed, valuation index, name): a program and its prefixes are
    judged under the same valuations."""
    idw = {}
    for r in rec['pool0'] + rec['regs']:
        EJ.ids_of(r['e'], idw)
    for ins in rec['instrs']:
        for a in ins['affs']:
            EJ.ids_of(a, idw)
    for c in rec['cells']:
        EJ.ids_of(c['a'], idw)
        EJ.ids_of(c['v'], idw)
    for c in rec['cells_bl']:
        EJ.ids_of(c['a'], idw)
    for r in rec['rbs']:
        EJ.ids_of(r['a'], idw)
        EJ.ids_of(r['r'], idw)
    envs = []
    lows = [0, 0xFFFFFC, 0xFF, 0xFFFFFF, 0x7FFFFE, 0x10000, 0xFFFE]
    for j in range(n):
        ids = {}
        for nm in sorted(idw):
            w = idw[nm]
            rnd = random.Random('%d/%d/%s' % (rec['seed'], j, nm))
            if nm in GPR_INIT:
                band = (GPR_INIT.index(nm) + j) % 8
                top = band * 32 + rnd.randint(1, 30)
                low = rnd.choice(lows) if rnd.random() < 0.5 else rnd.getrandbits(24)
                v = (top << 24) | low
            elif nm in SEGS:
                v = 0
            elif w == 1:
                v = (j & 1) if nm == 'init_df' else rnd.getrandbits(1)
            elif rnd.random() < 0.5:
                v = rnd.choice(irlib.boundary(w))
            else:
                v = rnd.getrandbits(w)
            ids[nm] = limbs(v, w)
        envs.append({'id': ids if ids else {'_': [0]}, 'seed': j * 37 + 1, 'over': []})
    return envs


# ---------------------------------------------------------------------------------------------
# records, judging, classification
def hist_records(hists, rnd, start_id):
    outs = irlib.pmap(_run_hist, hists, chunk=500)
    for i, o in enumerate(outs):          # a time-out counts only if it repeats with a six-fold limit on the quiet parent process
        if o['st'] == 'timeout':
            outs[i] = _run_hist(hists[i], 60)
    recs = []
    for i, (h, o) in enumerate(zip(hists, outs)):
        r = {'id': start_id + i, 't': 'h', 'acts': h, 'envs': hist_envs(h, rnd)}
        r.update(o)
        recs.append(r)
    return recs


def prog_items(progs, nrb, seed):
    texts = [[ins_text(i) for i in p] for p in progs]
    hx = assemble([t for p in texts for t in p])
    return [{'lines': [{'txt': t, 'hex': hx[t], 'rep': rep_kind(t)} for t in p], 'nrb': nrb, 'seed': seed + k} for k, p in enumerate(texts)]


def prog_records(items, rnd, start_id, stats):
    outs = irlib.pmap(_run_prog, items, chunk=20)
    for i, o in enumerate(outs):          # a time-out counts only if it repeats with a three-fold limit on the parent process
        if o['st'] == 'timeout' or any(rb.get('x', {}).get('exc') == 'Timeout' for rb in o.get('rbs', [])):
            outs[i] = _run_prog(dict(items[i], rblimit=15), 180)
    # a program the emulator declines at instruction k is judged up to instruction k-1
    redo = [(i, dict(items[i], lines=items[i]['lines'][:o['at'] - 1])) for i, o in enumerate(outs) if o['st'] == 'declined' and o['at'] > 1]
    stats['declined_by_emulator (rep termination undecidable), judged up to the declined instruction'] += sum(1 for o in outs if o['st'] == 'declined')
    if redo:
        items = list(items)
        for (i, it), o in zip(redo, irlib.pmap(_run_prog, [it for _, it in redo], chunk=20)):
            items[i], outs[i] = it, o
    recs = []
    for i, (it, o) in enumerate(zip(items, outs)):
        if o['st'] in ('nodis', 'declined'):
            stats['not_disassembled'] += o['st'] == 'nodis'
            continue
        r = {'id': start_id + i, 't': 'p', 'lines': it['lines'], 'nrb': it['nrb'], 'seed': it['seed']}
        r.update(o)
        if 'instrs' in o:
            r['envs'] = prog_envs(r)
        if o['st'] == 'ok':
            r['nodes'] = sum(EJ.node_count(a) for ins in r['instrs'] for a in ins['affs']) + sum(EJ.node_count(x['e']) for x in r['regs'])
        recs.append(r)
    return recs


def _strip(r):
    """what the judge sees"""
    if r['st'] != 'ok':
        if r['t'] == 'h':
            return {'id': r['id'], 't': 'h', 'st': r['st'], 'acts': r['acts'], 'excj': r['excj']}
        if 'instrs' in r:
            return {'id': r['id'], 't': 'p', 'st': r['st'], 'part': 1, 'pool0': r['pool0'], 'instrs': r['instrs'], 'cells_bl': r['cells_bl'], 'envs': r['envs'][:1]}
        return {'id': r['id'], 't': r['t'], 'st': r['st'], 'part': 0}
    drop = ('lines', 'nrb', 'seed', 'nodes', 'exc')
    out = {k: v for k, v in r.items() if k not in drop}
    if r['t'] == 'p':
        out['rbs'] = [{k: v for k, v in rb.items() if k != 'x'} for rb in r['rbs']]
    return out


def judge(chk, recs, timeout=3000):
    recs = list(recs)
    random.Random(len(recs)).shuffle(recs)
    verdicts, st = core.judge('T_C07', [_strip(r) for r in recs], timeout=timeout, min_per_shard=4)
    chk.add_tlc(st)
    for v in verdicts:
        for f in v['v']:
            if f['clause'].startswith('input.') and f['clause'] != 'input.illtyped_lifted_aff':
                raise core.MachineryError('C07 judge precondition %s failed on record %s: %r' % (f['clause'], v['id'], f))
    return verdicts


def worst_path(paths):
    for p in PATH_RANK:
        if p in paths:
            return p
    return 'none'


def show_hist(acts):
    return ' ; '.join('%s%d@%s+%d%s' % (a['op'], a['w'], {'c': '0x1000', 's': 'B'}[a['b']], a['off'],
                                      ('=' + ('0x%X' % const_val(a['k'], a['w']) if a['vk'] == 'c' else 'v%d' % a['k'])) if a['op'] == 'st' else '')
                      for a in acts)


def report_hists(chk, recs, verdicts):
    byid = {r['id']: r for r in recs}
    bad = sorted(verdicts, key=lambda v: (len(byid[v['id']]['acts']), v['id']))
    for v in bad:
        r = byid[v['id']]
        for f in v['v']:
            key = {'kind': 'history', 'clause': f['clause'], 'path': f.get('path', '')}
            wmax = max(a['w'] for a in r['acts'])
            if wmax > 32:                   # histories with x87/MMX/SSE-sized accesses: the widest access names the class
                key['wide'] = wmax
            detail = {'history': r['acts'], 'history_text': show_hist(r['acts']), 'verdict': f}
            if f['clause'] in ('C07.noexc', 'C07.terminates'):
                key.update(r['exc'])
            else:
                j = f.get('j')
                if j:
                    detail['load_result_text'] = EJ.show(r['obs'][j - 1])
                detail['pool_text'] = ['@%d[%s] = %s' % (c['w'], EJ.show(c['a']), EJ.show(c['v'])) for c in r['cells']]
            chk.violation(key, detail)


def prog_features(r):
    """features of the last instruction of a (prefix-minimal) failing program"""
    f = []
    if r['lines'][-1]['rep'] in ('repe', 'repne'):
        f.append('repe_repne_termination')
    mn = r['lines'][-1]['txt'].split()[0]
    if mn.startswith('cmov') or mn.startswith('set') or mn in ('adc', 'sbb', 'rcl', 'rcr'):
        f.append('flag_reader')       # the instruction combines status flags (constant flags are kept as 32-bit constants by eval_instr)
    return ','.join(f)


def _is_rb(f):
    return f['clause'] in ('C07.readback', 'C07.noanswer') or (f['clause'] in ('C07.welltyped', 'C07.width') and f.get('what') == 'readback')


def _state_diverged(v):
    """a clause about the STATE (register, pool, exception, non-termination) fails, not only read-backs"""
    return any(not f['clause'].startswith('input.') and not _is_rb(f) for f in v['v'])


def prog_keys(r, f, diverged):
    """violation classes of one failing clause f of program record r.  diverged = r is the shortest prefix after which
    the symbolic state is wrong: the class is then that of its last instruction (features, worst path of its reads)."""
    c = f['clause']
    if c in ('C07.noexc', 'C07.terminates'):
        k = {'kind': 'program', 'clause': c, 'path': worst_path(set(f.get('lastpaths', []))) if f.get('lastpaths') else '', 'feat': prog_features(r)}
        k.update(r['exc'])
        return [k]
    if not diverged:        # registers and pool are right: a pure load failure, classified by the path the load takes
        return [{'kind': 'program', 'clause': c, 'path': p, 'feat': ''} for p in sorted(set(f.get('paths', [f.get('path', '')])))]
    last = set(f.get('lastpaths', []))
    if _is_rb(f):
        paths = sorted(set(worst_path(last | {p}) for p in set(f.get('paths', [f.get('path', '')]))))
    else:
        paths = [worst_path(last)]
    return [{'kind': 'program', 'clause': c, 'path': p, 'feat': prog_features(r)} for p in paths]


def _prog_detail(r, mr, f):
    detail = {'program': [l['txt'] for l in r['lines']], 'lines': r['lines'], 'nrb': r['nrb'], 'seed': r['seed'],
              'shortest_failing_prefix': [l['txt'] for l in mr['lines']], 'verdict': f}
    if mr['st'] == 'ok':
        detail['pool_text'] = ['@%d[%s] = %s' % (c['w'], EJ.show(c['a']), EJ.show(c['v'])) for c in mr['cells']]
        if 'rb' in f:
            rb = mr['rbs'][f['rb'] - 1]
            detail['readback_text'] = '@%d[%s] -> %s' % (rb['w'], EJ.show(rb['a']), EJ.show(rb['r']) if 'x' not in rb else rb['x'])
        if 'reg' in f:
            detail['reg_text'] = [EJ.show(x['e']) for x in mr['regs'] if x['n'] == f['reg']]
    else:
        detail['exception'] = mr.get('exc')
    return detail


def report_progs(chk, recs, verdicts, rnd):
    """A record in which only read-backs fail has a right state (registers, pool): each failing read-back is a pure load
    failure, classified by the path it takes through eval_ExprMem.  If a clause about the state fails (register, pool,
    exception, non-termination) the program is reduced to its shortest prefix after which the state is wrong
    (re-emulated, judged under the same valuations) and every failure is attributed to that first divergence:
    class = (clause, worst eval_ExprMem path among the memory reads of the prefix's last instruction, its features)."""
    byid = {r['id']: r for r in recs}
    todo = []
    for v in sorted(verdicts, key=lambda v: (len(byid[v['id']]['lines']), v['id'])):
        r = byid[v['id']]
        if _state_diverged(v):
            todo.append((r, v))
            continue
        for f in v['v']:
            if _is_rb(f):
                for key in prog_keys(r, f, False):
                    chk.violation(key, _prog_detail(r, r, f))
    if not todo:
        return
    items, owner = [], []
    for bi, (r, v) in enumerate(todo):
        for n in range(1, len(r['lines'])):
            items.append({'lines': r['lines'][:n], 'nrb': 0, 'seed': r['seed']})      # the state only: no read-backs
            owner.append((bi, n))
    precs = prog_records(items, rnd, 0, collections.Counter()) if items else []
    pver = {v['id']: v for v in judge(chk, precs)} if precs else {}
    first = {}
    for pr in precs:
        bi, n = owner[pr['id']]
        if pr['id'] in pver and _state_diverged(pver[pr['id']]) and (bi not in first or n < first[bi][0]):
            first[bi] = (n, pr, pver[pr['id']])
    for bi, (r, v) in enumerate(todo):
        n, mr, mv = first.get(bi, (len(r['lines']), r, v))
        for f in mv['v']:
            if not f['clause'].startswith('input.'):
                for key in prog_keys(mr, f, True):
                    chk.violation(key, _prog_detail(r, mr, f))


def count_illtyped(verdicts):
    return sum(1 for v in verdicts if any(f['clause'] == 'input.illtyped_lifted_aff' for f in v['v']))


# ---------------------------------------------------------------------------------------------
def design_model(chk, maxst):
    """the property on the implementation-shaped model (SymPool.tla): the repaired design satisfies the invariants for
    <= maxst stores; the design as coded does not (TLC counterexample), and the counterexample is replayed on the code"""
    inv = 'INIT PInit\nNEXT PNext\nINVARIANTS TypeOK ReplayOK NoOverlap FlattenOK LoadOK\nCHECK_DEADLOCK FALSE\n'
    res = {}
    for coded, ms in ((False, maxst), (True, 2)):
        cfg = symmem_cfg(ms, 0, range(8), ['c', 's'], ['c'], False, ' AsCoded = %s\n' % ('TRUE' if coded else 'FALSE')) + inv

        def build():
            r = core.run_tlc('SymPool', cfg_text=cfg, timeout=1500, workers=1 if coded else core.NCPU)   # one worker: a deterministic counterexample
            if not coded and not r.ok:
                raise core.MachineryError('SymPool (repaired design) violates its invariants:\n' + r.out[-3000:])
            cex = None
            if coded:
                m = re.search(r'Invariant (\w+) is violated', r.out)
                if not m:
                    raise core.MachineryError('SymPool AsCoded: expected an invariant violation\n' + r.out[-2000:])
                i = r.out.rfind('/\\ hist = ')
                p = core._P(r.out)
                p.i = i + len('/\\ hist = ')
                cex = {'invariant': m.group(1), 'hist': p.value()}
            return {'states': r.distinct, 'transitions': r.generated, 'cex': cex}
        d = _cache('c07_pool_%s' % _spec_hash(['BV.tla', 'SymMem.tla', 'SymPool.tla'], cfg), build)
        chk.add_tlc(d)
        res['as_coded' if coded else 'repaired'] = {'max_stores': ms, 'states': d['states'], 'counterexample': d['cex']}
    # replay the design-level counterexample: the stores of the TLC trace followed by every load
    cex = res['as_coded']['counterexample']['hist']
    hs = [cex + [{'op': 'ld', 'w': w, 'b': b, 'off': o, 'vk': '', 'k': 0}] for w in (8, 16, 32) for b in ('c', 's') for o in range(8)]
    recs = hist_records(hs, random.Random(chk.seed), 0)
    ver = judge(chk, recs)
    res['as_coded']['implementation_reproduces_it'] = bool(ver)
    res['as_coded']['failing_loads_after_counterexample_stores'] = len(ver)
    chk.cov['design_model'] = res
    return recs, ver


def _tick(chk, label, t0):
    chk.cov.setdefault('timing_s', {})[label] = round(time.time() - t0, 1)
    return time.time()


def run(tier, chk):
    rnd = random.Random(chk.seed)
    quick = tier == 'quick'
    t0 = time.time()
    negative_control(chk)
    t0 = _tick(chk, 'negative control', t0)
    nid = 0
    spaces = chk.cov.setdefault('spaces', {})
    # the property on the model; its counterexample replayed on the implementation
    recs, ver = design_model(chk, 2 if quick else 3)
    report_hists(chk, recs, ver)
    chk.cov['traces_validated_against_impl'] += len(recs)
    t0 = _tick(chk, 'design model + counterexample replay', t0)
    # (a) exhaustive histories  +  (a') simulation beyond the bound: one judge run
    offs = [0, 1, 3, 4] if quick else list(range(8))
    groups = []
    for base in ('c', 's'):
        groups.append(('a:<=2 stores+1 load, base=%s, offsets=%s (exhaustive)' % (base, offs), gen_hists(2, offs, base, chk)))
    for bases, n in ((['c'], 150 if quick else 4000), (['s'], 150 if quick else 4000), (['c', 's'], 100 if quick else 3000)):
        groups.append(("a':3..8 stores, interleaved loads, bases=%s (-simulate)" % ','.join(bases), sim_hists(n, chk.seed, bases, 8, 4, chk)))
    # (a64/a128) the property says "of any width": the 64-bit cells of x87/MMX operands and the 128-bit cells of SSE operands
    # next to the integer widths (the model and the judge are width-generic; only the generator constants differ)
    # (the thorough tier adds symbolic stored values and two offsets; every offset 0..16 with both value kinds is ~700k histories
    # and does not fit the memory of one run)
    woffs64 = [0, 1, 4, 7, 8] if quick else [0, 1, 4, 7, 8, 9]
    woffs128 = [0, 4, 8, 12, 15] if quick else [0, 4, 8, 12, 15, 16]
    for base in ('c', 's'):
        groups.append(('a64:<=2 stores+1 load, widths 8/16/32/64, base=%s, offsets=%s (exhaustive)' % (base, woffs64),
                       gen_hists(2, woffs64, base, chk, ws=(8, 16, 32, 64), vks=('c',) if quick else ('c', 's'))))
        groups.append(('a128:<=2 stores+1 load, widths 32/64/128, base=%s, offsets=%s (exhaustive)' % (base, woffs128),
                       gen_hists(2, woffs128, base, chk, ws=(32, 64, 128), vks=('c',) if quick else ('c', 's'))))
    groups.append(("a'w:3..6 stores, interleaved loads, widths 8..128, offsets 0..16 (-simulate)",
                   sim_hists(150 if quick else 4000, chk.seed, ['c', 's'], 6, 3, chk, ws=(8, 16, 32, 64, 128), offs=range(17))))
    allrecs, spans = [], []
    for label, hs in groups:
        recs = hist_records(hs, rnd, nid)
        nid += len(recs)
        spans.append((label, hs, recs))
        allrecs += recs
    ver = judge(chk, allrecs)
    report_hists(chk, allrecs, ver)
    badids = set(v['id'] for v in ver)
    for label, hs, recs in spans:
        spaces[label] = {'histories': len(hs), 'failing': sum(1 for r in recs if r['id'] in badids)}
        chk.cov['evaluations'] += sum(sum(1 for a in r['acts'] if a['op'] == 'ld') for r in recs) * NENV
        chk.cov['traces_validated_against_impl'] += len(recs)
        chk.cov['distinct_nontrivial'] += sum(1 for h in hs if _nontrivial(h))
        for r in recs[:1]:
            chk.sample({'history': show_hist(r['acts']), 'read_back': EJ.show(r['obs'][-1]) if r['st'] == 'ok' else r['st'], 'valuations': NENV})
    chk.cov['exhaustive'] = False      # the history space below is enumerated completely; the program space is sampled
    chk.cov['exhaustively_enumerated_part'] = ('histories of <= 2 stores + 1 load, widths 8/16/32, offsets %s, constant and symbolic base, constant and symbolic values; '
                                               'the same with widths 8/16/32/64 at offsets %s and widths 32/64/128 at offsets %s' % (offs, woffs64, woffs128))
    t0 = _tick(chk, 'histories (exhaustive + simulated)', t0)
    # (b) programs
    st = collections.Counter()
    allrecs, spans = [], []
    for maxlen, n in ((0, 0), (3, 60 if quick else 2000), (6, 100 if quick else 4000), (12, 140 if quick else 6000)):
        if maxlen == 0:
            progs = rep_progs(chk)          # exhaustive family; the quick tier takes every second program
            if quick:
                progs = [p for k, p in enumerate(progs) if (k + chk.seed) % 2 == 0]
        else:
            progs = sim_progs(n, maxlen, chk.seed, chk)
        items = prog_items(progs, 18 if quick else 40, chk.seed)
        recs = prog_records(items, rnd, nid, st)
        nid += len(items)
        big = [r for r in recs if r['st'] == 'ok' and r['nodes'] > 60000]
        st['skipped_too_large_for_the_evaluator'] += len(big)
        recs = [r for r in recs if not (r['st'] == 'ok' and r['nodes'] > 60000)]
        spans.append((('b:programs of %d..%d instructions (-simulate)' % (maxlen, maxlen + 1)) if maxlen else
                      'b-rep:every repe/repne cmps/scas program on concrete data and every copied-count rep program (ProgRep.tla, exhaustive)', recs))
        allrecs += recs
    ver = judge(chk, allrecs)
    st['lifted_assignments_ill_typed (C11, not judged here)'] += count_illtyped(ver)
    report_progs(chk, allrecs, ver, rnd)
    badids = set(v['id'] for v in ver if any(f['clause'].startswith('C07') for f in v['v']))
    for label, recs in spans:
        spaces[label] = {'programs': len(recs), 'failing': sum(1 for r in recs if r['id'] in badids),
                         'with_rep': sum(1 for r in recs if any(l['rep'] for l in r['lines']))}
        chk.cov['evaluations'] += sum((len(r['regs']) + len(r['rbs']) + len(r['cells'])) * NENV for r in recs if r['st'] == 'ok')
        chk.cov['traces_validated_against_impl'] += len(recs)
        chk.cov['distinct_nontrivial'] += sum(1 for r in recs if r['st'] == 'ok' and r['cells'])
        for r in recs[:1]:
            if r['st'] == 'ok':
                chk.sample({'program': [l['txt'] for l in r['lines']], 'registers_compared': len(r['regs']), 'read_backs': len(r['rbs']),
                            'pool': ['@%d[%s] = %s' % (c['w'], EJ.show(c['a']), EJ.show(c['v'])) for c in r['cells']][:6]})
    t0 = _tick(chk, 'programs', t0)
    chk.cov['program_stats'] = dict(st)
    chk.cov['rule'] = ('histories = reachable states of SymMem.tla (exhaustive) / its random behaviours; programs = random behaviours of '
                       'Prog.tla; non-trivial = histories in which two accesses overlap without being identical, programs that write memory')
    chk.assumptions += ['memory is flat, byte-addressed, little-endian (IR.tla InitByte + overrides); segment registers are 0',
                        'valuations keep distinct symbolic bases >= 2^24-2^16 apart and away from constant addresses: the symbolic machine '
                        'cannot decide aliasing between different bases and the property does not ask it to',
                        'programs use only bases that hold a constant or initial-symbol + constant, a concrete direction flag for string '
                        'instructions and a concrete rep count 0..4 (tracked by Prog.tla)',
                        'operators outside IR.Interpreted are uninterpreted functions of their argument values',
                        'register values are compared modulo zero-extension (miasmX stores 1-bit flags as 32-bit constants)']


def _nontrivial(h):
    iv = [(a['b'], a['off'], a['off'] + a['w'] // 8) for a in h]
    for i in range(len(iv)):
        for j in range(i):
            if iv[i][0] == iv[j][0] and iv[i] != iv[j] and iv[i][1] < iv[j][2] and iv[j][1] < iv[i][2]:
                return True
    return False


# ---------------------------------------------------------------------------------------------
def negative_control(chk):
    I = lambda v, w: {'k': 'int', 'w': w, 'v': limbs(v, w)}
    ID = lambda n, w: {'k': 'id', 'w': w, 'n': n}
    st = {'op': 'st', 'w': 32, 'b': 'c', 'off': 0, 'vk': 'c', 'k': 1}
    ld = {'op': 'ld', 'w': 16, 'b': 'c', 'off': 1, 'vk': '', 'k': 0}
    none = {'k': 'none'}
    cell = {'a': I(0x1000, 32), 'w': 32, 'v': I(const_val(1, 32), 32)}
    envs = [{'id': {'_': [0]}, 'seed': 5, 'over': []}]
    good = (const_val(1, 32) >> 8) & 0xffff
    hrec = lambda i, obs, cells: {'id': i, 't': 'h', 'st': 'ok', 'acts': [st, ld], 'obs': [none, obs], 'cells': cells, 'envs': envs}
    aff = {'k': 'aff', 'w': 32, 'a': [ID('eax', 32), {'k': 'op', 'w': 32, 'o': '+', 'u': 0, 'a': [ID('eax', 32), I(5, 32)]}]}
    sto = {'k': 'aff', 'w': 8, 'a': [{'k': 'mem', 'w': 8, 'a': [ID('esp', 32)], 'g': []}, I(7, 8)]}
    penv = [{'id': {'init_eax': limbs(0x11223344, 32), 'init_esp': limbs(0x70001000, 32)}, 'seed': 3, 'over': []}]
    pool0 = [{'n': 'eax', 'w': 32, 'e': ID('init_eax', 32)}, {'n': 'esp', 'w': 32, 'e': ID('init_esp', 32)}]
    sym = {'k': 'op', 'w': 32, 'o': '+', 'u': 0, 'a': [ID('init_eax', 32), I(5, 32)]}
    pcell = [{'a': ID('init_esp', 32), 'w': 8, 'v': I(7, 8)}]
    rb = lambda v: [{'a': ID('init_esp', 32), 'w': 16, 'r': {'k': 'compose', 'w': 16, 'a': [I(v, 8), {'k': 'mem', 'w': 8, 'a': [
        {'k': 'op', 'w': 32, 'o': '+', 'u': 0, 'a': [ID('init_esp', 32), I(1, 32)]}], 'g': []}], 's': [[0, 8], [8, 16]]}}]
    prec = lambda i, e, cells, rbs: {'id': i, 't': 'p', 'st': 'ok', 'pool0': pool0, 'instrs': [{'txt': 'x', 'rep': '', 'affs': [aff, sto]}],
                                    'regs': [{'n': 'eax', 'w': 32, 'e': e}, {'n': 'esp', 'w': 32, 'e': ID('init_esp', 32)}],
                                    'cells': cells, 'cells_bl': [{'a': ID('init_esp', 32), 'w': 8}], 'rbs': rbs, 'envs': penv}
    recs = [hrec(0, I(good, 16), [cell]),
            hrec(1, I(good ^ 0x100, 16), [cell]),                                     # one bit of the read-back flipped
            hrec(2, I(good, 16), []),                                                # a written cell missing from the pool
            hrec(3, {'k': 'slice', 'w': 16, 'lo': -8, 'hi': 8, 'a': [I(good, 16)]}, [cell]),   # ill-typed read-back
            prec(4, sym, pcell, rb(7)),
            prec(5, {'k': 'op', 'w': 32, 'o': '+', 'u': 0, 'a': [ID('init_eax', 32), I(6, 32)]}, pcell, rb(7)),   # wrong register
            prec(6, sym, pcell, rb(8)),                                               # wrong read-back
            {'id': 7, 't': 'h', 'st': 'exc', 'acts': [st, ld], 'excj': 2}]
    verdicts, stt = core.judge('T_C07', recs, shards=1)
    chk.add_tlc(stt)
    got = sorted((v['id'], v['v'][0]['clause']) for v in verdicts)
    want = [(1, 'C07.value'), (2, 'C07.pool_domain'), (3, 'C07.welltyped'), (5, 'C07.reg'), (6, 'C07.readback'), (7, 'C07.noexc')]
    chk.cov['negative_controls'].append({'name': 'flipped read-back bit / missing pool cell / ill-typed tree / wrong register / wrong program '
                                                 'read-back / exception rejected; the two correct records accepted', 'ok': got == want, 'got': got})
    if got != want:
        raise core.MachineryError('C07 negative control failed: %r' % (got,))


def replay(path, chk):
    rp = json.load(open(path))
    d = rp['detail']
    rnd = random.Random(chk.seed)
    irlib._init_worker(False)
    if 'history' in d:
        recs = hist_records([d['history']], rnd, 0)
        ver = judge(chk, recs)
        report_hists(chk, recs, ver)
        chk.sample({'history': show_hist(d['history'])})
    else:
        st = collections.Counter()
        recs = prog_records([{'lines': d['lines'], 'nrb': d['nrb'], 'seed': d['seed']}], rnd, 0, st)
        ver = judge(chk, recs)
        report_progs(chk, recs, ver, rnd)
        chk.sample({'program': d['program']})
    chk.cov['traces_validated_against_impl'] = 1
    chk.cov['evaluations'] = NENV
    return chk.finish()
