CONSTANT Level = "small"
INIT Init
NEXT Next
INVARIANT SelfOK
CHECK_DEADLOCK FALSE
