"""C12, implementation side.  Runs as a fresh interpreter per parser-table cache configuration
("zygote"):   python -m vf.c12z JOB.json OUT.ndjson     (TMPDIR = the prepared cache directory,
PYTHONPATH = <repo under test>:/verif).

The zygote imports miasmX (this is when PLY reads / rebuilds its table files), builds the fixture
objects once, and then forks one child per history, so every history starts from the same fresh
interpreter state.  A child executes the calls of its history and records, after every call, the result
fingerprint and a snapshot: fingerprints of both machine pools, of every fixture object (the explicit
inputs), of the shared instruction/register tables, plus digests of the hidden memo state that Python
exposes anyway (is_eval / simp attributes of shared nodes, mutable default arguments).  Nothing is decided
here: the records go to the TLA+ judge T_C12.

Fingerprint = md5 (12 hex digits) of a canonical structural serialisation: dict items sorted, sets sorted,
fixed-width integers as (signedness, size, value), expressions by constructor and fields.  Memo attributes
(is_eval, simp) and the arg_expr slot of instructions (alias of the documented `args` output parameter of
get_instr_expr) are not structure."""
import sys, os, json, hashlib, pickle, traceback, signal, gc, struct, re, tempfile   # everything the harness needs, before miasmX is imported

FP_LEN = 12
_ctx = {}


def _setup():
    """import everything the menu needs (no API call is made here)"""
    if _ctx:
        return _ctx
    import miasmx.arch.ia32_arch as A
    import miasmx.arch.ia32_reg as R
    import miasmx.arch.ia32_sem as S
    import miasmx.arch.ia32_att as ATT
    import miasmx.core.parse_ad as PAD
    import miasmx.core.bin_stream
    import miasmx.expression.expression as E
    import miasmx.expression.expression_helper as H
    import miasmx.expression.expression_eval_abstract as EA
    import miasmx.tools.emul_helper as EH
    import miasmx.tools.modint as MI
    _ctx.update(A=A, R=R, S=S, ATT=ATT, PAD=PAD, E=E, H=H, EA=EA, EH=EH, MI=MI)
    return _ctx


# ---------------------------------------------------------------------------------------------
# canonical structural serialisation
def ser(o, out, stack):
    c = _ctx
    E, MI, A = c['E'], c['MI'], c['A']
    t = type(o)
    if o is None or t is bool or t is int or t is float:
        out.append(repr(o))
        return
    if t is str:
        out.append('s' + repr(o))
        return
    if t is bytes:
        out.append('b' + o.hex())
        return
    if isinstance(o, MI.moduint):
        out.append('%s%d:%d' % ('i' if isinstance(o, MI.modint) else 'u', o.size, int(o.arg)))
        return
    i = id(o)
    if i in stack:
        out.append('<cycle>')
        return
    stack.add(i)
    try:
        if isinstance(o, E.Expr):
            term = '!' if o.is_term else ''
            if t is E.ExprId:
                out.append('Id%s(%s,%r,%r)' % (term, o.name, o.size, bool(o.is_reg)))
            elif t is E.ExprInt:
                out.append('Int%s(' % term)
                ser(o.arg, out, stack)
                out.append(')')
            elif t is E.ExprMem:
                out.append('Mem%s(%r,' % (term, o.size))
                ser(o.segm, out, stack)
                out.append(',')
                ser(o.arg, out, stack)
                out.append(')')
            elif t is E.ExprOp:
                out.append('Op%s(%s' % (term, o.op))
                for a in o.args:
                    out.append(',')
                    ser(a, out, stack)
                out.append(')')
            elif t is E.ExprCond:
                out.append('Cond%s(' % term)
                for a in (o.cond, o.src1, o.src2):
                    ser(a, out, stack)
                    out.append(',')
                out.append(')')
            elif t is E.ExprSlice:
                out.append('Slice%s(%r,%r,' % (term, o.start, o.stop))
                ser(o.arg, out, stack)
                out.append(')')
            elif t is E.ExprCompose:
                out.append('Compose%s(' % term)
                for a, lo, hi in o.args:
                    out.append('%r:%r=' % (lo, hi))
                    ser(a, out, stack)
                    out.append(',')
                out.append(')')
            elif t is E.ExprAff:
                out.append('Aff(')
                ser(o.dst, out, stack)
                out.append(',')
                ser(o.src, out, stack)
                out.append(')')
            else:
                out.append('Expr?' + t.__name__)
        elif t is dict:
            items = []
            for k, v in o.items():
                a, b = [], []
                ser(k, a, stack)
                ser(v, b, stack)
                items.append((''.join(a), ''.join(b)))
            items.sort()
            out.append('{' + ','.join(k + ':' + v for k, v in items) + '}')
        elif t is list or t is tuple:
            out.append('[' if t is list else '(')
            for x in o:
                ser(x, out, stack)
                out.append(',')
            out.append(']' if t is list else ')')
        elif t is set or t is frozenset:
            items = []
            for x in o:
                a = []
                ser(x, a, stack)
                items.append(''.join(a))
            out.append('S{' + ','.join(sorted(items)) + '}')
        elif isinstance(o, A.mnemonic):
            out.append('Mn(')
            ser([o.name, o.opc, o.afs, o.rm, o.modifs, o.modifs_orig], out, stack)
            out.append(')')
        elif isinstance(o, A.x86_mn):
            out.append('Instr(')
            for k in ('opmode', 'admode', 'mnemo_mode', 'cmt', 'prefix', 'm', 'arg', 'offset', 'l', 'b', 'txt'):
                out.append(k + '=')
                if hasattr(o, k):
                    ser(getattr(o, k), out, stack)
                else:
                    out.append('<unset>')
                out.append(';')
            out.append(')')
        elif isinstance(o, c['EA'].mpool):
            out.append('Pool(')
            ser(o.pool_id, out, stack)
            out.append(',')
            ser(o.pool_mem, out, stack)
            out.append(')')
        elif isinstance(o, BaseException):
            out.append('Exc(' + exc_site(o) + ')')
        else:
            out.append('?' + t.__name__)
    finally:
        stack.discard(i)


def sertext(o):
    out = []
    ser(o, out, set())
    return ''.join(out)


def fp(o):
    return hashlib.md5(sertext(o).encode('utf-8', 'replace')).hexdigest()[:FP_LEN]


def exc_site(x):
    """exception class + innermost miasmx/ply function and normalised source line (no message: messages
    carry object addresses)"""
    fr = None
    for f in traceback.extract_tb(x.__traceback__):
        if '/miasmx/' in f.filename or '/ply/' in f.filename:
            fr = f
    if fr is None:
        return type(x).__name__
    return '%s@%s:%s' % (type(x).__name__, fr.name, ' '.join((fr.line or '').split())[:60])


# ---------------------------------------------------------------------------------------------
# fixtures: the argument objects every history works on
class FX(object):
    pass


FIXTURE_NAMES = ['lit', 'I_shl', 'I_add', 'I_push', 'I_pop', 'I_moves', 'I_sete', 'I_div', 'I_sse', 'I_rep67', 'I_popad', 'I_movecx3', 'I_rep', 'K', 'K2', 'w', 'T', 'U', 'Q', 'Q2', 'C', 'C2', 'L', 'pc', 'regs', 'sys.path']


def build_fixtures():
    c = _setup()
    E, S, A, EH, MI = c['E'], c['S'], c['A'], c['EH'], c['MI']
    f = FX()
    f.lit = {'b_mov': bytes.fromhex('8b4508'), 'b_shl': bytes.fromhex('d3e0'), 'b_in': bytes.fromhex('ec'),
             'b_movs': bytes.fromhex('a4'), 't_mov': 'mov eax, [ebx+4]', 't_shl': 'shl eax, cl',
             't_in': 'in al, dx', 't_att': 'movl 4(%ebx), %eax', 't_bad': 'mov eax, [-eax]',
             't_syn': 'mov eax ]', 'b_fsm': bytes.fromhex('648b03'), 'b_m': bytes.fromhex('8b03'), 'b_m8': bytes.fromhex('8a03')}
    dis = A.x86mnemo.dis
    f.I_shl = dis(bytes.fromhex('d3e0'))     # operand 2 is the table-owned r_cl dictionary itself
    f.I_add = dis(bytes.fromhex('83c001'))
    f.I_push = dis(bytes.fromhex('50'))
    f.I_pop = dis(bytes.fromhex('5b'))
    f.I_moves = dis(bytes.fromhex('8cc0'))   # mov eax, es
    f.I_sete = dis(bytes.fromhex('8ec3'))    # mov es, ebx
    f.I_div = dis(bytes.fromhex('f7f3'))     # div ebx
    f.I_sse = dis(bytes.fromhex('f30f10c1'))  # movss xmm0, xmm1: the mnemonic depends on the mandatory prefix kept in .prefix
    f.I_rep67 = dis(bytes.fromhex('67f3aa'))   # rep stosb with the address-size prefix
    f.I_popad = dis(bytes.fromhex('61'))
    f.I_movecx3 = dis(bytes.fromhex('b903000000'))
    f.I_rep = dis(bytes.fromhex('f3aa'))
    f.K = E.ExprInt32(0x10001)                 # a constant object the caller shares with the state of m2 (ecx)
    f.K2 = E.ExprInt32(0x20)                   # another shared constant: the time-stamp counter of m2
    f.w = E.ExprId('w')
    f.T = E.ExprOp('+', E.ExprOp('+', S.eax, f.w), E.ExprInt32(0))    # shared tree over a module-level register and w
    f.U = E.ExprOp('+', f.w, E.ExprInt32(1))
    f.Q = E.ExprMem(E.ExprOp('+', S.esp, E.ExprInt32(4)))
    f.Q2 = E.ExprMem(E.ExprInt32(0x2000))               # a cell whose address is already in evaluated form, no segment
    # a composition of adjacent slices of one source (what 'or al, al' lifts to), used twice in one tree
    lo, hi = E.ExprSlice(S.edx, 0, 8), E.ExprSlice(S.edx, 8, 16)
    f.C = E.ExprOp('^', E.ExprCompose([(lo, 0, 8), (hi, 8, 16), (E.ExprSlice(S.edx, 16, 32), 16, 32)]),
                   E.ExprCompose([(hi, 0, 8), (E.ExprSlice(f.w, 8, 32), 8, 32)]))
    f.C2 = E.ExprCompose([(E.ExprInt32(0x1FF), 0, 8), (E.ExprSlice(S.eax, 8, 32), 8, 32)])     # constant with bits above its slot
    f.L = EH.get_instr_expr(dis(bytes.fromhex('83c001')), E.ExprInt32(3), [])                    # a lifted list kept and reused by the caller
    f.pc = E.ExprInt32(2)
    f.regs = [v for k, v in sorted(vars(S).items()) if isinstance(v, E.Expr)]
    f.m = [None, EH.x86_machine(), EH.x86_machine()]
    m2 = f.m[2]
    m2.pool[S.eax] = E.ExprInt32(7)
    m2.pool[S.edx] = E.ExprInt32(0)
    m2.pool[S.ebx] = E.ExprInt32(0)
    m2.pool[f.w] = E.ExprInt32(7)
    m2.pool[S.ecx] = f.K
    m2.pool[S.tsc1] = f.K2
    m2.pool[E.ExprMem(E.ExprInt32(0x2000))] = E.ExprInt32(7)
    m2.pool[S.es] = E.ExprInt(MI.uint16(0x23))
    # nodes whose memo attributes are watched (hidden state): every node of the fixture expressions,
    # the module-level registers, the initial pool values
    watched, seen = [], set()

    def walk(e):
        if id(e) in seen or not isinstance(e, E.Expr):
            return
        seen.add(id(e))
        watched.append(e)
        for k in ('arg', 'cond', 'src1', 'src2', 'dst', 'src'):
            x = getattr(e, k, None)
            if isinstance(x, E.Expr):
                walk(x)
        if isinstance(e, E.ExprOp):
            for a in e.args:
                walk(a)
        if isinstance(e, E.ExprCompose):
            for a, _, _ in e.args:
                walk(a)
    for e in [f.w, f.T, f.U, f.Q, f.Q2, f.C, f.C2, f.pc, f.K, f.K2] + list(f.L) + f.regs:
        walk(e)
    for m in f.m[1:]:
        for k, v in sorted(m.pool.pool_id.items(), key=lambda kv: kv[0].name):
            walk(k)
            walk(v)
    f.watched = watched
    return f


def process_env():
    """interpreter-wide state a library has no business changing: the module search path (the private cache
    directory of this process is written <TMPDIR>)"""
    tmp = os.environ.get('TMPDIR', '/nonexistent')
    return [p.replace(tmp, '<TMPDIR>') for p in sys.path]


def defaults_state():
    """mutable default arguments of the API entry points (process-wide hidden state)"""
    c = _ctx
    fns = [('asm', c['A'].x86_mnemo_metaclass.asm), ('dis', c['A'].x86_mnemo_metaclass.dis),
           ('x86_mn.__init__', c['A'].x86_mn.__init__), ('get_instr_expr', c['EH'].get_instr_expr),
           ('dict_to_Expr', c['S'].dict_to_Expr)]
    for k, v in sorted(vars(c['EA'].eval_abs).items()):
        if callable(v) and getattr(v, '__defaults__', None):
            fns.append(('eval_abs.' + k, v))
    return [(n, fn.__defaults__) for n, fn in fns]


def tables_obj():
    c = _ctx
    A, R = c['A'], c['R']
    mod = {k: v for k, v in vars(A).items() if type(v) in (dict, list) and not k.startswith('__')}
    afs = {k: v for k, v in vars(R.x86_afs).items() if type(v) in (dict, list, tuple)}
    return {'db': vars(A.x86mndb), 'ia32_arch': mod, 'x86_afs': afs}


def lifter_tables():
    """the register tables the lifter indexes (lists of expressions): small, fingerprinted structurally every time (their
    pickle bytes vary with the memo attributes of the expressions)"""
    S = _ctx['S']
    d = {k: v for k, v in vars(S.ia32_rexpr).items() if type(v) in (dict, list, tuple)}
    d['init_regs'] = S.init_regs            # the table every x86_machine() starts from
    return d


class Tables(object):
    """canonical fingerprint of the shared tables; the 3 MB serialisation is recomputed only when a cheap
    exact digest (pickle bytes) says the structure may have changed"""

    def __init__(self):
        self.cache = {}

    def quick(self):
        return hashlib.md5(pickle.dumps(tables_obj(), 4)).hexdigest()

    def fp(self):
        q = self.quick()
        if q not in self.cache:
            self.cache[q] = fp(tables_obj())
        return self.cache[q]


def marks(nodes):
    """the is_eval attributes of the watched nodes (a mark may be any object: numbered by first appearance)"""
    seen, out = {}, []
    for n in nodes:
        v = n.is_eval
        if v is False or v is None:
            out.append('-')
        elif v is True:
            out.append('T')
        else:
            out.append(str(seen.setdefault(id(v), len(seen))))
    return ','.join(out)


def snapshot(f, tables, with_tables, first=False):
    """first: the snapshot before the first call of a history describes the tables as they were right after import, before the
    harness itself made API calls (x86_machine(), dis) to build the fixtures: a fixture-building call that changes a shared table
    shows up as a table change at the first call of every history"""
    snap = {'p': [fp(f.m[1].pool), fp(f.m[2].pool)],
            'x': [fp(getattr(f, n)) for n in FIXTURE_NAMES[:-1]] + [fp(process_env())],
            't': (tables.fp() + (_ctx.get('import_lifter_fp') if first and _ctx.get('import_lifter_fp') else fp(lifter_tables())[:6])) if with_tables else '',
            'e': hashlib.md5(marks(f.watched).encode()).hexdigest()[:8],
            's': hashlib.md5(''.join('1' if getattr(n, 'simp', False) else '0' for n in f.watched).encode()).hexdigest()[:8],
            'd': fp(defaults_state())[:8]}
    return snap


# ---------------------------------------------------------------------------------------------
# the call table: name -> (kind, machine, function(fixtures) -> value whose fingerprint is the result)
def _calls():
    c = _ctx
    A, E, S, EH, H = c['A'], c['E'], c['S'], c['EH'], c['H']
    mn = A.x86mnemo

    def asm(f, key):
        so = []
        return [mn.asm(f.lit[key], so), so]            # symbol_off is a documented output parameter

    def lift(f, ins):
        r = EH.get_instr_expr(ins, f.pc)                 # default `args`; the operand expressions come back in ins.arg_expr
        return [r, ins.arg_expr]

    def ev(f, m, e):
        return f.m[m].eval_expr(e, {})                   # eval_cache: a memo the caller provides, not part of the result

    def evi(f, m, ins):
        ex = EH.get_instr_expr(ins, E.ExprInt32(3), [])
        r = f.m[m].eval_instr(ex)
        return r

    def emul(f, m, lines):
        return EH.emul_lines(f.m[m], lines)

    def transient(f, bind_w, e):
        """a machine that lives for this one call: created, asked once, released (its memory can be handed to the next
        machine the process creates); with bind_w the identifier w is bound to 7 in it"""
        import gc
        out = []
        for _ in range(6):          # six lifetimes in a row: whatever an earlier machine left behind, one of these inherits its address
            m = EH.x86_machine()
            if bind_w:
                m.pool[f.w] = E.ExprInt32(7)
            out.append(m.eval_expr(e, {}))
            del m
            gc.collect()
        return out

    T = {
        'dis_mov': ('pure', 0, lambda f: mn.dis(f.lit['b_mov'])),
        'dis_shl': ('pure', 0, lambda f: mn.dis(f.lit['b_shl'])),
        'dis_in': ('pure', 0, lambda f: mn.dis(f.lit['b_in'])),
        'dis_movs': ('pure', 0, lambda f: mn.dis(f.lit['b_movs'])),
        'dis_fsm': ('pure', 0, lambda f: mn.dis(f.lit['b_fsm'])),
        'dis_m': ('pure', 0, lambda f: mn.dis(f.lit['b_m'])),
        'dis_m8': ('pure', 0, lambda f: mn.dis(f.lit['b_m8'])),
        'simp_C': ('pure', 0, lambda f: H.expr_simp(f.C)),
        'simp_C2': ('pure', 0, lambda f: H.expr_simp(f.C2)),
        'evi_L_m1': ('write', 1, lambda f: f.m[1].eval_instr(f.L)),
        'evi_L_m2': ('write', 2, lambda f: f.m[2].eval_instr(f.L)),
        'eval_C_m2': ('read', 2, lambda f: ev(f, 2, f.C)),
        'asm_mov': ('pure', 0, lambda f: asm(f, 't_mov')),
        'asm_shl': ('pure', 0, lambda f: asm(f, 't_shl')),
        'asm_in': ('pure', 0, lambda f: asm(f, 't_in')),
        'att_mov': ('pure', 0, lambda f: mn.asm_att(f.lit['t_att'])),
        'asm_bad': ('pure', 0, lambda f: asm(f, 't_bad')),
        'asm_syn': ('pure', 0, lambda f: asm(f, 't_syn')),
        'str_shl': ('pure', 0, lambda f: str(f.I_shl)),
        'att_shl': ('pure', 0, lambda f: f.I_shl.__str__('att_syntax')),
        'lift_shl': ('pure', 0, lambda f: lift(f, f.I_shl)),
        'str_sse': ('pure', 0, lambda f: str(f.I_sse)),
        'lift_popad': ('pure', 0, lambda f: lift(f, f.I_popad)),
        'emul_rep67_m2': ('write', 2, lambda f: emul(f, 2, [f.I_rep67])),
        'simp_T': ('pure', 0, lambda f: H.expr_simp(f.T)),
        'simp_S': ('pure', 0, lambda f: H.expr_simp(H.expr_simp(f.T))),
        'simp_U': ('pure', 0, lambda f: H.expr_simp(f.U)),
        'simp_w': ('pure', 0, lambda f: H.expr_simp(f.w)),
        'eval_eax_m2': ('read', 2, lambda f: ev(f, 2, S.eax)),
        'eval_w_m1': ('read', 1, lambda f: ev(f, 1, f.w)),
        'eval_w_m2': ('read', 2, lambda f: ev(f, 2, f.w)),
        'eval_es_m1': ('read', 1, lambda f: ev(f, 1, S.es)),
        'eval_es_m2': ('read', 2, lambda f: ev(f, 2, S.es)),
        'eval_T_m2': ('read', 2, lambda f: ev(f, 2, f.T)),
        'eval_U_m1': ('read', 1, lambda f: ev(f, 1, f.U)),
        'eval_U_m2': ('read', 2, lambda f: ev(f, 2, f.U)),
        'eval_mem_m1': ('read', 1, lambda f: ev(f, 1, f.Q)),
        'eval_abs_m1': ('read', 1, lambda f: ev(f, 1, f.Q2)),
        'eval_abs_m2': ('read', 2, lambda f: ev(f, 2, f.Q2)),
        'tmp_eval_w': ('pure', 0, lambda f: transient(f, False, f.w)),
        'tmp_eval_w7': ('pure', 0, lambda f: transient(f, True, f.U)),
        'new_machine': ('pure', 0, lambda f: sorted((str(k), str(v)) for k, v in EH.x86_machine().pool.pool_id.items())),
        'evi_add_m1': ('write', 1, lambda f: evi(f, 1, f.I_add)),
        'emul_pp_m1': ('write', 1, lambda f: emul(f, 1, [f.I_push, f.I_pop])),
        'emul_es_m1': ('write', 1, lambda f: emul(f, 1, [f.I_moves])),
        'emul_sete_m1': ('write', 1, lambda f: emul(f, 1, [f.I_sete])),
        'emul_rep3_m2': ('write', 2, lambda f: emul(f, 2, [f.I_movecx3, f.I_rep])),
        'emul_div_m2': ('write', 2, lambda f: emul(f, 2, [f.I_div])),
        'evi_setw_m1': ('write', 1, lambda f: f.m[1].eval_instr([E.ExprAff(f.w, E.ExprInt32(7))])),
    }

    # harness interventions (never part of a judged history): used to attribute a confirmed pollution to a channel
    def clear(f, attr):
        n = 0
        for node in f.watched:
            if attr in node.__dict__:
                del node.__dict__[attr]
                n += 1
        return n
    T['~clear_is_eval'] = ('harness', 0, lambda f: clear(f, 'is_eval'))
    T['~clear_simp'] = ('harness', 0, lambda f: clear(f, 'simp'))
    return T


def show(v):
    """short human-readable rendering of a result (replay files, Caches-model conformance)"""
    c = _ctx
    if isinstance(v, BaseException):
        return 'raise ' + exc_site(v)
    if isinstance(v, c['E'].Expr) or isinstance(v, c['A'].x86_mn):
        return str(v)
    if isinstance(v, (list, tuple)) and v and isinstance(v[0], (c['E'].Expr, list)) and len(v) == 2 and isinstance(v[1], (dict, list)):
        return show(v[0])
    if isinstance(v, (list, tuple)):
        return '[' + ', '.join(show(x) for x in v[:12]) + (', ...' if len(v) > 12 else '') + ']'
    if isinstance(v, bytes):
        return v.hex()
    return str(v)[:200]


def run_history(f, tables, calls, table, detail):
    """execute one history in this (child) process"""
    snaps = [snapshot(f, tables, True, first=True)]
    out = []
    n = len(calls)
    for j, name in enumerate(calls):
        kind, m, fn = table[name]
        raised = False
        try:
            v = fn(f)
        except Exception as x:
            v = x
            raised = True
        rec = {'c': name, 'r': fp(v), 'ex': raised}
        if detail:
            rec['show'] = show(v)[:300]
        out.append(rec)
        snaps.append(snapshot(f, tables, detail or j == n - 1))
    return {'calls': out, 'snaps': snaps}


def main():
    job = json.load(open(sys.argv[1]))
    c = _setup()
    table = _calls()
    _ctx['import_lifter_fp'] = fp(lifter_tables())[:6]       # before the harness makes its own API calls
    f = build_fixtures()
    tables = Tables()
    tables.fp()                                   # canonical table fingerprint of the fresh state (inherited by children)
    info = {'info': {'calls': {k: [v[0], v[1]] for k, v in table.items() if k[0] != '~'}, 'fixtures': FIXTURE_NAMES,
                     'tmpdir_files': sorted(os.listdir(os.environ.get('TMPDIR', '/tmp'))),
                     'watched': len(f.watched)}}
    outf = open(sys.argv[2], 'w')
    outf.write(json.dumps(info) + '\n')
    outf.flush()
    sys.setrecursionlimit(3000)
    gc.collect()
    gc.freeze()                                   # keep the inherited heap out of the children's collections
    for h in job['histories']:
        r, w = os.pipe()
        pid = os.fork()
        if pid == 0:
            code = 0
            try:
                os.close(r)
                try:
                    signal.alarm(job.get('timeout', 60))
                    res = run_history(f, tables, h['calls'], table, h.get('detail', False))
                except BaseException as x:       # harness failure inside the child: reported as such
                    res = {'harness_error': ''.join(traceback.format_exception(type(x), x, x.__traceback__))[-1500:]}
                res['id'] = h['id']
                data = json.dumps(res).encode()
                while data:
                    k = os.write(w, data)
                    data = data[k:]
            except BaseException:
                code = 3
            os._exit(code)
        os.close(w)
        chunks = []
        while True:
            d = os.read(r, 1 << 16)
            if not d:
                break
            chunks.append(d)
        os.close(r)
        _, st = os.waitpid(pid, 0)
        data = b''.join(chunks)
        if st != 0 or not data:
            data = json.dumps({'id': h['id'], 'harness_error': 'child exit status %r, %d bytes' % (st, len(data))}).encode()
        outf.write(data.decode() + '\n')
    outf.close()


if __name__ == '__main__':
    main()
