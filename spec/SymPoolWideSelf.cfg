CONSTANTS
 MaxStores = 3
 MaxLoads = 0
 Offs = {0,4,8,12,15}
 Ws = {32,64,128}
 Bases = {"c"}
 ValKinds = {"c"}
 LoadLast = FALSE
 AsCoded = FALSE
INIT PInit
NEXT PNext
INVARIANTS TypeOK ReplayOK NoOverlap FlattenOK LoadOK
CHECK_DEADLOCK FALSE
