------------------------------- MODULE T_C13 -------------------------------
(* C->S judge for C13 (canonical simplifier output).  Record:               *)
(*  [id, e, v (variant or [k |-> "none"]), runs: one entry per hash seed:   *)
(*      [st, se, sse, sv (trees), txt (rendered strings <<str se, str sv>>),  *)
(*       she, she2, shv: results when e and the variant are built over shared *)
(*       operand objects and e is simplified twice, then the variant]]        *)
(* Clauses: idempotent (simp(fresh(simp e)) = simp e), order-insensitive    *)
(* (simp(variant) = simp(e) for an AC-equivalent variant), seed-independent *)
(* (trees and strings identical for every PYTHONHASHSEED).                  *)
EXTENDS IRVar, Json, IOUtils
Recs == JsonDeserialize(IOEnv.TRACE)
Verdict(r) ==
   LET r1 == r.runs[1] IN
   IF \E j \in 1..Len(r.runs) : r.runs[j].st # "ok" THEN <<>>          \* non-termination / crashes are C05's clause
   ELSE IF r.v.k # "none" /\ ~ACEquiv(r.e, r.v) THEN <<[clause |-> "gen.variant_not_equivalent"]>>
   ELSE IF r1.sse # r1.se THEN <<[clause |-> "C13.idempotent"]>>
   ELSE IF r.v.k # "none" /\ r1.sv # r1.se THEN <<[clause |-> "C13.order_insensitive"]>>
   ELSE IF r1.she # r1.se \/ r1.she2 # r1.se THEN <<[clause |-> "C13.shared_objects.repeatable"]>>
   ELSE IF r.v.k # "none" /\ r1.shv # r1.se THEN <<[clause |-> "C13.shared_objects.order_insensitive"]>>
   ELSE IF \E j \in 2..Len(r.runs) : r.runs[j].se # r1.se \/ r.runs[j].sv # r1.sv \/ r.runs[j].txt # r1.txt
        THEN <<[clause |-> "C13.seed_independent"]>>
   ELSE <<>>
VARIABLE i
Init == i = 0
Next == \/ /\ i < Len(Recs) /\ i' = i + 1
           /\ LET v == Verdict(Recs[i']) IN
              IF v = <<>> THEN TRUE ELSE PrintT("VERDICT " \o ToJson([id |-> Recs[i'].id, v |-> v]))
        \/ /\ i = Len(Recs) /\ i' = i + 1 /\ PrintT("CONSUMED " \o ToString(Len(Recs)))
=============================================================================
