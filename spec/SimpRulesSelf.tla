---------------------------- MODULE SimpRulesSelf ----------------------------
(* Obligations of the simplifier-step model, checked by TLC on every tree of   *)
(* the 8-bit generator: one step preserves width and value (valuation grid),   *)
(* and iterating the root step reaches a fixpoint within 12 steps.             *)
EXTENDS SimpRules
CONSTANTS MaxNodes, Ws, IdsPer, BinOps, UnOps, Rich
VARIABLES stack, nodes
Gen == INSTANCE IRGen
Init == Gen!Init
Next == Gen!Next
Grid == {0, 1, 2, 7, 8, 127, 128, 255}
Env(x, y) == [id |-> [x8 |-> <<x>>, y8 |-> <<y>>], seed |-> 0, over |-> <<>>]
StepSound == Len(stack) = 1 =>
   LET e == stack[1] f == Renorm(Step(e)) IN
   /\ Width(f) = Width(e)      \* an intermediate step may leave a one-operand & | ^ + * node (removed by the next step)
   /\ \A x \in Grid, y \in Grid : Eval(f, Env(x, y)) = Eval(e, Env(x, y))
Terminates == Len(stack) = 1 => LET g == Iter(stack[1], 12) IN Step(g) = g
=============================================================================
