CONSTANTS
 NG = 64
 K = 6
INIT Init
NEXT Next
INVARIANT RWOK
INVARIANT ExtOK
CHECK_DEADLOCK FALSE
