#!/bin/sh
# usage: tools/seed_reeval.sh <seed name> [tier]   re-runs the check on an already recorded seeded change and updates its meta.json
NAME=$1; TIER=${2:-quick}
OUT=/verif/seeded/$NAME
ID=$(python3 -c "import json;print(json.load(open('$OUT/meta.json'))['property'])")
res=$(/verif/tools/mutate.sh "$OUT/patch.diff" "$ID" "$TIER" "$OUT/demo.py" 2>&1); rc=$?
echo "$res" | tail -4
python3 - "$OUT" "$rc" "$TIER" <<PY
import sys, json
out, rc, tier = sys.argv[1:4]
res = """$res"""
m = json.load(open(out + '/meta.json'))
if not m.get('detected_by_check') and 'first_evaluation' not in m:
    m['first_evaluation'] = {'detected_by_check': False, 'check_output_tail': m.get('check_output_tail')}
m['detected_by_check'] = int(rc) == 0
m['tier'] = tier
m['check_output_tail'] = res.strip().splitlines()[-6:]
json.dump(m, open(out + '/meta.json', 'w'), indent=1)
PY
exit $rc
