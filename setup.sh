#!/bin/sh
# Offline setup: parse every specification module and discharge the spec-internal obligations.
cd "$(dirname "$0")/spec" || exit 2
J="java -Xss16m -XX:+UseParallelGC -XX:ParallelGCThreads=4 -cp /opt/veriftools/tla/tla2tools.jar:/opt/veriftools/tla/CommunityModules-deps.jar"
S=$(mktemp -d /var/tmp/verif_setup.XXXXXX)
rc=0
for f in *.tla; do
  $J tla2sany.SANY "$f" > "$S/sany.out" 2>&1 || { echo "SANY failed: $f"; tail -20 "$S/sany.out"; rc=2; }
  grep -q "Semantic errors\|Parse Error\|Fatal errors" "$S/sany.out" && { echo "SANY errors: $f"; grep -A5 "rror" "$S/sany.out" | head -20; rc=2; }
done
for m in $(ls *Self.cfg | sed "s/\.cfg$//"); do
  [ -f "$m.cfg" ] || continue
  timeout 900 $J tlc2.TLC -workers 16 -metadir "$S/md_$m" -noGenerateSpecTE -config "$m.cfg" "$m.tla" > "$S/$m.out" 2>&1
  if grep -q "Model checking completed. No error has been found." "$S/$m.out"; then
    echo "self-check $m: $(grep 'distinct states found' "$S/$m.out" | tail -1)"
  else echo "self-check $m FAILED"; tail -30 "$S/$m.out"; rc=2; fi
done
rm -rf "$S"
exit $rc
